"""C07 — architectural registers are independent cells with ISA-defined aliasing.

spec/regfile/RegFile.tla        the flat array-of-cells model (operand -> cells = the ISA aliasing)
spec/regfile/RegStore.tla       the two physical stores shaped like the code (shared timing files addressed by
                                wavefront offsets and lane stride, private emulation files, vcc/exec as masked
                                64-bit fields, release zeroing) in lockstep with RegFile
spec/regfile/MC_RegStore*.cfg   exhaustive: Refines / RYW / Alias / Frame / FreshCells; as-implemented configs must FAIL
spec/regfile/RegFileScen.tla    behaviours -> access histories executed on both real stores
spec/regfile/RegFileTrace.tla   every answer of the real stores (plus a full re-read of every live register after
                                every operation, logged as a difference) checked against RegFile
harness/cmd/c07                 the driver (emu.Wavefront; timing wavefront + CURegFileAccessor + SimpleRegisterFile
                                of a cu.Builder compute unit, real DispatchWf and s_endpgm release path;
                                life.go: work-group lifetimes on a real emu.ComputeUnit, FreshCells)
"""
import json
import os
import random
import re

import common
import vlib

LEVEL = 'model_checking'
RULE = ('cases = operations (dispatch / write / read / release) of access histories executed on BOTH real register '
        'stores (TLC -simulate behaviours of RegFileScen scaled to the real geometry + seeded random histories); after '
        'every operation every register of every live wavefront is re-read and compared with the flat model. '
        'distinct = distinct (store, call, register kind, RegCount, lane class, position in the allocation, number of '
        'co-resident wavefronts) tuples; non-trivial = multi-register or special-register operand, or an access made '
        'while >= 2 wavefronts are co-resident in the store')
DIRS = ['regfile']
TSPEC = {'dirs': DIRS, 'module': 'RegFileTrace.tla', 'cfg': 'RegFileTrace.cfg', 'timeout': 1500}
STRICT = 'RegFileTraceStrict.cfg'      # the intended design only (development aid, see design/C07.md)

DEV_WHAT = {
    'EmuVcchiW1': 'emu.Wavefront.WriteReg(vcc_hi, RegCount 1) masks vcc with 0xffffffff00000000: the low half is cleared '
                  'and the data is or-ed into the old high half',
    'EmuVccHalfC0R': 'emu.Wavefront read paths do not treat vcc_lo / vcc_hi with RegCount 0 (the decoder\'s 32-bit '
                     'default) as halves: ReadOperand returns the 64-bit pair, ReadReg(vcc_hi) returns the low half',
    'ExecHiNone': 'exec_hi is not handled by emu.Wavefront.ReadReg/WriteReg nor by cu.CURegFileAccessor (panic)',
    'EmuExecLoNone': 'emu.Wavefront.WriteReg / ReadReg do not handle exec_lo with RegCount < 2 (panic)',
    'EmuReadRegOver8': 'emu.Wavefront.ReadReg slices a 32-byte buffer: operands wider than 8 dwords panic',
}

COUNTS = [0, 1, 2, 3, 4, 8, 16]
SPECIAL_OPS = [('vcclo', 0), ('vcclo', 1), ('vcclo', 2), ('vcchi', 0), ('vcchi', 1), ('execlo', 0), ('execlo', 1),
               ('execlo', 2), ('exechi', 0), ('exechi', 1), ('m0', 0), ('m0', 1), ('scc', 0), ('scc', 1)]


def width(c):
    return c if c >= 2 else 1


def wbytes(k, c):
    if k == 'scc':
        return 1
    if k in ('vcchi', 'exechi', 'm0'):
        return 4
    return 4 * width(c)


# ------------------------------------------------------------------ histories
def rand_bytes(rng, n):
    mode = rng.random()
    if mode < 0.1:
        return [255] * n
    if mode < 0.15:
        return [0] * n
    return [rng.randrange(256) for _ in range(n)]


def write_op(rng, w, k, i, c, lane):
    nb = wbytes(k, c)
    r = rng.random()
    if k == 'scc':                              # architecturally one bit: only 0 and 1 are ever written
        bit = rng.randrange(2)
        if r < 0.3:
            return {'op': 'W', 'api': 'SET', 'w': w, 'k': k, 'i': i, 'c': 0, 'lane': lane, 'd': [bit]}
        if r < 0.7:
            return {'op': 'W', 'api': 'WO', 'w': w, 'k': k, 'i': i, 'c': c, 'lane': lane, 'd': [bit] + [0] * 7}
        return {'op': 'W', 'api': 'WB', 'w': w, 'k': k, 'i': i, 'c': c, 'lane': lane, 'd': [bit]}
    if (k, c) in (('vcclo', 2), ('execlo', 2), ('scc', 0)) and r < 0.25:
        return {'op': 'W', 'api': 'SET', 'w': w, 'k': k, 'i': i, 'c': c, 'lane': lane, 'd': rand_bytes(rng, nb)}
    if k in ('s', 'v') and r > 0.88:
        # the path the compute unit's load-return handlers and dispatcher use: the register file itself
        return {'op': 'W', 'api': 'WF', 'w': w, 'k': k, 'i': i, 'c': c, 'lane': lane, 'd': rand_bytes(rng, nb)}
    if nb <= 8 and r < 0.6:
        return {'op': 'W', 'api': 'WO', 'w': w, 'k': k, 'i': i, 'c': c, 'lane': lane, 'd': rand_bytes(rng, 8)}
    return {'op': 'W', 'api': 'WB', 'w': w, 'k': k, 'i': i, 'c': c, 'lane': lane, 'd': rand_bytes(rng, nb)}


def read_op(rng, w, k, i, c, lane):
    nb = wbytes(k, c)
    r = rng.random()
    if (k, c) in (('vcclo', 2), ('execlo', 2), ('scc', 0)) and r < 0.2:
        return {'op': 'R', 'api': 'GET', 'w': w, 'k': k, 'i': i, 'c': c, 'lane': lane}
    if k in ('s', 'v') and r > 0.9:
        return {'op': 'R', 'api': 'RF', 'w': w, 'k': k, 'i': i, 'c': c, 'lane': lane, 'd': [0] * width(c)}
    if r > 0.78:
        # the raw interface under the operand calls: emu.Wavefront.ReadReg / RegFileAccessor.ReadReg
        return {'op': 'R', 'api': 'RR', 'w': w, 'k': k, 'i': i, 'c': c, 'lane': lane}
    if r < 0.45:
        return {'op': 'R', 'api': 'RO', 'w': w, 'k': k, 'i': i, 'c': c, 'lane': lane}
    n = rng.choice([nb, nb, 64, 1, 2, 3, 4, 8, max(1, nb - 1), rng.randrange(1, 65)])
    return {'op': 'R', 'api': 'RB', 'w': w, 'k': k, 'i': i, 'c': c, 'lane': lane, 'n': n}


def pick_operand(rng, ns, nv):
    """(k, i, c, lane) valid for an allocation of ns scalar / nv vector registers."""
    r = rng.random()
    if r < 0.3 and ns > 0:
        c = rng.choice([x for x in COUNTS if width(x) <= ns])
        hi = ns - width(c)
        i = rng.choice([0, hi, hi, rng.randint(0, hi)])
        return 's', i, c, 0
    if r < 0.65 and nv > 0:
        c = rng.choice([x for x in COUNTS if width(x) <= nv])
        hi = nv - width(c)
        i = rng.choice([0, hi, hi, rng.randint(0, hi)])
        lane = rng.choice([0, 63, 1, 62, 31, 32, rng.randrange(64), rng.randrange(64)])
        return 'v', i, c, lane
    k, c = rng.choice(SPECIAL_OPS)
    return k, 0, c, 0


def paint(rng, w, ns, nv):
    """Non-zero values in the first and last register of a fresh wavefront (first and last lane): whatever a
    neighbour's write, dispatch or release spills over the boundary hits a register whose change is visible."""
    ops = []
    for i in sorted({0, ns - 1}):
        ops.append({'op': 'W', 'api': 'WB', 'w': w, 'k': 's', 'i': i, 'c': 1, 'lane': 0,
                    'd': [rng.randrange(1, 256) for _ in range(4)]})
    for lane in (0, 63):
        for i in sorted({0, nv - 1}):
            ops.append({'op': 'W', 'api': 'WB', 'w': w, 'k': 'v', 'i': i, 'c': 0, 'lane': lane,
                        'd': [rng.randrange(1, 256) for _ in range(4)]})
    return ops


class Allocator:
    """What the command processor's resource allocator guarantees: disjoint granule-aligned regions
    (16 scalar registers, 4 vector registers per lane; 3200 scalar registers, 256 vector registers per SIMD)."""

    def __init__(self):
        self.s = {}          # w -> (first granule, granules)
        self.v = {}          # w -> (simd, first granule, granules)

    def _fit(self, used, total, need, rng, policy):
        free = [g for g in range(total - need + 1) if all(g + need <= a or g >= a + n for a, n in used)]
        if not free:
            return None
        if policy == 'first':
            return free[0]
        if policy == 'adjacent':
            adj = [g for g in free if any(g == a + n or g + need == a for a, n in used)]
            return rng.choice(adj) if adj else free[0]
        if policy == 'stride':
            # regions a power of two apart: a wrong lane stride or a dropped address bit makes them collide
            far = [g for g in free if any(abs(g - a) in (8, 16, 32) for a, n in used)]
            return rng.choice(far) if far else rng.choice(free)
        return rng.choice(free)

    def place(self, w, ns, nv, rng, policy):
        sneed, vneed = max(1, -(-ns // 16)), max(1, -(-nv // 4))
        sg = self._fit(list(self.s.values()), 200, sneed, rng, policy)
        simds = list(range(4))
        rng.shuffle(simds)
        if policy in ('adjacent', 'stride') and self.v:
            simds.sort(key=lambda x: -sum(1 for q in self.v.values() if q[0] == x))
        for simd in simds:
            vg = self._fit([(a, n) for (sd, a, n) in self.v.values() if sd == simd], 64, vneed, rng, policy)
            if sg is not None and vg is not None:
                self.s[w] = (sg, sneed)
                self.v[w] = (simd, vg, vneed)
                return {'w': w, 'simd': simd, 'soff': sg * 64, 'voff': vg * 16}
        return None

    def free(self, w):
        self.s.pop(w, None)
        self.v.pop(w, None)


def random_history(rng, sid, nops):
    al = Allocator()
    live = {}
    ops = []
    nxt = 1
    policy = rng.choice(['first', 'adjacent', 'adjacent', 'random', 'stride', 'stride'])
    maxlive = rng.choice([1, 2, 3, 4])

    def dispatch():
        nonlocal nxt
        n = rng.choice([1, 1, 2])
        ns = rng.choice([16, 16, 32, 48, 10, 24, 102])
        nv = rng.choice([4, 8, 4, 8, 12, 16, 3, 6])
        wfs = []
        for _ in range(n):
            p = al.place(nxt, ns, nv, rng, policy)
            if p is None:
                break
            wfs.append(p)
            live[nxt] = (ns, nv)
            nxt += 1
        if wfs:
            ops.append({'op': 'D', 'wfs': wfs, 'ns': ns, 'nv': nv, 'sx': rng.choice([1, 1, 1, 1, 64, 16])})
            for p in wfs:
                ops.extend(paint(rng, p['w'], ns, nv))

    dispatch()
    while len(ops) < nops:
        r = rng.random()
        if not live or (r < 0.06 and len(live) < maxlive):
            dispatch()
            continue
        w = rng.choice(sorted(live))
        if r < 0.10 and len(ops) > 4:
            ops.append({'op': 'X', 'w': w})
            al.free(w)
            del live[w]
            continue
        ns, nv = live[w]
        k, i, c, lane = pick_operand(rng, ns, nv)
        if r < 0.65:
            ops.append(write_op(rng, w, k, i, c, lane))
            if rng.random() < 0.5:
                ops.append(read_op(rng, w, k, i, c, lane))
        else:
            ops.append(read_op(rng, w, k, i, c, lane))
    return {'id': sid, 'ops': ops}


def alias_history(rng, sid, ntriples):
    """Directed aliasing triples on one wavefront: read operand A, write an operand B that overlaps A but has another
    base register or another register count, read A again through the same call (and the mirror image). Nothing else
    is read in between, so an answer remembered inside the wavefront object from the first read is not refreshed."""
    al = Allocator()
    ns, nv = rng.choice([(32, 8), (16, 8), (48, 12)])
    p = al.place(1, ns, nv, rng, rng.choice(['first', 'random', 'stride']))
    ops = [{'op': 'D', 'wfs': [p], 'ns': ns, 'nv': nv, 'sx': rng.choice([1, 1, 64])}]
    ops.extend(paint(rng, 1, ns, nv))
    fam = {'vcc': [('vcclo', 0), ('vcclo', 1), ('vcclo', 2), ('vcchi', 0), ('vcchi', 1)],
           'exec': [('execlo', 0), ('execlo', 1), ('execlo', 2), ('exechi', 0), ('exechi', 1)]}

    def rd(api, k, i, c, lane):
        o = {'op': 'R', 'api': api, 'w': 1, 'k': k, 'i': i, 'c': c, 'lane': lane}
        if api == 'RB':
            o['n'] = wbytes(k, c)
        return o

    for _ in range(ntriples):
        r = rng.random()
        if r < 0.8:
            k, total = ('s', ns) if r < 0.6 else ('v', nv)
            lane = 0 if k == 's' else rng.choice([0, 63, rng.randrange(64)])
            ca = rng.choice([0, 1, 2, 2, 2, 3, 4])
            ia = rng.randint(0, total - width(ca))
            while True:
                cb = rng.choice([0, 1, 1, 2, 2, 3, 4, 8])
                if width(cb) > total:
                    continue
                ib = rng.randint(max(0, ia - width(cb) + 1), min(total - width(cb), ia + width(ca) - 1))
                if ib != ia or width(cb) != width(ca):
                    break
            a, b = (k, ia, ca, lane), (k, ib, cb, lane)
        else:
            f = fam[rng.choice(['vcc', 'exec'])]
            (ka, ca), (kb, cb) = rng.sample(f, 2)
            a, b = (ka, 0, ca, 0), (kb, 0, cb, 0)
        if rng.random() < 0.5:
            a, b = b, a
        api = 'RO' if wbytes(a[0], a[2]) <= 8 and rng.random() < 0.7 else rng.choice(['RB', 'RR'])
        ops.append(rd(api, *a))
        ops.append(write_op(rng, 1, *b))
        ops.append(rd(api, *a))
        if rng.random() < 0.3:
            ops.append(write_op(rng, 1, *a))
            ops.append(rd(api, *a))
    return {'id': sid, 'ops': ops}


def full_history(rng, sid, nops):
    """One wavefront owning every register a wavefront can have (s0..s101, v0..v255), a small neighbour on another
    SIMD: the extremes of the index and lane ranges."""
    simds = rng.sample(range(4), 2)
    ops = [{'op': 'D', 'ns': 102, 'nv': 256, 'sx': rng.choice([1, 64]),
            'wfs': [{'w': 1, 'simd': simds[0], 'soff': 64 * rng.randrange(0, 193), 'voff': 0}]}]
    sgran = ops[0]['wfs'][0]['soff'] // 64
    other = rng.choice([g for g in range(0, 199) if g + 1 <= sgran or g >= sgran + 7])
    ops.append({'op': 'D', 'ns': 16, 'nv': 4, 'sx': 1,
                'wfs': [{'w': 2, 'simd': simds[1], 'soff': 64 * other, 'voff': 16 * rng.randrange(0, 63)}]})
    while len(ops) < nops:
        r = rng.random()
        if r < 0.15:
            k, i, c, lane = pick_operand(rng, 16, 4)
            w = 2
        else:
            w = 1
            if r < 0.45:
                c = rng.choice(COUNTS)
                i = rng.choice([0, 102 - width(c), 102 - width(c), 100 - width(c) + 1, rng.randint(0, 102 - width(c))])
                k, lane = 's', 0
            elif r < 0.9:
                c = rng.choice(COUNTS)
                i = rng.choice([0, 256 - width(c), 256 - width(c), 128 - width(c), 127, 128, rng.randint(0, 256 - width(c))])
                i = max(0, min(i, 256 - width(c)))
                k, lane = 'v', rng.choice([0, 1, 31, 32, 62, 63, 63])
            else:
                (k, c), i, lane = rng.choice(SPECIAL_OPS), 0, 0
        ops.append(write_op(rng, w, k, i, c, lane))
        ops.append(read_op(rng, w, k, i, c, lane))
    return {'id': sid, 'ops': ops}


def life_history(rng, sid):
    """Lifetime history on the real emu.ComputeUnit: work-groups of kernels with different register counts are mapped,
    run and completed one after the other; every wavefront is observed before its first write (DF), then writes
    non-zero values all over its registers (many lanes) and ends."""
    nvs = [4, 8, 64, 256]
    rng.shuffle(nvs)
    seq = nvs[:rng.choice([2, 3, 4])]
    seq = [seq[0]] + seq                        # the same count twice in a row, then others, bigger and smaller
    seq += [rng.choice([4, 8, 8, 64]) for _ in range(rng.choice([1, 2]))]
    gens, nxt = [], 1
    for nv in seq:
        nwf = rng.choice([1, 1, 2]) if nv <= 64 else 1
        ns = rng.choice([16, 24, 48, 102])
        wfs = list(range(nxt, nxt + nwf))
        nxt += nwf
        ops = []
        for w in wfs:
            lanes = [0, 1, 2, 3, 63] + rng.sample(range(4, 63), 5 if nv < 256 else 2)
            for lane in lanes:
                c = rng.choice([x for x in COUNTS if width(x) <= nv and x >= min(nv, 4)] or [1])
                i = rng.choice([0, nv - width(c)])
                ops.append({'op': 'W', 'api': 'WB', 'w': w, 'k': 'v', 'i': i, 'c': c, 'lane': lane,
                            'd': [rng.randrange(1, 256) for _ in range(4 * width(c))]})
            for _ in range(3):
                k, i, c, lane = pick_operand(rng, ns, nv)
                ops.append(write_op(rng, w, k, i, c, lane))
                if rng.random() < 0.5:
                    ops.append(read_op(rng, w, k, i, c, lane))
        gens.append({'ns': ns, 'nv': nv, 'sx': rng.choice([64, 64, 16, 1] if nwf == 1 else [128, 64]), 'wfs': wfs,
                     'ka': rng.choice([[], [rng.randrange(256) for _ in range(8)]]),
                     'wg': rng.choice([[], [rng.randrange(256), rng.randrange(4), 0, 0]]),
                     'exec': rng.choice([[255] * 8, [rng.randrange(256) for _ in range(8)], [255] * 4 + [0] * 4]),
                     'ops': ops})
    return {'id': sid, 'ops': [], 'life': gens}


def scale_behaviour(beh, rng, sid):
    """A RegFileScen behaviour (2-dword scalar granules, 2-register vector granules, 3 lanes, 2 SIMDs)
    scaled to the real geometry: one model register = a block of real registers."""
    sblock = rng.choice([8, 16, 24])            # model granule (2) = 1..3 real granules of 16
    vblock = rng.choice([2, 4, 8])              # model granule (2) = 1..4 real granules of 4
    sbase = 64 * rng.randrange(0, 200 - 8 * sblock // 16 + 1)
    vbase = 16 * rng.randrange(0, (256 - 6 * vblock) // 4 + 1)
    lanes = [0, rng.choice([1, 31, 32, rng.randrange(1, 63)]), 63]
    simds = rng.sample(range(4), 2)
    live = {}
    ops = []
    for a in common.acts_to_steps(beh):
        if a['a'] == 'D':
            ns, nv = a['ns'] * sblock, a['nv'] * vblock
            live[a['w']] = (ns, nv)
            ops.append({'op': 'D', 'ns': ns, 'nv': nv, 'sx': rng.choice([1, 1, 1, 64]),
                        'wfs': [{'w': a['w'], 'simd': simds[a['simd']], 'soff': sbase + a['soff'] * sblock * 4,
                                 'voff': vbase + a['voff'] * vblock * 4}]})
            ops.extend(paint(rng, a['w'], ns, nv))
        elif a['a'] == 'X':
            live.pop(a['w'], None)
            ops.append({'op': 'X', 'w': a['w']})
        else:
            ns, nv = live[a['w']]
            k, c = a['k'], a['c']
            i, lane = 0, 0
            if k in ('s', 'v'):
                block, n = (sblock, ns) if k == 's' else (vblock, nv)
                ws = rng.choice([1, 1, 2, 4])
                if width(c) * ws > 16:
                    ws = 1
                delta = rng.choice([0, block - 1, 0])
                i = a['i'] * block + delta
                if ws > 1:
                    c = width(c) * ws
                if i + width(c) > n:
                    i = n - width(c)
                if i < 0:
                    i, c = 0, 1
                lane = lanes[a['lane']] if k == 'v' else 0
            ops.append(write_op(rng, a['w'], k, i, c, lane))
            ops.append(read_op(rng, a['w'], k, i, c, lane))
    return {'id': sid, 'ops': ops}


# ------------------------------------------------------------ run + validate
def run_driver(ctx, drv, scen, name):
    sfile = os.path.join(ctx.scratch, name + '.json')
    trace = os.path.join(ctx.scratch, name + '.ndjson')
    json.dump(scen, open(sfile, 'w'))
    p, stats = common.run_driver(ctx, drv, ['-scen', sfile, '-out', trace])
    if stats is None:
        raise vlib.Infra('driver failed: ' + p.stdout[-2000:])
    return trace, stats


def ev_sig(ev):
    return {k: ev.get(k) for k in ('e', 'st', 'api', 'k', 'c') if k in ev}


def validate(ctx, drv, trace, scen, cfg=None):
    """Validate a concatenated trace; report deviations and rejections with the single history that shows them."""
    cfg = cfg or TSPEC['cfg']
    by_id = {s['id']: s for s in scen}
    cur = trace
    for rnd in range(8):
        v = ctx.validate_trace(DIRS, TSPEC['module'], cfg, cur, timeout=TSPEC['timeout'])
        parts = vlib.split_traces(cur)
        if v['accepted']:
            ctx.cov['traces_validated_against_impl'] += len(parts)
            devs = sorted({(int(m.group(1)), m.group(2)) for m in
                           re.finditer(r'<<"DEVIATION", (\d+), "(\w+)">>', v['res'].out)})
            ctx.cov['deviation_events'] = ctx.cov.get('deviation_events', 0) + len(devs)
            seen = set()
            for line, name in devs:
                if name in seen:
                    continue
                seen.add(name)
                start, recs = next((s0, rs) for s0, rs in parts if s0 <= line < s0 + len(rs))
                ev = recs[line - start]
                key = (name, ev.get('st'), ev.get('api'), ev.get('k'), ev.get('c'))
                sig = {'kind': 'deviation', 'deviation': name}
                what = '%s: %s; first seen at %s' % (ctx.pid, DEV_WHAT.get(name, name), json.dumps(
                    {k: ev.get(k) for k in ('st', 'api', 'k', 'i', 'c', 'lane', 'd', 'a', 'msg') if k in ev})[:300])
                new = ctx.report_failure(what, sig, {'driver': {'cmd': 'c07', 'scenarios': [by_id[recs[0]['sc']]]},
                                                     'deviation': name, 'failing_index': line - start + 1,
                                                     'event': ev, 'key': list(key)})
                if new:
                    return False
            return True
        # a line no action explains: confirm on a fresh execution of that single history
        hw = v['highwater'] or 1
        start, bad = next(((s0, rs) for s0, rs in parts if s0 <= hw < s0 + len(rs)), parts[-1])
        sc = by_id[bad[0]['sc']]
        t2, _ = run_driver(ctx, drv, [sc], 'confirm_%d' % rnd)
        v2 = ctx.validate_trace(DIRS, TSPEC['module'], cfg, t2, timeout=TSPEC['timeout'])
        if v2['accepted']:
            raise vlib.Infra('rejection at line %d not reproduced on a fresh execution of history %d' % (hw, sc['id']))
        recs2 = vlib.split_traces(t2)[0][1]
        at = v2['highwater'] or 1
        ev = recs2[min(at, len(recs2)) - 1]
        sig = {'kind': 'trace_rejected'}
        sig.update(ev_sig(ev))
        what = '%s: real register store answered differently from the flat model at event #%d of history %d: %s' % (
            ctx.pid, at, sc['id'], json.dumps(ev)[:400])
        new = ctx.report_failure(what, sig, {'driver': {'cmd': 'c07', 'scenarios': [sc]}, 'failing_index': at,
                                             'event': ev, 'trace_spec': [DIRS, TSPEC['module'], cfg]})
        if new:
            return False
        rest = [r for s0, recs in parts if recs is not None and recs[0].get('sc') != sc['id'] for r in recs]
        if not rest:
            return True
        cur = os.path.join(ctx.scratch, 'rest_%d.ndjson' % rnd)
        vlib.write_ndjson(cur, rest)
    raise vlib.Infra('more than 8 rejected histories in one trace file')


# ---------------------------------------------------------- binding self-test
def corruptions():
    def pick(recs, rng, pred):
        idx = [i for i, r in enumerate(recs) if pred(i, r)]
        return rng.choice(idx) if idx else None

    def corrupt_answer(recs, rng):
        i = pick(recs, rng, lambda i, r: r['e'] == 'R' and r.get('a'))
        if i is None:
            return None
        recs[i]['a'][rng.randrange(len(recs[i]['a']))] ^= 0x10
        return recs

    def drop_write(recs, rng):
        def ok(i, r):
            if r['e'] != 'W' or not r['chg']:
                return False
            for q in recs[i + 1:i + 9]:
                if q['e'] == 'R' and all(q.get(f) == r.get(f) for f in ('st', 'w', 'k', 'i', 'c', 'lane')):
                    return True
            return False
        i = pick(recs, rng, ok)
        return None if i is None else recs[:i] + recs[i + 1:]

    def neighbour_disturbed(recs, rng):
        i = pick(recs, rng, lambda i, r: r['e'] == 'W' and r['k'] == 'v' and r['chg'])
        if i is None:
            return None
        w, c, v = recs[i]['chg'][0]
        lane = (c // 256) - 1
        other = 256 * ((lane + 1) % 64 + 1) + c % 256        # same register, next lane
        recs[i]['chg'].append([w, other, [1, 2, 3, 4]])
        return recs

    def lost_dword(recs, rng):
        i = pick(recs, rng, lambda i, r: r['e'] == 'W' and len(r['chg']) >= 2)
        if i is None:
            return None
        recs[i]['chg'].pop()
        return recs

    def wrong_half(recs, rng):
        i = pick(recs, rng, lambda i, r: r['e'] == 'W' and r['st'] == 'tim' and r['k'] == 'vcchi' and r['chg'])
        if i is None:
            return None
        recs[i]['chg'][0][1] = 106                            # the write landed in vcc_lo
        return recs

    def release_zeroes_neighbour(recs, rng):
        i = pick(recs, rng, lambda i, r: r['e'] == 'X' and r['st'] == 'tim')
        if i is None:
            return None
        others = [q for q in recs[:i] if q['e'] == 'D' and q['st'] == 'tim' and q['w'] != recs[i]['w']]
        if not others:
            return None
        recs[i]['chg'].append([others[-1]['w'], 0, [9, 9, 9, 9]])
        return recs

    def held_answer_overwritten(recs, rng):
        i = pick(recs, rng, lambda i, r: r['e'] == 'Held' and any(len(x[1]) > 0 for x in r['h']))
        if i is None:
            return None
        x = rng.choice([x for x in recs[i]['h'] if len(x[1]) > 0])
        x[1][rng.randrange(len(x[1]))] ^= 0x01
        return recs

    return [('held_answer_overwritten', held_answer_overwritten), ('corrupt_read_answer', corrupt_answer), ('drop_write', drop_write),
            ('write_disturbs_next_lane', neighbour_disturbed), ('multi_register_write_loses_a_dword', lost_dword),
            ('vcc_hi_write_lands_in_vcc_lo', wrong_half), ('release_changes_a_neighbour', release_zeroes_neighbour)]


# ------------------------------------------------------------------- metrics
def life_corruptions():
    def stale_register(recs, rng):
        idx = [i for i, r in enumerate(recs) if r['e'] == 'DF' and r['nv'] >= 2]
        if not idx:
            return None
        r = recs[rng.choice(idx)]
        # v<nv-1> of a lane >= 2 holds something although the wavefront never wrote it
        r['init'].append([r['w'], 256 * (rng.randrange(2, 64) + 1) + r['nv'] - 1, [7, 0, 0, 1]])
        return recs

    def exec_not_initialised(recs, rng):
        idx = [i for i, r in enumerate(recs) if r['e'] == 'DF' and any(x[1] == 126 for x in r['init'])]
        if not idx:
            return None
        r = recs[rng.choice(idx)]
        r['init'] = [x for x in r['init'] if x[1] != 126]
        return recs

    return [('fresh_wavefront_holds_a_retired_wavefronts_value', stale_register),
            ('fresh_wavefront_lacks_its_exec_mask', exec_not_initialised)]


def measure(ctx, traces):
    evals, classes, nontrivial = 0, set(), set()
    for t in traces:
        for _, recs in vlib.split_traces(t):
            live = {'emu': 0, 'tim': 0}
            al = {}
            for r in recs:
                e = r['e']
                if e in ('D', 'DF'):
                    live[r['st']] += 1
                    al[(r['st'], r['w'])] = (r['ns'], r['nv'])
                elif e == 'X':
                    live[r['st']] -= 1
                if e not in ('D', 'DF', 'X', 'W', 'R', 'Panic'):
                    continue
                evals += 1
                if e in ('W', 'R', 'Panic'):
                    ns, nv = al.get((r['st'], r['w']), (0, 0))
                    n = ns if r['k'] == 's' else nv
                    pos = 'first' if r['i'] == 0 else ('last' if r['i'] + width(r['c']) == n else 'mid')
                    lane = r['lane'] if r['lane'] in (0, 63) else 'mid'
                    cl = (r['st'], e, r.get('api'), r['k'], r['c'], lane, pos, min(live[r['st']], 3))
                    classes.add(cl)
                    if width(r['c']) > 1 or r['k'] not in ('s', 'v') or live[r['st']] >= 2:
                        nontrivial.add(cl)
    return evals, len(classes), len(nontrivial)


def run(ctx, selftest=False):
    thorough = ctx.tier == 'thorough'
    drv = ctx.go_build('c07')
    rng = random.Random(ctx.seed * 7919 + 7)

    # 1. design level: both physical stores refine the flat array of cells
    for cfg in ['MC_RegStore_tim.cfg', 'MC_RegStore_emu.cfg']:
        cover = thorough or cfg.endswith('emu.cfg')        # -coverage doubles the cost; the actions are the same
        r = ctx.tlc_expect_ok(DIRS, 'MC_RegStore.tla', cfg, coverage=cover, workers=4, timeout=1200)
        zeros = r.coverage_zero() if cover else []
        ctx.log('%s: %d distinct states, depth %d%s' % (cfg, r.distinct, r.depth,
                                                       ', zero-coverage actions %s' % zeros if cover else ''))
        if zeros:
            raise vlib.Infra('vacuous model: actions never taken in %s: %s' % (cfg, zeros))
    ctx.cov['coverage_zero_actions'] = []
    # lifetimes: dispatch, write, retire, dispatch again with another register count (FreshCells)
    r = ctx.tlc_expect_ok(DIRS, 'MC_RegStore.tla', 'MC_RegStore_emu_life.cfg', workers=4, timeout=1200)
    ctx.log('MC_RegStore_emu_life.cfg: %d distinct states, depth %d' % (r.distinct, r.depth))
    # the pinned tree's deviations must break the model (they are what the traces below demonstrate on the code)
    for cfg, inv in [('MC_RegStore_asimpl_vcchi.cfg', 'Refines'), ('MC_RegStore_asimpl_halves.cfg', 'Refines'),
                     ('MC_RegStore_seeded_poolwipe.cfg', 'FreshCells')]:
        r = ctx.tlc(DIRS, 'MC_RegStore.tla', cfg, workers=2, timeout=600, kind='mc_expected_cex')
        if inv not in r.violated:
            raise vlib.Infra('as-implemented model %s unexpectedly satisfies every invariant:\n%s' % (cfg, r.out[-1500:]))
        ctx.log('%s: counterexample for %s as expected (%d states)' % (cfg, r.violated, r.distinct))
        ce = r.counterexample()
        if ce:
            ctx.sample({'as_implemented_counterexample': cfg, 'last_step': ce[-1][1].get('last')})
    if thorough:
        for cfg in ['MC_RegStore_tim_big.cfg', 'MC_RegStore_tim_deep.cfg', 'MC_RegStore_emu_big.cfg']:
            r = ctx.tlc_expect_ok(DIRS, 'MC_RegStore.tla', cfg, workers=min(vlib.NCPU, 8), timeout=3000)
            ctx.log('%s: %d distinct states, depth %d' % (cfg, r.distinct, r.depth))
    ctx.cov['exhaustive'] = True

    # 2. spec -> code: TLC behaviours scaled to the real geometry
    nsim = 300 if thorough else 40
    behs, _ = ctx.simulate(DIRS, 'RegFileScen.tla', 'RegFileScen.cfg', num=nsim, depth=16, timeout=1200)
    scen1 = [scale_behaviour(b, rng, i + 1) for i, b in enumerate(behs)]
    t1, st1 = run_driver(ctx, drv, scen1, 'scen')
    ctx.log('executed %d TLC behaviours on both stores: %s' % (len(scen1), st1))
    ctx.sample({'history_from_TLC_behaviour': scen1[0]['ops'][:1] + scen1[0]['ops'][7:12]})
    ok = validate(ctx, drv, t1, scen1)
    ctx.log('behaviour traces validated')

    # 3. code -> spec: seeded random histories over the whole domain
    nrand = 400 if thorough else 60
    nops = 160 if thorough else 90
    scen2 = [random_history(rng, 1000 + i, nops) for i in range(nrand)]
    scen2 += [full_history(rng, 5000 + i, 40) for i in range(12 if thorough else 3)]
    # directed aliasing triples (read A, write an overlapping B, read A again through the same call)
    scen2 += [alias_history(rng, 6000 + i, 30) for i in range(24 if thorough else 6)]
    # lifetime histories on the real emu.ComputeUnit (map -> run -> complete -> map the next work-group)
    life = [life_history(rng, 7000 + i) for i in range(24 if thorough else 4)]
    scen2 += life
    t2, st2 = run_driver(ctx, drv, scen2, 'rand')
    ctx.log('executed %d random histories on both stores: %s' % (len(scen2), st2))
    ctx.sample({'random_history_excerpt': scen2[0]['ops'][:1] + scen2[0]['ops'][7:12]})
    ctx.sample({'emu_lifetime_history': [{k: (g[k] if k != 'ops' else g[k][:2]) for k in g} for g in life[0]['life'][:3]]})
    if ok:
        ok = validate(ctx, drv, t2, scen2)
        ctx.log('random traces validated')

    evals, ncl, nnt = measure(ctx, [t1, t2])
    some = vlib.split_traces(t2)[0][1]
    ctx.sample({'trace_excerpt': [r for r in some if r['e'] in ('W', 'R')][:4]})
    ctx.cov.update({'evaluations': evals, 'distinct_nontrivial': nnt, 'distinct_classes': ncl,
                    'events_validated': st1['events'] + st2['events'],
                    'real_code_panics_seen': st1['panics'] + st2['panics']})

    # 4. binding self-test on a trace of the real stores
    if ok:
        common.selftest_binding(ctx, TSPEC, t2, corruptions())
        tl = os.path.join(ctx.scratch, 'life.ndjson')
        vlib.write_ndjson(tl, [r for _, recs in vlib.split_traces(t2) if recs[0].get('life') for r in recs])
        first = ctx.cov.get('binding_selftest', [])
        common.selftest_binding(ctx, TSPEC, tl, life_corruptions())
        ctx.cov['binding_selftest'] = first + ctx.cov['binding_selftest']
    ctx.assumptions += [
        'the driver reproduces ComputeUnit.handleMapWGReq/wrapWG (6 lines: NewWavefront, CURegFileAccessor, AddWf, '
        'DispatchWf) instead of delivering a MapWGReq, and ends wavefronts by handing s_endpgm to '
        'SchedulerImpl.DoIssue/EvaluateInternalInst',
        'wavefront placements obey what the command processor\'s resource allocator guarantees (disjoint '
        'granule-aligned regions); operands stay inside the registers the kernel declares',
        'M0 is observed through the public field, vcc/exec/scc through the public getters',
    ]


def replay(ctx, path):
    """Re-execute the recorded history on the real stores: exit 1 iff the recorded failure shows again (a line the
    specification cannot explain, or the recorded deviation of the intended design)."""
    rp = json.load(open(path))['replay']
    drv = ctx.go_build('c07')
    scen = rp['driver']['scenarios']
    t, _ = run_driver(ctx, drv, scen, 'replay')
    v = ctx.validate_trace(DIRS, TSPEC['module'], TSPEC['cfg'], t, timeout=TSPEC['timeout'])
    recs = [r for _, rs in vlib.split_traces(t) for r in rs]
    if not v['accepted']:
        at = v['highwater'] or 1
        print('replay: rejected at event #%d: %s' % (at, json.dumps(recs[min(at, len(recs)) - 1])[:400]))
        return 1
    devs = sorted({(int(m.group(1)), m.group(2)) for m in re.finditer(r'<<"DEVIATION", (\d+), "(\w+)">>', v['res'].out)})
    want = rp.get('deviation')
    hits = [(ln, n) for ln, n in devs if n == want]
    if want and hits:
        ln = hits[0][0]
        print('replay: %s at event #%d: %s' % (DEV_WHAT.get(want, want), ln, json.dumps(recs[ln - 1])[:400]))
        return 1
    print('replay: every answer of the real stores agrees with the flat model%s' % (
        ' (other listed deviations seen: %s)' % sorted({n for _, n in devs}) if devs else ''))
    return 0
