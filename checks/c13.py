"""C13 — loading a kernel by name yields exactly its code and metadata from the file.

spec/hsaco/HsacoOps.tla    abstract ELF code object, Load(file, name) as the rules of the two formats
                           (amd_kernel_code_t header, AMDHSA kernel descriptor) + the loader's documented rules
spec/hsaco/Hsaco.tla       the environment builds a file step by step; history variable `truth`; the property is
                           the invariant LoadIsTruth (+ AutoDetect, OthersRefused, AlwaysWellFormed)
spec/hsaco/MC_Hsaco*.cfg   exhaustive model checking (kernel kinds x placements x paddings x layouts x symbol orders
                           x unrelated symbols); MC_Hsaco_asimpl.cfg is EXPECTED to fail (descriptor offsets of the tree)
spec/hsaco/HsacoScen.tla   behaviours -> abstract files -> real ELF objects (harness/cmd/c13/elfw.go) -> real loader
spec/hsaco/HsacoTrace.tla  every File/Load/Fatal line of the real loader judged by Load
harness/cmd/c13            writes ELF objects, summarises files with debug/elf, calls the three public loader functions
"""
import hashlib
import json
import os
import random
import re
import struct

import common
import vlib
import tlaval

LEVEL = 'model_checking'
RULE = ('cases = loader calls (code object, kernel name, API) executed on the real insts.LoadKernelCodeObjectFrom* and '
        'judged by HsacoTrace; distinct = distinct (file digest, name); non-trivial = the file has >= 2 sized .text '
        'symbols, or a non-zero .text address, or the kernel has a descriptor, or its bytes carry the V2/V3 header '
        'signature, or the name is refused')
TSPEC = {'dirs': ['hsaco'], 'module': 'HsacoTrace.tla', 'cfg': 'HsacoTrace.cfg', 'timeout': 1500, 'heap': '6g'}

DEV_WHAT = {
    'KdRsrcOffByFour': 'insts.parseV5KernelDescriptor reads compute_pgm_rsrc3/rsrc1/rsrc2 at bytes 40/44/48 of the '
                       '64-byte kernel descriptor; the format (and every shipped gfx942 object) has them at 44/48/52: '
                       'ComputePgmRsrc1 receives rsrc3, ComputePgmRsrc2 receives rsrc1, register counts and '
                       'work-group-id / work-item-id enables are derived from the wrong words',
}


# ------------------------------------------------------------------ helpers
def limbs64(v):
    return [(v >> 48) & 0xffff, (v >> 32) & 0xffff, (v >> 16) & 0xffff, v & 0xffff]


def unlimbs(l):
    v = 0
    for x in l:
        v = (v << 16) | x
    return v


def abs_from_tla(f):
    """TLC value of the variable `file` -> abstract file for the driver."""
    return {'symtab': f['symtab'],
            'secs': [{'n': s['name'], 'a': list(s['addr']), 'd': list(s['data']), 'sz': len(s['data'])} for s in f['secs']],
            'syms': [{'n': s['name'], 'x': s['shndx'], 'v': list(s['value']), 's': list(s['size']), 't': 0}
                     for s in f['syms']]}


def looks_like_header(d):
    if len(d) < 256:
        return False
    b = bytes(d[:24])
    maj, mnr, kind, gen = struct.unpack_from('<IIHH', b, 0)
    entry, = struct.unpack_from('<Q', b, 16)
    return maj == 1 and mnr <= 2 and kind == 1 and 7 <= gen <= 9 and entry == 256


# ------------------------------------------------------------------ seeded random code objects
NAMES = ['vecadd', 'vecadd2', '_Z6kernelPfS_i', 'k', 'kk', 'k.cold', 'MatMul', 'a', 'ab', 'kern_kd', 'x.num', 'main']


def rand_bytes(rng, n):
    return [rng.randrange(256) for _ in range(n)]


def header_bytes(rng, near=None):
    h = bytearray(rand_bytes(rng, 256))
    struct.pack_into('<IIHH', h, 0, 1, rng.randint(0, 2), 1, rng.randint(7, 9))
    struct.pack_into('<Q', h, 16, 256)
    if near == 'maj':
        struct.pack_into('<I', h, 0, rng.choice([0, 2, 257, 1 << 16 | 1]))
    elif near == 'min':
        struct.pack_into('<I', h, 4, rng.choice([3, 4, 1 << 24]))
    elif near == 'kind':
        struct.pack_into('<H', h, 8, rng.choice([0, 2, 257]))
    elif near == 'gen':
        struct.pack_into('<H', h, 10, rng.choice([0, 6, 10, 11, 90]))
    elif near == 'entry':
        struct.pack_into('<Q', h, 16, rng.choice([0, 255, 257, 512, 256 + (1 << 32), 256 << 8]))
    return list(h)


def rand_file(rng, big=False, force_names=None, no_strip=False):
    """A well-formed code object far outside the model's bounds, as an abstract file."""
    mode = rng.choice(['rel', 'dyn', 'dyn', 'high'])
    secnames = ['.text']
    has_ro = rng.random() < 0.85
    if has_ro:
        secnames.append('.rodata')
    for extra in ['.note', '.dynsym', '.data', '.bss', '.comment', '.dynamic']:
        if rng.random() < 0.4:
            secnames.append(extra)
    rng.shuffle(secnames)
    stripped = rng.random() < 0.1 and not no_strip
    nk = 1 if stripped else rng.choice([1, 1, 2, 2, 3, 4, 6] + ([9, 14] if big else []))
    names = rng.sample(NAMES, min(nk, len(NAMES)))
    if force_names:                                       # kernels every image of a session has in common
        names = list(force_names) + [n for n in names if n not in force_names][:max(0, nk - len(force_names))]
        nk = len(names)
    while len(names) < nk:
        names.append('gen_%d' % len(names))
    text, rod = [], []
    if has_ro and rng.random() < 0.5:
        rod += rand_bytes(rng, rng.choice([4, 16, 64, 100]))
    syms = []
    kinds = {}
    addr = {}
    cur = rng.choice([0x1000, 0x2000, 0x100, 0x3004])
    for n in secnames:
        if mode == 'rel':
            addr[n] = 0
        elif mode == 'dyn':
            addr[n] = cur
            cur += rng.choice([0x1000, 0x2000, 0x340])
        else:
            addr[n] = rng.choice([(1 << 32), (1 << 48) + 0xffff0000, 0xffffffff00, (3 << 32) + 0xfffffffc]) + cur
            cur += 0x10000
    ti = secnames.index('.text') + 1
    ri = secnames.index('.rodata') + 1 if has_ro else 0
    others = [i + 1 for i, n in enumerate(secnames) if n not in ('.text', '.rodata')]
    for i, n in enumerate(names):
        kind = rng.choice(['v3', 'v3', 'v5', 'v5', 'v5', 'raw']) if has_ro else rng.choice(['v3', 'v3', 'raw'])
        if stripped:
            kind = rng.choice(['v3', 'raw'])
        kinds[n] = kind
        ncode = rng.choice([4, 8, 12, 64, 200, 256, 260, 400, 700, rng.randint(1, 90) * 4, rng.randint(1, 300)])
        if kind == 'v3' and rng.random() < 0.08:
            ncode = 0                                     # a header and nothing else
        code = rand_bytes(rng, ncode)
        if kind == 'v3':
            img = header_bytes(rng) + code
        elif kind == 'v5':
            r = rng.random()
            if r < 0.25:
                img = header_bytes(rng) + code          # instructions that look exactly like a header
            elif r < 0.35:
                img = header_bytes(rng)[:rng.randint(24, 255)]
            else:
                img = code
        else:
            r = rng.random()
            if r < 0.4:
                img = header_bytes(rng, near=rng.choice(['maj', 'min', 'kind', 'gen', 'entry'])) + code
            elif r < 0.5:
                img = header_bytes(rng)[:rng.randint(24, 255)]
            else:
                img = code
                if looks_like_header(img):
                    img[0] ^= 0x10
        if not stripped:
            text += rand_bytes(rng, rng.choice([0, 0, 4, 12, 256 - len(text) % 256 if len(text) % 256 else 0, rng.randint(0, 300)]))
        off = len(text)
        text += img
        syms.append({'n': n, 'x': ti, 'v': limbs64(addr['.text'] + off), 's': limbs64(len(img)), 't': 0})
        if kind == 'v5':
            rod += rand_bytes(rng, rng.choice([0, 0, 8, 64 - len(rod) % 64 if len(rod) % 64 else 0, rng.randint(0, 90)]))
            kd = bytearray(rand_bytes(rng, 64))
            r = rng.random()
            if r < 0.3:
                kd[8:12] = b'\0\0\0\0'                    # no kernel arguments
            if r > 0.6:
                kd[16:24] = b'\0' * 8
            if rng.random() < 0.3:
                for o in (44, 48, 52):                    # plausible small register words
                    struct.pack_into('<I', kd, o, rng.randrange(1 << rng.choice([3, 8, 13, 20])))
            syms.append({'n': n + '.kd', 'x': ri, 'v': limbs64(addr['.rodata'] + len(rod)), 's': limbs64(64), 't': 0})
            rod += list(kd)
            if rng.random() < 0.6:
                syms.append({'n': n + '.numbered_sgpr', 'x': 65521, 'v': limbs64(rng.choice([0, 1, 6, 10, 14, 30, 62, 100, 102, rng.randint(0, 300)])),
                             's': limbs64(0), 't': 0})
            if rng.random() < 0.6:
                syms.append({'n': n + '.num_vgpr', 'x': 65521, 'v': limbs64(rng.choice([0, 1, 3, 4, 5, 9, 64, 128, 255, 256, rng.randint(0, 520)])),
                             's': limbs64(0), 't': 0})
            for suf in ('.num_agpr', '.private_seg_size', '.uses_vcc'):
                if rng.random() < 0.3:
                    syms.append({'n': n + suf, 'x': 65521, 'v': limbs64(rng.randint(0, 9)), 's': limbs64(0), 't': 0})
        else:
            # things that must not be taken for a descriptor of this kernel
            r = rng.random()
            if r < 0.15 and has_ro and len(rod) >= 32:
                syms.append({'n': n + '.kd', 'x': ri, 'v': limbs64(addr['.rodata']), 's': limbs64(rng.choice([0, 32, 63, 65, 128])), 't': 0})
            elif r < 0.3:
                syms.append({'n': n + '.kd', 'x': rng.choice(others + [65521]), 'v': limbs64(0), 's': limbs64(64), 't': 0})
            if rng.random() < 0.2:
                syms.append({'n': n + '.num_vgpr', 'x': 65521, 'v': limbs64(rng.randint(0, 256)), 's': limbs64(0), 't': 0})
    if not stripped and rng.random() < 0.3:
        text += rand_bytes(rng, rng.randint(1, 64))
    # unrelated symbols
    for j in range(rng.choice([0, 1, 3, 6])):
        syms.append({'n': 'BB%d_%d' % (j, rng.randint(0, 9)), 'x': ti, 'v': limbs64(addr['.text'] + rng.randint(0, max(0, len(text) - 1))),
                     's': limbs64(0), 't': 0})
    if rng.random() < 0.4:
        syms.append({'n': '_DYNAMIC', 'x': rng.choice(others + [65521]), 'v': limbs64(rng.randint(0, 1 << 20)), 's': limbs64(0), 't': 0})
    if rng.random() < 0.3:
        syms.append({'n': '__hip_cuid_%x' % rng.randrange(1 << 32), 'x': rng.choice(others + [65521]), 'v': limbs64(0), 's': limbs64(1), 't': 0})
    if rng.random() < 0.3:
        syms.append({'n': 'extern_fn', 'x': 0, 'v': limbs64(0), 's': limbs64(rng.choice([0, 8])), 't': 0})
    if rng.random() < 0.3 and has_ro and rod:
        syms.append({'n': 'lut', 'x': ri, 'v': limbs64(addr['.rodata']), 's': limbs64(min(len(rod), 64)), 't': 0})
    for n in names:
        if rng.random() < 0.25:      # register-count symbols of kernels whose name merely starts alike
            syms.append({'n': n + '2.num_vgpr', 'x': 65521, 'v': limbs64(300), 's': limbs64(0), 't': 0})
            syms.append({'n': n[:-1] + '.numbered_sgpr', 'x': 65521, 'v': limbs64(200), 's': limbs64(0), 't': 0})
    # the extra symbols must not collide with the register-count symbols of a real kernel
    real = {n + suf for n in names for suf in ('.num_vgpr', '.numbered_sgpr', '.kd')} | set(names)
    seen, out = set(), []
    for s in syms:
        key = s['n']
        if key in seen and (key in real):
            continue
        seen.add(key)
        out.append(s)
    rng.shuffle(out)
    secs = []
    for n in secnames:
        d = text if n == '.text' else rod if n == '.rodata' else rand_bytes(rng, rng.choice([0, 8, 40]))
        secs.append({'n': n, 'a': limbs64(addr[n]), 'd': d, 'sz': len(d)})
    f = {'symtab': 0 if stripped else 1, 'secs': secs, 'syms': out}
    return f, {'kinds': kinds, 'mode': mode, 'stripped': stripped}


# ------------------------------------------------------------------ jobs, traces
def write_jobs(ctx, jobs, name):
    p = os.path.join(ctx.scratch, name + '.jobs.ndjson')
    with open(p, 'w') as f:
        for j in jobs:
            f.write(json.dumps(j) + '\n')
    return p


def run_jobs(ctx, drv, jobs, name):
    jp = write_jobs(ctx, jobs, name)
    t = os.path.join(ctx.scratch, name + '.ndjson')
    p, stats = common.run_driver(ctx, drv, ['-jobs', jp, '-out', t])
    if stats is None:
        raise vlib.Infra('c13 driver failed: ' + p.stdout[-2000:])
    return t, stats


def check_materialisation(trace, jobs):
    """The summary debug/elf gives of a written object must be the abstract file it was written from
    (guards elfw.go and the summariser: an error there is an infrastructure error, never a verdict)."""
    by_id = {j['id']: j for j in jobs if 'file' in j}
    # sessions: the images the buffers must hold after each put / patch step, in order
    expect = {j['id']: [st.get('file') or st.get('expect') for st in j['session'] if st['op'] in ('put', 'patch')]
              for j in jobs if 'session' in j}
    n = 0
    for line in open(trace):
        if '"e":"File"' not in line[:80] and '"File"' not in line[:200]:
            continue
        r = json.loads(line)
        if r.get('e') != 'File':
            continue
        if r['id'] in expect:
            f = expect[r['id']].pop(0)
            if f is None:
                continue
        elif r['id'] in by_id:
            f = by_id[r['id']]['file']
        else:
            continue
        secs = r['secs'][:len(f['secs'])]
        extra = [s['n'] for s in r['secs'][len(f['secs']):]]
        ok = len(secs) == len(f['secs']) and all(
            a['n'] == b['n'] and a['a'] == b['a'] and a['sz'] == len(b['d']) and
            (a['d'] == b['d'] if a['n'] in ('.text', '.rodata') else True) for a, b in zip(secs, f['secs']))
        ok = ok and set(extra) <= {'.symtab', '.strtab', '.shstrtab'} and r['symtab'] == f['symtab']
        if f['symtab']:
            ok = ok and [(s['n'], s['x'], s['v'], s['s']) for s in r['syms']] == \
                [(s['n'], s['x'], s['v'], s['s']) for s in f['syms']]
        else:
            ok = ok and r['syms'] == []
        if not ok:
            raise vlib.Infra('ELF writer / summariser mismatch on job %s' % r['id'])
        n += 1
    return n


def file_facts(frec):
    """Facts about a File record used for the distinct / non-trivial count."""
    secs = frec['secs']
    ti = next((i for i, s in enumerate(secs) if s['n'] == '.text'), None)
    ksyms = [s for s in frec['syms'] if 0 < s['x'] <= len(secs) and secs[s['x'] - 1]['n'] == '.text' and unlimbs(s['s']) > 0]
    kd = {s['n'][:-3] for s in frec['syms'] if s['n'].endswith('.kd') and unlimbs(s['s']) == 64}
    return {'nk': len(ksyms), 'taddr': unlimbs(secs[ti]['a']) if ti is not None else 0, 'kd': kd, 'ti': ti,
            'digest': hashlib.sha1(json.dumps([frec['symtab'], frec['secs'], frec['syms']]).encode()).hexdigest()[:16]}


def account(ctx, trace, seen, counters):
    facts = None
    frec = None
    per_buf = {}
    loaded = {}          # (buffer, name) -> digest of the image it was last loaded from (this process history)
    for line in open(trace):
        r = json.loads(line)
        e = r.get('e')
        if e == 'Reset':
            per_buf = {}
            if not r.get('session'):
                loaded = {}
        if e == 'File':
            frec, facts = r, file_facts(r)
            per_buf[r.get('buf', 0)] = (frec, facts)
            counters['files'] += 1
            if 'buf' in r:
                counters['buffer_rewrites'] = counters.get('buffer_rewrites', 0) + (1 if r.get('cv', 1) > 1 else 0)
        elif e in ('Still', 'Scribble'):
            counters[e] = counters.get(e, 0) + 1
        elif e in ('Load', 'Fatal', 'Panic'):
            if r.get('buf', 0) in per_buf:
                frec, facts = per_buf[r.get('buf', 0)]
            if 'k' in r:
                hk = (r['buf'], r.get('name'))
                if hk in loaded and loaded[hk] != facts['digest']:
                    counters['reloads_after_change'] = counters.get('reloads_after_change', 0) + 1
                loaded[hk] = facts['digest']
            counters['evaluations'] += 1
            counters[e] = counters.get(e, 0) + 1
            key = (facts['digest'], r.get('name'))
            nt = facts['nk'] >= 2 or facts['taddr'] != 0 or r.get('name') in facts['kd'] or e == 'Fatal'
            if e == 'Load' and not nt:
                text = frec['secs'][facts['ti']]['d']
                s = r['sym']
                if s['x'] > 0:
                    off = unlimbs(s['v']) - facts['taddr']
                    nt = looks_like_header(text[off:off + unlimbs(s['s'])])
            if nt and key not in seen:
                seen.add(key)
            if e == 'Load' and r.get('ver') == 5 and r.get('name') in facts['kd']:
                counters['v5'] += 1
            if e == 'Load' and r.get('ver') == 3:
                counters['v3'] += 1


def slim(recs, at=None):
    """A sub-trace without the bulk (for messages)."""
    out = []
    for r in recs:
        r = dict(r)
        if 'secs' in r:
            r['secs'] = [{'n': s['n'], 'a': s['a'], 'sz': s['sz']} for s in r['secs']]
        if 'data' in r and len(r['data']) > 16:
            r['data'] = r['data'][:16] + ['... %d bytes' % len(r['data'])]
        out.append(r)
    return out


def mismatch_signature(bad, at, v2):
    m = re.search(r'<<\s*"MISMATCH",\s*(\d+),\s*\{([^}]*)\}\s*>>', v2['res'].out, flags=re.S)
    fields = sorted(x.strip().strip('"') for x in m.group(2).split(',')) if m else []
    ev = bad[min(at, len(bad)) - 1] if bad else {}
    sig = {'fields': ','.join(fields)}
    if ev.get('e') in ('File', 'Reset'):
        raise vlib.Infra('the harness produced a file outside the property\'s scope (rejected at %s): %s' % (
            ev.get('e'), json.dumps(slim([ev]))[:600]))
    return sig


def judge(ctx, trace, label):
    """Validate a trace.  Accepted: every printed deviation becomes a known finding or a violation.
    Rejected: triage (violation whose replay is the failing job)."""
    tspec = dict(TSPEC)
    tspec['signature'] = mismatch_signature
    v = ctx.validate_trace(TSPEC['dirs'], TSPEC['module'], TSPEC['cfg'], trace, timeout=TSPEC['timeout'], heap=TSPEC['heap'])
    if not v['accepted']:
        common.validate_and_triage(ctx, tspec, trace, {'cmd': 'c13', 'label': label})
        return
    parts = vlib.split_traces(trace)
    ctx.cov['traces_validated_against_impl'] += len(parts)
    devs = sorted({(int(m.group(1)), m.group(2)) for m in re.finditer(r'<<"DEVIATION", (\d+), "(\w+)">>', v['res'].out)})
    if not devs:
        return
    # index: line -> (sub-trace start, records)
    starts = []
    pos = 1
    for st, recs in parts:
        starts.append((pos, recs))
        pos += len(recs)
    per_name = {}
    for line, name in devs:
        per_name.setdefault(name, []).append(line)
    for name, lines in per_name.items():
        ctx.cov.setdefault('deviation_lines', {})
        ctx.cov['deviation_lines'][name] = ctx.cov['deviation_lines'].get(name, 0) + len(lines)
        line = lines[0]
        st, recs = [(a, b) for a, b in starts if a <= line < a + len(b)][0]
        ev = recs[line - st]
        fev = [r for r in recs[:line - st] if r.get('e') == 'File' and r.get('buf', 0) == ev.get('buf', 0)][-1]
        sig = {'kind': 'deviation', 'deviation': name, 'event': ev.get('e')}
        what = '%s: %s; first seen loading %r from %s (%d such loads in this trace): loader returned rsrc1=%s rsrc2=%s rsrc3=%s' % (
            ctx.pid, DEV_WHAT.get(name, name), ev.get('name'), fev.get('path') or fev.get('id'), len(lines),
            ev['m']['r1'], ev['m']['r2'], ev['m']['r3'])
        ctx.report_failure(what, sig, {'driver': {'cmd': 'c13', 'label': label}, 'trace_spec': [TSPEC['dirs'], TSPEC['module'], TSPEC['cfg']],
                                       'failing_index': 3, 'trace': [recs[0], fev, ev]})



# ------------------------------------------------------------------ sessions: histories of loads through reused buffers
SENDPGM = [0, 0, 129, 191]     # s_endpgm, little endian


def kernel_size(f, name):
    ti = [x['n'] for x in f['secs']].index('.text') + 1
    return next(unlimbs(y['s']) for y in f['syms'] if y['n'] == name and y['x'] == ti)


def sessions_from_behaviours(ctx, res, rng):
    """TLC behaviours of HsacoSession -> session jobs (the environment steps, literally)."""
    jobs, samples = [], []
    for fn in sorted(os.listdir(res.dir)):
        if not fn.startswith('beh_'):
            continue
        text = open(os.path.join(res.dir, fn)).read()
        parts = tlaval._STATE_HDR.split(text)
        bodies = [re.split(r'^\\\*.*$|^=+\s*$', parts[i], flags=re.M)[0] for i in range(2, len(parts), 2)]
        steps, acts = [], []
        for b in bodies:
            ma = re.search(r'^/\\ act = (.*?)(?=^/\\ |\Z)', b, flags=re.M | re.S)
            a = tlaval.parse_value(ma.group(1))
            if a.get('a') in (None, 'Init'):
                continue
            acts.append(a)
            if a['a'] in ('Put', 'Patch'):
                mb = re.search(r'^/\\ bufs = (.*?)(?=^/\\ |\Z)', b, flags=re.M | re.S)
                f = abs_from_tla(tlaval.parse_value(mb.group(1))[a['b']])
                if a['a'] == 'Put':
                    steps.append({'op': 'put', 'buf': a['b'], 'file': f, 'gap': rng.choice([0, 8, 48])})
                else:
                    steps.append({'op': 'patch', 'buf': a['b'], 'sym': a['name'], 'skip': a['skip'], 'bytes': SENDPGM, 'expect': f})
            elif a['a'] == 'Load':
                steps.append({'op': 'load', 'buf': a['b'], 'name': a['name'], 'api': rng.choice(['bytes', 'bytes', 'bytes', 'fs', 'elf'])})
            elif a['a'] == 'Scribble':
                steps.append({'op': 'scribble', 'k': a['k'] - 1})
            steps.append({'op': 'check', 'k': -8})
        if any(st['op'] == 'load' for st in steps):
            jobs.append({'id': 'session/tlc/%s' % fn, 'session': steps})
            samples.append(acts)
    return jobs, samples


def random_session(rng, sid, shipped, big=False):
    """Images of several kinds streamed through two scratch buffers; the same kernel names asked again and again."""
    shared = rng.sample(NAMES, rng.choice([1, 1, 2]))
    steps = []
    held = {}                                             # buffer -> (file or None, names that can be loaded, kinds)
    for _ in range(rng.randint(4, 16 if big else 9)):
        b = rng.choice([0, 0, 0, 1])
        r = rng.random()
        if r < 0.55 or b not in held:
            if rng.random() < 0.2:
                steps.append({'op': 'put', 'buf': b, 'path': rng.choice(shipped)})
                held[b] = (None, None, None)
            else:
                f, info = rand_file(rng, force_names=shared, no_strip=rng.random() < 0.8)
                steps.append({'op': 'put', 'buf': b, 'file': f, 'gap': rng.choice([0, 4, 8, 100])})
                held[b] = (f, None if info['stripped'] else list(info['kinds']), info['kinds'])
        elif r < 0.75:
            f, names, kinds = held[b]
            if kinds is None:
                steps.append({'op': 'patch', 'buf': b, 'sym': '*', 'skip': -1, 'bytes': SENDPGM})
            elif names and f is not None:
                n = rng.choice(names)
                skip = 256 if kinds[n] == 'v3' else 0
                if kernel_size(f, n) >= skip + 4:
                    steps.append({'op': 'patch', 'buf': b, 'sym': n, 'skip': skip,
                                  'bytes': rng.choice([SENDPGM, SENDPGM, rand_bytes(rng, 4)])})
                    held[b] = (None, names, kinds)        # content no longer the generated one (names unchanged)
        elif r < 0.85:
            steps.append({'op': 'scribble', 'k': -1})
        else:
            steps.append({'op': 'check', 'k': -rng.randint(1, 5)})
        # loads of what the buffer holds now
        f, names, kinds = held[b]
        if kinds is None:                                 # a shipped object: the driver finds the names
            steps.append({'op': 'loadall', 'buf': b})
        elif names is None:                               # stripped image: any name gives all of .text
            steps.append({'op': 'load', 'buf': b, 'name': rng.choice(['', shared[0]]), 'api': 'bytes'})
        else:
            for n in [x for x in shared if x in names] + ([''] if len(names) == 1 else []):
                steps.append({'op': 'load', 'buf': b, 'name': n, 'api': rng.choice(['bytes', 'bytes', 'bytes', 'fs', 'elf'])})
        steps.append({'op': 'check', 'k': -3})
    return {'id': sid, 'session': steps}


def shipped_session(paths, rng):
    """Every shipped code object through ONE buffer, twice (forwards, then shuffled), with in-place patches."""
    steps = []
    order = list(paths) + rng.sample(paths, len(paths))
    for i, p in enumerate(order):
        steps.append({'op': 'put', 'buf': 0, 'path': p})
        steps.append({'op': 'loadall', 'buf': 0})
        if i % 7 == 3:
            steps.append({'op': 'patch', 'buf': 0, 'sym': '*', 'skip': -1, 'bytes': SENDPGM})
            steps.append({'op': 'loadall', 'buf': 0})
        if i % 11 == 5:
            steps.append({'op': 'scribble', 'k': -1})
        steps.append({'op': 'check', 'k': -2})
    return {'id': 'session/shipped', 'session': steps}

# ------------------------------------------------------------------ binding self-test
def corruptions():
    def loads(recs):
        return [i for i, r in enumerate(recs) if r['e'] == 'Load' and 'data' in r]

    def flip_data(recs, rng):
        idx = [i for i in loads(recs) if recs[i]['data']]
        if not idx:
            return None
        r = recs[rng.choice(idx)]
        r['data'][rng.randrange(len(r['data']))] ^= 1
        return recs

    def wrong_version(recs, rng):
        idx = loads(recs)
        if not idx:
            return None
        r = recs[rng.choice(idx)]
        r['ver'] = 8 - r['ver']
        return recs

    def swap_kernels(recs, rng):
        idx = loads(recs)
        for a in idx:
            for b in idx:
                if a < b and recs[a]['data'] != recs[b]['data']:
                    for k in ('data', 'sym', 'm', 'ver'):
                        recs[a][k], recs[b][k] = recs[b][k], recs[a][k]
                    return recs
        return None

    def corrupt_lds(recs, rng):
        idx = loads(recs)
        if not idx:
            return None
        r = recs[rng.choice(idx)]
        r['m']['lds'][1] = (r['m']['lds'][1] + 1) % 65536
        return recs

    def corrupt_sgpr(recs, rng):
        idx = loads(recs)
        if not idx:
            return None
        recs[rng.choice(idx)]['m']['sgpr'] += 8
        return recs

    def offset_error(recs, rng):
        idx = [i for i in loads(recs) if len(recs[i]['data']) > 4]
        if not idx:
            return None
        r = recs[rng.choice(idx)]
        r['data'] = r['data'][4:]
        return recs

    def load_becomes_fatal(recs, rng):
        idx = loads(recs)
        if not idx:
            return None
        i = rng.choice(idx)
        recs[i] = {'e': 'Fatal', 'name': recs[i]['name'], 'exit': 1, 'msg': 'corrupted'}
        return recs

    def fatal_becomes_load(recs, rng):
        fi = [i for i, r in enumerate(recs) if r['e'] == 'Fatal']
        li = loads(recs)
        if not fi or not li:
            return None
        r = dict(recs[li[0]])
        r['name'] = recs[fi[0]]['name']
        recs[fi[0]] = r
        return recs

    def enable_flag(recs, rng):
        idx = loads(recs)
        if not idx:
            return None
        r = recs[rng.choice(idx)]
        k = rng.randrange(10)
        r['m']['fl'][k] ^= 1
        return recs

    return [('flip_instruction_byte', flip_data), ('wrong_version', wrong_version), ('swap_two_kernels', swap_kernels),
            ('corrupt_lds_size', corrupt_lds), ('corrupt_sgpr_count', corrupt_sgpr), ('drop_first_instruction', offset_error),
            ('load_reported_as_refused', load_becomes_fatal), ('refused_name_loaded', fatal_becomes_load),
            ('flip_enable_flag', enable_flag)]


def session_corruptions():
    """Corruptions of a session trace: what a loader with a memory (or handing out shared objects) would log."""
    def later_loads(recs):
        # pairs (i, j): Load j comes after Load i, same buffer and name, different content version and different data
        ls = [i for i, r in enumerate(recs) if r['e'] == 'Load' and 'k' in r and 'data' in r]
        return [(i, j) for i in ls for j in ls if i < j and recs[i]['buf'] == recs[j]['buf'] and recs[i]['name'] == recs[j]['name']
                and recs[i]['cv'] != recs[j]['cv'] and recs[i]['data'] != recs[j]['data']]

    def stale_result(recs, rng):
        ps = later_loads(recs)
        if not ps:
            return None
        i, j = rng.choice(ps)
        for k in ('data', 'sym', 'm', 'ver'):
            recs[j][k] = recs[i][k]
        return recs

    def stale_code_only(recs, rng):
        ps = later_loads(recs)
        if not ps:
            return None
        i, j = rng.choice(ps)
        recs[j]['data'] = recs[i]['data']
        return recs

    def result_changed_later(recs, rng):
        idx = [i for i, r in enumerate(recs) if r['e'] == 'Still' and r['data']]
        if not idx:
            return None
        r = recs[rng.choice(idx)]
        r['data'][0] ^= 0xA5
        return recs

    def scribble_leaks(recs, rng):
        # a Still line of a result takes the metadata of ANOTHER result (shared metadata object)
        idx = [i for i, r in enumerate(recs) if r['e'] == 'Still']
        for a in idx:
            for b in idx:
                if recs[a]['k'] != recs[b]['k'] and recs[a]['m'] != recs[b]['m']:
                    recs[a]['m'] = recs[b]['m']
                    return recs
        return None

    return [('second_load_returns_first_result', stale_result), ('second_load_returns_old_code', stale_code_only),
            ('held_result_changes_later', result_changed_later), ('held_result_takes_other_metadata', scribble_leaks)]


# ------------------------------------------------------------------ scenario export
def states_of(path, pick):
    """Chosen states of a simulation file (parsed) and the `act` history of the whole behaviour."""
    text = open(path).read()
    parts = tlaval._STATE_HDR.split(text)
    bodies = [re.split(r'^\\\*.*$|^=+\s*$', parts[i], flags=re.M)[0] for i in range(2, len(parts), 2)]
    acts = []
    for b in bodies:
        m = re.search(r'^/\\ act = (.*?)(?=^/\\ |\Z)', b, flags=re.M | re.S)
        if m:
            acts.append(tlaval.parse_value(m.group(1)))
    return [tlaval.parse_state(bodies[i]) for i in pick(len(bodies))], acts


def shipped_jobs():
    out = []
    root = os.path.join(vlib.REPO, 'amd')
    for d, _, fs in sorted(os.walk(root)):
        for f in sorted(fs):
            if f.endswith('.hsaco'):
                p = os.path.join(d, f)
                out.append({'id': os.path.relpath(p, vlib.REPO), 'path': p})
    return out


def run(ctx, selftest=False):
    thorough = ctx.tier == 'thorough'
    drv = ctx.go_build('c13')
    rng = random.Random(ctx.seed)

    # 1. design-level model checking
    if os.environ.get('VERIF_C13_SKIP_MC'):      # development aid (mutant sweeps): the models do not depend on /repo
        ctx.notes.append('model checking skipped (VERIF_C13_SKIP_MC)')
    else:
        model_check(ctx, thorough)
    bind(ctx, drv, rng, thorough)


def model_check(ctx, thorough):
    r = ctx.tlc_expect_ok(['hsaco'], 'MC_Hsaco.tla', 'MC_Hsaco.cfg', coverage=True, timeout=900)
    ctx.log('MC_Hsaco (2 kernels, all placements/paddings/orders, 2 layouts): %d distinct states, depth %d' % (r.distinct, r.depth))
    zeros = r.coverage_zero()
    r2 = ctx.tlc_expect_ok(['hsaco'], 'MC_Hsaco.tla', 'MC_Hsaco_noise.cfg', coverage=True, timeout=900)
    ctx.log('MC_Hsaco_noise (1 kernel among unrelated symbols, stripped files): %d distinct states' % r2.distinct)
    zeros = sorted(set(zeros) & set(r2.coverage_zero()))
    ctx.cov['coverage_zero_actions'] = zeros
    if zeros:
        raise vlib.Infra('vacuous model: actions never taken: %s' % zeros)
    neg = ctx.tlc(['hsaco'], 'MC_Hsaco.tla', 'MC_Hsaco_asimpl.cfg', timeout=600, kind='mc_expected_violation')
    if 'LoadIsTruth' not in neg.violated:
        raise vlib.Infra('the as-implemented model (descriptor words read 4 bytes early) was expected to violate '
                         'LoadIsTruth but did not:\n' + neg.out[-1500:])
    ctx.log('MC_Hsaco_asimpl: LoadIsTruth violated as expected (descriptor offsets of the current tree)')
    ctx.cov['as_implemented_model_violates'] = 'LoadIsTruth'
    r3 = ctx.tlc_expect_ok(['hsaco'], 'HsacoSession.tla', 'MC_HsacoSession.cfg', timeout=900)
    ctx.log('MC_HsacoSession (histories: 2 reused buffers, 4 images, put/patch/load/scribble): %d distinct states, depth %d' % (r3.distinct, r3.depth))
    neg2 = ctx.tlc(['hsaco'], 'HsacoSession.tla', 'MC_HsacoSession_memo.cfg', timeout=600, kind='mc_expected_violation')
    if 'FreshParse' not in neg2.violated:
        raise vlib.Infra('the memoising-loader model was expected to violate FreshParse but did not:\n' + neg2.out[-1500:])
    ctx.cov['memoising_loader_model_violates'] = 'FreshParse'
    if thorough:
        for mod, cfg in (('MC_Hsaco.tla', 'MC_Hsaco_noise_big.cfg'), ('MC_Hsaco.tla', 'MC_Hsaco_big.cfg'), ('MC_Hsaco.tla', 'MC_Hsaco_three.cfg'),
                         ('HsacoSession.tla', 'MC_HsacoSession_big.cfg')):
            rb = ctx.tlc_expect_ok(['hsaco'], mod, cfg, workers=min(vlib.NCPU, 8), timeout=3000, heap='8g')
            ctx.log('%s: %d distinct states, depth %d' % (cfg, rb.distinct, rb.depth))
        ctx.cov['exhaustive'] = True


def bind(ctx, drv, rng, thorough):
    seen = set()
    counters = {'files': 0, 'evaluations': 0, 'v5': 0, 'v3': 0}
    traces = []

    # 2. spec -> code: abstract files of TLC behaviours written as ELF objects and loaded by the real loader
    nsim = 160 if thorough else 36
    res = ctx.tlc(['hsaco'], 'HsacoScen.tla', 'HsacoScen.cfg', workers=1, timeout=900, simulate='file=beh,num=%d' % nsim,
                  depth=10, seed=ctx.seed, kind='simulate')
    if res.violated or not res.completed:
        raise vlib.Infra('simulation of HsacoScen failed: %s\n%s' % (res.violated, res.out[-1500:]))
    jobs = []
    acts = []
    for fn in sorted(os.listdir(res.dir)):
        if not fn.startswith('beh_'):
            continue
        sts, hist = states_of(os.path.join(res.dir, fn), lambda n: sorted({n - 1, rng.randrange(max(1, n // 2), n)}))
        for k, st in enumerate(sts):
            f = abs_from_tla(st['file'])
            if not any(s['n'] == '.text' and s['d'] for s in f['secs']):
                continue
            jobs.append({'id': 'scen/%s/%d' % (fn, k), 'file': f, 'gap': rng.choice([0, 8, 48])})
        acts.append([a for a in hist if a.get('a') != 'Init'])
    if not jobs:
        raise vlib.Infra('no scenario produced')
    t1, stats = run_jobs(ctx, drv, jobs, 'scen')
    nchk = check_materialisation(t1, jobs)
    ctx.log('TLC behaviours -> %d ELF objects (written, re-read: %d identical to the abstract file), loaded: %s' % (len(jobs), nchk, stats))
    ctx.sample({'TLC_behaviour_environment_steps': acts[0]})
    ctx.sample({'TLC_behaviour_environment_steps': acts[-1]})
    judge(ctx, t1, 'scen')
    account(ctx, t1, seen, counters)
    traces.append(t1)

    # 2b. thorough: EVERY distinct file of the exhaustively checked model MC_Hsaco.cfg goes through the real loader
    if thorough:
        rd = ctx.tlc(['hsaco'], 'MC_Hsaco.tla', 'MC_Hsaco.cfg', workers=4, timeout=1800, kind='dump', extra_args=['-dump', 'st'])
        if rd.violated or not rd.completed:
            raise vlib.Infra('state dump of MC_Hsaco failed:\n' + rd.out[-1500:])
        jobs1b = []
        text = open(os.path.join(rd.dir, 'st.dump')).read()
        for k, m in enumerate(re.finditer(r'^/\\ file = (.*?)(?=^/\\ |^State |\Z)', text, flags=re.M | re.S)):
            f = abs_from_tla(tlaval.parse_value(m.group(1)))
            if not any(x['n'] == '.text' and x['d'] for x in f['secs']):
                continue
            ti = [x['n'] for x in f['secs']].index('.text') + 1
            names = [y['n'] for y in f['syms'] if y['x'] == ti and unlimbs(y['s']) > 0]
            loads = [{'name': n, 'api': ['bytes', 'fs', 'elf'][(k + i) % 3]} for i, n in enumerate(names)]
            if len(names) == 1 or k % 9 == 0:
                loads.append({'name': '', 'api': 'bytes'})
            if k % 9 == 4:
                loads.append({'name': f['syms'][-1]['n'] + '.kd', 'api': 'bytes'})
            jobs1b.append({'id': 'state/%d' % k, 'file': f, 'gap': [0, 8, 48][k % 3], 'loads': loads})
        del text
        if len(jobs1b) < rd.distinct // 2:
            raise vlib.Infra('state dump: %d files from %d states' % (len(jobs1b), rd.distinct))
        t1b, stats1b = run_jobs(ctx, drv, jobs1b, 'states')
        check_materialisation(t1b, jobs1b)
        ctx.log('all %d distinct files of MC_Hsaco.cfg (%d states) loaded by the real loader: %s' % (len(jobs1b), rd.distinct, stats1b))
        judge(ctx, t1b, 'states')
        account(ctx, t1b, seen, counters)
        ctx.cov['model_states_replayed'] = len(jobs1b)
        del jobs1b

    # 3. seeded random code objects far beyond the model's bounds
    nrand = 700 if thorough else 110
    jobs2, kinds = [], {}
    for i in range(nrand):
        f, info = rand_file(rng, big=thorough)
        jobs2.append({'id': 'rand/%d/%d' % (ctx.seed, i), 'file': f, 'gap': rng.choice([0, 4, 8, 100])})
        for k in info['kinds'].values():
            kinds[k] = kinds.get(k, 0) + 1
    t2, stats2 = run_jobs(ctx, drv, jobs2, 'rand')
    check_materialisation(t2, jobs2)
    ctx.log('seeded random code objects: %d files, kernels by kind %s: %s' % (len(jobs2), kinds, stats2))
    judge(ctx, t2, 'rand')
    account(ctx, t2, seen, counters)
    traces.append(t2)

    # 4. every shipped code object
    sj = shipped_jobs()
    if len(sj) < 50:
        raise vlib.Infra('only %d .hsaco files found under %s/amd' % (len(sj), vlib.REPO))
    t3, stats3 = run_jobs(ctx, drv, sj, 'shipped')
    ctx.log('shipped code objects: %d files: %s' % (len(sj), stats3))
    judge(ctx, t3, 'shipped')
    account(ctx, t3, seen, counters)
    traces.append(t3)

    # 4b. histories: many loads in ONE process through REUSED image buffers (new image copied over the old one,
    #     image patched in place, same kernel name / "" asked again, results overwritten by their holders)
    nsess = 120 if thorough else 30
    rs = ctx.tlc(['hsaco'], 'HsacoSession.tla', 'HsacoSessionScen.cfg', workers=1, timeout=900,
                 simulate='file=beh,num=%d' % nsess, depth=14, seed=ctx.seed, kind='simulate')
    if rs.violated or not rs.completed:
        raise vlib.Infra('simulation of HsacoSession failed: %s\n%s' % (rs.violated, rs.out[-1500:]))
    sjobs, ssamples = sessions_from_behaviours(ctx, rs, rng)
    if len(sjobs) < nsess // 2:
        raise vlib.Infra('only %d sessions from %d behaviours of HsacoSession' % (len(sjobs), nsess))
    paths = [j['path'] for j in sj]
    nrs = 90 if thorough else 22
    sjobs += [random_session(rng, 'session/rand/%d/%d' % (ctx.seed, i), paths, big=thorough) for i in range(nrs)]
    sjobs.append(shipped_session(paths, rng))
    t4, stats4 = run_jobs(ctx, drv, sjobs, 'sessions')
    nchk = check_materialisation(t4, sjobs)
    if stats4.get('fatals'):
        ctx.notes.append('%d loader exits inside sessions (each is judged as a Fatal line)' % stats4['fatals'])
    ctx.sample({'TLC_session_steps': ssamples[0]})
    judge(ctx, t4, 'sessions')
    account(ctx, t4, seen, counters)
    traces.append(t4)
    ctx.log('sessions through reused buffers: %d from TLC behaviours, %d random, 1 over all %d shipped files twice '
            '(%d buffer images re-read identical to the model\'s): %s; %d reloads of a name after the buffer changed, '
            '%d results re-examined, %d scribbled' % (len(sjobs) - nrs - 1, nrs, len(paths), nchk, stats4,
                                                     counters.get('reloads_after_change', 0), counters.get('Still', 0),
                                                     counters.get('Scribble', 0)))
    if counters.get('reloads_after_change', 0) < 50:
        raise vlib.Infra('sessions reloaded a name from a changed buffer only %d times' % counters.get('reloads_after_change', 0))
    ctx.cov.update({'sessions': len(sjobs), 'reloads_after_buffer_changed': counters.get('reloads_after_change', 0),
                    'results_reexamined': counters.get('Still', 0), 'results_scribbled': counters.get('Scribble', 0),
                    'buffer_rewrites': counters.get('buffer_rewrites', 0)})

    for t in traces:
        for line in open(t):
            if '"e":"Load"' in line[:200] or '"Load"' in line[:40]:
                r = json.loads(line)
                if r.get('e') == 'Load':
                    ctx.sample({'load': slim([r])[0]})
                    break
    ctx.cov.update({'evaluations': counters['evaluations'], 'distinct_nontrivial': len(seen), 'files': counters['files'],
                    'loads_v5_descriptor': counters['v5'], 'loads_v3_header': counters['v3'],
                    'refusals': counters.get('Fatal', 0), 'panics': counters.get('Panic', 0),
                    'shipped_files': len(sj)})

    # 5. binding self-test (corruptions of a trace that was accepted: meaningless on a trace with violations)
    if ctx.violations:
        ctx.notes.append('binding self-test skipped: the traces of this run were not accepted')
    else:
        common.selftest_binding(ctx, TSPEC, t2, corruptions())
        first = ctx.cov.get('binding_selftest', [])
        common.selftest_binding(ctx, TSPEC, t4, session_corruptions())
        ctx.cov['binding_selftest'] = first + ctx.cov.get('binding_selftest', [])
    ctx.assumptions += ['debug/elf reads section and symbol tables correctly (the loader and the summariser both use it; '
                        'for written objects the summary is compared with the abstract file they were written from)',
                        'well-formed code objects: one .text, unique kernel names, one 64-byte .kd symbol per kernel, '
                        'kernel ranges inside .text; the V5 rules of the loader (forced work-group ids, kernarg pointer, '
                        'granulated register counts raised by *.numbered_sgpr / *.num_vgpr) are taken as documented rules',
                        'a header-less kernel without descriptor whose bytes carry the full five-field signature is '
                        'indistinguishable from a V2/V3 kernel in the file and is excluded']


def session_from_trace(recs):
    steps = []
    for r in recs:
        e = r.get('e')
        if e == 'File':
            st = dict(r['step'])
            if st['op'] == 'put' and 'path' not in st:
                st['file'] = {'symtab': r['symtab'], 'secs': [x for x in r['secs'] if x['n'] not in ('.symtab', '.strtab', '.shstrtab')],
                              'syms': [dict(x, t=0) for x in r['syms']]}
            steps.append(st)
        elif e in ('Load', 'Fatal', 'Panic'):
            steps.append({'op': 'load', 'buf': r.get('buf', 0), 'name': r['name'], 'api': r.get('api', 'bytes')})
        elif e == 'Still':
            steps.append({'op': 'check', 'k': r['k']})
        elif e == 'Scribble':
            steps.append({'op': 'scribble', 'k': r['k']})
    return {'id': recs[0].get('id', 'replay'), 'session': steps}


def job_from_trace(recs):
    if recs and recs[0].get('session'):
        return session_from_trace(recs)
    frec = next(r for r in recs if r.get('e') == 'File')
    loads = [{'name': r['name'], 'api': r.get('api', 'bytes')} for r in recs if r.get('e') in ('Load', 'Fatal', 'Panic')]
    if frec.get('path'):
        return {'id': frec['id'], 'path': frec['path'], 'loads': loads}
    f = {'symtab': frec['symtab'], 'secs': [s for s in frec['secs'] if s['n'] not in ('.symtab', '.strtab', '.shstrtab')],
         'syms': [dict(s, t=0) for s in frec['syms']]}
    return {'id': frec['id'], 'file': f, 'gap': 8, 'loads': loads}


def replay(ctx, path):
    rp = json.load(open(path))['replay']
    drv = ctx.go_build('c13')
    job = job_from_trace(rp['trace'])
    t, stats = run_jobs(ctx, drv, [job], 'replay')
    before = len(ctx.violations)
    judge(ctx, t, 'replay')
    return 1 if len(ctx.violations) > before else 0
