"""C19 — page migration preserves page contents and mappings.

spec/pmc/PMC.tla         design spec of the page migration controllers (requester + owner role per GPU),
                         network, memory controllers with storage, control side
spec/pmc/MC_PMC*.cfg     exhaustive model checking: ContentsCopied / NothingElseChanged / CompleteOnce /
                         OneAtATime / RoutedBack / InRange / AllServed (+ Progress under fairness)
spec/pmc/PMCScen.tla     behaviours -> environment scenarios replayed on real PageMigrationControllers
spec/pmc/PMCTrace.tla    port-event traces of the real controllers checked against PMC (storage = mem)
spec/pmc/Migration.tla   driver-side handshake (drain - shootdown - re-home - migrate - restart - reply)
spec/pmc/MigrationTrace.tla  port-event traces of the real driver.Driver (+ page table dumps)
"""
import json
import os

import common
import vlib

LEVEL = 'model_checking'
RULE = ('cases = environment runs (TLC -simulate behaviours of PMCScen + seeded adversarial environments) executed on '
        'real PageMigrationControllers, plus migration handshakes executed on the real driver.Driver; distinct = '
        'distinct event traces; non-trivial = run with >= 1 completed migration of >= 2 chunks whose chunk answers '
        'were reordered or whose ports were back-pressured, or >= 2 migrations overlapping in time, or (driver level) '
        'a completed handshake')
TSPEC = {'dirs': ['pmc'], 'module': 'PMCTrace.tla', 'cfg': 'PMCTrace.cfg', 'timeout': 1500}
DSPEC = {'dirs': ['pmc'], 'module': 'MigrationTrace.tla', 'cfg': 'MigrationTrace.cfg', 'timeout': 1500}


def _sig(bad, at, v2):
    ev = bad[min(at, len(bad)) - 1] if bad else {}
    s = {}
    if ev.get('e') == 'Panic':
        s['panic'] = str(ev.get('msg'))[:80]
    return s


TSPEC['signature'] = _sig
DSPEC['signature'] = _sig


# ------------------------------------------------------------------ PMC level
def corruptions():
    def pick(recs, rng, e, pred=lambda r: True):
        idx = [i for i, r in enumerate(recs) if r['e'] == e and pred(r)]
        return rng.choice(idx) if idx else None

    def corrupt_written_byte(recs, rng):
        i = pick(recs, rng, 'SendWrite')
        if i is None:
            return None
        recs[i]['data'][rng.randrange(len(recs[i]['data']))] ^= 0x10
        return recs

    def shift_write_address(recs, rng):
        i = pick(recs, rng, 'SendWrite')
        if i is None:
            return None
        recs[i]['addr'] += 64
        return recs

    def early_completion(recs, rng):
        # move a completion in front of the last write acknowledgement that precedes it
        i = pick(recs, rng, 'SendComplete')
        if i is None:
            return None
        g = recs[i]['g']
        js = [j for j in range(i) if recs[j]['e'] == 'RecvMem' and recs[j]['g'] == g and recs[j]['k'] == 'wd']
        if not js:
            return None
        j = js[-1]
        r = recs.pop(i)
        recs.insert(j, r)
        return recs

    def duplicate_completion(recs, rng):
        i = pick(recs, rng, 'SendComplete')
        if i is None:
            return None
        return recs[:i + 1] + [dict(recs[i])] + recs[i + 1:]

    def drop_chunk_write(recs, rng):
        i = pick(recs, rng, 'SendWrite')
        if i is None:
            return None
        wid, g = recs[i]['id'], recs[i]['g']
        return [r for r in recs if not (r.get('g') == g and r.get('id') == wid and
                                       r['e'] in ('SendWrite', 'MemTake', 'MemRsp', 'RecvMem'))]

    def stale_storage(recs, rng):
        i = pick(recs, rng, 'Storage')
        if i is None:
            return None
        recs[i]['bytes'][rng.randrange(len(recs[i]['bytes']))] ^= 1
        return recs

    def second_accept_mid_migration(recs, rng):
        # an Accept moved in front of the completion of the previous request of the same PMC
        acc = [i for i, r in enumerate(recs) if r['e'] == 'Accept']
        for a in acc[::-1]:
            g = recs[a]['g']
            prev = [i for i in range(a) if recs[i]['e'] == 'SendComplete' and recs[i]['g'] == g]
            env = [i for i in range(a) if recs[i]['e'] == 'EnvMig' and recs[i]['id'] == recs[a]['id']]
            if prev and env and env[0] < prev[-1]:
                r = recs.pop(a)
                recs.insert(prev[-1], r)
                return recs
        return None

    return [('corrupt_written_byte', corrupt_written_byte), ('shift_write_address', shift_write_address),
            ('completion_before_last_write_done', early_completion), ('duplicate_completion', duplicate_completion),
            ('drop_chunk_write', drop_chunk_write), ('stale_storage_dump', stale_storage),
            ('second_request_accepted_mid_migration', second_accept_mid_migration)]


def pmc_nontrivial(recs):
    done = sum(1 for r in recs if r['e'] == 'SendComplete')
    if not done:
        return False
    multi = any(r['e'] == 'EnvMig' and r['size'] >= 128 for r in recs)
    order = [r['id'] for r in recs if r['e'] == 'MemRsp']
    reordered = order != sorted(order)
    # overlap: a second EnvMig before the first completion
    firstc = next((i for i, r in enumerate(recs) if r['e'] == 'SendComplete'), len(recs))
    overlap = sum(1 for r in recs[:firstc] if r['e'] == 'EnvMig') >= 2
    return (multi and reordered) or overlap


def scen_from_behaviours(behs, seed):
    scen = []
    for i, b in enumerate(behs):
        steps = common.acts_to_steps(b)
        scen.append({'gpus': 2, 'frames': [0, 8, 16], 'frameChunks': 3, 'seed': seed * 1000 + i, 'steps': steps})
    return scen


def pmc_level(ctx, drv, thorough):
    # 1. design-level model checking
    r = ctx.tlc_expect_ok(['pmc'], 'MC_PMC.tla', 'MC_PMC.cfg', coverage=True, timeout=900)
    ctx.log('MC_PMC (2 GPUs, 2 serial migrations of <= 2 chunks): %d distinct states, depth %d' % (r.distinct, r.depth))
    ctx.cov['coverage_zero_actions'] = r.coverage_zero()
    if ctx.cov['coverage_zero_actions']:
        raise vlib.Infra('vacuity: actions never taken in MC_PMC: %s' % ctx.cov['coverage_zero_actions'])
    r = ctx.tlc_expect_ok(['pmc'], 'MC_PMC.tla', 'MC_PMC_conc.cfg', timeout=900)
    ctx.log('MC_PMC_conc (3 overlapping migrations, both directions and queued): %d distinct states' % r.distinct)
    r = ctx.tlc_expect_ok(['pmc'], 'MC_PMC.tla', 'MC_PMC_live.cfg', timeout=900)
    ctx.log('MC_PMC_live (Progress under fairness): %d distinct states' % r.distinct)
    if thorough:
        for cfg in ('MC_PMC_big.cfg', 'MC_PMC_3gpu.cfg', 'MC_PMC_cap2.cfg', 'MC_PMC_ser3.cfg'):
            r = ctx.tlc_expect_ok(['pmc'], 'MC_PMC.tla', cfg, workers=vlib.NCPU, timeout=3000)
            ctx.log('%s: %d distinct states, depth %d' % (cfg, r.distinct, r.depth))
        ctx.cov['exhaustive'] = True

    # 2. spec -> code: behaviours as scenarios
    nsim = 300 if thorough else 50
    behs, _ = ctx.simulate(['pmc'], 'PMCScen.tla', 'PMCScen.cfg', num=nsim, depth=150 if thorough else 110)
    scen = scen_from_behaviours(behs, ctx.seed)
    sfile = os.path.join(ctx.scratch, 'scen.json')
    json.dump(scen, open(sfile, 'w'))
    t1 = os.path.join(ctx.scratch, 'trace_scen.ndjson')
    p, stats = common.run_driver(ctx, drv, ['-scen', sfile, '-out', t1])
    if stats is None:
        raise vlib.Infra('driver failed: ' + p.stdout[-2000:])
    ctx.log('replayed %d TLC behaviours: %s' % (len(scen), stats))
    ctx.sample({'scenario_from_TLC_behaviour': scen[0]['steps'][:14]})
    common.validate_and_triage(ctx, TSPEC, t1, {'cmd': 'c19', 'scenarios': scen})

    # 3. code -> spec: seeded adversarial environments
    nrand = 400 if thorough else 50
    t2 = os.path.join(ctx.scratch, 'trace_rand.ndjson')
    args = ['-random', nrand, '-reqs', 6 if thorough else 5, '-maxchunks', 6 if thorough else 4, '-seed', ctx.seed, '-out', t2]
    p, stats2 = common.run_driver(ctx, drv, args)
    if stats2 is None:
        raise vlib.Infra('driver failed: ' + p.stdout[-2000:])
    ctx.log('random environments: %s' % stats2)
    common.validate_and_triage(ctx, TSPEC, t2, {'cmd': 'c19', 'args': args[:-1]})
    traces = [t1, t2]
    ev = stats['events'] + stats2['events']
    if thorough:
        # full-size pages (4 KiB = 64 chunks)
        t3 = os.path.join(ctx.scratch, 'trace_big.ndjson')
        args3 = ['-random', 6, '-reqs', 3, '-maxchunks', 64, '-seed', ctx.seed + 77, '-out', t3]
        p, stats3 = common.run_driver(ctx, drv, args3)
        if stats3 is None:
            raise vlib.Infra('driver failed: ' + p.stdout[-2000:])
        ctx.log('4 KiB pages: %s' % stats3)
        common.validate_and_triage(ctx, dict(TSPEC, heap='6g'), t3, {'cmd': 'c19', 'args': args3[:-1]})
        traces.append(t3)
        ev += stats3['events']
    return traces, ev


def run(ctx, selftest=False):
    thorough = ctx.tier == 'thorough'
    drv = ctx.go_build('c19')
    traces, ev = pmc_level(ctx, drv, thorough)

    parts = []
    for t in traces:
        parts += vlib.split_traces(t)
    distinct = {json.dumps([{k: v for k, v in r.items() if k != 'seq'} for r in recs], sort_keys=True) for _, recs in parts}
    nt = sum(1 for _, recs in parts if pmc_nontrivial(recs))
    ex = [{k: (v if k not in ('data', 'bytes', 'frames') else '...') for k, v in r.items()} for r in parts[-1][1][1:12]]
    ctx.sample({'trace_excerpt': ex})
    ctx.cov.update({'evaluations': len(parts), 'distinct_nontrivial': min(nt, len(distinct)), 'events_validated': ev,
                    'migrations_completed_on_real_pmcs': sum(1 for _, recs in parts for r in recs if r['e'] == 'SendComplete')})

    # 4. binding self-test
    common.selftest_binding(ctx, TSPEC, traces[1], corruptions())
    ctx.assumptions += ['akitabench mini engine and fake connection stand in for akita SerialEngine/DirectConnection',
                        'port hooks observe every message of the controllers (akita v4.9.0 defaultPort)',
                        'scripted memory controllers: byte-accurate storage, a request takes effect when it is answered',
                        'migrations issued concurrently never share a page; destinations are fresh pages (what the driver allocates)',
                        'page sizes are positive multiples of the 64-byte transfer unit (the property\'s quantifier)']


def replay(ctx, path):
    rp = json.load(open(path))['replay']
    drv = ctx.go_build('c19')
    d = rp['driver']
    t = os.path.join(ctx.scratch, 'replay.ndjson')
    tspec = TSPEC
    if 'scenarios' in d:
        sfile = os.path.join(ctx.scratch, 'scen.json')
        json.dump(d['scenarios'], open(sfile, 'w'))
        args = ['-scen', sfile, '-out', t]
    elif d.get('level') == 'driver':
        tspec = DSPEC
        args = d['args'] + ['-out', os.path.join(ctx.scratch, 'unused.ndjson'), '-drvout', t]
    else:
        args = d['args'] + [t]
    p, stats = common.run_driver(ctx, drv, args)
    if stats is None:
        raise vlib.Infra('driver failed: ' + p.stdout[-2000:])
    before = len(ctx.violations)
    common.validate_and_triage(ctx, tspec, t, d)
    return 1 if len(ctx.violations) > before else 0
