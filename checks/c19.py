"""C19 — page migration preserves page contents and mappings.

spec/pmc/PMC.tla         design spec of the page migration controllers (requester + owner role per GPU),
                         network, memory controllers with storage, control side
spec/pmc/MC_PMC*.cfg     exhaustive model checking: ContentsCopied / NothingElseChanged / CompleteOnce /
                         OneAtATime / RoutedBack / InRange / AllServed (+ Progress under fairness)
spec/pmc/PMCScen.tla     behaviours -> environment scenarios replayed on real PageMigrationControllers
spec/pmc/PMCTrace.tla    port-event traces of the real controllers checked against PMC (storage = mem)
spec/pmc/Migration.tla   driver-side handshake (drain - shootdown - re-home - migrate - restart - reply)
spec/pmc/MigrationTrace.tla  port-event traces of the real driver.Driver + page table changes and dumps;
                         GPUs are scripted stubs or real command processors in front of real PMCs (-sys)
"""
import json
import os
from concurrent.futures import ThreadPoolExecutor

import common
import vlib
import c19cp

LEVEL = 'model_checking'
RULE = ('cases = environment runs executed on the real code: (a) TLC -simulate behaviours of PMCScen and seeded '
        'adversarial environments on real PageMigrationControllers, (b) seeded migration handshakes on the real '
        'driver.Driver with scripted GPUs, (c) the same with real command processors and real PMCs, (d) TLC behaviours of CPCtrlScen and seeded environments on '
        'the real cp.CommandProcessor; distinct = distinct '
        'event traces; non-trivial = (a) >= 1 completed migration of >= 2 chunks whose chunk answers were reordered, or '
        '>= 2 migrations overlapping in time; (b, c) >= 1 completed handshake that re-homed a page; (d, part cpctrl) the '
        'real cp.CommandProcessor with scripted units: >= 2 request kinds and >= 2 requests answered')
TSPEC = {'dirs': ['pmc'], 'module': 'PMCTrace.tla', 'cfg': 'PMCTrace.cfg', 'timeout': 3000}


def dspec(ngpu):
    return {'dirs': ['pmc'], 'module': 'MigrationTrace.tla', 'cfg': 'MigrationTrace%d.cfg' % ngpu, 'timeout': 3000,
            'signature': _dsig}


def _psig(bad, at, v2):
    ev = bad[min(at, len(bad)) - 1] if bad else {}
    s = {'level': 'pmc'}
    if ev.get('e') == 'Panic':
        s['panic'] = str(ev.get('msg'))[:80]
    if v2['violated'] and at >= 2:
        s['event'] = bad[at - 2].get('e')   # an invariant broke in the state reached by the previous line
    return s


def _dsig(bad, at, v2):
    """Facts about a rejected driver-level trace: which responses were delivered to the driver and never read,
    and what the driver read last (a driver that went to sleep on unread responses shows up at Quiesce)."""
    ev = bad[min(at, len(bad)) - 1] if bad else {}
    s = {'level': 'driver'}
    if ev.get('e') == 'Panic':
        s['panic'] = str(ev.get('msg'))[:80]
    pre = bad[:at]
    unread = {}
    last = None
    for r in pre:
        if r['e'] == 'GPURsp':
            unread[r['k']] = unread.get(r['k'], 0) + 1
        elif r['e'] == 'RecvRsp':
            unread[r['k']] = unread.get(r['k'], 0) - 1
            last = r['k']
    s['unread'] = ','.join(sorted(k for k, n in unread.items() if n > 0))
    s['last_read'] = last
    if v2['violated'] and at >= 2:
        s['event'] = bad[at - 2].get('e')   # an invariant broke in the state reached by the previous line
    return s


TSPEC['signature'] = _psig


# ------------------------------------------------------------------ corruptions (binding self-test)
def _pick(recs, rng, e, pred=lambda r: True):
    idx = [i for i, r in enumerate(recs) if r['e'] == e and pred(r)]
    return rng.choice(idx) if idx else None


def pmc_corruptions(full):
    def corrupt_written_byte(recs, rng):
        i = _pick(recs, rng, 'SendWrite')
        if i is None:
            return None
        recs[i]['data'][rng.randrange(len(recs[i]['data']))] ^= 0x10
        return recs

    def shift_write_address(recs, rng):
        i = _pick(recs, rng, 'SendWrite')
        if i is None:
            return None
        recs[i]['addr'] += 64
        return recs

    def early_completion(recs, rng):
        # move a completion in front of the last write acknowledgement that precedes it
        i = _pick(recs, rng, 'SendComplete')
        if i is None:
            return None
        g = recs[i]['g']
        js = [j for j in range(i) if recs[j]['e'] == 'RecvMem' and recs[j]['g'] == g and recs[j]['k'] == 'wd']
        if not js:
            return None
        r = recs.pop(i)
        recs.insert(js[-1], r)
        return recs

    def duplicate_completion(recs, rng):
        i = _pick(recs, rng, 'SendComplete')
        if i is None:
            return None
        return recs[:i + 1] + [dict(recs[i])] + recs[i + 1:]

    def drop_chunk_write(recs, rng):
        i = _pick(recs, rng, 'SendWrite')
        if i is None:
            return None
        wid, g = recs[i]['id'], recs[i]['g']
        return [r for r in recs if not (r.get('g') == g and r.get('id') == wid and
                                       r['e'] in ('SendWrite', 'MemTake', 'MemRsp', 'RecvMem'))]

    def stale_storage(recs, rng):
        i = _pick(recs, rng, 'Storage')
        if i is None:
            return None
        recs[i]['bytes'][rng.randrange(len(recs[i]['bytes']))] ^= 1
        return recs

    def second_accept_mid_migration(recs, rng):
        # an Accept moved in front of the completion of the previous request of the same PMC
        acc = [i for i, r in enumerate(recs) if r['e'] == 'Accept']
        for a in acc[::-1]:
            g = recs[a]['g']
            prev = [i for i in range(a) if recs[i]['e'] == 'SendComplete' and recs[i]['g'] == g]
            env = [i for i in range(a) if recs[i]['e'] == 'EnvMig' and recs[i]['id'] == recs[a]['id']]
            if prev and env and env[0] < prev[-1]:
                r = recs.pop(a)
                recs.insert(prev[-1], r)
                return recs
        return None

    cs = [('corrupt_written_byte', corrupt_written_byte), ('completion_before_last_write_done', early_completion),
          ('drop_chunk_write', drop_chunk_write), ('second_request_accepted_mid_migration', second_accept_mid_migration)]
    if full:
        cs += [('shift_write_address', shift_write_address), ('duplicate_completion', duplicate_completion),
               ('stale_storage_dump', stale_storage)]
    return cs


def drv_corruptions(full):
    def wrong_device(recs, rng):
        i = _pick(recs, rng, 'PTChange')
        if i is None:
            return None
        recs[i]['dev'] = 1 if recs[i]['dev'] != 1 else 2
        return recs

    def copy_from_wrong_page(recs, rng):
        i = _pick(recs, rng, 'Cmd', lambda r: r['k'] == 'mig')
        if i is None:
            return None
        recs[i]['from'] += 1
        return recs

    def wrong_contents(recs, rng):
        i = _pick(recs, rng, 'GPURsp', lambda r: r['k'] == 'mig')
        if i is None:
            return None
        recs[i]['dig'] ^= 1
        return recs

    def copy_before_shootdown(recs, rng):
        # a page copy command moved in front of the last shootdown acknowledgement
        i = _pick(recs, rng, 'Cmd', lambda r: r['k'] == 'mig')
        if i is None:
            return None
        js = [j for j in range(i) if recs[j]['e'] == 'RecvRsp' and recs[j]['k'] == 'shoot']
        if not js:
            return None
        r = recs.pop(i)
        recs.insert(js[-1], r)
        return recs

    def duplicate_reply(recs, rng):
        i = _pick(recs, rng, 'Reply')
        if i is None:
            return None
        return recs[:i + 1] + [dict(recs[i])] + recs[i + 1:]

    def stale_final_mapping(recs, rng):
        i = _pick(recs, rng, 'Final')
        moved = {r['vpn'] for r in recs if r['e'] == 'PTChange'}
        if i is None or not moved:
            return None
        for e in recs[i]['pt']:
            if e[0] in moved:
                e[1] = 1 if e[1] != 1 else 2
                return recs
        return None

    cs = [('page_rehomed_on_wrong_device', wrong_device), ('copy_reads_wrong_physical_page', copy_from_wrong_page)]
    if full:
        cs += [('destination_contents_differ', wrong_contents), ('copy_before_last_shootdown_ack', copy_before_shootdown),
               ('mmu_answered_twice', duplicate_reply), ('final_table_maps_to_old_device', stale_final_mapping)]
    return cs


def pmc_nontrivial(recs):
    done = sum(1 for r in recs if r['e'] == 'SendComplete')
    if not done:
        return False
    multi = any(r['e'] == 'EnvMig' and r['size'] >= 128 for r in recs)
    order = [r['id'] for r in recs if r['e'] == 'MemRsp']
    reordered = order != sorted(order)
    firstc = next((i for i, r in enumerate(recs) if r['e'] == 'SendComplete'), len(recs))
    overlap = sum(1 for r in recs[:firstc] if r['e'] == 'EnvMig') >= 2
    return (multi and reordered) or overlap


def drv_nontrivial(recs):
    return any(r['e'] == 'Reply' for r in recs) and any(r['e'] == 'PTChange' for r in recs)


def scen_from_behaviours(behs, seed, slow_ctrl=False):
    scen = []
    for i, b in enumerate(behs):
        steps = common.acts_to_steps(b)
        scen.append({'gpus': 2, 'frames': [0, 8, 16], 'frameChunks': 3, 'seed': seed * 1000 + i, 'slowCtrl': slow_ctrl,
                     'steps': steps})
    return scen


def _drive(ctx, drv, args):
    p, stats = common.run_driver(ctx, drv, args)
    if stats is None:
        raise vlib.Infra('driver failed: ' + p.stdout[-2000:])
    return stats


def selftests(ctx, tspec, trace, corruptions, acc):
    """One TLC run per corruption, in parallel."""
    with ThreadPoolExecutor(max_workers=len(corruptions)) as ex:
        futs = [ex.submit(c19cp.selftest_one, ctx, tspec, trace, c) for c in corruptions]
        for f in futs:
            acc.selftest += f.result()


class Acc:
    """What the parallel phases produce."""

    def __init__(self):
        self.pmc_traces, self.drv_traces, self.events = [], [], 0
        self.first_drv = None
        self.selftest = []


# ------------------------------------------------------------------ phases
def phase_mc_pmc(ctx, thorough):
    w = vlib.NCPU // 2 if thorough else 3
    r = ctx.tlc_expect_ok(['pmc'], 'MC_PMC.tla', 'MC_PMC.cfg', coverage=True, timeout=900, workers=w)
    ctx.log('MC_PMC (2 GPUs, 3 serial migrations of <= 2 chunks, frames re-used): %d distinct states, depth %d' % (r.distinct, r.depth))
    zeros = c19cp.final_cov_zero(r)
    r = ctx.tlc_expect_ok(['pmc'], 'MC_PMC.tla', 'MC_PMC_conc.cfg', timeout=900, workers=w)
    ctx.log('MC_PMC_conc (3 overlapping migrations, both directions and queued): %d distinct states' % r.distinct)
    r = ctx.tlc_expect_ok(['pmc'], 'MC_PMC.tla', 'MC_PMC_live.cfg', timeout=900, workers=w)
    ctx.log('MC_PMC_live (Progress under fairness): %d distinct states' % r.distinct)
    if zeros:
        raise vlib.Infra('vacuity: actions never taken in MC_PMC: %s' % zeros)
    # control-port back-pressure with requests queued behind a stalled completion
    r = ctx.tlc_expect_ok(['pmc'], 'MC_PMC.tla', 'MC_PMC_ctrl.cfg', timeout=900, workers=w)
    ctx.log('MC_PMC_ctrl (3 requests queued at one PMC, completions not drained): %d distinct states' % r.distinct)
    r = ctx.tlc(['pmc'], 'MC_PMC.tla', 'MC_PMC_window.cfg', timeout=900, workers=w)
    if 'NoStalledWindow' not in r.violated:
        raise vlib.Infra('MC_PMC_window: the stalled-completion window is not reachable in the model (%s %s)' % (r.violated, r.error))
    r = ctx.tlc(['pmc'], 'MC_PMC.tla', 'MC_PMC_skipzero.cfg', timeout=900, workers=w)
    if 'ContentsCopied' not in r.violated:
        raise vlib.Infra('MC_PMC_skipzero: skipping the write of all-zero chunks must violate ContentsCopied (%s %s)' % (r.violated, r.error))
    r = ctx.tlc(['pmc'], 'MC_PMC.tla', 'MC_PMC_slot.cfg', timeout=900, workers=w)
    if not r.violated:
        raise vlib.Infra('MC_PMC_slot: the wrong accept guard (slot instead of busy flag) is not distinguished by the model')
    ctx.log('MC_PMC_window: stalled-completion window reachable; MC_PMC_slot (accept guard on the request slot): %s violated, as expected' % ','.join(r.violated))
    if thorough:
        for cfg in ('MC_PMC_big.cfg', 'MC_PMC_3gpu.cfg', 'MC_PMC_cap2.cfg', 'MC_PMC_ser3.cfg', 'MC_PMC_live2.cfg', 'MC_PMC_conc2.cfg'):
            r = ctx.tlc_expect_ok(['pmc'], 'MC_PMC.tla', cfg, workers=w, timeout=3000)
            ctx.log('%s: %d distinct states, depth %d' % (cfg, r.distinct, r.depth))


def phase_mc_mig(ctx, thorough):
    w = vlib.NCPU // 2 if thorough else 3
    r = ctx.tlc_expect_ok(['pmc'], 'MC_Migration.tla', 'MC_Migration.cfg', coverage=True, timeout=900, workers=w)
    ctx.log('MC_Migration (2 GPUs, 3 pages, 2 requests, intended design): %d distinct states, depth %d' % (r.distinct, r.depth))
    zeros = [z for z in c19cp.final_cov_zero(r) if 'MCHost' not in z]   # host actions: MC_Migration_host.cfg
    if zeros:
        raise vlib.Infra('vacuity: actions never taken in MC_Migration: %s' % zeros)
    r = ctx.tlc_expect_ok(['pmc'], 'MC_Migration.tla', 'MC_Migration_host.cfg', timeout=900, workers=w)
    ctx.log('MC_Migration_host (one handshake; the host allocates / writes / frees twice meanwhile): %d distinct states' % r.distinct)
    r = ctx.tlc(['pmc'], 'MC_Migration.tla', 'MC_Migration_relsrc.cfg', timeout=900, workers=w)
    if 'HeldApart' not in r.violated:
        raise vlib.Infra('MC_Migration_relsrc: releasing the source frame of a pending copy must violate HeldApart (%s %s)' % (r.violated, r.error))
    # the as-implemented reply slot is expected to lose a reply in the model (known finding C19-mmu-reply-overwritten)
    r = ctx.tlc(['pmc'], 'MC_Migration.tla', 'MC_Migration_asimpl.cfg', timeout=900, workers=w)
    if 'NoReplyDropped' not in r.violated:
        raise vlib.Infra('MC_Migration_asimpl: expected the NoReplyDropped counterexample, got %s %s' % (r.violated, r.error))
    ctx.log('MC_Migration_asimpl (one-slot reply as implemented): NoReplyDropped counterexample found, as expected')
    if thorough:
        r = ctx.tlc_expect_ok(['pmc'], 'MC_Migration.tla', 'MC_Migration_live.cfg', timeout=1800, workers=w)
        ctx.log('MC_Migration_live (Progress under fairness): %d distinct states' % r.distinct)
        for cfg in ('MC_Migration_req3.cfg', 'MC_Migration_big.cfg', 'MC_Migration_host3.cfg'):
            r = ctx.tlc_expect_ok(['pmc'], 'MC_Migration.tla', cfg, workers=w, timeout=3000)
            ctx.log('%s: %d distinct states, depth %d' % (cfg, r.distinct, r.depth))
        ctx.cov['exhaustive'] = True


def phase_scen(ctx, drv, thorough, acc):
    nsim = 400 if thorough else 40
    behs, _ = ctx.simulate(['pmc'], 'PMCScen.tla', 'PMCScen.cfg', num=nsim, depth=150 if thorough else 110)
    scen = scen_from_behaviours(behs, ctx.seed)
    # back-pressure on the completion path: all requests to one PMC, the control side takes a completion only
    # when another one is already stalled behind it (and lets a few cycles pass first)
    behs2, _ = ctx.simulate(['pmc'], 'PMCScen.tla', 'PMCScenCtrl.cfg', num=120 if thorough else 15, depth=130)
    scen += scen_from_behaviours(behs2, ctx.seed + 500, slow_ctrl=True)
    sfile = os.path.join(ctx.scratch, 'scen.json')
    json.dump(scen, open(sfile, 'w'))
    t1 = os.path.join(ctx.scratch, 'trace_scen.ndjson')
    stats = _drive(ctx, drv, ['-scen', sfile, '-out', t1])
    ctx.log('replayed %d TLC behaviours on real PMCs: %s' % (len(scen), stats))
    ctx.sample({'scenario_from_TLC_behaviour': scen[0]['steps'][:14]})
    common.validate_and_triage(c19cp.Sub(ctx, 'tri'), TSPEC, t1, {'cmd': 'c19', 'scenarios': scen})
    acc.pmc_traces.append(t1)
    acc.events += stats['events']
    # free-running: akita SerialEngine + DirectConnection + ideal memory controllers, nothing scripted
    t4 = os.path.join(ctx.scratch, 'trace_real.ndjson')
    args4 = ['-real', 200 if thorough else 12, '-reqs', 6, '-maxchunks', 6 if thorough else 4, '-seed', ctx.seed + 5, '-out', t4]
    stats4 = _drive(ctx, drv, args4)
    ctx.log('free-running on akita engine/connections/ideal memory: %s' % stats4)
    common.validate_and_triage(c19cp.Sub(ctx, 'tri'), TSPEC, t4, {'cmd': 'c19', 'args': args4[:-1]})
    acc.pmc_traces.append(t4)
    acc.events += stats4['events']


def phase_random(ctx, drv, thorough, acc):
    nrand = 400 if thorough else 40
    t2 = os.path.join(ctx.scratch, 'trace_rand.ndjson')
    args = ['-random', nrand, '-reqs', 6 if thorough else 5, '-maxchunks', 6 if thorough else 4, '-seed', ctx.seed, '-out', t2]
    stats2 = _drive(ctx, drv, args)
    ctx.log('random environments on real PMCs: %s' % stats2)
    common.validate_and_triage(c19cp.Sub(ctx, 'tri'), TSPEC, t2, {'cmd': 'c19', 'args': args[:-1]})
    acc.pmc_traces.append(t2)
    acc.events += stats2['events']
    selftests(ctx, TSPEC, t2, pmc_corruptions(thorough), acc)
    if thorough:
        # full-size pages (4 KiB = 64 chunks)
        t3 = os.path.join(ctx.scratch, 'trace_big.ndjson')
        args3 = ['-random', 4, '-reqs', 2, '-maxchunks', 64, '-seed', ctx.seed + 77, '-out', t3]
        stats3 = _drive(ctx, drv, args3)
        ctx.log('4 KiB pages: %s' % stats3)
        common.validate_and_triage(c19cp.Sub(ctx, 'tri'), dict(TSPEC, heap='6g'), t3, {'cmd': 'c19', 'args': args3[:-1]})
        acc.pmc_traces.append(t3)
        acc.events += stats3['events']


def drv_args(n, kind, ngpu, seed, sys=False, log2=12):
    a = ['-drv', n, '-drvkind', kind, '-drvgpus', ngpu, '-drvlog2', log2, '-seed', seed]
    if sys:
        a.append('-sys')
    return a


def run_drv(ctx, drv, acc, tag, n, kind, ngpu, seed, sys=False, log2=12, max_rounds=6):
    t = os.path.join(ctx.scratch, 'trace_drv_%s.ndjson' % tag)
    tp = os.path.join(ctx.scratch, 'trace_syspmc_%s.ndjson' % tag)
    base = drv_args(n, kind, ngpu, seed, sys, log2)
    args = base + ['-out', os.path.join(ctx.scratch, 'unused_%s.ndjson' % tag), '-drvout', t, '-syspmcout', tp]
    stats = _drive(ctx, drv, args)
    ctx.log('driver level [%s: %d GPUs, %s%s]: %s' % (tag, ngpu, kind, ', real CPs + PMCs' if sys else ', scripted GPUs', stats))
    common.validate_and_triage(c19cp.Sub(ctx, 'tri'), dspec(ngpu), t, {'cmd': 'c19', 'level': 'driver', 'ngpu': ngpu, 'args': base},
                               max_rounds=max_rounds)
    acc.drv_traces.append(t)
    if tag == 'stub2':
        acc.first_drv = t
    acc.events += stats['drv_events']
    if sys:
        common.validate_and_triage(c19cp.Sub(ctx, 'tri'), TSPEC, tp, {'cmd': 'c19', 'level': 'syspmc', 'ngpu': ngpu, 'args': base})
        acc.pmc_traces.append(tp)
        acc.events += stats['drv_pmc_events']


def phase_drv(ctx, drv, thorough, acc):
    run_drv(ctx, drv, acc, 'stub2', 400 if thorough else 40, 'normal', 2, ctx.seed)
    with ThreadPoolExecutor(max_workers=1) as ex:
        f = ex.submit(selftests, ctx, dspec(2), acc.first_drv, drv_corruptions(thorough), acc)
        phase_drv_rest(ctx, drv, thorough, acc)
        f.result()


def phase_drv_scen(ctx, drv, thorough, acc):
    """spec -> code at the driver level: behaviours of MigrationScen as MMU/GPU scenarios."""
    behs, _ = ctx.simulate(['pmc'], 'MigrationScen.tla', 'MigrationScen.cfg', num=200 if thorough else 25, depth=130)
    scen = [{'steps': common.acts_to_steps(b)} for b in behs]
    sfile = os.path.join(ctx.scratch, 'drvscen.json')
    json.dump(scen, open(sfile, 'w'))
    t = os.path.join(ctx.scratch, 'trace_drvscen.ndjson')
    stats = _drive(ctx, drv, ['-drvscen', sfile, '-drvout', t, '-out', os.path.join(ctx.scratch, 'unused_ds.ndjson')])
    ctx.log('replayed %d TLC behaviours on the real driver: %s' % (len(scen), stats))
    ctx.sample({'driver_scenario_from_TLC_behaviour': scen[0]['steps'][:12]})
    common.validate_and_triage(c19cp.Sub(ctx, 'tri'), dspec(2), t, {'cmd': 'c19', 'level': 'driverscen', 'ngpu': 2, 'scenarios': scen})
    acc.drv_traces.append(t)
    acc.events += stats['drv_events']


def phase_drv_rest(ctx, drv, thorough, acc):
    phase_drv_scen(ctx, drv, thorough, acc)
    # memory pressure: small device memory, the application allocates / fills / frees beside the migrations
    run_drv(ctx, drv, acc, 'press2', 200 if thorough else 40, 'pressure', 2, ctx.seed + 20)
    # scenarios exhibiting the known driver defects (accepted as soon as the fixes are applied)
    run_drv(ctx, drv, acc, 'known', 2, 'known', 2, ctx.seed)
    if thorough:
        run_drv(ctx, drv, acc, 'stub3', 200, 'normal', 3, ctx.seed + 1)
        run_drv(ctx, drv, acc, 'stub4', 100, 'normal', 4, ctx.seed + 2)
        run_drv(ctx, drv, acc, 'wild3', 60, 'wild', 3, ctx.seed + 3, max_rounds=40)


def phase_sys(ctx, drv, thorough, acc):
    run_drv(ctx, drv, acc, 'sys2', 60 if thorough else 6, 'normal', 2, ctx.seed + 10, sys=True, log2=8)
    run_drv(ctx, drv, acc, 'sysp2', 40 if thorough else 5, 'pressure', 2, ctx.seed + 13, sys=True, log2=8)
    if thorough:
        run_drv(ctx, drv, acc, 'press3', 100, 'pressure', 3, ctx.seed + 21)
        run_drv(ctx, drv, acc, 'sys3', 20, 'normal', 3, ctx.seed + 11, sys=True, log2=9)
        run_drv(ctx, drv, acc, 'sys2_4k', 3, 'normal', 2, ctx.seed + 12, sys=True, log2=12)


def run(ctx, selftest=False):
    thorough = ctx.tier == 'thorough'
    drv = ctx.go_build('c19')
    acc = Acc()
    cpres = {}
    jobs = [lambda: cpres.update(c19cp.run_component(ctx)), lambda: phase_mc_pmc(ctx, thorough), lambda: phase_mc_mig(ctx, thorough), lambda: phase_scen(ctx, drv, thorough, acc),
            lambda: phase_random(ctx, drv, thorough, acc), lambda: phase_drv(ctx, drv, thorough, acc),
            lambda: phase_sys(ctx, drv, thorough, acc)]
    with ThreadPoolExecutor(max_workers=len(jobs)) as ex:
        futs = [ex.submit(j) for j in jobs]
        errs = []
        for f in futs:
            try:
                f.result()
            except Exception as e:  # noqa: BLE001 - re-raised below, first one wins
                errs.append(e)
    if errs:
        raise errs[0]

    pparts, dparts = [], []
    for t in acc.pmc_traces:
        pparts += vlib.split_traces(t)
    for t in acc.drv_traces:
        dparts += vlib.split_traces(t)

    def strip(recs):
        return json.dumps([{k: v for k, v in r.items() if k != 'seq'} for r in recs], sort_keys=True)

    nontrivial = {strip(recs) for _, recs in pparts if pmc_nontrivial(recs)} | \
                 {strip(recs) for _, recs in dparts if drv_nontrivial(recs)}
    ex1 = [{k: (v if k not in ('data', 'bytes', 'frames') else '...') for k, v in r.items()} for r in pparts[0][1][1:10]]
    ctx.sample({'pmc_trace_excerpt': ex1})
    ctx.sample({'driver_trace_excerpt': dparts[0][1][1:14]})
    ctx.cov.update({'evaluations': len(pparts) + len(dparts), 'distinct_nontrivial': len(nontrivial),
                    'events_validated': acc.events,
                    'migrations_completed_on_real_pmcs': sum(1 for _, recs in pparts for r in recs if r['e'] == 'SendComplete'),
                    'handshakes_completed_on_real_driver': sum(1 for _, recs in dparts for r in recs if r['e'] == 'Reply'),
                    'pages_rehomed_on_real_driver': sum(1 for _, recs in dparts for r in recs if r['e'] == 'PTChange')})

    # component part "cpctrl": control choreography of the command processor (checks/c19cp.py)
    ctx.cov.update({k: v for k, v in cpres.items() if k != 'cp_binding_selftest'})
    ctx.cov['evaluations'] += cpres.get('cp_traces', 0)
    ctx.cov['distinct_nontrivial'] += cpres.get('cp_distinct_nontrivial', 0)
    ctx.cov['events_validated'] += cpres.get('cp_events_validated', 0)
    acc.selftest += cpres.get('cp_binding_selftest', [])
    ctx.cov['coverage_zero_actions'] = []   # phase_mc_* raise when a -coverage run has an action with zero count
    # binding self-tests of both trace specs ran inside the phases
    ctx.cov['binding_selftest'] = acc.selftest
    if len(acc.selftest) < 6 and not ctx.violations:
        raise vlib.Infra('binding self-test: only %d corruptions applied' % len(acc.selftest))
    ctx.assumptions += ['akitabench mini engine and fake connection stand in for akita SerialEngine/DirectConnection',
                        'port hooks observe every message of the components (akita v4.9.0 defaultPort)',
                        'scripted memory controllers: byte-accurate storage, a request takes effect when it is answered',
                        'migrations issued concurrently never share a page; destinations are fresh pages (what the driver allocates)',
                        'page sizes are positive multiples of the 64-byte transfer unit (the property\'s quantifier)',
                        'driver level: the page table is observed by polling vm.PageTable after every cycle; '
                        'RDMA engine, CUs, address translators, caches and TLBs behind the real command processors are scripted',
                        'the normal driver-level environment keeps clear of the two known driver defects '
                        '(dedicated scenarios exhibit them; the thorough tier also runs an unrestricted environment)']


def replay(ctx, path):
    rp = json.load(open(path))['replay']
    if rp['driver'].get('part') == 'cpctrl':
        return c19cp.replay_component(ctx, path)
    drv = ctx.go_build('c19')
    d = rp['driver']
    t = os.path.join(ctx.scratch, 'replay.ndjson')
    tspec = TSPEC
    if d.get('level') == 'driverscen':
        tspec = dspec(2)
        sfile = os.path.join(ctx.scratch, 'drvscen.json')
        json.dump(d['scenarios'], open(sfile, 'w'))
        args = ['-drvscen', sfile, '-drvout', t, '-out', os.path.join(ctx.scratch, 'u1.ndjson')]
    elif 'scenarios' in d:
        sfile = os.path.join(ctx.scratch, 'scen.json')
        json.dump(d['scenarios'], open(sfile, 'w'))
        args = ['-scen', sfile, '-out', t]
    elif d.get('level') == 'driver':
        tspec = dspec(d['ngpu'])
        args = d['args'] + ['-out', os.path.join(ctx.scratch, 'u1.ndjson'), '-drvout', t,
                            '-syspmcout', os.path.join(ctx.scratch, 'u2.ndjson')]
    elif d.get('level') == 'syspmc':
        args = d['args'] + ['-out', os.path.join(ctx.scratch, 'u1.ndjson'), '-drvout', os.path.join(ctx.scratch, 'u2.ndjson'),
                            '-syspmcout', t]
    else:
        args = d['args'] + [t]
    _drive(ctx, drv, args)
    before = len(ctx.violations)
    common.validate_and_triage(c19cp.Sub(ctx, 'tri'), tspec, t, d)
    return 1 if len(ctx.violations) > before else 0
