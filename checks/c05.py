"""C05 — simulations are reproducible bit-for-bit.

spec/cmdqueue/CmdQueueTime.tla  model of simulated time through the host-thread protocol: TLC shows the observables
                                 (command start times) are single-valued over all host schedules in which the enqueue
                                 signal is handled when the engine is idle ("lazy"), and names the class of schedules
                                 under which they are not ("eager": signal handled while residual events are pending)
harness/cmd/c05                  runs a shipped workload in process through the repository's runner and forces exactly
                                 those schedule classes with the verif yield hooks (free / lazy / eager / seeded noise),
                                 under different GOMAXPROCS; observables: simulated end time, per-command start/end
                                 times, digest of every live device buffer, the whole mgpusim_metrics table
Oracle: equality of observables between runs (differential), level `exploration`.
"""
import json
import os
import sqlite3
from concurrent.futures import ThreadPoolExecutor

import vlib

LEVEL = 'exploration'
RULE = ('case = one in-process run of a shipped workload (bench, platform, GPU set) under one forced host-schedule class '
        '(free/lazy/eager/noise seed) and GOMAXPROCS; every run is compared with the reference run of its workload on end time, '
        'per-command start/end times, buffer digest and all metric rows; distinct = distinct (bench, platform, mode, seed, '
        'GOMAXPROCS) tuples; non-trivial = run with >= 2 driver commands and steering actually applied (or a free run)')


def read_metrics(cwd):
    files = [f for f in os.listdir(cwd) if f.endswith('.sqlite3')]
    if len(files) != 1:
        return None
    con = sqlite3.connect(os.path.join(cwd, files[0]))
    try:
        rows = con.execute('SELECT * FROM mgpusim_metrics').fetchall()
    except sqlite3.Error:
        rows = None
    con.close()
    return rows


def one_run(ctx, drv, idx, case):
    cwd = ctx.sub('run_%d' % idx)
    env = dict(os.environ)
    env['GOMAXPROCS'] = str(case['gomaxprocs'])
    # Go >= 1.24 ignores rand.Seed unless told otherwise; the workloads draw their inputs from the global source and
    # "same inputs" is a premise of the property
    env['GODEBUG'] = 'randseednop=0'
    argv = [drv, '-bench', case['bench'], '-mode', case['mode'], '-vseed', str(case.get('vseed', 1)), '-disable-rtm']
    if case.get('idskip'):
        argv += ['-idskip', str(case['idskip'])]
    argv += case['flags']
    p = ctx.run(argv, cwd=cwd, timeout=900, env=env, check=False)
    if p.returncode != 0:
        return {'case': case, 'error': p.stdout[-1500:]}
    obs = None
    for line in p.stdout.strip().splitlines()[::-1]:
        if line.startswith('{'):
            obs = json.loads(line)
            break
    if obs is None:
        return {'case': case, 'error': 'no output: ' + p.stdout[-800:]}
    obs['metrics'] = read_metrics(cwd)
    for f in os.listdir(cwd):
        os.remove(os.path.join(cwd, f))
    return {'case': case, 'obs': obs}


def diff(ref, o, timing):
    """Which observables differ between the reference run and another run."""
    d = []
    if ref['buffer_digest'] != o['buffer_digest'] or ref['buffer_bytes'] != o['buffer_bytes']:
        d.append('buffers')
    if timing:
        if ref['end_time_ps'] != o['end_time_ps']:
            d.append('end_time')
        if [c['what'] for c in ref['commands']] != [c['what'] for c in o['commands']]:
            d.append('command_sequence')
        elif [(c['start_ps'], c['end_ps']) for c in ref['commands']] != [(c['start_ps'], c['end_ps']) for c in o['commands']]:
            d.append('command_times')
        if ref.get('metrics') != o.get('metrics'):
            d.append('metrics')
    return d


def early_start_only(ref, o):
    """The known finding's shape: same commands, same buffers, every command starts at most a few cycles earlier
    (never later) and durations are unchanged."""
    if ref['buffer_digest'] != o['buffer_digest']:
        return False
    a, b = ref['commands'], o['commands']
    if [c['what'] for c in a] != [c['what'] for c in b]:
        return False
    shift_prev = 0
    for x, y in zip(a, b):
        s = y['start_ps'] - x['start_ps']
        if s > 0 or s < -1000 * (len(a) + 1):
            return False
        if (y['end_ps'] - y['start_ps']) != (x['end_ps'] - x['start_ps']):
            return False
        if s > shift_prev:
            return False
        shift_prev = s
    return True


def run(ctx, selftest=False):
    thorough = ctx.tier == 'thorough'
    drv = ctx.go_build('c05')

    # model: which schedule classes matter
    r = ctx.tlc_expect_ok(['cmdqueue'], 'CmdQueueTime.tla', 'MC_Time_FALSE.cfg', workers=1, timeout=120)
    ctx.log('CmdQueueTime lazy hosts: %d states, observables single-valued' % r.distinct)
    r2 = ctx.tlc(['cmdqueue'], 'CmdQueueTime.tla', 'MC_Time_TRUE.cfg', workers=1, timeout=120, kind='demo')
    if 'SingleValued' not in r2.violated:
        raise vlib.Infra('CmdQueueTime with eager hosts no longer shows divergent observables')
    ctx.cov['model'] = {'lazy_hosts_states': r.distinct, 'eager_hosts_violate': r2.violated}

    timing = ['-timing', '-report-all']
    benches = ['multiqueue', 'fir', 'memcopy', 'matrixtranspose', 'bitonicsort']
    if thorough:
        benches += ['kmeans', 'vectoradd']
    cases = []
    for b in benches:
        plats = [('r9nano', timing)]
        if b in ('multiqueue', 'fir'):
            # several command queues busy in the same driver tick (plain multi-GPU runs use one queue per GPU)
            plats.append(('r9nano-2gpu', timing + ['-gpus', '1,2']))
        elif thorough:
            plats.append(('r9nano-2gpu', timing + ['-gpus', '1,2']))
            if b in ('fir', 'memcopy', 'vectoradd'):
                plats.append(('mi300a', timing + ['-gpu', 'mi300a']))
        for pname, flags in plats:
            grp = []
            grp.append({'mode': 'lazy', 'gomaxprocs': 16})          # reference of the group
            grp.append({'mode': 'lazy', 'gomaxprocs': 1})
            grp.append({'mode': 'lazynoise', 'gomaxprocs': 4, 'vseed': ctx.seed * 10 + 7})
            grp.append({'mode': 'free', 'gomaxprocs': 16})
            grp.append({'mode': 'free', 'gomaxprocs': 1})
            grp.append({'mode': 'eager', 'gomaxprocs': 16})
            for k in range(4 if thorough else 1):
                grp.append({'mode': 'noise', 'gomaxprocs': 2 + 6 * (k % 2), 'vseed': ctx.seed * 10 + k})
            if thorough or b == 'multiqueue':
                grp.append({'mode': 'free', 'gomaxprocs': 2})
                grp.append({'mode': 'free', 'gomaxprocs': 4})
            for g in grp:
                g.update({'bench': b, 'platform': pname, 'flags': flags, 'timing': True, 'group': b + '/' + pname})
            cases += grp
        # emulation: buffers only
        for gm in (16, 1):
            if b == 'multiqueue' and os.environ.get('VERIF_C05_NO_EMU_MULTIQUEUE'):
                continue
            cases.append({'bench': b, 'platform': 'emu', 'flags': [], 'mode': 'free', 'gomaxprocs': gm, 'timing': False,
                          'group': b + '/emu'})
        if thorough:
            cases.append({'bench': b, 'platform': 'emu-parallel-engine', 'flags': ['-parallel'], 'mode': 'free', 'gomaxprocs': 16,
                          'timing': False, 'parallel_engine': True, 'group': b + '/emu'})
            cases.append({'bench': b, 'platform': 'r9nano-parallel-engine', 'flags': ['-timing', '-parallel'], 'mode': 'free',
                          'gomaxprocs': 16, 'timing': False, 'parallel_engine': True, 'group': b + '/r9nano'})

    with ThreadPoolExecutor(max_workers=6) as ex:
        results = list(ex.map(lambda ic: one_run(ctx, drv, ic[0], ic[1]), enumerate(cases)))

    # second phase: the same lazy run with akita's process-wide id counter shifted so that it crosses a power of ten
    # between two wavefronts of one work-group (ids are decimal strings: an order taken from them changes there).
    # The shift is calibrated from the wavefront ids the reference run recorded.
    shifted = []
    for res in results:
        cs = res['case']
        if 'obs' not in res or not cs['timing'] or cs['mode'] != 'lazy' or cs['gomaxprocs'] != 16:
            continue
        ids = [int(x) for x in res['obs'].get('wavefront_ids') or [] if str(x).isdigit()]
        if len(ids) < 4:
            continue
        top = 10 ** len(str(max(ids)))
        for j in ([1, 9, 18, 27] if thorough else [1, 9]):
            if j < len(ids):
                g = dict(cs)
                g.update({'idskip': top - ids[j], 'mode': 'lazy', 'gomaxprocs': 4})
                shifted.append(g)
    with ThreadPoolExecutor(max_workers=6) as ex:
        results += list(ex.map(lambda ic: one_run(ctx, drv, 1000 + ic[0], ic[1]), enumerate(shifted)))
    ctx.cov['id_shifted_runs'] = len(shifted)

    refs = {}
    nontrivial = set()
    compared = 0
    for res in results:
        c = res['case']
        if 'error' in res:
            # a crash of the simulator under a forced schedule is real behaviour
            ctx.report_failure('C05: run crashed: %s: %s' % (json.dumps(c), res['error'][-400:]),
                               {'kind': 'crash', 'mode': c['mode'], 'bench': c['bench']}, {'case': c})
            continue
        o = res['obs']
        key = c['group']
        # reference of a timing group: the lazy run (the schedule class the model proves single-valued);
        # of an emulation group: the first free run
        is_ref = (c['mode'] == 'lazy') if c['timing'] else (c['mode'] == 'free' and not c.get('parallel_engine'))
        if is_ref and key not in refs:
            refs[key] = (c, o)
        if len(o.get('commands', [])) >= 2 or not c['timing']:
            if c['mode'] == 'free' or o.get('steered', 0) > 0:
                nontrivial.add((c['bench'], c['platform'], c['mode'], c.get('vseed', 0), c['gomaxprocs'], bool(c.get('parallel_engine')), c.get('idskip', 0)))
    for res in results:
        if 'error' in res:
            continue
        c, o = res['case'], res['obs']
        key = c['group']
        if key not in refs or refs[key][1] is o:
            continue
        rc, ro = refs[key]
        compared += 1
        d = diff(ro, o, c['timing'])
        if not d:
            continue
        sig = {'kind': 'observables_differ', 'mode': c['mode'], 'fields': ','.join(d)}
        if c['timing'] and c['mode'] in ('free', 'eager', 'noise') and 'buffers' not in d:
            # Same data; only simulated times / time-derived counters / the interleaving of commands of different queues
            # differ from the lazy schedule: the simulated time at which an Enqueue takes effect depends on how far the
            # engine had advanced when runAsync handled the signal (the known finding). Runs of the lazy class itself
            # (different GOMAXPROCS, seeded host delays) are compared above with no such allowance: any other source of
            # run-to-run variation shows up there.
            sig = {'kind': 'timing_depends_on_host_schedule'}
        what = ('C05: %s on %s: run %s differs from reference %s in %s (end %s vs %s)' % (
            c['bench'], c['platform'], json.dumps({k: c.get(k) for k in ('mode', 'gomaxprocs', 'idskip')}),
            json.dumps({k: rc[k] for k in ('mode', 'gomaxprocs')}), d, o.get('end_time_ps'), ro.get('end_time_ps')))
        ctx.report_failure(what, sig, {'case': c, 'reference_case': rc,
                                       'commands': o.get('commands'), 'reference_commands': ro.get('commands')})
    ok = [r for r in results if 'obs' in r]
    ctx.sample({'case': ok[0]['case'], 'observables': {k: v for k, v in ok[0]['obs'].items() if k not in ('metrics', 'cwd')},
                'metric_rows': len(ok[0]['obs'].get('metrics') or [])})
    ctx.cov.update({'evaluations': len(results), 'distinct_nontrivial': len(nontrivial), 'runs_compared_with_reference': compared,
                    'workloads': benches})
    ctx.assumptions += ['equality of observables between runs is a differential oracle; the TLA+ model contributes the schedule '
                        'classes that must be forced (eager/lazy) and the explanation of the known finding',
                        'final device memory = contents of every live buffer read through the page table from the global storage '
                        '(benchmarks end with device-to-host copies, which flush the caches)']


def replay(ctx, path):
    rp = json.load(open(path))['replay']
    drv = ctx.go_build('c05')
    a = one_run(ctx, drv, 0, rp['reference_case']) if 'reference_case' in rp else None
    b = one_run(ctx, drv, 1, rp['case'])
    if 'error' in b:
        print('replay: run crashed again')
        return 1
    if a is None or 'error' in a:
        return 2
    d = diff(a['obs'], b['obs'], rp['case']['timing'])
    print('replay: differing observables:', d)
    return 1 if d else 0
