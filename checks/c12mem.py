"""C12, memory-effects part: commands of one queue observe their predecessors' memory effects; other queues never
disturb their data.

spec/cmdqueue/QueueMem.tla       model of the mechanism (DMA copies on DRAM, kernels through the write-back L2, dirty marks
                                 set at launch, flush before a copy of a marked buffer, queues overlapping) with the
                                 sequential per-queue meaning as history variable; TLC: Observes / D2HFresh hold on the
                                 intended design and fail under each named deviation (ClearOnAck = seeded change C12f,
                                 NoFlush, OwnGPUOnly)
spec/cmdqueue/QueueMemTrace.tla  runs of the real timing platform (driver + command processor + DMA + caches + DRAM,
                                 harness/cmd/c12mem) must be behaviours of the model; the value every D2H delivered to the
                                 host must be the model's DRAM content at the copy and the sequential value

run_component(ctx) / replay_component(ctx, path) are called from checks/c12.py.
"""
import copy
import json
import os
import random

import common
import vlib

DIRS = ['cmdqueue']
NQMAX = 3
LENS = [64, 1024, 4096, 16384, 65536]


def signature(ng):
    def f(bad, at, v):
        sig = {'part': 'mem', 'ng': ng}
        ev = bad[min(at, len(bad)) - 1] if bad else {}
        if ev.get('e') == 'KLaunch':
            up = (ev.get('cq'), ev.get('ci'))
            copied = any(r['e'] == 'CodeCopied' and (r['q'], r['i']) == up for r in bad[:at - 1])
            if not ev.get('cq'):
                # no operation of this process uploads the code object at all (the driver reused another process's copy)
                sig = {'part': 'mem', 'kind': 'launch_without_code_upload_in_process'}
            elif not copied and up != (ev['q'], ev['i']):
                # the launch runs a code object whose upload is queued on ANOTHER queue and has not completed
                sig = {'part': 'mem', 'kind': 'launch_before_code_upload_on_other_queue'}
        return sig
    return f


def tspec(ng):
    # ng: 1, 2 (timing platform) or 'emu' (functional emulation: no caches, no flushes)
    cfg = 'QueueMemTrace_emu.cfg' if ng == 'emu' else 'QueueMemTrace_%dgpu.cfg' % ng
    return {'dirs': DIRS, 'module': 'QueueMemTrace.tla', 'cfg': cfg, 'timeout': 900, 'signature': signature(ng)}


def gen_prog(rng, q, n):
    b1, b2 = 2 * q - 1, 2 * q
    ops = []
    for i in range(1, n + 1):
        k = rng.random()
        if i == n or k < 0.3:
            ops.append({'k': 'd2h', 'b': rng.choice([b1, b2])})
        elif k < 0.6:
            ops.append({'k': 'h2d', 'b': rng.choice([b1, b2]), 'v': 10 * q + i})
        else:
            d, s = rng.choice([(b1, b2), (b2, b1)])
            ops.append({'k': 'd2d', 'dst': d, 'src': s})
    return ops


def gen_scenario(rng, i, ng):
    emu = ng == 'emu'
    nq = rng.choice([2, 2, 3])
    progs = [gen_prog(rng, q, rng.randrange(2, 6)) for q in range(1, nq + 1)]
    order = [q for q in range(1, nq + 1) for _ in progs[q - 1]]
    rng.shuffle(order)
    home = [1 if b % 2 else 2 for b in range(1, 2 * nq + 1)] if ng == 2 else [1] * (2 * nq)
    lens = [rng.choice(LENS) for _ in range(nq)]
    ctx = [1] * nq
    if emu or rng.random() < 0.3:
        # twins: every queue runs the same program on its own buffers, so the address spaces below have the same
        # allocation history down to the staging buffers of every launch
        def shift(o, q):
            o = dict(o)
            for f in ('b', 'dst', 'src'):
                if f in o:
                    o[f] += 2 * (q - 1)
            if 'v' in o:
                o['v'] += 10 * (q - 1)
            return o
        progs = [[shift(o, q) for o in progs[0]] for q in range(1, nq + 1)]
        order = [q for q in range(1, nq + 1) for _ in progs[q - 1]]
        rng.shuffle(order)
    if emu or rng.random() < 0.5:
        # one address space per queue and the same allocation history in each: the contexts use the same virtual
        # addresses, only the PID tells them apart
        ctx = list(range(1, nq + 1))
        lens = [rng.choice([8192, 32768] if emu else LENS)] * nq
    return {'name': 'rnd%s_%d' % (ng, i), 'ng': 1 if emu else ng, 'nq': nq, 'gpu': [1] * nq, 'home': home, 'len': lens,
            'ctx': ctx, 'emu': emu, 'progs': progs, 'order': order, 'drain': rng.choice(['seq', 'par', 'rev']),
            # all launches of the run use ONE code object (as a workload that loads its kernel once does): whatever the
            # driver keeps per code object is then shared by the queues
            'shareco': rng.random() < 0.5}


def directed(ng):
    """A long kernel on queue 1 followed by the read-back of its result, while queue 2 makes the buffers dirty with a
    short kernel and then keeps copying (the shape of the seeded change C12f), in several size ratios."""
    out = []
    home = [1, 1, 1, 1] if ng == 1 else [1, 2, 1, 2]
    for j, (big, small, nh) in enumerate([(65536, 64, 4), (16384, 64, 6), (65536, 1024, 2), (4096, 4096, 3)]):
        p2 = [{'k': 'd2d', 'dst': 4, 'src': 3}] + [{'k': 'h2d', 'b': 3, 'v': 21 + i} for i in range(nh)] + [{'k': 'd2h', 'b': 4}]
        out.append({'name': 'dir%d_%d' % (ng, j), 'ng': ng, 'nq': 2, 'gpu': [1, 1], 'home': home, 'len': [big, small],
                    'progs': [[{'k': 'd2d', 'dst': 2, 'src': 1}, {'k': 'd2h', 'b': 2}], p2],
                    'order': [2, 1, 1] + [2] * (nh + 1), 'drain': ['seq', 'par', 'rev'][j % 3]})
    # two queues of one context launch the same code object with different arguments at the same time
    out.insert(1, {'name': 'share%d' % ng, 'ng': ng, 'nq': 2, 'gpu': [1, 1], 'home': home, 'len': [4096, 4096], 'shareco': True,
                   'progs': [[{'k': 'h2d', 'b': 1, 'v': 11}, {'k': 'd2d', 'dst': 2, 'src': 1}, {'k': 'd2h', 'b': 2}],
                             [{'k': 'h2d', 'b': 3, 'v': 21}, {'k': 'd2d', 'dst': 4, 'src': 3}, {'k': 'd2h', 'b': 4}]],
                   'order': [1, 2, 1, 2, 1, 2], 'drain': 'par'})
    # queue 1 reaches its launch (which carries the upload of the shared code object) after six copies, queue 2
    # launches the same code object at once: the known finding C12-launch-before-code-upload-on-other-queue
    out.insert(2, {'name': 'codeorder%d' % ng, 'ng': ng, 'nq': 2, 'gpu': [1, 1], 'home': home, 'len': [1024, 1024], 'shareco': True,
                   'progs': [[{'k': 'h2d', 'b': 1, 'v': 11 + i} for i in range(6)] + [{'k': 'd2d', 'dst': 2, 'src': 1}, {'k': 'd2h', 'b': 2}],
                             [{'k': 'd2d', 'dst': 4, 'src': 3}, {'k': 'd2h', 'b': 4}]],
                   'order': [1] * 8 + [2, 2], 'drain': 'par'})
    # a large read-back at the end of a queue: what the array holds when DrainCommandQueue returns is compared with
    # what it holds at the end of the run (a drain must not return before the copy's data has been delivered)
    out.insert(1, {'name': 'big%d' % ng, 'ng': ng, 'nq': 2, 'gpu': [1, 1], 'home': home, 'len': [262144, 64],
                   'progs': [[{'k': 'h2d', 'b': 1, 'v': 11}, {'k': 'd2h', 'b': 1}, {'k': 'h2d', 'b': 2, 'v': 12}, {'k': 'd2h', 'b': 2}],
                             [{'k': 'd2h', 'b': 3}]],
                   'order': [1, 1, 1, 1, 2], 'drain': 'par'})
    return out


def run_scenarios(ctx, drv, scen, tag):
    """One process per run (a run that launches a kernel before its code is uploaded is abandoned: its simulation keeps
    spinning until the process exits), a few at a time; the traces are concatenated in scenario order."""
    from concurrent.futures import ThreadPoolExecutor

    def one(i_sc):
        i, sc = i_sc
        sfile = os.path.join(ctx.scratch, 'mem_%s_%d.json' % (tag, i))
        json.dump([sc], open(sfile, 'w'))
        t = os.path.join(ctx.scratch, 'mem_%s_%d.ndjson' % (tag, i))
        p, stats = common.run_driver(ctx, drv, ['-scen', sfile, '-out', t, '-nqmax', NQMAX, '-limit', 300], timeout=900)
        return sc, t, p, stats

    with ThreadPoolExecutor(max_workers=4) as ex:
        res = list(ex.map(one, enumerate(scen)))
    out = os.path.join(ctx.scratch, 'mem_%s.ndjson' % tag)
    total = {'scenarios': 0, 'abandoned': 0}
    with open(out, 'w') as f:
        for sc, t, p, stats in res:
            if stats is None:
                # a crash of the simulator while it runs queue programs is real behaviour
                ctx.report_failure('C12 (memory part): the platform crashed while running queue programs (%s): %s' % (
                    sc['name'], p.stdout[-600:]), {'part': 'mem', 'kind': 'crash'},
                    {'driver': {'cmd': 'c12mem', 'ng': sc['ng'], 'scenarios': [sc]}})
                continue
            if stats.get('timeouts'):
                raise vlib.Infra('c12mem: run %s did not finish within its wall-clock limit: %s' % (sc['name'], p.stdout[-300:]))
            total['scenarios'] += 1
            total['abandoned'] += stats.get('abandoned', 0)
            f.write(open(t).read())
    if total['scenarios'] == 0:
        return None, None
    return out, total


def corruptions():
    def d2h_value(recs, rng):
        idx = [i for i, r in enumerate(recs) if r['e'] == 'OpDone' and r.get('obs', -1) >= 0]
        if not idx:
            return None
        recs[rng.choice(idx)]['obs'] += 1
        return recs

    def flush_dropped(recs, rng):
        # a copy of a marked buffer without its flush
        idx = [i for i, r in enumerate(recs) if r['e'] == 'Flush']
        if not idx:
            return None
        i = rng.choice(idx)
        q, g = recs[i]['q'], recs[i]['g']
        j = next((k for k in range(i + 1, len(recs)) if recs[k]['e'] == 'FlushAck' and recs[k]['q'] == q and recs[k]['g'] == g), None)
        if j is None:
            return None
        kind = next((r for r in recs if r['e'] == 'Reset'), None)
        op = kind['progs'][q - 1][recs[i]['i'] - 1]
        if op['k'] == 'd2d':
            return None
        return [r for k, r in enumerate(recs) if k not in (i, j)]

    def data_before_ack(recs, rng):
        for i, r in enumerate(recs):
            if r['e'] == 'FlushAck':
                q = r['q']
                j = next((k for k in range(i + 1, len(recs)) if recs[k]['e'] == 'Data' and recs[k]['q'] == q), None)
                if j is not None and not any(recs[k]['e'] == 'OpStart' and recs[k]['q'] == q for k in range(i, j)):
                    recs[i], recs[j] = recs[j], recs[i]
                    if j != i + 1:
                        return None
                    return recs
        return None

    def op_out_of_order(recs, rng):
        idx = [i for i, r in enumerate(recs) if r['e'] == 'OpStart' and r['i'] >= 2]
        if not idx:
            return None
        recs[rng.choice(idx)]['i'] -= 1
        return recs

    def second_op_before_first_done(recs, rng):
        for i, r in enumerate(recs):
            if r['e'] == 'OpDone':
                q = r['q']
                j = next((k for k in range(i + 1, len(recs)) if recs[k]['e'] == 'OpStart' and recs[k]['q'] == q), None)
                if j is not None:
                    x = recs.pop(j)
                    recs.insert(i, x)
                    return recs
        return None

    return [('d2h_value', d2h_value), ('flush_dropped', flush_dropped), ('data_before_flush_ack', data_before_ack),
            ('op_index', op_out_of_order), ('second_op_before_first_done', second_op_before_first_done)]


def nontrivial(recs):
    """A run in which a copy of one queue flushed or completed while a kernel of another queue was in flight."""
    running = set()
    for r in recs:
        if r['e'] == 'KLaunch':
            running.add(r['q'])
        elif r['e'] == 'KDone':
            running.discard(r['q'])
        elif r['e'] in ('Flush', 'Data', 'FlushAck') and any(q != r['q'] for q in running):
            return True
    return False


def run_component(ctx):
    thorough = ctx.tier == 'thorough'
    drv = ctx.go_build('c12mem')
    rng = random.Random(ctx.seed * 7919 + 12)
    W = vlib.NCPU if thorough else 8

    # 1. design level
    r = ctx.tlc_expect_ok(DIRS, 'MC_QM.tla', 'MC_QM.cfg', workers=W, timeout=1800)
    ctx.log('MC_QM (2 queues, 1 GPU, every program of <= 3 / 2 operations ending in a read-back): %d distinct states' % r.distinct)
    r = ctx.tlc_expect_ok(DIRS, 'MC_QM.tla', 'MC_QM_ctx.cfg', workers=W, timeout=1800)
    ctx.log('MC_QM_ctx (one process per queue: marks are per process): %d distinct states' % r.distinct)
    r = ctx.tlc_expect_ok(DIRS, 'MC_QM.tla', 'MC_QM_2gpu.cfg', workers=W, timeout=1800)
    ctx.log('MC_QM_2gpu (second buffer of each queue on the other GPU): %d distinct states' % r.distinct)
    if thorough:
        r = ctx.tlc_expect_ok(DIRS, 'MC_QM.tla', 'MC_QM_big.cfg', workers=W, timeout=7200)
        ctx.log('MC_QM_big (3 / 3 operations): %d distinct states' % r.distinct)
    devs = {}
    for cfg, what in (('MC_QM_clearonack.cfg', 'flush acknowledgement clears the dirty marks (seed C12f)'),
                      ('MC_QM_noflush.cfg', 'copies never flush'),
                      ('MC_QM_owngpu.cfg', 'a copy flushes only its own GPU')):
        r = ctx.tlc(DIRS, 'MC_QM.tla', cfg, workers=W, timeout=1800, kind='demo')
        if not ({'Observes', 'D2HFresh'} & set(r.violated)):
            raise vlib.Infra('%s (%s) no longer violates Observes / D2HFresh: %s' % (cfg, what, r.error))
        devs[cfg] = r.violated
    ctx.cov['mem_deviation_models'] = devs
    # the code-object upload: intended ordering holds, the code as it is (open finding) does not
    r = ctx.tlc_expect_ok(DIRS, 'CodeUpload.tla', 'MC_CodeUpload_ordered.cfg', workers=2, timeout=600)
    r = ctx.tlc(DIRS, 'CodeUpload.tla', 'MC_CodeUpload_asimpl.cfg', workers=2, timeout=600, kind='demo')
    if 'LaunchRunsResidentCode' not in r.violated:
        raise vlib.Infra('CodeUpload.tla as implemented no longer violates LaunchRunsResidentCode: ' + str(r.error))
    ctx.cov['code_upload_as_implemented_violates'] = r.violated

    # 2. the real timing platform
    n1, n2 = (60, 30) if thorough else (10, 4)
    total = {'scenarios': 0}
    multi = 0
    parts_all = []
    first = None
    for ng, n in ((1, n1), (2, n2), ('emu', n2)):
        scen = ([] if ng == 'emu' else directed(ng)[:(7 if thorough else 5)]) + [gen_scenario(rng, i, ng) for i in range(n)]
        t, stats = run_scenarios(ctx, drv, scen, '%sgpu' % ng)
        if t is None:
            continue
        total['scenarios'] += stats['scenarios']
        multi += sum(1 for x in scen if len(set(x.get('ctx', [1]))) > 1)
        first = first or t
        common.validate_and_triage(ctx, tspec(ng), t, {'cmd': 'c12mem', 'ng': ng, 'scenarios': scen})
        parts_all += vlib.split_traces(t)
    ops = sum(1 for _, recs in parts_all for r in recs if r['e'] == 'OpDone')
    reads = sum(1 for _, recs in parts_all for r in recs if r['e'] == 'OpDone' and r.get('obs', -1) != -1)
    nt = sum(1 for _, recs in parts_all if nontrivial(recs))
    ctx.log('memory part: %d runs of the timing platform, %d operations, %d read-backs judged, %d runs with a copy overlapping '
            'another queue\'s kernel' % (len(parts_all), ops, reads, nt))
    ctx.cov['mem_part'] = {'platform_runs': len(parts_all), 'operations': ops, 'read_backs_judged': reads,
                           'runs_with_copy_overlapping_foreign_kernel': nt, 'runs_with_one_address_space_per_queue': multi}
    if parts_all and nt == 0:
        raise vlib.Infra('memory part: no run had a copy overlapping another queue\'s kernel (vacuous)')
    if parts_all:
        ctx.sample({'mem_scenario_events': parts_all[0][1][:10]})

    # 3. binding self-test
    if first:
        common.selftest_binding(ctx, tspec(1), first, corruptions())
        ctx.cov['mem_binding_selftest'] = ctx.cov.pop('binding_selftest')
    ctx.assumptions += ['memory part: every buffer holds one value in all elements, so a delivered array is named by that value '
                        '(-2 when not uniform); clean (non-dirty) stale cache lines are outside the model (the known stale-L1 '
                        'findings of C01/C02 are about those)',
                        'memory part: operations are identified by bracketing the sequential akita ids generated while the '
                        'engine is idle during enqueueing']


def replay_component(ctx, path):
    rp = json.load(open(path))['replay']
    drv = ctx.go_build('c12mem')
    name = rp['trace'][0].get('name') if rp.get('trace') else None
    scen = [s for s in rp['driver']['scenarios'] if name is None or s['name'] == name]
    ng = rp['driver']['ng']
    t, stats = run_scenarios(ctx, drv, scen, 'replay')
    if t is None:
        return 1
    before = len(ctx.violations)
    common.validate_and_triage(ctx, tspec(ng), t, {'cmd': 'c12mem', 'ng': ng, 'scenarios': scen})
    return 1 if len(ctx.violations) > before else 0


# `bin/check C12MEM` runs this part alone (development aid; evidence/C12MEM.json is not committed)
LEVEL = 'model_checking'
RULE = ('case = one run of a multi-queue program on the real timing platform judged by QueueMemTrace.tla; distinct = distinct '
        'event sequences; non-trivial = a copy of one queue flushes or completes while a kernel of another queue is in flight')


def run(ctx, selftest=False):
    run_component(ctx)
    ctx.cov['evaluations'] = ctx.cov.get('mem_part', {}).get('platform_runs', 0)
    ctx.cov['distinct_nontrivial'] = ctx.cov.get('mem_part', {}).get('runs_with_copy_overlapping_foreign_kernel', 0)


def replay(ctx, path):
    return replay_component(ctx, path)
