"""C14 — barriers, wait counts and wavefront termination order execution correctly.

spec/cusched/CUSched.tla        design spec of the timing CU's scheduler (one action per sub-step, environment explicit;
                                programs are chosen instruction by instruction, so model checking covers every program
                                up to the length bound)
spec/cusched/MC_CUSched*.cfg    exhaustive checking of BarrierOrder / CountersExact / Rules(WaitcntSound, EndAfterMemory) /
                                CompletionOnce / NoHang (+ liveness Completes); the as-implemented deviation
                                CompletedWfNotCountedAtBarrier must break NoHang, and that counterexample is replayed
spec/cusched/CUSchedScen.tla    behaviours -> programs + environments; harness/c14asm assembles real GCN3 kernels from them
spec/cusched/CUSchedTrace.tla   event traces of the real cu.ComputeUnit (timing) and emu.ComputeUnit against CUSched
harness/cmd/c14                 component-level driver (scripted memory/dispatcher around one real CU, harness-owned
                                engine) and system-level driver (Driver -> CP -> CU of the r9nano / emulation platforms)
"""
import json
import os
import random

import common
import vlib

LEVEL = 'model_checking'
RULE = ('cases = kernels (hand-assembled from TLC behaviours of CUSchedScen, from the as-implemented counterexample and from '
        'seeded generators) executed on the real timing CU and the real emulation CU under a scripted environment; '
        'distinct = distinct event traces; non-trivial = trace in which at least one barrier is issued by >= 2 wavefronts '
        'of a group, or a wait count is issued while the wavefront has memory operations in flight, or a wavefront ends '
        'while siblings are unfinished')
TSPEC = {'dirs': ['cusched'], 'module': 'CUSchedTrace.tla', 'cfg': 'CUSchedTrace.cfg', 'tol': 'CUSchedTraceTol.cfg', 'timeout': 1500}
# the front end (fetch, decode, issue arbitration, retirement): scenarios with "fe" are validated against both
FSPEC = {'dirs': ['cusched'], 'module': 'CUFrontTrace.tla', 'cfg': 'CUFrontTrace.cfg', 'tol': 'CUFrontTraceTol.cfg', 'timeout': 1500}

BARRIER_BUFFER = 16  # SchedulerImpl.barrierBufferSize
SCALE = 6  # cycles per behaviour step when a TLC schedule is turned into latencies


# --------------------------------------------------------------------------- behaviours -> scenarios
def _fget(f, w, default=None):
    if isinstance(f, dict):
        return f.get(w, default)
    if isinstance(f, list):
        return f[w - 1] if 1 <= w <= len(f) else default
    return default


def _fdom(f):
    if isinstance(f, dict):
        return sorted(f.keys())
    if isinstance(f, list):
        return list(range(1, len(f) + 1))
    return []


def _op(inst, w, idx):
    k = inst['k']
    if k == 'alu':
        return ['alu', 'lst', 'nop', 'lld'][(w + idx) % 4]
    if k == 'vmem':
        return 'gld' if (w + idx) % 2 else 'gst'
    if k == 'smem':
        return 'sld'
    if k == 'wait':
        return 'w:%d:%d' % (inst['v'], inst['s'])
    return {'bar': 'bar', 'end': 'end'}[k]


def beh_to_scenario(states, name, pads=None, seed=1, balance=False):
    """One TLC behaviour (list of state dicts of CUSched) -> a scenario for harness/cmd/c14:
    per wavefront the instructions it issued (nop padding mirrors how long it sat ready while others moved),
    per memory operation the distance between MemExec and MemReturn, per group its arrival step."""
    progs, ready_since, wg_of, wg_at = {}, {}, {}, {}
    vexec, sexec, vlat, slat = [], [], [], []
    nissued = {}
    for s in range(1, len(states)):
        prev, cur = states[s - 1], states[s]
        for w in _fdom(cur['wgOf']):
            if _fget(prev['wgOf'], w) is None:
                wg_of[w] = _fget(cur['wgOf'], w)
                wg_at.setdefault(wg_of[w], s)
                progs[w] = []
                ready_since[w] = s
                nissued[w] = 0
            n0, n1 = _fget(prev['n'], w, 0), _fget(cur['n'], w)
            if n1 > n0:
                gap = max(0, s - ready_since[w] - 1)
                progs[w] += ['nop'] * min(gap, 10)
                progs[w].append(_op(_fget(cur['cur'], w), w, nissued[w]))
                nissued[w] += 1
            if _fget(cur['st'], w) == 'Ready' and _fget(prev['st'], w) != 'Ready':
                ready_since[w] = s
        for q, ex, lat in (('vq', vexec, vlat), ('sq', sexec, slat)):
            a, b = len(prev[q]), len(cur[q])
            if b > a:
                ex.append(s)
            elif b < a and ex:
                lat.append((s - ex.pop(0)) * SCALE + 1)
    groups = sorted(set(wg_of.values()), key=lambda g: wg_at[g])
    t0 = min(wg_at.values()) if wg_at else 0
    kernels, wgs = [], []
    for g in groups:
        ws = sorted(w for w in wg_of if wg_of[w] == g)
        pg = []
        for i, w in enumerate(ws):
            p = list(progs[w])
            if pads and (g, i) in pads:
                # extra delay in front of the wavefront's last instruction before s_endpgm / its first barrier
                at = next((j for j, o in enumerate(p) if o in ('bar', 'end')), len(p))
                p = p[:at] + ['nop'] * pads[(g, i)] + p[at:]
            if not p or p[-1] != 'end':
                if balance:
                    # the behaviour was cut by the depth bound: keep the group's barrier count equal
                    most = max(progs[x].count('bar') for x in ws)
                    p += ['bar'] * (most - p.count('bar'))
                p.append('end')
            pg.append(p)
        kernels.append({'mode': 'table', 'progs': pg})
        wgs.append({'k': len(kernels) - 1, 'at': (wg_at[g] - t0) * SCALE})
    v4 = [x for l in vlat for x in (l, l, l, l)]
    return {'name': name, 'kernels': kernels, 'wgs': wgs,
            'mem': {'v': v4, 'vdef': [20, 80], 's': slat, 'sdef': [10, 40], 'i': [2, 6], 'seed': seed}, 'vals': False}


# --------------------------------------------------------------------------- seeded generators
LATS = [(1, 4), (10, 40), (20, 120), (100, 400), (1, 300)]


def _env(rng):
    v, s = rng.choice(LATS), rng.choice(LATS[:4])
    env = {'vdef': list(v), 'sdef': list(s), 'i': list(rng.choice([(1, 3), (2, 8), (10, 40)])),
           'seed': rng.randrange(1 << 30), 'early': rng.random() < 0.2}
    if rng.random() < 0.12:
        a = rng.randint(50, 600)
        env['vhold'] = [[a, a + rng.choice([100, 700])]]
    if rng.random() < 0.08:
        env['shold'] = [[0, rng.choice([150, 500])]]
    return env


def gen_structured(rng, nwf, epochs, exits, maxnop):
    """Race-free communication kernel: in epoch e every wavefront publishes a token in its own row (LDS and/or
    global), waits for its stores, meets the others at a barrier, then reads the neighbour's row of epoch e-1 and
    stores what it read.  `exits` maps wavefront -> epoch at whose end it leaves instead of joining the barrier."""
    progs = []
    for w in range(nwf):
        p = []
        if rng.random() < 0.3:
            p += ['sld']
        for e in range(epochs + 1):
            if e >= 1:
                how = rng.choice(['g', 'l', 'gl', 'gg'])
                if how == 'l':
                    p += ['lld', 'out']
                elif how == 'g':
                    p += ['gld', 'w:0:%d' % rng.choice([0, 15]), 'out']
                elif how == 'gl':
                    p += ['gld', 'lld', 'out', 'w:1:15', 'gld', 'w:0:15', 'out']
                else:
                    # two loads in flight; the second one is the one stored ("out" stores the latest destination)
                    p += ['gld', 'gld', 'w:0:15', 'out']
            p += ['nop'] * rng.randint(0, maxnop)
            p += ['alu'] * rng.randint(0, 3)
            st = rng.choice(['g', 'l', 'gl'])
            if 'l' in st:
                p.append('lst')
            if 'g' in st:
                p.append('gst')
            leaving = exits.get(w) == e or e == epochs
            if leaving:
                # s_endpgm itself has to wait for the stores: sometimes leave them in flight
                if rng.random() < 0.5:
                    p.append('w:0:0')
                p.append('end')
                break
            p.append(rng.choice(['w:0:0', 'w:0:15']))
            p.append('bar')
        progs.append(p)
    return progs


def gen_racy(rng, nwf, length):
    """Arbitrary instruction sequences (values undefined, ordering rules still apply): memory operations left in
    flight at s_endpgm, non-zero wait counts, different numbers of barriers per wavefront (early leavers)."""
    ops = ['alu', 'nop', 'gst', 'gld', 'lst', 'lld', 'sld', 'bar', 'w:0:0', 'w:1:15', 'w:15:0', 'w:2:1', 'w:0:15', 'w:3:15']
    nbar = rng.randint(0, 3)
    progs = []
    for w in range(nwf):
        mine = nbar if rng.random() < 0.6 else rng.randint(0, nbar)
        body = [rng.choice([o for o in ops if o != 'bar']) for _ in range(rng.randint(1, length))]
        for _ in range(mine):
            body.insert(rng.randint(0, len(body)), 'bar')
        progs.append(body + ['end'])
    return progs


def gen_random(rng, i, big=False):
    kind = rng.random()
    nwg = rng.choice([1, 1, 2, 3, 4] if not big else [1, 2])
    kernels, wgs = [], []
    vals = True
    early = False
    for g in range(nwg):
        nwf = rng.choice([1, 2, 2, 3, 4, 5, 8] if not big else [12, 16])
        if kind < 0.55:
            epochs = rng.randint(1, 3)
            exits = {}
            if rng.random() < 0.25 and nwf > 1:
                for w in rng.sample(range(nwf), rng.randint(1, max(1, nwf // 2))):
                    exits[w] = rng.randint(0, epochs - 1)
                early = True
            kernels.append({'mode': 'table', 'progs': gen_structured(rng, nwf, epochs, exits, rng.choice([0, 3, 12]))})
        elif kind < 0.85:
            vals = False
            pg = gen_racy(rng, nwf, rng.randint(2, 10))
            nb = [p.count('bar') for p in pg]
            early = early or len(set(nb)) > 1
            kernels.append({'mode': 'table', 'progs': pg})
        else:
            k = rng.randint(1, nwf)
            early = early or k < nwf
            body = ['gst', 'lst', 'w:0:0'] + ['nop'] * rng.randint(0, 6) + ['xge:%d' % k, 'bar', 'gld', 'lld', 'w:0:0', 'out']
            kernels.append({'mode': 'uniform', 'nwf': nwf, 'body': body})
        if rng.random() < 0.25:
            kernels[-1]['tail'] = rng.randint(1, 63)  # partial last wavefront (EXEC mask with holes at the end)
        wgs.append({'k': g, 'at': rng.choice([0, 0, 5, 40, 200])})
    sc = {'name': 'rand%d' % i, 'kernels': kernels, 'wgs': wgs, 'mem': _env(rng), 'vals': vals, 'sb': rng.random() < 0.3}
    if rng.random() < 0.15:
        sc['acehold'] = [[0, rng.choice([300, 2000])]]
    return sc, early


def fixed_scenarios(thorough=False):
    """Hand-written cases: the probe of DESIGN.md section 7 in both orders, completion back-pressure, occupancy."""
    nops = ['nop'] * 24
    env = {'vdef': [20, 60], 'sdef': [10, 30], 'i': [2, 5], 'seed': 7}
    out = []
    # if (id >= 64) return; barrier  -- sibling delayed so that the exit comes first / last
    out.append(({'name': 'probe_exit_first', 'kernels': [{'mode': 'uniform', 'nwf': 2, 'body': ['xge:1'] + nops + ['bar']}],
                 'wgs': [{'k': 0, 'at': 0}], 'mem': env, 'vals': True}, True))
    out.append(({'name': 'table_exit_last', 'kernels': [{'mode': 'table', 'progs': [['bar', 'end'], nops + ['end']]}],
                 'wgs': [{'k': 0, 'at': 0}], 'mem': env, 'vals': True}, True))
    # 15 wavefronts of group 1 and one of group 2 fill the barrier buffer (16), a second wavefront of group 2 waits outside
    # it, the third one of group 2 then ends: evalSEndPgm releases the barrier
    filler = [['bar', 'end']] * 15 + [['nop'] * 600 + ['bar', 'end']]
    grp = [['nop'] * 100 + ['bar', 'alu', 'alu', 'gst', 'end'], ['nop'] * 200 + ['bar', 'alu', 'alu', 'gst', 'end'], ['nop'] * 320 + ['end']]
    out.append(({'name': 'full_barrier_buffer_exit_last', 'kernels': [{'mode': 'table', 'progs': filler}, {'mode': 'table', 'progs': grp}],
                 'wgs': [{'k': 0, 'at': 0}, {'k': 1, 'at': 0}], 'mem': env, 'vals': True}, True))
    # six one-wavefront groups finishing while the dispatcher does not take completions (ToACE holds 4)
    out.append(({'name': 'ace_backpressure', 'kernels': [{'mode': 'table', 'progs': [['gst', 'end']]}] * 1,
                 'wgs': [{'k': 0, 'at': 0}] * 7, 'mem': env, 'vals': True, 'acehold': [[0, 1500]]}, False))
    # wavefront sampling with a stable prediction: no instruction is simulated, handleWfCompletionEvent ends the
    # wavefronts and reports the groups; the dispatcher does not take completions for 400 cycles (retry path)
    out.append(({'name': 'sampled_backpressure', 'sampled': True, 'noemu': True,
                 'kernels': [{'mode': 'table', 'progs': [['gst', 'end'], ['end'], ['bar', 'end']]}],
                 'wgs': [{'k': 0, 'at': a} for a in (0, 0, 3, 3, 5, 5, 50)], 'mem': env, 'acehold': [[0, 400]]}, False))
    # 16 wavefronts with three loads in flight each against a CU that may hold only 10 vector accesses in flight
    # (ComputeUnit.InFlightVectorMemAccessLimit is a public field): instructions wait for room / are admitted piecewise
    pl = [['gld', 'gld', 'gld', 'w:1:15', 'gst', 'w:0:0', 'bar', 'gld', 'gld', 'w:0:0', 'out', 'w:0:0', 'end']] * 8
    out.append(({'name': 'inflight_limit_small', 'vlimit': 10, 'kernels': [{'mode': 'table', 'progs': pl}],
                 'wgs': [{'k': 0, 'at': 0}, {'k': 0, 'at': 0}], 'mem': {'vdef': [150, 400], 'sdef': [10, 30], 'i': [2, 5], 'seed': 4},
                 'vals': True}, False))
    # full occupancy: 5 groups of 8 wavefronts = 40 wavefronts, barriers in every group
    p8 = [['lst', 'gst', 'w:0:0', 'bar', 'lld', 'gld', 'w:0:0', 'out', 'end']] * 8
    out.append(({'name': 'occupancy40', 'kernels': [{'mode': 'table', 'progs': p8}], 'wgs': [{'k': 0, 'at': 0}] * 6,
                 'mem': {'vdef': [30, 200], 'sdef': [10, 30], 'i': [2, 9], 'seed': 3}, 'vals': True}, False))
    if thorough:
        # 40 wavefronts with 6 loads each in flight (CU-wide in-flight limit of 512 transactions), the memory side
        # not taking requests for long windows (back-pressure on ToVectorMem / ToScalarMem)
        p8s = [['gld'] * 6 + ['sld', 'w:0:0', 'gst', 'gst', 'gst', 'gst', 'lst', 'w:0:0', 'bar', 'gld', 'gld', 'gld', 'gld', 'w:0:0',
                'out', 'w:0:0', 'end']] * 8
        out.append(({'name': 'inflight_limit_and_port_backpressure', 'kernels': [{'mode': 'table', 'progs': p8s}],
                     'wgs': [{'k': 0, 'at': 0}] * 5, 'vals': True,
                     'mem': {'vdef': [200, 400], 'sdef': [20, 40], 'i': [2, 5], 'seed': 9, 'vhold': [[100, 900], [1500, 2500]],
                             'shold': [[0, 300]]}}, False))
    # memory still in flight at s_endpgm, long latencies
    out.append(({'name': 'end_with_loads', 'kernels': [{'mode': 'table', 'progs': [['gld', 'gld', 'gst', 'sld', 'end'], ['sld', 'gst', 'end']]}],
                 'wgs': [{'k': 0, 'at': 0}, {'k': 0, 'at': 3}], 'mem': {'vdef': [200, 500], 'sdef': [100, 300], 'i': [2, 5], 'seed': 5},
                 'vals': False}, False))
    return out


def lockstep_scenarios(rng, thorough=False):
    """Several small work-groups co-resident on one CU, running kernels of scheduler-internal instructions only
    (s_nop, s_barrier, s_waitcnt, s_endpgm; no prologue) so that they stay in lock step: several wavefronts are in the
    scheduler's `internalExecuting` list in the same cycle, and the barrier of one group is released (its wavefronts
    leave the list) while EvaluateInternalInst is walking over the list.  Instruction-fetch latency and dispatch offsets
    are swept so that the releasing wavefront takes every position of the list."""
    out = []
    body = ['nop', 'nop', 'bar', 'nop', 'w:0:0', 'bar', 'nop', 'end']

    def sc(name, kernels, wgs, lat):
        return {'name': name, 'kernels': kernels, 'wgs': wgs, 'vals': True,
                'mem': {'vdef': [5, 5], 'sdef': [5, 5], 'i': [lat, lat], 'seed': 1}}
    for lat in (1, 2, 3, 5):
        for d1 in range(7):
            for d2 in (0, 2, 4, 6):
                if not thorough and (d1 + d2 + lat) % 2:
                    continue
                out.append(sc('lock_%d_%d_%d' % (lat, d1, d2), [{'mode': 'raw', 'nwf': 1, 'body': body}],
                              [{'k': 0, 'at': a} for a in (0, d1, d2, d1 + d2)], lat))
    # seeded variation: other bodies, groups of one to three wavefronts, three to eight groups over the four SIMDs
    for i in range(40 if thorough else 12):
        ops = [rng.choice(['nop', 'nop', 'bar', 'w:0:0', 'w:15:0']) for _ in range(rng.randint(3, 9))]
        if 'bar' not in ops:
            ops.insert(rng.randrange(len(ops) + 1), 'bar')
        kernels = [{'mode': 'raw', 'nwf': rng.choice([1, 1, 2, 3]), 'body': ops + ['end']}]
        if rng.random() < 0.4:
            kernels.append({'mode': 'raw', 'nwf': rng.choice([1, 2]), 'body': ops[:rng.randint(1, len(ops))] + ['end']})
        wgs = [{'k': rng.randrange(len(kernels)), 'at': rng.randint(0, 8)} for _ in range(rng.randint(3, 8))]
        out.append(sc('lockr_%d' % i, kernels, wgs, rng.choice([1, 2, 3, 4, 5, 8])))
    return out


def scalar_backpressure_scenarios(rng, thorough=False):
    """Sustained back-pressure from the scalar memory: 40 wavefronts (4 groups x 10) each issue six s_load_dword, then
    s_waitcnt lgkmcnt(0), s_endpgm, while the scalar memory side accepts one request every k cycles (`srate`) or none for a
    long window (`shold`): ToScalarMem's outgoing buffer and then the scalar unit's 16-entry read buffer fill up, and
    s_loads stall in the execute stage.  A load that is retired without its request shows as a wait count / s_endpgm that
    completes while the specification still has the load in flight (WaitcntSound, EndAfterMemory, CountersExact)."""
    raw = [{'mode': 'raw', 'nwf': 10, 'body': ['sld'] * 6 + ['w:0:0', 'end']}]

    def sc(name, kernels, extra, n=4):
        mem = {'vdef': [5, 20], 'sdef': [5, 20], 'i': [1, 3], 'seed': rng.randrange(1 << 30)}
        mem.update(extra)
        return {'name': name, 'kernels': kernels, 'wgs': [{'k': 0, 'at': 0}] * n, 'vals': True, 'mem': mem}
    out = [sc('sbp_rate%d' % k, raw, {'srate': k}) for k in ((8,) if not thorough else (3, 8, 20))]
    out.append(sc('sbp_hold', raw, {'shold': [[0, rng.choice([1200, 1500, 2500])]]}))
    if thorough:
        out.append(sc('sbp_windows', raw, {'shold': [[0, 400], [420, 900], [930, 1500]], 'srate': 2}))
        # with the prologue and a store of what was loaded: the values are judged too
        tab = [{'mode': 'table', 'progs': [['sld'] * 6 + ['w:0:0', 'gst', 'w:0:0', 'end']] * 10}]
        out.append(sc('sbp_table_rate6', tab, {'srate': 6}))
        out.append(sc('sbp_no_wait', [{'mode': 'raw', 'nwf': 10, 'body': ['sld'] * 8 + ['end']}], {'srate': 8}))
    return out


def emu_report_scenarios(rng, thorough=False):
    """Emulation CU only, dispatcher side scripted (`emuplan`): work-groups mapped one after the other (so their completions
    are not batched) while the dispatcher does not take completion messages (back-pressure on ToDispatcher: the one-entry
    outgoing buffer stays full, handleWGCompleteEvent's send fails and the event is scheduled again every cycle), then the
    link is freed.  The shapes are the behaviours of CUReport.tla: Map, Run/Handle (steps), failed sends, Take."""
    mem = {'vdef': [5, 5], 'sdef': [5, 5], 'i': [1, 1], 'seed': 1}
    raw = [{'mode': 'raw', 'nwf': 2, 'body': ['nop', 'bar', 'w:0:0', 'end']}]
    tab = [{'mode': 'table', 'progs': [['gst', 'w:0:0', 'bar', 'gld', 'w:0:0', 'out'], ['lst', 'bar', 'lld', 'w:15:0', 'out']]}]

    def sc(name, kernels, n, plan):
        return {'name': name, 'emuonly': True, 'kernels': kernels, 'wgs': [{'k': 0, 'at': 0}] * n, 'mem': mem, 'emuplan': plan}
    out = [sc('emu_link_free', raw, 3, [['map', 1], ['step', 6], ['map', 2], ['step', 6], ['map', 3], ['step', 6]])]
    # A's message stays in the port, B's send fails k times, then the link frees
    for k in (1, 3, 9):
        out.append(sc('emu_retry_%d' % k, raw if k != 3 else tab, 2,
                      [['hold'], ['map', 1], ['step', 8], ['map', 2], ['step', 4 + k], ['free'], ['step', 4]]))
    # a third group arrives while B retries: B leaves the sending to it
    out.append(sc('emu_retry_then_third', raw, 3,
                  [['hold'], ['map', 1], ['step', 8], ['map', 2], ['step', 6], ['map', 3], ['step', 6], ['free'], ['step', 4]]))
    # three groups batched behind a held message, the held one taken alone, then the rest
    out.append(sc('emu_batch_behind_held', raw, 4,
                  [['hold'], ['map', 1], ['step', 8], ['map', 2], ['map', 3], ['map', 4], ['step', 9], ['take'], ['step', 3], ['free']]))
    for i in range(40 if thorough else 6):
        n = rng.randint(2, 5)
        plan, nxt, holding = [], 1, False
        for _ in range(rng.randint(4, 14)):
            op = rng.choice(['map', 'map', 'step', 'step', 'hold', 'free', 'take'])
            if op == 'map':
                if nxt <= n:
                    plan.append(['map', nxt])
                    nxt += 1
            elif op == 'step':
                plan.append(['step', rng.randint(1, 9)])
            else:
                plan.append([op])
        out.append(sc('emu_plan%d' % i, rng.choice([raw, raw, tab]), n, plan))
    return out


def fe_scenarios(rng, thorough=False):
    """Front-end scenarios (flag "fe": the driver also logs fetches, retirements and what the issue arbiter saw):
    loops (backward branches: the instruction buffer is flushed and refilled, fetches in flight become stale), early exits
    and per-wavefront dispatch (forward conditional branches, taken and not taken), 8 to 24 wavefronts over the four SIMDs,
    instruction memory from 1 to 60 cycles."""
    ilats = [[1, 1], [2, 12], [20, 60], [1, 40]]
    # a small one first (the binding self-test corrupts copies of it): 2 groups of 2 wavefronts, a loop, an early exit
    out = [{'name': 'fe_small', 'fe': True, 'vals': True,
            'kernels': [{'mode': 'uniform', 'nwf': 2, 'body': ['loop:2', 'alu', 'sld', 'w:15:0', 'bar', 'endloop', 'xge:1', 'gst', 'w:0:0', 'bar']}],
            'wgs': [{'k': 0, 'at': 0}, {'k': 0, 'at': rng.choice([0, 1, 2])}],
            'mem': {'vdef': [5, 40], 'sdef': [3, 20], 'i': rng.choice(ilats[:2]), 'seed': rng.randrange(1 << 30)}}]
    n = 10 if thorough else 2
    for i in range(n):
        nwf = rng.choice([2, 3, 4, 8] if thorough else [2, 3, 4])
        inner = [rng.choice(['alu', 'alu', 'nop', 'sld', 'w:15:0', 'bar']) for _ in range(rng.randint(2, 14 if thorough else 8))]
        body = ['alu'] * rng.randint(0, 3) + ['loop:%d' % rng.randint(2, 4 if thorough else 3)] + inner + ['endloop']
        if rng.random() < 0.5:
            body += ['xge:%d' % rng.randint(1, nwf)]
        body += ['gst', 'w:0:0', 'bar', 'gld', 'w:0:0', 'out']
        if i % 2 == 0:
            # straight-line code longer than the instruction buffer (256 bytes)
            body += [rng.choice(['alu', 'nop']) for _ in range(rng.randint(70, 90))]
        if rng.random() < 0.5:
            body += ['loop:2', 'nop', 'alu', 'endloop']
        out.append({'name': 'fe_loop%d' % i, 'fe': True, 'kernels': [{'mode': 'uniform', 'nwf': nwf, 'body': body}],
                    'wgs': [{'k': 0, 'at': rng.choice([0, 0, 2, 7])} for _ in range(rng.randint(2, 3) if thorough else 2)], 'vals': True,
                    'mem': {'vdef': [5, 40], 'sdef': [3, 20], 'i': ilats[i % len(ilats)], 'seed': rng.randrange(1 << 30)}})
    for i in range(n if thorough else 1):
        nwf = rng.choice([3, 4, 5, 8] if thorough else [3, 4, 5])
        progs = gen_structured(rng, nwf, rng.randint(1, 2), {}, rng.choice([0, 3, 12]))
        out.append({'name': 'fe_table%d' % i, 'fe': True, 'kernels': [{'mode': 'table', 'progs': progs}],
                    'wgs': [{'k': 0, 'at': rng.choice([0, 1, 5])} for _ in range(rng.randint(1, 3) if thorough else 2)], 'vals': True,
                    'mem': {'vdef': [5, 60], 'sdef': [3, 20], 'i': ilats[(i + 2) % len(ilats)], 'seed': rng.randrange(1 << 30)}})
    return out


# --------------------------------------------------------------------------- signatures / statistics
def _subtrace_facts(recs):
    mode = next((r.get('mode') for r in recs if r['e'] == 'Reset'), None)
    wg = {}
    for r in recs:
        if r['e'] == 'MapWG':
            for w in r['wfs']:
                wg[w] = r['g']
    return mode, wg


def signature(bad, at, v2):
    """Facts about a rejected sub-trace, for known-finding matching (narrow: which rule, which cause)."""
    mode, wg = _subtrace_facts(bad)
    ev = bad[min(at, len(bad)) - 1] if bad else {}
    sig = {'mode': mode}
    nbar, ended, ended_short = {}, {}, set()
    last_issue = {}
    parked = set()          # wavefronts whose latest instruction is an s_barrier
    full_release = False    # a wavefront ended, with siblings at a barrier, while > 16 wavefronts were parked on the CU
    for i, r in enumerate(bad[:at]):
        if r['e'] == 'Issue':
            last_issue[r['w']] = r['k']
            parked.discard(r['w'])
            if r['k'] == 'bar':
                nbar[r['w']] = nbar.get(r['w'], 0) + 1
                parked.add(r['w'])
        if r['e'] == 'WfEnd':
            ended[r['w']] = i
            g = wg.get(r['w'])
            sibs = [x for x in wg if wg[x] == g and x != r['w'] and x not in ended]
            if len(parked) > BARRIER_BUFFER and sibs and all(x in parked for x in sibs):
                full_release = True
    # a wavefront that ended having issued fewer barriers than a sibling of its group has issued by now
    for w in ended:
        for x in wg:
            if x != w and wg.get(x) == wg.get(w) and nbar.get(x, 0) > nbar.get(w, 0):
                ended_short.add(w)
    if ev.get('e') in ('Issue', 'InstEnd'):
        sig['k'] = ev.get('k')
    if ev.get('e') == 'Panic':
        sig['msg'] = str(ev.get('msg'))[:80]
    if mode == 'timing' and full_release:
        sig['cause'] = 'endpgm_released_barrier_with_full_barrier_buffer'
    elif ev.get('e') == 'Panic':
        sig['cause'] = 'sibling_ended_before_barrier' if ended_short else 'other'
    elif ev.get('e') == 'Quiesce':
        stuck = [w for w in wg if w not in ended]
        at_bar = bool(stuck) and all(last_issue.get(w) == 'bar' for w in stuck)
        grp_has_short = all(any(wg[e] == wg[w] for e in ended_short) for w in stuck) if stuck else False
        sig['cause'] = 'parked_at_barrier_after_sibling_ended' if (at_bar and grp_has_short) else 'other'
    return sig


def nontrivial(recs):
    wg = {}
    bars = {}
    inflight = {}
    ended = set()
    for r in recs:
        e = r['e']
        if e == 'MapWG':
            for w in r['wfs']:
                wg[w] = r['g']
        elif e == 'Issue':
            if r['k'] == 'bar':
                bars.setdefault(wg.get(r['w']), set()).add(r['w'])
            if r['k'] in ('vmem', 'smem'):
                inflight[r['id']] = r['w']
            if r['k'] == 'wait' and r['w'] in inflight.values():
                return True
        elif e == 'MemRsp' and r.get('last') == 1:
            inflight.pop(r['id'], None)
        elif e == 'WfEnd':
            ended.add(r['w'])
            if any(g == wg.get(r['w']) and w not in ended for w, g in wg.items()):
                return True
    return any(len(s) >= 2 for s in bars.values())


def corruptions():
    def post_barrier_issue_early(recs, rng):
        # move the first instruction a wavefront issues after a barrier in front of a sibling's barrier issue
        wg = {}
        for r in recs:
            if r['e'] == 'MapWG':
                for w in r['wfs']:
                    wg[w] = r['g']
        bar_idx = [i for i, r in enumerate(recs) if r['e'] == 'Issue' and r['k'] == 'bar']
        for a in bar_idx:
            for b in bar_idx:
                wa, wb = recs[a]['w'], recs[b]['w']
                if a < b and wa != wb and wg.get(wa) == wg.get(wb):
                    nxt = next((i for i in range(b + 1, len(recs)) if recs[i]['e'] == 'Issue' and recs[i]['w'] == wa), None)
                    if nxt is None:
                        continue
                    if any(r['e'] == 'Issue' and r['w'] == wa for r in recs[a + 1:b]):
                        continue
                    ev = recs.pop(nxt)
                    recs.insert(b, ev)
                    return recs
        return None

    def drop_last_response_before_wait(recs, rng):
        for i, r in enumerate(recs):
            if r['e'] == 'InstEnd' and r['k'] == 'wait':
                w = r['w']
                for j in range(i - 1, -1, -1):
                    if recs[j]['e'] == 'MemRsp' and recs[j]['w'] == w and recs[j]['last'] == 1 and recs[j]['q'] == 'v':
                        iid = recs[j]['id']
                        return [x for k, x in enumerate(recs) if k != j and not (x['e'] == 'InstEnd' and x.get('id') == iid)]
                    if recs[j]['e'] == 'Issue' and recs[j]['w'] == w and recs[j]['k'] == 'wait':
                        break
        return None

    def duplicate_completion(recs, rng):
        idx = [i for i, r in enumerate(recs) if r['e'] == 'WGDone']
        if not idx:
            return None
        i = rng.choice(idx)
        return recs[:i + 1] + [dict(recs[i])] + recs[i + 1:]

    def group_twice_in_message(recs, rng):
        # the completion message names its group twice (a retried send that queued the id again)
        idx = [i for i, r in enumerate(recs) if r['e'] == 'WGMsg' and r['ids']]
        if not idx:
            return None
        i = rng.choice(idx)
        recs[i]['ids'] = list(recs[i]['ids']) + [recs[i]['ids'][-1]]
        return recs

    def completion_before_sibling_end(recs, rng):
        # drop the WfEnd of a wavefront that is not the last of its group: the completion then comes too early
        wg = {}
        for r in recs:
            if r['e'] == 'MapWG' and len(r['wfs']) >= 2:
                for w in r['wfs']:
                    wg[w] = r['g']
        ends = [i for i, r in enumerate(recs) if r['e'] == 'WfEnd' and r['w'] in wg]
        for i in ends:
            g = wg[recs[i]['w']]
            later = [j for j in ends if j > i and wg[recs[j]['w']] == g]
            if later:
                return recs[:i] + recs[i + 1:]
        return None

    def corrupt_counter(recs, rng):
        idx = [i for i, r in enumerate(recs) if r['e'] == 'InstEnd' and r['k'] == 'wait']
        if not idx:
            return None
        recs[rng.choice(idx)]['os'] += 1
        return recs

    def end_before_memory(recs, rng):
        # move a WfEnd in front of the last response of one of the wavefront's memory operations
        for i, r in enumerate(recs):
            if r['e'] == 'WfEnd':
                w = r['w']
                for j in range(i - 1, -1, -1):
                    if recs[j]['e'] == 'Issue' and recs[j]['w'] == w and recs[j]['k'] == 'end':
                        # the s_endpgm issue: look for a last response after it
                        k = next((m for m in range(j + 1, i) if recs[m]['e'] == 'MemRsp' and recs[m]['w'] == w and recs[m]['last'] == 1), None)
                        if k is not None:
                            ev = recs.pop(i)
                            recs.insert(k, ev)
                            return recs
                        break
        return None

    def corrupt_value_digest(recs, rng):
        idx = [i for i, r in enumerate(recs) if r['e'] == 'Final' and r.get('ref') == 1]
        if not idx:
            return None
        recs[idx[0]]['to'][1] ^= 1
        return recs

    def drop_quiesce_completion(recs, rng):
        # remove a work-group's completion and its wavefront ends: the run ends with an unreported group
        idx = [i for i, r in enumerate(recs) if r['e'] == 'WGDone']
        if not idx:
            return None
        i = idx[-1]
        out = recs[:i] + recs[i + 1:]
        return [r for r in out if r['e'] != 'AceTake']

    return [('instruction_after_barrier_before_sibling_arrives', post_barrier_issue_early),
            ('waitcnt_completes_with_load_in_flight', drop_last_response_before_wait),
            ('duplicate_completion_message', duplicate_completion), ('group_named_twice_in_one_message', group_twice_in_message),
            ('completion_before_a_wavefront_ended', completion_before_sibling_end),
            ('corrupt_outstanding_counter', corrupt_counter),
            ('wavefront_ends_with_memory_in_flight', end_before_memory),
            ('corrupt_value_digest', corrupt_value_digest),
            ('unreported_group_at_quiescence', drop_quiesce_completion)]


def fe_corruptions():
    """Corruptions of accepted front-end traces; CUFrontTrace.tla has to refuse every one of them."""
    def issues(recs):
        return [i for i, r in enumerate(recs) if r['e'] == 'Issue' and 't' in r]

    def pick(recs, rng, pred):
        c = [i for i in issues(recs) if pred(recs[i])]
        return rng.choice(c) if c else None

    def skip_instruction(recs, rng):
        i = pick(recs, rng, lambda r: r['pc'] > 0)
        if i is None:
            return None
        recs[i]['pc'] += 4
        return recs

    def no_redirect_after_taken_branch(recs, rng):
        # the instruction after a taken branch is reported at the fall-through address of a non-branch predecessor
        last = {}
        for i in issues(recs):
            r = recs[i]
            p = last.get(r['w'])
            if p is not None and r['pc'] != p['pc'] + p['size']:
                q = [j for j in issues(recs) if recs[j]['w'] == r['w'] and j < i][-2:]
                if len(q) == 2:
                    recs[q[1]]['opc'] = 0   # the branch now reads as s_nop: the jump is unexplained
                    return recs
            last[r['w']] = r
        return None

    def decode_of_stale_buffer(recs, rng):
        i = pick(recs, rng, lambda r: True)
        recs[i]['ibok'] = 0
        return recs

    def issue_to_busy_unit(recs, rng):
        i = pick(recs, rng, lambda r: r['cls'] != 'I')
        if i is None:
            return None
        recs[i]['can'] = 0
        return recs

    def two_issues_same_unit_same_simd(recs, rng):
        # two instructions of one cycle (different SIMDs in the real trace) reported for the same SIMD and unit class
        idx = issues(recs)
        c = [(a, b) for a, b in zip(idx, idx[1:]) if recs[a]['t'] == recs[b]['t'] and recs[a]['w'] != recs[b]['w']]
        if not c:
            return None
        a, b = rng.choice(c)
        recs[b]['simd'], recs[b]['cls'] = recs[a]['simd'], recs[a]['cls']
        return recs

    def younger_wavefront_first(recs, rng):
        i = pick(recs, rng, lambda r: True)
        recs[i]['pool'] = list(recs[i]['pool']) + [[9999, 1, recs[i]['cls'], 1]]
        return recs

    def round_robin_order_broken(recs, rng):
        # two instructions of one cycle from different SIMDs swapped
        idx = issues(recs)
        for a, b in zip(idx, idx[1:]):
            if recs[a]['t'] == recs[b]['t'] and recs[a]['simd'] != recs[b]['simd'] and b == a + 1:
                recs[a], recs[b] = recs[b], recs[a]
                return recs
        for a, b in zip(idx, idx[1:]):
            if recs[a]['t'] == recs[b]['t'] and recs[a]['simd'] != recs[b]['simd']:
                recs[b]['rr'] = (recs[b]['rr'] + 1) % 4
                return recs
        return None

    def retire_dropped(recs, rng):
        c = [i for i, r in enumerate(recs) if r['e'] == 'Retire' and r['k'] == 'alu']
        if not c:
            return None
        del recs[rng.choice(c)]
        return recs

    def retire_twice(recs, rng):
        c = [i for i, r in enumerate(recs) if r['e'] == 'Retire' and r['k'] in ('alu', 'vmem', 'smem', 'wait')]
        if not c:
            return None
        i = rng.choice(c)
        recs.insert(i + 1, dict(recs[i]))
        return recs

    def issue_while_in_flight(recs, rng):
        # the retirement of an instruction moved behind the wavefront's next issue
        c = [i for i, r in enumerate(recs) if r['e'] == 'Retire' and r['k'] == 'alu']
        rng.shuffle(c)
        for i in c:
            nxt = [j for j in issues(recs) if j > i and recs[j]['w'] == recs[i]['w']]
            if nxt:
                r = recs.pop(i)
                recs.insert(nxt[0], r)   # after the pop the issue sits at nxt[0] - 1
                return recs
        return None

    def second_fetch_while_fetching(recs, rng):
        c = [i for i, r in enumerate(recs) if r['e'] == 'Fetch']
        if not c:
            return None
        i = rng.choice(c)
        recs.insert(i + 1, dict(recs[i]))
        return recs

    def fetch_wrong_line(recs, rng):
        c = [i for i, r in enumerate(recs) if r['e'] == 'Fetch']
        i = rng.choice(c)
        w, a = recs[i]['w'], recs[i]['a']
        recs[i]['a'] += 64
        for r in recs[i + 1:]:
            if r['e'] == 'FetchRsp' and r['w'] == w and r['a'] == a:
                r['a'] += 64
                break
        return recs

    def fetch_not_oldest(recs, rng):
        c = [i for i, r in enumerate(recs) if r['e'] == 'Fetch' and len(r['all']) > 1]
        if not c:
            return None
        i = rng.choice(c)
        recs[i]['all'] = [list(x) for x in recs[i]['all']]
        me = next(x for x in recs[i]['all'] if x[0] == recs[i]['w'])
        oth = next(x for x in recs[i]['all'] if x[0] != recs[i]['w'])
        oth[1], oth[2], oth[3], oth[4] = 0, 0, 0, me[4] - 1
        return recs

    def stale_line_appended(recs, rng):
        c = [i for i, r in enumerate(recs) if r['e'] == 'FetchRsp']
        recs[rng.choice(c)]['bufok'] = 0
        return recs

    def reference_path_differs(recs, rng):
        c = [i for i, r in enumerate(recs) if r['e'] == 'RefPC' and len(r['pcs']) > 3]
        i = rng.choice(c)
        recs[i]['pcs'] = list(recs[i]['pcs'])
        del recs[i]['pcs'][len(recs[i]['pcs']) // 2]
        return recs

    return [('instruction_skipped', skip_instruction), ('jump_without_branch', no_redirect_after_taken_branch),
            ('decode_of_stale_buffer', decode_of_stale_buffer), ('issue_to_busy_unit', issue_to_busy_unit),
            ('two_issues_same_unit_same_simd_same_cycle', two_issues_same_unit_same_simd),
            ('younger_wavefront_issued_first', younger_wavefront_first), ('round_robin_order_broken', round_robin_order_broken),
            ('retirement_dropped', retire_dropped), ('retired_twice', retire_twice), ('issue_while_previous_in_flight', issue_while_in_flight),
            ('second_fetch_while_fetching', second_fetch_while_fetching), ('fetch_of_wrong_line', fetch_wrong_line),
            ('fetch_not_oldest', fetch_not_oldest), ('stale_line_appended', stale_line_appended),
            ('executed_addresses_differ_from_emulation', reference_path_differs)]


# --------------------------------------------------------------------------- the check
def _est_events(sc):
    """Rough number of trace lines a scenario produces (emulation + timing), to size the validation chunks."""
    if sc.get('bench'):
        return 25000
    n = 0
    for w in sc['wgs']:
        k = sc['kernels'][w['k']]
        if k['mode'] == 'table':
            n += sum(80 + 3 * len(p) + 2 * i for i, p in enumerate(k['progs']))
        elif k['mode'] == 'raw':
            n += k['nwf'] * (8 + 3 * len(k['body']))
        else:
            ops, rep = 0, 1
            for o in k['body']:
                if o.startswith('loop:'):
                    rep = int(o[5:])
                elif o == 'endloop':
                    ops, rep = ops + 4 * rep, 1
                else:
                    ops += rep
            n += k['nwf'] * (80 + 3 * ops)
    return (3 if sc.get('fe') else 1 if sc.get('emuonly') else 2) * n


def _run_scenarios(ctx, drv, scen, tag):
    sfile = os.path.join(ctx.scratch, 'scen_%s.json' % tag)
    json.dump(scen, open(sfile, 'w'))
    t = os.path.join(ctx.scratch, 'trace_%s.ndjson' % tag)
    p, stats = common.run_driver(ctx, drv, ['-scen', sfile, '-out', t], timeout=1500)
    if stats is None:
        raise vlib.Infra('driver failed (%s): %s' % (tag, p.stdout[-2000:]))
    ctx.log('%s: %d scenarios: %s' % (tag, len(scen), stats))
    return t, stats


def _run_and_validate(ctx, drv, scen, tag, files, totals, limit=70000, specs=(TSPEC,)):
    """Run the scenarios and validate their traces, in chunks of about `limit` trace lines (one TLC run each)."""
    chunk, size, k = [], 0, 0
    for sc in scen + [None]:
        if sc is None or (chunk and size + _est_events(sc) > limit):
            if chunk:
                t, st = _run_scenarios(ctx, drv, chunk, '%s%d' % (tag, k))
                for spec in specs:
                    _validate(ctx, t, chunk, '%s%d' % (tag, k), spec)
                files.append(t)
                for key, v in st.items():
                    totals[key] = totals.get(key, 0) + v
                k += 1
            chunk, size = [], 0
        if sc is not None:
            chunk.append(sc)
            size += _est_events(sc)


def _validate(ctx, tfile, scen, tag, spec=TSPEC):
    """One tolerant TLC run names every sub-trace the specification refuses (CUSchedTraceTol.cfg: a refused
    sub-trace is skipped up to the next Reset).  A refusal that matches an open known finding is recorded as such;
    any other one is confirmed in isolation with the strict configuration before it is reported."""
    parts = vlib.split_traces(tfile)
    v = ctx.validate_trace(spec['dirs'], spec['module'], spec['tol'], tfile, timeout=spec['timeout'])
    if not v['accepted']:
        raise vlib.Infra('tolerant trace validation did not reach the end of %s: highwater %s of %s\n%s' % (
            tag, v['highwater'], v['n'], v['res'].out[-1500:]))
    out = v['res'].out
    i = out.find('<< "REJECTS"')
    if i < 0:
        i = out.find('<<"REJECTS"')
    if i < 0:
        raise vlib.Infra('tolerant trace validation printed no REJECTS record:\n' + out[-1500:])
    j = out.find('<<"HIGHWATER"', i)
    rej = vlib.tlaval.parse_value(out[i:j])[1]
    bad_parts = set()
    new_here = 0
    for rj in rej:
        line = rj['l']
        idx = max(k for k, (start, _) in enumerate(parts) if start <= line)
        start, recs = parts[idx]
        if idx in bad_parts:
            continue
        bad_parts.add(idx)
        at = line - start + 1
        ev = recs[at - 1]
        why = sorted(rj['why'])
        sig = {'kind': 'trace_rejected', 'violated': ','.join(why), 'event': ev.get('e')}
        sig.update(signature(recs, at, None))
        what = '%s: real-code trace (%s, scenario %r) not a behaviour of %s: %s at event #%d %s' % (
            ctx.pid, sig.get('mode'), recs[0].get('name'), spec['module'], sig['violated'], at, json.dumps(ev)[:300])
        case = recs[0].get('case')
        replay = {'driver': {'cmd': 'c14', 'scenarios': [scen[case]] if case is not None and case < len(scen) else scen, 'tag': tag},
                  'trace_spec': [spec['dirs'], spec['module'], spec['cfg']], 'failing_index': at, 'trace': recs}
        if ctx.known_match(sig) is None:
            if new_here >= 2:
                # two confirmed violations per trace file are enough; the others are only counted
                ctx.cov['further_unconfirmed_rejections'] = ctx.cov.get('further_unconfirmed_rejections', 0) + 1
                continue
            new_here += 1
            sub = os.path.join(ctx.scratch, 'sub_%s_%d.ndjson' % (tag, idx))
            vlib.write_ndjson(sub, recs)
            v2 = ctx.validate_trace(spec['dirs'], spec['module'], spec['cfg'], sub, timeout=spec['timeout'])
            if v2['accepted']:
                raise vlib.Infra('rejection at line %d of %s not reproduced on the isolated sub-trace' % (line, tag))
        ctx.report_failure(what, sig, replay)
    # cross-check of the tolerant mode itself: a sub-trace that logged a panic or ended with an unreported
    # work-group can never be a behaviour of the specification
    for k, (_, recs) in enumerate(parts):
        if spec is TSPEC and k not in bad_parts and any(r['e'] == 'Panic' or (r['e'] == 'Quiesce' and r.get('pending', 0) > 0) for r in recs):
            raise vlib.Infra('tolerant trace validation accepted a sub-trace with a panic/hang (%s, case %s)' % (tag, recs[0].get('case')))
    if spec is TSPEC:
        ctx.cov['traces_validated_against_impl'] += len(parts) - len(bad_parts)
    else:
        ctx.cov['front_end_traces_validated'] = ctx.cov.get('front_end_traces_validated', 0) + sum(
            1 for k, (_, recs) in enumerate(parts) if k not in bad_parts and any(r['e'] == 'Fetch' for r in recs))
    return len(parts) - len(bad_parts)


def selftest_batch(ctx, trace_path, corrs, spec=TSPEC, key='binding_selftest', need=5):
    """Binding self-test (same contract as common.selftest_binding, one TLC run): every corrupted copy of an
    accepted timing sub-trace must be refused by the trace specification, otherwise the specification is vacuous."""
    import copy
    paths = trace_path if isinstance(trace_path, (list, tuple)) else [trace_path]
    parts = [recs for tp in paths for _, recs in vlib.split_traces(tp) if recs[0].get('mode') == 'timing' and len(recs) < 6000
             and (spec is TSPEC or any(r['e'] == 'Fetch' for r in recs))
             and not any(r['e'] == 'Panic' or (r['e'] == 'Quiesce' and r.get('pending', 0) > 0) for r in recs)]
    rng = random.Random(ctx.seed)
    rng.shuffle(parts)
    if spec is not TSPEC:
        parts.sort(key=len)
    batch, names = [], []
    for name, fn in corrs:
        for recs in parts[:25]:
            bad = fn(copy.deepcopy(recs), rng)
            if bad is None:
                continue
            names.append(name)
            batch.append(bad)
            break
    if len(names) < need:
        if ctx.violations:
            # the real code already failed on these traces (reported above): there is no accepted trace left to corrupt
            ctx.notes.append('binding self-test skipped: only %d corruptions applicable to the traces of a failing tree' % len(names))
            return []
        raise vlib.Infra('binding self-test: only %d corruptions applicable' % len(names))
    p = os.path.join(ctx.scratch, 'selftest_%s.ndjson' % key)
    vlib.write_ndjson(p, [r for recs in batch for r in recs])
    v = ctx.validate_trace(spec['dirs'], spec['module'], spec['tol'], p, timeout=spec['timeout'])
    out = v['res'].out
    i = max(out.find('<< "REJECTS"'), out.find('<<"REJECTS"'))
    if not v['accepted'] or i < 0:
        raise vlib.Infra('binding self-test: tolerant validation gave no verdict:\n' + out[-1500:])
    rej = vlib.tlaval.parse_value(out[i:out.find('<<"HIGHWATER"', i)])[1]
    starts, pos = [], 1
    for recs in batch:
        starts.append(pos)
        pos += len(recs)
    results = []
    for k, name in enumerate(names):
        lo, hi = starts[k], starts[k] + len(batch[k])
        mine = [rj for rj in rej if lo <= rj['l'] < hi]
        if not mine:
            raise vlib.Infra('binding self-test: corruption %r was ACCEPTED by %s (vacuous trace spec)' % (name, spec['module']))
        results.append({'corruption': name, 'rejected_at': mine[0]['l'] - lo + 1, 'violated': sorted(mine[0]['why'])})
    ctx.cov[key] = results
    ctx.log('binding self-test (' + spec['module'] + '): %s' % ', '.join('%s->%s' % (r['corruption'], '+'.join(r['violated'])) for r in results))
    return results


def run(ctx, selftest=False):
    thorough = ctx.tier == 'thorough'
    drv = ctx.go_build('c14')
    rng = random.Random(ctx.seed)
    W = 8 if not thorough else vlib.NCPU

    # 1. design-level model checking
    r = ctx.tlc_expect_ok(['cusched'], 'MC_CUSched.tla', 'MC_CUSched.cfg', coverage=True, timeout=900, workers=W)
    ctx.log('MC_CUSched (2 wavefronts, every program of <= 3 instructions + s_endpgm): %d distinct states, depth %d' % (r.distinct, r.depth))
    ctx.cov['coverage_zero_actions'] = r.coverage_zero()
    r = ctx.tlc_expect_ok(['cusched'], 'MC_CUSched.tla', 'MC_CUSched_live.cfg', timeout=900, workers=W)
    ctx.log('MC_CUSched_live (every mapped group is eventually reported, under fairness): %d distinct states' % r.distinct)
    if thorough:
        for cfg in ('MC_CUSched_3wf.cfg', 'MC_CUSched_2wg.cfg', 'MC_CUSched_smallbuf.cfg', 'MC_CUSched_ooo.cfg',
                    'MC_CUSched_sampled.cfg'):
            r = ctx.tlc_expect_ok(['cusched'], 'MC_CUSched.tla', cfg, timeout=3000, workers=W)
            ctx.log('%s: %d distinct states, depth %d' % (cfg, r.distinct, r.depth))
        ctx.cov['exhaustive'] = True
    # the current tree's deviation: the model must hang, and the counterexample is a lead to replay
    r = ctx.tlc(['cusched'], 'MC_CUSched.tla', 'MC_CUSched_asimpl.cfg', timeout=600, workers=1)
    lead = []
    if 'NoHang' in r.violated:
        ce = [s for _, s in r.counterexample()]
        ctx.log('as-implemented model (CompletedWfNotCountedAtBarrier): NoHang violated after %d steps -> replayed on the real CUs' % len(ce))
        for pa, pb in ((0, 0), (30, 0)) if not thorough else ((0, 0), (30, 0), (0, 30), (12, 12)):
            lead.append(beh_to_scenario(ce, 'lead_asimpl_%d_%d' % (pa, pb), pads={(1, 0): pa, (1, 1): pb}))
        ctx.sample({'as_implemented_counterexample_program': lead[0]['kernels'][0]['progs']})
    elif r.violated or not r.completed:
        raise vlib.Infra('as-implemented model check failed unexpectedly: %s %s' % (r.violated, r.error))
    else:
        ctx.notes.append('as-implemented deviation no longer breaks NoHang in the model')

    r = ctx.tlc(['cusched'], 'MC_CUSched.tla', 'MC_CUSched_asimpl2.cfg', timeout=900, workers=2)
    if r.violated:
        ctx.log('as-implemented model (EndpgmReleaseKeepsInternal, barrier buffer of 1): %s violated after %d steps; the scenario '
                'full_barrier_buffer_exit_last is this counterexample scaled to the real buffer of 16' % (','.join(r.violated), len(r.counterexample())))
    elif not r.completed:
        raise vlib.Infra('as-implemented model check (2) failed unexpectedly: %s' % r.error)

    # 2. spec -> code: behaviours of the model become kernels and environments
    scen = []
    for cfg, nq, nt in (('G22_bal', 12, 70), ('G31_bal', 0, 50), ('G4_bal', 12, 60), ('G3_bal', 0, 50),
                        ('G22_free', 0, 15), ('G4_free', 3, 15)):
        if not (nt if thorough else nq):
            continue
        behs, _ = ctx.simulate(['cusched'], 'CUSchedScen.tla', 'CUSchedScen_%s.cfg' % cfg, num=nt if thorough else nq, depth=120)
        for i, b in enumerate(behs):
            scen.append(beh_to_scenario(b, '%s_%d' % (cfg, i), seed=ctx.seed * 1000 + i, balance=cfg.endswith('bal')))
    ctx.sample({'scenario_from_TLC_behaviour': {'progs': scen[0]['kernels'][0]['progs'], 'mem': scen[0]['mem']}})
    early_tlc = sum(1 for s in scen for k in s['kernels'] if len({p.count('bar') for p in k['progs']}) > 1)
    ctx.log('%d scenarios from TLC behaviours (%d with wavefronts leaving before a sibling\'s barrier)' % (len(scen), early_tlc))
    files, tot = [], {}
    _run_and_validate(ctx, drv, scen + lead, 'tlc', files, tot)

    # 3. code -> spec: fixed and seeded scenarios far beyond the model's bounds
    fixed = fixed_scenarios(thorough)
    nrand = 180 if thorough else 30
    rnd = [gen_random(rng, i) for i in range(nrand)] + [gen_random(rng, 1000 + i, big=True) for i in range(6 if thorough else 1)]
    # wavefronts that leave before a sibling's barrier hit the open findings on the unchanged tree: their traces are
    # validated separately so that the bulk is validated in one TLC run
    plain = [s for s, e in fixed + rnd if not e]
    early = [s for s, e in fixed + rnd if e]
    if not thorough:
        early = early[:5]
    nplain = len(files)
    _run_and_validate(ctx, drv, plain, 'plain', files, tot)
    t2 = files[nplain]
    _run_and_validate(ctx, drv, early, 'early', files, tot)

    # 3b. co-resident groups in lock step (several internal instructions evaluated in one scheduler pass)
    lock = lockstep_scenarios(rng, thorough)
    # 3b'. the emulation CU's completion report under back-pressure (CUReport.tla), validated in the same TLC run
    r = ctx.tlc_expect_ok(['cusched'], 'CUReport.tla', 'MC_CUReport.cfg', timeout=600, workers=2)
    ctx.log('MC_CUReport (emulation CU: 3 groups, one-entry port, <= 3 failed sends): %d distinct states; CompletionOnce, NoHang, '
            'IdempotentRetry hold' % r.distinct)
    r = ctx.tlc(['cusched'], 'CUReport.tla', 'MC_CUReport_dev_retry.cfg', timeout=600, workers=1)
    if 'CompletionOnce' not in r.violated:
        raise vlib.Infra('CUReport with deviation RetryAppends does not violate CompletionOnce (violated: %s, error: %s)' % (r.violated, r.error))
    ctx.log('CUReport with deviation RetryAppends: CompletionOnce violated after %d steps' % len(r.counterexample()))
    if thorough:
        for cfg in ('MC_CUReport_live.cfg', 'MC_CUReport_4g.cfg'):
            r = ctx.tlc_expect_ok(['cusched'], 'CUReport.tla', cfg, timeout=900, workers=2)
            ctx.log('%s: %d distinct states' % (cfg, r.distinct))
    emur = emu_report_scenarios(rng, thorough)
    # 3b''. sustained back-pressure from the scalar memory (stalled s_loads)
    sbp = scalar_backpressure_scenarios(rng, thorough)
    ctx.cov['scalar_backpressure_scenarios'] = len(sbp)
    _run_and_validate(ctx, drv, lock + emur + sbp, 'lock', files, tot)
    ctx.cov['lockstep_scenarios'] = len(lock)
    ctx.cov['emulation_report_scenarios'] = len(emur)

    # 3c. the front end: fetch, instruction buffer, decode, issue arbitration, retirement
    front_end(ctx, drv, rng, thorough, W, files, tot)

    # 4. system level: the same kernels through Driver -> CP -> dispatcher -> CU of the shipped platforms
    sysc = sys_scenarios(rng, thorough)
    _run_and_validate(ctx, drv, [s for s, _ in sysc], 'sys', files, tot)

    parts = []
    for t in files:
        parts += vlib.split_traces(t)
    distinct = {json.dumps([{k: v for k, v in r.items() if k not in ('seq', 'case')} for r in recs], sort_keys=True)
                for _, recs in parts}
    nt = sum(1 for _, recs in parts if nontrivial(recs))
    good = next((recs for _, recs in vlib.split_traces(t2) if recs[0].get('mode') == 'timing'), parts[-1][1])
    ctx.sample({'trace_excerpt': good[:14]})
    ctx.cov.update({'evaluations': len(parts), 'distinct_nontrivial': min(nt, len(distinct)),
                    'events_validated': tot['events'], 'instructions_issued': tot['insts'], 'barrier_issues': tot['barriers'],
                    'waitcnt_issues': tot['waits'], 'memory_instructions': tot['memops'], 'work_groups': tot['wgs'],
                    'structural_hangs_observed': tot['hangs'], 'emulation_panics_observed': tot['emu_panics'],
                    'value_mismatches': tot['val_mismatch']})

    # 5. binding self-test on the traces of the plain scenarios
    selftest_batch(ctx, t2, corruptions())
    ctx.assumptions += [
        'component level: the akitabench mini engine and a harness connection stand in for akita SerialEngine/DirectConnection; '
        'the harness plays dispatcher and memory (responses in request order per port, as the reorder buffer guarantees)',
        'observation = tracing tasks of kind "inst"/"wavefront" of the CU plus port hooks; the instruction kinds are taken from '
        'what the real decoder returned',
        'reference for values and instruction paths = the real emulation CU on the same work-groups',
        'front end ("fe" scenarios): the facts logged with Issue / Fetch are read from the real objects inside the tracing hook '
        '(public fields of the wavefronts and the CU; the pools\' private wavefront lists and IssueArbiter.lastSIMDID by reflection); '
        'the StartTask of an instruction is called between the arbiter\'s choice and AcceptWave, the one of a fetch right after the send',
    ]


FE_DEVIATIONS = [('MC_CUFront_dev_issue.cfg', 'IssueWhileInFlight', 'DecodeAtPC'),
                 ('MC_CUFront_dev_noflush.cfg', 'NoFlushOnTakenBranch', 'NoFlag'),
                 ('MC_CUFront_dev_stale.cfg', 'StaleFetchAppended', 'BufferConsistent'),
                 ('MC_CUFront_dev_fetch.cfg', 'FetchWhileFetching', 'NoFlag')]


def front_end(ctx, drv, rng, thorough, W, files, tot):
    """Component part "front end": CUFront.tla model-checked (and its named deviations shown to fail), then traces of
    the real CU with the front-end facts validated against CUSchedTrace.tla and CUFrontTrace.tla."""
    r = ctx.tlc_expect_ok(['cusched'], 'MC_CUFront.tla', 'MC_CUFront_small.cfg', timeout=900, workers=min(W, 4))
    ctx.log('MC_CUFront_small (2 wavefronts on one SIMD; 6 instructions, one straddling two lines, a forward branch, a barrier): '
            '%d distinct states, depth %d' % (r.distinct, r.depth))
    r = ctx.tlc_expect_ok(['cusched'], 'MC_CUFront.tla', 'MC_CUFront_2simd.cfg', timeout=900, workers=min(W, 4))
    ctx.log('MC_CUFront_2simd (one wavefront on each of 2 SIMDs): %d distinct states' % r.distinct)
    if thorough:
        # MC_CUFront_3wf.cfg (2 + 1 wavefronts on 2 SIMDs: 285 428 states, holds) takes 10 minutes with 4 workers and is not
        # part of the tiers; see design/C14.md
        for cfg in ('MC_CUFront.cfg', 'MC_CUFront_live.cfg'):
            r = ctx.tlc_expect_ok(['cusched'], 'MC_CUFront.tla', cfg, timeout=3000, workers=min(W, 8))
            ctx.log('%s: %d distinct states' % (cfg, r.distinct))
    failed = []
    # quick tier: two of the four deviations (which two depends on the seed), thorough: all
    devs = FE_DEVIATIONS if thorough else [FE_DEVIATIONS[(ctx.seed + k) % 4] for k in (0, 2)]
    for cfg, dev, inv in devs:
        r = ctx.tlc(['cusched'], 'MC_CUFront.tla', cfg, timeout=600, workers=1)
        if inv not in r.violated:
            raise vlib.Infra('front-end model with deviation %s does not violate %s (violated: %s, error: %s)' % (dev, inv, r.violated, r.error))
        failed.append('%s->%s' % (dev, inv))
    ctx.log('front-end deviations refused by the model: %s' % ', '.join(failed))
    ctx.cov['front_end_deviations_refused'] = failed
    fe = fe_scenarios(rng, thorough)
    n0 = len(files)
    _run_and_validate(ctx, drv, fe, 'fe', files, tot, limit=60000, specs=(TSPEC, FSPEC))
    ctx.cov['front_end_scenarios'] = len(fe)
    if not ctx.violations:
        selftest_batch(ctx, files[n0:], fe_corruptions(), spec=FSPEC, key='front_end_binding_selftest', need=12)


def sys_scenarios(rng, thorough):
    out = []
    env = {'vdef': [0, 0], 'sdef': [0, 0], 'i': [0, 0], 'seed': 1}
    n = 10 if thorough else 3
    for i in range(n):
        nwf = rng.choice([2, 3, 4, 8])
        epochs = rng.randint(1, 2)
        progs = gen_structured(rng, nwf, epochs, {}, rng.choice([0, 6]))
        out.append(({'name': 'sys%d' % i, 'kernels': [{'mode': 'table', 'progs': progs, 'tail': rng.choice([0, 0, 17, 63])}],
                     'wgs': [{'k': 0, 'at': 0}] * rng.randint(1, 3),
                     'mem': env, 'vals': True, 'sys': 'r9nano'}, False))
    # shipped (compiled) kernels with barriers, run by their own host code
    shipped = [('matrixtranspose', [64])]
    if thorough:
        shipped += [('matrixtranspose', [128]), ('matrixmultiplication', [32, 32, 32]), ('nw', [64]), ('stencil2d', [1, 64, 64]),
                    ('fft', [16384, 1]), ('nbody', [1, 128])]
    for b, a in shipped:
        out.append(({'name': 'shipped_%s_%s' % (b, '_'.join(map(str, a))), 'bench': b, 'benchargs': a, 'kernels': [], 'wgs': [],
                     'mem': env}, False))
    nops = ['nop'] * 24
    out.append(({'name': 'sys_probe_exit_first', 'kernels': [{'mode': 'uniform', 'nwf': 2, 'body': ['xge:1'] + nops + ['bar']}],
                 'wgs': [{'k': 0, 'at': 0}], 'mem': env, 'vals': True, 'sys': 'r9nano'}, True))
    return out


def replay(ctx, path):
    rp = json.load(open(path))['replay']
    drv = ctx.go_build('c14')
    d = rp['driver']
    # re-run only the scenario that produced the failing sub-trace when it can be identified
    scen = d['scenarios']
    case = next((r.get('case') for r in rp.get('trace', []) if r.get('e') == 'Reset'), None)
    if case is not None and 0 <= case < len(scen):
        scen = [scen[case]]
    t, _ = _run_scenarios(ctx, drv, scen, 'replay')
    before = len(ctx.violations)
    spec = FSPEC if rp.get('trace_spec', [None, None])[1] == FSPEC['module'] else TSPEC
    _validate(ctx, t, scen, 'replay', spec)
    return 1 if len(ctx.violations) > before else 0
