"""C02 (component part "vmem") — the timing CU's vector memory path is functionally transparent.

spec/vmem/VMemISA.tla     ISA meaning of a FLAT load/store: lines touched, store bytes/masks, write-back with extension
spec/vmem/VMem.tla        the CU as a state machine (Coalesce / Send / MemDo / Handle), model-checked on a small instance
spec/vmem/MC_VMem*.cfg    TxnSound, RegsCorrect, MemCorrect, CountersZero, CompletesOnce, CompletesAfterLast, NoCrash
                          (+ liveness Finishes); the as-implemented deviations WidthAsImplemented / NoLineSplit must break them
spec/vmem/VMemTrace.tla   traces of the real timing CU (instruction as issued, every transaction, every response, the
                          destination registers once all responses were handled) against VMemISA
harness/cmd/c02vmem       hand-encoded kernels (harness/c14asm) on the real timing CU under a scripted dispatcher and memory
                          (latencies, response permutations, back-pressure); the real emulation CU is the value reference

run_component(ctx) / replay_component(ctx, path) are called from checks/c02.py; `bin/check C02VMEM` runs this part alone.
"""
import copy
import json
import os
import random

import common
import vlib

LEVEL = 'model_checking'
RULE = ('cases = FLAT instructions (tested ones and the kernels\' own set-up loads / result stores) executed by the real timing '
        'CU and judged by VMemTrace.tla; distinct = distinct (opcode, EXEC, address vector) triples; non-trivial = more than '
        'one transaction, or a partial EXEC mask, or an access that is not aligned to its size')
DIRS = ['vmem']
TMOD, TCFG, TTOL = 'VMemTrace.tla', 'VMemTrace.cfg', 'VMemTraceTol.cfg'
DATA_PER_WF = 4096
EMU_OPS = {'ld_ubyte', 'ld_sbyte', 'ld_ushort', 'ld_dw', 'ld_dw2', 'ld_dw4', 'st_dw', 'st_dw2', 'st_dw3', 'st_dw4'}
SIZE = {'ld_ubyte': 1, 'ld_sbyte': 1, 'ld_ushort': 2, 'ld_sshort': 2, 'ld_dw': 4, 'ld_dw2': 8, 'ld_dw3': 12, 'ld_dw4': 16,
        'st_byte': 1, 'st_short': 2, 'st_dw': 4, 'st_dw2': 8, 'st_dw3': 12, 'st_dw4': 16}
OPC = {'ld_ubyte': 16, 'ld_sbyte': 17, 'ld_ushort': 18, 'ld_sshort': 19, 'ld_dw': 20, 'ld_dw2': 21, 'ld_dw3': 22, 'ld_dw4': 23,
       'st_byte': 24, 'st_short': 26, 'st_dw': 28, 'st_dw2': 29, 'st_dw3': 30, 'st_dw4': 31}
CLS = {v: k for k, v in OPC.items()}
FULL = [0xffffffff, 0xffffffff]


# --------------------------------------------------------------------------- scenarios
def pattern(rng, kind, size, wf):
    """64 byte offsets into the wavefront's 4 KB slice of the data buffer."""
    base0 = wf * DATA_PER_WF
    room = DATA_PER_WF - 64
    al = lambda x: x - x % min(size, 4)
    if kind == 'unit':
        b = al(rng.randrange(0, room - 64 * size))
        offs = [b + l * size for l in range(64)]
    elif kind == 'reversed':
        b = al(rng.randrange(0, room - 64 * size))
        offs = [b + (63 - l) * size for l in range(64)]
    elif kind == 'strided':
        st = rng.choice([s for s in (8, 16, 20, 40, 60) if s >= size and 64 * s < room])
        offs = [l * st for l in range(64)]
    elif kind == 'same':
        b = al(rng.randrange(0, room))
        offs = [b] * 64
    elif kind == 'pairs':
        b = al(rng.randrange(0, room - 64 * size))
        offs = [b + (l // 2) * size for l in range(64)]
    elif kind == 'random':
        offs = [al(rng.randrange(0, room)) for _ in range(64)]
    elif kind == 'misaligned':
        # not aligned to the access size, but inside one cache line
        offs = []
        for l in range(64):
            line = rng.randrange(0, room // 64) * 64
            width = min(size, 4)
            pieces_end = 64 - size
            o = rng.randrange(0, max(1, pieces_end + 1))
            if size > 1 and o % width == 0:
                o = max(1, o - 1) if o + 1 > pieces_end else o + 1
            offs.append(line + min(o, max(0, pieces_end)))
    elif kind == 'crossing':
        # some lanes' dword (or short) starts in one line and ends in the next
        offs = []
        for l in range(64):
            line = rng.randrange(0, room // 64 - 1) * 64
            if l % 3 == 0 and size >= 2:
                piece = min(size, 4)
                offs.append(line + 64 - rng.randrange(1, piece))
            else:
                offs.append(line + al(rng.randrange(0, 64 - size)))
    elif kind == 'lines':
        # every lane in a cache line of its own: 64 transactions per instruction
        offs = [l * 64 + al(rng.randrange(0, 64 - size)) for l in range(64)]
    elif kind == 'line_end':
        # the access ends exactly at the end of a line (the last 1..3 bytes of a line for sub-dword loads)
        offs = [rng.randrange(0, room // 64) * 64 + 64 - size for _ in range(64)]
    else:
        raise ValueError(kind)
    return [base0 + o for o in offs]


def mask(rng):
    k = rng.random()
    if k < 0.35:
        return {'mask': FULL}
    if k < 0.45:
        return {'mask': [0, 0]}
    if k < 0.6:
        return {'mask': [rng.getrandbits(32), rng.getrandbits(32)]}
    if k < 0.7:
        return {'mask': [1 << rng.randrange(32), 0] if rng.random() < 0.5 else [0, 1 << rng.randrange(32)]}
    if k < 0.8:
        return {'mask': [0xffff, 0xffff0000]}
    return {'mask': FULL, 'lt': rng.randrange(1, 64)}


def env(rng):
    e = {'lat': list(rng.choice([(1, 4), (5, 40), (20, 120), (100, 300)])), 'seed': rng.randrange(1 << 30), 'perm': rng.random() < 0.5}
    if rng.random() < 0.25:
        a = rng.randrange(20, 300)
        e['vhold'] = [[a, a + rng.choice([60, 400])]]
    if rng.random() < 0.25:
        a = rng.randrange(20, 300)
        e['rhold'] = [[a, a + rng.choice([60, 400])]]
    return e


SAFE = [('ld_ubyte', ['unit', 'reversed', 'strided', 'same', 'random', 'line_end', 'pairs']),
        ('ld_dw', ['unit', 'reversed', 'strided', 'same', 'random', 'pairs']),
        ('ld_dw2', ['unit', 'reversed', 'strided', 'same', 'random']),
        ('ld_dw3', ['unit', 'strided', 'random']),
        ('ld_dw4', ['unit', 'reversed', 'strided', 'same', 'random']),
        ('st_dw', ['unit', 'reversed', 'strided', 'same', 'random', 'pairs']),
        ('st_dw2', ['unit', 'strided', 'same', 'random', 'pairs']),
        ('st_dw3', ['unit', 'strided', 'random']),
        ('st_dw4', ['unit', 'reversed', 'strided', 'random'])]
# access width / line crossing: each in a kernel of its own, because the unchanged tree fails on them
RISKY = [('ld_ushort', ['unit', 'random', 'strided', 'misaligned', 'crossing', 'line_end']),
         ('ld_sbyte', ['unit', 'random', 'same', 'line_end']),
         ('ld_sshort', ['unit', 'random', 'misaligned', 'crossing']),
         ('st_byte', ['unit', 'random', 'same', 'line_end', 'pairs']),
         ('st_short', ['unit', 'random', 'misaligned', 'crossing']),
         ('ld_dw', ['misaligned', 'crossing']), ('ld_dw2', ['misaligned', 'crossing']), ('ld_dw4', ['crossing']),
         ('st_dw', ['misaligned', 'crossing']), ('st_dw2', ['crossing']), ('st_dw4', ['misaligned', 'crossing'])]


def make_test(rng, op, kind, nwf):
    offs = []
    for wf in range(nwf):
        offs += pattern(rng, kind, SIZE[op], wf)
    t = {'op': op, 'offs': offs, 'kind': kind}
    t.update(mask(rng))
    return t


def gen_safe(rng, i):
    nwf = rng.choice([1, 1, 2])
    tests = []
    for _ in range(rng.randrange(2, 6)):
        op, kinds = rng.choice(SAFE)
        tests.append(make_test(rng, op, rng.choice(kinds), nwf))
    sc = {'name': 'safe%d' % i, 'nwf': nwf, 'tests': tests, 'mem': env(rng), 'dseed': rng.randrange(1 << 30), 'sb': rng.random() < 0.2}
    sc['noemu'] = any(t['op'] not in EMU_OPS for t in tests)
    return sc


def gen_risky(rng, i, op=None, kind=None):
    if op is None:
        op, kinds = rng.choice(RISKY)
        kind = rng.choice(kinds)
    nwf = rng.choice([1, 1, 2])
    t = make_test(rng, op, kind, nwf)
    if rng.random() < 0.5:
        t.pop('lt', None)
        t['mask'] = FULL
    sc = {'name': 'risky%d_%s_%s' % (i, op, kind), 'nwf': nwf, 'tests': [t], 'mem': env(rng), 'dseed': rng.randrange(1 << 30)}
    sc['noemu'] = op not in EMU_OPS
    return sc


def gen_window(rng, i, nwf, limit, op):
    """Many wavefronts whose uncoalesced accesses (64 transactions each) meet the CU's limit of in-flight vector
    accesses under a slow memory: the instruction has to wait for room (or is admitted piecewise); the kernel then
    waits with s_waitcnt vmcnt(0) and stores the loaded registers."""
    t = make_test(rng, op, 'lines', nwf)
    t.pop('lt', None)
    t['mask'] = FULL
    sc = {'name': 'window%d_%s_%dwf_limit%d' % (i, op, nwf, limit or 512), 'nwf': nwf, 'tests': [t], 'dseed': rng.randrange(1 << 30),
          'mem': {'lat': list(rng.choice([(150, 400), (300, 600)])), 'seed': rng.randrange(1 << 30), 'perm': rng.random() < 0.5}}
    if limit:
        sc['limit'] = limit
    sc['noemu'] = op not in EMU_OPS
    return sc


# --------------------------------------------------------------------------- triage
def _exec_of(recs, upto):
    ex, done = {}, set()
    for r in recs[:upto]:
        if r['e'] == 'Exec':
            ex[r['id']] = r
        elif r['e'] == 'Done':
            done.add(r['id'])
    return ex, done


def _crosses(r, width):
    return any(e and (a % 64) + width > 64 for e, a in zip(r['exec'], r['a']))


def classify(inst):
    """Which of the known root causes an instruction (as issued) can run into: (class, cause, defect)."""
    opc = inst['opc']
    cls = CLS.get(opc, 'opc%d' % opc)
    isa_w = min(SIZE.get(cls, 4), 4)
    sub = cls in ('ld_ushort', 'ld_sbyte', 'ld_sshort', 'st_byte', 'st_short')
    # what the unchanged code moves per register: a dword for the signed sub-dword loads and the sub-dword stores
    impl_w = 4 if cls in ('ld_sbyte', 'ld_sshort', 'st_byte', 'st_short') else (1 if cls == 'ld_ushort' else isa_w)
    pieces_cross = any(e and any(((a + 4 * j) % 64) + isa_w > 64 for j in range(max(1, SIZE.get(cls, 4) // 4)))
                       for e, a in zip(inst['exec'], inst['a']))
    if pieces_cross:
        return cls, 'access_crosses_line', 'line_crossing'
    if sub:
        return cls, ('moves_dword_past_line_end' if _crosses(inst, impl_w) else 'width'), 'sub_dword_width'
    return cls, 'other', 'none'


RANK = {'access_crosses_line': 3, 'moves_dword_past_line_end': 2, 'width': 1, 'other': 0}


def signature(recs, at, why):
    ev = recs[min(at, len(recs)) - 1]
    ex, done = _exec_of(recs, at)
    sig = {'part': 'vmem', 'kind': 'trace_rejected', 'violated': ','.join(sorted(why)), 'event': ev.get('e'),
           'mode': recs[0].get('mode')}
    inst = ex.get(ev.get('id')) if 'id' in ev else None
    if ev.get('e') == 'Panic':
        sig['msg'] = ('slice bounds out of range' if 'slice bounds' in str(ev.get('msg')) else str(ev.get('msg'))[:60])
        # the panic belongs to one of the instructions in flight (several wavefronts): the one that can explain it
        pend = [r for i, r in sorted(ex.items()) if i not in done]
        pend.sort(key=lambda r: -RANK[classify(r)[1]])
        inst = pend[0] if pend else None
    if inst is not None:
        sig['cls'], sig['cause'], sig['defect'] = classify(inst)
    return sig


def tolerant(ctx, tfile, tag):
    v = ctx.validate_trace(DIRS, TMOD, TTOL, tfile, timeout=1200)
    out = v['res'].out
    i = max(out.find('<< "REJECTS"'), out.find('<<"REJECTS"'))
    if not v['accepted'] or i < 0:
        raise vlib.Infra('tolerant trace validation gave no verdict for %s (highwater %s of %s):\n%s' % (tag, v['highwater'], v['n'], out[-1500:]))
    return vlib.tlaval.parse_value(out[i:out.find('<<"HIGHWATER"', i)])[1]


def validate(ctx, tfile, scen, tag):
    """One tolerant TLC run lists every sub-trace the specification refuses; a refusal that matches an open known
    finding is recorded as such, any other one is confirmed in isolation with the strict configuration first."""
    parts = vlib.split_traces(tfile)
    rej = tolerant(ctx, tfile, tag)
    bad, new_here = set(), 0
    for rj in rej:
        idx = max(k for k, (start, _) in enumerate(parts) if start <= rj['l'])
        if idx in bad:
            continue
        bad.add(idx)
        start, recs = parts[idx]
        at = rj['l'] - start + 1
        sig = signature(recs, at, rj['why'])
        ev = recs[at - 1]
        what = 'C02/vmem: real-code trace (%s, scenario %r) not a behaviour of VMemTrace.tla: %s at event #%d %s; %s' % (
            sig.get('mode'), recs[0].get('name'), sig['violated'], at, json.dumps(ev)[:160], {k: sig[k] for k in ('cls', 'cause') if k in sig})
        case = recs[0].get('case')
        replay = {'driver': {'cmd': 'c02vmem', 'scenarios': [scen[case]] if case is not None and case < len(scen) else scen},
                  'trace_spec': [DIRS, TMOD, TCFG], 'failing_index': at, 'trace': recs if len(recs) < 400 else recs[:at + 2]}
        if ctx.known_match(sig) is None:
            if new_here >= 2:
                ctx.cov['vmem_further_unconfirmed_rejections'] = ctx.cov.get('vmem_further_unconfirmed_rejections', 0) + 1
                continue
            new_here += 1
            sub = os.path.join(ctx.scratch, 'vsub_%s_%d.ndjson' % (tag, idx))
            vlib.write_ndjson(sub, recs)
            v2 = ctx.validate_trace(DIRS, TMOD, TCFG, sub, timeout=900)
            if v2['accepted']:
                raise vlib.Infra('rejection at line %d of %s not reproduced on the isolated sub-trace' % (rj['l'], tag))
        ctx.report_failure(what, sig, replay)
    for k, (_, recs) in enumerate(parts):
        if k not in bad and any(r['e'] == 'Panic' or (r['e'] == 'Quiesce' and r.get('pending', 0) > 0) for r in recs):
            raise vlib.Infra('tolerant trace validation accepted a sub-trace with a panic/hang (%s, case %s)' % (tag, recs[0].get('case')))
    ctx.cov['traces_validated_against_impl'] += len(parts) - len(bad)
    return bad


def run_scenarios(ctx, drv, scen, tag):
    sfile = os.path.join(ctx.scratch, 'vscen_%s.json' % tag)
    json.dump(scen, open(sfile, 'w'))
    t = os.path.join(ctx.scratch, 'vtrace_%s.ndjson' % tag)
    p, stats = common.run_driver(ctx, drv, ['-scen', sfile, '-out', t], timeout=1200)
    if stats is None:
        raise vlib.Infra('c02vmem driver failed (%s): %s' % (tag, p.stdout[-2000:]))
    ctx.log('vmem %s: %d kernels: %s' % (tag, len(scen), stats))
    return t, stats


# --------------------------------------------------------------------------- binding self-test
def corruptions():
    def pick(recs, pred, rng):
        idx = [i for i, r in enumerate(recs) if pred(r)]
        return rng.choice(idx) if idx else None

    def drop_request(recs, rng):
        i = pick(recs, lambda r: r['e'] == 'Req' and r['k'] == 'r' and r['last'] == 0, rng)
        if i is None:
            return None
        rid = recs[i]['r']
        return [r for r in recs if not (r['e'] in ('Req', 'Rsp') and r['r'] == rid)]

    def extra_line(recs, rng):
        i = pick(recs, lambda r: r['e'] == 'Req', rng)
        if i is None:
            return None
        recs[i]['line'] += 64 * 40
        return recs

    def store_mask_bit(recs, rng):
        i = pick(recs, lambda r: r['e'] == 'Req' and r['k'] == 'w', rng)
        if i is None:
            return None
        recs[i]['mask'][rng.randrange(64)] ^= 1
        return recs

    def store_data_byte(recs, rng):
        i = pick(recs, lambda r: r['e'] == 'Req' and r['k'] == 'w' and any(r['mask']), rng)
        if i is None:
            return None
        o = rng.choice([k for k, m in enumerate(recs[i]['mask']) if m])
        recs[i]['data'][o] ^= 0x10
        return recs

    def writeback_active_lane(recs, rng):
        ex = {r['id']: r for r in recs if r['e'] == 'Exec'}
        i = pick(recs, lambda r: r['e'] == 'Done' and r['after'] and any(ex[r['id']]['exec']), rng)
        if i is None:
            return None
        lane = rng.choice([k for k, e in enumerate(ex[recs[i]['id']]['exec']) if e])
        recs[i]['after'][lane][rng.randrange(len(recs[i]['after'][lane]))] ^= 0x01
        return recs

    def writeback_inactive_lane(recs, rng):
        ex = {r['id']: r for r in recs if r['e'] == 'Exec'}
        i = pick(recs, lambda r: r['e'] == 'Done' and r['after'] and not all(ex[r['id']]['exec']), rng)
        if i is None:
            return None
        lane = rng.choice([k for k, e in enumerate(ex[recs[i]['id']]['exec']) if not e])
        recs[i]['after'][lane][0] ^= 0x80
        return recs

    def end_twice(recs, rng):
        i = pick(recs, lambda r: r['e'] == 'InstEnd', rng)
        if i is None:
            return None
        return recs[:i + 1] + [dict(recs[i])] + recs[i + 1:]

    def end_before_last_response(recs, rng):
        for i, r in enumerate(recs):
            if r['e'] == 'InstEnd':
                j = next((k for k in range(i - 1, -1, -1) if recs[k]['e'] == 'Rsp' and recs[k]['id'] == r['id']), None)
                if j is not None:
                    ev = recs.pop(i)
                    recs.insert(j, ev)
                    return recs
        return None

    def counter_left(recs, rng):
        i = pick(recs, lambda r: r['e'] == 'WfEnd', rng)
        if i is None:
            return None
        recs[i]['ov'] = 1
        return recs

    return [('missing_transaction', drop_request), ('transaction_for_untouched_line', extra_line),
            ('store_dirty_mask_bit', store_mask_bit), ('store_data_byte', store_data_byte),
            ('write_back_active_lane', writeback_active_lane), ('write_back_touches_inactive_lane', writeback_inactive_lane),
            ('instruction_ended_twice', end_twice), ('ended_before_last_response', end_before_last_response),
            ('outstanding_counter_not_zero', counter_left)]


def selftest(ctx, trace_path, bad_parts):
    parts = [recs for k, (_, recs) in enumerate(vlib.split_traces(trace_path)) if k not in bad_parts and recs[0].get('mode') == 'timing']
    rng = random.Random(ctx.seed)
    rng.shuffle(parts)
    batch, names = [], []
    for name, fn in corruptions():
        for recs in parts[:20]:
            b = fn(copy.deepcopy(recs), rng)
            if b is not None:
                names.append(name)
                batch.append(b)
                break
    if len(names) < 6:
        if ctx.violations:
            ctx.notes.append('vmem binding self-test skipped: only %d corruptions applicable to the traces of a failing tree' % len(names))
            return
        raise vlib.Infra('vmem binding self-test: only %d corruptions applicable' % len(names))
    p = os.path.join(ctx.scratch, 'vselftest.ndjson')
    vlib.write_ndjson(p, [r for recs in batch for r in recs])
    rej = tolerant(ctx, p, 'selftest')
    res, pos = [], 1
    for name, recs in zip(names, batch):
        mine = [rj for rj in rej if pos <= rj['l'] < pos + len(recs)]
        if not mine:
            raise vlib.Infra('vmem binding self-test: corruption %r was ACCEPTED by VMemTrace.tla (vacuous trace spec)' % name)
        res.append({'corruption': name, 'rejected_at': mine[0]['l'] - pos + 1, 'violated': sorted(mine[0]['why'])})
        pos += len(recs)
    ctx.cov['vmem_binding_selftest'] = res
    ctx.log('vmem binding self-test: %s' % ', '.join('%s->%s' % (r['corruption'], '+'.join(r['violated'])) for r in res))


# --------------------------------------------------------------------------- the component check
def nontrivial_insts(tfile):
    seen, nt = set(), set()
    nreq = {}
    for _, recs in vlib.split_traces(tfile):
        for r in recs:
            if r['e'] == 'Req':
                nreq[(recs[0].get('case'), r['id'])] = nreq.get((recs[0].get('case'), r['id']), 0) + 1
        for r in recs:
            if r['e'] == 'Exec':
                key = (r['opc'], tuple(r['exec']), tuple(r['a']))
                seen.add(key)
                w = min(SIZE[CLS[r['opc']]], 4)
                if nreq.get((recs[0].get('case'), r['id']), 0) > 1 or not all(r['exec']) or any(a % w for a in r['a']):
                    nt.add(key)
    return len(seen), len(nt)


def run_component(ctx):
    thorough = ctx.tier == 'thorough'
    drv = ctx.go_build('c02vmem')
    rng = random.Random(ctx.seed * 7919 + 17)
    W = 8 if not thorough else vlib.NCPU

    # 1. the model
    r = ctx.tlc_expect_ok(DIRS, 'MC_VMem.tla', 'MC_VMem.cfg', coverage=True, timeout=900, workers=W)
    ctx.log('MC_VMem (2 lanes, 8-byte lines, 10 opcodes, every EXEC, 7 addresses per lane, in-flight window 2, responses in any order): %d distinct states' % r.distinct)
    ctx.cov['vmem_coverage_zero_actions'] = r.coverage_zero()
    r = ctx.tlc_expect_ok(DIRS, 'MC_VMem.tla', 'MC_VMem_live.cfg', timeout=900, workers=W)
    ctx.log('MC_VMem_live (the instruction finishes under fairness): %d distinct states' % r.distinct)
    if thorough:
        r = ctx.tlc_expect_ok(DIRS, 'MC_VMem.tla', 'MC_VMem_3lanes.cfg', timeout=3000, workers=W)
        ctx.log('MC_VMem_3lanes: %d distinct states' % r.distinct)
    devs = {}
    for cfg, expect in (('MC_VMem_width.cfg', 'access widths as implemented'), ('MC_VMem_nosplit.cfg', 'no split at line boundaries'),
                        ('MC_VMem_lastperbatch.cfg', 'finished-flag on the last transaction of every admitted batch'),
                        ('MC_VMem_ooo.cfg', 'last response overtaken (not a deviation of the CU: the reorder buffer excludes it)')):
        r = ctx.tlc(DIRS, 'MC_VMem.tla', cfg, timeout=600, workers=2)
        if not r.violated and not r.completed:
            raise vlib.Infra('%s failed unexpectedly: %s' % (cfg, r.error))
        devs[cfg] = r.violated
        ctx.log('%s (%s): violated %s' % (cfg, expect, r.violated or 'nothing'))
    ctx.cov['vmem_deviation_models'] = devs

    # 2. real CU: kernels that the unchanged tree is expected to get right ...
    nsafe, nrisky = (90, 110) if thorough else (10, 20)
    safe = [gen_safe(rng, i) for i in range(nsafe)]
    t1, st1 = run_scenarios(ctx, drv, safe, 'safe')
    bad1 = validate(ctx, t1, safe, 'safe')
    # ... and access widths / line crossings, one tested instruction per kernel
    risky = [gen_risky(rng, i, op, kind) for i, (op, kind) in enumerate((o, k) for o, ks in RISKY for k in ks)]
    risky += [gen_risky(rng, 100 + i) for i in range(max(0, nrisky - len(risky)))]
    if not thorough:
        rng.shuffle(risky)
        risky = risky[:nrisky]
    t2, st2 = run_scenarios(ctx, drv, risky, 'risky')
    validate(ctx, t2, risky, 'risky')
    # ... and the limit of in-flight accesses: a small limit (public field of the CU) with a few wavefronts, and the
    # builder's 512 with enough wavefronts that 64-transaction instructions do not all fit
    window = [gen_window(rng, 0, 3, 72, 'ld_dw'), gen_window(rng, 1, 4, 100, rng.choice(['st_dw', 'ld_dw2'])),
              gen_window(rng, 2, 10, 0, 'ld_dw')]
    if thorough:
        window += [gen_window(rng, 3, 16, 0, 'ld_dw4'), gen_window(rng, 4, 12, 0, 'st_dw'), gen_window(rng, 5, 6, 130, 'ld_ubyte'),
                   gen_window(rng, 6, 16, 0, 'ld_dw')]
    t3, st3 = run_scenarios(ctx, drv, window, 'window')
    validate(ctx, t3, window, 'window')
    for k in st1:
        st2[k] = st2.get(k, 0) + st3.get(k, 0)

    n1, nt1 = nontrivial_insts(t1)
    n2, nt2 = nontrivial_insts(t2)
    part = {'kernels': len(safe) + len(risky) + len(window), 'flat_instructions_judged': st1['flat'] + st2['flat'],
            'tested_instructions': st1['tested'] + st2['tested'], 'transactions': st1['reqs'] + st2['reqs'],
            'panics': st1['panics'] + st2['panics'], 'value_mismatches': st1['val_mismatch'] + st2['val_mismatch'],
            'distinct_instructions': n1 + n2, 'nontrivial_instructions': nt1 + nt2}
    ctx.cov['vmem_part'] = part
    ctx.cov['evaluations'] = ctx.cov.get('evaluations', 0) + part['flat_instructions_judged']
    ctx.cov['distinct_nontrivial'] = ctx.cov.get('distinct_nontrivial', 0) + part['nontrivial_instructions']
    ctx.sample({'vmem_test': {k: (v[:8] if k == 'offs' else v) for k, v in risky[0]['tests'][0].items()}})

    # 3. binding self-test
    selftest(ctx, t1, bad1)
    ctx.assumptions += ['vmem: the harness memory answers in any order but keeps the response to an instruction\'s last request behind '
                        'the instruction\'s other responses (the reorder buffer between CU and L1 guarantees more: request order)',
                        'vmem: register contents are read from the CU\'s public register files when the tracing task of the instruction '
                        'starts and once every response has been handled']


def replay_component(ctx, path):
    rp = json.load(open(path))['replay']
    drv = ctx.go_build('c02vmem')
    scen = rp['driver']['scenarios']
    t, _ = run_scenarios(ctx, drv, scen, 'replay')
    before = len(ctx.violations)
    validate(ctx, t, scen, 'replay')
    return 1 if len(ctx.violations) > before else 0


# --------------------------------------------------------------------------- stand-alone (bin/check C02VMEM)
def run(ctx, selftest=False):
    ctx._known = vlib.load_known().get('C02', [])
    run_component(ctx)


def replay(ctx, path):
    ctx._known = vlib.load_known().get('C02', [])
    return replay_component(ctx, path)
