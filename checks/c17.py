"""C17 — the DRAM model behaves as a memory: per-address order and one response each.

spec/dram/FlatMem.tla         the property: a flat byte array, effects in arrival order, one response each
spec/dram/BankedMem.tla       simplebankedmemory shaped like the code (Drain/Dispatch/Expire/Exit/Commit/SendRsp),
                              refines FlatMem; named deviations RowHitBypassesDelayQueue, PassesBlockedHit, LaneOvertake
spec/dram/MC_BankedMem*.cfg   exhaustive checking of the intended design (invariants, refinement, progress)
spec/dram/BankedMemScen*.cfg  behaviours / deviation counterexamples -> scenarios for the real component
spec/dram/FlatMemTrace.tla    every Top-port trace of the real component must be a behaviour of FlatMem   (verdict)
spec/dram/BankedMemTrace.tla  binds BankedMem to the code and names the deviation behind a rejected trace (signature)
harness/cmd/c17               cycle-scripted driver of the real simplebankedmemory.Comp (akitabench)
"""
import copy
import json
import math
import os
import random
import re

import common
import vlib

LEVEL = 'model_checking'
RULE = ('cases = environment scenarios (requests with arrival cycles, response-take schedule, configuration) executed on '
        'the real simplebankedmemory.Comp; distinct = distinct (configuration, request list, schedule); non-trivial = at '
        'least two requests with overlapping bytes of which one is a write are in flight together (the second arrives '
        'before the first is answered)')
FLAT = {'dirs': ['dram'], 'module': 'FlatMemTrace.tla', 'cfg': 'FlatMemTrace.cfg'}
FLAT_ALL = 'FlatMemTraceAll.cfg'
BANKED = {'dirs': ['dram'], 'module': 'BankedMemTrace.tla', 'cfg': 'BankedMemTrace.cfg'}
DEVS = ['RowHitBypassesDelayQueue', 'PassesBlockedHit', 'LaneOvertake']
INVS = 'TypeOK OneRspEach ReadSeesLatestEarlierWrite SameAddrInArrivalOrder MaskedWriteTouchesOnlyEnabled AllAnswered'

MI300A = {'banks': 16, 'ilog': 6, 'width': 1, 'depth': 5, 'lat': 1, 'rowlog': 11, 'miss': 52, 'topbuf': 1024,
          'postbuf': 128, 'bconv': {'isz': 128, 'total': 16, 'idx': 3}}


# ------------------------------------------------------------------ scenarios
def witnesses():
    """Hand-made scenarios for the three deviations (each confirmed against the real code)."""
    return [
        {'name': 'witness_row_hit_bypass',
         'cfg': {'banks': 2, 'ilog': 6, 'width': 1, 'depth': 2, 'lat': 1, 'rowlog': 10, 'miss': 5, 'topbuf': 4, 'postbuf': 1},
         'reqs': [{'at': 1, 'k': 'w', 'a': 64, 'n': 4, 'd': [1, 2, 3, 4], 'm': [1, 1, 1, 1]},
                  {'at': 2, 'k': 'r', 'a': 64, 'n': 4}]},
        {'name': 'witness_row_hit_bypass_mi300a', 'cfg': dict(MI300A),
         'reqs': [{'at': 1, 'k': 'w', 'a': 3 * 128, 'n': 64, 'd': list(range(1, 65)), 'm': [1] * 64},
                  {'at': 3, 'k': 'r', 'a': 3 * 128, 'n': 64}]},
        {'name': 'witness_passes_blocked_hit',
         'cfg': {'banks': 1, 'ilog': 6, 'width': 1, 'depth': 1, 'lat': 10, 'rowlog': 6, 'miss': 2, 'topbuf': 4, 'postbuf': 1},
         'reqs': [{'at': 1, 'k': 'r', 'a': 0, 'n': 1}, {'at': 5, 'k': 'w', 'a': 0, 'n': 1, 'd': [7], 'm': [1]},
                  {'at': 6, 'k': 'r', 'a': 64, 'n': 1}, {'at': 6, 'k': 'r', 'a': 0, 'n': 1}]},
        {'name': 'witness_lane_overtake',
         'cfg': {'banks': 1, 'ilog': 6, 'width': 2, 'depth': 1, 'lat': 1, 'rowlog': 0, 'miss': 0, 'topbuf': 4, 'postbuf': 1},
         'reqs': [{'at': 1, 'k': 'w', 'a': 0, 'n': 1, 'd': [9], 'm': [1]}, {'at': 1, 'k': 'w', 'a': 64, 'n': 1, 'd': [1], 'm': [1]},
                  {'at': 2, 'k': 'r', 'a': 64, 'n': 1}]},
    ]


# real configurations the model geometry (2 banks, 2-byte interleave, 2-byte rows) is scaled to: k real bytes per
# model byte, interleave = row = 2k bytes
REPLAY_CFGS = {
    't1': [(1, {'depth': 2, 'lat': 1, 'miss': 5, 'topbuf': 3, 'postbuf': 1}),
           (4, {'depth': 1, 'lat': 3, 'miss': 2, 'topbuf': 3, 'postbuf': 1}),
           (32, {'depth': 5, 'lat': 1, 'miss': 52, 'topbuf': 3, 'postbuf': 2}),
           (8, {'depth': 1, 'lat': 10, 'miss': 1, 'topbuf': 2, 'postbuf': 1})],
    'w2': [(1, {'depth': 1, 'lat': 1, 'miss': 0, 'topbuf': 3, 'postbuf': 1}),
           (16, {'depth': 2, 'lat': 2, 'miss': 0, 'topbuf': 3, 'postbuf': 1}),
           (32, {'depth': 3, 'lat': 1, 'miss': 0, 'topbuf': 2, 'postbuf': 2})],
}


def real_cfg(kind, which):
    k, c = REPLAY_CFGS[kind][which % len(REPLAY_CFGS[kind])]
    ilog = int(math.log2(2 * k))
    cfg = dict(c, banks=2, ilog=ilog, width=2 if kind == 'w2' else 1, rowlog=ilog if kind == 't1' else 0)
    return k, cfg


def scale_payload(p, k, at):
    r = {'at': at, 'k': p['k'], 'a': p['a'] * k, 'n': p['n'] * k}
    if p['k'] == 'w':
        r['d'] = [((v * 16 + j) & 0xff) for v in p['d'] for j in range(k)]
        r['m'] = [v for v in p['m'] for _ in range(k)]
    return r


def scen_from_steps(steps, kind, which, name):
    """Environment half of a BankedMemScen behaviour: every component step lets one cycle pass."""
    k, cfg = real_cfg(kind, which)
    cur, reqs, take_at = 1, [], []
    for s in steps:
        if s['a'] == 'EnvReq':
            reqs.append(scale_payload(s['p'], k, cur))
        elif s['a'] == 'EnvTake':
            take_at.append(cur)
        else:
            cur += 1
    return {'name': name, 'cfg': cfg, 'reqs': reqs, 'take_at': take_at, 'take_all_from': cur + 1}


def gen_random(rng, cls, nreq):
    """Seeded conflict-heavy scenario of one configuration class.  Addresses are chosen in the address space the bank
    selector sees (a few hot blocks of one bank in different rows, some elsewhere) and mapped back through the
    configured mem.InterleavingConverter, if any."""
    if cls == 'mi300a':
        cfg = dict(MI300A, bconv=dict(MI300A['bconv'], idx=rng.randrange(16)))
    else:
        ilog = rng.choice([2, 3, 4, 5, 6, 6, 6, 7, 8, 12])
        cfg = {'banks': rng.choice([1, 2, 2, 3, 4, 4, 5, 7, 8, 16, 31, 32]), 'ilog': ilog,
               'width': 1, 'depth': rng.choice([1, 1, 2, 3, 5]), 'lat': rng.choice([1, 1, 1, 2, 3, 4, 10]),
               'topbuf': rng.choice([1, 2, 3, 4, 8, 16]), 'postbuf': rng.choice([1, 1, 2, 3, 4])}
        if cls in ('track', 'wide_track'):
            cfg['rowlog'] = max(1, ilog + rng.choice([-2, -1, 0, 0, 1, 2, 5]))
            cfg['miss'] = rng.choice([1, 2, 3, 5, 8, 13, 52])
        elif rng.random() < 0.5:
            cfg['rowlog'], cfg['miss'] = 0, rng.choice([0, 5])          # tracking disabled either way
        else:
            cfg['rowlog'], cfg['miss'] = rng.choice([1, 6, 11]), 0
        if cls in ('wide', 'wide_track'):
            cfg['width'] = rng.choice([2, 2, 3, 4])
        if rng.random() < 0.2:      # an address converter in front (bank selection only, or storage + bank selection)
            total = rng.choice([2, 4, 16])
            cfg[rng.choice(['bconv', 'aconv'])] = {'isz': (1 << ilog) * rng.choice([1, 2, 8]), 'total': total,
                                                  'idx': rng.randrange(total)}
    ilog, banks = cfg['ilog'], cfg['banks']
    block = 1 << ilog
    conv = cfg.get('bconv') or cfg.get('aconv')

    def ext(x):     # inverse of InterleavingConverter.ConvertExternalToInternal for this element
        if not conv:
            return x
        return (x // conv['isz']) * conv['isz'] * conv['total'] + conv['idx'] * conv['isz'] + x % conv['isz']

    b0 = rng.randrange(banks)
    base = rng.randrange(0, 64)
    rowblocks = max(1, (1 << cfg['rowlog']) >> ilog) if cfg.get('rowlog') else 1
    js = rng.sample(range(0, 40), rng.choice([2, 3, 4]))
    if rowblocks > 1:       # make sure two rows of the hot bank are in play
        js = js[:1] + [js[0] + 1, js[0] + rowblocks, js[0] + rowblocks + 1][:len(js)]
    starts = [((base + j) * banks + b0) * block for j in js]
    starts += [((base + rng.randrange(0, 3)) * banks + rng.randrange(banks)) * block for _ in range(rng.choice([0, 1, 3]))]
    offs = sorted({0, rng.randrange(block), rng.randrange(block), (block // 2)})
    reqs, at = [], 1
    for _ in range(nreq):
        at += rng.choice([0, 0, 0, 0, 1, 1, 1, 2, 3, cfg['miss'], cfg['lat'] * cfg['depth'], 20])
        s = rng.choice(starts[:3]) if rng.random() < 0.7 else rng.choice(starts)
        o = rng.choice(offs) if rng.random() < 0.8 else rng.randrange(block)
        n = min(rng.choice([1, 1, 2, 3, 4, 4, 8, 16, 32, 64, 64]), block - o, 64)
        q = {'at': at, 'k': 'r' if rng.random() < 0.5 else 'w', 'a': ext(s + o), 'n': n, 'src': rng.randrange(2)}
        if q['k'] == 'w':
            q['d'] = [rng.randrange(1, 256) for _ in range(n)]
            mode = rng.randrange(6)
            if mode == 0:
                q['nomask'], q['m'] = True, [1] * n
            elif mode == 1:
                q['m'] = [1] * n
            elif mode == 2:
                q['m'] = [0] * n
            else:
                q['m'] = [rng.randrange(2) for _ in range(n)]
        reqs.append(q)
    stalls = []
    for _ in range(rng.choice([0, 0, 1, 2, 4])):
        a = rng.randrange(1, at + 30)
        stalls.append([a, a + rng.choice([1, 2, 5, 20, 80])])
    return {'name': 'rand_' + cls, 'cfg': cfg, 'reqs': reqs, 'stalls': stalls}


def cfg_class(cfg):
    track = cfg.get('rowlog', 0) > 0 and cfg.get('miss', 0) > 0
    wide = cfg.get('width', 1) > 1
    return ('wide_track' if track and wide else 'track' if track else 'wide' if wide else 'plain')


# ------------------------------------------------------------- driver and TLC
def drive(ctx, drv, scen, tag):
    sfile = os.path.join(ctx.scratch, 'scen_%s.json' % tag)
    tfile = os.path.join(ctx.scratch, 'trace_%s.ndjson' % tag)
    json.dump(scen, open(sfile, 'w'))
    p, stats = common.run_driver(ctx, drv, ['-scen', sfile, '-out', tfile])
    if stats is None:
        raise vlib.Infra('c17 driver failed: ' + p.stdout[-2000:])
    return tfile, stats


def flat_all(ctx, tfile):
    """One TLC run over a concatenated trace: {run index: (line in run, clause)} of the rejected runs."""
    v = ctx.validate_trace(FLAT['dirs'], FLAT['module'], FLAT_ALL, tfile, timeout=1500)
    if not v['accepted']:
        raise vlib.Infra('non-stop trace validation did not reach the end of the trace (%s):\n%s' % (
            v['violated'], v['res'].out[-2500:]))
    starts = [s for s, _ in vlib.split_traces(tfile)]
    bad = {}
    for m in re.finditer(r'<<"TRACEFAIL", (\d+), "([^"]*)">>', v['res'].out):
        line, why = int(m.group(1)), m.group(2)
        idx = max(i for i, s in enumerate(starts) if s <= line)
        bad.setdefault(idx, (line - starts[idx] + 1, why))
    return bad


def minimise(ctx, drv, sc):
    """Delta-debug the request list with the driver's own (diagnostic) flat oracle; TLC confirms afterwards."""
    cur = copy.deepcopy(sc)
    rounds = 0

    def fails(cands):
        _, st = drive(ctx, drv, cands, 'min')
        return [str(i) in st['suspect'] for i in range(len(cands))]

    if not fails([cur])[0]:
        return sc
    chunk = max(1, len(cur['reqs']) // 2)
    while chunk >= 1 and rounds < 200:
        rounds += 1
        n = len(cur['reqs'])
        cands = []
        for s in range(0, n, chunk):
            c = copy.deepcopy(cur)
            del c['reqs'][s:s + chunk]
            if c['reqs']:
                cands.append(c)
        res = fails(cands) if cands else []
        hit = [c for c, f in zip(cands, res) if f]
        if hit:
            cur = hit[0]
            chunk = min(chunk, max(1, len(cur['reqs']) // 2))
        elif chunk == 1:
            break
        else:
            chunk //= 2
    # drop the take schedule / stalls if the failure does not need them
    for key in ('stalls', 'take_at'):
        if cur.get(key):
            c = copy.deepcopy(cur)
            c.pop(key)
            if key == 'take_at':
                c.pop('take_all_from', None)
            if fails([c])[0]:
                cur = c
    cur['name'] = (sc.get('name') or 'scenario') + '_min'
    return cur


B, P, L = DEVS
# deviation sets tried when a rejected run is attributed.  BankedMemTrace over-approximates LaneOvertake (any item
# may overtake any older one of its bank), which subsumes the row-order deviations: no sets mixing L with B or P.
HYPS = [[], [B], [P], [L], [B, P]]


def hyps_for(cfg):
    """Deviation sets worth trying for a configuration: row-order deviations need row tracking, LaneOvertake needs a
    pipeline wider than one lane (their guards are false otherwise)."""
    use = applicable(cfg)
    return [h for h in HYPS if all(d in use for d in h)]


def applicable(cfg):
    """The deviations of the pinned code that can act in a configuration."""
    return [d for d in DEVS if (d == L and cfg.get('width', 1) > 1) or (d != L and cfg.get('track'))]


def banked_explains(ctx, runs, hyps_of, tag, workers=6, timeout=1500):
    """One TLC run of BankedMemTrace over many recorded runs: for run i the list of those deviation sets of
    hyps_of(reset record) under which BankedMem has a behaviour that explains the whole run."""
    recs, starts, hyps = [], [], []
    for r in runs:
        r = copy.deepcopy(r)
        hyps.append(hyps_of(r[0]))
        r[0]['devs'] = hyps[-1]
        # join of the log with itself: each request learns the rank of its response (prunes the search, see the spec)
        rank = {}
        for x in r:
            if x['e'] == 'Rsp':
                rank.setdefault(x['id'], len(rank) + 1)
        for x in r:
            if x['e'] == 'EnvReq':
                x['rl'] = rank.get(x['id'], len(r) + 1)
        starts.append(len(recs) + 1)
        recs += r
    p = os.path.join(ctx.scratch, 'banked_%s.ndjson' % tag)
    vlib.write_ndjson(p, recs)
    res = ctx.tlc(BANKED['dirs'], BANKED['module'], BANKED['cfg'], workers=workers, timeout=timeout,
                  extra_files={'trace.ndjson': p}, kind='trace')
    if not res.completed or res.violated:
        raise vlib.Infra('BankedMemTrace run failed:\n' + res.out[-2500:])
    ctx.cov['trace_states'] = ctx.cov.get('trace_states', 0) + res.distinct
    ok = {i: [] for i in range(len(runs))}
    for m in re.finditer(r'<<"RUNOK", (\d+), (\d+)>>', res.out):
        i = starts.index(int(m.group(1)))
        h = hyps[i][int(m.group(2)) - 1]
        if h not in ok[i]:
            ok[i].append(h)
    return ok


def name_deviation(accepted, cfg):
    """Which deviation(s) the failing run needs: the first single deviation that explains it alone (a pipeline wider
    than one lane is blamed first where it can be the cause: only there LaneOvertake is enabled at all), else the
    smallest set that does; 'none' if BankedMem cannot explain the run at all."""
    if [] in accepted:
        return 'model_accepts_without_deviation'
    order = [[L], [B], [P]] if cfg.get('width', 1) > 1 else [[B], [P], [L]]
    for h in order + [[B, P]]:
        if h in accepted:
            return '+'.join(h)
    return 'none'


def handle_failures(ctx, drv, scen, tfile, bad, cap):
    """Every run FlatMemTrace rejected: minimise, confirm with TLC, name the deviation, report."""
    parts = vlib.split_traces(tfile)
    order = sorted(bad, key=lambda i: (cfg_class(scen[i]['cfg']) != 'plain', len(scen[i]['reqs'])))
    # one representative per (class, clause) first, then the rest, up to the cap
    seen, first, rest = set(), [], []
    for i in order:
        key = (cfg_class(scen[i]['cfg']), bad[i][1])
        (rest if key in seen else first).append(i)
        seen.add(key)
    todo = (first + rest)[:cap]
    ctx.cov['rejected_runs'] = ctx.cov.get('rejected_runs', 0) + len(bad)
    ctx.cov['rejected_runs_unclassified'] = ctx.cov.get('rejected_runs_unclassified', 0) + len(bad) - len(todo)
    if not todo:
        return
    mins = [minimise(ctx, drv, scen[i]) for i in todo]
    ctx.log('minimised %d rejected runs' % len(mins))
    mt, _ = drive(ctx, drv, mins, 'mins')
    mbad = flat_all(ctx, mt)
    mparts = vlib.split_traces(mt)

    chosen = []
    for j, i in enumerate(todo):
        if j in mbad:
            chosen.append((mins[j], mparts[j][1], mbad[j]))
        else:   # the diagnostic oracle and TLC disagree on the minimised run: keep the original
            chosen.append((scen[i], parts[i][1], bad[i]))
    ctx.log('minimised runs confirmed by FlatMemTrace: %d of %d' % (len(mbad), len(mins)))
    acc = banked_explains(ctx, [c[1] for c in chosen], hyps_for, 'classify')
    ctx.log('classified')
    results = [(sc, recs, lw[0], lw[1], name_deviation(acc[j], recs[0])) for j, (sc, recs, lw) in enumerate(chosen)]
    for sc, recs, line, why, dev in results:
        if dev == 'model_accepts_without_deviation':
            # FlatMem (the property) decides; an attribution that fails must not hide the rejection
            ctx.notes.append('BankedMem without deviations accepts a run FlatMem rejects (%s): attribution unavailable' % why)
            dev = 'unattributed'
        ev = recs[line - 1]
        sig = {'kind': 'trace_rejected', 'violated': why, 'event': ev.get('e'), 'deviation': dev}
        reqs = ['%s@%d a=%d n=%d' % (q['k'], q['at'], q['a'], q['n']) for q in sc['reqs']]
        what = ('C17: real simplebankedmemory trace is not a behaviour of FlatMem: %s at event #%d %s; deviation=%s; '
                'cfg=%s reqs=%s' % (why, line, json.dumps({k: v for k, v in ev.items() if k not in ('seq',)})[:160],
                                    dev, json.dumps(sc['cfg'], sort_keys=True), reqs[:8]))
        if ctx.known_match(sig) is None:
            nviol = len(ctx.violations)
            if nviol >= 5:      # enough replay files; the rest is counted
                ctx.cov['violations_not_listed'] = ctx.cov.get('violations_not_listed', 0) + 1
                continue
        ctx.report_failure(what, sig, {'driver': {'cmd': 'c17', 'scenario': sc},
                                       'trace_spec': [FLAT['dirs'], FLAT['module'], FLAT['cfg']],
                                       'failing_index': line, 'trace': recs})
        ctx.sample({'rejected_run': {'cfg': sc['cfg'], 'reqs': reqs[:6], 'clause': why, 'deviation': dev}})


def nontrivial(recs):
    """A conflicting pair (overlap, one write) in flight together."""
    live = {}
    for r in recs:
        if r['e'] == 'EnvReq':
            lo, hi = r['a'], r['a'] + r['n']
            for o in live.values():
                if lo < o[1] and o[0] < hi and (r['k'] == 'w' or o[2] == 'w'):
                    return True
            live[r['id']] = (lo, hi, r['k'])
        elif r['e'] == 'Rsp':
            live.pop(r['id'], None)
    return False


def corruptions():
    def rsps(recs, k=None):
        return [i for i, r in enumerate(recs) if r['e'] == 'Rsp' and (k is None or r['k'] == k)]

    def corrupt_read_byte(recs, rng):
        idx = rsps(recs, 'r')
        if not idx:
            return None
        r = recs[rng.choice(idx)]
        r['d'][rng.randrange(len(r['d']))] ^= 0x10
        return recs

    def swap_read_data(recs, rng):
        idx = rsps(recs, 'r')
        for a in idx:
            for b in idx:
                if a < b and recs[a]['d'] != recs[b]['d']:
                    recs[a]['d'], recs[b]['d'] = recs[b]['d'], recs[a]['d']
                    return recs
        return None

    def drop_response(recs, rng):
        idx = rsps(recs)
        if not idx:
            return None
        i = rng.choice(idx)
        rid = recs[i]['id']
        return [r for j, r in enumerate(recs) if j != i and not (r['e'] == 'EnvTake' and r['id'] == rid)]

    def duplicate_response(recs, rng):
        idx = rsps(recs)
        if not idx:
            return None
        i = rng.choice(idx)
        return recs[:i + 1] + [dict(recs[i])] + recs[i + 1:]

    def stray_store_byte(recs, rng):
        for r in recs:
            if r['e'] == 'Quiesce' and r['store']:
                blk = rng.choice(r['store'])
                blk[1][rng.randrange(len(blk[1]))] ^= 0x01
                return recs
        return None

    def wrong_requester(recs, rng):
        idx = rsps(recs)
        if not idx:
            return None
        recs[rng.choice(idx)]['dst'] = 'Agent9.Port'
        return recs

    def write_answered_as_read(recs, rng):
        idx = rsps(recs, 'w')
        if not idx:
            return None
        recs[rng.choice(idx)]['k'] = 'r'
        return recs

    return [('corrupt_read_byte', corrupt_read_byte), ('swap_read_data', swap_read_data),
            ('drop_response', drop_response), ('duplicate_response', duplicate_response),
            ('stray_byte_in_final_storage', stray_store_byte), ('response_to_wrong_requester', wrong_requester),
            ('write_answered_as_read', write_answered_as_read)]


# ---------------------------------------------------------------------- run
def model_check(ctx, thorough):
    r = ctx.tlc_expect_ok(['dram'], 'MC_BankedMem.tla', 'MC_BankedMem_cov.cfg', coverage=True, timeout=900)
    ctx.log('MC_BankedMem_cov (design, row tracking, 2 lanes, 3 of 4 payloads, coverage): %d distinct states' % r.distinct)
    ctx.cov['coverage_zero_actions'] = [z for z in r.coverage_zero() if not z.startswith('FlatMem')]
    r = ctx.tlc_expect_ok(['dram'], 'MC_BankedMem.tla', 'MC_BankedMem.cfg', timeout=900)
    ctx.log('MC_BankedMem (design, row tracking, 3 of 7 payloads): %d distinct states, depth %d' % (r.distinct, r.depth))
    r = ctx.tlc_expect_ok(['dram'], 'MC_BankedMem.tla', 'MC_BankedMem_live.cfg', timeout=900)
    ctx.log('MC_BankedMem_live (Progress under fairness): %d distinct states' % r.distinct)
    if thorough:
        for cfg in ('MC_BankedMem_n2.cfg', 'MC_BankedMem_4.cfg', 'MC_BankedMem_big.cfg', 'MC_BankedMem_4all.cfg'):
            r = ctx.tlc_expect_ok(['dram'], 'MC_BankedMem.tla', cfg, workers=min(vlib.NCPU, 12), timeout=3000)
            ctx.log('%s: %d distinct states, depth %d' % (cfg, r.distinct, r.depth))
        ctx.cov['exhaustive'] = True


def deviation_counterexamples(ctx, thorough):
    """With a deviation switched on TLC must find the counterexample; it becomes a scenario for the real code."""
    scen = []
    found = {}
    todo = [('cx_bypass', 't1'), ('cx_lane', 'w2')] + ([('cx_pass', 't1')] if thorough else [])
    for name, kind in todo:
        r = ctx.tlc(['dram'], 'BankedMemScen.tla', 'BankedMemScen_%s.cfg' % name, timeout=1200, kind='mc_deviation',
                    workers=1)   # one worker: the counterexample (hence the scenario) is the same every time
        if not r.violated:
            raise vlib.Infra('deviation model %s no longer produces its counterexample:\n%s' % (name, r.out[-1500:]))
        ce = r.counterexample()
        steps = [st.get('act') for _, st in ce if isinstance(st.get('act'), dict) and st['act'].get('a') != 'Init']
        found[name] = {'violated': r.violated, 'length': len(ce)}
        for w in range(len(REPLAY_CFGS[kind])):
            scen.append(scen_from_steps(steps, kind, w, 'tlc_counterexample_%s_%d' % (name, w)))
    ctx.cov['deviation_counterexamples'] = found
    return scen


def run(ctx, selftest=False):
    thorough = ctx.tier == 'thorough'
    rng = random.Random(ctx.seed)
    drv = ctx.go_build('c17')

    # 1. design level
    model_check(ctx, thorough)
    scen = witnesses() + deviation_counterexamples(ctx, thorough)

    # 2. spec -> code: behaviours of the as-implemented model as scenarios
    nsim = 300 if thorough else 40
    nbeh = 0
    for kind in ('t1', 'w2'):
        behs, _ = ctx.simulate(['dram'], 'BankedMemScen.tla', 'BankedMemScen_%s.cfg' % kind, num=nsim, depth=70)
        for i, b in enumerate(behs):
            steps = common.acts_to_steps(b)
            if any(s['a'] == 'EnvReq' for s in steps):
                scen.append(scen_from_steps(steps, kind, i, 'tlc_behaviour_%s_%d' % (kind, i)))
                nbeh += 1
    nreplay = len(scen)
    ctx.sample({'scenario_from_TLC_behaviour': {k: scen[-1][k] for k in ('cfg', 'take_at')},
                'requests': scen[-1]['reqs'][:4]})

    # 3. code -> spec: seeded conflict-heavy environments far beyond the model's bounds
    plan = ([('plain', 140), ('track', 60), ('wide', 30), ('wide_track', 10), ('mi300a', 12)] if not thorough else
            [('plain', 3000), ('track', 1000), ('wide', 600), ('wide_track', 200), ('mi300a', 240)])
    for cls, n in plan:
        for _ in range(n):
            scen.append(gen_random(rng, cls, rng.choice([6, 12, 25, 40]) if not thorough else rng.choice([6, 12, 25, 40, 80])))
    tfile, stats = drive(ctx, drv, scen, 'all')
    ctx.log('executed %d scenarios on the real component (%d witnesses/counterexamples/behaviours, %d random): %d events, '
            '%d flagged by the driver\'s diagnostic oracle' % (len(scen), nreplay, len(scen) - nreplay, stats['events'],
                                                              len(stats['suspect'])))
    bad = flat_all(ctx, tfile)
    ctx.log('FlatMemTrace: %d of %d runs rejected' % (len(bad), len(scen)))
    ctx.cov['counterexamples_reproduced_on_real_code'] = sorted(
        scen[i]['name'] for i in bad if scen[i].get('name', '').startswith(('tlc_counterexample', 'witness')))
    ctx.cov['tlc_behaviours_rejected_on_real_code'] = sum(
        1 for i in bad if scen[i].get('name', '').startswith('tlc_behaviour'))
    diag = {int(k) for k in stats['suspect']}
    if diag != set(bad):
        ctx.notes.append('diagnostic oracle and TLC disagree on runs %s' % sorted(diag ^ set(bad))[:10])
    handle_failures(ctx, drv, scen, tfile, bad, cap=4000 if thorough else 150)

    parts = vlib.split_traces(tfile)
    good = [i for i in range(len(parts)) if i not in bad]
    ctx.cov['traces_validated_against_impl'] += len(good)
    distinct = {json.dumps({k: v for k, v in s.items() if k != 'name'}, sort_keys=True) for s in scen}
    nt = sum(1 for _, recs in parts if nontrivial(recs))
    ctx.cov.update({'evaluations': len(parts), 'distinct_nontrivial': min(nt, len(distinct)),
                    'events_validated': stats['events'], 'tlc_behaviours_replayed': nbeh,
                    'runs_by_class': {c: sum(1 for s in scen if cfg_class(s['cfg']) == c)
                                      for c in ('plain', 'track', 'wide', 'wide_track')}})
    ctx.sample({'trace_excerpt': [{k: v for k, v in r.items() if k != 'cfg'} for r in parts[0][1][:8]]})

    # 4. the implementation-shaped model explains the real component: property-conforming replayed runs must be
    #    behaviours of BankedMem with the as-implemented deviations
    sel = [i for i in good if i < nreplay and len(scen[i]['reqs']) <= 6]
    if not thorough:
        sel = sel[:40]
    acc = banked_explains(ctx, [parts[i][1] for i in sel], lambda r: [applicable(r)], 'bind')
    unexplained = [sel[j] for j in range(len(sel)) if not acc[j]]
    if unexplained:
        msg = 'BankedMem (as implemented) does not explain property-conforming runs %s, e.g. %s' % (
            unexplained[:5], json.dumps(scen[unexplained[0]])[:600])
        if ctx.violations:
            ctx.notes.append(msg)
        else:
            raise vlib.Infra(msg)
    ctx.cov['runs_explained_by_BankedMem'] = len(sel) - len(unexplained)
    ctx.log('BankedMemTrace (as implemented) explains %d replayed runs' % (len(sel) - len(unexplained)))

    # 5. binding self-test on accepted runs only
    gfile = os.path.join(ctx.scratch, 'good.ndjson')
    pick = [i for i in good if len(parts[i][1]) >= 20][:60] or good[:60]
    vlib.write_ndjson(gfile, [r for i in pick for r in parts[i][1]])
    common.selftest_binding(ctx, FLAT, gfile, corruptions())
    ctx.assumptions += ['akitabench mini engine and fake connection stand in for akita SerialEngine/DirectConnection',
                        'port hooks observe every message of the component (akita v4.9.0 defaultPort)',
                        'environment contract: a request lies within one interleave block (addr%2^ilog + n <= 2^ilog) and a '
                        'write mask is nil or as long as the data; requests are 1..64 bytes',
                        'arrival order = order of HookPosPortMsgRecvd on Top']


def replay(ctx, path):
    rp = json.load(open(path))['replay']
    drv = ctx.go_build('c17')
    tfile, _ = drive(ctx, drv, [rp['driver']['scenario']], 'replay')
    v = ctx.validate_trace(FLAT['dirs'], FLAT['module'], FLAT['cfg'], tfile)
    if v['accepted']:
        ctx.log('replay: trace accepted by FlatMemTrace (not reproduced)')
        return 0
    recs = vlib.split_traces(tfile)[0][1]
    ev = recs[min(v['highwater'], len(recs)) - 1]
    print('VIOLATION property=%s replay=%s' % (ctx.pid, path))
    print('  rejected at event #%d %s' % (v['highwater'], json.dumps(ev)[:300]))
    return 1
