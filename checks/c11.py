"""C11 — host-device copies move exactly the requested bytes.

spec/memcopy/MemCopy.tla       driver-level design spec: page-wise pieces, flush rule, dirty tracking, GPUs as FIFO
                               servers with a write-back cache; history variable `arch` = contents the completed
                               operations prescribe.  MC_MemCopy*.cfg: intended design (all invariants + liveness);
                               MC_asimpl_*.cfg / MC_gap_*.cfg: the pinned tree's deviations (TLC must find the
                               counterexample / must prove the deviation unreachable under the API contract)
spec/memcopy/DMA.tla           command processor + DMA engine: clone, line-wise sub-requests, RequestCollection,
                               answers in any order, flush gating.  MC_DMA*.cfg
spec/memcopy/MemCopyScen.tla   behaviours -> commands + GPU answer orders replayed on the real driver.Driver
spec/memcopy/DMAScen.tla       behaviours -> environment scenarios for the real cp.CommandProcessor + cp.DMAEngine
spec/memcopy/MemCopyTrace.tla  traces of the real driver (5 worlds: bench, benchmagic, emu, r9nano, mi300a)
spec/memcopy/DMATrace.tla      port-event traces of the real CP + DMA engine
harness/cmd/c11                driver: -mode api | dma, -scen | -random
"""
import copy
import json
import os
import random
import re

import common
import vlib

LEVEL = 'model_checking'
RULE = ('cases = scenarios executed on the real code, one trace each (api: a sequence of allocations, copies, kernel '
        'launches on one of the 5 driver worlds; dma: an environment script for the real CP + DMA engine); distinct = '
        'distinct traces (sequence numbers ignored); non-trivial = api trace with a copy whose range crosses a page '
        'boundary or is not line-aligned or needed a flush, dma trace with a copy of >= 2 sub-requests')
T_API = {'dirs': ['memcopy'], 'module': 'MemCopyTrace.tla', 'cfg': 'MemCopyTrace.cfg', 'timeout': 1500}
T_DMA = {'dirs': ['memcopy'], 'module': 'DMATrace.tla', 'cfg': 'DMATrace.cfg', 'timeout': 900}


# --------------------------------------------------------------------------- signatures
def signature(bad, at, v2):
    ev = bad[min(at, len(bad)) - 1] if bad else {}
    prev = bad[min(at, len(bad)) - 2].get('e') if at >= 2 and bad else None
    sig = {'prev_event': prev, 'plat': bad[0].get('plat', 'dma') if bad else None}
    if ev.get('e') == 'Panic':
        sig['panic'] = ev.get('cls')
    if ev.get('e') in ('Send', 'Start', 'DrvReq', 'CPDone', 'Sub'):
        sig['k'] = ev.get('k')
    return sig


T_API['signature'] = signature
T_DMA['signature'] = signature


# --------------------------------------------------------------------------- scenarios
def scen_from_behaviour(beh, idx, rng, plat, two_ctx):
    """A TLC behaviour of MemCopyScen -> a scenario for the real driver.  Model addresses a = 2*page + o map to
    page*P + (0 | X): every model range keeps its page-crossing structure, X is a seeded boundary class."""
    lp = rng.choice([10, 10, 11, 12]) if plat in ('bench', 'benchmagic') else 12
    P = 1 << lp
    X = rng.choice([4, 60, 64, 68, P // 2, P - 64, P - 4]) if plat in ('r9nano', 'mi300a') else \
        rng.choice([1, 2, 63, 64, 65, P // 2, P - 1, P - 65])

    def R(a):
        return (a // 2) * P + (X if a % 2 else 0)

    if two_ctx:
        bufs = [(0, 2, 1), (2, 2, 2), (4, 2, 1)]
    else:
        bufs = [(0, 4, 1), (4, 2, 1)]
    ops = [{'op': 'alloc', 'b': 90, 'n': P, 'ctx': 1, 'gpu': 1}]      # source of the copy kernels
    nlive = 0

    def alloc():
        nonlocal nlive
        s, n, c = bufs[nlive]
        op = {'op': 'alloc', 'b': nlive + 1, 'n': R(s + n) - R(s), 'ctx': c, 'gpu': 1}
        # pages 0 and 2 on GPU 1, page 1 on GPU 2 (MCPageDev2)
        remap = [[p - s // 2, 2] for p in range(s // 2, (s + n) // 2) if p == 1]
        if remap:
            op['remap'] = remap
        ops.append(op)
        nlive += 1

    def locate(va):
        for i, (s, n, c) in enumerate(bufs):
            if s <= va < s + n:
                return i + 1, R(va) - R(s)
        raise ValueError(va)

    alloc()
    if plat != 'bench':
        # a real kernel launch makes the driver allocate buffers of its own: allocate the model's buffers first,
        # so that they stay adjacent and a range across two of them consists of bytes of live buffers
        while nlive < len(bufs):
            alloc()
    seed = 1000 * idx
    for a in common.acts_to_steps(beh):
        k = a['a']
        if k == 'Alloc':
            if nlive < len(bufs):
                alloc()
        elif k == 'Copy':
            b, off = locate(a['va'])
            seed += 1
            op = {'op': a['k'], 'b': b, 'off': off, 'n': R(a['va'] + a['n']) - R(a['va']), 'ctx': a['c'], 'seed': seed}
            if plat == 'bench':
                op['q'] = 100 * a.get('q', 1) + 10 * a['c']   # enqueue only: the answers come from the Handle steps
            ops.append(op)
        elif k == 'Kern':
            w = sorted(a['w'])
            b, off = locate(w[0])
            n = (R(w[-1] + 1) - R(w[0])) // 4 * 4
            op = {'op': 'kern', 'ctx': a['c'], 'gpu': a['g'], 'dst': b, 'doff': off // 4 * 4,
                  'src': 90, 'soff': 0, 'n': max(4, min(n, P))}
            if plat == 'bench':
                op['q'] = 100 * a.get('q', 1) + 10 * a['c'] + a['g']
            ops.append(op)
        elif k == 'Handle' and plat == 'bench' and a.get('k') != 'launch':
            ops.append({'op': 'env', 'g': a['g'], 'k': 'other'})    # copies and flushes are served in order ...
        elif k == 'KFinish' and plat == 'bench':
            ops.append({'op': 'env', 'g': a['g'], 'k': 'launch'})   # ... a kernel finishes when the behaviour says so
    ops.append({'op': 'run', 'pol': 'fifo'})
    for i in range(nlive):
        s, n, c = bufs[i]
        ops.append({'op': 'd2h', 'b': i + 1, 'off': 0, 'n': R(s + n) - R(s), 'ctx': c})
    return {'plat': plat, 'gpus': 2, 'lp': lp, 'h2dc': rng.randrange(4), 'd2hc': rng.randrange(4), 'env': 'fifo',
            'seed': idx, 'tag': 'tlc-%s-%d' % (plat, idx), 'ops': ops}


def dma_scen_from_behaviour(beh, idx, rng):
    line_log = rng.choice([2, 3, 6, 6, 6, 7])
    L = 1 << line_log
    X = rng.choice([1, L // 2, L - 1])

    def R(a):
        return L + (a // 2) * L + (X if a % 2 else 0)

    steps = []
    for a in common.acts_to_steps(beh):
        k = a['a']
        if k == 'req':
            if a['k'] == 'flush':
                steps.append({'a': 'req', 'k': 'flush'})
            else:
                steps.append({'a': 'req', 'k': a['k'], 'addr': R(a['addr']), 'n': R(a['addr'] + a['n']) - R(a['addr']),
                              'seed': 100 * idx + len(steps)})
        elif k in ('memrsp', 'cacheack'):
            steps.append({'a': k, 'i': a['i']})
        elif k == 'await':
            steps.append({'a': 'await', 'e': a['e']})
        elif k == 'take':
            steps.append({'a': 'tick', 'n': 1})
    return {'line': line_log, 'caches': 2, 'msize': 2048, 'seed': idx, 'tag': 'tlc-dma-%d' % idx, 'steps': steps}


def boundary_matrix(plat, rng, count, tag):
    """(offset class) x (length class) x element type on a 3-page buffer spread over two GPUs, neighbours on both
    sides; every copy is followed by a read-back of the whole buffer and its neighbours."""
    lp = 10 if plat in ('bench', 'benchmagic') else 12
    P = 1 << lp
    offs = [0, 1, 63, 64, 65, P - 1, P, P + 1, 2 * P - 1, 2 * P, 3 * P - 1]
    lens = [1, 2, 63, 64, 65, P - 1, P, P + 1, 2 * P, 3 * P]
    combos = [(o, n) for o in offs for n in lens if o + n <= 3 * P]
    rng.shuffle(combos)
    tys = ['u8', 'i8', 'u16', 'i16', 'u32', 'i32', 'u64', 'i64', 'f64', 'f32', 'st']
    size = {'u8': 1, 'i8': 1, 'u16': 2, 'i16': 2, 'u32': 4, 'i32': 4, 'u64': 8, 'i64': 8, 'f64': 8, 'f32': 4, 'st': 22}
    ops = [{'op': 'alloc', 'b': 1, 'n': P, 'gpu': 1}, {'op': 'alloc', 'b': 2, 'n': 3 * P, 'gpu': 1, 'remap': [[1, 2]]},
           {'op': 'alloc', 'b': 3, 'n': P, 'gpu': 2}]
    seed = rng.randrange(1 << 20)
    for b, n in ((1, P), (2, 3 * P), (3, P)):
        seed += 1
        ops.append({'op': 'h2d', 'b': b, 'off': 0, 'n': n, 'seed': seed})
    for o, n in combos[:count]:
        ty = rng.choice(tys)
        if n % size[ty]:
            ty = 'u8'
        seed += 1
        ops.append({'op': 'h2d', 'b': 2, 'off': o, 'n': n, 'ty': ty, 'seed': seed})
        ops.append({'op': 'd2h', 'b': 2, 'off': o, 'n': n, 'ty': ty})
        if rng.random() < 0.3:
            ops.append({'op': 'd2h', 'b': 1, 'off': P - 64, 'n': 64 + 3 * P + 64})      # across the three buffers
    for b, n in ((1, P), (2, 3 * P), (3, P)):
        ops.append({'op': 'd2h', 'b': b, 'off': 0, 'n': n})
    return {'plat': plat, 'gpus': 2, 'lp': lp, 'h2dc': 2, 'd2hc': 1, 'env': 'rand', 'seed': seed, 'tag': tag, 'ops': ops}


def targeted(thorough):
    """Histories behind the defects found while building the check (see design/C11.md)."""
    P = 1024
    out = []
    for plat, lp in (('bench', 10), ('r9nano', 12)):
        p = 1 << lp
        # a kernel launched through one context writes a buffer allocated through another context of the process
        out.append({'plat': plat, 'gpus': 1, 'lp': lp, 'h2dc': 1, 'd2hc': 1, 'env': 'fifo', 'seed': 1,
                    'tag': 'ctx-%s' % plat, 'ops': [
                        {'op': 'alloc', 'b': 1, 'n': p, 'ctx': 1}, {'op': 'alloc', 'b': 2, 'n': p, 'ctx': 2},
                        {'op': 'h2d', 'b': 1, 'off': 0, 'n': p, 'seed': 5, 'ctx': 1},
                        {'op': 'h2d', 'b': 2, 'off': 0, 'n': p, 'seed': 6, 'ctx': 2},
                        {'op': 'kern', 'ctx': 1, 'gpu': 1, 'dst': 2, 'doff': 64, 'src': 1, 'soff': 0, 'n': 256},
                        {'op': 'd2h', 'b': 2, 'off': 0, 'n': p, 'ctx': 2},
                        {'op': 'h2d', 'b': 2, 'off': 0, 'n': 128, 'seed': 7, 'ctx': 2},
                        {'op': 'd2h', 'b': 2, 'off': 0, 'n': p, 'ctx': 1}]})
    # the emulator's memory path (StorageAccessor) across pages that are not physically adjacent
    acc = [{'op': 'alloc', 'b': 1, 'n': P, 'gpu': 1}, {'op': 'alloc', 'b': 2, 'n': 3 * P, 'gpu': 1, 'remap': [[1, 2]]},
           {'op': 'alloc', 'b': 3, 'n': P, 'gpu': 2}, {'op': 'h2d', 'b': 2, 'off': 0, 'n': 3 * P, 'seed': 20}]
    sd = 30
    for off, n in ((P - 1, 2), (P - 3, 8), (2 * P - 1, 3), (P - 1, P + 2), (5, 3 * P - 9), (2 * P - 64, 128), (P, P), (0, 3 * P)):
        sd += 1
        acc += [{'op': 'accw', 'b': 2, 'off': off, 'n': n, 'seed': sd}, {'op': 'accr', 'b': 2, 'off': max(0, off - 2), 'n': n + 2},
                {'op': 'd2h', 'b': 2, 'off': off, 'n': n}]
        sd += 1
        acc += [{'op': 'h2d', 'b': 2, 'off': off, 'n': n, 'seed': sd}, {'op': 'accr', 'b': 2, 'off': off, 'n': n}]
    acc += [{'op': 'accr', 'b': 1, 'off': 0, 'n': P}, {'op': 'accr', 'b': 3, 'off': 0, 'n': P}, {'op': 'd2h', 'b': 2, 'off': 0, 'n': 3 * P}]
    out.append({'plat': 'benchmagic', 'gpus': 2, 'lp': 10, 'seed': 4, 'tag': 'accessor-pages', 'ops': acc})
    # copies of zero bytes: with and without a flush to wait for, both directions, both paths
    for plat, lp in (('bench', 10), ('benchmagic', 10)) + ((('r9nano', 12), ('emu', 12)) if thorough else ()):
        p = 1 << lp
        out.append({'plat': plat, 'gpus': 1, 'lp': lp, 'h2dc': 1, 'd2hc': 1, 'env': 'fifo', 'seed': 6, 'tag': 'zero-length-%s' % plat,
                    'ops': [{'op': 'alloc', 'b': 1, 'n': p}, {'op': 'alloc', 'b': 2, 'n': p},
                            {'op': 'h2d', 'b': 1, 'off': 0, 'n': p, 'seed': 41}, {'op': 'h2d', 'b': 2, 'off': 0, 'n': p, 'seed': 42}] +
                           ([] if plat == 'benchmagic' else
                            [{'op': 'kern', 'ctx': 1, 'gpu': 1, 'dst': 2, 'doff': 0, 'src': 1, 'soff': 0, 'n': 64},
                             {'op': 'h2d', 'b': 1, 'off': 10, 'n': 0, 'seed': 43}, {'op': 'd2h', 'b': 2, 'off': p - 1, 'n': 0},
                             {'op': 'alloc', 'b': 3, 'n': p}]) +
                           [{'op': 'd2h', 'b': 1, 'off': 0, 'n': p},
                            {'op': 'd2h', 'b': 3 if plat != 'benchmagic' else 2, 'off': 7, 'n': 0},
                            {'op': 'h2d', 'b': 3 if plat != 'benchmagic' else 2, 'off': 0, 'n': 0, 'seed': 44},
                            {'op': 'd2h', 'b': 2, 'off': 0, 'n': p}]})
    # two freed buffers, one of them the youngest of its context, then a D2H that has to flush
    out.append({'plat': 'bench', 'gpus': 1, 'lp': 10, 'h2dc': 0, 'd2hc': 2, 'env': 'fifo', 'seed': 2, 'tag': 'freed-sweep',
                'ops': [{'op': 'alloc', 'b': 1, 'n': P}, {'op': 'alloc', 'b': 2, 'n': 2 * P}, {'op': 'alloc', 'b': 3, 'n': P},
                        {'op': 'h2d', 'b': 2, 'off': 0, 'n': 2 * P, 'seed': 9}, {'op': 'kern', 'ctx': 1, 'gpu': 1},
                        {'op': 'free', 'b': 1}, {'op': 'free', 'b': 3}, {'op': 'd2h', 'b': 2, 'off': 1, 'n': P}]})
    if thorough:
        # host bytes copied in after a kernel cached the old ones must be what the next kernel reads
        for plat in ('r9nano', 'mi300a'):
            out.append({'plat': plat, 'gpus': 1, 'lp': 12, 'seed': 5, 'tag': 'h2d-visible-%s' % plat, 'ops': [
                {'op': 'alloc', 'b': 1, 'n': 4096}, {'op': 'alloc', 'b': 2, 'n': 4096},
                {'op': 'h2d', 'b': 1, 'off': 0, 'n': 4096, 'seed': 11},
                {'op': 'kern', 'ctx': 1, 'gpu': 1, 'dst': 2, 'doff': 0, 'src': 1, 'soff': 0, 'n': 1024},
                {'op': 'd2h', 'b': 2, 'off': 0, 'n': 4096}, {'op': 'h2d', 'b': 1, 'off': 0, 'n': 4096, 'seed': 12},
                {'op': 'kern', 'ctx': 1, 'gpu': 1, 'dst': 2, 'doff': 0, 'src': 1, 'soff': 0, 'n': 1024},
                {'op': 'd2h', 'b': 2, 'off': 0, 'n': 4096}, {'op': 'h2d', 'b': 1, 'off': 100, 'n': 8, 'seed': 13},
                {'op': 'kern', 'ctx': 1, 'gpu': 1, 'dst': 2, 'doff': 2048, 'src': 1, 'soff': 0, 'n': 1024},
                {'op': 'd2h', 'b': 2, 'off': 0, 'n': 4096}]})
    # a copy of one queue is processed while a kernel of another queue is running (its flush comes too early for
    # the kernel's stores); afterwards the kernel's output is read back
    for i, (nside, order) in enumerate(((1, 'copy-first'), (3, 'kernel-first'), (2, 'interleaved'))):
        ops = [{'op': 'alloc', 'b': 1, 'n': P}, {'op': 'alloc', 'b': 2, 'n': P}, {'op': 'alloc', 'b': 3, 'n': 2 * P},
               {'op': 'h2d', 'b': 1, 'off': 0, 'n': P, 'seed': 51}, {'op': 'h2d', 'b': 2, 'off': 0, 'n': P, 'seed': 52},
               {'op': 'kern', 'ctx': 1, 'gpu': 1},                       # everything is dirty from here on
               {'op': 'kern', 'ctx': 1, 'gpu': 1, 'q': 1}]               # the kernel that keeps running
        ops += [{'op': 'h2d', 'b': 3, 'off': 7 * j, 'n': 33 + j, 'seed': 60 + j, 'q': 2} for j in range(nside)]
        if order == 'copy-first':
            ops += [{'op': 'env', 'g': 1, 'k': 'other'}] * (2 * nside + 1) + [{'op': 'env', 'g': 1, 'k': 'launch'}]
        elif order == 'kernel-first':
            ops += [{'op': 'env', 'g': 1, 'k': 'launch'}] + [{'op': 'env', 'g': 1, 'k': 'other'}] * (2 * nside)
        else:
            ops += [{'op': 'env', 'g': 1, 'k': 'other'}] * 2 + [{'op': 'env', 'g': 1, 'k': 'launch'}]
        ops += [{'op': 'run', 'pol': 'fifo'}, {'op': 'd2h', 'b': 2, 'off': 0, 'n': P}, {'op': 'd2h', 'b': 1, 'off': 3, 'n': 70},
                {'op': 'h2d', 'b': 2, 'off': 100, 'n': 9, 'seed': 70}, {'op': 'd2h', 'b': 3, 'off': 0, 'n': 2 * P}]
        out.append({'plat': 'bench', 'gpus': 1, 'lp': 10, 'h2dc': 1, 'd2hc': 1, 'env': 'kernslow', 'seed': 7 + i,
                    'tag': 'copy-beside-kernel-%s' % order, 'ops': ops})
    # the same on the real timing platform: queue 1 = MemCopyD2D (3 argument copies + launch), queue 2 = N small
    # copies into an unrelated buffer; both queues advance in lock-step, so N decides what overlaps the kernel
    for nside in ((5,) if not thorough else (3, 4, 5, 6)):
        ops = [{'op': 'alloc', 'b': 1, 'n': 4096}, {'op': 'alloc', 'b': 2, 'n': 4096}, {'op': 'alloc', 'b': 3, 'n': 4096},
               {'op': 'h2d', 'b': 1, 'off': 0, 'n': 4096, 'seed': 81}, {'op': 'h2d', 'b': 2, 'off': 0, 'n': 4096, 'seed': 82},
               {'op': 'kern', 'ctx': 1, 'gpu': 1, 'dst': 2, 'doff': 0, 'src': 1, 'soff': 0, 'n': 2048, 'q': 1}]
        ops += [{'op': 'h2d', 'b': 3, 'off': 16 * j, 'n': 16, 'seed': 90 + j, 'q': 2} for j in range(nside)]
        ops += [{'op': 'run'}, {'op': 'd2h', 'b': 2, 'off': 0, 'n': 4096}, {'op': 'd2h', 'b': 3, 'off': 0, 'n': 256}]
        out.append({'plat': 'r9nano', 'gpus': 1, 'lp': 12, 'seed': 8, 'tag': 'copy-beside-kernel-r9nano-%d' % nside, 'ops': ops})
    # copies interleaved with Remap / Distribute of the SAME live buffer: a copy acts on the frame (and GPU) the page
    # table names NOW; every step is observed through the page table (Sto) and by a D2H after a copy to another page
    for plat, lp in (('bench', 10), ('benchmagic', 10), ('emu', 12), ('r9nano', 12)):
        p = 1 << lp
        ops = [{'op': 'alloc', 'b': 1, 'n': 2 * p, 'gpu': 1}, {'op': 'alloc', 'b': 2, 'n': 3 * p, 'gpu': 1},
               {'op': 'h2d', 'b': 1, 'off': 0, 'n': 2 * p, 'seed': 101},                 # last page translated: page 1
               {'op': 'remap', 'b': 1, 'remap': [[1, 2]]},                              # page 1 -> a frame of GPU 2
               {'op': 'h2d', 'b': 1, 'off': p + 5, 'n': 100, 'seed': 102},               # first page: page 1
               {'op': 'h2d', 'b': 1, 'off': 3, 'n': 10, 'seed': 103},                    # another page
               {'op': 'd2h', 'b': 1, 'off': p, 'n': p},
               {'op': 'd2h', 'b': 1, 'off': p + 3, 'n': 50},                             # last page: page 1 again
               {'op': 'remap', 'b': 1, 'remap': [[1, 1]]},                              # and back to GPU 1
               {'op': 'd2h', 'b': 1, 'off': p, 'n': 64},                                 # D2H right after the remap
               {'op': 'h2d', 'b': 1, 'off': 2 * p - 9, 'n': 9, 'seed': 104}, {'op': 'd2h', 'b': 1, 'off': 0, 'n': 2 * p},
               {'op': 'h2d', 'b': 2, 'off': 0, 'n': 3 * p, 'seed': 105},                 # last page: page 2 of buffer 2
               {'op': 'remap', 'b': 2, 'dist': [2, 1]},                                  # Distribute over both GPUs
               {'op': 'h2d', 'b': 2, 'off': 2 * p + 1, 'n': p - 1, 'seed': 106},         # first page: that page
               {'op': 'h2d', 'b': 2, 'off': p - 2, 'n': 4, 'seed': 107},                 # across pages 0/1
               {'op': 'd2h', 'b': 2, 'off': 0, 'n': 3 * p}, {'op': 'd2h', 'b': 1, 'off': 0, 'n': 2 * p}]
        out.append({'plat': plat, 'gpus': 2, 'lp': lp, 'h2dc': 1, 'd2hc': 1, 'env': 'fifo', 'seed': 9,
                    'tag': 'remap-live-%s' % plat, 'ops': ops})
    # a GPU that only has to flush answers after the GPUs that moved the data (2..4 GPUs)
    for g in ((2, 3, 4) if thorough else (2, 4)):
        out.append({'plat': 'bench', 'gpus': g, 'lp': 10, 'h2dc': 1, 'd2hc': 1, 'env': 'flushlast', 'seed': 3,
                    'tag': 'flush-last-%d' % g,
                    'ops': [{'op': 'alloc', 'b': 1, 'n': 3 * P, 'gpu': 1, 'remap': [[1, 2]]},
                            {'op': 'h2d', 'b': 1, 'off': 0, 'n': 3 * P, 'seed': 4}, {'op': 'kern', 'ctx': 1, 'gpu': g},
                            {'op': 'h2d', 'b': 1, 'off': 5, 'n': 100, 'seed': 5}, {'op': 'd2h', 'b': 1, 'off': 0, 'n': 3 * P},
                            {'op': 'h2d', 'b': 1, 'off': P - 1, 'n': P + 2, 'seed': 6, 'q': 1},
                            {'op': 'd2h', 'b': 1, 'off': P - 2, 'n': P + 4, 'q': 1}, {'op': 'run'}]})
    return out


# --------------------------------------------------------------------------- running and validating
def run_c11(ctx, drv, mode, scen, name, extra=None):
    """Execute scenarios (and/or seeded random ones); returns (trace path, executed scenarios, stats)."""
    t = os.path.join(ctx.scratch, 'trace_%s.ndjson' % name)
    dump = os.path.join(ctx.scratch, 'scen_%s_out.json' % name)
    args = ['-mode', mode, '-out', t, '-dump', dump]
    if mode == 'api':
        # timing platforms: the port events of every GPU's real CP + DMA engine, as DMATrace traces
        args += ['-sysout', os.path.join(ctx.scratch, 'trace_%s_sys.ndjson' % name)]
    if scen:
        sfile = os.path.join(ctx.scratch, 'scen_%s.json' % name)
        json.dump(scen, open(sfile, 'w'))
        args += ['-scen', sfile]
    args += [str(a) for a in (extra or [])]
    work = ctx.sub('work')
    env = dict(os.environ)
    env['C11_WORKDIR'] = work
    p = ctx.run([drv] + args, timeout=1500, check=False, env=env)
    stats = None
    if p.returncode == 0:
        for line in p.stdout.strip().splitlines()[::-1]:
            try:
                stats = json.loads(line)
                break
            except ValueError:
                continue
    if stats is None:
        raise vlib.Infra('c11 driver failed (%s): %s' % (name, p.stdout[-2000:]))
    for f in os.listdir(work):
        if f.endswith('.sqlite3') or f.startswith('akita_sim'):
            try:
                os.remove(os.path.join(work, f))
            except OSError:
                pass
    return t, json.load(open(dump)), stats


def sys_trace(t):
    p = t[:-len('.ndjson')] + '_sys.ndjson'
    return p if os.path.exists(p) and os.path.getsize(p) > 0 else None


def validate(ctx, tspec, trace, mode, scens):
    """Trace validation with deviation reporting.  Returns number of sub-traces accepted."""
    info = {'cmd': 'c11', 'mode': mode, 'scenarios': scens, 'sys': tspec is T_DMA and mode == 'api'}
    v = ctx.validate_trace(tspec['dirs'], tspec['module'], tspec['cfg'], trace, timeout=tspec.get('timeout', 900),
                           heap=tspec.get('heap'))
    if not v['accepted']:
        ctx.cov['tlc_runs'][-1]['note'] = 'rejected; triaged below'
        return common.validate_and_triage(ctx, tspec, trace, info)
    parts = vlib.split_traces(trace)
    ctx.cov['traces_validated_against_impl'] += len(parts)
    seen = set()
    for m in re.finditer(r'<<"DEVIATION", "(\w+)", (\d+)>>', v['res'].out):
        name, line = m.group(1), int(m.group(2))
        start, recs = vlib.trace_containing(trace, line)
        tag = recs[0].get('tag')
        if (name, tag) in seen:
            continue
        seen.add((name, tag))
        ev = recs[line - start] if 0 <= line - start < len(recs) else {}
        sig = {'kind': 'deviation', 'deviation': name}
        what = '%s: the real code took the as-implemented deviation %r (scenario %s on %s, event #%d %s)' % (
            ctx.pid, name, tag, recs[0].get('plat', 'cp+dma'), line - start + 1, json.dumps(ev)[:200])
        one = [s for s in scens if s.get('tag') == str(tag).split(':gpu')[0]] or scens
        ctx.report_failure(what, sig, {'driver': {'cmd': 'c11', 'mode': mode, 'scenarios': one, 'sys': info['sys']},
                                       'trace_spec': [tspec['dirs'], tspec['module'], tspec['cfg']],
                                       'failing_index': line - start + 1, 'trace': [_short(r) for r in recs[:400]]})
    return len(parts)


def _short(r):
    r = dict(r)
    for k in ('d', 'init'):
        if isinstance(r.get(k), list) and len(r[k]) > 16:
            r[k] = r[k][:16] + ['... %d bytes' % len(r[k])]
    if isinstance(r.get('chg'), list):
        r['chg'] = [[c[0], len(c[1])] for c in r['chg']]
    return r


def expect_violation(ctx, cfg, wanted, module='MC_MemCopy.tla', workers=4, timeout=900):
    """An as-implemented configuration: TLC must produce the counterexample (otherwise the model lost the defect)."""
    r = ctx.tlc(['memcopy'], module, cfg, workers=workers, timeout=timeout, kind='mc_expected_violation')
    if not (set(r.violated) & set(wanted)):
        raise vlib.Infra('%s: expected a counterexample to one of %s, TLC said violated=%s completed=%s\n%s' % (
            cfg, wanted, r.violated, r.completed, r.out[-1500:]))
    ctx.log('%s: counterexample to %s as expected (%d states)' % (cfg, sorted(set(r.violated)), r.distinct))
    return r


def api_nontrivial(recs):
    page = recs[0].get('page', 4096)
    for r in recs:
        if r['e'] == 'Start' and r.get('usr') == 1 and r['k'] in ('h2d', 'd2h'):
            if r['va'] // page != (r['va'] + r['n'] - 1) // page or r['va'] % 64 or r['n'] % 64:
                return True
        if r['e'] == 'Send' and r['k'] == 'flush':
            return True
        if r['e'] in ('AccW', 'AccR') and r['va'] // page != (r['va'] + r['n'] - 1) // page:
            return True
    return False


def dma_nontrivial(recs):
    subs = sum(1 for r in recs if r['e'] == 'Sub')
    reqs = sum(1 for r in recs if r['e'] == 'CPFwd')
    return subs > reqs


# --------------------------------------------------------------------------- binding self-test
def _sends(recs):
    return {r['r']: r for r in recs if r['e'] == 'Send'}


def _starts(recs):
    return {r['c']: r for r in recs if r['e'] == 'Start'}


def api_corruptions():
    """Every corruption is applied only where the result is certainly not a behaviour of MemCopyTrace (a variant
    the specification legitimately accepts - a redundant flush dropped, a flush answer consumed after the
    completion, a byte that happens to keep its value - must never be produced)."""
    def pick(recs, rng, pred):
        idx = [i for i, r in enumerate(recs) if pred(i, r)]
        return rng.choice(idx) if idx else None

    def d2h_byte(recs, rng):          # the host receives one wrong byte
        i = pick(recs, rng, lambda i, r: r['e'] == 'Done' and r['d'])
        if i is None:
            return None
        recs[i]['d'][rng.randrange(len(recs[i]['d']))] ^= 0x10
        return recs

    def outside_byte(recs, rng):      # the byte behind the copied range changes in the storage
        if recs[0].get('cached') or any(r['e'] in ('Free', 'Panic') for r in recs):
            return None
        sto, cands = {}, []
        for i, r in enumerate(recs):
            if r['e'] == 'Alloc':
                for k, b in enumerate(r['init']):
                    sto[r['va'] + k] = b
            elif r['e'] == 'Sto':
                for a0, bs in r['chg']:
                    for k, b in enumerate(bs):
                        sto[a0 + k] = b
                if len(r['chg']) == 1 and r['chg'][0][0] + len(r['chg'][0][1]) in sto and \
                        recs[i + 1]['e'] == 'Quiesce' and not recs[i + 1]['pend']:
                    cands.append((i, sto[r['chg'][0][0] + len(r['chg'][0][1])]))
        if not cands:
            return None
        i, cur = rng.choice(cands)
        recs[i]['chg'][0][1].append(cur ^ 0x10)      # certainly not the byte that is there
        return recs

    def early_done(recs, rng):        # completion before the answer to the last piece was consumed
        snd = _sends(recs)
        i = pick(recs, rng, lambda i, r: r['e'] == 'Done' and i >= 2 and recs[i - 1]['e'] == 'Take' and
                 snd.get(recs[i - 1]['r'], {}).get('c') == r['c'] and snd[recs[i - 1]['r']]['k'] != 'flush')
        if i is None:
            return None
        recs[i - 1], recs[i] = recs[i], recs[i - 1]
        return recs

    def double_done(recs, rng):
        i = pick(recs, rng, lambda i, r: r['e'] == 'Done')
        if i is None:
            return None
        return recs[:i + 1] + [dict(recs[i])] + recs[i + 1:]

    def piece_off_by_one(recs, rng):  # a piece one byte short
        i = pick(recs, rng, lambda i, r: r['e'] == 'Send' and r['k'] in ('h2d', 'd2h') and r['n'] > 1)
        if i is None:
            return None
        recs[i]['n'] -= 1
        if recs[i]['d']:
            recs[i]['d'] = recs[i]['d'][:-1]
        return recs

    def drop_flush(recs, rng):        # the only flush between a finished kernel and a copy is not sent
        if any(r['e'] in ('Free', 'Panic', 'Ctx') and r.get('ctx', 1) != 1 for r in recs) or \
                any(r['e'] in ('Free', 'Panic') for r in recs):
            return None
        st, snd = _starts(recs), _sends(recs)
        epoch, fin_ep, fin_any, first_launch, allocs_after = 0, 0, False, None, False
        fep, flushes, cands = {}, [], []                   # flushes: (epoch when sent, command)
        for i, r in enumerate(recs):
            if r['e'] == 'Send' and r['k'] == 'launch':
                epoch += 1
                first_launch = first_launch if first_launch is not None else i
            elif r['e'] == 'Rsp' and snd.get(r['r'], {}).get('k') == 'launch':
                epoch += 1
                fin_ep, fin_any = epoch, True
            elif r['e'] == 'Alloc' and first_launch is not None:
                allocs_after = True                          # a buffer younger than a kernel may be clean
            elif r['e'] == 'Start' and r['k'] in ('h2d', 'd2h') and fin_any:
                fep[r['c']] = fin_ep                         # a kernel had finished when the copy started
            elif r['e'] == 'Send' and r['k'] == 'flush':
                flushes.append((epoch, r['c']))
            elif r['e'] == 'Send' and r['k'] in ('h2d', 'd2h') and not allocs_after:
                c = r['c']
                if c in fep and st[c]['n'] > 0 and {fc for ep, fc in flushes if ep >= fep[c]} == {c}:
                    cands.append(c)
        if not cands:
            return None
        c = rng.choice(sorted(set(cands)))
        gone = {r['r'] for r in recs if r['e'] == 'Send' and r['k'] == 'flush' and r['c'] == c}
        return [r for r in recs if not ((r['e'] == 'Send' and r['k'] == 'flush' and r['c'] == c) or
                                        (r['e'] in ('Rsp', 'Take') and r['r'] in gone))]

    def wrong_gpu(recs, rng):         # (only where the page table is known: the owner of the page is certain)
        if recs[0].get('gpus', 1) < 2 or not recs[0].get('pt'):
            return None
        i = pick(recs, rng, lambda i, r: r['e'] == 'Send' and r['k'] in ('h2d', 'd2h'))
        if i is None:
            return None
        recs[i]['g'] = recs[i]['g'] % recs[0]['gpus'] + 1
        return recs

    def hang(recs, rng):              # a command with bytes to move is left behind, its last answer was a piece's
        snd, st = _sends(recs), _starts(recs)
        last_take = {}
        for r in recs:
            if r['e'] == 'Take' and r['r'] in snd:
                last_take[snd[r['r']]['c']] = snd[r['r']]['k']
        i = pick(recs, rng, lambda i, r: r['e'] == 'Done' and st[r['c']]['k'] in ('h2d', 'd2h') and st[r['c']]['n'] > 0 and
                 last_take.get(r['c'], 'piece') != 'flush')
        if i is None:
            return None
        c = recs[i]['c']
        out = recs[:i]
        for r in recs[i + 1:]:
            out.append(r)
            if r['e'] == 'Quiesce':
                r['pend'] = [c]
                break
        return out

    return [('d2h_returns_wrong_byte', d2h_byte), ('byte_outside_range_changed', outside_byte),
            ('completion_before_last_answer', early_done), ('double_completion', double_done),
            ('piece_one_byte_short', piece_off_by_one), ('needed_flush_not_sent', drop_flush),
            ('piece_sent_to_wrong_gpu', wrong_gpu), ('command_left_behind', hang)]


def dma_corruptions():
    def pick(recs, rng, pred):
        idx = [i for i, r in enumerate(recs) if pred(r)]
        return rng.choice(idx) if idx else None

    def sub_addr(recs, rng):
        i = pick(recs, rng, lambda r: r['e'] == 'Sub')
        if i is None:
            return None
        recs[i]['a'] += 1
        return recs

    def sub_data(recs, rng):
        i = pick(recs, rng, lambda r: r['e'] == 'Sub' and r['d'])
        if i is None:
            return None
        recs[i]['d'][0] ^= 1
        return recs

    def early_done(recs, rng):        # answer before the last memory response of the same copy was consumed
        line = recs[0]['line']
        queue, owner, alias_of = [], {}, {}
        for r in recs:
            if r['e'] == 'CPFwd':
                alias_of[r['id']] = (r['a'] + r['n'] - 1) // line - r['a'] // line + 1
            elif r['e'] == 'DMATake':
                queue.append([r['id'], alias_of.get(r['id'], 0)])
            elif r['e'] == 'Sub':
                for q in queue:
                    if q[1] > 0:
                        q[1] -= 1
                        owner[r['id']] = q[0]
                        break
        i = pick(recs, rng, lambda r: r['e'] == 'DMADone')
        if i is None:
            return None
        mine = [k for k in range(i) if recs[k]['e'] == 'DMARecv' and owner.get(recs[k]['to']) == recs[i]['to']]
        if not mine:
            return None
        j = mine[-1]
        r = recs.pop(i)
        recs.insert(j, r)
        return recs

    def dup_done(recs, rng):
        i = pick(recs, rng, lambda r: r['e'] == 'CPDone' and r['k'] != 'flush')
        if i is None:
            return None
        return recs[:i + 1] + [dict(recs[i])] + recs[i + 1:]

    def d2h_misplaced(recs, rng):     # the returned buffer has two bytes swapped
        i = pick(recs, rng, lambda r: r['e'] == 'CPDone' and len(r['d']) > 1 and len(set(r['d'])) > 1)
        if i is None:
            return None
        d = recs[i]['d']
        a = 0
        b = next(k for k in range(1, len(d)) if d[k] != d[0])
        d[a], d[b] = d[b], d[a]
        return recs

    def fwd_during_flush(recs, rng):  # a copy overtakes the flush in front of it
        i = pick(recs, rng, lambda r: r['e'] == 'CPAck')
        if i is None:
            return None
        j = next((k for k in range(i + 1, len(recs)) if recs[k]['e'] == 'CPFwd'), None)
        if j is None:
            return None
        r = recs.pop(j)
        recs.insert(i, r)
        return recs

    return [('sub_request_wrong_address', sub_addr), ('sub_request_wrong_data', sub_data),
            ('answered_before_last_response', early_done), ('duplicate_answer', dup_done),
            ('d2h_bytes_misplaced', d2h_misplaced), ('copy_forwarded_during_flush', fwd_during_flush)]


def binding_selftest(ctx, tspec, trace_paths, corruptions):
    """Every corruption is tried on the recorded traces (seeded order) until it applies; the corrupted trace must be
    rejected.  The corruptions only produce traces that are certainly invalid (see api_corruptions), so an
    acceptance means a vacuous trace specification."""
    parts = [recs for p in trace_paths for _, recs in vlib.split_traces(p)]
    rng = random.Random(ctx.seed)
    order = list(range(len(parts)))
    rng.shuffle(order)
    results = []
    for name, fn in corruptions:
        for i in order:
            if len(parts[i]) > 700:          # keep the self-test cheap
                continue
            bad = fn(copy.deepcopy(parts[i]), rng)
            if bad is None:
                continue
            p = os.path.join(ctx.scratch, 'selftest_%s.ndjson' % name)
            vlib.write_ndjson(p, bad)
            v = ctx.validate_trace(tspec['dirs'], tspec['module'], tspec['cfg'], p)
            if v['accepted']:
                keep = os.path.join(vlib.VERIF, 'replays', ctx.pid)
                os.makedirs(keep, exist_ok=True)
                vlib.write_ndjson(os.path.join(keep, 'selftest_accepted_%s.ndjson' % name), bad)
                raise vlib.Infra('binding self-test: corruption %r was ACCEPTED by %s (trace kept in replays/%s)' % (
                    name, tspec['module'], ctx.pid))
            results.append({'corruption': name, 'rejected_at': v['highwater'], 'violated': v['violated']})
            break
    return results


# --------------------------------------------------------------------------- the check
def run(ctx, selftest=False):
    thorough = ctx.tier == 'thorough'
    rng = random.Random(ctx.seed)
    drv = ctx.go_build('c11')
    W = 8 if thorough else 4

    # 1. design level
    mc1, mc2 = ('MC_MemCopy.cfg', 'MC_DMA.cfg') if thorough else ('MC_MemCopy_quick.cfg', 'MC_DMA_quick.cfg')
    r = ctx.tlc_expect_ok(['memcopy'], 'MC_MemCopy.tla', mc1, workers=W, coverage=True, timeout=1200)
    ctx.log('%s (intended design): %d distinct states, depth %d' % (mc1, r.distinct, r.depth))
    zeros = r.coverage_zero()
    r2 = ctx.tlc_expect_ok(['memcopy'], 'MC_DMA.tla', mc2, workers=W, coverage=True, timeout=1200)
    ctx.log('%s: %d distinct states, depth %d' % (mc2, r2.distinct, r2.depth))
    zeros += r2.coverage_zero()
    # Remap is switched off (MaxRemap = 0) in the base configuration: its coverage comes from the remap configuration
    rr = ctx.tlc_expect_ok(['memcopy'], 'MC_MemCopy.tla', 'MC_MemCopy_remap.cfg' if thorough else 'MC_MemCopy_remap1.cfg',
                           workers=W, coverage=True, timeout=1200)
    ctx.log('MC_MemCopy_remap (copies interleaved with Remap of live pages): %d distinct states' % rr.distinct)
    zr = set(rr.coverage_zero())
    zeros = [z for z in zeros if not (z.startswith('MemCopy!') and z not in zr)]
    ctx.cov['coverage_zero_actions'] = zeros
    if zeros:
        raise vlib.Infra('vacuity: actions never taken in the model: %s' % zeros)
    expect_violation(ctx, 'MC_asimpl_hang.cfg', ['NoHang'])
    expect_violation(ctx, 'MC_asimpl_ctx.cfg', ['RoundTrip', 'OutsideUntouched'])
    expect_violation(ctx, 'MC_asimpl_empty.cfg', ['NoHang'])
    r = ctx.tlc_expect_ok(['memcopy'], 'MC_MemCopy.tla', 'MC_MemCopy_2q.cfg', workers=W, timeout=1200)
    ctx.log('MC_MemCopy_2q (two queues, a copy beside a running kernel): %d distinct states' % r.distinct)
    expect_violation(ctx, 'MC_seed_clean_2q.cfg', ['RoundTrip', 'OutsideUntouched'])
    expect_violation(ctx, 'MC_seed_stalepage.cfg', ['RoundTrip', 'OutsideUntouched'])
    if thorough:
        r = ctx.tlc_expect_ok(['memcopy'], 'MC_MemCopy.tla', 'MC_gap_contract.cfg', workers=W, timeout=900)
        ctx.log('MC_gap_contract (memRangeOverlap gap, API contract): holds, %d states' % r.distinct)
        for cfg in ('MC_MemCopy_ctx.cfg', 'MC_MemCopy_big.cfg', 'MC_MemCopy_empty.cfg', 'MC_nogap_nocontract.cfg',
                    'MC_seed_clean_1q.cfg'):
            r = ctx.tlc_expect_ok(['memcopy'], 'MC_MemCopy.tla', cfg, workers=W, timeout=3000)
            ctx.log('%s: %d distinct states' % (cfg, r.distinct))
        expect_violation(ctx, 'MC_gap_nocontract.cfg', ['RoundTrip', 'OutsideUntouched'])
        r = ctx.tlc_expect_ok(['memcopy'], 'MC_MemCopy.tla', 'MC_MemCopy_live.cfg', workers=W, timeout=1200)
        ctx.log('MC_MemCopy_live (every command completes, fairness): %d states' % r.distinct)
        r = ctx.tlc_expect_ok(['memcopy'], 'MC_DMA.tla', 'MC_DMA_live.cfg', workers=W, timeout=1200)
        ctx.log('MC_DMA_live: %d states' % r.distinct)
        r = ctx.tlc_expect_ok(['memcopy'], 'MC_DMA.tla', 'MC_DMA_big.cfg', workers=W, timeout=3000)
        ctx.log('MC_DMA_big: %d distinct states' % r.distinct)
        ctx.cov['exhaustive'] = True

    # 2. spec -> code: TLC behaviours as scenarios
    nb = 40 if thorough else 8
    behs, _ = ctx.simulate(['memcopy'], 'MemCopyScen.tla', 'MemCopyScen.cfg', num=nb, depth=90)
    behs2, _ = ctx.simulate(['memcopy'], 'MemCopyScen.tla', 'MemCopyScen_ctx.cfg', num=nb // 2, depth=90)
    api_scen = [scen_from_behaviour(b, i, rng, 'bench', False) for i, b in enumerate(behs)]
    api_scen += [scen_from_behaviour(b, 500 + i, rng, 'bench', True) for i, b in enumerate(behs2)]
    behs3, _ = ctx.simulate(['memcopy'], 'MemCopyScen.tla', 'MemCopyScen_2q.cfg', num=nb, depth=110)
    api_scen += [scen_from_behaviour(b, 600 + i, rng, 'bench', False) for i, b in enumerate(behs3)]
    nreal = 6 if thorough else 1
    api_scen += [scen_from_behaviour(b, 700 + i, rng, 'r9nano', False) for i, b in enumerate(behs[:nreal])]
    api_scen += [scen_from_behaviour(b, 800 + i, rng, 'emu', False) for i, b in enumerate(behs[nreal:2 * nreal])]
    if thorough:
        api_scen += [scen_from_behaviour(b, 900 + i, rng, 'mi300a', False) for i, b in enumerate(behs[:2])]
    dbehs, _ = ctx.simulate(['memcopy'], 'DMAScen.tla', 'DMAScen.cfg', num=60 if thorough else 15, depth=140)
    dma_scen = [dma_scen_from_behaviour(b, i, rng) for i, b in enumerate(dbehs)]
    ctx.sample({'scenario_from_TLC_behaviour': api_scen[0]['ops'][:10]})
    ctx.sample({'dma_scenario_from_TLC_behaviour': dma_scen[0]['steps'][:12]})

    # 3. boundary matrix + targeted histories
    mats = [boundary_matrix('benchmagic', rng, 90 if thorough else 14, 'matrix-magic'),
            boundary_matrix('bench', rng, 90 if thorough else 10, 'matrix-bench')]
    if thorough:
        mats += [boundary_matrix('emu', rng, 30, 'matrix-emu'), boundary_matrix('r9nano', rng, 30, 'matrix-r9nano')]
    tgt = targeted(thorough)

    all_parts = []
    t1, ex1, st1 = run_c11(ctx, drv, 'api', api_scen, 'tlc')
    ctx.log('replayed %d TLC behaviours on the real driver: %s' % (len(api_scen), st1))
    validate(ctx, T_API, t1, 'api', ex1)
    sys_traces = [sys_trace(t1)]
    t2, ex2, st2 = run_c11(ctx, drv, 'api', mats + tgt, 'matrix')
    ctx.log('boundary matrix + targeted histories: %s' % st2)
    validate(ctx, T_API, t2, 'api', ex2)
    sys_traces.append(sys_trace(t2))
    sys_scen = {id(t): ex for t, ex in ((sys_traces[0], ex1), (sys_traces[1], ex2))}
    td1, exd1, std1 = run_c11(ctx, drv, 'dma', dma_scen, 'dmatlc')
    ctx.log('replayed %d TLC behaviours on the real CP + DMA engine: %s' % (len(dma_scen), std1))
    validate(ctx, T_DMA, td1, 'dma', exd1)

    # 4. code -> spec: seeded random scenarios far beyond the model's bounds
    plan = [('bench', 40, 14), ('benchmagic', 30, 14), ('emu', 10, 12), ('r9nano', 6, 12), ('mi300a', 3, 10)] if thorough else \
           [('bench', 5, 12), ('benchmagic', 4, 12), ('emu', 1, 8), ('r9nano', 1, 8)]
    traces = [t1, t2]
    events = st1['events'] + st2['events']
    for plat, n, size in plan:
        t, ex, st = run_c11(ctx, drv, 'api', None, 'rand_' + plat,
                            ['-random', n, '-plats', plat, '-seed', ctx.seed * 7919 + len(plat), '-size', size])
        ctx.log('random %s: %s' % (plat, st))
        validate(ctx, T_API, t, 'api', ex)
        traces.append(t)
        events += st['events'] + st.get('sys_events', 0)
        if sys_trace(t):
            sys_traces.append(sys_trace(t))
            sys_scen[id(sys_traces[-1])] = ex
    td2, exd2, std2 = run_c11(ctx, drv, 'dma', None, 'dmarand', ['-random', 300 if thorough else 40, '-seed', ctx.seed])
    ctx.log('random CP + DMA environments: %s' % std2)
    validate(ctx, T_DMA, td2, 'dma', exd2)
    events += std1['events'] + std2['events']

    # the real CP + DMA engine inside the timing platforms (real DRAM controllers, caches, connections)
    sys_parts = []
    for st_ in [x for x in (sys_traces if thorough else sys_traces[:2]) if x]:
        validate(ctx, T_DMA, st_, 'api', sys_scen[id(st_)])
        sys_parts += vlib.split_traces(st_)
    ctx.log('CP + DMA engine inside the timing platforms: %d traces, %d events' % (
        len(sys_parts), sum(len(r) for _, r in sys_parts)))
    events += st1.get('sys_events', 0) + st2.get('sys_events', 0)

    # coverage accounting
    api_parts = [p for t in traces for p in vlib.split_traces(t)]
    dma_parts = vlib.split_traces(td1) + vlib.split_traces(td2) + sys_parts
    strip = lambda recs: json.dumps([{k: v for k, v in r.items() if k not in ('seq', 'tag')} for r in recs], sort_keys=True)
    distinct = {strip(recs) for _, recs in api_parts + dma_parts}
    nt = sum(1 for _, recs in api_parts if api_nontrivial(recs)) + sum(1 for _, recs in dma_parts if dma_nontrivial(recs))
    worlds = {}
    for _, recs in api_parts:
        worlds[recs[0]['plat']] = worlds.get(recs[0]['plat'], 0) + 1
    worlds['cp+dma (bench)'] = len(dma_parts) - len(sys_parts)
    worlds['cp+dma (inside timing platform)'] = len(sys_parts)
    ctx.sample({'api_trace_excerpt': [_short(r) for r in api_parts[0][1][:12]]})
    ctx.sample({'dma_trace_excerpt': [_short(r) for r in dma_parts[-1][1][:12]]})
    ctx.cov.update({'evaluations': len(api_parts) + len(dma_parts), 'distinct_nontrivial': min(nt, len(distinct)),
                    'events_validated': events, 'traces_per_world': worlds})

    # 5. binding self-test
    ac, dc = api_corruptions(), dma_corruptions()
    if not thorough:
        ac = [c for c in ac if c[0] in ('d2h_returns_wrong_byte', 'byte_outside_range_changed', 'needed_flush_not_sent',
                                        'completion_before_last_answer')]
        dc = [c for c in dc if c[0] in ('answered_before_last_response', 'd2h_bytes_misplaced',
                                        'copy_forwarded_during_flush')]
    a = binding_selftest(ctx, T_API, traces, ac)
    b = binding_selftest(ctx, T_DMA, [td2, td1], dc)
    ctx.cov['binding_selftest'] = a + b
    if len(a) < 3 or len(b) < 3:
        raise vlib.Infra('binding self-test: only %d/%d corruptions applicable' % (len(a), len(b)))
    ctx.assumptions += [
        'akitabench mini engine / fake connection stand in for akita SerialEngine / DirectConnection (bench worlds)',
        'port hooks and the verif yield points "scan"/"deq" observe every request, answer, start and completion',
        'driver.VerifSnapshotBuffers reads every live buffer through the page table from the global storage',
        'bench worlds: the harness GPUs serve copy requests on the driver\'s own global storage, in any order',
        'kernel = the driver\'s own copy kernel (MemCopyD2D), 4-byte aligned on the timing platforms',
        'f32 element types are read back only over bytes written with the same type (encoding/binary quiets sNaN)']


def replay(ctx, path):
    rp = json.load(open(path))['replay']
    drv = ctx.go_build('c11')
    d = rp['driver']
    tspec = T_API if d['mode'] == 'api' and not d.get('sys') else T_DMA
    scens = d['scenarios']
    tag = str((rp.get('trace') or [{}])[0].get('tag')).split(':gpu')[0]
    one = [s for s in scens if s.get('tag') == tag] or scens
    t, ex, st = run_c11(ctx, drv, d['mode'], one, 'replay')
    if d.get('sys'):
        t = sys_trace(t)
        if t is None:
            raise vlib.Infra('replay produced no CP/DMA trace')
    before = len(ctx.violations)
    validate(ctx, tspec, t, d['mode'], ex)
    return 1 if len(ctx.violations) > before else 0
