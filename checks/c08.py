"""C08 — the dispatch grid is partitioned exactly into work-groups, wavefronts and lanes.

spec/grid/GridOps.tla    geometry, cursor machine, wavefront fold, register rule, driver split (operators)
spec/grid/Grid.tla       the builder as a machine + the invariants stating the property
spec/grid/MC_Grid*.cfg   exhaustive model checking (W = 4): all grids/WG sizes/filters/Skip
spec/grid/GridScen.tla   behaviours (W = 64) -> call sequences replayed on the real kernels.GridBuilder
spec/grid/GridTrace.tla  records of the real GridBuilder / driver split / emu CU / timing CU judged by the property
harness/cmd/c08          executes cases against the real code and logs what it produced
"""
import bisect
import itertools
import json
import os
import random
import re

import common
import vlib

LEVEL = 'model_checking'
RULE = ('cases = (grid, work-group size, GPU split, drive mode, register dump mode) executed on the real '
        'kernels.GridBuilder / driver.Driver filter closures / emu and timing compute units; distinct = distinct case '
        'tuples; non-trivial = the grid has a partial edge work-group, or a work-group extent that is not a power of '
        'two, or a multi-GPU filter, or more than one dimension')
TSPEC = {'dirs': ['grid'], 'module': 'GridTrace.tla', 'cfg': 'GridTrace.cfg', 'timeout': 1500}

DEV_WHAT = {
    'WfStartNeedsPresentMultiple': 'formWavefronts opened no wavefront where the work-item with flat id k*64 is absent '
                                   '(partial work-group): lanes are enabled twice / for ids outside the group and '
                                   'work-items are lost',
    'TimingIgnoresPackedIds': 'timing WfDispatcherImpl.initRegisters wrote separate v0/v1/v2 for a V5 code object '
                              '(kernels of that ABI read packed ids from v0)',
}

# ------------------------------------------------------------------ case generation
FLAGS_IDS = 64 | 128 | 256          # work-group id x/y/z SGPRs
FLAG_CHOICES = [FLAGS_IDS | 4, FLAGS_IDS | 4 | 2, FLAGS_IDS | 1 | 2 | 4 | 8 | 16 | 32, FLAGS_IDS | 8 | 32, FLAGS_IDS]


def prod(t):
    return t[0] * t[1] * t[2]


def nwg(g, s):
    return [(g[i] - 1) // s[i] + 1 for i in range(3)]


def mk(g, s, **kw):
    c = {'g': list(g), 's': list(s), 'cus': [], 'gpu': 0, 'mode': 'full', 'parts': 0, 'ops': [], 'done': False,
         'regs': [], 'regwg': 0, 'ver': 3, 'en': 2, 'flags': FLAGS_IDS | 4}
    c.update(kw)
    return c


def items_of(c):
    return prod(c['g'])


def with_regs(c, rng, nwgs=3):
    c['regs'] = rng.choice([['emu'], ['timing'], ['emu', 'timing']])
    c['regwg'] = nwgs
    c['ver'] = rng.choice([2, 3, 3, 5, 5])
    need = 2 if c['s'][2] > 1 else (1 if c['s'][1] > 1 else 0)
    c['en'] = rng.randint(need, 2)
    c['flags'] = rng.choice(FLAG_CHOICES)
    return c


def small_enum():
    sizes = [(1, 1, 1), (2, 1, 1), (3, 1, 1), (2, 2, 1), (3, 2, 1), (2, 2, 2), (4, 3, 1), (5, 1, 2), (3, 3, 3),
             (1, 4, 2), (6, 1, 1), (1, 1, 5)]
    return [mk(g, s) for g in itertools.product(range(1, 7), repeat=3) for s in sizes]


def boundary_enum():
    xs = [1, 2, 3, 7, 16, 31, 32, 33, 63, 64, 65, 100, 127, 128, 129, 192, 255, 256, 257, 500, 512, 1000, 1023, 1024]
    yz = [(1, 1), (2, 1), (3, 1), (1, 2), (2, 2), (5, 1), (1, 3), (4, 4), (16, 1), (3, 5), (7, 3), (1, 64)]
    out = []
    for sx in xs:
        for sy, sz in yz:
            if sx * sy * sz > 1024:
                continue
            gxs = sorted({max(1, sx - 1), sx, sx + 1, sx + max(1, sx // 2), 2 * sx + 1})
            gys = sorted({sy, sy + 1, max(1, 2 * sy - 1)})
            gzs = sorted({sz, 2 * sz + 1})
            for gx in gxs:
                for gy in gys:
                    for gz in gzs:
                        if gx * gy * gz <= 12000:
                            out.append(mk((gx, gy, gz), (sx, sy, sz)))
            # rotate: the odd extent in y or z
            out.append(mk((3, sx + max(1, sx // 2), 2), (sy if sy * sx * 2 <= 1024 else 1, sx, 2 if sx * sy * 2 <= 1024 else 1))
                       if sx <= 512 else mk((2, 2, sx + 1), (1, 1, sx)))
    for c in out:
        if prod(c['s']) > 1024:
            c['s'] = [c['s'][0], 1, 1]
    return out


def rand_size(rng):
    while True:
        k = rng.random()
        if k < 0.3:
            s = (rng.randint(1, 1024), 1, 1)
        elif k < 0.6:
            sx = rng.choice([rng.randint(1, 128), rng.choice([3, 5, 7, 10, 24, 48, 63, 65, 96, 100, 127, 129])])
            s = (sx, rng.randint(1, max(1, 1024 // sx)), 1)
        else:
            sx = rng.randint(1, 40)
            sy = rng.randint(1, max(1, min(40, 1024 // sx)))
            s = (sx, sy, rng.randint(1, max(1, min(20, 1024 // (sx * sy)))))
        s = tuple(rng.sample(s, 3)) if rng.random() < 0.3 else s
        if prod(s) <= 1024:
            return s


def rand_case(rng, max_items):
    s = rand_size(rng)
    for _ in range(50):
        g = tuple(max(1, int(s[i] * rng.choice([0.4, 1, 1, 1.3, 1.5, 2, 2.7, 3.2, 5])) + rng.choice([-1, 0, 0, 1]))
                  for i in range(3))
        if prod(g) <= max_items:
            break
    else:
        g = s
    c = mk(g, s)
    if rng.random() < 0.5:
        n = rng.randint(1, 4)
        c['cus'] = [rng.choice([1, 2, 3, 4, 8, 36, 64, 104]) for _ in range(n)]
    k = rng.random()
    if k < 0.25:
        c['mode'] = 'parts'
        c['parts'] = rng.randint(1, 6)
    elif k < 0.4:
        c['mode'] = 'ops'
        total = prod(nwg(g, s))
        ops = []
        if rng.random() < 0.7:
            ops.append({'a': 'Skip', 'n': rng.randint(0, total + 1)})
        ops += [{'a': 'NextWG'}] * rng.randint(1, min(total, 12) + 2)
        c['ops'] = ops
    return c


def e2e_cases(rng, thorough):
    """Kernels (s_endpgm) launched on whole platforms built by the public builders."""
    def e(g, s, plat, gpus, ver, flags=FLAGS_IDS | 4):
        return mk(g, s, mode='e2e', plat=plat, gpus=gpus, ver=ver, en=2, flags=flags)
    out = [e((150, 2, 1), (100, 2, 1), 'emu', 1, 3), e((200, 3, 2), (64, 2, 1), 'emu', 2, 5),
           e((164, 2, 1), (100, 2, 1), 'r9nano', 1, 3),
           e((70, 9, 2), (3, 5, 7), 'emu', 3, 5, FLAGS_IDS | 1 | 2 | 4 | 8 | 16 | 32),
           e((200, 3, 1), (48, 2, 1), 'r9nano', 1, 3), e((130, 3, 1), (64, 2, 1), 'mi300a', 1, 5),
           e((1000, 1, 1), (64, 1, 1), 'mi300a', 2, 5), e((333, 2, 2), (100, 1, 2), 'r9nano', 2, 3, FLAGS_IDS | 4 | 2)]
    for _ in range(60 if thorough else 5):
        sz = rand_size(rng)
        for _ in range(50):
            g = tuple(max(1, int(sz[i] * rng.choice([0.6, 1, 1.4, 2.5, 3.3])) + rng.choice([-1, 0, 1])) for i in range(3))
            if prod(g) <= (12000 if thorough else 4000):
                break
        else:
            g = sz
        plat = rng.choice(['emu', 'emu', 'r9nano', 'mi300a'])
        ver = {'emu': rng.choice([2, 3, 5]), 'r9nano': 3, 'mi300a': 5}[plat]
        out.append(e(g, sz, plat, rng.randint(1, 4 if plat == 'emu' else 2), ver, rng.choice(FLAG_CHOICES)))
    return out


def cases_from_behaviours(behs):
    out = []
    for b in behs:
        st0 = b[0]
        ops = []
        for st in b[1:]:
            a = st.get('act')
            if isinstance(a, dict) and a.get('a') == 'Skip':
                ops.append({'a': 'Skip', 'n': a['n']})
            elif isinstance(a, dict) and a.get('a') == 'NextWG':
                ops.append({'a': 'NextWG'})
        if not ops:
            continue
        skipped = any(o['a'] == 'Skip' and o['n'] > 0 for o in ops)
        gpu = b[-1]['gpu']
        c = mk(st0['geo']['g'], st0['geo']['s'], mode='ops', ops=ops, done=bool(b[-1]['done']) and not skipped,
               cus=list(b[-1]['cus']) if gpu else [], gpu=gpu)
        out.append(c)
    return out


def nontrivial(c):
    g, s = c['g'], c['s']
    partial = any(g[i] % s[i] for i in range(3))
    npow2 = any(x & (x - 1) for x in s)
    dims = sum(1 for i in range(3) if g[i] > 1)
    return partial or npow2 or bool(c['cus']) or dims > 1 or c.get('gpus', 0) > 1


def key(c):
    return json.dumps([c['g'], c['s'], c['cus'], c['gpu'], c['mode'], c['parts'], c['ops'], c['regs'], c['ver'], c['en'],
                       c['flags'], c.get('plat'), c.get('gpus')])


# ------------------------------------------------------------------ running and judging
def run_cases(ctx, drv, cases, name):
    for i, c in enumerate(cases):
        c['wid'] = i
    sfile = os.path.join(ctx.scratch, name + '.json')
    json.dump(cases, open(sfile, 'w'))
    t = os.path.join(ctx.scratch, name + '.ndjson')
    p, stats = common.run_driver(ctx, drv, ['-scen', sfile, '-out', t])
    if stats is None:
        raise vlib.Infra('driver failed: ' + p.stdout[-2000:])
    return t, stats


def case_of_line(trace_path, lineno):
    """(case dict, sub-trace) of the case whose records contain 1-based line lineno."""
    start, recs = vlib.trace_containing(trace_path, lineno)
    return recs[0].get('c'), recs, lineno - start


def judge(ctx, trace, cases, label):
    """Validate a trace.  Accepted: every printed deviation becomes a known finding or a violation.
    Rejected: triage (violation with the failing case as replay)."""
    v = ctx.validate_trace(TSPEC['dirs'], TSPEC['module'], TSPEC['cfg'], trace, timeout=TSPEC['timeout'])
    if not v['accepted']:
        common.validate_and_triage(ctx, TSPEC, trace, {'cmd': 'c08', 'label': label})
        return 0
    devs = sorted({(int(m.group(1)), m.group(2)) for m in
                   re.finditer(r'<<"DEVIATION", (\d+), "(\w+)">>', v['res'].out)})
    parts = vlib.split_traces(trace)
    ctx.cov['traces_validated_against_impl'] += len(parts)
    starts = [st for st, _ in parts]
    reported = set()
    for line, name in devs:
        start, recs = parts[bisect.bisect_right(starts, line) - 1]
        ev = recs[line - start]
        c = recs[0].get('c') or {}
        where = ev.get('mode') or ev.get('plat') or 'GridBuilder'
        if c.get('mode') == 'e2e':
            where = 'emu' if c.get('plat') == 'emu' else 'timing'
        sig = {'kind': 'deviation', 'deviation': name, 'event': ev.get('e'), 'where': where}
        k = (name, where, ev.get('e'), json.dumps(c.get('g')), json.dumps(c.get('s')))
        if k in reported:
            continue
        reported.add(k)
        what = '%s: %s; grid %s work-group size %s, work-group %s (current size %s) [%s]' % (
            ctx.pid, DEV_WHAT.get(name, name), c.get('g'), c.get('s'), ev.get('id'), ev.get('cs'),
            where + ('/' + c.get('plat') if c.get('mode') == 'e2e' else ''))
        new = ctx.report_failure(what, sig, {'driver': {'cmd': 'c08', 'label': label}, 'trace': recs,
                                             'failing_index': line - start + 1, 'deviation': name})
        if new:
            break      # one VIOLATION line per trace is enough
    ctx.cov['deviation_events'] = ctx.cov.get('deviation_events', 0) + len(devs)
    return len(devs)


def corruptions():
    def pick(recs, rng, pred):
        idx = [i for i, r in enumerate(recs) if pred(r)]
        return rng.choice(idx) if idx else None

    def drop_wg(recs, rng):
        if not any(r['e'] == 'GroupEnd' for r in recs):
            return None
        i = pick(recs, rng, lambda r: r['e'] == 'WG')
        if i is None:
            return None
        # also drop the register dumps that follow it
        j = i + 1
        while j < len(recs) and recs[j]['e'] == 'Regs':
            j += 1
        return recs[:i] + recs[j:]

    def dup_wg(recs, rng):
        i = pick(recs, rng, lambda r: r['e'] == 'WG')
        if i is None:
            return None
        return recs[:i + 1] + [dict(recs[i])] + recs[i + 1:]

    def flip_mask(recs, rng):
        i = pick(recs, rng, lambda r: r['e'] == 'WG' and r['wfs'])
        if i is None:
            return None
        w = rng.choice(recs[i]['wfs'])
        w['mask'][3] ^= 1 << rng.randint(0, 15)
        return recs

    def wrong_announce(recs, rng):
        i = pick(recs, rng, lambda r: r['e'] == 'Builder')
        if i is None:
            return None
        recs[i]['numWG'] += 1
        return recs

    def wrong_size(recs, rng):
        i = pick(recs, rng, lambda r: r['e'] == 'WG')
        if i is None:
            return None
        recs[i]['cs'][rng.randint(0, 2)] += 1
        return recs

    def wrong_first(recs, rng):
        i = pick(recs, rng, lambda r: r['e'] == 'WG' and r['wfs'])
        if i is None:
            return None
        rng.choice(recs[i]['wfs'])['first'] += 1
        return recs

    def wrong_reg(recs, rng):
        i = pick(recs, rng, lambda r: r['e'] == 'Regs' and r['wfs'])
        if i is None:
            return None
        w = rng.choice(recs[i]['wfs'])
        lanes = [b for b in range(64) if (w['exec'][3 - b // 16] >> (b % 16)) & 1]
        if not lanes:
            return None
        w['v0'][rng.choice(lanes)] += 1
        return recs

    def wrong_wgid_sgpr(recs, rng):
        i = pick(recs, rng, lambda r: r['e'] == 'Regs' and r['wfs'] and r['flags']['ix'] == 1)
        if i is None:
            return None
        fl = recs[i]['flags']
        b = 4 * fl['psb'] + 2 * fl['dptr'] + 2 * fl['kptr'] + fl['cx'] + fl['cy'] + fl['cz']
        rng.choice(recs[i]['wfs'])['sregs'][b] += 1
        return recs

    def split_overlap(recs, rng):
        i = pick(recs, rng, lambda r: r['e'] == 'Split' and len(r['accs']) > 1 and r['accs'][0])
        if i is None:
            return None
        recs[i]['accs'][1] = [recs[i]['accs'][0][-1]] + recs[i]['accs'][1]
        return recs

    def e2e_drop_wavefront(recs, rng):
        i = pick(recs, rng, lambda r: r['e'] == 'WfRun')
        if i is None:
            return None
        return recs[:i] + recs[i + 1:]

    def e2e_dup_wavefront(recs, rng):
        i = pick(recs, rng, lambda r: r['e'] == 'WfRun')
        if i is None:
            return None
        return recs[:i + 1] + [dict(recs[i])] + recs[i + 1:]

    def e2e_wrong_wgid(recs, rng):
        i = pick(recs, rng, lambda r: r['e'] == 'WfRun')
        if i is None:
            return None
        recs[i]['sregs'][2] += 1      # flags of the self-test case: kernarg ptr (2 SGPRs), then the ids
        return recs

    return [('e2e_drop_wavefront', e2e_drop_wavefront), ('e2e_duplicate_wavefront', e2e_dup_wavefront),
            ('e2e_wrong_wg_id_register', e2e_wrong_wgid), ('drop_work_group', drop_wg), ('duplicate_work_group', dup_wg), ('flip_exec_mask_bit', flip_mask),
            ('announce_one_more', wrong_announce), ('wrong_partial_size', wrong_size),
            ('shift_first_flat_id', wrong_first), ('corrupt_lane_id_register', wrong_reg),
            ('corrupt_wg_id_sgpr', wrong_wgid_sgpr), ('overlapping_gpu_ranges', split_overlap)]


def binding_selftest(ctx, trace, cases, corr, label):
    """Binding self-test on a trace of the real code.  It needs a trace the specification accepts: if the real
    code is broken on the self-test cases themselves, that is a finding (reported through judge), not a
    vacuous specification, and the self-test is skipped."""
    v = ctx.validate_trace(TSPEC['dirs'], TSPEC['module'], TSPEC['cfg'], trace, timeout=TSPEC['timeout'])
    if not v['accepted']:
        judge(ctx, trace, cases, label)
        ctx.notes.append('binding self-test (%s) skipped: the real code\'s own trace was rejected' % label)
        return []
    before = ctx.cov.get('binding_selftest')
    common.selftest_binding(ctx, TSPEC, trace, corr)
    res = ctx.cov['binding_selftest']
    ctx.cov['binding_selftest'] = before
    return res


def build_cases(ctx, thorough):
    rng = random.Random(ctx.seed)
    cases = []
    # the confirmed defect's geometry and relatives, with register dumps in both modes
    cases.append(mk((150, 2, 1), (100, 2, 1), regs=['emu', 'timing']))
    cases.append(mk((164, 2, 1), (100, 2, 1), regs=['emu', 'timing']))
    cases.append(mk((70, 3, 2), (3, 5, 7), regs=['emu', 'timing'], ver=5))
    # 3-D, z (and y) extents that are not multiples of the work-group size: plain, split and partitioned
    cases.append(mk((5, 3, 7), (2, 2, 3)))
    cases.append(mk((5, 3, 7), (2, 2, 3), cus=[2, 1]))
    cases.append(mk((5, 3, 7), (2, 2, 3), mode='parts', parts=3))
    cases.append(mk((4, 5, 7), (4, 2, 2), mode='parts', parts=5, cus=[1, 3], gpu=2))
    cases.append(mk((130, 1, 1), (64, 1, 1), regs=['emu', 'timing'], cus=[2, 1], ver=2))
    se = small_enum()
    be = boundary_enum()
    rng.shuffle(se)
    rng.shuffle(be)
    n_se, n_be, n_r, max_items = (len(se), len(be), 1500, 20000) if thorough else (110, 70, 70, 5000)
    budget = 2000000 if thorough else 200000
    pool = se[:n_se] + be[:n_be] + [rand_case(rng, max_items) for _ in range(n_r)]
    for i, c in enumerate(pool):
        k = rng.random()
        if not c['cus'] and c['mode'] == 'full' and k < 0.25:
            c['cus'] = [rng.choice([1, 2, 3, 4, 8, 64]) for _ in range(rng.randint(1, 4))]
        elif c['mode'] == 'full' and not c['cus'] and k < 0.4:
            c['mode'] = 'parts'
            c['parts'] = rng.randint(2, 5)
        if rng.random() < (0.35 if thorough else 0.3):
            with_regs(c, rng, nwgs=rng.randint(1, 3))
    used = 0
    for c in pool:
        cost = items_of(c) * (1 + len(c['cus']) * 0 + (1 if c['regs'] else 0))
        if used + cost > budget:
            continue
        used += cost
        cases.append(c)
    return cases


def run(ctx, selftest=False):
    thorough = ctx.tier == 'thorough'
    drv = ctx.go_build('c08')

    # 1. design level: exhaustive model checking on W = 4
    r = ctx.tlc_expect_ok(['grid'], 'MC_Grid.tla', 'MC_Grid.cfg', timeout=900)
    ctx.log('MC_Grid (W=4, grids<=3^3, WG product<=10, 1-4 GPU filters, Skip 0..2): %d distinct states, depth %d' % (
        r.distinct, r.depth))
    r = ctx.tlc_expect_ok(['grid'], 'MC_Grid.tla', 'MC_Grid_cov.cfg', coverage=True, timeout=600)
    zeros = r.coverage_zero()
    ctx.cov['coverage_zero_actions'] = zeros
    if zeros:
        raise vlib.Infra('vacuous model: actions never taken: %s' % zeros)
    # the as-implemented wavefront formation must break LanesOK in the model (the model can tell the difference)
    r = ctx.tlc(['grid'], 'MC_Grid.tla', 'MC_Grid_asimpl.cfg', timeout=600, kind='mc_deviation')
    if 'LanesOK' not in r.violated:
        raise vlib.Infra('model with Deviations={WfStartNeedsPresentMultiple} did not violate LanesOK:\n' + r.out[-1500:])
    ctx.cov['as_implemented_model_violates'] = 'LanesOK'
    if thorough:
        r = ctx.tlc_expect_ok(['grid'], 'MC_Grid.tla', 'MC_Grid_big.cfg', workers=vlib.NCPU, timeout=3000)
        ctx.log('MC_Grid_big (grids<=4^3, WG product<=12, PartitionsOK): %d distinct states' % r.distinct)
        ctx.cov['exhaustive'] = True

    # 2. spec -> code: behaviours of the builder machine (W = 64) as call sequences
    behs, _ = ctx.simulate(['grid'], 'GridScen.tla', 'GridScen.cfg', num=300 if thorough else 50, depth=30,
                           timeout=1200)
    scen = cases_from_behaviours(behs)
    if not scen:
        raise vlib.Infra('no scenario from GridScen')
    t1, st1 = run_cases(ctx, drv, scen, 'scen')
    ctx.log('replayed %d TLC behaviours on the real GridBuilder: %s' % (len(scen), st1))
    ctx.sample({'scenario_from_TLC_behaviour': {k: scen[0][k] for k in ('g', 's', 'cus', 'gpu', 'ops')}})
    judge(ctx, t1, scen, 'scen')

    # 3. code -> spec: enumerated, boundary and seeded random geometries
    cases = build_cases(ctx, thorough)
    t2, st2 = run_cases(ctx, drv, cases, 'cases')
    ctx.log('executed %d cases: %s' % (len(cases), st2))
    judge(ctx, t2, cases, 'cases')
    ctx.sample({'case': {k: cases[-1][k] for k in ('g', 's', 'cus', 'mode', 'regs', 'ver')}})

    # 3b. whole platforms: driver -> command processor -> dispatcher -> compute units
    ecases = e2e_cases(random.Random(ctx.seed + 1000), thorough)
    t4, st4 = run_cases(ctx, drv, ecases, 'e2e')
    ctx.log('launched %d kernels on whole platforms (emu / r9nano / mi300a, 1-4 GPUs): %s' % (len(ecases), st4))
    judge(ctx, t4, ecases, 'e2e')
    ctx.sample({'platform_case': {k: ecases[1][k] for k in ('g', 's', 'plat', 'gpus', 'ver')}})
    cases = cases + ecases
    for k in ('events', 'wgs', 'items', 'regwfs'):
        st2[k] += st4[k]

    allc = scen + cases
    distinct = {key(c) for c in allc}
    nt = {key(c) for c in allc if nontrivial(c)}
    ctx.cov.update({'evaluations': len(allc), 'distinct_nontrivial': len(nt), 'distinct_cases': len(distinct),
                    'events_validated': st1['events'] + st2['events'], 'work_groups': st1['wgs'] + st2['wgs'],
                    'work_items': st1['items'] + st2['items'], 'register_dumps_wavefronts': st1['regwfs'] + st2['regwfs'],
                    'split_cases': sum(1 for c in allc if c['cus']), 'platform_runs': len(ecases),
                    'geometry_bounds': 'grid up to %d items, WG product <= 1024, 1-4 GPUs' % max(items_of(c) for c in allc)})

    # 4. binding self-test on the cases that have register dumps and a split
    corr = corruptions()
    if not thorough:
        # quick tier: one corruption per kind of record (all twelve in thorough)
        keep = {'e2e_drop_wavefront', 'e2e_wrong_wg_id_register', 'drop_work_group', 'flip_exec_mask_bit',
                'announce_one_more', 'wrong_partial_size', 'corrupt_lane_id_register', 'overlapping_gpu_ranges'}
        corr = [x for x in corr if x[0] in keep]
    e2e_sel = [json.loads(json.dumps(ecases[1]))]
    t5, _ = run_cases(ctx, drv, e2e_sel, 'selftest_e2e')
    results = binding_selftest(ctx, t5, e2e_sel, [x for x in corr if x[0].startswith('e2e_')], 'selftest_e2e')
    sel = [c for c in cases if c['regs'] and c['mode'] == 'full'][:6] + [c for c in cases if c['cus'] and c['mode'] == 'full'][:4]
    sel = [json.loads(json.dumps(c)) for c in sel] + [mk((10, 5, 3), (4, 2, 2), cus=[2, 1, 1], regs=['emu', 'timing'], regwg=2,
                                                          flags=FLAGS_IDS | 4 | 2)]
    t3, _ = run_cases(ctx, drv, sel, 'selftest')
    results += binding_selftest(ctx, t3, sel, [x for x in corr if not x[0].startswith('e2e_')], 'selftest')
    ctx.cov['binding_selftest'] = results
    ctx.assumptions += [
        'hardware rule modelled as in both compute units: lane l of a wavefront holds flat id FirstWiFlatID+l, flattened '
        'with the full work-group size; V5 code objects read packed ids (x | y<<10 | z<<20) from v0',
        'the emulation CU is observed at its instruction hook on the first instruction (s_endpgm), the timing CU after '
        'the tick that handles the MapWGReq; a tap around cu.WfDispatcher only records which wavefronts were dispatched',
        'multi-GPU filters are the closures the real driver.Driver attaches to LaunchKernelReq for a unified device whose '
        'GPUs are bare ports',
        'register values >= 2^31 are logged as -1 (TLC integers are 32-bit)']


def replay(ctx, path):
    rp = json.load(open(path))['replay']
    drv = ctx.go_build('c08')
    c = rp['trace'][0].get('c')
    if not c:
        raise vlib.Infra('replay file carries no case')
    t, _ = run_cases(ctx, drv, [c], 'replay')
    before = len(ctx.violations)
    judge(ctx, t, [c], 'replay')
    return 1 if len(ctx.violations) > before else 0
