"""C02 — timing mode is functionally transparent (same results as emulation).

spec/system/Config.tla (scope "all")  which programs (workload, size tuple, architecture) exist and on which timing
                                      platforms they can run; TLC exports the program list and seeded samples
harness/cmd/sysrun                    runs a program in emulation and on timing platforms r9nano / mi300a x knob sets
                                      (CUs per shader array, shader arrays, L2 size, L2/DRAM banks, bank interleaving,
                                      frequency, L2 latency - the knobs the public GPU builders expose) and reports
                                      (a) every live device buffer read back through Driver.MemCopyD2H,
                                      (b) per-wavefront executed (pc, opcode) sequence digests keyed by (kernel launch,
                                          work-group id, first work-item id), (c) issued / retired instruction counts
spec/system/SysTrace.tla              every compared timing run's system trace must also be a behaviour of the system
                                      rules (work-groups exactly once, flush before device-to-host copy, ...)

Oracle: equality between the two modes (differential), level `exploration`.
"""
import json
import os
import shutil

import c01
import common
import vlib

try:                      # component part: the timing CU's vector memory path (spec/vmem)
    import c02vmem
except ImportError:
    c02vmem = None
try:                      # component part: the timing CU's scalar memory path and LDS path (spec/cumem)
    import c02cumem
except ImportError:
    c02cumem = None

LEVEL = 'exploration'
RULE = ('case = one program (shipped workload, size tuple, architecture) run once in emulation and once on a timing platform '
        '(GPU model x knob set); the pair is compared on every live device buffer, on the per-wavefront executed (pc, opcode) '
        'sequences of every kernel launch and on issued/retired instruction counts; distinct = distinct (program, platform, '
        'knob set) triples; non-trivial = both runs executed at least one kernel and at least one wavefront was compared')

# knob sets of the public GPU builders; "" = stock platform built by the repository runner
KNOBS = {
    'r9nano': ['', 'cus=1,sas=1', 'cus=2,sas=2,l2=262144,banks=4', 'cus=4,sas=4,banks=8,bankil=8', 'cus=3,sas=5,l2=1048576,banks=2,freq=800',
               'cus=1,sas=2,l2=65536,banks=1'],
    'mi300a': ['', 'cus=1,sas=1', 'cus=2,sas=3,l2=1048576,banks=4,l2lat=3', 'cus=4,sas=2,banks=8,freq=1000'],
}
SINGLE_CU = 'cus=1,sas=1'
# host-concurrent workloads have no reproducible command order; xor is ~2000 kernel launches with a device-to-host copy and a
# CPU re-computation after each (15 CPU-minutes per timing run)
SKIP = c01.HOST_CONCURRENT | {'xor'}
# not race-free between work-groups of one kernel (benign, confluent races on the frontier flags): the executed paths may
# legitimately depend on timing, only the final memory is compared
RACY = {'bfs'}


def emu_class(arch):
    return {'mode': 'emu', 'gpu': 'none', 'arch': arch, 'n': 1, 'dist': 'plain', 'umem': 0}


def timing_class(arch):
    return {'mode': 'timing', 'gpu': 'mi300a' if arch == 'cdna3' else 'r9nano', 'arch': arch, 'n': 1, 'dist': 'plain', 'umem': 0}


def prog_key(c):
    return '%s[%s]/%s' % (c['w'], ','.join(str(x) for x in c['p']), c['c']['arch'])


def programs(ctx, thorough):
    """Single-GPU programs: every workload x size class x architecture that has a timing platform (TLC, scope all)."""
    sets = c01.cover_sets(ctx, 'all', ctx.seed)
    progs = {}
    for c in sets['full']:
        k = c['c']
        if k['mode'] != 'timing' or k['n'] != 1 or k['umem'] != 0 or c['w'] in SKIP:
            continue
        progs[prog_key(c)] = c
    out = sorted(progs.values(), key=prog_key)
    # local-memory kernels on reduced platforms where several work-groups share one compute unit (Config.LocalMemWorkloads /
    # SharedCUPlatforms): in timing mode co-resident work-groups must not see each other's LDS
    shared = [c for c in sets['sharedcu_all' if thorough else 'sharedcu_quick'] if c['w'] not in SKIP]
    sampled = [c for c in c01.sampled_cases(ctx, 'all', 120 if thorough else 24)
               if c['c']['mode'] == 'timing' and c['w'] not in SKIP]
    for c in sampled:
        c['c'] = timing_class(c['c']['arch'])
    return out, sampled, shared


def extras(tag):
    return ['-trace-insts', '-insts-out', 'insts.json', '-sys-trace', 'sys.ndjson']


def compare(e, t):
    """Observables that differ between the emulation run e and the timing run t (both result dicts with obs)."""
    eo, to = e['obs'], t['obs']
    d = {}
    eb = {(b['pid'], b['vaddr'], b['size']): b.get('sha') for b in eo['buffers']}
    tb = {(b['pid'], b['vaddr'], b['size']): b.get('sha') for b in to['buffers']}
    if set(eb) != set(tb):
        d['buffer_layout'] = sorted(set(eb) ^ set(tb))[:4]
    else:
        bad = sorted(k for k in eb if eb[k] != tb[k])
        if bad:
            d['buffers'] = bad
    eh = {h['name']: (h['len'], h['digest']) for h in eo['host_arrays']}
    th = {h['name']: (h['len'], h['digest']) for h in to['host_arrays']}
    badh = sorted(k for k in eh if k in th and eh[k] != th[k])
    if badh:
        d['host_arrays'] = badh
    ei, ti = eo['insts'], to['insts']
    el, tl = ei['launches'] or [], ti['launches'] or []
    racy = e['case']['w'] in RACY
    if len(el) != len(tl):
        d['launch_count'] = (len(el), len(tl))
    elif not racy:
        badl = [a['ordinal'] for a, b in zip(el, tl) if a['digest'] != b['digest'] or a['wavefronts'] != b['wavefronts']]
        if badl:
            d['inst_sequences'] = badl
    if ei['issued'] != ti['issued'] and not racy:
        d['issued'] = (ei['issued'], ti['issued'])
    if ti['issued'] != ti['retired']:
        d['retired'] = (ti['issued'], ti['retired'])
    return d


def first_bad_wavefront(e, t, ordinal):
    """Key of the first wavefront of launch `ordinal` whose sequence differs (from the per-wavefront side files)."""
    try:
        ej = json.load(open(os.path.join(e['dir'], 'insts.json')))[str(ordinal)]
        tj = json.load(open(os.path.join(t['dir'], 'insts.json')))[str(ordinal)]
    except (OSError, KeyError, ValueError):
        return None, None
    for k in sorted(set(ej['wfs']) | set(tj['wfs'])):
        if ej['wfs'].get(k) != tj['wfs'].get(k):
            oc = sorted(o for o in set(ej['opcounts']) | set(tj['opcounts']) if ej['opcounts'].get(o) != tj['opcounts'].get(o))
            return k, oc
    return None, None


def localise(ctx, drv, e, t, ordinal, idx):
    """Opcode at which the executed sequences of the first differing wavefront part."""
    k, oc = first_bad_wavefront(e, t, ordinal)
    if k is None:
        return {'wavefront': None}
    key = '%d:%s' % (ordinal, k)
    de = c01.run_case(ctx, drv, 'dump_e%d' % idx, e['case'], ['-dump-wf', key], verify=False)
    dt = c01.run_case(ctx, drv, 'dump_t%d' % idx, t['case'], ['-dump-wf', key] + t.get('knob_args', []), verify=False)
    a = (de['obs'] or {}).get('dump_wf') or []
    b = (dt['obs'] or {}).get('dump_wf') or []
    i = 0
    while i < len(a) and i < len(b) and a[i] == b[i]:
        i += 1
    at = {'wavefront': key, 'index': i, 'emu': a[i] if i < len(a) else None, 'timing': b[i] if i < len(b) else None,
          'before': a[i - 1] if 0 < i <= len(a) else None, 'opcodes_with_different_counts': oc}
    for r in (de, dt):
        shutil.rmtree(r['dir'], ignore_errors=True)
    return at


def run_pairs(ctx, drv, progs, thorough, tag):
    """Emulation run of every program + timing runs (stock and rotating knob sets); returns (emu results, timing results)."""
    emu_cases, t_cases = [], []
    for i, c in enumerate(progs):
        arch = c['c']['arch']
        ec = dict(c, c=emu_class(arch), knobs='')
        emu_cases.append(ec)
        gpu = timing_class(arch)['gpu']
        ks = KNOBS[gpu]
        if c.get('shared_cu'):
            chosen = [c['knobs']]
        elif thorough:
            # stock + two knob sets in rotation for the size classes (every knob set meets every workload through its
            # size classes), one knob set for a sampled program
            rot = [ks[1 + (i + ctx.seed + j) % (len(ks) - 1)] for j in (0, 1)]
            chosen = [''] + sorted(set(rot)) if not c.get('sampled') else [ks[(i + ctx.seed) % len(ks)]]
        else:
            # stock platform for every program; one more knob set in rotation
            chosen = [''] if c.get('sampled') or (i + ctx.seed) % 3 else ['', ks[1 + (i + ctx.seed) % (len(ks) - 1)]]
        for k in chosen:
            t_cases.append(dict(c, c=timing_class(arch), knobs=k, prog=i))
    ctx.log('%s: %d programs, %d emulation + %d timing runs' % (tag, len(progs), len(emu_cases), len(t_cases)))
    eres = c01.run_many(ctx, drv, emu_cases, extra=extras('e'), verify=False, tag=tag + 'e', keep=('sys.ndjson', 'insts.json'))

    def run_t(ic):
        i, c = ic
        r = c01.run_case(ctx, drv, '%st%d' % (tag, i), c, extras('t'), verify=False, keep=('sys.ndjson', 'insts.json'))
        r['knob_args'] = []
        return r

    from concurrent.futures import ThreadPoolExecutor
    with ThreadPoolExecutor(max_workers=c01.PARALLEL) as ex:
        tres = list(ex.map(run_t, enumerate(t_cases)))
    return eres, tres


def signature(ctx, drv, e, t, d, idx):
    c = t['case']
    dims = '2d+' if any(l['wg'][1] > 1 or l['wg'][2] > 1 for l in (e['obs']['insts']['launches'] or [])) else '1d'
    sig = {'bench': c['w'], 'platform': c['c']['gpu'], 'arch': c['c']['arch'], 'workgroup_dims': dims}
    detail = {}
    memdiff = lambda x: 'buffers' in x or 'host_arrays' in x or 'buffer_layout' in x or 'inst_sequences' in x or 'issued' in x
    if c.get('knobs') != SINGLE_CU:
        one = c01.run_case(ctx, drv, 'onecu%d' % idx, dict(c, knobs=SINGLE_CU), extras('t'), verify=False)
        if one['obs'] and 'insts' in one['obs']:
            sig['single_cu_platform'] = 'differs' if memdiff(compare(e, one)) else 'agrees'
        else:
            sig['single_cu_platform'] = 'fails'
        shutil.rmtree(one['dir'], ignore_errors=True)
    else:
        sig['single_cu_platform'] = 'differs'
    sig['kernel_launches'] = 'several' if len(e['obs']['insts']['launches'] or []) > 1 else 'one'
    if 'inst_sequences' in d or 'launch_count' in d or 'issued' in d:
        sig['kind'] = 'executed_instructions_differ'
        if 'inst_sequences' in d:
            detail = localise(ctx, drv, e, t, d['inst_sequences'][0], idx)
            op = (detail.get('emu') or detail.get('timing') or {}).get('name')
            sig['opcode'] = op
            prev = detail.get('before')
            sig['after_opcode'] = prev.get('name') if prev else None
    elif 'retired' in d:
        sig['kind'] = 'issued_instruction_never_retired'
    elif 'buffers' in d or 'buffer_layout' in d or 'host_arrays' in d:
        sig['kind'] = 'memory_differs_with_identical_instruction_sequences'
        sig['kernel_launches'] = 'several' if len(e['obs']['insts']['launches'] or []) > 1 else 'one'
    return sig, detail


def run(ctx, selftest=False):
    thorough = ctx.tier == 'thorough'
    if c02vmem is not None:
        c02vmem.run_component(ctx)
    if c02cumem is not None:
        c02cumem.run_component(ctx)
    drv = ctx.go_build('sysrun')
    progs, sampled, shared = programs(ctx, thorough)
    if not thorough:
        # quick: one size class per (workload, architecture) in rotation + the samples
        byw = {}
        for c in progs:
            byw.setdefault((c['w'], c['c']['arch']), []).append(c)
        progs = [v[(ctx.seed + i) % len(v)] for i, (k, v) in enumerate(sorted(byw.items()))]
        # all gcn3 programs, a rotating third of the cdna3 ones
        progs = [c for i, c in enumerate(progs) if c['c']['arch'] == 'gcn3' or (i + ctx.seed) % 3 == 0]
    progs = progs + sampled + shared
    eres, tres = run_pairs(ctx, drv, progs, thorough, 'p')

    # the knob platforms are assembled in the harness (platform.go mirrors timingconfig.Builder.Build): with no effective knob
    # the assembled platform must reproduce the stock platform's simulated times exactly, otherwise the mirror has drifted
    for gpu in (['r9nano', 'mi300a'] if thorough else ['r9nano']):
        stock = next((t for t in tres if t['case']['c']['gpu'] == gpu and not t['case']['knobs'] and t['obs']
                      and t['obs'].get('commands') and not t['obs'].get('hang') and not t['obs'].get('run_panic')), None)
        if stock is None:
            continue
        twin = c01.run_case(ctx, drv, 'twin_' + gpu, dict(stock['case'], knobs='freq=0'), extras('t'), verify=False)
        a, b = stock['obs'], twin['obs'] or {}
        if a.get('run_end_ps') != b.get('run_end_ps') or a.get('commands') != b.get('commands'):
            raise vlib.Infra('harness platform (platform.go) no longer equals the stock %s platform: end %s vs %s' % (
                gpu, a.get('run_end_ps'), b.get('run_end_ps')))
        ctx.cov.setdefault('harness_platform_equals_stock', {})[gpu] = a.get('run_end_ps')
        shutil.rmtree(twin['dir'], ignore_errors=True)

    compared, nontrivial, diffs = 0, set(), 0
    trace_pool = []
    for idx, t in enumerate(tres):
        c = t['case']
        e = eres[c['prog']]
        name = '%s on %s%s' % (prog_key(c), c['c']['gpu'], (' knobs ' + c['knobs']) if c['knobs'] else '')
        fe = c01.classify_quiet(e, verify=False)
        ft = c01.classify_quiet(t, verify=False)
        if fe is not None and fe[0] == 'infra' or ft is not None and ft[0] == 'infra':
            raise vlib.Infra('sysrun failed for %s: %s' % (name, (t['log'] or e['log'])[-5:]))
        if fe is not None:
            # the emulation side fails on its own: C01/C03 territory, nothing to compare
            ctx.notes.append('emulation run of %s failed (%s): pair skipped' % (prog_key(c), fe[0]))
            continue
        if ft is not None:
            # the program runs in emulation and does not run to completion on the timing platform
            kind, detail = ft
            again = c01.run_case(ctx, drv, 'tconfirm%d' % idx, c, extras('t') + t['knob_args'], verify=False)
            f2 = c01.classify_quiet(again, verify=False)
            if f2 is None or f2[0] != kind:
                raise vlib.Infra('timing failure not reproduced: %s %s' % (name, kind))
            sig = {'kind': 'timing_run_' + kind, 'bench': c['w'], 'platform': c['c']['gpu'], 'arch': c['c']['arch'], 'detail': c01.norm_msg(detail)}
            if kind == 'crash':
                sig['where'] = c01.panic_site(again['log'])
            if kind == 'hang':
                sig['cause'] = c01.hang_cause(c01.read_trace(again))
            ctx.report_failure('C02: %s: runs in emulation but %s in timing mode: %s' % (name, kind, detail[:300]), sig,
                               {'case': c, 'knobs': c['knobs'], 'kind': kind, 'detail': detail})
            shutil.rmtree(again['dir'], ignore_errors=True)
            diffs += 1
            continue
        compared += 1
        if e['obs']['insts']['launches'] and t['obs']['insts']['launches']:
            nontrivial.add((prog_key(c), c['c']['gpu'], c['knobs']))
        trace_pool.append(t)
        d = compare(e, t)
        if not d:
            continue
        diffs += 1
        sig, detail = signature(ctx, drv, e, t, d, idx)
        what = 'C02: %s: timing differs from emulation in %s %s' % (name, sorted(d), json.dumps(detail)[:300])
        ctx.report_failure(what, sig, {'case': c, 'knobs': c['knobs'], 'differences': d, 'where': detail})
    ctx.log('%d pairs compared, %d differing or failing' % (compared, diffs))

    # the compared timing runs must also obey the system rules
    trace_pool.sort(key=lambda r: (r['case'].get('knobs', '') == '', c01.case_key(r['case'])))
    path, n, chosen = c01.validate_sys_traces(ctx, trace_pool, 60000 if thorough else 10000, 300 if thorough else 30, 'c02')
    common.selftest_binding(ctx, c01.TSPEC, path, c01.corruptions())

    ok = next((t for t in tres if t['obs'] and t['obs'].get('insts', {}).get('launches')), None)
    if ok:
        ctx.sample({'program': prog_key(ok['case']), 'platform': ok['case']['c']['gpu'], 'knobs': ok['case']['knobs'],
                    'launches': ok['obs']['insts']['launches'][:2], 'issued': ok['obs']['insts']['issued'],
                    'retired': ok['obs']['insts']['retired'], 'buffers': len(ok['obs']['buffers'])})
    wf = sum(l['wavefronts'] for t in tres if t['obs'] and 'insts' in t['obs'] for l in (t['obs']['insts']['launches'] or []))
    ins = sum(t['obs']['insts']['issued'] for t in tres if t['obs'] and 'insts' in t['obs'])
    ctx.cov.update({'evaluations': len(tres) + len(eres), 'distinct_nontrivial': len(nontrivial), 'pairs_compared': compared,
                    'wavefronts_compared': wf, 'instructions_compared': ins, 'programs': len(progs),
                    'knob_sets': KNOBS})
    ctx.assumptions += [
        'system part: differential oracle (emulation = reference) over shipped kernels; instructions no shipped kernel uses '
        '(flat_load_ushort/sbyte, s_load_dwordx16, most LDS forms) are exercised by the component parts vmem / cumem with hand-encoded kernels',
        'knobs not reachable through the public GPU builders are not varied: register scoreboard, wavefront pool size, VGPR count, '
        'vector memory pipeline shape, L1 sizes (shaderarray.Builder options that r9nano/mi300a builders do not forward)',
        'final memory = every live buffer of the context read back with Driver.MemCopyD2H after the run (flushes the caches) '
        'and cross-checked against the global storage',
        'GODEBUG=randseednop=0 and lazy host schedule: both modes get identical inputs and command order',
        'timing "inst" tasks are counted at issue (StartTask) and retirement (EndTask); emulation hook fires once per executed instruction']
    for r in eres + tres:
        shutil.rmtree(r['dir'], ignore_errors=True)


def replay(ctx, path):
    rp = json.load(open(path))['replay']
    if c02vmem is not None and isinstance(rp.get('driver'), dict) and rp['driver'].get('cmd') == 'c02vmem':
        return c02vmem.replay_component(ctx, path)
    if c02cumem is not None and isinstance(rp.get('driver'), dict) and rp['driver'].get('cmd') == 'c02cumem':
        return c02cumem.replay_component(ctx, path)
    drv = ctx.go_build('sysrun')
    c = rp['case']
    e = c01.run_case(ctx, drv, 'rp_e', dict(c, c=emu_class(c['c']['arch']), knobs=''), extras('e'), verify=False, keep=('insts.json',))
    t = c01.run_case(ctx, drv, 'rp_t', dict(c, knobs=rp.get('knobs') or c.get('knobs') or ''), extras('t'), verify=False, keep=('insts.json',))
    if c01.classify_quiet(t, verify=False) is not None:
        print('replay: timing run fails:', c01.classify_quiet(t, verify=False))
        return 1
    d = compare(e, t)
    print('replay: differences:', d)
    return 1 if d else 0
