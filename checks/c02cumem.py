"""C02 (component part "cumem") — the timing CU's scalar memory path and LDS path are functionally transparent.

spec/cumem/CUMemISA.tla    ISA meaning of s_load_dword..x16 (cache-line pieces, destination SGPR bytes) and of the LDS
                           instructions the simulator implements (effect on the group's LDS, read-back, EXEC)
spec/cumem/SMem.tla        scalar path as a state machine (Split / Send / MemDo / Handle), model-checked
spec/cumem/LDS.tla         LDS unit pipeline with co-resident work-groups on one physical LDS, model-checked
spec/cumem/CUMemTrace.tla  traces of the real timing CU against CUMemISA
harness/cmd/c02cumem       hand-encoded kernels (harness/c14asm) on the real timing CU under a scripted dispatcher and
                           memory; the real emulation CU is the value reference

run_component(ctx) / replay_component(ctx, path) are called from checks/c02.py; `bin/check C02CUMEM` runs this part alone.
"""
import copy
import json
import os
import random

import common
import vlib

LEVEL = 'model_checking'
RULE = ('cases = scalar loads and LDS instructions (tested ones and the kernels\' own set-up loads / LDS dump) executed by the '
        'real timing CU and judged by CUMemTrace.tla; distinct = distinct (opcode, address / per-lane address vector, EXEC, '
        'destination) tuples; non-trivial = scalar load cut at a cache line or with an SGPR offset, LDS instruction with a '
        'partial EXEC mask, two addresses or several lanes on one byte')
DIRS = ['cumem']
TMOD, TCFG, TTOL = 'CUMemTrace.tla', 'CUMemTrace.cfg', 'CUMemTraceTol.cfg'
LDS_SIZE, DATA_SIZE, KARG_SIZE = 512, 4096, 2048
DS = {'write_b32': (4, False, 1), 'write2_b32': (4, True, 4), 'write_b8': (1, False, 1), 'read_b32': (4, False, 1),
      'read2_b32': (4, True, 4), 'write2_b64': (8, True, 8), 'read_b64': (8, False, 1), 'read2_b64': (8, True, 8)}
FULL = [0xffffffff, 0xffffffff]


# --------------------------------------------------------------------------- scenarios
def gen_stest(rng, op=None):
    op = rng.choice([0, 1, 2, 3]) if op is None else op
    n = 4 << op
    align = 1 if op == 0 else (2 if op == 1 else 4)
    dst = rng.randrange(16, 64 - (n // 4) + 1)
    dst -= dst % align
    base = rng.choice(['data', 'data', 'karg'])
    lo, hi = (0, DATA_SIZE - 64) if base == 'data' else (128, KARG_SIZE - 64)
    k = rng.random()
    if k < 0.4 and n > 4:
        # cut by a cache line
        off = rng.randrange(lo // 64 + 1, hi // 64) * 64 - 4 * rng.randrange(1, n // 4)
    elif k < 0.6:
        off = rng.randrange(lo // 64 + 1, hi // 64) * 64 - n          # ends exactly at a line end
    else:
        off = rng.randrange(lo // 4, hi // 4) * 4
    return {'op': op, 'dst': dst, 'base': base, 'off': off, 'soff': rng.random() < 0.4}


def gen_smem(rng, i, x16=False):
    tests = [gen_stest(rng) for _ in range(rng.randrange(3, 8))]
    if x16:
        tests = [gen_stest(rng, 4) for _ in range(2)]
    return {'name': ('smem_x16_%d' if x16 else 'smem%d') % i, 'kind': 'smem', 'nwf': rng.choice([1, 2, 3]), 'nwg': 1, 'stests': tests,
            'dseed': rng.randrange(1 << 30),
            'mem': {'lat': [5, 40], 'slat': list(rng.choice([(1, 4), (10, 80), (50, 300)])), 'seed': rng.randrange(1 << 30),
                    'perm': rng.random() < 0.5}}


def lds_mask(rng):
    k = rng.random()
    if k < 0.35:
        return FULL
    if k < 0.45:
        return [0, 0]
    if k < 0.7:
        return [rng.getrandbits(32), rng.getrandbits(32)]
    if k < 0.8:
        return [1 << rng.randrange(32), 0]
    return [0xffff0000, 0x0000ffff]


def gen_ltest(rng, nwf, op=None):
    op = rng.choice(sorted(DS)) if op is None else op
    sz, two, scale = DS[op]
    per = LDS_SIZE // nwf            # wavefront w of a group owns [w*per, (w+1)*per): no races between wavefronts
    if two:
        off0, off1 = rng.randrange(0, 6), rng.randrange(0, 6)
        span = max(off0, off1) * scale + sz
    else:
        off16 = rng.choice([0, 0, 4, 8, 17, 64, 100])
        off16 = min(off16, per - 64 * sz if per - 64 * sz > 0 else 0)
        off0, off1 = off16 % 256, off16 // 256
        span = off16 + sz
    room = per - span
    kind = rng.choice(['unit', 'reversed', 'same', 'random', 'misaligned', 'pairs'])
    addr = []
    for g in range(2):
        for w in range(nwf):
            for l in range(64):
                if kind == 'unit' and 64 * sz <= room + sz:
                    a = l * sz
                elif kind == 'reversed' and 64 * sz <= room + sz:
                    a = (63 - l) * sz
                elif kind == 'same':
                    a = (room // 2) - (room // 2) % sz
                elif kind == 'pairs' and 32 * sz <= room + sz:
                    a = (l // 2) * sz
                elif kind == 'misaligned':
                    a = rng.randrange(0, room + 1)
                else:
                    a = rng.randrange(0, room // sz + 1) * sz
                addr.append(w * per + min(a, room))
    return {'op': op, 'addr': addr, 'off0': off0, 'off1': off1, 'mask': lds_mask(rng), 'kind': kind}


def gen_lds(rng, i):
    nwf = rng.choice([1, 1, 2])
    tests = [gen_ltest(rng, nwf) for _ in range(rng.randrange(4, 9))]
    return {'name': 'lds%d' % i, 'kind': 'lds', 'nwf': nwf, 'nwg': 2, 'ltests': tests, 'dseed': rng.randrange(1 << 30),
            'mem': {'lat': list(rng.choice([(5, 40), (50, 200)])), 'slat': [5, 40], 'seed': rng.randrange(1 << 30)}}


# --------------------------------------------------------------------------- triage
def signature(recs, at, why):
    ev = recs[min(at, len(recs)) - 1]
    sig = {'kind': 'trace_rejected', 'violated': ','.join(sorted(why)), 'event': ev.get('e'), 'mode': recs[0].get('mode'),
           'part': 'lds' if recs[0].get('kind') == 'lds' and (ev.get('e', '').startswith('D') or 'LDS' in ','.join(why)) else 'smem'}
    if ev.get('e') == 'Panic':
        sig['msg'] = str(ev.get('msg'))[:60]
        done = {r['id'] for r in recs[:at] if r['e'] in ('SDone', 'DEnd')}
        pend = [r for r in recs[:at] if r['e'] in ('SExec', 'DExec') and r['id'] not in done]
        if pend:
            sig['opc'] = pend[-1]['opc']
            sig['part'] = 'lds' if pend[-1]['e'] == 'DExec' else 'smem'
    elif 'id' in ev:
        ex = next((r for r in recs[:at] if r['e'] in ('SExec', 'DExec') and r['id'] == ev['id']), None)
        if ex is not None:
            sig['opc'] = ex['opc']
    return sig


def tolerant(ctx, tfile, tag):
    v = ctx.validate_trace(DIRS, TMOD, TTOL, tfile, timeout=1200)
    out = v['res'].out
    i = max(out.find('<< "REJECTS"'), out.find('<<"REJECTS"'))
    if not v['accepted'] or i < 0:
        raise vlib.Infra('tolerant trace validation gave no verdict for %s (highwater %s of %s):\n%s' % (tag, v['highwater'], v['n'], out[-1500:]))
    return vlib.tlaval.parse_value(out[i:out.find('<<"HIGHWATER"', i)])[1]


def validate(ctx, tfile, scen, tag):
    parts = vlib.split_traces(tfile)
    rej = tolerant(ctx, tfile, tag)
    bad, new_here = set(), 0
    for rj in rej:
        idx = max(k for k, (start, _) in enumerate(parts) if start <= rj['l'])
        if idx in bad:
            continue
        bad.add(idx)
        start, recs = parts[idx]
        at = rj['l'] - start + 1
        sig = signature(recs, at, rj['why'])
        ev = {k: v for k, v in recs[at - 1].items() if k not in ('lds', 'after', 'before', 'data')}
        what = 'C02/cumem: real-code trace (%s, scenario %r) not a behaviour of CUMemTrace.tla: %s at event #%d %s; %s' % (
            sig.get('mode'), recs[0].get('name'), sig['violated'], at, json.dumps(ev)[:200], {k: sig[k] for k in ('part', 'opc') if k in sig})
        case = recs[0].get('case')
        replay = {'driver': {'cmd': 'c02cumem', 'scenarios': [scen[case]] if case is not None and case < len(scen) else scen},
                  'trace_spec': [DIRS, TMOD, TCFG], 'failing_index': at, 'trace': recs[:at + 1] if len(recs) > 300 else recs}
        if ctx.known_match(sig) is None:
            if new_here >= 2:
                ctx.cov['cumem_further_unconfirmed_rejections'] = ctx.cov.get('cumem_further_unconfirmed_rejections', 0) + 1
                continue
            new_here += 1
            sub = os.path.join(ctx.scratch, 'msub_%s_%d.ndjson' % (tag, idx))
            vlib.write_ndjson(sub, recs)
            v2 = ctx.validate_trace(DIRS, TMOD, TCFG, sub, timeout=900)
            if v2['accepted']:
                raise vlib.Infra('rejection at line %d of %s not reproduced on the isolated sub-trace' % (rj['l'], tag))
        ctx.report_failure(what, sig, replay)
    for k, (_, recs) in enumerate(parts):
        if k not in bad and any(r['e'] == 'Panic' or (r['e'] == 'Quiesce' and r.get('pending', 0) > 0) for r in recs):
            raise vlib.Infra('tolerant trace validation accepted a sub-trace with a panic/hang (%s, case %s)' % (tag, recs[0].get('case')))
    ctx.cov['traces_validated_against_impl'] += len(parts) - len(bad)
    return bad


def run_scenarios(ctx, drv, scen, tag):
    sfile = os.path.join(ctx.scratch, 'mscen_%s.json' % tag)
    json.dump(scen, open(sfile, 'w'))
    t = os.path.join(ctx.scratch, 'mtrace_%s.ndjson' % tag)
    p, stats = common.run_driver(ctx, drv, ['-scen', sfile, '-out', t], timeout=1200)
    if stats is None:
        raise vlib.Infra('c02cumem driver failed (%s): %s' % (tag, p.stdout[-2000:]))
    ctx.log('cumem %s: %d kernels: %s' % (tag, len(scen), stats))
    return t, stats


# --------------------------------------------------------------------------- binding self-test
def corruptions():
    def pick(recs, pred, rng):
        idx = [i for i, r in enumerate(recs) if pred(r)]
        return rng.choice(idx) if idx else None

    def req_shifted(recs, rng):
        i = pick(recs, lambda r: r['e'] == 'SReq', rng)
        if i is None:
            return None
        recs[i]['a'] += 64
        return recs

    def req_missing(recs, rng):
        i = pick(recs, lambda r: r['e'] == 'SReq' and r['last'] == 0, rng)
        if i is None:
            return None
        rid = recs[i]['r']
        return [r for r in recs if not (r['e'] in ('SReq', 'SRsp') and r['r'] == rid)]

    def sgpr_dst_byte(recs, rng):
        ex = {r['id']: r for r in recs if r['e'] == 'SExec'}
        i = pick(recs, lambda r: r['e'] == 'SDone', rng)
        if i is None:
            return None
        recs[i]['after'][4 * ex[recs[i]['id']]['dst']] ^= 1
        return recs

    def sgpr_other_register(recs, rng):
        ex = {r['id']: r for r in recs if r['e'] == 'SExec'}
        i = pick(recs, lambda r: r['e'] == 'SDone' and r['quiet'] == 1 and ex[r['id']]['dst'] >= 16, rng)
        if i is None:
            return None
        recs[i]['after'][4 * 15 + 1] ^= 0x40      # s15 is never a destination
        return recs

    def scalar_end_twice(recs, rng):
        i = pick(recs, lambda r: r['e'] == 'SEnd', rng)
        if i is None:
            return None
        return recs[:i + 1] + [dict(recs[i])] + recs[i + 1:]

    def lds_own_byte(recs, rng):
        i = pick(recs, lambda r: r['e'] == 'DEnd', rng)
        if i is None:
            return None
        recs[i]['lds'][recs[i]['g'] - 1][rng.randrange(LDS_SIZE)] ^= 0x20
        return recs

    def lds_other_group(recs, rng):
        i = pick(recs, lambda r: r['e'] == 'DEnd' and len(r['lds']) > 1, rng)
        if i is None:
            return None
        recs[i]['lds'][2 - recs[i]['g']][rng.randrange(LDS_SIZE)] ^= 0x04
        return recs

    def lds_read_back(recs, rng):
        ex = {r['id']: r for r in recs if r['e'] == 'DExec'}
        i = pick(recs, lambda r: r['e'] == 'DEnd' and r['after'] and any(ex[r['id']]['exec']), rng)
        if i is None:
            return None
        lane = rng.choice([k for k, e in enumerate(ex[recs[i]['id']]['exec']) if e])
        recs[i]['after'][lane][0] ^= 2
        return recs

    def lds_inactive_lane(recs, rng):
        ex = {r['id']: r for r in recs if r['e'] == 'DExec'}
        i = pick(recs, lambda r: r['e'] == 'DEnd' and r['after'] and not all(ex[r['id']]['exec']), rng)
        if i is None:
            return None
        lane = rng.choice([k for k, e in enumerate(ex[recs[i]['id']]['exec']) if not e])
        recs[i]['after'][lane][1] ^= 8
        return recs

    def counter_left(recs, rng):
        i = pick(recs, lambda r: r['e'] == 'WfEnd', rng)
        if i is None:
            return None
        recs[i]['os'] = 1
        return recs

    return [('scalar_request_wrong_address', req_shifted), ('scalar_request_missing', req_missing),
            ('sgpr_destination_byte', sgpr_dst_byte), ('sgpr_outside_destination', sgpr_other_register),
            ('scalar_load_ended_twice', scalar_end_twice), ('lds_byte_of_own_group', lds_own_byte),
            ('lds_byte_of_other_group', lds_other_group), ('lds_read_back_active_lane', lds_read_back),
            ('lds_read_back_inactive_lane', lds_inactive_lane), ('outstanding_counter_not_zero', counter_left)]


def selftest(ctx, files, bad_sets):
    parts = []
    for f, bad in zip(files, bad_sets):
        parts += [recs for k, (_, recs) in enumerate(vlib.split_traces(f)) if k not in bad and recs[0].get('mode') == 'timing']
    rng = random.Random(ctx.seed)
    rng.shuffle(parts)
    batch, names = [], []
    for name, fn in corruptions():
        for recs in parts[:30]:
            b = fn(copy.deepcopy(recs), rng)
            if b is not None:
                names.append(name)
                batch.append(b)
                break
    if len(names) < 7:
        if ctx.violations:
            ctx.notes.append('cumem binding self-test skipped: only %d corruptions applicable to the traces of a failing tree' % len(names))
            return
        raise vlib.Infra('cumem binding self-test: only %d corruptions applicable' % len(names))
    p = os.path.join(ctx.scratch, 'mselftest.ndjson')
    vlib.write_ndjson(p, [r for recs in batch for r in recs])
    rej = tolerant(ctx, p, 'selftest')
    res, pos = [], 1
    for name, recs in zip(names, batch):
        mine = [rj for rj in rej if pos <= rj['l'] < pos + len(recs)]
        if not mine:
            raise vlib.Infra('cumem binding self-test: corruption %r was ACCEPTED by CUMemTrace.tla (vacuous trace spec)' % name)
        res.append({'corruption': name, 'rejected_at': mine[0]['l'] - pos + 1, 'violated': sorted(mine[0]['why'])})
        pos += len(recs)
    ctx.cov['cumem_binding_selftest'] = res
    ctx.log('cumem binding self-test: %s' % ', '.join('%s->%s' % (r['corruption'], '+'.join(r['violated'])) for r in res))


# --------------------------------------------------------------------------- the component check
def count_insts(tfile):
    seen, nt = set(), set()
    for _, recs in vlib.split_traces(tfile):
        npieces = {}
        for r in recs:
            if r['e'] == 'SReq':
                npieces[r['id']] = npieces.get(r['id'], 0) + 1
        for r in recs:
            if r['e'] == 'SExec':
                key = ('s', r['opc'], r['a'], r['dst'])
                seen.add(key)
                if npieces.get(r['id'], 0) > 1 or r['a'] % 64 + (4 << min(r['opc'], 4)) == 64:
                    nt.add(key)
            elif r['e'] == 'DExec':
                key = ('d', r['opc'], r['off0'], r['off1'], tuple(r['exec']), tuple(r['a']))
                seen.add(key)
                if not all(r['exec']) or r['opc'] in (14, 55, 78, 119) or len(set(r['a'])) < 64:
                    nt.add(key)
    return len(seen), len(nt)


def run_component(ctx):
    thorough = ctx.tier == 'thorough'
    drv = ctx.go_build('c02cumem')
    rng = random.Random(ctx.seed * 104729 + 5)
    W = 8 if not thorough else vlib.NCPU

    # 1. the models
    r = ctx.tlc_expect_ok(DIRS, 'MC_SMem.tla', 'MC_SMem.cfg', coverage=True, timeout=900, workers=W)
    ctx.log('MC_SMem (dword..x16, 6 addresses, 3 destinations, 16-byte lines, responses in any order): %d distinct states' % r.distinct)
    zero = r.coverage_zero()
    r = ctx.tlc_expect_ok(DIRS, 'MC_SMem.tla', 'MC_SMem_live.cfg', timeout=900, workers=W)
    r = ctx.tlc_expect_ok(DIRS, 'MC_LDS.tla', 'MC_LDS.cfg', coverage=True, timeout=900, workers=W)
    ctx.log('MC_LDS (2 co-resident groups, 3 wavefronts, 7 instructions, every interleaving of the unit\'s pipeline): %d distinct states' % r.distinct)
    ctx.cov['cumem_coverage_zero_actions'] = zero + r.coverage_zero()
    r = ctx.tlc_expect_ok(DIRS, 'MC_LDS.tla', 'MC_LDS_live.cfg', timeout=900, workers=W)
    devs = {}
    for mod, cfg, what in (('MC_SMem.tla', 'MC_SMem_nox16.cfg', 'no s_load_dwordx16 in the scalar unit'),
                           ('MC_LDS.tla', 'MC_LDS_nobase.cfg', 'work-groups share one LDS window'),
                           ('MC_SMem.tla', 'MC_SMem_ooo.cfg', 'flagged response overtaken (excluded by the reorder buffer)')):
        r = ctx.tlc(DIRS, mod, cfg, timeout=600, workers=2)
        if not r.violated and not r.completed:
            raise vlib.Infra('%s failed unexpectedly: %s' % (cfg, r.error))
        devs[cfg] = r.violated
        ctx.log('%s (%s): violated %s' % (cfg, what, r.violated or 'nothing'))
    ctx.cov['cumem_deviation_models'] = devs

    # 2. the real CU
    ns, nl, nx = (60, 60, 8) if thorough else (8, 8, 2)
    smem = [gen_smem(rng, i) for i in range(ns)]
    t1, st1 = run_scenarios(ctx, drv, smem, 'smem')
    bad1 = validate(ctx, t1, smem, 'smem')
    lds = [gen_lds(rng, i) for i in range(nl)]
    t2, st2 = run_scenarios(ctx, drv, lds, 'lds')
    bad2 = validate(ctx, t2, lds, 'lds')
    x16 = [gen_smem(rng, i, x16=True) for i in range(nx)]
    t3, st3 = run_scenarios(ctx, drv, x16, 'x16')
    validate(ctx, t3, x16, 'x16')

    tot = {k: st1[k] + st2[k] + st3[k] for k in st1}
    cnt = [count_insts(t) for t in (t1, t2, t3)]
    part = {'kernels': len(smem) + len(lds) + len(x16), 'scalar_loads_judged': tot['smem'], 'lds_instructions_judged': tot['ds'],
            'scalar_requests': tot['reqs'], 'panics': tot['panics'], 'value_mismatches': tot['val_mismatch'],
            'distinct_instructions': sum(c[0] for c in cnt), 'nontrivial_instructions': sum(c[1] for c in cnt)}
    ctx.cov['cumem_part'] = part
    ctx.cov['evaluations'] = ctx.cov.get('evaluations', 0) + tot['smem'] + tot['ds']
    ctx.cov['distinct_nontrivial'] = ctx.cov.get('distinct_nontrivial', 0) + part['nontrivial_instructions']
    ctx.sample({'cumem_scalar_test': smem[0]['stests'][0], 'cumem_lds_test': {k: (v[:8] if k == 'addr' else v) for k, v in lds[0]['ltests'][0].items()}})

    # 3. binding self-test
    selftest(ctx, [t1, t2], [bad1, bad2])
    ctx.assumptions += ['cumem: the LDS unit is an in-order pipeline whose task end precedes the next instruction\'s ALU step, so the LDS '
                        'read from wavefront.WorkGroup.LDS at a task end shows exactly the instructions ended so far',
                        'cumem: scalar responses come in request order or in any order in which a flagged request does not overtake '
                        'earlier requests of its instruction']


def replay_component(ctx, path):
    rp = json.load(open(path))['replay']
    drv = ctx.go_build('c02cumem')
    scen = rp['driver']['scenarios']
    t, _ = run_scenarios(ctx, drv, scen, 'replay')
    before = len(ctx.violations)
    validate(ctx, t, scen, 'replay')
    return 1 if len(ctx.violations) > before else 0


# --------------------------------------------------------------------------- stand-alone (bin/check C02CUMEM)
def run(ctx, selftest=False):
    ctx._known = vlib.load_known().get('C02', [])
    run_component(ctx)


def replay(ctx, path):
    ctx._known = vlib.load_known().get('C02', [])
    return replay_component(ctx, path)
