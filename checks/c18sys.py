"""C18, system half — results do not depend on how work and data are spread over GPUs.

run_system(ctx) is called by checks/c18.py (property C18).  For every multi-GPU-capable program (workload, size tuple,
architecture) of spec/system/Config.tla it runs, with harness/cmd/sysrun on the real platform,

    the reference        one GPU, plain, device memory, emulation
    the variants         {1,2} and {1,2,3,4} with the workload's own distribution (plain: driver.Distribute + per-GPU queues),
                         the unified multi-GPU device, each also with unified memory, in emulation; the same in timing mode
                         for the classes of the acceptance matrix

and demands of every variant: (1) the workload's own Verify() passes (tolerance oracle), (2) every data buffer of the
reference (device buffers that are not a kernel's code object / argument block / AQL packet) occurs with the same size and
content among the variant's data buffers and every host array of the benchmark object read back from the device has the
same content (bit-identical oracle; applied to the workloads whose output elements are computed by the same instruction
sequence in every arrangement - all shipped ones), (3) on the unified device the same number of instructions is executed
as on one GPU, (4) the variant's system trace is a behaviour of SysTrace.tla: in particular the per-GPU shares of a
unified launch partition the grid (every work-group id exactly once across GPUs).

The deciding oracle of (1)-(3) is differential / host reference: level `exploration` for this half.
"""
import json
import shutil

import c01
import common
import vlib

# workloads that really use several GPUs in plain mode (the others run on one GPU of the set)
DISTRIBUTING = {'aes', 'argreuse', 'bitonicsort', 'fir', 'kmeans', 'matrixmultiplication', 'matrixtranspose', 'relu',
                'simpleconvolution', 'vectoradd'}
# host arrays that describe the arrangement itself, not data
def arrangement_field(name):
    return 'gpu' in name.lower() or 'queue' in name.lower()


SMALL_PLATFORM = 'cus=1,sas=2'
HARNESS_PROGRAMS = {'argreuse'}
BOUNDARY_WORKLOADS = {'aes', 'fir', 'relu', 'vectoradd'}


def prog_key(c):
    return '%s[%s]/%s' % (c['w'], ','.join(str(x) for x in c['p']), c['c']['arch'])


def is_ref(k):
    return k['mode'] == 'emu' and k['n'] == 1 and k['dist'] == 'plain' and k['umem'] == 0


def groups(ctx, thorough):
    sets = c01.cover_sets(ctx, 'acceptance', ctx.seed)
    byprog = {}
    for c in sets['full']:
        if c['w'] in c01.HOST_CONCURRENT or c['w'] in c01.NO_VERIFY_FLAG:
            continue
        byprog.setdefault(prog_key(c), []).append(c)
    # unified-device variants at the share boundaries of distributeWGToGPUs (Config.BoundaryCounts), each compared with
    # the single-GPU emulation run of the same size
    bnd = sets['boundary_all'] if thorough else [c for c in sets['boundary_quick'] if c['c']['mode'] == 'emu' or c['knobs']]
    bgroups = {}
    for c in bnd:
        ref = {'w': c['w'], 'names': c['names'], 'p': c['p'],
               'c': {'mode': 'emu', 'gpu': 'none', 'arch': c['c']['arch'], 'n': 1, 'dist': 'plain', 'umem': 0}}
        bgroups.setdefault(prog_key(c), (ref, []))[1].append(c)
    boundary = [(key + ' (share boundary)', ref, sorted(var, key=c01.case_key)) for key, (ref, var) in sorted(bgroups.items())]
    out = []
    for key in sorted(byprog):
        cs = byprog[key]
        ref = [c for c in cs if is_ref(c['c'])]
        var = [c for c in cs if c['c']['n'] > 1]
        if ref and var:
            out.append((key, ref[0], sorted(var, key=c01.case_key)))
    # unified device on a timing platform with few compute units (2 per GPU): there the number of work-groups exceeds the
    # CU count, so the per-GPU shares of distributeWGToGPUs have real remainders (on the stock platform 64 CUs per GPU
    # swallow a small grid whole)
    # harness programs are not in the acceptance matrix, so Config admits no timing class for them; their multi-GPU
    # arrangements are also run on the small timing platform (driver behaviour is the subject, the platform is cheap)
    def harness_timing(w, var):
        if w not in HARNESS_PROGRAMS:
            return []
        return [dict(c, c=dict(c['c'], mode='timing', gpu='r9nano'), knobs=SMALL_PLATFORM)
                for c in var if c['c']['mode'] == 'emu' and c['c']['umem'] == 0]

    def small(var, i, both):
        uni = [c for c in var if c['c']['mode'] == 'timing' and c['c']['dist'] == 'unified' and c['c']['umem'] == 0]
        uni = sorted(uni, key=c01.case_key)
        if not both:
            uni = uni[(i + ctx.seed) % len(uni):][:1] if uni else []
        return [dict(c, knobs=SMALL_PLATFORM) for c in uni]

    if thorough:
        return [(key, ref, var + small(var, i, True) + harness_timing(ref['w'], var)) for i, (key, ref, var) in enumerate(out)] + boundary
    # quick: one program per workload (rotating size class), all emulation variants of the distributing workloads and the
    # unified ones of the rest, plus two timing variants per distributing workload
    byw = {}
    for g in out:
        byw.setdefault(g[1]['w'], []).append(g)
    pick = []
    for i, (w, gs) in enumerate(sorted(byw.items())):
        # every size class of the workloads with 2-D / irregular grids on the small unified platform (cheap; grids with more
        # work-group rows than columns, remainders that differ per size); the 1-D workloads have the share-boundary variants
        for j, (key2, ref2, var2) in enumerate(gs):
            if w not in BOUNDARY_WORKLOADS and j != (ctx.seed + i) % len(gs) and small(var2, i + j, False):
                pick.append((key2, ref2, small(var2, i + j, False)))
        key, ref, var = gs[(ctx.seed + i) % len(gs)]
        emu = [c for c in var if c['c']['mode'] == 'emu' and (w in DISTRIBUTING or c['c']['dist'] == 'unified')]
        emu = [c for j, c in enumerate(emu) if w in DISTRIBUTING or (j + ctx.seed + i) % 4 == 0]
        tim = [c for c in var if c['c']['mode'] == 'timing' and c['c']['umem'] == 0]
        tim = [c for j, c in enumerate(tim) if (j + ctx.seed + i) % len(tim) < (2 if w in DISTRIBUTING else 1)] if tim else []
        pick.append((key, ref, emu + tim + small(var, i, False) + harness_timing(w, var)))
    return pick + boundary


def data_buffers(obs):
    return sorted((b['size'], b.get('sha')) for b in obs['buffers'] if b.get('role', 'data') == 'data')


def compare(ref, var):
    """Differences between the single-GPU reference run and one variant."""
    ro, vo = ref['obs'], var['obs']
    d = {}
    have = {}
    for x in data_buffers(vo):
        have[x] = have.get(x, 0) + 1
    missing = []
    for x in data_buffers(ro):
        if have.get(x, 0) > 0:
            have[x] -= 1
        else:
            missing.append(x)
    if missing:
        d['data_buffers'] = missing[:6]
    rh = {h['name']: (h['len'], h['digest']) for h in ro['host_arrays']}
    vh = {h['name']: (h['len'], h['digest']) for h in vo['host_arrays']}
    bad = sorted(k for k in rh if k in vh and rh[k] != vh[k] and not arrangement_field(k))
    if bad:
        d['host_arrays'] = bad
    k = var['case']['c']
    if k['dist'] == 'unified' and k['mode'] == 'emu' and 'insts' in ro and 'insts' in vo:
        if ro['insts']['issued'] != vo['insts']['issued']:
            d['instructions_on_unified_device'] = (ro['insts']['issued'], vo['insts']['issued'])
    return d


def arg_model(ctx):
    """ArgCapture.tla: a queued launch runs with the argument values its struct held at enqueue time, whatever the host does
    to the struct afterwards; the named deviation (driver aliases the caller's struct) must break the invariant."""
    r = ctx.tlc_expect_ok(['system'], 'MC_ArgCapture.tla', 'MC_ArgCapture.cfg', workers=4, timeout=600)
    d = ctx.tlc(['system'], 'MC_ArgCapture.tla', 'MC_ArgCapture_alias.cfg', workers=1, timeout=300, kind='demo')
    if 'ExecutedArgsAreEnqueuedArgs' not in d.violated:
        raise vlib.Infra('ArgCapture.tla with the alias deviation no longer violates ExecutedArgsAreEnqueuedArgs: %r' % d.violated)
    ctx.cov['arg_capture_model'] = {'states': r.distinct, 'alias_deviation_violates': d.violated}


def run_system(ctx):
    thorough = ctx.tier == 'thorough'
    drv = ctx.go_build('sysrun')
    arg_model(ctx)
    gs = groups(ctx, thorough)
    extra = ['-trace-insts', '-sys-trace', 'sys.ndjson']
    refs = c01.run_many(ctx, drv, [g[1] for g in gs], extra=extra, tag='sysref')
    flat = [(gi, c) for gi, g in enumerate(gs) for c in g[2]]
    ctx.log('system part: %d programs, %d variants (%d timing)' % (len(gs), len(flat),
                                                                  sum(1 for _, c in flat if c['c']['mode'] == 'timing')))
    vres = c01.run_many(ctx, drv, [c for _, c in flat], extra=extra, tag='sysvar')
    compared, differing = 0, 0
    ref_reported = set()
    distinct = set()
    pool = []
    for (gi, c), v in zip(flat, vres):
        ref = refs[gi]
        rf = c01.classify_quiet(ref)
        if rf is not None and gi not in ref_reported:
            # the single-GPU run is the model's expectation for every arrangement: a reference that misses the host
            # reference (or dies) is reported here as well, once
            ref_reported.add(gi)
            rsig = {'part': 'system', 'kind': 'single_gpu_reference_' + rf[0], 'bench': ref['case']['w'],
                    'arch': ref['case']['c']['arch'], 'detail': c01.norm_msg(rf[1])}
            ctx.report_failure('C18 system: %s: the single-GPU emulation run itself fails: %s: %s' % (gs[gi][0], rf[0], rf[1][:300]),
                               rsig, {'system': True, 'driver': {'cmd': 'sysrun'}, 'case': ref['case'], 'reference': ref['case'],
                                      'kind': rf[0], 'detail': rf[1]})
        if rf is not None and not (rf[0] == 'verify_failed' and ref['obs']):
            # the single-GPU emulation run itself crashes: C01's business, no reference to compare with
            ctx.notes.append('reference run of %s fails (%s)' % (gs[gi][0], rf[0]))
            continue
        f = c01.classify(v)
        if rf is not None and f is not None and f[0] == 'verify_failed' and c01.norm_msg(f[1]) == c01.norm_msg(rf[1]):
            # the workload misses its host reference already on one GPU (C01 reports that) and the variant misses it the
            # same way: what this property asks is that the data are the same, compared below
            f = None
        if f is not None:
            kind, detail = f
            again = c01.run_case(ctx, drv, 'sysconfirm%d' % compared, c, extra)
            f2 = c01.classify_quiet(again)
            if f2 is None or f2[0] != kind:
                raise vlib.Infra('system part: failure not reproduced (%s): %s' % (kind, c01.case_key(c)))
            sig = c01.signature(again, kind, detail)
            sig['part'] = 'system'
            if kind == 'verify_failed' and c['c']['mode'] == 'timing':
                sig.update(c01.platform_dependence(ctx, drv, v, 'sys%d' % compared))
            ctx.report_failure('C18 system: %s passes on one GPU and fails as %s: %s: %s' % (gs[gi][0], c01.case_key(c), kind, detail[:300]),
                               sig, {'system': True, 'driver': {'cmd': 'sysrun'}, 'case': c, 'reference': gs[gi][1], 'kind': kind, 'detail': detail})
            shutil.rmtree(again['dir'], ignore_errors=True)
            differing += 1
            continue
        compared += 1
        pool.append(v)
        if v['obs'].get('commands'):
            distinct.add(c01.case_key(c))
        d = compare(ref, v)
        if not d:
            continue
        differing += 1
        k = c['c']
        sig = {'part': 'system', 'kind': 'data_differs_from_single_gpu', 'bench': c['w'], 'mode': k['mode'], 'arch': k['arch'],
               'multi_gpu': k['dist'], 'umem': k['umem'], 'fields': ','.join(sorted(d))}
        ctx.report_failure('C18 system: %s: final data of %s differ from the single-GPU run in %s' % (
            gs[gi][0], c01.case_key(c), json.dumps(d)[:300]), sig,
            {'system': True, 'driver': {'cmd': 'sysrun'}, 'case': c, 'reference': gs[gi][1], 'differences': d})
    ctx.log('system part: %d variants compared with their single-GPU run, %d differing or failing' % (compared, differing))

    # unified launches must partition the grid; commands / launches / work-groups obey the system rules
    pool.sort(key=lambda r: (0 if r['case']['c']['dist'] == 'unified' else 1, 0 if r['case']['c']['mode'] == 'timing' else 1,
                             c01.case_key(r['case'])))
    path, n, chosen = c01.validate_sys_traces(ctx, pool, 60000 if thorough else 12000, 300 if thorough else 40, 'c18sys')
    common.selftest_binding(ctx, c01.TSPEC, path, c01.corruptions())
    uni = sum(1 for r, _ in chosen if r['case']['c']['dist'] == 'unified')
    ctx.cov['system_part'] = {'programs': len(gs), 'variants_run': len(flat), 'variants_compared': compared,
                              'distinct_nontrivial': len(distinct), 'sys_traces_validated': n, 'of_them_unified': uni}
    ctx.cov['evaluations'] = ctx.cov.get('evaluations', 0) + len(flat) + len(refs)
    ctx.cov['distinct_nontrivial'] = ctx.cov.get('distinct_nontrivial', 0) + len(distinct)
    ctx.assumptions += [
        'system part: differential oracle against the single-GPU emulation run plus each workload\'s Verify(); data buffers are matched '
        'by (size, content) because virtual addresses differ between arrangements',
        'system part: lenet/minerva/vgg16 (data sets not shipped), xor (single GPU only), concurrent* (host-concurrent) not included']
    for r in refs + vres:
        shutil.rmtree(r['dir'], ignore_errors=True)


def replay_system(ctx, path):
    rp = json.load(open(path))['replay']
    drv = ctx.go_build('sysrun')
    extra = ['-trace-insts', '-sys-trace', 'sys.ndjson']
    v = c01.run_case(ctx, drv, 'rp_v', rp['case'], extra)
    f = c01.classify_quiet(v)
    if f is not None:
        print('replay: variant fails:', f)
        return 1
    r = c01.run_case(ctx, drv, 'rp_r', rp['reference'], extra)
    d = compare(r, v)
    print('replay: differences:', d)
    return 1 if d else 0
