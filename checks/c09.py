"""C09 — work-groups are dispatched exactly once within compute-unit resources.

spec/dispatch/DispatchLedger.tla  port-level ledger + the property's invariants (shared by model and traces)
spec/dispatch/CUResource.tla      the dispatcher's per-CU allocation masks, shaped like internal/resource
spec/dispatch/Dispatch.tla        design model: dispatchers, round-robin/greedy/partition placement, completion accounting
spec/dispatch/MC_Dispatch*.cfg    exhaustive model checking (+ liveness under fair CUs)
spec/dispatch/DispatchScen.tla    behaviours -> environment scenarios replayed on the real cp.CommandProcessor
spec/dispatch/DispatchTrace.tla   port-event traces of the real CP checked against the ledger
harness/cmd/c09                   driver: real CP + scripted finite CUs / real emulation CUs
"""
import json
import os
import re

import common
import vlib

LEVEL = 'model_checking'
RULE = ('cases = environment runs (TLC -simulate behaviours of DispatchScen, the model counterexample, seeded adversarial '
        'runs with finite fake CUs, runs with real emulation CUs) executed on the real cp.CommandProcessor; distinct = '
        'distinct port-event traces; non-trivial = a trace in which a work-group was mapped after a completion was '
        'consumed (returned resources reused) and two kernels were in flight together or completions arrived out of '
        'map order or batched')
# JVM heaps are capped: the machine is shared and an uncapped JVM grows to a quarter of the RAM before collecting
TSPEC = {'dirs': ['dispatch'], 'module': 'DispatchTrace.tla', 'cfg': 'DispatchTrace.cfg', 'heap': '3g'}
MC_HEAP = '4g'

# model units -> hardware units (model granularity GS=2 GV=2 GL=4, hardware 16/4/256)
SC_S, SC_V, SC_L = 8, 2, 64


def kd_of(K):
    return {'grid': [64 * K['n'] * K['nwg'], 1, 1], 'wg': [64 * K['n'], 1, 1],
            's': K['s'] * SC_S, 'v': K['v'] * SC_V, 'l': K['l'] * SC_L, 'pid': 1}


def cus_of(cfg):
    return [{'slots': list(c['slots']), 'sregs': c['sregs'] * SC_S, 'vregs': [v * SC_V for v in c['vregs']],
             'lds': c['lds'] * SC_L} for c in cfg]


def steps_of(acts):
    steps = []
    for a in acts:
        k = a.get('a')
        if k in (None, 'Init', 'Internal'):
            continue
        if k == 'EnvLaunch':
            steps.append({'a': 'EnvLaunch', 'kd': kd_of(a['K'])})
        elif k == 'EnvComplete':
            steps.append({'a': 'EnvComplete', 'wgs': sorted([list(x) for x in a['wgs']])})
        elif k == 'Await':
            steps.append({'a': 'Await', 'e': a['e']})
        else:
            steps.append({'a': k})
    return steps


def scenario_of(states, ndisp, i=0, portcap=0):
    """portcap > 0: replay with a ToCUs port of that many entries (the model's PortCap; needs the verif hook)."""
    acts = [st.get('act') for st in states[1:] if isinstance(st.get('act'), dict)]
    sc = {'cus': cus_of(states[0]['cfg']), 'ndisp': ndisp, 'overhead': [i % 3, (i // 3) % 2, 1 + i % 2],
          'probe': True, 'steps': steps_of(acts)}
    if portcap:
        sc['portcap'] = portcap
    return sc


def kernel_of_map(recs):
    return {r['m']: r['k'] for r in recs if r['e'] == 'MapWG'}


def signature(recs, at, v):
    """Narrow description of a rejection: which event, and for a panic what the CP was handed."""
    ev = recs[min(at, len(recs)) - 1] if recs else {}
    sig = {}
    if v['violated'] and at >= 2:
        sig['caused_by'] = recs[at - 2].get('e')      # an invariant breaks in the state *after* the offending event
    if ev.get('e') == 'Panic':
        kof = kernel_of_map(recs[:at])
        consumed = {r['mid'] for r in recs[:at] if r['e'] == 'Consume'}
        spans = any(len({kof.get(i) for i in r['ids']}) > 1
                    for r in recs[:at] if r['e'] == 'Complete' and r['mid'] not in consumed)
        if spans and 'more than one dispatcher' in ev.get('msg', ''):
            sig['cause'] = 'completion_batch_spans_dispatchers'
        else:
            sig['cause'] = 'panic: ' + ev.get('msg', '')[:80]
    return sig


def nontrivial(recs):
    consumed = False
    reuse = False
    running = set()
    overlap = False
    map_order, done_order = [], []
    batched = False
    for r in recs:
        e = r['e']
        if e == 'Consume':
            consumed = True
        elif e == 'MapWG':
            reuse = reuse or consumed
            map_order.append(r['m'])
        elif e == 'Start':
            running.add(r['k'])
            overlap = overlap or len(running) > 1
        elif e == 'Rsp':
            running.discard(r['k'])
        elif e == 'Complete':
            done_order += r['ids']
            batched = batched or len(r['ids']) > 1
    ooo = done_order != [m for m in map_order if m in set(done_order)]
    return reuse and (overlap or ooo or batched)


def validate(ctx, trace, info):
    """Traces without a Panic go through the shared bisecting flow.  A trace that ends in a Panic is a rejection to
    classify (DispatchTrace has no action for a Panic line): the first one of a file is shown to TLC as it is, for
    the others TLC checks the prefix before the Panic (appended to the calm part) and the Panic line is the
    rejection."""
    parts = vlib.split_traces(trace)
    calm, loud = [], []
    for p in parts:
        cut = [i for i, r in enumerate(p[1]) if r['e'] == 'Panic']
        if not cut:
            calm.append(p[1])
        else:
            loud.append((p[1], cut[0]))
            if len(loud) > 1:
                calm.append(p[1][:cut[0]])
    if calm:
        f = trace + '.calm'
        vlib.write_ndjson(f, [r for recs in calm for r in recs])
        common.validate_and_triage(ctx, dict(TSPEC, signature=signature), f, info)
    for n, (recs, cut) in enumerate(loud):
        at = cut + 1
        violated = []
        if n == 0:
            sub = os.path.join(ctx.scratch, 'panic_%d.ndjson' % n)
            vlib.write_ndjson(sub, recs)
            v = ctx.validate_trace(TSPEC['dirs'], TSPEC['module'], TSPEC['cfg'], sub, heap=TSPEC['heap'])
            if v['accepted']:
                raise vlib.Infra('a trace with a Panic event was accepted by DispatchTrace')
            at, violated = v['highwater'] or 1, v['violated']
        ev = recs[min(at, len(recs)) - 1]
        sig = {'kind': 'trace_rejected', 'violated': ','.join(sorted(set(violated))) or 'no_matching_action',
               'event': ev.get('e')}
        sig.update(signature(recs, at, {'violated': violated}))
        what = 'C09: real-code trace not a behaviour of DispatchTrace.tla: %s at event #%d %s' % (
            sig['violated'], at, json.dumps(ev)[:300])
        new = ctx.report_failure(what, sig, {'driver': info, 'trace_spec': [TSPEC['dirs'], TSPEC['module'], TSPEC['cfg']],
                                             'failing_index': at, 'trace': recs})
        if new:
            break       # one VIOLATION line per trace file is enough
    return parts


def corruptions():
    def idx(recs, e):
        return [i for i, r in enumerate(recs) if r['e'] == e]

    def dup_map(recs, rng):
        # the same work-group mapped a second time under a fresh message id
        ms = idx(recs, 'MapWG')
        if not ms:
            return None
        i = rng.choice(ms)
        d = dict(recs[i])
        d['m'] = 1 + max(r['m'] for r in recs if r['e'] == 'MapWG')
        return recs[:i + 1] + [d] + recs[i + 1:]

    def drop_map(recs, rng):
        # a work-group never mapped (and never completed): the response comes although it did not run
        ms = idx(recs, 'MapWG')
        if not ms:
            return None
        m = recs[rng.choice(ms)]['m']
        out = []
        for r in recs:
            if r['e'] in ('MapWG', 'TakeMap') and r['m'] == m:
                continue
            if r['e'] == 'Complete' and m in r['ids']:
                r = dict(r, ids=[x for x in r['ids'] if x != m])
                if not r['ids']:
                    mid = r['mid']
                    out.append({'e': 'DROP', 'mid': mid})
                    continue
            out.append(r)
        dropped = {r['mid'] for r in out if r['e'] == 'DROP'}
        return [r for r in out if r['e'] != 'DROP' and not (r['e'] == 'Consume' and r['mid'] in dropped)]

    def early_rsp(recs, rng):
        # the launch response overtakes the last completion of its kernel
        for i in idx(recs, 'Rsp'):
            k = recs[i]['k']
            kof = kernel_of_map(recs)
            last = [j for j in idx(recs, 'Complete') if j < i and any(kof.get(x) == k for x in recs[j]['ids'])]
            if last:
                j = last[-1]
                return recs[:j] + [recs[i]] + recs[j:i] + recs[i + 1:]
        return None

    def dup_rsp(recs, rng):
        rs = idx(recs, 'Rsp')
        if not rs:
            return None
        i = rng.choice(rs)
        return recs[:i + 1] + [dict(recs[i])] + recs[i + 1:]

    def overlap_sgpr(recs, rng):
        # a second resident wavefront is handed the SGPRs of the first
        for i in idx(recs, 'MapWG'):
            r = recs[i]
            if len(r['locs']) > 1 and r['locs'][0][1] != r['locs'][1][1]:
                r['locs'][1][1] = r['locs'][0][1]
                return recs
        return None

    def beyond_lds(recs, rng):
        # LDS block pushed past the end of the CU's LDS
        cfg = recs[0]['cus'] if recs and recs[0]['e'] == 'Reset' else None
        kl = {r['k']: r['l'] for r in recs if r['e'] == 'Launch'}
        for i in idx(recs, 'MapWG'):
            r = recs[i]
            if cfg and r['c'] >= 1 and kl.get(r['k'], 0) > 0 and cfg[r['c'] - 1]['lds'] > 0:
                for loc in r['locs']:
                    loc[3] = cfg[r['c'] - 1]['lds'] - kl[r['k']] + 1
                return recs
        return None

    def extra_slot(recs, rng):
        # every wavefront of a work-group squeezed onto SIMD 0 of a CU whose SIMD 0 has fewer slots
        cfg = recs[0]['cus'] if recs and recs[0]['e'] == 'Reset' else None
        for i in idx(recs, 'MapWG'):
            r = recs[i]
            if cfg and r['c'] >= 1 and len(r['locs']) > cfg[r['c'] - 1]['slots'][0]:
                for loc in r['locs']:
                    loc[0] = 0
                return recs
        return None

    def wrong_pid(recs, rng):
        ms = idx(recs, 'MapWG')
        if not ms:
            return None
        recs[rng.choice(ms)]['pid'] += 1
        return recs

    return [('map_work_group_twice', dup_map), ('work_group_never_mapped', drop_map),
            ('response_before_last_completion', early_rsp), ('duplicate_response', dup_rsp),
            ('overlapping_sgpr_ranges', overlap_sgpr), ('lds_beyond_capacity', beyond_lds),
            ('more_wavefronts_than_slots', extra_slot), ('wrong_pid', wrong_pid)]


HOOK_FILE = 'amd/timing/cp/verif_export.go'


def build_with_hook(ctx):
    """A second driver binary (tag c09hook) that swaps the dispatchers' placement algorithm; only possible
    when the verif hook is in /repo (or in the VERIF_OVERLAY)."""
    ov = os.environ.get('VERIF_OVERLAY')
    have = os.path.exists(os.path.join(vlib.REPO, HOOK_FILE))
    if not have and ov:
        have = bool(json.load(open(ov)).get('Replace', {}).get(os.path.join(vlib.REPO, HOOK_FILE)))
    if not have:
        return None
    out = os.path.join(ctx.sub('bin'), 'c09_hook')
    argv = ['go', 'build', '-tags', 'verif c09hook', '-o', out]
    if ov:
        argv += ['-overlay', ov]
    argv.append('./cmd/c09')
    p = ctx.run(argv, cwd=vlib.HARNESS, env=vlib.go_env(), timeout=1500, check=False)
    if p.returncode != 0:
        raise vlib.Infra('go build c09 (hook) failed:\n%s' % p.stdout[-4000:])
    return out


def simulate(ctx, dirs, module, cfg, num, depth, timeout):
    """ctx.simulate with a capped heap."""
    res = ctx.tlc(dirs, module, cfg, workers=1, timeout=timeout, simulate='file=beh,num=%d' % num, depth=depth,
                  seed=ctx.seed, kind='simulate', heap='2g')
    if res.violated:
        raise vlib.Infra('simulation of %s violated %s\n%s' % (module, res.violated, res.out[-2000:]))
    behs = [vlib.tlaval.parse_sim_file(os.path.join(res.dir, f)) for f in sorted(os.listdir(res.dir)) if f.startswith('beh_')]
    if not behs:
        raise vlib.Infra('simulation of %s produced no behaviour:\n%s' % (module, res.out[-2000:]))
    ctx.cov['transitions'] += res.generated
    return behs


def drive(ctx, drv, args, out):
    p, stats = common.run_driver(ctx, drv, args + ['-out', out])
    if stats is None:
        raise vlib.Infra('driver failed (rc=%s): %s' % (p.returncode, p.stdout[-2000:]))
    return stats


def watch_first_fit(ctx):
    """DispatchTrace prints <<"FIRSTFIT", conforming, examined>> at the end of an accepted trace file: how many
    MapWGReq of the real CP carry exactly the offsets CUResource.tla's first fit predicts (model fidelity, no verdict)."""
    tally = {'conforming': 0, 'examined': 0}
    orig = ctx.validate_trace

    def wrapped(*a, **kw):
        v = orig(*a, **kw)
        m = re.search(r'<<"FIRSTFIT", (\d+), (\d+)>>', v['res'].out)
        if v['accepted'] and m:
            tally['conforming'] += int(m.group(1))
            tally['examined'] += int(m.group(2))
        return v
    ctx.validate_trace = wrapped
    return tally


def run(ctx, selftest=False):
    thorough = ctx.tier == 'thorough'
    drv = ctx.go_build('c09')
    drvh = build_with_hook(ctx)      # second binary: small ToCUs ports, greedy / partition placement
    D = ['dispatch']
    ff = watch_first_fit(ctx)

    # 1. design-level model checking
    nomc = bool(os.environ.get('VERIF_C09_NOMC'))      # development aid (mutant loops): the model does not depend on /repo
    if not nomc:
        # (TLC's -coverage was read once by hand, see design/C09.md: it needs > 14 GB on this spec; vacuity is
        #  re-checked on every run from the action labels of the simulated behaviours, step 3)
        r = ctx.tlc_expect_ok(D, 'MC_Dispatch.tla', 'MC_Dispatch_quick.cfg', timeout=900, heap=MC_HEAP)
        ctx.log('MC_Dispatch_quick (intended design, cross-kernel batches): %d distinct states, depth %d' % (r.distinct, r.depth))
        r = ctx.tlc_expect_ok(D, 'MC_Dispatch.tla', 'MC_Dispatch_live.cfg', timeout=900, heap=MC_HEAP)
        ctx.log('MC_Dispatch_live (EveryKernelCompletes under fair CUs/driver): %d distinct states' % r.distinct)
    if thorough and not nomc:
        # (MC_Dispatch_asimpl.cfg = the tree before /repo 12f593b7, kept for reference: 136 630 states, passes)
        for cfg in ['MC_Dispatch.cfg', 'MC_Dispatch_greedy.cfg', 'MC_Dispatch_partition.cfg', 'MC_Dispatch_3cu.cfg']:
            r = ctx.tlc_expect_ok(D, 'MC_Dispatch.tla', cfg, workers=8, timeout=3000, heap='6g')
            ctx.log('%s: %d distinct states, depth %d' % (cfg, r.distinct, r.depth))
        ctx.cov['exhaustive'] = True

    # 2. the model with the as-implemented deviation: TLC must find the panic; the counterexample is a lead
    #    that only counts if the real CP reproduces it (step 3)
    lead = ctx.tlc(D, 'DispatchScen.tla', 'DispatchScen_lead.cfg', workers=1, timeout=600, kind='lead', heap='2g')
    if 'NoPanic' not in lead.violated:
        raise vlib.Infra('as-implemented model no longer yields the mixed-batch counterexample:\n' + lead.out[-1500:])
    ce = [st for _, st in lead.counterexample()]
    if len(ce) < 5 or 'cfg' not in ce[0]:
        raise vlib.Infra('could not parse the counterexample of DispatchScen_lead')
    lead_scen = scenario_of(ce, 2)
    lead_scen['probe'] = False
    # ... and the deviation CompleteIgnoresParked (kernelCompleted() without the currWG.valid guard): with the bounded
    # ToCUs port the model must answer a launch whose last work-group is still parked behind the full port
    lead2 = ctx.tlc(D, 'DispatchScen.tla', 'DispatchScen_parked.cfg', workers=1, timeout=600, kind='lead', heap='2g')
    if 'RspOnceAfterAll' not in lead2.violated:
        raise vlib.Infra('model with CompleteIgnoresParked no longer violates RspOnceAfterAll:\n' + lead2.out[-1500:])
    ce2 = [st for _, st in lead2.counterexample()]
    if len(ce2) < 5 or 'cfg' not in ce2[0]:
        raise vlib.Infra('could not parse the counterexample of DispatchScen_parked')
    lead2_scen = scenario_of(ce2, 2, portcap=1)
    lead2_scen['probe'] = False

    # 3. spec -> code: behaviours as scenarios
    nsim = 300 if thorough else 40
    behs = simulate(ctx, D, 'DispatchScen.tla', 'DispatchScen.cfg', num=nsim, depth=70, timeout=1500)
    seen = {}
    for b in behs:
        for st in b[1:]:
            a = st.get('act', {})
            lab = a.get('a', '?') + ('/' + a['e'] if 'e' in a else '')
            seen[lab] = seen.get(lab, 0) + 1
    ctx.cov['actions_in_simulated_behaviours'] = seen
    missing = [x for x in ('Await/Start', 'Internal', 'Await/MapWG', 'Await/Consume', 'Await/Rsp', 'EnvLaunch',
                           'EnvTakeMap', 'EnvComplete', 'EnvTakeRsp') if not seen.get(x)]
    if missing:
        raise vlib.Infra('actions never taken in %d simulated behaviours: %s' % (len(behs), missing))
    # (DispatchScen.cfg has PortCap = 3: with the hook every second behaviour is replayed on a CP whose ToCUs port
    #  holds 3 messages, so the behaviours' back-pressure on that port is real)
    scen = [scenario_of(b, 2 + i % 2, i, portcap=3 if (drvh and i % 2) else 0) for i, b in enumerate(behs)]
    sfile = os.path.join(ctx.scratch, 'scen.json')
    json.dump(scen, open(sfile, 'w'))
    t1 = os.path.join(ctx.scratch, 'trace_scen.ndjson')
    st1 = drive(ctx, drvh or drv, ['-scen', sfile], t1)
    ctx.log('replayed %d TLC behaviours: %s' % (len(scen), st1))
    ctx.sample({'scenario_from_TLC_behaviour': scen[0]['steps'][:10]})
    parts = validate(ctx, t1, {'cmd': 'c09', 'hook': bool(drvh), 'scenarios': scen})

    lfile = os.path.join(ctx.scratch, 'lead.json')
    json.dump([lead_scen], open(lfile, 'w'))
    t0 = os.path.join(ctx.scratch, 'trace_lead.ndjson')
    st0 = drive(ctx, drv, ['-scen', lfile], t0)
    ctx.log('replayed the model counterexample (completion batch spanning two dispatchers): %s' % st0)
    ctx.sample({'model_counterexample_as_scenario': lead_scen['steps']})
    parts += validate(ctx, t0, {'cmd': 'c09', 'scenarios': [lead_scen]})
    stp = {}
    if drvh:
        # the parked-work-group counterexample on a CP with a one-entry port, then scripted runs that park a kernel's
        # last work-group behind a full port (ports of 1-3 entries x round-robin / greedy / partition)
        pfile = os.path.join(ctx.scratch, 'lead2.json')
        json.dump([lead2_scen], open(pfile, 'w'))
        tp = os.path.join(ctx.scratch, 'trace_park.ndjson')
        argsp = ['-scen', pfile, '-park', 45 if thorough else 9, '-seed', ctx.seed]
        stp = drive(ctx, drvh, argsp, tp)
        ctx.log('last work-group parked behind a full ToCUs port (counterexample + scripted runs): %s' % stp)
        if not stp.get('parked_runs'):
            raise vlib.Infra('no scripted run reached the parked state: %s' % stp)
        parts += validate(ctx, tp, {'cmd': 'c09', 'hook': True, 'scenarios': [lead2_scen], 'args': argsp[2:]})
    else:
        ctx.notes.append('back-pressure on the ToCUs port (parked work-groups) not exercised: needs the verif hook '
                         'amd/timing/cp/verif_export.go (the builder\'s port holds 4096 messages)')

    # 4. code -> spec: seeded adversarial environments (finite fake CUs)
    nrand = 1000 if thorough else 150
    t2 = os.path.join(ctx.scratch, 'trace_rand.ndjson')
    args = ['-random', nrand, '-launches', 8 if thorough else 6, '-seed', ctx.seed]
    st2 = drive(ctx, drv, args, t2)
    ctx.log('random environments: %s' % st2)
    parts += validate(ctx, t2, {'cmd': 'c09', 'args': args})

    # ... the same with CUs that batch completions of different kernels (as the emulation CU does)
    t3 = os.path.join(ctx.scratch, 'trace_xbatch.ndjson')
    args3 = ['-random', 40 if thorough else 6, '-launches', 5, '-seed', ctx.seed + 1000, '-xbatch', 1]
    st3 = drive(ctx, drv, args3, t3)
    ctx.log('random environments with cross-kernel completion batches: %s' % st3)
    parts += validate(ctx, t3, {'cmd': 'c09', 'args': args3})

    # 5. real emulation CUs as completion source
    t4 = os.path.join(ctx.scratch, 'trace_emu.ndjson')
    args4 = ['-emu', 30 if thorough else 6, '-seed', ctx.seed]
    st4 = drive(ctx, drv, args4, t4)
    ctx.log('real emulation CUs: %s' % st4)
    parts += validate(ctx, t4, {'cmd': 'c09', 'args': args4})

    # 5a. many CUs of the shipped shape, kernels of hundreds of work-groups (thorough only: the ledger states are large)
    st6 = {}
    if thorough:
        t6 = os.path.join(ctx.scratch, 'trace_big.ndjson')
        args6 = ['-big', 2, '-seed', ctx.seed]
        st6 = drive(ctx, drv, args6, t6)
        ctx.log('16-64 CUs, kernels of 100-1500 work-groups: %s' % st6)
        parts += validate(ctx, t6, {'cmd': 'c09', 'args': args6})

    # 5b. greedy / partition placement (only with the verif hook fixes/C09-hook-dispatch-alg.diff in the tree)
    st5 = {}
    if drvh:
        t5 = os.path.join(ctx.scratch, 'trace_alg.ndjson')
        args5 = ['-random', 600 if thorough else 90, '-launches', 6, '-seed', ctx.seed + 2000,
                 '-alg', 'round-robin,greedy,partition']
        st5 = drive(ctx, drvh, args5, t5)
        ctx.log('round-robin / greedy / partition placement, ToCUs ports of 1-3 entries (verif hook): %s' % st5)
        parts += validate(ctx, t5, {'cmd': 'c09', 'hook': True, 'args': args5})
    else:
        ctx.notes.append('greedy/partition placement not exercised: amd/timing/cp/verif_export.go (fixes/C09-hook-dispatch-alg.diff) is not in the tree')

    def key(recs):
        return json.dumps([{k: v for k, v in r.items() if k != 'seq'} for r in recs], sort_keys=True)
    distinct = {key(recs) for _, recs in parts}
    nt = len({key(recs) for _, recs in parts if nontrivial(recs)})
    ctx.sample({'trace_excerpt': parts[len(behs) + 2][1][:12] if len(parts) > len(behs) + 2 else parts[-1][1][:12]})
    events = sum(s.get('events', 0) for s in (st0, st1, st2, st3, st4, st5, st6, stp))
    ctx.cov.update({'evaluations': len(parts), 'distinct_nontrivial': nt, 'distinct_traces': len(distinct), 'events_validated': events,
                    'map_requests_checked': sum(s.get('ev_MapWG', 0) for s in (st0, st1, st2, st3, st4, st5, st6, stp)),
                    'full_cu_probes': st1.get('probes', 0) + st2.get('probes', 0),
                    'scenario_steps': {'done': st1.get('steps_done', 0), 'skipped': st1.get('steps_skipped', 0)},
                    'parked_last_work_group_runs': stp.get('parked_runs', 0),
                    'model_lead_parked': {'violated': lead2.violated, 'length': len(ce2)},
                    'model_lead': {'violated': lead.violated, 'length': len(ce),
                                   'real_cp_panicked': st0.get('ev_Panic', 0) > 0}})

    ctx.cov['first_fit_conformance'] = dict(ff)
    if ff['conforming'] != ff['examined']:
        ctx.notes.append('model fidelity: %d of %d map requests do not carry the first-fit offsets of CUResource.tla '
                         '(placement policy differs from the design model; not a verdict)' % (
                             ff['examined'] - ff['conforming'], ff['examined']))
    # a run the driver had to cut off (the CP never went idle) whose recorded prefix was nevertheless accepted
    # is not a verdict
    cut = sum(s.get('incomplete', 0) for s in (st0, st1, st2, st3, st4, st5, st6, stp))
    if cut and not ctx.violations:
        raise vlib.Infra('%d runs were cut off by the driver (CP never idle) without a rejected trace' % cut)

    # 6. binding self-test (needs an accepted trace; pointless once real violations were found)
    if not ctx.violations:
        cs = corruptions()
        if not thorough:            # five of the eight per run, rotating with the seed
            cs = [cs[(ctx.seed + i) % len(cs)] for i in range(5)]
        common.selftest_binding(ctx, TSPEC, t2, cs)
    ctx.assumptions += [
        'akitabench mini engine and fake connection stand in for akita SerialEngine/DirectConnection',
        'port hooks observe every message of the CP (akita v4.9.0 defaultPort)',
        'fake CUs report finite resources through cp.CUInterfaceForCP; the number of dispatchers is reduced by re-slicing the public field CommandProcessor.Dispatchers',
        'only the round-robin placement is reachable through the public cp builder; greedy and partition are model-checked, and exercised on the real code only when the verif hook amd/timing/cp/verif_export.go is in the tree',
        'the fit hint of Launch lines (which idle CU can hold one work-group) comes from the harness, using the allocation granularity 16 SGPRs / 4 VGPRs / 256 B LDS',
        'emulation-CU runs execute the one-instruction kernel s_endpgm',
    ]


def replay(ctx, path):
    rp = json.load(open(path))['replay']
    drv = ctx.go_build('c09')
    d = rp['driver']
    if d.get('hook'):
        drv = build_with_hook(ctx)
        if not drv:
            raise vlib.Infra('this replay needs the verif hook ' + HOOK_FILE)
    t = os.path.join(ctx.scratch, 'replay.ndjson')
    args = []
    if 'scenarios' in d:
        sfile = os.path.join(ctx.scratch, 'scen.json')
        json.dump(d['scenarios'], open(sfile, 'w'))
        args += ['-scen', sfile]
    if 'args' in d:
        args += list(d['args'])
    drive(ctx, drv, args, t)
    before = len(ctx.violations)
    validate(ctx, t, d)
    return 1 if len(ctx.violations) > before else 0
