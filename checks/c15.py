"""C15 — the reorder buffer returns responses in request order, exactly once.

spec/rob/ROB.tla        design spec (one action per Tick sub-step + environment)
spec/rob/MC_ROB*.cfg    exhaustive model checking of InOrder/ExactlyOnce/NoGhost/Bounded/RspPayload/AllAnswered (+ liveness)
spec/rob/ROBScen.tla    behaviours -> environment scenarios replayed on the real rob.ReorderBuffer
spec/rob/ROBTrace.tla   port-event traces of the real component checked against ROB
"""
import json
import os

import common
import vlib

LEVEL = 'model_checking'
RULE = ('cases = environment scenarios (TLC -simulate behaviours of ROBScen + seeded adversarial runs) executed on the '
        'real rob.ReorderBuffer; distinct = distinct port-event traces; non-trivial = trace with >= 2 requests in flight '
        'answered out of order or a flush')
TSPEC = {'dirs': ['rob'], 'module': 'ROBTrace.tla', 'cfg': 'ROBTrace.cfg'}


def corruptions():
    def swap_retire(recs, rng):
        idx = [i for i, r in enumerate(recs) if r['e'] == 'BottomUp']
        for a in idx:
            for b in idx:
                if a < b and recs[a]['id'] != recs[b]['id']:
                    recs[a]['id'], recs[b]['id'] = recs[b]['id'], recs[a]['id']
                    return recs
        return None

    def drop_retire(recs, rng):
        idx = [i for i, r in enumerate(recs) if r['e'] == 'BottomUp']
        if not idx:
            return None
        i = rng.choice(idx)
        rid = recs[i]['id']
        return [r for j, r in enumerate(recs) if j != i and not (r['e'] == 'EnvTakeUp' and r['id'] == rid)]

    def dup_retire(recs, rng):
        idx = [i for i, r in enumerate(recs) if r['e'] == 'BottomUp']
        if not idx:
            return None
        i = rng.choice(idx)
        return recs[:i + 1] + [dict(recs[i])] + recs[i + 1:]

    def corrupt_addr(recs, rng):
        idx = [i for i, r in enumerate(recs) if r['e'] == 'Forward']
        if not idx:
            return None
        recs[rng.choice(idx)]['p']['a'] += 4
        return recs

    def corrupt_data(recs, rng):
        idx = [i for i, r in enumerate(recs) if r['e'] == 'BottomUp' and r['d'] and r['d'][0] >= 0]
        if not idx:
            return None
        recs[rng.choice(idx)]['d'][0] ^= 1
        return recs

    return [('swap_retire_order', swap_retire), ('drop_response', drop_retire), ('duplicate_response', dup_retire),
            ('corrupt_forwarded_address', corrupt_addr), ('corrupt_returned_data', corrupt_data)]


def nontrivial(recs):
    rsp_order = [r['id'] for r in recs if r['e'] == 'EnvRsp']
    flush = any(r['e'] == 'EnvCtrl' for r in recs)
    return flush or (rsp_order != sorted(rsp_order))


def run(ctx, selftest=False):
    thorough = ctx.tier == 'thorough'
    drv = ctx.go_build('c15')

    # 1. design-level model checking
    r = ctx.tlc_expect_ok(['rob'], 'MC_ROB.tla', 'MC_ROB.cfg', coverage=True, timeout=600)
    ctx.log('MC_ROB: %d distinct states, depth %d' % (r.distinct, r.depth))
    zeros = r.coverage_zero()
    ctx.cov['coverage_zero_actions'] = zeros
    r = ctx.tlc_expect_ok(['rob'], 'MC_ROB.tla', 'MC_ROB_live.cfg', timeout=900)
    ctx.log('MC_ROB_live (Progress under fairness): %d distinct states' % r.distinct)
    if thorough:
        r = ctx.tlc_expect_ok(['rob'], 'MC_ROB.tla', 'MC_ROB_big.cfg', workers=vlib.NCPU, timeout=2400)
        ctx.log('MC_ROB_big: %d distinct states' % r.distinct)
        # Cap 3, 5 requests, 2 flushes: about 12 M distinct states, 5 min on 8 workers
        r = ctx.tlc_expect_ok(['rob'], 'MC_ROB.tla', 'MC_ROB_huge.cfg', workers=vlib.NCPU, timeout=3600)
        ctx.log('MC_ROB_huge: %d distinct states' % r.distinct)
        ctx.cov['exhaustive'] = True

    # 2. spec -> code: behaviours as scenarios
    nsim = 3000 if thorough else 60
    behs, _ = ctx.simulate(['rob'], 'ROBScen.tla', 'ROBScen.cfg', num=nsim, depth=60)
    scen = []
    for i, b in enumerate(behs):
        steps = common.acts_to_steps(b)
        scen.append({'cap': 2, 'width': 1 + (i % 3), 'steps': steps})
    sfile = os.path.join(ctx.scratch, 'scen.json')
    json.dump(scen, open(sfile, 'w'))
    t1 = os.path.join(ctx.scratch, 'trace_scen.ndjson')
    p, stats = common.run_driver(ctx, drv, ['-scen', sfile, '-out', t1])
    if stats is None:
        raise vlib.Infra('driver failed: ' + p.stdout[-2000:])
    ctx.log('replayed %d TLC behaviours: %s' % (len(scen), stats))
    ctx.sample({'scenario_from_TLC_behaviour': scen[0]['steps'][:12]})
    common.validate_and_triage(ctx, TSPEC, t1, {'cmd': 'c15', 'scenarios': scen})

    # 3. code -> spec: seeded adversarial environments
    nrand = 6000 if thorough else 60
    t2 = os.path.join(ctx.scratch, 'trace_rand.ndjson')
    args = ['-random', nrand, '-reqs', 60 if thorough else 25, '-seed', ctx.seed, '-out', t2]
    p, stats2 = common.run_driver(ctx, drv, args)
    if stats2 is None:
        raise vlib.Infra('driver failed: ' + p.stdout[-2000:])
    ctx.log('random environments: %s' % stats2)
    common.validate_and_triage(ctx, TSPEC, t2, {'cmd': 'c15', 'args': args[:-1]})

    parts = vlib.split_traces(t1) + vlib.split_traces(t2)
    distinct = {json.dumps([{k: v for k, v in r.items() if k != 'seq'} for r in recs], sort_keys=True) for _, recs in parts}
    nt = sum(1 for _, recs in parts if nontrivial(recs))
    ctx.sample({'trace_excerpt': parts[-1][1][:10]})
    ctx.cov.update({'evaluations': len(parts), 'distinct_nontrivial': min(nt, len(distinct)),
                    'events_validated': stats['events'] + stats2['events']})

    # 4. binding self-test
    common.selftest_binding(ctx, TSPEC, t2, corruptions())
    ctx.assumptions += ['akitabench mini engine and fake connection stand in for akita SerialEngine/DirectConnection',
                        'port hooks observe every message of the component (akita v4.9.0 defaultPort)']


def replay(ctx, path):
    rp = json.load(open(path))['replay']
    drv = ctx.go_build('c15')
    d = rp['driver']
    t = os.path.join(ctx.scratch, 'replay.ndjson')
    if 'scenarios' in d:
        sfile = os.path.join(ctx.scratch, 'scen.json')
        json.dump(d['scenarios'], open(sfile, 'w'))
        args = ['-scen', sfile, '-out', t]
    else:
        args = d['args'] + [t]
    p, stats = common.run_driver(ctx, drv, args)
    if stats is None:
        raise vlib.Infra('driver failed: ' + p.stdout[-2000:])
    before = len(ctx.violations)
    common.validate_and_triage(ctx, TSPEC, t, d)
    return 1 if len(ctx.violations) > before else 0
