"""C16 — address translation forwards every access faithfully, exactly once.

spec/at/AddrTrans.tla       design spec (one action per port operation of a Tick sub-step + explicit environment,
                            page table revealed lazily by the translation service)
spec/at/MC_AT*.cfg          exhaustive model checking of ExactlyOnceDown/Up, PhysAddr, PayloadPreserved, RspToOriginal,
                            NoCrossPID, NoGhost, FlushEmpty, AllAnswered (+ Progress under fairness)
spec/at/AddrTransScen.tla   behaviours -> environment scenarios replayed on the real addresstranslator.Comp
spec/at/AddrTransTrace.tla  port-event traces of the real component checked against AddrTrans
harness/cmd/c16             driver: -scen (TLC behaviours), -random (adversarial bench), -system (real TLB/MMU/memory/engine)
"""
import json
import os
import re

import common
import vlib

LEVEL = 'model_checking'
RULE = ('cases = environment scenarios (TLC -simulate behaviours of AddrTransScen + seeded adversarial runs) executed on the '
        'real addresstranslator.Comp; distinct = distinct port-event traces; non-trivial = trace in which an access was '
        'coalesced onto a pending lookup, or lookups were answered out of order, or a flush happened')
TSPEC = {'dirs': ['at'], 'module': 'AddrTransTrace.tla', 'cfg': 'AddrTransTrace.cfg'}
INVS = ('ExactlyOnceDown', 'ExactlyOnceUp', 'PhysAddr', 'PayloadPreserved', 'RspToOriginal', 'NoCrossPID', 'NoGhost',
        'FlushEmpty')


def coverage_zero(out):
    """Actions AND sub-actions (disjuncts, printed with a location suffix) that a -coverage run never took."""
    zeros, seen = [], 0
    for m in re.finditer(r'^<(\w+) line (\d+), col \d+ to line \d+, col \d+ of module (\w+)(?: \(([\d ]+)\))?>: (\d+):(\d+)',
                         out, re.M):
        seen += 1
        if int(m.group(5)) == 0 and int(m.group(6)) == 0:
            zeros.append('%s!%s@%s' % (m.group(3), m.group(1), m.group(4) or m.group(2)))
    if seen < 10:
        raise vlib.Infra('coverage output not understood (%d action lines)' % seen)
    return sorted(set(zeros))


def signature(bad, at, v2):
    """Narrow description of a rejection: the event that has no matching action and what preceded it."""
    ev = bad[min(at, len(bad)) - 1] if bad else {}
    prev = bad[min(at, len(bad)) - 2].get('e') if at >= 2 and bad else None
    sig = {'prev_event': prev}
    if ev.get('e') == 'Quiesce':
        sig['pending_events'] = ev.get('pending_events')
    if ev.get('e') == 'Panic':
        sig['panic'] = str(ev.get('msg'))[:80]
    return sig


TSPEC['signature'] = signature


def corruptions():
    def pick(recs, rng, pred):
        idx = [i for i, r in enumerate(recs) if pred(r)]
        return rng.choice(idx) if idx else None

    def wrong_offset(recs, rng):
        i = pick(recs, rng, lambda r: r['e'] == 'Forward')
        if i is None:
            return None
        recs[i]['p']['a'][1] += 1
        return recs

    def wrong_page(recs, rng):
        ps = recs[0]['ps']
        i = pick(recs, rng, lambda r: r['e'] == 'Forward')
        if i is None:
            return None
        recs[i]['p']['a'][1] += ps
        return recs

    def dup_forward(recs, rng):
        i = pick(recs, rng, lambda r: r['e'] == 'Forward')
        if i is None:
            return None
        d = dict(recs[i])
        d['id'] = max(r['id'] for r in recs if r['e'] == 'Forward') + 1
        return recs[:i + 1] + [d] + recs[i + 1:]

    def drop_response(recs, rng):
        i = pick(recs, rng, lambda r: r['e'] == 'RspUp')
        if i is None:
            return None
        rid = recs[i]['id']
        return [r for j, r in enumerate(recs) if j != i and not (r['e'] == 'EnvTakeUp' and r['id'] == rid)]

    def dup_response(recs, rng):
        i = pick(recs, rng, lambda r: r['e'] == 'RspUp')
        if i is None:
            return None
        return recs[:i + 1] + [dict(recs[i])] + recs[i + 1:]

    def swap_response_ids(recs, rng):
        idx = [i for i, r in enumerate(recs) if r['e'] == 'RspUp']
        for a in idx:
            for b in idx:
                if a < b and recs[a]['id'] != recs[b]['id']:
                    recs[a]['id'], recs[b]['id'] = recs[b]['id'], recs[a]['id']
                    return recs
        return None

    def corrupt_returned_data(recs, rng):
        i = pick(recs, rng, lambda r: r['e'] == 'RspUp' and r['d'] and r['d'][0] >= 0)
        if i is None:
            return None
        recs[i]['d'][0] ^= 1
        return recs

    def corrupt_mask(recs, rng):
        i = pick(recs, rng, lambda r: r['e'] == 'Forward' and r['p']['k'] == 'w' and r['p']['m'] and r['p']['m'] != [-1])
        if i is None:
            return None
        recs[i]['p']['m'][0] ^= 1
        return recs

    def nil_mask_all_false(recs, rng):
        """A write without a mask (all bytes written) goes down with an all-false mask (writes nothing)."""
        i = pick(recs, rng, lambda r: r['e'] == 'Forward' and r['p']['k'] == 'w' and r['p']['m'] == [-1] and r['p']['d'])
        if i is None:
            return None
        recs[i]['p']['m'] = [0] * len(recs[i]['p']['d'])
        return recs

    def wrong_requester(recs, rng):
        i = pick(recs, rng, lambda r: r['e'] == 'RspUp')
        if i is None:
            return None
        recs[i]['dst'] = recs[i]['dst'] % 3 + 1
        return recs

    def lookup_wrong_pid(recs, rng):
        i = pick(recs, rng, lambda r: r['e'] == 'TrSend')
        if i is None:
            return None
        recs[i]['pid'] += 1
        return recs

    def cross_pid_coalesce(recs, rng):
        """Remove a lookup whose page is already being looked up for another process:
        the access then appears to have been coalesced across processes."""
        pend = {}
        for i, r in enumerate(recs):
            if r['e'] == 'TrSend':
                same_page = [q for q, (va, pid) in pend.items() if va == r['va'] and pid != r['pid']]
                if same_page:
                    q = r['id']
                    return [x for j, x in enumerate(recs) if j != i and not (
                        x['e'] in ('EnvTakeLookup', 'EnvTlbRsp', 'TrTake') and x['id'] == q)]
                pend[r['id']] = (r['va'], r['pid'])
            elif r['e'] == 'EnvTlbRsp':
                pend.pop(r['id'], None)
        return None

    return [('forward_wrong_offset', wrong_offset), ('forward_wrong_page', wrong_page),
            ('duplicate_forward', dup_forward), ('drop_response', drop_response),
            ('duplicate_response', dup_response), ('swap_response_ids', swap_response_ids),
            ('corrupt_returned_data', corrupt_returned_data), ('corrupt_byte_mask', corrupt_mask),
            ('nil_mask_becomes_all_false', nil_mask_all_false),
            ('response_to_wrong_requester', wrong_requester), ('lookup_wrong_pid', lookup_wrong_pid),
            ('coalesce_across_pids', cross_pid_coalesce)]


def features(recs):
    """What a trace exercises (for the non-triviality rule and the evidence file)."""
    f = set()
    prev = None
    tlb_order = []
    pend = {}
    width = recs[0].get('width', 0) if recs else 0
    bot_out = tr_in = 0
    ack = False                                     # between CtrlRsp and CtrlTake: restart drains
    for r in recs:
        e = r['e']
        if e == 'CtrlRsp':
            ack = True
        if e == 'CtrlTake':
            ack = False
        if e == 'Accept' and prev != 'TrSend' and not ack:
            f.add('coalesced')
        if e == 'TrSend':
            if any(va == r['va'] and pid != r['pid'] for va, pid in pend.values()):
                f.add('same_page_other_pid_pending')
            pend[r['id']] = (r['va'], r['pid'])
        if e == 'EnvTlbRsp':
            tlb_order.append(r['id'])
            pend.pop(r['id'], None)
            if tr_in == 0 and width and bot_out >= width:
                f.add('reply_met_full_bottom')      # head reply arrives while Bottom.outgoing is full
            tr_in += 1
        if e == 'TrTake':
            tr_in -= 1
            if prev != 'Forward' and not ack:
                f.add('reply_dropped_unknown')      # reply nobody waits for (flush, or drained after a failed send)
        if e == 'Forward':
            bot_out += 1
        if e == 'EnvReq' and r['p']['k'] == 'w' and r['p']['m'] == [-1]:
            f.add('write_without_mask')
        if e == 'EnvTakeDown':
            bot_out -= 1
        if e == 'EnvCtrl':
            f.add('flush')
        prev = e
    if tlb_order != sorted(tlb_order):
        f.add('tlb_out_of_order')
    return f


def env_idle_at_end(recs):
    """System run: did the real neighbours answer everything they received (so that End is a strict check)?"""
    took = {'EnvTakeLookup': set(), 'EnvTakeDown': set()}
    ans = {'EnvTlbRsp': set(), 'EnvMemRsp': set()}
    for r in recs:
        if r['e'] in took:
            took[r['e']].add(r['id'])
        if r['e'] in ans:
            ans[r['e']].add(r['id'])
    return took['EnvTakeLookup'] <= ans['EnvTlbRsp'] and took['EnvTakeDown'] <= ans['EnvMemRsp']


def nontrivial(recs):
    return bool(features(recs) & {'coalesced', 'tlb_out_of_order', 'flush'})


def scen_cfg(i):
    return {'log2ps': 2, 'width': (2, 2, 1, 3)[i % 4], 'nmem': 1 << (i % 2), 'ntlb': 1 << ((i // 2) % 2), 'dev': 3}


def run(ctx, selftest=False):
    thorough = ctx.tier == 'thorough'
    drv = ctx.go_build('c16')

    # 1. design-level model checking
    r = ctx.tlc_expect_ok(['at'], 'MC_AT.tla', 'MC_AT.cfg', coverage=True, timeout=900)
    ctx.log('MC_AT: %d distinct states, depth %d' % (r.distinct, r.depth))
    zeros = coverage_zero(r.out)
    ctx.cov['coverage_zero_actions'] = zeros
    if zeros:
        raise vlib.Infra('vacuity: actions never taken in MC_AT: %s' % zeros)
    r = ctx.tlc_expect_ok(['at'], 'MC_AT.tla', 'MC_AT_live.cfg', timeout=900)
    ctx.log('MC_AT_live (Progress under fairness): %d distinct states' % r.distinct)
    if thorough:
        r = ctx.tlc_expect_ok(['at'], 'MC_AT.tla', 'MC_AT_nf.cfg', workers=vlib.NCPU, timeout=1800)
        ctx.log('MC_AT_nf (3 accesses, no flush): %d distinct states' % r.distinct)
        r = ctx.tlc_expect_ok(['at'], 'MC_AT.tla', 'MC_AT_live3.cfg', timeout=1800)
        ctx.log('MC_AT_live3: %d distinct states' % r.distinct)
        r = ctx.tlc_expect_ok(['at'], 'MC_AT.tla', 'MC_AT_cap2.cfg', workers=vlib.NCPU, timeout=1800)
        ctx.log('MC_AT_cap2 (3 accesses, port capacity 2, no flush): %d distinct states' % r.distinct)
        r = ctx.tlc_expect_ok(['at'], 'MC_AT.tla', 'MC_AT_big.cfg', workers=vlib.NCPU, timeout=3000)
        ctx.log('MC_AT_big (3 accesses, flush): %d distinct states' % r.distinct)
        ctx.cov['exhaustive'] = True

    # 2. spec -> code: behaviours as scenarios
    nsim = 500 if thorough else 80
    behs, _ = ctx.simulate(['at'], 'AddrTransScen.tla', 'AddrTransScen.cfg', num=nsim // 2, depth=70)
    behs2, _ = ctx.simulate(['at'], 'AddrTransScen.tla', 'AddrTransScen_nf.cfg', num=nsim // 2, depth=70)
    behs += behs2
    scen = []
    for i, b in enumerate(behs):
        sc = scen_cfg(i)
        sc['steps'] = common.acts_to_steps(b)
        scen.append(sc)
    sfile = os.path.join(ctx.scratch, 'scen.json')
    json.dump(scen, open(sfile, 'w'))
    t1 = os.path.join(ctx.scratch, 'trace_scen.ndjson')
    p, stats = common.run_driver(ctx, drv, ['-scen', sfile, '-out', t1])
    if stats is None:
        raise vlib.Infra('driver failed: ' + p.stdout[-2000:])
    ctx.log('replayed %d TLC behaviours: %s' % (len(scen), stats))
    ctx.sample({'scenario_from_TLC_behaviour': scen[0]['steps'][:12]})
    common.validate_and_triage(ctx, TSPEC, t1, {'cmd': 'c16', 'scenarios': scen})

    # 3. code -> spec: seeded adversarial environments on the bench, and runs between real neighbours
    #    (akita TLB + MMU + ideal memory controllers + DirectConnection + SerialEngine)
    nrand = 500 if thorough else 70
    nsys = 200 if thorough else 25
    t2 = os.path.join(ctx.scratch, 'trace_rand.ndjson')
    args = ['-random', nrand, '-system', nsys, '-reqs', 40 if thorough else 25, '-seed', ctx.seed, '-out', t2]
    p, stats2 = common.run_driver(ctx, drv, args)
    if stats2 is None:
        raise vlib.Infra('driver failed: ' + p.stdout[-2000:])
    ctx.log('random environments + system runs: %s' % stats2)
    common.validate_and_triage(ctx, TSPEC, t2, {'cmd': 'c16', 'args': args[:-1]})

    if ctx.violations:
        # the verdict is taken; coverage requirements and the binding self-test need accepted traces
        ctx.cov.update({'evaluations': stats['traces'] + stats2['traces'], 'distinct_nontrivial': 0})
        return

    parts = vlib.split_traces(t1) + vlib.split_traces(t2)
    def canon(recs):
        return json.dumps([{k: v for k, v in r.items() if k != 'seq'} for r in recs], sort_keys=True)
    distinct_nt = {canon(recs) for _, recs in parts if nontrivial(recs)}
    feat = {}
    for _, recs in parts:
        for x in features(recs):
            feat[x] = feat.get(x, 0) + 1
    ctx.log('trace features (number of traces showing each): %s' % feat)
    # environment-driven patterns must have occurred (else the drivers are broken: infrastructure error)
    for need in ('tlb_out_of_order', 'flush', 'same_page_other_pid_pending', 'reply_met_full_bottom', 'write_without_mask'):
        if not feat.get(need):
            raise vlib.Infra('coverage: no trace exercised %r' % need)
    # coalescing is the implementation's choice (the spec also accepts a translator that never coalesces)
    if not feat.get('coalesced'):
        ctx.notes.append('no trace showed a coalesced lookup: the implementation under test never coalesces')
    ctx.sample({'trace_excerpt': parts[-1][1][:10]})
    ctx.cov.update({'evaluations': len(parts), 'distinct_nontrivial': len(distinct_nt),
                    'events_validated': stats['events'] + stats2['events'], 'trace_features': feat})

    # 4. binding self-test
    cs = corruptions()
    if not thorough:
        keep = ('forward_wrong_offset', 'duplicate_forward', 'drop_response', 'swap_response_ids', 'corrupt_byte_mask',
                'nil_mask_becomes_all_false',
                'coalesce_across_pids')
        cs = [c for c in cs if c[0] in keep]
    common.selftest_binding(ctx, TSPEC, t2, cs)
    sysruns = [recs for _, recs in parts if recs[0].get('mode') == 'system']
    idle = sum(1 for recs in sysruns if env_idle_at_end(recs))
    ctx.cov['system_runs'] = dict({k: v for k, v in stats2.items() if k.startswith('sys_')},
                                  runs=len(sysruns), neighbours_idle_at_end=idle)
    if idle < len(sysruns):
        ctx.notes.append('%d system runs ended with a real neighbour still owing an answer (End is then not a strict check)'
                         % (len(sysruns) - idle))
    ctx.assumptions += ['bench mode: akitabench mini engine and fake connection stand in for akita SerialEngine/DirectConnection '
                        '(system mode uses the real ones, with the real akita TLB, MMU and ideal memory controller)',
                        'port hooks observe every message of the component (akita v4.9.0 defaultPort)',
                        'the translation service answers each lookup once, from a page table that is fixed within a run',
                        'the controller follows the flush protocol (discard, then restart)',
                        'addresses below 2^61, page size a power of two <= 2^21 (trace encoding <<hi, lo>> with lo < 2^30)']


def replay(ctx, path):
    rp = json.load(open(path))['replay']
    drv = ctx.go_build('c16')
    d = rp['driver']
    t = os.path.join(ctx.scratch, 'replay.ndjson')
    if 'scenarios' in d:
        sfile = os.path.join(ctx.scratch, 'scen.json')
        json.dump(d['scenarios'], open(sfile, 'w'))
        args = ['-scen', sfile, '-out', t]
    else:
        args = d['args'] + [t]
    p, stats = common.run_driver(ctx, drv, args)
    if stats is None:
        raise vlib.Infra('driver failed: ' + p.stdout[-2000:])
    before = len(ctx.violations)
    common.validate_and_triage(ctx, TSPEC, t, d)
    return 1 if len(ctx.violations) > before else 0
