"""Reusable check flows.

component_flow: the template of DESIGN.md section 2 for message-passing
components — (1) model-check the design spec, (2) export TLC behaviours as
environment scenarios, (3) replay them plus seeded adversarial environments
against the real component, (4) validate every recorded trace against the
trace spec, (5) binding self-test (a corrupted trace must be rejected)."""
import copy
import json
import os
import random

import vlib


def acts_to_steps(beh, keep=None):
    steps = []
    for st in beh[1:]:
        a = st.get('act')
        if isinstance(a, dict) and a.get('a') not in (None, 'Init'):
            if keep is None or keep(a):
                steps.append(a)
    return steps


def validate_and_triage(ctx, tspec, trace_path, driver_info, max_rounds=6):
    """Validate a concatenated trace.  Each rejected sub-trace is confirmed in
    isolation, reported (known finding or violation), removed, and the rest is
    validated again so later traces are still examined."""
    spec_dirs, module, cfg = tspec['dirs'], tspec['module'], tspec['cfg']
    parts = vlib.split_traces(trace_path)
    accepted = 0
    rounds = 0
    cur = trace_path
    remaining = parts
    while remaining and rounds < max_rounds:
        rounds += 1
        v = ctx.validate_trace(spec_dirs, module, cfg, cur, dfs=tspec.get('dfs', False),
                               timeout=tspec.get('timeout', 900), heap=tspec.get('heap'))
        if v['accepted']:
            accepted += len(remaining)
            break
        hw = v['highwater'] or 1
        # locate the failing sub-trace within `remaining`
        pos, idx = 0, len(remaining) - 1
        for i, (_, recs) in enumerate(remaining):
            if pos < hw <= pos + len(recs):
                idx = i
                break
            pos += len(recs)
        _, bad = remaining[idx]
        sub = os.path.join(ctx.scratch, 'sub_%d.ndjson' % rounds)
        vlib.write_ndjson(sub, bad)
        v2 = ctx.validate_trace(spec_dirs, module, cfg, sub, dfs=tspec.get('dfs', False),
                                timeout=tspec.get('timeout', 900), heap=tspec.get('heap'))
        if v2['accepted']:
            raise vlib.Infra('rejection at line %d not reproduced on the isolated sub-trace' % hw)
        at = (v2['highwater'] or 1)
        ev = bad[min(at, len(bad)) - 1] if bad else {}
        sig = {'kind': 'trace_rejected', 'violated': ','.join(sorted(set(v2['violated']))) or 'no_matching_action',
               'event': ev.get('e')}
        if tspec.get('signature'):
            sig.update(tspec['signature'](bad, at, v2))
        what = '%s: real-code trace not a behaviour of %s: %s at event #%d %s' % (
            ctx.pid, module, sig['violated'], at, json.dumps(ev)[:300])
        new = ctx.report_failure(what, sig, {'driver': driver_info, 'trace_spec': [spec_dirs, module, cfg],
                                              'failing_index': at, 'trace': bad})
        if new:
            # one VIOLATION line per trace file is enough; the rest is examined once this one is dealt with
            ctx.cov['traces_validated_against_impl'] += accepted + idx
            return accepted + idx
        accepted += idx
        remaining = remaining[idx + 1:]
        if remaining:
            cur = os.path.join(ctx.scratch, 'rest_%d.ndjson' % rounds)
            vlib.write_ndjson(cur, [r for _, recs in remaining for r in recs])
    ctx.cov['traces_validated_against_impl'] += accepted
    return accepted


def selftest_binding(ctx, tspec, trace_path, corruptions):
    """A trace spec that accepts corrupted traces is vacuous: infrastructure error."""
    parts = vlib.split_traces(trace_path)
    if not parts:
        raise vlib.Infra('selftest: no trace')
    rng = random.Random(ctx.seed)
    done = 0
    results = []
    for name, fn in corruptions:
        # try a few sub-traces until the corruption applies
        for _, recs in rng.sample(parts, min(len(parts), 6)):
            bad = fn(copy.deepcopy(recs), rng)
            if bad is None:
                continue
            p = os.path.join(ctx.scratch, 'selftest_%s.ndjson' % name)
            vlib.write_ndjson(p, bad)
            v = ctx.validate_trace(tspec['dirs'], tspec['module'], tspec['cfg'], p, dfs=tspec.get('dfs', False),
                                   heap=tspec.get('heap'))
            if v['accepted']:
                raise vlib.Infra('binding self-test: corruption %r was ACCEPTED by %s (vacuous trace spec)' % (
                    name, tspec['module']))
            results.append({'corruption': name, 'rejected_at': v['highwater'], 'violated': v['violated']})
            done += 1
            break
    ctx.cov['binding_selftest'] = results
    if done == 0:
        raise vlib.Infra('binding self-test: no corruption applicable')
    return results


def run_driver(ctx, binary, args, timeout=900):
    p = ctx.run([binary] + [str(a) for a in args], timeout=timeout, check=False)
    if p.returncode != 0:
        return p, None
    stats = None
    for line in p.stdout.strip().splitlines()[::-1]:
        try:
            stats = json.loads(line)
            break
        except ValueError:
            continue
    return p, stats
