"""C19 (component part "cpctrl") — control choreography of the command processor.

spec/cpctrl/CPCtrl.tla        per request kind (flush, copy, launch, RDMA drain/restart, shootdown, page copy, GPU
                              restart) the staged exchange with the units behind the CP, driven by the shared
                              acknowledgement counters; driver and units explicit
spec/cpctrl/MC_CPCtrl*.cfg    RspOnce / RspAfterAll / StageOrder / EachUnitOnce / InOrder / AllServed / NoPanic
                              (+ Progress): intended design (Gate), as implemented under a disciplined environment
                              (EnvGate), and the expected counterexample of the code as implemented in a free one
spec/cpctrl/CPCtrlScen.tla    behaviours -> environment scenarios replayed on the real cp.CommandProcessor
spec/cpctrl/CPCtrlTrace.tla   port-event traces of the real CP checked against CPCtrl

run_component(ctx) / replay_component(ctx, path) are called from checks/c19.py.
"""
import json
import os
from concurrent.futures import ThreadPoolExecutor

import common
import vlib

class Sub:
    """ctx with a scratch directory of its own: common.validate_and_triage / selftest_binding write files with
    fixed names (sub_N, rest_N, selftest_X) into ctx.scratch, and the phases of this check run in parallel."""
    _n = 0

    def __init__(self, ctx, name):
        Sub._n += 1
        self._c = ctx
        self.scratch = ctx.sub('%s_%d' % (name, Sub._n))

    def __getattr__(self, a):
        return getattr(self._c, a)


def final_cov_zero(r):
    """Actions with zero count in the LAST coverage report of a -coverage run (a slow run also prints interim
    reports, in which actions not reached yet have zero count)."""
    import re
    out = r.out
    k = out.rfind('The coverage statistics at')
    if k >= 0:
        out = out[k:]
    zeros = []
    for m in re.finditer(r'^<(\w+) line \d+, col \d+ to line \d+, col \d+ of module (\w+)>: (\d+):(\d+)', out, re.M):
        if int(m.group(4)) == 0 and int(m.group(3)) == 0:
            zeros.append(m.group(2) + '!' + m.group(1))
    return sorted(set(zeros))


def selftest_one(ctx, tspec, trace, corruption, tries=60):
    """Binding self-test with one corruption: applied to the first sub-trace (seeded order) it fits; the trace
    spec must reject the result.  Returns [] when it fits none of the sub-traces tried."""
    import copy
    import random
    name, fn = corruption
    parts = vlib.split_traces(trace)
    rng = random.Random(ctx.seed)
    rng.shuffle(parts)
    sc = Sub(ctx, 'self')
    for _, recs in parts[:tries]:
        bad = fn(copy.deepcopy(recs), rng)
        if bad is None:
            continue
        p = os.path.join(sc.scratch, 'selftest_%s.ndjson' % name)
        vlib.write_ndjson(p, bad)
        v = ctx.validate_trace(tspec['dirs'], tspec['module'], tspec['cfg'], p, heap=tspec.get('heap'))
        if v['accepted']:
            raise vlib.Infra('binding self-test: corruption %r was ACCEPTED by %s (vacuous trace spec)' % (name, tspec['module']))
        return [{'corruption': name, 'rejected_at': v['highwater'], 'violated': v['violated']}]
    return []


CSPEC = {'dirs': ['cpctrl'], 'module': 'CPCtrlTrace.tla', 'cfg': 'CPCtrlTrace.cfg', 'timeout': 3000}
CPU = 'c19cp'


def _csig(bad, at, v2):
    """Which kinds of requests were open (issued, not answered) when the trace was rejected."""
    s = {'part': 'cpctrl'}
    ev = bad[min(at, len(bad)) - 1] if bad else {}
    if ev.get('e') == 'Panic':
        s['panic'] = str(ev.get('msg'))[:80]
    cut = at - 1 if v2['violated'] else at
    if v2['violated'] and at >= 2:
        s['event'] = bad[at - 2].get('e')
    kinds = {}
    uncorr = []
    for r in bad[:cut]:
        if r['e'] == 'EnvReq':
            kinds[r['id']] = r['k']
        elif r['e'] == 'Send' and r['p'] == 'drv':
            if r['id']:
                kinds.pop(r['id'], None)
            else:
                uncorr.append(r['k'])
    for k in uncorr:   # uncorrelated answers close the oldest open request of their kind
        for i in sorted(kinds):
            if kinds[i] == k:
                del kinds[i]
                break
    s['open'] = ','.join(sorted(set(kinds.values())))
    # was a cache flush ever outstanding together with a shootdown or a GPU restart?
    live, overlap = {}, False
    for r in bad[:cut]:
        if r['e'] == 'EnvReq':
            live[r['id']] = r['k']
        elif r['e'] == 'Send' and r['p'] == 'drv':
            for i in sorted(live):
                if (r['id'] and i == r['id']) or (not r['id'] and live[i] == r['k']):
                    del live[i]
                    break
        if 'flush' in live.values() and {'shoot', 'restart'} & set(live.values()):
            overlap = True
    s['shared_counter_overlap'] = overlap
    return s


CSPEC['signature'] = _csig


def corruptions(full):
    def pick(recs, rng, pred):
        idx = [i for i, r in enumerate(recs) if pred(r)]
        return rng.choice(idx) if idx else None

    def early_flush_answer(recs, rng):
        # the answer to a flush moved in front of the last cache acknowledgement before it
        i = pick(recs, rng, lambda r: r['e'] == 'Send' and r['p'] == 'drv' and r['k'] == 'flush')
        if i is None:
            return None
        js = [j for j in range(i) if recs[j]['e'] == 'UnitRsp' and recs[j]['p'] == 'cache']
        if not js:
            return None
        r = recs.pop(i)
        recs.insert(js[-1], r)   # before the last cache has even answered
        return recs

    def tlb_before_caches(recs, rng):
        # a TLB flush of a shootdown moved in front of the first cache flush of that shootdown
        i = pick(recs, rng, lambda r: r['e'] == 'Send' and r['p'] == 'tlb' and r['k'] == 'tlbflush')
        if i is None:
            return None
        js = [j for j in range(i) if recs[j]['e'] == 'Send' and recs[j]['p'] == 'cache' and recs[j]['fl'] == 'inv']
        if not js:
            return None
        r = recs.pop(i)
        recs.insert(js[0], r)
        return recs

    def skip_one_unit(recs, rng):
        i = pick(recs, rng, lambda r: r['e'] == 'Send' and r['p'] in ('cu', 'at', 'cache', 'tlb') and r['k'] != 'map')
        if i is None:
            return None
        p, k, u = recs[i]['p'], recs[i]['k'], recs[i]['u']
        out, dropped = [], {'Send': False, 'UnitTake': False, 'UnitRsp': False, 'Recv': False}
        for j, r in enumerate(recs):
            if j >= i and r.get('p') == p and r.get('u') == u and r['e'] in dropped and not dropped[r['e']] and \
                    (r['k'] == k or r['e'] in ('UnitRsp', 'Recv')):
                dropped[r['e']] = True
                continue
            out.append(r)
        return out

    def plain_flush_in_shootdown(recs, rng):
        i = pick(recs, rng, lambda r: r['e'] == 'Send' and r['p'] == 'cache' and r['fl'] == 'inv')
        if i is None:
            return None
        recs[i]['fl'] = 'none'
        return recs

    def duplicate_answer(recs, rng):
        i = pick(recs, rng, lambda r: r['e'] == 'Send' and r['p'] == 'drv')
        if i is None:
            return None
        return recs[:i + 1] + [dict(recs[i])] + recs[i + 1:]

    def wrong_pages_to_tlb(recs, rng):
        i = pick(recs, rng, lambda r: r['e'] == 'Send' and r['p'] == 'tlb' and r['k'] == 'tlbflush')
        if i is None:
            return None
        recs[i]['x'] ^= 1
        return recs

    def copy_during_flush(recs, rng):
        # a copy handed to the DMA engine moved in front of the last cache acknowledgement of a flush
        i = pick(recs, rng, lambda r: r['e'] == 'Recv' and r['p'] == 'drv' and r['k'] == 'copy')
        if i is None:
            return None
        js = [j for j in range(i) if recs[j]['e'] == 'Recv' and recs[j]['p'] == 'cache' and recs[j]['k'] == 'flushrsp']
        snd = [j for j in range(i) if recs[j]['e'] == 'Send' and recs[j]['p'] == 'dma']
        if not js or not snd or snd[-1] != i - 1 or js[-1] > snd[-1]:
            return None
        grp = [recs[i - 1], recs[i]]
        del recs[i - 1:i + 1]
        recs[js[-1]:js[-1]] = grp
        return recs

    cs = [('flush_answered_before_last_cache_ack', early_flush_answer), ('tlb_flushed_before_caches', tlb_before_caches),
          ('one_unit_not_addressed', skip_one_unit), ('duplicate_answer_to_driver', duplicate_answer)]
    if full:
        cs += [('shootdown_cache_flush_without_invalidate', plain_flush_in_shootdown),
               ('tlb_flush_with_other_pages', wrong_pages_to_tlb), ('copy_forwarded_during_flush', copy_during_flush)]
    return cs


def nontrivial(recs):
    kinds = {r['k'] for r in recs if r['e'] == 'EnvReq'}
    answered = sum(1 for r in recs if r['e'] == 'Send' and r['p'] == 'drv')
    return answered >= 2 and len(kinds) >= 2


def _drive(ctx, drv, args):
    p, stats = common.run_driver(ctx, drv, args)
    if stats is None:
        raise vlib.Infra('driver failed: ' + p.stdout[-2000:])
    return stats


def phase_mc(ctx, thorough):
    w = vlib.NCPU // 2 if thorough else 3
    zeros = []
    for cfg, what in (('MC_CPCtrl.cfg', 'intended design (Gate), free environment: flush + copy beside a full handshake'),
                      ('MC_CPCtrl_disc.cfg', 'as implemented, disciplined environment'),
                      ('MC_CPCtrl_2shoot.cfg', 'as implemented: shootdowns and copies back to back, the second shootdown is held')):
        r = ctx.tlc_expect_ok(['cpctrl'], 'MC_CPCtrl.tla', cfg, coverage=(cfg == 'MC_CPCtrl.cfg'), timeout=1200, workers=w)
        ctx.log('%s (%s): %d distinct states, depth %d' % (cfg, what, r.distinct, r.depth))
        if cfg == 'MC_CPCtrl.cfg':
            zeros = [z for z in final_cov_zero(r) if 'AcceptLaunch' not in z and 'SendMap' not in z and 'RecvWGDone' not in z
                     and 'LaunchRsp' not in z]
    if zeros:
        raise vlib.Infra('vacuity: actions never taken in MC_CPCtrl: %s' % zeros)
    r = ctx.tlc(['cpctrl'], 'MC_CPCtrl.tla', 'MC_CPCtrl_asimpl.cfg', timeout=900, workers=w)
    if not r.violated:
        raise vlib.Infra('MC_CPCtrl_asimpl: expected a counterexample of the shared acknowledgement counters (%s)' % r.error)
    ctx.log('MC_CPCtrl_asimpl (as implemented, free environment): %s violated, as expected' % ','.join(r.violated))
    r = ctx.tlc_expect_ok(['cpctrl'], 'MC_CPCtrl.tla', 'MC_CPCtrl_live.cfg', timeout=1200, workers=w)
    ctx.log('MC_CPCtrl_live (Progress under fairness): %d distinct states' % r.distinct)
    if thorough:
        for cfg in ('MC_CPCtrl_launch.cfg', 'MC_CPCtrl_big.cfg', 'MC_CPCtrl_acc.cfg'):
            r = ctx.tlc_expect_ok(['cpctrl'], 'MC_CPCtrl.tla', cfg, coverage=(cfg == 'MC_CPCtrl_launch.cfg'), timeout=3000, workers=w)
            ctx.log('%s: %d distinct states, depth %d' % (cfg, r.distinct, r.depth))
            if cfg == 'MC_CPCtrl_launch.cfg' and final_cov_zero(r):
                raise vlib.Infra('vacuity: actions never taken in MC_CPCtrl_launch: %s' % final_cov_zero(r))


def phase_scen(ctx, drv, thorough, res):
    behs, _ = ctx.simulate(['cpctrl'], 'CPCtrlScen.tla', 'CPCtrlScen.cfg', num=200 if thorough else 25, depth=170)
    cfg = {'ncu': 2, 'nat': 2, 'ntlb': 2, 'ncache': 3, 'ndisp': 2}
    scen = [{'cfg': cfg, 'seed': ctx.seed * 1000 + i, 'steps': common.acts_to_steps(b)} for i, b in enumerate(behs)]
    sfile = os.path.join(ctx.scratch, 'cpscen.json')
    json.dump(scen, open(sfile, 'w'))
    t = os.path.join(ctx.scratch, 'trace_cpscen.ndjson')
    stats = _drive(ctx, drv, ['-scen', sfile, '-out', t])
    ctx.log('replayed %d TLC behaviours on the real CP: %s' % (len(scen), stats))
    ctx.sample({'cp_scenario_from_TLC_behaviour': scen[0]['steps'][:12]})
    common.validate_and_triage(Sub(ctx, 'cpscen'), CSPEC, t, {'cmd': CPU, 'part': 'cpctrl', 'scenarios': scen})
    res['traces'].append(t)
    res['events'] += stats['events']


def phase_random(ctx, drv, thorough, res):
    t = os.path.join(ctx.scratch, 'trace_cprand.ndjson')
    args = ['-random', 600 if thorough else 60, '-seed', ctx.seed, '-gate', '-out', t]
    stats = _drive(ctx, drv, args)
    ctx.log('seeded environments on the real CP (flush never beside shootdown/restart): %s' % stats)
    common.validate_and_triage(Sub(ctx, 'cprand'), CSPEC, t, {'cmd': CPU, 'part': 'cpctrl', 'args': args[:-1]})
    res['traces'].append(t)
    res['first'] = t
    res['events'] += stats['events']
    with ThreadPoolExecutor(max_workers=8) as ex:
        futs = [ex.submit(selftest_one, ctx, CSPEC, t, c) for c in corruptions(thorough)]
        for f in futs:
            res['selftest'] += f.result()


def phase_known(ctx, drv, thorough, res):
    """Unrestricted environments: the code as implemented mixes up a cache flush with a shootdown / restart
    (known finding); accepted once the CP serialises them."""
    t = os.path.join(ctx.scratch, 'trace_cpfree.ndjson')
    args = ['-known', 1, '-random', 40 if thorough else 0, '-seed', ctx.seed + 9, '-out', t]
    stats = _drive(ctx, drv, args)
    ctx.log('unrestricted environments on the real CP: %s' % stats)
    common.validate_and_triage(Sub(ctx, 'cpfree'), CSPEC, t, {'cmd': CPU, 'part': 'cpctrl', 'args': args[:-1]}, max_rounds=60 if thorough else 8)
    res['traces'].append(t)
    res['events'] += stats['events']


def run_component(ctx):
    thorough = ctx.tier == 'thorough'
    drv = ctx.go_build(CPU)
    res = {'traces': [], 'events': 0, 'selftest': [], 'first': None}
    jobs = [lambda: phase_mc(ctx, thorough), lambda: phase_scen(ctx, drv, thorough, res),
            lambda: phase_random(ctx, drv, thorough, res), lambda: phase_known(ctx, drv, thorough, res)]
    with ThreadPoolExecutor(max_workers=len(jobs)) as ex:
        futs = [ex.submit(j) for j in jobs]
        errs = []
        for f in futs:
            try:
                f.result()
            except Exception as e:  # noqa: BLE001
                errs.append(e)
    if errs:
        raise errs[0]
    parts = []
    for t in res['traces']:
        parts += vlib.split_traces(t)

    def strip(recs):
        return json.dumps([{k: v for k, v in r.items() if k != 'seq'} for r in recs], sort_keys=True)

    nt = {strip(recs) for _, recs in parts if nontrivial(recs)}
    if len(res['selftest']) < 4 and not ctx.violations:
        raise vlib.Infra('cpctrl binding self-test: only %d corruptions applied' % len(res['selftest']))
    ctx.sample({'cp_trace_excerpt': [{k: v for k, v in r.items() if k not in ('to',)} for r in parts[0][1][1:12]]})
    return {'cp_traces': len(parts), 'cp_distinct_nontrivial': len(nt), 'cp_events_validated': res['events'],
            'cp_requests_answered_by_real_cp': sum(1 for _, recs in parts for r in recs if r['e'] == 'Send' and r['p'] == 'drv'),
            'cp_binding_selftest': res['selftest']}


def replay_component(ctx, path):
    rp = json.load(open(path))['replay']
    drv = ctx.go_build(CPU)
    d = rp['driver']
    t = os.path.join(ctx.scratch, 'replay_cp.ndjson')
    if 'scenarios' in d:
        sfile = os.path.join(ctx.scratch, 'cpscen.json')
        json.dump(d['scenarios'], open(sfile, 'w'))
        args = ['-scen', sfile, '-out', t]
    else:
        args = d['args'] + [t]
    _drive(ctx, drv, args)
    before = len(ctx.violations)
    common.validate_and_triage(ctx, CSPEC, t, d)
    return 1 if len(ctx.violations) > before else 0
