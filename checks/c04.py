"""C04 — instruction decoding is total, deterministic and inverse to encoding.

spec/decode/Decode.tla        Decode (intended behaviour of insts.Disassembler.Decode) and Encode
spec/decode/OpTable.tla       opcode table generated from the golden snapshot (golden/optable.tsv + audit.tsv)
spec/decode/MC_Decode*.cfg    exhaustive Total/RoundTrip/Sized/Suffix/Prefix over a structured word space
spec/decode/DecodeSeq.tla     sequential decoder over assembled programs (Tiling, NeverStuck, PartialFetch, Consumed)
spec/decode/DecodeScen.tla    spec -> code: TLC writes description + Encode(description) for every table row
                              (rows.ndjson) and -simulate behaviours become programs
spec/decode/DecodeTrace.tla   code -> spec: every real Decode call (scenarios, random/mutated/truncated words,
                              every shipped kernel) must be what Decode says
"""
import json
import os
import re
import subprocess
import sys

import common
import vlib

LEVEL = 'model_checking'
RULE = ('cases = calls of the real insts.Disassembler.Decode (stand-alone words: spec-encoded table rows, seeded '
        'random / table-directed / mutated / truncated words; sequential decoding of TLC-assembled programs and of '
        'shipped .hsaco kernels), each validated against Decode.tla; distinct = distinct (mode, byte string) inputs; '
        'non-trivial = the decoder returned an instruction with at least one operand, or refused a buffer of >= 4 bytes')
SPEC = ['decode']
DEVIATIONS = ['short_panic', 'operand_panic', 'operand_inst', 'literal_twice', 'sdwa_k_inst', 'sdwa_sel_inst',
              'sreg_range_inst', 'sreg_linear', 'vop3_lit_inst', 'ds_gds_bit4', 'ds_read_no_dst', 'seq_undecodable']
GOLDEN = os.path.join(vlib.SPEC, 'decode', 'golden', 'optable.tsv')
MOD_NAMES = ['abs', 'omod', 'neg', 'opsel', 'opselhi', 'off0hi', 'off0lo', 'off1hi', 'off1lo', 'slc', 'glc', 'tfe',
             'imm', 'clamp', 'gds', 'vmcnt', 'lgkmcnt', 'sdwa', 'dst_sel', 'dst_unused', 'src0_sel', 'src1_sel',
             'src0_sext', 'src0_neg', 'src0_abs', 'src1_sext', 'src1_neg', 'src1_abs', 'src2_neg', 'src2_abs']
SLOT_NAMES = ['src0', 'src1', 'src2', 'dst', 'sdst', 'addr', 'data', 'data1', 'base', 'offset', 'simm16', 'saddr']


CLEAN = {}     # trace path -> (lines that needed a deviation, high-water mark of the first pass)


def trace_cfg(devs):
    return ('SPECIFICATION TSpec\nCONSTANTS\n  Deviations = {%s}\nCONSTRAINT Mark\nPOSTCONDITION Accepted\n'
            'CHECK_DEADLOCK FALSE\n' % ', '.join('"%s"' % d for d in devs))


def tspec(devs, name='DecodeTraceRun.cfg'):
    return {'dirs': SPEC, 'module': 'DecodeTrace.tla', 'cfg': name, 'extra': {name: trace_cfg(devs)}}


# ----------------------------------------------------------------------------- explaining a rejected line
def expected_of(ctx, rec):
    """What Decode.tla says about one logged call (parsed TLA+ value), via the 'explore' deviation."""
    p = os.path.join(ctx.scratch, 'explain.ndjson')
    r = dict(rec)
    r['e'] = 'Dec'
    r.pop('pc', None)
    vlib.write_ndjson(p, [{'e': 'Reset'}, r])
    name = 'DecodeTraceExplain.cfg'
    res = ctx.tlc(SPEC, 'DecodeTrace.tla', name, workers=1, timeout=300, kind='trace',
                  extra_files={name: trace_cfg(['explore']), 'trace.ndjson': p})
    m = re.search(r'<<\s*"EXPECTED",\s*\d+,\s*(\[.*?\])\s*>>\n', res.out, re.S)
    if not m:
        return None
    try:
        v = vlib.tlaval.parse_value(m.group(1))
        e = v['e']
        e['text'] = v.get('text')
        return e
    except Exception:
        return None


def diff_fields(got, exp):
    """Names of the aspects in which the real outcome differs from the spec's answer."""
    if exp is None:
        return ['?']
    if exp.get('k') != 'inst' or got.get('k') != 'inst':
        return ['kind']
    d = [k for k in ('f', 'op', 'nm', 'eu', 'sz') if got.get(k) != exp.get(k)]
    for i, (a, b) in enumerate(zip(got.get('o', []), exp.get('o', []))):
        if list(a) != list(b):
            d.append(SLOT_NAMES[i])
    for i, (a, b) in enumerate(zip(got.get('m', []), exp.get('m', []))):
        if a != b:
            d.append(MOD_NAMES[i])
    if got.get('pr') != 1:
        d.append('unprintable')
    elif exp.get('text') not in (None, '?') and got.get('ps') != exp.get('text'):
        d.append('text')
    return d


def make_signature(ctx):
    def sig(bad, at, v2):
        rec = bad[min(at, len(bad)) - 1] if bad else {}
        out = {'deviation': 'none'}
        if rec.get('e') in ('Dec', 'KDec'):
            exp = expected_of(ctx, rec)
            got = rec.get('r', {})
            out['expected'] = (exp or {}).get('why', (exp or {}).get('k', '?')) if (exp or {}).get('k') != 'inst' else 'inst'
            out['got'] = got.get('k') + ('_' + got.get('pk', '') if got.get('k') == 'panic' else '')
            out['differs'] = ','.join(diff_fields(got, exp)) if got.get('k') == 'inst' else ''
            out['agree'] = rec.get('ag')
            out['input'] = {'c': rec.get('c'), 'b': rec.get('b')}
            if exp and exp.get('k') == 'inst':
                out['expected_inst'] = {k: exp.get(k) for k in ('f', 'op', 'nm', 'sz', 'o', 'm', 'text')}
        return out
    return sig


# ----------------------------------------------------------------------------- validation + deviation reports
def validate(ctx, trace_path, driver_info, stats):
    """Validate a trace with the as-implemented deviations tolerated; every use of a
    deviation is real-code behaviour the strict spec refuses: report it (known finding
    or violation).  A line no deviation explains is reported by validate_and_triage."""
    ts = tspec(DEVIATIONS)
    ts['signature'] = make_signature(ctx)
    ts['timeout'] = 1500
    nrun0 = len(ctx.cov['tlc_runs'])
    orig = ctx.validate_trace

    outs = []

    def vt(spec_dirs, module, cfg, tp, **kw):
        ef = dict(kw.pop('extra_files', None) or {})
        ef.update(ts['extra'])
        v = orig(spec_dirs, module, cfg, tp, extra_files=ef, **kw)
        outs.append((tp, v['res'].out))
        return v

    ctx.validate_trace = vt
    try:
        acc = common.validate_and_triage(ctx, ts, trace_path, driver_info)
    finally:
        ctx.validate_trace = orig
    # which lines of the whole trace needed a deviation / where the first pass stopped
    # (the binding self-test only corrupts lines that conform to the strict spec)
    first = [o for tp, o in outs if tp == trace_path][:1]
    devl = {int(m.group(1)) for m in re.finditer(r'<<"DEVIATION", (\d+),', first[0])} if first else set()
    hw = re.search(r'<<"HIGHWATER", (\d+), (\d+)>>', first[0]) if first else None
    CLEAN[trace_path] = (devl, int(hw.group(1)) if hw else 0)
    # deviations used on the first (whole-trace) pass and on later passes over the remainder
    seen = {}
    for tp, out in outs:
        if not (tp == trace_path or os.path.basename(tp).startswith('rest_')):
            continue            # isolated sub-traces repeat lines already seen
        lines = None
        for m in re.finditer(r'<<"DEVIATION", (\d+), "(\w+)", "(\w+)", "(\w+)", "([\w-]+)">>', out):
            ln, dev = int(m.group(1)), m.group(2)
            if dev in seen:
                seen[dev]['n'] += 1
                continue
            if lines is None:
                lines = open(tp).read().split('\n')
            rec = json.loads(lines[ln - 1])
            seen[dev] = {'n': 1, 'rec': rec, 'why': m.group(3), 'got': m.group(4), 'kernel': None}
            if dev == 'seq_undecodable':
                for back in range(ln - 1, 0, -1):
                    r0 = json.loads(lines[back - 1])
                    if r0.get('e') == 'KStart':
                        seen[dev]['kernel'] = r0.get('name')
                        break
    for dev, s in sorted(seen.items()):
        rec = s['rec']
        sig = {'kind': 'deviation', 'deviation': dev}
        if dev == 'seq_undecodable':
            sig['kernel'] = s['kernel']
        what = ('%s: real decoder departs from Decode.tla (%s): spec says %s, decoder gave %s for mode=%s bytes=%s%s; '
                '%d occurrence(s) in this trace' % (
                    ctx.pid, dev, s['why'], s['got'], rec.get('c'), rec.get('b'),
                    (' [%s]' % rec['r'].get('msg', rec['r'].get('ps', ''))) if isinstance(rec.get('r'), dict) else '',
                    s['n']))
        ctx.report_failure(what, sig, {'driver': {'cmd': 'c04', 'words': [{'c': rec.get('c'), 'b': rec.get('b')}],
                                                  'kernel': s['kernel']},
                                       'trace_spec': [SPEC, 'DecodeTrace.tla', 'strict'], 'deviation': dev,
                                       'record': rec})
        stats.setdefault('deviations', {})[dev] = stats.get('deviations', {}).get(dev, 0) + s['n']
    return acc


def run_driver(ctx, drv, args):
    p, st = common.run_driver(ctx, drv, args, timeout=1200)
    if st is None:
        raise vlib.Infra('driver failed: ' + p.stdout[-2000:])
    return st


# ----------------------------------------------------------------------------- scenarios from TLC
def scenarios(ctx, nsim, variants):
    cfg = ('SPECIFICATION SSpec\nCONSTANTS\n  Descs = {}\n  MaxProg = 10\n  CDNA3 = FALSE\n  Seed = %d\n  Variants = %d\n'
           'INVARIANTS Tiling NeverStuck\nCHECK_DEADLOCK FALSE\n' % (ctx.seed % 1000, variants))
    behs, res = ctx.simulate(SPEC, 'DecodeScen.tla', 'DecodeScenRun.cfg', num=nsim, depth=40,
                             extra_files={'DecodeScenRun.cfg': cfg}, timeout=900)
    rows = []
    for line in open(os.path.join(res.dir, 'rows.ndjson')):
        r = json.loads(line)
        if r['k'] == 'row':
            rows.append(r)
        elif r['k'] == 'und':
            raise vlib.Infra('DecodeScen produced an undecodable row word: %s' % line[:200])
    scen = []
    for c in (0, 1):
        sel = [r for r in rows if r['c'] == c]
        if sel:
            scen.append({'c': c, 'words': [r['b'] for r in sel], 'want': [r['want'] for r in sel]})
    # history pairs (64-bit use, 32-bit use of one inline constant); quick: a third of them, rotating with the seed
    pairs = []
    for i, line in enumerate(open(os.path.join(res.dir, 'hist.ndjson'))):
        r = json.loads(line)
        if r['k'] != 'pair':
            raise vlib.Infra('DecodeScen produced an undecodable history word: %s' % line[:200])
        if variants >= 8 or (i + ctx.seed) % 3 == 0:
            pairs.append({'a': r['a'], 'b': r['b'], 'wa': r['wa'], 'wb': r['wb']})
    scen.insert(0, {'c': 0, 'pairs': pairs})     # first: the decoders have no history yet
    ctx.cov['history_pairs'] = len(pairs)
    progs = 0
    for b in behs:
        last = b[-1]
        prog, code = last.get('prog') or [], last.get('code') or []
        if prog and last.get('phase') == 'run' and list(last.get('out') or []) == list(prog):
            scen.append({'c': 0, 'code': list(code), 'want': list(prog)})
            progs += 1
    covered = {(r['want']['f'], r['want']['op']) for r in rows}
    return scen, len(rows), progs, covered


def golden_rows():
    """(format, opcode) of every row of the audited golden table."""
    sys.path.insert(0, os.path.join(vlib.SPEC, 'decode'))
    import gen_optable
    return {(r[0], r[1]) for r in gen_optable.rows()}


# ----------------------------------------------------------------------------- self-test corruptions
def corruptions():
    def insts(recs):
        return [i for i, r in enumerate(recs) if r.get('e') in ('Dec', 'KDec') and r['r'].get('k') == 'inst']

    def wrong_size(recs, rng):
        idx = [i for i in insts(recs) if recs[i]['e'] == 'Dec']
        if not idx:
            return None
        r = recs[rng.choice(idx)]['r']
        r['sz'] = 4 if r['sz'] == 8 else 8
        return recs

    def swap_operands(recs, rng):
        idx = [i for i in insts(recs) if recs[i]['r']['o'][0] != recs[i]['r']['o'][1]]
        if not idx:
            return None
        o = recs[rng.choice(idx)]['r']['o']
        o[0], o[1] = o[1], o[0]
        return recs

    def wrong_register(recs, rng):
        idx = [i for i in insts(recs) if any(x[0] == 'reg' for x in recs[i]['r']['o'])]
        if not idx:
            return None
        o = recs[rng.choice(idx)]['r']['o']
        k = [j for j, x in enumerate(o) if x[0] == 'reg'][0]
        o[k][1] += 1
        return recs

    def wrong_opcode(recs, rng):
        idx = insts(recs)
        if not idx:
            return None
        recs[rng.choice(idx)]['r']['op'] += 1
        return recs

    def error_becomes_inst(recs, rng):
        errs = [i for i, r in enumerate(recs) if r.get('e') == 'Dec' and r['r'].get('k') == 'err' and len(r['b']) >= 4]
        good = insts(recs)
        if not errs or not good:
            return None
        i = rng.choice(errs)
        recs[i]['r'] = json.loads(json.dumps(recs[rng.choice(good)]['r']))
        recs[i]['sx'] = 1
        return recs

    def inst_becomes_error(recs, rng):
        idx = [i for i in insts(recs) if recs[i]['e'] == 'Dec']
        if not idx:
            return None
        i = rng.choice(idx)
        recs[i]['r'] = {'k': 'err', 'msg': 'corrupted'}
        recs[i].pop('sx', None)
        return recs

    def disagreeing_instances(recs, rng):
        idx = insts(recs)
        if not idx:
            return None
        recs[rng.choice(idx)]['ag'] = 0
        return recs

    def skip_instruction(recs, rng):
        idx = [i for i, r in enumerate(recs) if r.get('e') == 'KDec']
        if len(idx) < 3:
            return None
        i = idx[len(idx) // 2]
        return recs[:i] + recs[i + 1:]

    def early_end(recs, rng):
        idx = [i for i, r in enumerate(recs) if r.get('e') == 'KDec']
        if len(idx) < 3 or recs[-1].get('e') != 'KEnd':
            return None
        last = recs[idx[-1]]
        end = dict(recs[-1])
        end['pc'] = last['pc']
        return recs[:idx[-1]] + [end]

    return [('wrong_size', wrong_size), ('swap_operands', swap_operands), ('wrong_register', wrong_register),
            ('wrong_opcode', wrong_opcode), ('error_becomes_inst', error_becomes_inst),
            ('inst_becomes_error', inst_becomes_error), ('disagreeing_instances', disagreeing_instances),
            ('skip_instruction', skip_instruction), ('early_end', early_end)]


def strict_conforming(ctx, trace_path):
    """The part of a validated trace that conforms to the *strict* spec: stand-alone lines that
    needed a deviation are dropped, sub-traces in which a sequential line needed one (or that lie
    beyond the point where validation stopped) are left out.  Every corruption of the self-test
    turns such a line into one the strict spec certainly refuses; on the original lines a
    corruption could coincide with a tolerated deviation (an error replaced by an instruction is
    exactly what 'operand_inst' describes) and be accepted legitimately."""
    devl, hw = CLEAN.get(trace_path, (set(), 0))
    out = []
    for start, recs in vlib.split_traces(trace_path):
        if start + len(recs) - 1 >= hw:          # hw = n + 1 when the whole trace was accepted
            break
        keep, ok = [], True
        for i, r in enumerate(recs):
            if start + i in devl:
                if r.get('e') != 'Dec':
                    ok = False
                    break
                continue
            keep.append(r)
        if ok and len(keep) > 1:
            out.extend(keep)
    p = os.path.join(ctx.scratch, 'selftest_base.ndjson')
    vlib.write_ndjson(p, out)
    return p, len(out)


def binding_selftest(ctx, trace_path):
    base, n = strict_conforming(ctx, trace_path)
    if n < 10:
        if ctx.violations:
            ctx.notes.append('binding self-test skipped: the trace has too few strict-conforming lines after a violation')
            return []
        raise vlib.Infra('binding self-test: no strict-conforming lines in %s' % trace_path)
    ts = tspec([], 'DecodeTraceSelf.cfg')          # strict: no deviation can explain a corruption
    orig = ctx.validate_trace

    def vt(spec_dirs, module, cfg, tp, **kw):
        ef = dict(kw.pop('extra_files', None) or {})
        ef.update(ts['extra'])
        return orig(spec_dirs, module, cfg, tp, extra_files=ef, **kw)

    ctx.validate_trace = vt
    cs = corruptions()
    if ctx.tier != 'thorough':
        # quick: four of the nine corruptions, rotating with the seed (each costs one JVM start)
        k = ctx.seed % len(cs)
        cs = (cs + cs)[k:k + 4]
    try:
        return common.selftest_binding(ctx, ts, base, cs)
    finally:
        ctx.validate_trace = orig


# ----------------------------------------------------------------------------- bookkeeping
def account(ctx, paths):
    total, distinct, nontrivial = 0, set(), 0
    for p in paths:
        for line in open(p):
            r = json.loads(line)
            if r.get('e') not in ('Dec', 'KDec'):
                continue
            total += 1
            key = (r['c'], bytes(r['b']))
            if key in distinct:
                continue
            distinct.add(key)
            res = r['r']
            if res.get('k') == 'inst':
                if any(o[0] != 'none' for o in res['o']):
                    nontrivial += 1
            elif len(r['b']) >= 4:
                nontrivial += 1
    return total, len(distinct), nontrivial


def run(ctx, selftest=False):
    thorough = ctx.tier == 'thorough'
    drv = ctx.go_build('c04')
    stats = {}

    # 0. OpTable.tla must be what the golden table yields (never regenerated from /repo)
    p = subprocess.run([sys.executable, os.path.join(vlib.SPEC, 'decode', 'gen_optable.py'), '--check'])
    if p.returncode != 0:
        raise vlib.Infra('spec/decode/OpTable.tla is not what golden/optable.tsv + audit.tsv generate')

    # 1. design level: the functions (exhaustive over the structured word space), the sequential decoder
    if os.environ.get('VERIF_C04_SKIP_MC'):
        # development aid for mutant campaigns: the design-level runs do not depend on /repo
        ctx.notes.append('design-level model checking skipped (VERIF_C04_SKIP_MC)')
    elif thorough:
        r = ctx.tlc_expect_ok(SPEC, 'MC_Decode.tla', 'MC_Decode_sep.cfg', workers=vlib.NCPU, timeout=3000)
        ctx.log('MC_Decode (separately named invariants): %d words' % (r.distinct // 2))
        r = ctx.tlc_expect_ok(SPEC, 'MC_Decode.tla', 'MC_Decode_wide.cfg', workers=vlib.NCPU, timeout=3000)
        ctx.cov['exhaustive'] = True
    else:
        r = ctx.tlc_expect_ok(SPEC, 'MC_Decode.tla', 'MC_Decode.cfg', timeout=900)
    if not os.environ.get('VERIF_C04_SKIP_MC'):
        ctx.log('MC_Decode: %d words, Total/RoundTrip/Sized/Suffix/Prefix hold (%.0fs)' % (r.distinct // 2, r.wall))
        stats['mc_words'] = r.distinct // 2
        r = ctx.tlc_expect_ok(SPEC, 'MC_DecodeSeq.tla', 'MC_DecodeSeq_big.cfg' if thorough else 'MC_DecodeSeq.cfg',
                              timeout=1800)
        ctx.log('MC_DecodeSeq: %d distinct states, Tiling/NeverStuck/PartialFetch + Consumed under WF(Step)' % r.distinct)
        stats['mc_seq_states'] = r.distinct

    # 2. spec -> code: every table row + simulated programs, bytes produced by Encode
    scen, nrows, nprogs, covered = scenarios(ctx, 300 if thorough else 40, 8 if thorough else 2)
    missing = golden_rows() - covered
    if missing:
        raise vlib.Infra('row cover misses table rows: %s' % sorted(missing)[:10])
    sfile = os.path.join(ctx.scratch, 'scen.json')
    json.dump(scen, open(sfile, 'w'))
    t1 = os.path.join(ctx.scratch, 'trace_scen.ndjson')
    st = run_driver(ctx, drv, ['-scen', sfile, '-out', t1, '-seed', ctx.seed])
    ctx.log('spec-encoded: %d row words (all %d table rows) + %d programs: %s' % (nrows, len(covered), nprogs, st))
    ctx.sample({'spec_encoded_row': {'bytes': scen[1]['words'][0], 'description': scen[1]['want'][0]['nm']}})
    validate(ctx, t1, {'cmd': 'c04', 'scenarios': 'regenerate with the same seed/tier'}, stats)

    # 3. code -> spec: shipped kernels, seeded random / directed / mutated / truncated words
    traces = [t1]
    kmod = 1 if thorough else 4
    chunks = 8 if thorough else 1
    per = 50000 if thorough else 16000
    for i in range(chunks):
        t = os.path.join(ctx.scratch, 'trace_rand_%d.ndjson' % i)
        args = ['-golden', GOLDEN, '-random', per, '-seed', ctx.seed * 1000 + i]
        # chunk 0 decodes the shipped kernels of the tier; later chunks a few of them, whose
        # instruction words are the base of the mutated-word class
        args += ['-kernels', vlib.REPO, '-kmod', kmod if i == 0 else 9, '-koff', ctx.seed + i]
        args += ['-out']
        st = run_driver(ctx, drv, args + [t])
        ctx.log('kernels + random words [%d]: %s' % (i, st))
        stats['kernels'] = stats.get('kernels', 0) + st.get('kernels', 0)
        stats['kernel_insts'] = stats.get('kernel_insts', 0) + st.get('seq_insts', 0)
        validate(ctx, t, {'cmd': 'c04', 'args': args}, stats)
        traces.append(t)

    total, distinct, nontrivial = account(ctx, traces)
    ctx.cov.update({'evaluations': total, 'distinct_nontrivial': nontrivial, 'distinct_inputs': distinct,
                    'table_rows_covered': len(covered), 'c04': stats})
    for line in open(traces[-1]):
        r = json.loads(line)
        if r.get('e') == 'Dec' and r['r'].get('k') == 'inst':
            ctx.sample({'decoded': {'bytes': r['b'], 'printed': r['r'].get('ps'), 'size': r['r'].get('sz')}})
            break

    # 4. binding self-test
    res = binding_selftest(ctx, traces[-1])
    ctx.log('binding self-test: %d corruptions rejected' % len(res))
    ctx.assumptions += [
        'golden opcode table (spec/decode/golden/optable.tsv, snapshot of the pinned decodetable.go, plus audit.tsv) '
        'is the trusted base of names, execution units and operand widths',
        'bit positions of the SDWA scalar-source flags and of fields mgpusim does not model are taken from the code',
        'the harness canonicalises *insts.Inst through public fields only (register -> ISA operand code table in '
        'harness/cmd/c04)']


def replay(ctx, path):
    rp = json.load(open(path))['replay']
    drv = ctx.go_build('c04')
    d = rp['driver']
    t = os.path.join(ctx.scratch, 'replay.ndjson')
    if d.get('words') and not d.get('kernel'):
        sfile = os.path.join(ctx.scratch, 'scen.json')
        by = {}
        for w in d['words']:
            by.setdefault(w['c'], []).append(w['b'])
        json.dump([{'c': c, 'words': ws} for c, ws in by.items()], open(sfile, 'w'))
        run_driver(ctx, drv, ['-scen', sfile, '-out', t])
    elif d.get('kernel'):
        run_driver(ctx, drv, ['-kernels', vlib.REPO, '-kmod', 1, '-only', d['kernel'], '-out', t])
    elif d.get('args'):
        run_driver(ctx, drv, d['args'] + [t])
    else:
        # the recorded trace is the evidence: re-validate it as it is
        vlib.write_ndjson(t, rp['trace'])
    ts = tspec([], 'DecodeTraceStrict.cfg')
    v = ctx.validate_trace(SPEC, 'DecodeTrace.tla', ts['cfg'], t, extra_files=ts['extra'])
    if v['accepted']:
        print('replay: the real decoder now conforms to Decode.tla on this input')
        return 0
    parts = vlib.split_traces(t)
    at = v['highwater'] or 1
    recs = [r for _, rs in parts for r in rs]
    print('VIOLATION property=%s replay=%s' % (ctx.pid, path))
    print('  strict trace spec rejects line %d: %s' % (at, json.dumps(recs[min(at, len(recs)) - 1])[:400]))
    return 1
