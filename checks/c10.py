"""C10 — device memory management never aliases pages or corrupts mappings.

spec/memalloc/MemAlloc.tla       design spec: one action per public API call (Allocate, AllocateUnified, Free,
                                 Remap, Distribute, page-migration preparation), free page choice left open,
                                 named "as implemented" deviations
spec/memalloc/MC_MemAlloc*.cfg   exhaustive model checking of the invariants on a small platform
                                 (intended design: all hold; as implemented: TLC exhibits the defects)
spec/memalloc/MemAllocScen.tla   TLC behaviours -> API histories replayed on the real driver
spec/memalloc/MemAllocTrace.tla  every call's return value + the complete vm.PageTable after it must be a
                                 behaviour of MemAlloc
spec/memalloc/Buddy.tla          buddy free-structure spec; the buddy allocator needs the hook
                                 fixes/C10-hook-allocator.diff (internal package variable)
harness/c10lib, harness/cmd/c10  driver (public API only; plays MMU + command processors for migrations)
"""
import copy
import json
import os
import re

import common
import vlib

LEVEL = 'model_checking'
RULE = ('cases = histories of public memory-management API calls (TLC -simulate behaviours of MemAllocScen, directed '
        'histories, seeded random histories generated against the live state, page sizes 2^12..2^16, 1-4 GPUs of 2-8 '
        'pages, unified devices, 1-3 processes, several contexts per process, virtual cursors pushed across 2^31/2^32/2^33 bytes by one huge '
        'allocate+free) executed on the real driver; every call '
        'is checked (returned pointer, complete page table, panic). distinct = distinct call sequences incl. observed '
        'results; non-trivial = the history re-allocates after a Free, or moves pages (Remap/Distribute/migration), '
        'or copies to the host after a kernel launch')
TSPEC = {'dirs': ['memalloc'], 'module': 'MemAllocTrace.tla', 'cfg': 'MemAllocTrace.cfg'}
TSPEC_BUDDY = {'dirs': ['memalloc'], 'module': 'MemAllocTrace.tla', 'cfg': 'MemAllocTraceBuddy.cfg'}
DEV_RE = re.compile(r'<<"DEVIATION", (\d+), \{([^}]*)\}>>')

DEVIATION_TEXT = {
    'FreeUnmapsFirstPageOnly': 'FreeMemory of a multi-page buffer unmaps and returns only its first page '
                               '(memoryAllocatorImpl.Free)',
    'MirrorKeyedByVAddrOnly': 'the allocator looks pages up by virtual address only: FreeMemory in one process unmaps/frees '
                              'the page of another process that has the same virtual address, or panics',
    'RemapLeaksOldPages': 'Remap/Distribute never return the old physical pages: the device runs out of memory although '
                          'the history stays within capacity',
    'RemapRecordsGivenDeviceID': 'Remap to a unified device records the unified device id in the page, not the GPU that '
                                 'holds the physical page',
    'FreedBufferSweepPanics': 'Context.removeFreedBuffers deletes from the slice it ranges over: a device-to-host copy of a dirty buffer '
                              'panics (slice bounds out of range) when the context\'s last buffer and another one were freed',
    'BuddyCorruptsFreeLists': 'buddy allocator: a block taken off a free list to be split does not toggle its parent\'s merge '
                              'bit; a later free merges a live block into a free one and a live physical page is handed out again',
}

# ---------------------------------------------------------------- directed histories


def directed():
    """Short histories that exercise each clause of the property (and, on the pinned tree, each known defect)."""
    A, F = 'Alloc', 'Free'
    out = []

    def sc(tag, ops, gpus=(4, 4), unified=((1, 2),), ctxs=(1,), ps=12, drain=True):
        out.append({'ps': ps, 'gpus': list(gpus), 'unified': [list(u) for u in unified], 'ctxs': list(ctxs),
                    'ops': ops, 'drain': drain, 'tag': 'directed/' + tag})

    # single pages, one process: free / re-allocate orders, exhaustion probes
    sc('reuse_single_pages', [
        {'a': A, 'ctx': 0, 'dev': 1, 'n': 1}, {'a': A, 'ctx': 0, 'dev': 1, 'n': 1, 'rem': 1},
        {'a': A, 'ctx': 0, 'dev': 2, 'n': 1, 'rem': 2}, {'a': F, 'ctx': 0, 'b': 1}, {'a': A, 'ctx': 0, 'dev': 1, 'n': 1},
        {'a': F, 'ctx': 0, 'b': 3}, {'a': F, 'ctx': 0, 'b': 2}, {'a': 'Probe', 'ctx': 0, 'dev': 1},
        {'a': A, 'ctx': 0, 'dev': 0, 'n': 1}, {'a': A, 'ctx': 0, 'dev': 3, 'n': 1}, {'a': 'Probe', 'ctx': 0, 'dev': 2},
        {'a': F, 'ctx': 0, 'b': 4}], ps=13)
    # multi-page buffer freed, then the device must take a buffer of the same size again
    sc('free_multi_page', [
        {'a': A, 'ctx': 0, 'dev': 1, 'n': 3, 'rem': 1}, {'a': F, 'ctx': 0, 'b': 1},
        {'a': A, 'ctx': 0, 'dev': 1, 'n': 3}, {'a': F, 'ctx': 0, 'b': 2}, {'a': A, 'ctx': 0, 'dev': 1, 'n': 4}], gpus=(4,),
       unified=())
    # two processes have the same virtual addresses
    sc('two_processes', [
        {'a': A, 'ctx': 0, 'dev': 1, 'n': 1}, {'a': A, 'ctx': 1, 'dev': 2, 'n': 1}, {'a': F, 'ctx': 0, 'b': 1},
        {'a': A, 'ctx': 0, 'dev': 1, 'n': 1}, {'a': F, 'ctx': 1, 'b': 2}, {'a': A, 'ctx': 1, 'dev': 1, 'n': 1}],
       ctxs=(1, 2), ps=14)
    # a page bounces between two GPUs: the old pages must come back
    sc('remap_ping_pong', [
        {'a': A, 'ctx': 0, 'dev': 1, 'n': 1}] + [{'a': 'Remap', 'ctx': 0, 'b': 1, 'off': 0, 'n': 1, 'dev': d}
                                                 for d in (2, 1, 2, 1, 2, 1)], gpus=(2, 2), unified=(), ps=15)
    # remap to a unified device; allocate on it
    sc('remap_to_unified', [
        {'a': A, 'ctx': 0, 'dev': 1, 'n': 2}, {'a': 'Remap', 'ctx': 0, 'b': 1, 'off': 0, 'n': 2, 'dev': 3},
        {'a': A, 'ctx': 0, 'dev': 3, 'n': 3}, {'a': F, 'ctx': 0, 'b': 2}], ps=16)
    # unified allocation distributed over the GPUs, as the multi-GPU benchmarks do
    sc('unified_distribute', [
        {'a': 'AllocU', 'ctx': 0, 'n': 5, 'rem': 1}, {'a': 'Dist', 'ctx': 0, 'b': 1, 'gpus': [1, 2, 3]},
        {'a': 'AllocU', 'ctx': 0, 'n': 2}, {'a': 'Dist', 'ctx': 0, 'b': 2, 'gpus': [3, 1]},
        {'a': 'AllocU', 'ctx': 0, 'n': 1}, {'a': 'Dist', 'ctx': 0, 'b': 3, 'gpus': [2, 3]},
        {'a': 'Dist', 'ctx': 0, 'b': 3, 'gpus': [2]}], gpus=(8, 8, 8), unified=((1, 2, 3),))
    # page migration preparation, then free of the migrated buffer
    sc('migrate_then_free', [
        {'a': A, 'ctx': 0, 'dev': 1, 'n': 1}, {'a': A, 'ctx': 1, 'dev': 2, 'n': 1},
        {'a': 'Mig', 'b': 1, 'off': 0, 'dev': 2}, {'a': 'Mig', 'b': 2, 'off': 0, 'dev': 1}, {'a': F, 'ctx': 0, 'b': 1},
        {'a': A, 'ctx': 0, 'dev': 2, 'n': 1}], ctxs=(1, 1))
    # kernel launch (buffers become L2-dirty), two buffers allocated and freed afterwards, device-to-host copy:
    # the flush sweeps the freed buffers out of the context's list
    sc('sweep_freed_buffers', [
        {'a': A, 'ctx': 0, 'dev': 1, 'n': 1}, {'a': 'Launch', 'ctx': 0, 'dev': 1}, {'a': A, 'ctx': 0, 'dev': 1, 'n': 1},
        {'a': A, 'ctx': 0, 'dev': 1, 'n': 1}, {'a': 'CopyOut', 'ctx': 0, 'b': 1}, {'a': F, 'ctx': 0, 'b': 3},
        {'a': F, 'ctx': 0, 'b': 4}, {'a': 'CopyOut', 'ctx': 0, 'b': 1}, {'a': A, 'ctx': 0, 'dev': 1, 'n': 1},
        {'a': 'CopyOut', 'ctx': 0, 'b': 5}], gpus=(16,), unified=(), drain=False)
    # virtual addresses are never reused: one huge buffer allocated and freed on the CPU moves each process's cursor
    # to exactly 2^32 bytes; the buffers allocated next must not disturb the old ones (two processes, adjacent pids)
    sc('cursor_crosses_4gib', [
        {'a': A, 'ctx': 0, 'dev': 1, 'n': 1}, {'a': A, 'ctx': 1, 'dev': 1, 'n': 1},
        {'a': 'Burn', 'ctx': 0, 'dev': 0, 'n': 65534}, {'a': 'Burn', 'ctx': 1, 'dev': 0, 'n': 65534},
        {'a': A, 'ctx': 0, 'dev': 1, 'n': 2}, {'a': A, 'ctx': 1, 'dev': 1, 'n': 2},
        {'a': F, 'ctx': 0, 'b': 1}, {'a': F, 'ctx': 1, 'b': 2}, {'a': 'Probe', 'ctx': 0, 'dev': 1},
        {'a': F, 'ctx': 0, 'b': 5}, {'a': F, 'ctx': 1, 'b': 6}], gpus=(8, 4), unified=(), ctxs=(1, 2), ps=16)
    return out


def fill_sweep():
    """Same-device Remap / Distribute of a live buffer at every fill level of small devices (8/16/32 pages): a fresh
    driver per case (the allocator's free-list mechanics depend on what was popped and appended before), two
    processes; afterwards everything that is left is allocated (Probe by the other process, then the final drain):
    frames pairwise disjoint, table = live buffers, free + live = capacity."""
    A, out = 'Alloc', []

    def filler(f, ctx=1):
        ops = []
        while f > 0:
            n = min(3, f)
            ops.append({'a': A, 'ctx': ctx, 'dev': 1, 'n': n, 'rem': f % 3})
            f -= n
        return ops
    for C in (8, 16, 32):
        for k in ((2, 3) if C == 8 else (2, 3, 4) if C == 16 else (2, 4)):
            for f in range(0, C - (k + 1) - k + 1):
                fill = filler(f)
                buf = [{'a': A, 'ctx': 0, 'dev': 1, 'n': k + 1}]
                pre = fill + buf if f % 2 == 0 else buf + fill
                b = len(fill) + 1 if f % 2 == 0 else 1
                ops = pre + [{'a': 'Remap', 'ctx': 0, 'b': b, 'off': f % 2, 'n': k, 'dev': 1},
                             {'a': 'Probe', 'ctx': 1, 'dev': 1}]
                out.append({'ps': 16, 'gpus': [C, 4], 'unified': [], 'ctxs': [1, 2], 'ops': ops, 'drain': True,
                            'tag': 'sweep/remap/C%d/k%d/f%d' % (C, k, f)})
    for k in (2, 3):   # Distribute over [1, 2] of a buffer that lies on GPU 1: the chunk for GPU 1 stays on its device
        C = 16
        for f in range(0, C - 3 * k + 1):
            fill = filler(f)
            ops = fill + [{'a': A, 'ctx': 0, 'dev': 1, 'n': 2 * k}, {'a': 'Dist', 'ctx': 0, 'b': len(fill) + 1, 'gpus': [1, 2]},
                          {'a': 'Probe', 'ctx': 1, 'dev': 1}]
            out.append({'ps': 16, 'gpus': [C, 8], 'unified': [], 'ctxs': [1, 2], 'ops': ops, 'drain': True,
                        'tag': 'sweep/dist/C%d/k%d/f%d' % (C, k, f)})
    return out


def buddy_directed():
    A, F = 'Alloc', 'Free'
    return [
        # three single pages, free the first two: the buddy allocator then believes the whole memory is free
        {'ps': 12, 'gpus': [4], 'unified': [], 'ctxs': [1], 'drain': True, 'tag': 'directed/buddy_merge',
         'ops': [{'a': A, 'ctx': 0, 'dev': 1, 'n': 1}, {'a': A, 'ctx': 0, 'dev': 1, 'n': 1}, {'a': A, 'ctx': 0, 'dev': 1, 'n': 1},
                 {'a': F, 'ctx': 0, 'b': 1}, {'a': F, 'ctx': 0, 'b': 2}]},
        # multi-page blocks: a buffer remapped as one 4-page block, a live neighbour behind it, the first buffer freed,
        # another buffer remapped onto the same GPU, parts remapped again
        {'ps': 12, 'gpus': [16, 16], 'unified': [], 'ctxs': [1], 'drain': True, 'tag': 'directed/buddy_remap_free_remap',
         'ops': [{'a': A, 'ctx': 0, 'dev': 1, 'n': 4}, {'a': 'Remap', 'ctx': 0, 'b': 1, 'off': 0, 'n': 4, 'dev': 2},
                 {'a': A, 'ctx': 0, 'dev': 2, 'n': 4}, {'a': F, 'ctx': 0, 'b': 1},
                 {'a': A, 'ctx': 0, 'dev': 1, 'n': 4}, {'a': 'Remap', 'ctx': 0, 'b': 3, 'off': 0, 'n': 4, 'dev': 2},
                 {'a': A, 'ctx': 0, 'dev': 1, 'n': 3}, {'a': 'Remap', 'ctx': 0, 'b': 4, 'off': 0, 'n': 3, 'dev': 2},
                 {'a': 'Remap', 'ctx': 0, 'b': 3, 'off': 1, 'n': 2, 'dev': 1}, {'a': F, 'ctx': 0, 'b': 4},
                 {'a': A, 'ctx': 0, 'dev': 1, 'n': 2}, {'a': 'Remap', 'ctx': 0, 'b': 5, 'off': 0, 'n': 2, 'dev': 2},
                 {'a': F, 'ctx': 0, 'b': 2}, {'a': F, 'ctx': 0, 'b': 3}, {'a': 'Probe', 'ctx': 0, 'dev': 2}]},
        # two processes and Distribute in equal chunks (one block per GPU), freed while the other process holds a
        # neighbour, then distributed again
        {'ps': 12, 'gpus': [16, 16], 'unified': [], 'ctxs': [1, 2], 'drain': True, 'tag': 'directed/buddy_distribute_free_distribute',
         'ops': [{'a': A, 'ctx': 0, 'dev': 1, 'n': 8}, {'a': 'Dist', 'ctx': 0, 'b': 1, 'gpus': [1, 2]},
                 {'a': A, 'ctx': 1, 'dev': 2, 'n': 3}, {'a': F, 'ctx': 0, 'b': 1},
                 {'a': A, 'ctx': 1, 'dev': 1, 'n': 8}, {'a': 'Dist', 'ctx': 1, 'b': 3, 'gpus': [1, 2]},
                 {'a': A, 'ctx': 0, 'dev': 2, 'n': 4}, {'a': 'Dist', 'ctx': 0, 'b': 4, 'gpus': [2, 1]},
                 {'a': F, 'ctx': 1, 'b': 2}, {'a': F, 'ctx': 1, 'b': 3}, {'a': 'Probe', 'ctx': 0, 'dev': 1}]},
        {'ps': 12, 'gpus': [8, 2], 'unified': [[1, 2]], 'ctxs': [1], 'drain': True, 'tag': 'directed/buddy_single_pages',
         'ops': [{'a': A, 'ctx': 0, 'dev': 1, 'n': 1}, {'a': A, 'ctx': 0, 'dev': 2, 'n': 1}, {'a': F, 'ctx': 0, 'b': 1},
                 {'a': A, 'ctx': 0, 'dev': 3, 'n': 1}, {'a': 'Probe', 'ctx': 0, 'dev': 2}, {'a': F, 'ctx': 0, 'b': 2},
                 {'a': F, 'ctx': 0, 'b': 3}]},
    ]


def scenario_from_behaviour(beh, i):
    """A TLC behaviour of MemAllocScen -> a history for the driver (platform of MemAllocScen.cfg)."""
    ctxs = [1, 2, 1]
    ops, bufpid, k = [], [], 0
    for st in beh[1:]:
        a = st.get('act')
        if not isinstance(a, dict) or 'o' not in a:
            continue
        o = a['o']
        k += 1

        def ctx_of(pid):
            return 2 if (pid == 1 and (i + k) % 3 == 0) else pid - 1
        if o['a'] == 'Alloc':
            bufpid.append(o['pid'])
            if o['dev'] == 1 and (i + k) % 4 == 0:
                ops.append({'a': 'AllocU', 'ctx': ctx_of(o['pid']), 'n': o['n'], 'rem': k % 3})
            else:
                ops.append({'a': 'Alloc', 'ctx': ctx_of(o['pid']), 'dev': o['dev'], 'n': o['n'], 'rem': k % 3})
        elif o['a'] == 'Free':
            ops.append({'a': 'Free', 'ctx': ctx_of(bufpid[o['b'] - 1]), 'b': o['b']})
        elif o['a'] == 'Remap':
            ops.append({'a': 'Remap', 'ctx': ctx_of(bufpid[o['b'] - 1]), 'b': o['b'], 'off': o['off'], 'n': o['n'],
                        'dev': o['dev'], 'rem': k % 3})
        elif o['a'] == 'Dist':
            ops.append({'a': 'Dist', 'ctx': ctx_of(bufpid[o['b'] - 1]), 'b': o['b'], 'gpus': list(o['gpus'])})
        elif o['a'] == 'Mig':
            ops.append({'a': 'Mig', 'b': o['b'], 'off': o['off'], 'dev': o['dev']})
    return {'ps': 12 + i % 5, 'gpus': [4, 4], 'unified': [[1, 2]], 'ctxs': ctxs, 'ops': ops, 'drain': i % 2 == 0,
            'tag': 'tlc/%d' % i}


# ---------------------------------------------------------------- validation


def run_scenarios(ctx, drv, scen, name):
    sfile = os.path.join(ctx.scratch, name + '.json')
    json.dump(scen, open(sfile, 'w'))
    t = os.path.join(ctx.scratch, name + '.ndjson')
    p, stats = common.run_driver(ctx, drv, ['-scen', sfile, '-out', t])
    if stats is None:
        raise vlib.Infra('driver failed: ' + p.stdout[-2000:])
    return t, stats


def validate(ctx, trace, scens, drvname='c10', tspec=TSPEC):
    """Validate a concatenated trace; report every listed deviation the real code exhibited (known finding or
    violation) and every rejection.  scens[i] is the history that produced the i-th sub-trace."""
    parts = vlib.split_traces(trace)
    if len(parts) != len(scens):
        raise vlib.Infra('trace/scenario count mismatch: %d vs %d' % (len(parts), len(scens)))
    v = ctx.validate_trace(tspec['dirs'], tspec['module'], tspec['cfg'], trace)
    used = {}
    for m in DEV_RE.finditer(v['res'].out):
        line = int(m.group(1))
        for name in re.findall(r'"(\w+)"', m.group(2)):
            used.setdefault(name, []).append(line)
    starts = [s for s, _ in parts]

    def part_of(line):
        idx = 0
        for i, s in enumerate(starts):
            if s <= line:
                idx = i
        return idx
    for name in sorted(used):
        lines = sorted(set(used[name]))
        idx = part_of(lines[0])
        start, recs = parts[idx]
        ev = recs[lines[0] - start]
        what = '%s: %s -- first at call #%d of history %s: %s' % (
            ctx.pid, DEVIATION_TEXT.get(name, name), lines[0] - start, recs[0].get('tag'),
            json.dumps({k: x for k, x in ev.items() if k != 'pt'})[:300])
        ctx.report_failure(what, {'kind': 'deviation', 'deviation': name},
                           {'driver': {'cmd': drvname, 'cfg': tspec['cfg'], 'scenarios': [scens[idx]]}, 'deviation': name,
                            'occurrences': len(lines), 'trace': recs[:lines[0] - start + 1]})
        ctx.cov.setdefault('deviation_uses', {})[name] = ctx.cov.get('deviation_uses', {}).get(name, 0) + len(lines)
    if v['accepted']:
        ctx.cov['traces_validated_against_impl'] += len(parts)
        return len(parts)
    # a real-code trace the specification cannot explain even with the listed deviations
    hw = v['highwater'] or 1
    idx = part_of(min(hw, starts[-1] + len(parts[-1][1]) - 1))

    def signature(bad, at, v2):
        ev = bad[min(at, len(bad)) - 1] if bad else {}
        return {'op': ev.get('op', ev.get('e'))}
    ts = dict(tspec)
    ts['signature'] = signature
    return common.validate_and_triage(ctx, ts, trace, {'cmd': drvname, 'cfg': tspec['cfg'], 'scenarios': [scens[idx]]})


# ---------------------------------------------------------------- binding self-test


def corruptions():
    def allocs(recs):
        return [i for i, r in enumerate(recs) if r['e'] == 'Alloc']

    def alias(recs, rng):
        # a page is handed out although another live page already maps to it
        for i in allocs(recs):
            pt = recs[i]['pt']
            new = [p for p in pt if p['pid'] == recs[i]['pid'] and p['v'] == recs[i]['v']]
            others = [p for p in pt if not (p['pid'] == recs[i]['pid'] and p['v'] >= recs[i]['v'])]
            if new and others:
                new[0]['ppn'] = others[0]['ppn']
                new[0]['dev'] = others[0]['dev']
                return recs[:i + 1]
        return None

    def drop_free(recs, rng):
        idx = [i for i, r in enumerate(recs) if r['e'] == 'Free' and i + 1 < len(recs) and recs[i + 1]['e'] in ('Alloc', 'Free')]
        if not idx:
            return None
        i = rng.choice(idx)
        return recs[:i] + recs[i + 1:]

    def misalign(recs, rng):
        idx = allocs(recs)
        if not idx:
            return None
        i = rng.choice(idx)
        recs[i]['voff'] = 8
        return recs

    def wrong_device(recs, rng):
        for i in allocs(recs):
            new = [p for p in recs[i]['pt'] if p['pid'] == recs[i]['pid'] and p['v'] == recs[i]['v']]
            if new:
                new[0]['dev'] = 0 if new[0]['dev'] != 0 else 1
                return recs[:i + 1]
        return None

    def overlap(recs, rng):
        # the second buffer of a process starts inside the first one
        seen = {}
        for i in allocs(recs):
            pid = recs[i]['pid']
            if pid in seen:
                recs[i]['v'] -= 1
                for p in recs[i]['pt']:
                    if p['pid'] == pid and p['v'] >= recs[i]['v'] + 1 and p['v'] > seen[pid]:
                        p['v'] -= 1
                return recs[:i + 1]
            seen[pid] = recs[i]['v']
        return None

    def stale_mapping(recs, rng):
        # Free of a single-page buffer leaves the page mapped
        for i, r in enumerate(recs):
            if r['e'] == 'Free' and i > 0 and 'pt' in recs[i - 1]:
                gone = [p for p in recs[i - 1]['pt'] if p['pid'] == r['pid'] and p['v'] == r['v']]
                more = [p for p in recs[i - 1]['pt'] if p['pid'] == r['pid'] and p['v'] == r['v'] + 1]
                if gone and not more and not any(p['pid'] == r['pid'] and p['v'] == r['v'] for p in r['pt']):
                    r['pt'] = sorted(r['pt'] + gone, key=lambda p: (p['pid'], p['v']))
                    return recs[:i + 1]
        return None

    return [('alias_physical_page', alias), ('drop_free_call', drop_free), ('misaligned_pointer', misalign),
            ('wrong_recorded_device', wrong_device), ('overlapping_virtual_range', overlap),
            ('free_leaves_page_mapped', stale_mapping)]


def nontrivial(recs):
    freed = False
    for r in recs:
        if r['e'] == 'Free':
            freed = True
        elif r['e'] == 'Alloc' and freed:
            return True
        elif r['e'] in ('Remap', 'Dist', 'Mig', 'CopyOut', 'Burn'):
            return True
    return False


# ---------------------------------------------------------------- the check


def model_check(ctx, thorough):
    r = ctx.tlc_expect_ok(['memalloc'], 'MC_MemAlloc.tla', 'MC_MemAlloc_cov.cfg', coverage=True, timeout=600)
    zeros = [z for z in r.coverage_zero() if z.endswith('Step')]
    ctx.cov['coverage_zero_actions'] = zeros
    if zeros:
        raise vlib.Infra('vacuous model: actions never taken: %s' % zeros)
    ctx.log('MC_MemAlloc_cov (3 calls, coverage): %d distinct states, every kind of call taken' % r.distinct)
    r = ctx.tlc_expect_ok(['memalloc'], 'MC_MemAlloc.tla', 'MC_MemAlloc.cfg', timeout=900)
    ctx.log('MC_MemAlloc (intended design, 4 calls): %d distinct states, depth %d, all invariants hold' % (r.distinct, r.depth))
    # as implemented: the property invariants, judged without a listed deviation, still hold; with the deviations
    # the model exhibits each defect (the lead that the directed histories reproduce on the real code)
    # Context.removeFreedBuffers (buffer bookkeeping): repaired design never panics and sweeps exactly the freed
    # buffers for every freed/live pattern of up to 5 buffers; the pinned loop panics (lead for directed/sweep)
    r = ctx.tlc_expect_ok(['memalloc'], 'SweepList.tla', 'MC_SweepList.cfg', workers=2, timeout=300)
    r2 = ctx.tlc(['memalloc'], 'SweepList.tla', 'MC_SweepList_impl.cfg', workers=2, timeout=300, kind='lead')
    if 'NeverPanics' not in r2.violated:
        raise vlib.Infra('as-implemented SweepList no longer violates NeverPanics\n' + r2.out[-1500:])
    ctx.log('SweepList: repaired sweep ok on %d states; pinned loop panics (TLC counterexample)' % r.distinct)
    # buddy free structure: with the parent merge bit always toggled every invariant holds; the pinned rule
    # hands a page out twice (lead for directed/buddy_merge)
    r = ctx.tlc_expect_ok(['memalloc'], 'Buddy.tla', 'MC_Buddy.cfg', timeout=900)
    ctx.log('MC_Buddy (8 pages, requests <= 4 pages, parent merge bit always toggled): %d distinct states, invariants hold' % r.distinct)
    r = ctx.tlc(['memalloc'], 'Buddy.tla', 'MC_Buddy_impl.cfg', timeout=300, kind='lead')
    if 'NoDoubleHandOut' not in r.violated:
        raise vlib.Infra('as-implemented buddy model no longer violates NoDoubleHandOut\n' + r.out[-1500:])
    # blocks of 2^k pages handed out as a unit and released page by page: releasing the block at the address of the
    # last released page instead of its first page (seeded change C10e) hands pages out twice in the model
    r = ctx.tlc(['memalloc'], 'Buddy.tla', 'MC_Buddy_freeAtPage.cfg', timeout=300, kind='lead')
    if not r.violated:
        raise vlib.Infra('Buddy.tla with FreeAtReleasedPage no longer violates its invariants\n' + r.out[-1500:])
    leads = {}
    invs = ['InsideRecordedDevice', 'TableAgreesWithAllocator', 'ReusableExactly', 'NoCrashWithinCapacity']
    for inv in (invs if thorough else invs[1:2] + invs[3:]):
        r = ctx.tlc(['memalloc'], 'MC_MemAlloc.tla', 'MC_MemAlloc_impl_%s.cfg' % inv, timeout=600, kind='lead')
        if inv not in r.violated:
            raise vlib.Infra('as-implemented model no longer violates %s (deviation switches broken?)\n%s' % (inv, r.out[-1500:]))
        try:
            ce = r.counterexample()
        except Exception:
            ce = None
        leads[inv] = len(ce) - 1 if ce else None
    ctx.cov['as_implemented_counterexample_lengths'] = leads
    ctx.log('as-implemented model violates (counterexample length) %s' % leads)
    if thorough:
        r = ctx.tlc_expect_ok(['memalloc'], 'MC_MemAlloc.tla', 'MC_MemAlloc_impl.cfg', workers=vlib.NCPU, timeout=1800)
        ctx.log('MC_MemAlloc_impl (as implemented, property judged on deviation-free prefixes): %d distinct states' % r.distinct)
    if thorough:
        r = ctx.tlc_expect_ok(['memalloc'], 'MC_MemAlloc.tla', 'MC_MemAlloc_deep.cfg', workers=vlib.NCPU, timeout=3000)
        ctx.log('MC_MemAlloc_deep (5 calls): %d distinct states' % r.distinct)
        r = ctx.tlc_expect_ok(['memalloc'], 'MC_MemAlloc.tla', 'MC_MemAlloc_any.cfg', workers=vlib.NCPU, timeout=3000)
        ctx.log('MC_MemAlloc_any (any free page, 3 calls): %d distinct states' % r.distinct)
        r = ctx.tlc_expect_ok(['memalloc'], 'Buddy.tla', 'MC_Buddy_big.cfg', timeout=1800)
        ctx.log('MC_Buddy_big (8 pages, requests up to 8 pages): %d distinct states' % r.distinct)
        ctx.cov['exhaustive'] = True


def run(ctx, selftest=False):
    thorough = ctx.tier == 'thorough'
    drv = ctx.go_build('c10')

    # 1. design-level model checking (C10_SKIP_MC=1 is a development aid for mutant runs; evidence is then incomplete)
    if not os.environ.get('C10_SKIP_MC'):
        model_check(ctx, thorough)

    all_parts = []

    # 2. spec -> code: TLC behaviours and directed histories replayed on the real driver
    behs, _ = ctx.simulate(['memalloc'], 'MemAllocScen.tla', 'MemAllocScen.cfg', num=300 if thorough else 30,
                           depth=15 if thorough else 13, timeout=1500)
    scen = directed() + [scenario_from_behaviour(b, i) for i, b in enumerate(behs)]
    t1, stats = run_scenarios(ctx, drv, scen, 'scen')
    ctx.log('replayed %d directed + %d TLC histories: %s' % (len(directed()), len(behs), stats))
    ctx.sample({'history_from_TLC_behaviour': scen[len(directed())]})
    validate(ctx, t1, scen)
    all_parts += vlib.split_traces(t1)

    # 2b. fill-level sweep: same-device Remap / Distribute on small devices, from empty to full
    sw = fill_sweep()
    ts, stats_sw = run_scenarios(ctx, drv, sw, 'sweep')
    ctx.log('fill-level sweep: %d histories: %s' % (len(sw), {k: v for k, v in stats_sw.items() if k in ('events', 'ops', 'ops_skipped', 'traces_crashed')}))
    validate(ctx, ts, sw)
    all_parts += vlib.split_traces(ts)

    # 3. code -> spec: seeded random histories generated against the live state
    nrand = 1504 if thorough else 128    # a multiple of the 8 profiles
    t2 = os.path.join(ctx.scratch, 'rand.ndjson')
    sdump = os.path.join(ctx.scratch, 'rand_scen.json')
    args = ['-random', nrand, '-ops', 60 if thorough else 40, '-seed', ctx.seed, '-dumpscen', sdump, '-out', t2]
    p, stats2 = common.run_driver(ctx, drv, args)
    if stats2 is None:
        raise vlib.Infra('driver failed: ' + p.stdout[-2000:])
    ctx.log('random histories: %s' % stats2)
    rscen = json.load(open(sdump))
    validate(ctx, t2, rscen)
    all_parts += vlib.split_traces(t2)

    # 3b. the buddy allocator (4 KiB pages, power-of-two memories); needs the hook that selects it
    stats3 = {'events': 0, 'ops': 0}
    try:
        drvb = ctx.go_build('c10buddy')
    except vlib.Infra as e:
        if 'VerifUseBuddyAllocator' not in str(e):
            raise
        drvb = None
        ctx.notes.append('buddy allocator NOT exercised on the real code: hook amd/driver/verif_c10.go '
                         '(fixes/C10-hook-allocator.diff) is not in the tree')
        ctx.log('c10buddy not built: hook fixes/C10-hook-allocator.diff missing; buddy allocator covered at model level only')
    if drvb:
        bscen = buddy_directed()
        tb, sb = run_scenarios(ctx, drvb, bscen, 'buddy_scen')
        validate(ctx, tb, bscen, drvname='c10buddy', tspec=TSPEC_BUDDY)
        t3 = os.path.join(ctx.scratch, 'buddy_rand.ndjson')
        sdump3 = os.path.join(ctx.scratch, 'buddy_rand_scen.json')
        p, stats3 = common.run_driver(ctx, drvb, ['-random', 600 if thorough else 48, '-ops', 60 if thorough else 40,
                                                   '-seed', ctx.seed + 1000, '-dumpscen', sdump3, '-out', t3])
        if stats3 is None:
            raise vlib.Infra('buddy driver failed: ' + p.stdout[-2000:])
        ctx.log('buddy allocator: %d directed + random histories: %s' % (len(bscen), stats3))
        validate(ctx, t3, json.load(open(sdump3)), drvname='c10buddy', tspec=TSPEC_BUDDY)
        all_parts += vlib.split_traces(tb) + vlib.split_traces(t3)
        stats3 = {'events': stats3['events'] + sb['events'], 'ops': stats3['ops'] + sb['ops']}
    ctx.cov['buddy_allocator_exercised'] = bool(drvb)

    def strip(recs):
        return json.dumps([{k: v for k, v in r.items() if k != 'seq'} for r in recs], sort_keys=True)
    distinct_nt = {strip(recs) for _, recs in all_parts if nontrivial(recs)}
    ex = all_parts[-1][1]
    ctx.sample({'trace_excerpt': [{k: v for k, v in r.items()} for r in ex[:4]]})
    ctx.cov.update({'evaluations': len(all_parts), 'distinct_nontrivial': len(distinct_nt),
                    'events_validated': stats['events'] + stats2['events'] + stats3['events'] + stats_sw['events'],
                    'api_calls': stats['ops'] + stats2['ops'] + stats3['ops'] + stats_sw['ops'],
                    'histories_ended_by_driver_panic': stats.get('traces_crashed', 0) + stats2.get('traces_crashed', 0)})

    # 4. binding self-test on the histories of the clean profile (single process, single pages: no known defect)
    clean = os.path.join(ctx.scratch, 'clean.ndjson')
    vlib.write_ndjson(clean, [r for _, recs in vlib.split_traces(t2) if 'profile0' in str(recs[0].get('tag'))
                              for r in recs])
    if ctx.violations:
        # the self-test needs traces of a conforming implementation; the verdict is already decided
        ctx.notes.append('binding self-test skipped: the run found violations')
    else:
        common.selftest_binding(ctx, TSPEC, clean, corruptions())
    ctx.assumptions += [
        'physical layout assumed as the allocator defines it: one guard page, 4 GiB CPU memory, GPUs in registration order',
        'the recording wrapper around vm.NewPageTable only remembers written keys; the table content is read through Find',
        'a process id is learnt from the first page the process maps (Context.pid is unexported)',
        'preparePageForMigration is reached by playing the MMU and the command processors on the driver ports (Driver.Tick called directly)',
        'the buddy allocator is covered only when the hook amd/driver/verif_c10.go is present (internal package variable)',
        'buddy runs: Distribute is issued in equal chunks only, so that the chunks (one buddy block each) are visible in the resulting placement',
    ]


def replay(ctx, path):
    rp = json.load(open(path))['replay']
    ctx._known = []          # a replay answers "does it reproduce", independent of known findings
    d = rp['driver']
    drv = ctx.go_build(d.get('cmd', 'c10'))
    scens = d['scenarios']
    t, _ = run_scenarios(ctx, drv, scens, 'replay')
    before = len(ctx.violations)
    ts = dict(TSPEC)
    ts['cfg'] = d.get('cfg', TSPEC['cfg'])
    validate(ctx, t, scens, drvname=d.get('cmd', 'c10'), tspec=ts)
    return 1 if len(ctx.violations) > before else 0
