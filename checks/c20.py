"""C20 — NVIDIA trace-driven simulation conserves work and terminates; parsing round-trips.

spec/nvidia/NvSim.tla          design spec: driver / GPU / SM / sub-core work counters, free lists, bounded ports,
                               one action per Tick sub-step + the connection; Dev = as-implemented deviations
spec/nvidia/MC_*.cfg           exhaustive model checking (intended design incl. degenerate traces, tree as implemented
                               on non-degenerate traces, expected counterexample for the empty-unit defect, liveness)
spec/nvidia/NvTick.tla         the same system per engine event with akita's wake/sleep protocol (no lost wake-up)
spec/nvidia/NvSimScen.tla      TLC behaviours -> (platform shape, trace, submission points) scenarios
spec/nvidia/NvTrace.tla        message-event traces of the real simulator checked against NvSim
spec/nvidia/NvParse.tla        the accel-sim file format (reference parser + serialiser, round trip model-checked)
spec/nvidia/NvParseTrace.tla   structures returned by tracereader.ReadTrace checked against the reference parser
harness/cmd/c20                generates trace directories, builds platforms from the public builders, runs the real
                               benchmark builder / runner / driver / gpu / sm / subcore, logs port-hook events
"""
import copy
import json
import os
import random
import re

import common
import tlaval
import vlib

LEVEL = 'model_checking'
RULE = ('cases = simulation runs of the real NVIDIA simulator on generated accel-sim trace directories and platform '
        'shapes (TLC -simulate behaviours of NvSimScen + seeded random ones) plus parser round trips of generated '
        'kernel trace files; distinct = distinct scenario descriptions (shape, trace, submission points, engine, seeds); '
        'non-trivial = simulation run with >= 2 warps in the trace on a platform with >= 2 sub-cores in total, or a '
        'parsed file containing >= 1 memory instruction')
TSIM = {'dirs': ['nvidia'], 'module': 'NvTrace.tla', 'cfg': 'NvTrace.cfg'}
TPARSE = {'dirs': ['nvidia'], 'module': 'NvParseTrace.tla', 'cfg': 'NvParseTrace.cfg'}
TTICK = {'dirs': ['nvidia'], 'module': 'NvTickTrace.tla', 'cfg': 'NvTickTrace.cfg'}
SHIPPED = os.path.join(vlib.REPO, 'nvidia', 'data', 'simple-trace-example')


# ------------------------------------------------------------------ scenarios
def degenerate(tr):
    return any(len(k) == 0 or any(len(b) == 0 or any(n == 0 for n in b) for b in k) for k in tr)


def nontrivial_sim(sc):
    warps = sum(len(b) for k in sc['tr'] for b in k)
    subs = sum(d['sm'] * d['sub'] for d in sc['shape'])
    return warps >= 2 and subs >= 2


def beh_var(body, name):
    m = re.search(r'^/\\ %s = (.*?)(?=^/\\ |\Z)' % name, body, re.M | re.S)
    if not m:
        raise vlib.Infra('simulation output: variable %s not found' % name)
    return tlaval.parse_value(m.group(1))


def scenarios_from_tlc(ctx, num, depth):
    """TLC behaviours of NvSimScen -> scenarios (shape, trace, submission points)."""
    res = ctx.tlc(['nvidia'], 'NvSimScen.tla', 'NvSimScen.cfg', workers=1, timeout=600,
                  simulate='file=beh,num=%d' % num, depth=depth, seed=ctx.seed, kind='simulate')
    if res.violated:
        raise vlib.Infra('simulation of NvSimScen violated %s\n%s' % (res.violated, res.out[-2000:]))
    ctx.cov['transitions'] += res.generated
    out = []
    for f in sorted(os.listdir(res.dir)):
        if not f.startswith('beh_'):
            continue
        text = open(os.path.join(res.dir, f)).read()
        parts = re.split(r'^STATE_\d+ ==\s*$', text, flags=re.M)[1:]
        if len(parts) < 2:
            continue
        acts = [beh_var(b, 'act')['a'] for b in parts]
        tr = beh_var(parts[-1], 'tr')
        shape = beh_var(parts[-1], 'shape')
        at, obs = [], 0
        for a in acts:
            if a == 'Obs':
                obs += 1
            elif a == 'Submit':
                at.append(obs)
            elif a == 'SubmitIdle':
                at.append(-1)
                obs = 0
        out.append({'mode': 'sim', 'shape': shape, 'tr': tr, 'submitAt': at, 'engine': 'shuffle',
                    'eseed': len(out) + 1000 * ctx.seed, 'iseed': len(out) + 7 * ctx.seed, 'src': 'tlc'})
    return out


def random_trace(rng, maxk, maxb, maxw, maxn, degen):
    lo = 0 if degen else 1
    tr = []
    for _ in range(rng.randint(1, maxk)):
        k = []
        for _ in range(rng.randint(lo, maxb)):
            k.append([rng.randint(lo, maxn) for _ in range(rng.randint(lo, maxw))])
        tr.append(k)
    if degen and not degenerate(tr):
        # force one empty unit of a random kind
        kind = rng.choice(['w', 'b', 'k'])
        k = rng.randrange(len(tr))
        if kind == 'k' or not tr[k]:
            tr[k] = []
        else:
            b = rng.randrange(len(tr[k]))
            if kind == 'b' or not tr[k][b]:
                tr[k][b] = []
            else:
                tr[k][b][rng.randrange(len(tr[k][b]))] = 0
    return tr


def random_scenarios(ctx, n, degen, thorough, salt):
    rng = random.Random(ctx.seed * 7919 + salt)
    out = []
    for i in range(n):
        nd = rng.choice([1, 1, 1, 2, 2, 3])
        shape = [{'sm': rng.choice([1, 1, 2, 2, 3, 4]), 'sub': rng.choice([1, 2, 2, 3, 4])} for _ in range(nd)]
        if degen:
            # a stuck unit keeps its sub-core / SM / device for ever: keep the platform small
            shape = shape[:2]
        big = thorough and rng.random() < 0.3
        tr = random_trace(rng, 4, 6 if big else 4, 5 if big else 3, 12 if big else 5, degen)
        at = []
        for k in range(len(tr)):
            r = rng.random()
            at.append(0 if (k == 0 or r < 0.45) else (-1 if r < 0.6 else rng.randint(1, 60)))
        freqs = [1e9, 1e9, 1.0, 5e8, 1.5e9]
        sc = {'mode': 'sim', 'shape': shape, 'tr': tr, 'submitAt': at,
              'engine': rng.choice(['serial', 'shuffle', 'shuffle']), 'eseed': rng.randrange(1 << 30),
              'iseed': rng.randrange(1 << 30), 'freqDrv': rng.choice(freqs),
              'freqGPU': [rng.choice(freqs) for _ in range(nd)] if rng.random() < 0.5 else [], 'src': 'random'}
        if rng.random() < 0.25:
            sc['runner'] = True
            sc['submitAt'] = [0] * len(tr)
        out.append(sc)
    return out


def wide_scenarios(ctx, thorough):
    """Platforms wider than every port buffer (4 entries) on each level, with more work per unit than
    units and than buffer entries: > 4 sub-cores per SM with blocks of > 4 warps, > 4 SMs per device with
    kernels of > 4 blocks, > 4 devices with > 4 kernels.  A step that sends several messages in one cycle
    meets a full buffer here (partial failure of a multi-send)."""
    rng = random.Random(ctx.seed * 15485863 + 11)
    one = lambda: rng.choice([1, 1, 2, 3])
    out = []

    def add(shape, tr, **kw):
        sc = {'mode': 'sim', 'shape': shape, 'tr': tr, 'submitAt': [0] * len(tr),
              'engine': rng.choice(['serial', 'shuffle']), 'eseed': rng.randrange(1 << 30),
              'iseed': rng.randrange(1 << 30), 'src': 'wide'}
        sc.update(kw)
        out.append(sc)
    nsub, nsm, ndev = rng.randint(5, 9), rng.randint(5, 8), rng.randint(5, 7)
    # sub-cores per SM beyond the buffer, one block with more warps than sub-cores
    add([{'sm': 1, 'sub': nsub}], [[[one() for _ in range(nsub + rng.randint(1, 4))]]])
    # SMs per device beyond the buffer, more blocks than SMs
    add([{'sm': nsm, 'sub': 1}], [[[one()] for _ in range(nsm + rng.randint(1, 4))]])
    # devices beyond the buffer, more kernels than devices
    add([{'sm': 1, 'sub': 1}] * ndev, [[[one()]] for _ in range(ndev + rng.randint(1, 3))])
    # everything at once, through runner.Runner
    add([{'sm': 5, 'sub': 6}, {'sm': 6, 'sub': 5}],
        [[[one() for _ in range(rng.randint(5, 9))] for _ in range(rng.randint(6, 8))] for _ in range(2)], runner=True)
    for _ in range(8 if thorough else 2):
        shape = [{'sm': rng.randint(1, 7), 'sub': rng.randint(5, 10)} for _ in range(rng.choice([1, 2, 6]))]
        tr = [[[one() for _ in range(rng.randint(5, 12))] for _ in range(rng.randint(1, 8))]
              for _ in range(rng.randint(1, 7 if len(shape) > 4 else 2))]
        add(shape, tr, freqDrv=rng.choice([1e9, 1.0, 5e8]))
    return out


def parse_scenarios(ctx, n, thorough):
    rng = random.Random(ctx.seed * 104729 + 5)
    out = []
    for i in range(n):
        out.append({'mode': 'parse', 'iseed': rng.randrange(1 << 30), 'blocks': rng.choice([1, 2, 3, 4]),
                    'warps': rng.choice([1, 2, 3]), 'insts': rng.choice([1, 3, 6, 12 if thorough else 8]),
                    'pfx': i % 2 == 0})
    return out


# ----------------------------------------------------------------- validation
DEV_RE = re.compile(r'<<"DEVIATION", \{([^}]*)\}, (\d+)>>')
FINDING_TEXT = {
    'EmptyWarp': 'a warp with 0 instructions is never reported finished: the engine goes idle with unfinished kernels',
    'EmptyBlock': 'a thread block with 0 warps is never reported finished: the engine goes idle with unfinished kernels',
    'EmptyKernel': 'a kernel with 0 thread blocks is never reported finished: the engine goes idle with unfinished kernels',
    'HexPrefixAddr': 'a memory address written with the 0x prefix (as in the shipped traces) is parsed as 0',
    'OpcodeDropped': 'the parser never fills Instruction.OpCode (the opcode of every instruction line is lost)',
}


def run_driver(ctx, drv, scen, tag, pout=False):
    sfile = os.path.join(ctx.scratch, 'scen_%s.json' % tag)
    json.dump(scen, open(sfile, 'w'))
    t = os.path.join(ctx.scratch, 'trace_%s.ndjson' % tag)
    p = os.path.join(ctx.scratch, 'ptrace_%s.ndjson' % tag)
    args = ['-scen', sfile, '-out', t] + (['-pout', p] if pout else ['-tout', tick_file(t)])
    pr, stats = common.run_driver(ctx, drv, args)
    if stats is None:
        raise vlib.Infra('driver failed: ' + pr.stdout[-2000:])
    return (p if pout else t), stats


def tick_file(trace_path):
    return trace_path[:-len('.ndjson')] + '_ticks.ndjson'


def conformance_of_tick_model(ctx, trace_path):
    """The per-engine-event log against NvTick (exact prediction of every tick + wake/sleep flags at idle).
    This binds the model whose IdleDone / termination results are claimed to the code; it takes no verdict:
    a property violation is decided by NvTrace (order-free sub-steps), a mere mismatch here means the code's
    tick no longer has the shape NvTick describes (e.g. sub-steps reordered) and is recorded in the evidence."""
    path = tick_file(trace_path)
    if not os.path.exists(path) or os.path.getsize(path) == 0:
        return
    v = ctx.validate_trace(TTICK['dirs'], TTICK['module'], TTICK['cfg'], path, timeout=1800)
    n = len(vlib.split_traces(path))
    c = ctx.cov.setdefault('tick_model', {'runs_conforming': 0, 'engine_events_predicted': 0, 'mismatch': None,
                                           'ticks_not_predicted_by_awake_flags': 0})
    if v['accepted']:
        c['runs_conforming'] += n
        c['engine_events_predicted'] += v['n']
        c['ticks_not_predicted_by_awake_flags'] += sum(int(x) for x in re.findall(r'<<"UNPREDICTED", (\d+), \d+>>', v['res'].out))
    else:
        hw = v['highwater'] or 1
        _, recs = vlib.trace_containing(path, hw)
        c['mismatch'] = {'line': hw, 'violated': v['violated']}
        ctx.notes.append('NvTick no longer predicts the ticks of this tree (first mismatch at tick-log line %d); the '
                         'model-level no-lost-wake-up result is not bound to this tree' % hw)
        ctx.log('NOTE: tick-level model mismatch at line %d of %s (no verdict taken)' % (hw, os.path.basename(path)))


def validate(ctx, tspec, path, scen, what):
    """Validate a concatenated trace (sub-trace i <-> scenario i).  Rejections are triaged by
    common.validate_and_triage; accepted deviation paths are reported per deviation name."""
    if not os.path.exists(path) or os.path.getsize(path) == 0:
        return 0
    v = ctx.validate_trace(tspec['dirs'], tspec['module'], tspec['cfg'], path, timeout=tspec.get('timeout', 1200))
    parts = vlib.split_traces(path)
    starts = [s for s, _ in parts]

    def scen_of(line):
        idx = 0
        for i, s in enumerate(starts):
            if s <= line:
                idx = i
        return idx
    seen = {}
    for m in DEV_RE.finditer(v['res'].out):
        names = [x.strip().strip('"') for x in m.group(1).split(',') if x.strip()]
        line = int(m.group(2))
        for nm in names:
            seen.setdefault(nm, []).append(line)
    for nm, lines in sorted(seen.items()):
        idx = scen_of(lines[0])
        sc = scen[idx] if idx < len(scen) else None
        ctx.cov.setdefault('deviation_uses', {})
        ctx.cov['deviation_uses'][nm] = ctx.cov['deviation_uses'].get(nm, 0) + len(set(scen_of(x) for x in lines))
        ctx.report_failure('%s: %s: %s (scenario %s)' % (ctx.pid, what, FINDING_TEXT.get(nm, nm), json.dumps(sc)[:300]),
                           {'kind': 'deviation', 'deviation': nm},
                           {'driver': {'cmd': 'c20', 'scenarios': [sc]}, 'trace_spec': [tspec['dirs'], tspec['module'], tspec['cfg']],
                            'trace': parts[idx][1] if tspec is TSIM else '(see scenario)'})
    if v['accepted']:
        ctx.cov['traces_validated_against_impl'] += len(parts)
        return len(parts)
    # a line no action explains (or a violated invariant): triage sub-trace by sub-trace
    return common.validate_and_triage(ctx, tspec, path, {'cmd': 'c20', 'scenarios': scen})


# ------------------------------------------------------------ binding self-test
def sim_corruptions():
    def first(recs, pred):
        for i, r in enumerate(recs):
            if pred(r):
                return i
        return None

    def drop_report(recs, rng):
        idx = [i for i, r in enumerate(recs) if r['e'] in ('SendWF', 'SendBF', 'SendKF')]
        if not idx:
            return None
        i = rng.choice(idx)
        return recs[:i] + recs[i + 1:]

    def dup_recv_warp(recs, rng):
        idx = [i for i, r in enumerate(recs) if r['e'] == 'RecvW']
        if not idx:
            return None
        i = rng.choice(idx)
        return recs[:i + 1] + [dict(recs[i])] + recs[i + 1:]

    def corrupt_warp_payload(recs, rng):
        idx = [i for i, r in enumerate(recs) if r['e'] == 'RecvW']
        if not idx:
            return None
        recs[rng.choice(idx)]['pl'] += 1
        return recs

    def corrupt_inst_total(recs, rng):
        idx = [i for i, r in enumerate(recs) if r['e'] == 'Quiesce' and r['insts'] and r['insts'][0] and r['insts'][0][0]]
        if not idx:
            return None
        recs[idx[-1]]['insts'][0][0][0] += 1
        return recs

    def wrong_reporter_id(recs, rng):
        idx = [i for i, r in enumerate(recs) if r['e'] == 'SendWF']
        if not idx:
            return None
        recs[rng.choice(idx)]['id']['c'] += 1
        return recs

    def early_quiesce(recs, rng):
        q = first(recs, lambda r: r['e'] == 'Quiesce')
        s = [i for i, r in enumerate(recs) if r['e'] == 'RecvW']
        if q is None or not s or s[0] > q:
            return None
        return recs[:s[0] + 1] + [dict(recs[q])] + recs[s[0] + 1:]

    def dispatch_to_busy(recs, rng):
        # the second warp is sent to the sub-core that already got the first one
        s = [i for i, r in enumerate(recs) if r['e'] == 'SendW']
        for a in s:
            for b in s:
                if a < b and recs[a]['p'] == recs[b]['p'] and recs[a]['dst'] != recs[b]['dst'] and \
                        not any(r['e'] == 'RecvWF' and r['p'] == recs[a]['p'] for r in recs[a:b]):
                    recs[b]['dst'] = dict(recs[a]['dst'])
                    return recs
        return None

    def submit_other_kernel(recs, rng):
        i = first(recs, lambda r: r['e'] == 'Submit' and r['pl'] and r['pl'][0])
        if i is None:
            return None
        recs[i]['pl'][0] = recs[i]['pl'][0] + [1]
        recs[i]['wcs'][0] += 1
        return recs

    return [('drop_finished_report', drop_report), ('duplicate_warp_receipt', dup_recv_warp),
            ('corrupt_warp_instruction_count', corrupt_warp_payload), ('corrupt_subcore_instruction_total', corrupt_inst_total),
            ('report_names_another_subcore', wrong_reporter_id), ('quiesce_with_work_left', early_quiesce),
            ('warp_sent_to_busy_subcore', dispatch_to_busy), ('submitted_kernel_differs_from_trace', submit_other_kernel)]


def parse_corruptions():
    def insts_of(recs):
        out = []
        for r in recs:
            if r['e'] == 'Parsed':
                for b in r['got']['blocks']:
                    for w in b['warps']:
                        for ins in w['insts']:
                            out.append((r, b, w, ins))
        return out

    def imm(recs, rng):
        xs = insts_of(recs)
        if not xs:
            return None
        rng.choice(xs)[3]['imm'] += 1
        return recs

    def drop_inst(recs, rng):
        xs = [x for x in insts_of(recs)]
        if not xs:
            return None
        _, _, w, ins = rng.choice(xs)
        w['insts'].remove(ins)
        w['cnt'] -= 1
        return recs

    def stride(recs, rng):
        xs = [x for x in insts_of(recs) if x[3]['comp'] == 1]
        if not xs:
            return None
        rng.choice(xs)[3]['s1'] += 4
        return recs

    def delta(recs, rng):
        xs = [x for x in insts_of(recs) if x[3]['s2']]
        if not xs:
            return None
        rng.choice(xs)[3]['s2'][-1] ^= 1
        return recs

    def src_reg(recs, rng):
        xs = [x for x in insts_of(recs) if x[3]['sregs']]
        if not xs:
            return None
        ins = rng.choice(xs)[3]
        ins['sregs'][0] = (ins['sregs'][0] + 1) % 32
        ins['snames'][0] = 'R%d' % ins['sregs'][0]
        return recs

    def block_id(recs, rng):
        for r in recs:
            if r['e'] == 'Parsed' and r['got']['blocks'] and r['got']['blocks'][0].get('ids'):
                r['got']['blocks'][0]['id'][0] += 1
                return recs
        return None

    def header(recs, rng):
        for r in recs:
            if r['e'] == 'Parsed':
                r['got']['hdr']['nregs']['n'][0] += 1
                return recs
        return None

    def addr_nonprefixed(recs, rng):
        # a wrong address is only excused for 0x-prefixed tokens read as zero
        xs = [x for x in insts_of(recs) if x[3]['width'] != 0]
        if not xs:
            return None
        rng.choice(xs)[3]['addr'][3] ^= 2
        return recs

    return [('corrupt_immediate', imm), ('drop_instruction', drop_inst), ('corrupt_stride', stride),
            ('corrupt_delta', delta), ('corrupt_source_register', src_reg), ('corrupt_block_id', block_id),
            ('corrupt_header_field', header), ('corrupt_address', addr_nonprefixed)]


def tick_corruptions():
    def swap_events(recs, rng):
        idx = [i for i, r in enumerate(recs) if r['e'] == 'Tick' and len(r['evs']) >= 2 and r['evs'][0] != r['evs'][1]]
        if not idx:
            return None
        r = recs[rng.choice(idx)]
        r['evs'][0], r['evs'][1] = r['evs'][1], r['evs'][0]
        return recs

    def other_component(recs, rng):
        idx = [i for i, r in enumerate(recs) if r['e'] == 'Tick' and r['evs'] and r['x']['k'] == 'Subcore']
        if not idx:
            return None
        x = recs[rng.choice(idx)]['x']
        x['k'], x['c'] = 'SM', 0
        return recs

    def drop_tick(recs, rng):
        idx = [i for i, r in enumerate(recs) if r['e'] == 'Tick' and r['evs']]
        if not idx:
            return None
        i = rng.choice(idx)
        return recs[:i] + recs[i + 1:]

    def idle_while_awake(recs, rng):
        q = [r for r in recs if r['e'] == 'Quiesce']
        idx = [i for i, r in enumerate(recs) if r['e'] == 'Tick' and any(e['e'].startswith('Send') for e in r['evs'])]
        if not q or not idx:
            return None
        i = idx[0]
        return recs[:i + 1] + [dict(q[0])] + recs[i + 1:]

    def payload(recs, rng):
        idx = [i for i, r in enumerate(recs) if r['e'] == 'Tick' and any(e['e'] == 'SendW' for e in r['evs'])]
        if not idx:
            return None
        for e in recs[rng.choice(idx)]['evs']:
            if e['e'] == 'SendW':
                e['pl'] += 1
        return recs

    return [('swap_events_within_tick', swap_events), ('tick_of_another_component', other_component),
            ('drop_tick', drop_tick), ('engine_idle_while_model_awake', idle_while_awake),
            ('corrupt_dispatched_warp', payload)]


# --------------------------------------------------------------------- checks
def model_check(ctx, thorough):
    if os.environ.get('C20_DEV_SKIP_MC'):      # development aid (mutant runs): the model does not depend on /repo
        return {'mode': 'sim', 'shape': [{'sm': 1, 'sub': 1}, {'sm': 1, 'sub': 1}], 'tr': [[[0]]], 'submitAt': [0],
                'engine': 'serial', 'iseed': 1, 'src': 'tlc-counterexample'}
    r = ctx.tlc_expect_ok(['nvidia'], 'MC_NvSim.tla', 'MC_intended.cfg', coverage=True, timeout=900)
    ctx.log('MC_intended (Dev={}, all traces within bounds incl. empty units): %d distinct states, depth %d' % (r.distinct, r.depth))
    zeros = [z for z in r.coverage_zero()]
    ctx.cov['coverage_zero_actions'] = zeros
    r = ctx.tlc_expect_ok(['nvidia'], 'MC_NvSim.tla', 'MC_asimpl.cfg', timeout=900)
    ctx.log('MC_asimpl (tree as implemented, traces without empty units): %d distinct states' % r.distinct)
    r = ctx.tlc_expect_ok(['nvidia'], 'MC_NvSim.tla', 'MC_backpressure.cfg', coverage=True, timeout=900)
    ctx.log('MC_backpressure (PortCap=1, 3 units on a level: sends meet full buffers): %d distinct states' % r.distinct)
    ctx.cov['coverage_zero_actions'] = sorted(set(zeros) | set(r.coverage_zero()))
    r = ctx.tlc_expect_ok(['nvidia'], 'MC_NvSim.tla', 'MC_live.cfg', timeout=900)
    ctx.log('MC_live (termination under fairness, Quiet = deadlock): %d distinct states' % r.distinct)
    r = ctx.tlc_expect_ok(['nvidia'], 'MC_NvParse.tla', 'MC_NvParse.cfg', timeout=900)
    ctx.log('MC_NvParse (ParseInst o InstToks = id, ParseFile o Serialize = id under every layout): %d cases' % r.distinct)
    # wake/sleep protocol (one action per engine event): no schedule lets the engine go idle with work left
    r = ctx.tlc_expect_ok(['nvidia'], 'MC_NvTick.tla', 'MC_tick_asimpl.cfg', timeout=900)
    ctx.log('MC_tick_asimpl (tick protocol as implemented, traces without empty units): %d distinct states' % r.distinct)
    r = ctx.tlc_expect_ok(['nvidia'], 'MC_NvTick.tla', 'MC_tick_fixed.cfg', timeout=900)
    ctx.log('MC_tick_fixed (proposed repair of the empty units, all traces): %d distinct states' % r.distinct)
    if thorough:
        for cfg in ('MC_ragged.cfg', 'MC_intended_big.cfg', 'MC_asimpl_big.cfg', 'MC_backpressure_big.cfg'):
            r = ctx.tlc_expect_ok(['nvidia'], 'MC_NvSim.tla', cfg, workers=min(vlib.NCPU, 12), timeout=2400)
            ctx.log('%s: %d distinct states' % (cfg, r.distinct))
        for cfg in ('MC_tick_fixed_cap1.cfg', 'MC_tick_fixed_big.cfg', 'MC_tick_asimpl_big.cfg'):
            r = ctx.tlc_expect_ok(['nvidia'], 'MC_NvTick.tla', cfg, workers=min(vlib.NCPU, 12), timeout=3000)
            ctx.log('%s: %d distinct states' % (cfg, r.distinct))
        r = ctx.tlc_expect_ok(['nvidia'], 'MC_NvParse.tla', 'MC_NvParse_big.cfg', timeout=1800)
        ctx.log('MC_NvParse_big: %d cases' % r.distinct)
    # the defect, found on the model: with the deviations of the pinned tree a run can stop with work left
    r = ctx.tlc(['nvidia'], 'MC_NvSim.tla', 'MC_defect.cfg', timeout=600)
    if 'TerminatedDone' not in r.violated:
        raise vlib.Infra('MC_defect: expected counterexample to TerminatedDone not produced: %s %s' % (r.violated, r.out[-1500:]))
    m = re.findall(r'^/\\ tr = (.*)$', r.out, re.M)
    sh = re.findall(r'^/\\ shape = (.*)$', r.out, re.M)
    if not m or not sh:
        raise vlib.Infra('MC_defect: counterexample not parsed')
    return {'mode': 'sim', 'shape': tlaval.parse_value(sh[-1]), 'tr': tlaval.parse_value(m[-1]), 'submitAt': [0],
            'engine': 'serial', 'iseed': 1, 'src': 'tlc-counterexample'}


def run(ctx, selftest=False):
    thorough = ctx.tier == 'thorough'
    drv = ctx.go_build('c20')

    # 1. design level
    cex = model_check(ctx, thorough)
    ctx.sample({'counterexample_of_the_as_implemented_model': cex})

    # 2. spec -> code: TLC behaviours as scenarios (+ the model's counterexample)
    tl = scenarios_from_tlc(ctx, 240 if thorough else 50, 260)
    # 3. seeded random scenarios far beyond the model's bounds
    rnd = random_scenarios(ctx, 500 if thorough else 70, False, thorough, 1)
    rnd_deg = random_scenarios(ctx, 60 if thorough else 10, True, thorough, 2)
    wide = wide_scenarios(ctx, thorough)
    allsc = tl + rnd + rnd_deg + wide + [cex]
    shipped = [{'mode': 'dir', 'dir': SHIPPED, 'a100': False, 'shape': [{'sm': 3, 'sub': 2}, {'sm': 2, 'sub': 4}],
                'tr': [], 'submitAt': [0], 'engine': 'shuffle', 'eseed': ctx.seed, 'runner': True, 'src': 'shipped'}]
    if thorough:
        shipped.append({'mode': 'dir', 'dir': SHIPPED, 'a100': True, 'shape': [], 'tr': [], 'submitAt': [0],
                        'engine': 'serial', 'runner': True, 'src': 'shipped-A100'})
    good = [s for s in allsc if not degenerate(s['tr'])]
    degen = [s for s in allsc if degenerate(s['tr'])]
    ctx.sample({'scenario_from_TLC_behaviour': tl[0]})
    ctx.sample({'random_scenario': rnd[0]})
    ctx.sample({'scenario_wider_than_port_buffers': wide[0]})
    t_good, st1 = run_driver(ctx, drv, good, 'good')
    t_deg, st2 = run_driver(ctx, drv, degen, 'degen')
    t_ship, st0 = run_driver(ctx, drv, shipped, 'shipped')
    ctx.log('runs without empty units: %d (%d events); with empty units: %d (%d events); shipped trace: %d (%d events)' % (
        st1['runs'], st1['events'], st2['runs'], st2['events'], st0['runs'], st0['events']))
    validate(ctx, TSIM, t_good, good, 'simulation')
    validate(ctx, TSIM, t_deg, degen, 'simulation')
    validate(ctx, TSIM, t_ship, shipped, 'simulation of the shipped trace')
    conformance_of_tick_model(ctx, t_good)
    conformance_of_tick_model(ctx, t_deg)
    if thorough:
        conformance_of_tick_model(ctx, t_ship)
    good = good + shipped

    # 4. parser round trip
    ps = parse_scenarios(ctx, 300 if thorough else 40, thorough)
    t_parse, st3 = run_driver(ctx, drv, ps, 'parse', pout=True)
    ctx.log('parser round trips: %d directories, %d records' % (st3['parses'], st3['pevents']))
    validate(ctx, TPARSE, t_parse, ps, 'parser round trip')

    parts = vlib.split_traces(t_good)
    ctx.sample({'trace_excerpt': parts[0][1][:12]})
    # distinct AND non-trivial, counted on scenario descriptions (sub-trace i of a file <-> scenario i)
    nt = {json.dumps(s, sort_keys=True) for s in good + degen if s['mode'] == 'dir' or nontrivial_sim(s)}
    for i, (_, recs) in enumerate(vlib.split_traces(t_parse)):
        if i < len(ps) and any(t['ty'] == 'x' and j > 1 for r in recs if r['e'] == 'Parsed' for ln in r['lines']
                               if ln['k'] == 'inst' for j, t in enumerate(ln['toks'])):
            nt.add(json.dumps(ps[i], sort_keys=True))
    ctx.cov.update({'evaluations': len(good) + len(degen) + len(ps), 'distinct_nontrivial': len(nt),
                    'events_validated': st0['events'] + st1['events'] + st2['events'], 'parse_records_validated': st3['pevents'],
                    'scenarios_from_tlc': len(tl), 'scenarios_random': len(rnd) + len(rnd_deg),
                    'scenarios_wider_than_port_buffers': len(wide),
                    'runs_with_empty_units': len(degen)})

    # 5. binding self-tests
    results = []
    tests = [(TSIM, t_good, sim_corruptions()), (TPARSE, t_parse, parse_corruptions())]
    if ctx.cov.get('tick_model', {}).get('mismatch') is None:
        tests.append((TTICK, tick_file(t_good), tick_corruptions()))
    pick = random.Random(ctx.seed)
    for tspec, path, corr in tests:
        if not thorough:
            corr = pick.sample(corr, 3)      # every corruption is run in the thorough tier
        try:
            results += common.selftest_binding(ctx, tspec, path, corr)
        except vlib.Infra as e:
            # real code so broken that no usable trace exists: the violations above are the verdict;
            # a corruption that is ACCEPTED stays an infrastructure error in every case
            if ctx.violations and 'ACCEPTED' not in str(e):
                ctx.log('binding self-test skipped (%s): the traces of this tree are already rejected' % e)
            else:
                raise
    ctx.cov['binding_selftest'] = results
    ctx.assumptions += [
        'akita v4.9.0 port hooks observe every message of every component',
        'same-time events of one class may run in any order (the shuffle engine breaks ties with a seeded choice; '
        'akita\'s heap-based SerialEngine gives no order either); part of the runs use the real SerialEngine',
        'instruction execution exchanges no message: the run steps of a warp are attributed to the report that ends it',
        'platform shapes have >= 1 device, >= 1 SM per device, >= 1 sub-core per SM; all SMs of one device have the same '
        'number of sub-cores (the public GPU builder offers nothing else)',
        'register names are limited to the ones nvidiaconfig.NewRegister knows (R0..R31, R255); other names make the '
        'reader panic and are outside the structures that can be serialised',
        'unexported work counters and block/warp ids are read through reflection (read-only); if a field disappears '
        'the comparison is skipped (hasSt / ids = false)']


def replay(ctx, path):
    rp = json.load(open(path))['replay']
    drv = ctx.go_build('c20')
    scen = rp['driver']['scenarios']
    before = len(ctx.violations)
    sim = [s for s in scen if s.get('mode') != 'parse']
    par = [s for s in scen if s.get('mode') == 'parse']
    if sim:
        t, _ = run_driver(ctx, drv, sim, 'replay')
        validate(ctx, TSIM, t, sim, 'simulation')
    if par:
        t, _ = run_driver(ctx, drv, par, 'replayp', pout=True)
        validate(ctx, TPARSE, t, par, 'parser round trip')
    return 1 if len(ctx.violations) > before else 0
