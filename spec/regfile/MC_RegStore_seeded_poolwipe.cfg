\* the shape of seeded change C07h (recycled files, register-major wipe of a lane-major file): FreshCells must fail
SPECIFICATION PSpec
CONSTANTS
  Mode = "emu"
  WFs = {1, 2}
  Lanes = {0, 1}
  Counts = {0, 1}
  Zero = 0
  ZeroOf <- MCZeroOf
  OrVal <- MCOr
  NSimd = 2
  SFileSize = 4
  LaneStride = 3
  SGran = 2
  VGran = 1
  ESRegs = 4
  EVRegs = 4
  AllocS = {2}
  AllocV = {2}
  MaxOps = 4
  Deviations = {"EmuPoolUnderwipe"}
INVARIANTS FreshCells
CHECK_DEADLOCK FALSE
