------------------------------ MODULE RegStore ------------------------------
(***************************************************************************)
(* The two register stores of the simulator, shaped like the code, kept in *)
(* lockstep with the flat array-of-cells of RegFile:                       *)
(*                                                                         *)
(*  Mode = "tim"  cu.SimpleRegisterFile: ONE scalar file per compute unit  *)
(*     and one vector file per SIMD, shared by the co-resident wavefronts; *)
(*     a register lives at  index + WaveOffset  (scalar) or                *)
(*     index + lane * ByteSizePerLane + WaveOffset  (vector)               *)
(*     [SimpleRegisterFile.getRegOffset]; the offsets come from the        *)
(*     dispatcher (protocol.WfDispatchLocation, granules of SGran / VGran  *)
(*     registers); SchedulerImpl.resetRegisterValue zeroes nv registers of *)
(*     every lane and ns scalar registers when the wavefront ends.         *)
(*  Mode = "emu"  emu.Wavefront: private SRegFile / VRegFile per wavefront,*)
(*     a register lives at  index  /  lane * 256 + index.                  *)
(*  Both: vcc, exec (64-bit fields, here <<lo, hi>>), scc, m0 are fields   *)
(*     of the wavefront object; halves are written by masking              *)
(*     [emu.Wavefront.WriteReg, cu.CURegFileAccessor.WriteReg].            *)
(*                                                                         *)
(* Everything is counted in dwords (the byte copies of the code are        *)
(* uniform in the dword).  TLC checks that every operand read through the  *)
(* address arithmetic equals the flat model's answer (Refines), i.e. that  *)
(* the layouts implement independent cells as long as the dispatcher hands *)
(* out disjoint regions -- plus read-your-write, the frame condition and   *)
(* aliasing directly on the physical store.                                *)
(*                                                                         *)
(* Deviations (DESIGN.md 2.2) switch on what the pinned tree really does:  *)
(*   "EmuVcchiW1"    emu WriteReg(vcc_hi, RegCount 1) keeps the HIGH half: *)
(*                   vcc = (vcc & 0xffffffff00000000) | data << 32         *)
(*   "EmuVccHalfC0R" emu ReadReg(vcc_hi, RegCount 0) takes the name-based  *)
(*                   fallback and returns the low half                     *)
(*   "ExecHiNone"    exec_hi is not handled by either store (panic)        *)
(*   "EmuExecLoNone" emu WriteReg(exec_lo, RegCount < 2) is not handled    *)
(*   "EmuPoolUnderwipe" (not in the tree; the shape of a seeded change)    *)
(*                   the emulator recycles the files of retired wavefronts *)
(*                   and wipes only the first nv * lanes dwords of the     *)
(*                   lane-major vector file                                *)
(* With Deviations = {} (the intended design) every property holds; with   *)
(* the pinned tree's set TLC produces the counterexamples that the         *)
(* harness replays on the real code.                                       *)
(***************************************************************************)
EXTENDS RegFile

CONSTANTS Mode, WFs, Zero, OrVal(_, _),
          NSimd, SFileSize, LaneStride, SGran, VGran,   \* timing geometry (dwords)
          ESRegs, EVRegs,                               \* emulation: registers per private file / per lane
          AllocS, AllocV,                               \* register counts a kernel may declare
          MaxOps, Deviations

VARIABLES sfile,   \* file id -> array of Vals   (tim: {0}; emu: one per wavefront)
          vfile,   \* file id -> array of Vals   (tim: one per SIMD; emu: one per wavefront)
          sp,      \* wavefront -> [vcc, exec, scc, m0]   fields of the wavefront object
          loc,     \* live wavefront -> [sf, soff, vf, voff]
          nops,    \* bound of the model
          last     \* the step just taken (history, for read-your-write and frame)
pvars == <<vars, sfile, vfile, sp, loc, nops, last>>

NLanes == Cardinality(Lanes)
Tim == Mode = "tim"
SFiles == IF Tim THEN {0} ELSE WFs
VFiles == IF Tim THEN 0..(NSimd - 1) ELSE WFs
SSize == IF Tim THEN SFileSize ELSE ESRegs
Stride == IF Tim THEN LaneStride ELSE EVRegs
VSize == NLanes * Stride
ZeroSp == [vcc |-> <<Zero, Zero>>, exec |-> <<Zero, Zero>>, scc |-> Zero, m0 |-> Zero]
Up(n, g) == ((n + g - 1) \div g) * g

\* ------------------------------------------------------ address arithmetic
SAddr(lc, w, i) == lc[w].soff + i
VAddr(lc, w, lane, i) == i + lane * Stride + lc[w].voff

\* value of one cell of wavefront w through the store (sf, vf, s, lc)
PGet(sf, vf, s, lc, w, c) ==
  CASE c = VCCLO  -> s[w].vcc[1]
    [] c = VCCHI  -> s[w].vcc[2]
    [] c = EXECLO -> s[w].exec[1]
    [] c = EXECHI -> s[w].exec[2]
    [] c = M0     -> s[w].m0
    [] c = SCC    -> s[w].scc
    [] c < 102    -> sf[lc[w].sf][SAddr(lc, w, c)]
    [] OTHER      -> LET lane == (c \div 256) - 1
                     IN  vf[lc[w].vf][VAddr(lc, w, lane, c % 256)]

\* ReadReg of both stores
PRead(w, o) ==
  CASE o.k = "s" -> [j \in 1..Width(o.c) |-> sfile[loc[w].sf][SAddr(loc, w, o.i) + j - 1]]
    [] o.k = "v" -> [j \in 1..Width(o.c) |-> vfile[loc[w].vf][VAddr(loc, w, o.lane, o.i) + j - 1]]
    [] o.k = "vcclo" -> IF Width(o.c) = 1 THEN <<sp[w].vcc[1]>> ELSE sp[w].vcc
    [] o.k = "vcchi" -> IF "EmuVccHalfC0R" \in Deviations /\ ~Tim /\ o.c = 0
                        THEN <<sp[w].vcc[1]>> ELSE <<sp[w].vcc[2]>>
    [] o.k = "execlo" -> IF Width(o.c) = 1 THEN <<sp[w].exec[1]>> ELSE sp[w].exec
    [] o.k = "exechi" -> IF "ExecHiNone" \in Deviations THEN <<0 - 1>> ELSE <<sp[w].exec[2]>>   \* unsupported: the real store panics
    [] o.k = "m0" -> <<sp[w].m0>>
    [] o.k = "scc" -> <<sp[w].scc>>

\* copy(storage[offset : offset+size], data)
Blit(arr, base, d) == [a \in DOMAIN arr |-> IF a >= base /\ a < base + Len(d) THEN d[a - base + 1] ELSE arr[a]]

\* WriteReg of both stores: new <<sfile, vfile, sp>>
SpWrite(w, o, d) ==
  CASE o.k = "vcclo" -> IF Width(o.c) = 1 THEN [sp[w] EXCEPT !.vcc = <<d[1], @[2]>>] ELSE [sp[w] EXCEPT !.vcc = d]
    [] o.k = "vcchi" -> IF "EmuVcchiW1" \in Deviations /\ ~Tim /\ o.c = 1
                        THEN [sp[w] EXCEPT !.vcc = <<Zero, OrVal(@[2], d[1])>>]
                        ELSE [sp[w] EXCEPT !.vcc = <<@[1], d[1]>>]
    [] o.k = "execlo" -> IF Width(o.c) = 1
                         THEN IF "EmuExecLoNone" \in Deviations /\ ~Tim THEN sp[w]      \* panic before any change
                              ELSE [sp[w] EXCEPT !.exec = <<d[1], @[2]>>]
                         ELSE [sp[w] EXCEPT !.exec = d]
    [] o.k = "exechi" -> IF "ExecHiNone" \in Deviations THEN sp[w] ELSE [sp[w] EXCEPT !.exec = <<@[1], d[1]>>]
    [] o.k = "m0" -> [sp[w] EXCEPT !.m0 = d[1]]
    [] o.k = "scc" -> [sp[w] EXCEPT !.scc = d[1]]

PWrite(w, o, d) ==
  /\ Write(w, o, d)
  /\ CASE o.k = "s" -> /\ sfile' = [sfile EXCEPT ![loc[w].sf] = Blit(@, SAddr(loc, w, o.i), d)]
                       /\ UNCHANGED <<vfile, sp>>
       [] o.k = "v" -> /\ vfile' = [vfile EXCEPT ![loc[w].vf] = Blit(@, VAddr(loc, w, o.lane, o.i), d)]
                       /\ UNCHANGED <<sfile, sp>>
       [] OTHER     -> /\ sp' = [sp EXCEPT ![w] = SpWrite(w, o, d)]
                       /\ UNCHANGED <<sfile, vfile>>
  /\ UNCHANGED loc
  /\ last' = [t |-> "W", w |-> w, o |-> o, d |-> d]

\* --------------------------------------------------------------- dispatch
\* registers [off, off + n) rounded to the allocator's granule
Region(off, n, g) == off..(off + Up(n, g) - 1)

\* what the command processor's resource allocator guarantees (timing), and
\* the trivial private files of the emulator
LocOK(w, a, l) ==
  IF Tim
  THEN /\ l.sf = 0 /\ l.vf \in VFiles
       /\ l.soff % SGran = 0 /\ l.soff + Up(a.ns, SGran) <= SFileSize
       /\ l.voff % VGran = 0 /\ l.voff + Up(a.nv, VGran) <= LaneStride
       /\ \A u \in Live :
            /\ Region(l.soff, a.ns, SGran) \cap Region(loc[u].soff, alloc[u].ns, SGran) = {}
            /\ loc[u].vf = l.vf =>
                 Region(l.voff, a.nv, VGran) \cap Region(loc[u].voff, alloc[u].nv, VGran) = {}
  ELSE l = [sf |-> w, soff |-> 0, vf |-> w, voff |-> 0] /\ a.ns <= ESRegs /\ a.nv <= EVRegs

Locs == [sf : SFiles, soff : 0..(SSize - 1), vf : VFiles, voff : 0..(Stride - 1)]

\* WfDispatcherImpl.DispatchWf / emu.ComputeUnit: set the location, write the
\* work-item id into v0 of every lane (v0s: lane -> id)
PDispatch(w, a, l, v0s) ==
  /\ w \in WFs \ Live /\ LocOK(w, a, l)
  /\ LET init == IF a.nv > 0 THEN [x \in {<<w, VCell(n, 0)>> : n \in Lanes} |-> v0s[(x[2] \div 256) - 1]]
                 ELSE <<>>
         lc == [x \in Live \cup {w} |-> IF x = w THEN l ELSE loc[x]]
         fresh == [x \in 0..(VSize - 1) |-> Zero]
         \* emu.NewWavefront makes new files; the recycling variant takes the file of a retired wavefront
         donors == IF ~Tim /\ "EmuPoolUnderwipe" \in Deviations THEN WFs \ Live ELSE {w}
     IN \E u \in donors :
        LET base == IF Tim THEN vfile[l.vf]
                    ELSE IF "EmuPoolUnderwipe" \in Deviations
                         THEN [x \in 0..(VSize - 1) |-> IF x < a.nv * NLanes THEN Zero ELSE vfile[u][x]]
                         ELSE fresh
        IN
        /\ Dispatch(w, a, init)
        /\ loc' = lc
        /\ vfile' = IF a.nv > 0
                    THEN [vfile EXCEPT ![l.vf] = [x \in DOMAIN base |->
                            IF \E n \in Lanes : x = VAddr(lc, w, n, 0)
                            THEN v0s[CHOOSE n \in Lanes : x = VAddr(lc, w, n, 0)] ELSE base[x]]]
                    ELSE [vfile EXCEPT ![l.vf] = base]
        /\ sfile' = IF Tim THEN sfile ELSE [sfile EXCEPT ![l.sf] = [x \in 0..(SSize - 1) |-> Zero]]
        /\ sp' = [sp EXCEPT ![w] = ZeroSp]
  /\ last' = [t |-> "D", w |-> w]

\* SchedulerImpl.resetRegisterValue (timing); the emulator drops the object
PRelease(w) ==
  /\ Release(w)
  /\ IF Tim
     THEN /\ vfile' = [vfile EXCEPT ![loc[w].vf] = [x \in DOMAIN @ |->
                         IF \E n \in Lanes : x >= loc[w].voff + Stride * n /\ x < loc[w].voff + Stride * n + alloc[w].nv
                         THEN Zero ELSE @[x]]]
          /\ sfile' = [sfile EXCEPT ![loc[w].sf] = [x \in DOMAIN @ |->
                         IF x >= loc[w].soff /\ x < loc[w].soff + alloc[w].ns THEN Zero ELSE @[x]]]
     ELSE UNCHANGED <<sfile, vfile>>
  /\ loc' = [x \in Live \ {w} |-> loc[x]]
  /\ UNCHANGED sp
  /\ last' = [t |-> "X", w |-> w]

\* ------------------------------------------------------------------ model
OpsOf(a) ==
  {[k |-> "s", i |-> x[1], c |-> x[2], lane |-> 0] :
      x \in {y \in (0..(a.ns - 1)) \X Counts : y[1] + Width(y[2]) <= a.ns}}
  \cup {[k |-> "v", i |-> x[1], c |-> x[2], lane |-> x[3]] :
      x \in {y \in (0..(a.nv - 1)) \X Counts \X Lanes : y[1] + Width(y[2]) <= a.nv}}
  \cup {[k |-> x[1], i |-> 0, c |-> x[2], lane |-> 0] :
      x \in ({"vcclo", "execlo"} \X {0, 1, 2}) \cup ({"vcchi", "exechi", "m0", "scc"} \X {0, 1})}

PInit == /\ Init
         /\ sfile = [f \in SFiles |-> [x \in 0..(SSize - 1) |-> Zero]]
         /\ vfile = [f \in VFiles |-> [x \in 0..(VSize - 1) |-> Zero]]
         /\ sp = [w \in WFs |-> ZeroSp]
         /\ loc = <<>> /\ nops = 0 /\ last = [t |-> "I"]

\* Both stores only MOVE values (the one exception, the as-implemented vcc_hi
\* write, ORs two of them), so the model writes distinct tags: a value that
\* turns up in the wrong register, lane or wavefront differs from what the
\* flat model holds there, whatever the real data would have been.
DataOf(n, o) == [j \in 1..Len(OpCells(o)) |-> 10 * (n + 1) + j]
V0Of(w) == [n \in Lanes |-> 100 * w + n + 1]

PNext ==
  /\ nops < MaxOps /\ nops' = nops + 1
  /\ \/ \E w \in WFs \ Live, ns \in AllocS, nv \in AllocV, l \in Locs :
          PDispatch(w, [ns |-> ns, nv |-> nv], l, V0Of(w))
     \/ \E w \in Live : \E o \in OpsOf(alloc[w]) : PWrite(w, o, DataOf(nops, o))
     \/ \E w \in Live : PRelease(w)

PSpec == PInit /\ [][PNext]_pvars

\* ------------------------------------------------------------- properties
\* the implementation's answers equal those of the flat array-of-cells model
Refines == \A w \in Live : \A o \in OpsOf(alloc[w]) : PRead(w, o) = Read(w, o)

\* a value written is read back unchanged at the same width
RYW == last.t = "W" => PRead(last.w, last.o) = last.d

\* multi-register operands alias exactly their constituent registers
Alias == \A w \in Live : \A o \in OpsOf(alloc[w]) :
            PRead(w, o) = [j \in 1..Len(OpCells(o)) |-> PRead(w, Single(o, j))[1]]

OwnCells(a) == Specials \cup 0..(a.ns - 1) \cup {VCell(n, i) : n \in Lanes, i \in 0..(a.nv - 1)}

\* lifetime: a wavefront that has just been dispatched holds the dispatch-defined
\* values (the work-item ids in v0) and Zero in every other register, whatever
\* earlier wavefronts - retired or alive - wrote
FreshCells ==
  last.t = "D" =>
    \A c \in OwnCells(alloc[last.w]) :
      PGet(sfile, vfile, sp, loc, last.w, c) =
        IF c >= 256 /\ c % 256 = 0 THEN V0Of(last.w)[(c \div 256) - 1] ELSE Zero

\* no step disturbs any other register, lane or wavefront: every cell of a
\* wavefront that lives before and after the step keeps its value unless it
\* is in the footprint of the write
Frame ==
  [][\A w \in Live \cap DOMAIN alloc' : \A c \in OwnCells(alloc[w]) :
        (last'.t = "W" /\ <<w, c>> \in Foot(last'.w, last'.o))
        \/ PGet(sfile', vfile', sp', loc', w, c) = PGet(sfile, vfile, sp, loc, w, c)]_pvars
=============================================================================
