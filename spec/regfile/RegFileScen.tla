---------------------------- MODULE RegFileScen ----------------------------
(* RegStore with a history variable naming the step taken: `tlc -simulate`  *)
(* on this module yields behaviours (dispatch placements, writes, releases) *)
(* that checks/c07.py scales to the real geometry and harness/cmd/c07       *)
(* executes on both real register stores.                                   *)
EXTENDS RegStore
VARIABLE act
MCZeroOf(c) == 0
MCOr(a, b) == IF a = 0 THEN b ELSE IF b = 0 THEN a ELSE 64 * a + b

SInit == PInit /\ act = [a |-> "Init"]
SNext ==
  /\ PNext
  /\ act' = CASE last'.t = "D" ->
                   [a |-> "D", w |-> last'.w, ns |-> alloc'[last'.w].ns, nv |-> alloc'[last'.w].nv,
                    simd |-> loc'[last'.w].vf, soff |-> loc'[last'.w].soff, voff |-> loc'[last'.w].voff]
              [] last'.t = "W" ->
                   [a |-> "W", w |-> last'.w, k |-> last'.o.k, i |-> last'.o.i, c |-> last'.o.c, lane |-> last'.o.lane]
              [] OTHER -> [a |-> "X", w |-> last'.w]
SSpec == SInit /\ [][SNext]_<<pvars, act>>
=============================================================================
