---------------------------- MODULE MC_RegStore ----------------------------
EXTENDS RegStore
MCZeroOf(c) == 0
Bit(a, n) == (a \div (2 ^ n)) % 2
MCOr(a, b) == (IF Bit(a, 0) + Bit(b, 0) > 0 THEN 1 ELSE 0) + (IF Bit(a, 1) + Bit(b, 1) > 0 THEN 2 ELSE 0)
\* the model's bound is not part of the architectural state; `last' is (it names the step the properties talk about)
=============================================================================
