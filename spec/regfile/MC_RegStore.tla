---------------------------- MODULE MC_RegStore ----------------------------
EXTENDS RegStore
MCZeroOf(c) == 0
\* "or" of two tags: neutral on the zero tag, otherwise a value nobody wrote
MCOr(a, b) == IF a = 0 THEN b ELSE IF b = 0 THEN a ELSE 64 * a + b
=============================================================================
