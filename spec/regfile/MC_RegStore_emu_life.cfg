\* emulation store, lifetimes: dispatch, write, retire, dispatch again (other register count), write
SPECIFICATION PSpec
CONSTANTS
  Mode = "emu"
  WFs = {1, 2}
  Lanes = {0, 1}
  Counts = {0, 1, 2}
  Zero = 0
  ZeroOf <- MCZeroOf
  OrVal <- MCOr
  NSimd = 2
  SFileSize = 4
  LaneStride = 3
  SGran = 2
  VGran = 1
  ESRegs = 4
  EVRegs = 4
  AllocS = {2}
  AllocV = {1, 2}
  MaxOps = 4
  Deviations = {}
INVARIANTS Refines RYW Alias FreshCells
PROPERTIES Frame
CHECK_DEADLOCK FALSE
