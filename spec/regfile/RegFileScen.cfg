SPECIFICATION SSpec
CONSTANTS
  Mode = "tim"
  WFs = {1, 2, 3, 4}
  Lanes = {0, 1, 2}
  Counts = {0, 1, 2, 3, 4}
  Zero = 0
  ZeroOf <- MCZeroOf
  OrVal <- MCOr
  NSimd = 2
  SFileSize = 8
  LaneStride = 6
  SGran = 2
  VGran = 2
  ESRegs = 4
  EVRegs = 4
  AllocS = {2, 4}
  AllocV = {2, 4}
  MaxOps = 14
  Deviations = {}
CHECK_DEADLOCK FALSE
