\* timing store, thorough: 3 scalar granules, 2 allocation sizes each, lane stride 4, all behaviours of <= 3 steps
SPECIFICATION PSpec
CONSTANTS
  Mode = "tim"
  WFs = {1, 2}
  Lanes = {0, 1}
  Counts = {0, 1, 2}
  Zero = 0
  ZeroOf <- MCZeroOf
  OrVal <- MCOr
  NSimd = 2
  SFileSize = 6
  LaneStride = 4
  SGran = 2
  VGran = 1
  ESRegs = 4
  EVRegs = 4
  AllocS = {2, 3}
  AllocV = {1, 2}
  MaxOps = 3
  Deviations = {}
INVARIANTS Refines RYW Alias FreshCells
PROPERTIES Frame
CHECK_DEADLOCK FALSE
