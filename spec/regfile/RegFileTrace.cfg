\* trace validation; the deviations of the pinned tree are accepted as such (and reported by checks/c07.py)
SPECIFICATION TSpec
CONSTANTS
  Deviations = {"EmuVcchiW1", "EmuVccHalfC0R", "ExecHiNone", "EmuExecLoNone", "EmuReadRegOver8"}
CONSTRAINT Mark
POSTCONDITION Accepted
CHECK_DEADLOCK FALSE
