\* emulation store, thorough: 3 wavefronts, 3 lanes, counts up to 3, all behaviours of <= 4 steps
SPECIFICATION PSpec
CONSTANTS
  Mode = "emu"
  WFs = {1, 2, 3}
  Lanes = {0, 1, 2}
  Counts = {0, 1, 2, 3}
  Zero = 0
  ZeroOf <- MCZeroOf
  OrVal <- MCOr
  NSimd = 1
  SFileSize = 4
  LaneStride = 3
  SGran = 2
  VGran = 1
  ESRegs = 4
  EVRegs = 4
  AllocS = {3}
  AllocV = {3}
  MaxOps = 4
  Deviations = {}
INVARIANTS Refines RYW Alias FreshCells
PROPERTIES Frame
CHECK_DEADLOCK FALSE
