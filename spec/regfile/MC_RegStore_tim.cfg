SPECIFICATION PSpec
CONSTANTS
  Mode = "tim"
  WFs = {1, 2}
  Lanes = {0, 1}
  Counts = {0, 1, 2, 3}
  Vals = {0, 1}
  ZeroOf <- MCZeroOf
  OrVal <- MCOr
  NSimd = 1
  SFileSize = 8
  LaneStride = 4
  SGran = 2
  VGran = 1
  ESRegs = 4
  EVRegs = 4
  AllocS = {3, 4}
  AllocV = {1, 2}
  MaxOps = 4
  Deviations = {}
INVARIANTS Refines RYW Alias
PROPERTIES Frame
CHECK_DEADLOCK FALSE
