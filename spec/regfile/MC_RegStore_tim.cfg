\* timing store, quick: 2 wavefronts, 2 lanes, 2 SIMDs, 2 scalar granules, 2 vector granules per lane, all behaviours of <= 3 steps
SPECIFICATION PSpec
CONSTANTS
  Mode = "tim"
  WFs = {1, 2}
  Lanes = {0, 1}
  Counts = {0, 1, 2}
  Zero = 0
  ZeroOf <- MCZeroOf
  OrVal <- MCOr
  NSimd = 2
  SFileSize = 4
  LaneStride = 4
  SGran = 2
  VGran = 2
  ESRegs = 4
  EVRegs = 4
  AllocS = {2}
  AllocV = {2}
  MaxOps = 3
  Deviations = {}
INVARIANTS Refines RYW Alias
PROPERTIES Frame
CHECK_DEADLOCK FALSE
