---------------------------- MODULE RegFileTrace ----------------------------
(***************************************************************************)
(* Trace specification for C07: is a log of register accesses executed on  *)
(* the real emu.Wavefront and on the real timing store                     *)
(* (wavefront.Wavefront + cu.CURegFileAccessor + cu.SimpleRegisterFile of  *)
(* a compute unit built by cu.Builder, wavefronts placed by                *)
(* WfDispatcherImpl.DispatchWf, ended through SchedulerImpl's s_endpgm     *)
(* path) a behaviour of RegFile, the flat array-of-cells model?            *)
(*                                                                         *)
(* RegFile is instantiated twice (E = emulation store, T = timing store);  *)
(* harness/cmd/c07 executes every operation of a history on both stores    *)
(* and logs one line per store:                                            *)
(*                                                                         *)
(*  Reset                                  start of a history              *)
(*  DF st w ns nv sx first exec ka wg init chg                             *)
(*                                         lifetime history on the real    *)
(*                                         emu.ComputeUnit: wavefront w of *)
(*                                         a freshly mapped work-group,    *)
(*                                         observed before it wrote        *)
(*                                         anything (FreshCells)           *)
(*  D  st w ns nv init chg                 wavefront w dispatched; init =  *)
(*                                         its non-zero registers          *)
(*  W  st w api k i c lane d chg           WriteOperand (api WO, d = the   *)
(*                                         uint64), WriteOperandBytes (WB),*)
(*                                         SetVCC/SetEXEC/SetSCC (SET),    *)
(*                                         RegisterFile.Write with the     *)
(*                                         wavefront's offset (WF, timing) *)
(*  R  st w api k i c lane n a chg         ReadOperand (RO, a = the uint64)*)
(*                                         ReadOperandBytes (RB, n = byte  *)
(*                                         count), VCC()/EXEC()/SCC() (GET)*)
(*                                         RegisterFile.Read (RF, timing), *)
(*                                         ReadReg of emu.Wavefront / of   *)
(*                                         the RegFileAccessor (RR)        *)
(*  X  st w chg                            wavefront ended (timing:        *)
(*                                         resetRegisterValue ran)         *)
(*  Panic st w api k i c lane msg chg      the real code panicked          *)
(*  Held  st h                             answers of earlier reads the    *)
(*                                         driver is still holding (the    *)
(*                                         returned byte slices themselves,*)
(*                                         not copies), re-reported after  *)
(*                                         later operations: h = <<seq of  *)
(*                                         the R line, bytes now>>...      *)
(*                                                                         *)
(* After EVERY operation the driver re-reads every register of every live  *)
(* wavefront of that store through the store's own read interface (all ns  *)
(* scalar registers, nv vector registers of all 64 lanes, vcc, exec, scc,  *)
(* m0) and logs the registers whose answer differs from the previous       *)
(* sweep: chg = <<w, cell, bytes>>...  The specification demands that chg  *)
(* is exactly the difference the flat model predicts: the written cells    *)
(* with the written values (read-your-write, aliasing) and nothing else    *)
(* (no other register, lane or wavefront disturbed).  Registers are        *)
(* 4-tuples of bytes, least significant first; scc is one byte.            *)
(*                                                                         *)
(* "As implemented" deviations (DESIGN.md 2.2) are accepted only where the *)
(* intended rule does NOT explain the line, print <<"DEVIATION", l, name>> *)
(* and follow the real store, so the rest of the history is still checked; *)
(* checks/c07.py turns each into a known finding or a violation.           *)
(***************************************************************************)
EXTENDS Integers, Sequences, FiniteSets, TLC, TraceLib, Json, Bitwise

CONSTANTS Deviations

TraceLog == ndJsonDeserialize("trace.ndjson")
N == Len(TraceLog)

VARIABLES l, allocE, cellE, allocT, cellT,
          held    \* sequence number of an R line -> the answer it returned (the driver keeps holding it)
tvars == <<l, allocE, cellE, allocT, cellT, held>>

ZeroBytes(c) == IF c = 253 THEN <<0>> ELSE <<0, 0, 0, 0>>

E == INSTANCE RegFile WITH alloc <- allocE, cell <- cellE, Lanes <- 0..63, Counts <- 0..16, ZeroOf <- ZeroBytes
T == INSTANCE RegFile WITH alloc <- allocT, cell <- cellT, Lanes <- 0..63, Counts <- 0..16, ZeroOf <- ZeroBytes

ASSUME HWInit

Ev == TraceLog[l]
Is(e) == l <= N /\ Ev.e = e /\ l' = l + 1
Emu == Ev.st = "emu"
Dev(name) == name \in Deviations /\ PrintT(<<"DEVIATION", l, name>>)

Op == [k |-> Ev.k, i |-> Ev.i, c |-> Ev.c, lane |-> Ev.lane]
Cells == E!OpCells(Op)                         \* the same operator in both instances
WBytes == IF Ev.k = "scc" THEN 1 ELSE 4 * Len(Cells)
Min(a, b) == IF a < b THEN a ELSE b

\* ------------------------------------------------------------------ bytes
Prefix(s, n) == SubSeq(s, 1, Min(n, Len(s)))
Pad8(s) == [j \in 1..8 |-> IF j <= Len(s) THEN s[j] ELSE 0]
Flatten(vs) == IF Len(vs) = 1 THEN vs[1]
               ELSE [j \in 1..(4 * Len(vs)) |-> vs[(j + 3) \div 4][((j - 1) % 4) + 1]]
Chunk(d, cs) == [j \in 1..Len(cs) |-> IF cs[j] = 253 THEN <<d[1]>> ELSE SubSeq(d, 4 * j - 3, 4 * j)]
IsBytes(s) == \A j \in 1..Len(s) : s[j] \in 0..255

\* ------------------------------------------------------------ the stores
Alloc == IF Emu THEN allocE ELSE allocT
Cell == IF Emu THEN cellE ELSE cellT
LiveW == Ev.w \in DOMAIN Alloc
Valid == LiveW /\ E!ValidOp(Alloc[Ev.w], Op)
GetIn(f, x) == IF x \in DOMAIN f THEN f[x] ELSE ZeroBytes(x[2])
ReadVals == [j \in 1..Len(Cells) |-> GetIn(Cell, <<Ev.w, Cells[j]>>)]

\* the sweep after the operation saw exactly the difference between old and new
DiffOK(old, new, chg) ==
  LET logged == {<<chg[n][1], chg[n][2]>> : n \in 1..Len(chg)}
  IN  /\ \A n \in 1..Len(chg) : GetIn(new, <<chg[n][1], chg[n][2]>>) = chg[n][3]
      /\ \A x \in DOMAIN new : GetIn(new, x) # GetIn(old, x) => x \in logged
Quiet == Ev.chg = <<>>                          \* nothing changed anywhere

Keep == UNCHANGED <<allocE, cellE, allocT, cellT>>
SetCell(new) == IF Emu THEN cellE' = new /\ UNCHANGED <<allocE, allocT, cellT>>
                       ELSE cellT' = new /\ UNCHANGED <<allocE, cellE, allocT>>

TInit == l = 1 /\ allocE = <<>> /\ cellE = <<>> /\ allocT = <<>> /\ cellT = <<>> /\ held = <<>>

TReset == Is("Reset") /\ allocE' = <<>> /\ cellE' = <<>> /\ allocT' = <<>> /\ cellT' = <<>> /\ held' = <<>>

\* ---------------------------------------------------------------- dispatch
InitFn == [x \in {<<Ev.init[n][1], Ev.init[n][2]>> : n \in 1..Len(Ev.init)} |->
             Ev.init[CHOOSE n \in 1..Len(Ev.init) : <<Ev.init[n][1], Ev.init[n][2]>> = x][3]]

TDispatch ==
  /\ Is("D") /\ Quiet                           \* placing a wavefront changes nobody else's registers
  /\ LET a == [ns |-> Ev.ns, nv |-> Ev.nv]
     IN  IF Emu THEN E!Dispatch(Ev.w, a, InitFn) /\ UNCHANGED <<allocT, cellT>>
                ELSE T!Dispatch(Ev.w, a, InitFn) /\ UNCHANGED <<allocE, cellE>>
  /\ UNCHANGED held

\* ------------------------------------------- the first state of a wavefront
\* Lifetime histories on the real emu.ComputeUnit (line DF): the wavefront was
\* created by the compute unit for a freshly mapped work-group - possibly after
\* earlier work-groups with other register counts ran and completed on the same
\* unit - and has executed s_nop only.  Its registers hold what the dispatch
\* ABI defines (exec = the initial execution mask; v0 = work-item id x of each
\* lane; s[0:1] = kernarg segment address if enabled, then the work-group id x
\* if enabled) and ZERO everywhere else, whatever any earlier wavefront wrote.
Le4(v) == <<v % 256, (v \div 256) % 256, 0, 0>>
SInitSeq == (IF Len(Ev.ka) = 8 THEN <<SubSeq(Ev.ka, 1, 4), SubSeq(Ev.ka, 5, 8)>> ELSE <<>>)
            \o (IF Len(Ev.wg) = 4 THEN <<Ev.wg>> ELSE <<>>)
FreshVal(c) ==
  CASE c = 126 -> SubSeq(Ev.exec, 1, 4)
    [] c = 127 -> SubSeq(Ev.exec, 5, 8)
    [] c < Len(SInitSeq) -> SInitSeq[c + 1]
    [] c >= 256 /\ c % 256 = 0 /\ Ev.nv > 0 -> Le4((Ev.first + (c \div 256) - 1) % Ev.sx)
    [] OTHER -> ZeroBytes(c)
FreshDefined == {126, 127} \cup 0..(Len(SInitSeq) - 1) \cup (IF Ev.nv > 0 THEN {256 * (n + 1) : n \in 0..63} ELSE {})
FreshCells ==
  /\ Len(SInitSeq) <= Ev.ns
  /\ \A x \in DOMAIN InitFn : x[1] = Ev.w /\ InitFn[x] = FreshVal(x[2])          \* nothing but the defined values
  /\ \A c \in FreshDefined : FreshVal(c) # ZeroBytes(c) => <<Ev.w, c>> \in DOMAIN InitFn   \* and all of them

TFresh ==
  /\ Is("DF") /\ Emu /\ Quiet
  /\ FreshCells
  /\ E!Dispatch(Ev.w, [ns |-> Ev.ns, nv |-> Ev.nv], InitFn)
  /\ UNCHANGED <<allocT, cellT, held>>

TRelease ==
  /\ Is("X") /\ Quiet                           \* ending a wavefront changes nobody else's registers
  /\ IF Emu THEN E!Release(Ev.w) /\ UNCHANGED <<allocT, cellT>>
            ELSE T!Release(Ev.w) /\ UNCHANGED <<allocE, cellE>>
  /\ UNCHANGED held

\* ------------------------------------------------------------------ writes
\* bytes the call stores: WriteOperand takes the low bytes of the uint64
WData == IF Ev.api = "WO" THEN Prefix(Ev.d, WBytes) ELSE Ev.d
WApiOK ==
  CASE Ev.api \in {"WB", "WF"} -> Len(Ev.d) = WBytes
    [] Ev.api = "WO" -> Len(Ev.d) = 8 /\ WBytes <= 8
    [] Ev.api = "SET" -> /\ <<Ev.k, Ev.c>> \in {<<"vcclo", 2>>, <<"execlo", 2>>, <<"scc", 0>>}
                         /\ Len(Ev.d) = WBytes
    [] OTHER -> FALSE

Intended == E!Put(Cell, Ev.w, Cells, Chunk(WData, Cells))

\* pinned tree: emu WriteReg(vcc_hi, RegCount 1) masks with 0xffffffff00000000:
\* the low half is cleared and the data is or-ed into the old high half
OrBytes(a, b) == [j \in 1..4 |-> a[j] | b[j]]
AsImplVcchi == E!Put(Cell, Ev.w, <<106, 107>>,
                     <<(<<0, 0, 0, 0>>), OrBytes(GetIn(Cell, <<Ev.w, 107>>), WData)>>)

TWrite ==
  /\ Is("W") /\ Valid /\ WApiOK /\ IsBytes(Ev.d) /\ UNCHANGED held
  /\ IF DiffOK(Cell, Intended, Ev.chg)
     THEN SetCell(Intended)
     ELSE /\ Emu /\ Ev.k = "vcchi" /\ Ev.c = 1 /\ Ev.api \in {"WO", "WB"}
          /\ DiffOK(Cell, AsImplVcchi, Ev.chg)
          /\ Dev("EmuVcchiW1")
          /\ SetCell(AsImplVcchi)

\* ------------------------------------------------------------------- reads
All == Flatten(ReadVals)
Expected ==
  CASE Ev.api \in {"RB", "RF"} -> Prefix(All, Ev.n)
    [] Ev.api = "RR" -> All
    [] Ev.api = "RO" -> Pad8(Prefix(All, 8))
    [] Ev.api = "GET" -> All
RApiOK ==
  CASE Ev.api = "RB" -> Ev.n >= 1
    [] Ev.api = "RF" -> Ev.n = WBytes /\ ~Emu /\ Ev.k \in {"s", "v"}
    [] Ev.api \in {"RO", "RR"} -> TRUE
    [] Ev.api = "GET" -> <<Ev.k, Ev.c>> \in {<<"vcclo", 2>>, <<"execlo", 2>>, <<"scc", 0>>}
    [] OTHER -> FALSE

\* pinned tree: a vcc half with RegCount 0 (what the decoder produces for
\* 32-bit operands) is not recognised as a half by the emulator's read paths
VccPair == Flatten(<<GetIn(Cell, <<Ev.w, 106>>), GetIn(Cell, <<Ev.w, 107>>)>>)
AsImplHalfRead ==
  /\ Emu /\ Ev.c = 0
  /\ \/ Ev.k \in {"vcclo", "vcchi"} /\ Ev.api = "RO" /\ Ev.a = VccPair
     \/ Ev.k = "vcchi" /\ Ev.api = "RB" /\ Ev.a = Prefix(GetIn(Cell, <<Ev.w, 106>>), Ev.n)
     \/ Ev.k = "vcchi" /\ Ev.api = "RR" /\ Ev.a = GetIn(Cell, <<Ev.w, 106>>)

TRead ==
  /\ Is("R") /\ Valid /\ RApiOK /\ Quiet        \* a read changes nothing
  /\ \/ Ev.a = Expected
     \/ Ev.a # Expected /\ AsImplHalfRead /\ Dev("EmuVccHalfC0R")
  /\ Keep
  \* the driver goes on holding the returned bytes (the slice itself where the call returns one)
  /\ held' = [k \in (DOMAIN held) \cup {Ev.seq} |-> IF k = Ev.seq THEN Ev.a ELSE held[k]]

\* a returned value is a value: whatever was read or written since, the bytes an
\* earlier read returned are still the bytes it returned
THeld ==
  /\ Is("Held")
  /\ \A n \in 1..Len(Ev.h) : Ev.h[n][1] \in DOMAIN held /\ held[Ev.h[n][1]] = Ev.h[n][2]
  /\ Keep /\ UNCHANGED held

\* ------------------------------------------------------------------ panics
\* a panic is never a behaviour of the register file; the pinned tree's
\* unsupported operands are listed deviations (state untouched)
TPanic ==
  /\ Is("Panic") /\ Valid /\ Quiet /\ Ev.api \in {"RO", "RB", "RR", "WO", "WB"} /\ UNCHANGED held
  /\ \/ Ev.k = "exechi" /\ Dev("ExecHiNone")
     \/ Emu /\ Ev.k = "execlo" /\ Ev.c <= 1 /\ Ev.api \in {"RB", "RR", "WO", "WB"} /\ Dev("EmuExecLoNone")
     \/ Emu /\ Ev.k \in {"s", "v"} /\ Ev.api \in {"RB", "RR"} /\ Len(Cells) > 8 /\ Dev("EmuReadRegOver8")
  /\ Keep

TNext == TReset \/ TDispatch \/ TFresh \/ TRelease \/ TWrite \/ TRead \/ THeld \/ TPanic
TSpec == TInit /\ [][TNext]_tvars

Mark == HWNote(l)
Accepted == HWReport(N)
=============================================================================
