\* trace validation against the intended design only (replay of a reported failure)
SPECIFICATION TSpec
CONSTANTS
  Deviations = {}
CONSTRAINT Mark
POSTCONDITION Accepted
CHECK_DEADLOCK FALSE
