------------------------------- MODULE RegFile -------------------------------
(***************************************************************************)
(* C07 - architectural registers are independent cells with ISA-defined    *)
(* aliasing.                                                               *)
(*                                                                         *)
(* This module is the reference the property names: ONE register store as  *)
(* a flat array of cells.  A cell is one architectural 32-bit register of  *)
(* one wavefront (s0..s101, v0..v255 of each lane, vcc_lo, vcc_hi,          *)
(* exec_lo, exec_hi, m0) or the 1-byte scc.  Nothing else exists: no       *)
(* layout, no offsets, no lane stride.  An operand (register kind, index,  *)
(* RegCount, lane) names a SEQUENCE of cells (OpCells, the ISA aliasing);  *)
(* reading returns their values in order, writing replaces exactly them.   *)
(*                                                                         *)
(* Cells are integers, chosen to coincide with the ISA operand codes:      *)
(*    s<i> = i (0..101)   vcc_lo = 106  vcc_hi = 107   m0 = 124            *)
(*    exec_lo = 126  exec_hi = 127  scc = 253   v<i> of lane n = 256(n+1)+i*)
(* Values are opaque here (the model checker uses small integers, the      *)
(* trace specification little-endian byte tuples).                         *)
(*                                                                         *)
(* RegStore.tla refines this module with the two physical layouts of the   *)
(* simulator; RegFileTrace.tla instantiates it twice (emulation store,     *)
(* timing store) and replays logged accesses of the real code on it.       *)
(***************************************************************************)
EXTENDS Integers, Sequences, FiniteSets, TLC

CONSTANTS Lanes,      \* lane numbers of a wavefront (0..63 in the simulator)
          Counts,     \* RegCount values an s/v operand may carry (0 and 1 both mean one register)
          ZeroOf(_)   \* value of a cell nobody wrote yet (by cell: scc is one byte wide)

VARIABLES alloc,      \* live wavefronts: wavefront id -> [ns, nv] registers it owns (scalar / vector per lane)
          cell        \* <<wavefront, cell>> -> value; absent = ZeroOf
vars == <<alloc, cell>>

Kinds == {"s", "v", "vcclo", "vcchi", "execlo", "exechi", "m0", "scc"}
VCCLO == 106
VCCHI == 107
M0 == 124
EXECLO == 126
EXECHI == 127
SCC == 253
SCell(i) == i
VCell(lane, i) == 256 * (lane + 1) + i
Specials == {VCCLO, VCCHI, M0, EXECLO, EXECHI, SCC}

\* RegCount 0 (what the decoder leaves in most 32-bit operands) and 1 are one register
Width(c) == IF c >= 2 THEN c ELSE 1

\* ------------------------------------------------------------- ISA aliasing
\* the cells an operand o = [k, i, c, lane] stands for, least significant dword first
OpCells(o) ==
  CASE o.k = "s"      -> [j \in 1..Width(o.c) |-> SCell(o.i + j - 1)]
    [] o.k = "v"      -> [j \in 1..Width(o.c) |-> VCell(o.lane, o.i + j - 1)]
    [] o.k = "vcclo"  -> IF Width(o.c) = 1 THEN <<VCCLO>> ELSE <<VCCLO, VCCHI>>
    [] o.k = "vcchi"  -> <<VCCHI>>
    [] o.k = "execlo" -> IF Width(o.c) = 1 THEN <<EXECLO>> ELSE <<EXECLO, EXECHI>>
    [] o.k = "exechi" -> <<EXECHI>>
    [] o.k = "m0"     -> <<M0>>
    [] o.k = "scc"    -> <<SCC>>

\* operands a program of a wavefront with allocation a = [ns, nv] may use
ValidOp(a, o) ==
  /\ o.k \in Kinds
  /\ CASE o.k = "s" -> o.c \in Counts /\ o.i >= 0 /\ o.i + Width(o.c) <= a.ns
       [] o.k = "v" -> o.c \in Counts /\ o.lane \in Lanes /\ o.i >= 0 /\ o.i + Width(o.c) <= a.nv
       [] o.k \in {"vcclo", "execlo"} -> o.c \in {0, 1, 2}
       [] OTHER -> o.c \in {0, 1}

\* cells a wavefront with allocation a owns
OwnCell(a, c) ==
  \/ c \in Specials
  \/ c >= 0 /\ c < a.ns
  \/ \E lane \in Lanes : c >= VCell(lane, 0) /\ c < VCell(lane, a.nv)

\* --------------------------------------------------------------- the store
Live == DOMAIN alloc
Get(w, c) == IF <<w, c>> \in DOMAIN cell THEN cell[<<w, c>>] ELSE ZeroOf(c)
Read(w, o) == LET cs == OpCells(o) IN [j \in 1..Len(cs) |-> Get(w, cs[j])]
Foot(w, o) == LET cs == OpCells(o) IN {<<w, cs[j]>> : j \in 1..Len(cs)}

\* f with the cells cs of wavefront w replaced by the values d
Put(f, w, cs, d) ==
  LET new == {<<w, cs[j]>> : j \in 1..Len(cs)}
  IN  [x \in (DOMAIN f) \cup new |->
         IF x \in new THEN d[CHOOSE j \in 1..Len(cs) : cs[j] = x[2]] ELSE f[x]]

Init == alloc = <<>> /\ cell = <<>>

\* a wavefront starts: its registers exist from now on; init = what the
\* dispatcher put into them (only its own cells), every other one is ZeroOf
Dispatch(w, a, init) ==
  /\ w \notin Live
  /\ \A x \in DOMAIN init : x[1] = w /\ OwnCell(a, x[2])
  /\ alloc' = [x \in Live \cup {w} |-> IF x = w THEN a ELSE alloc[x]]
  /\ cell' = [x \in (DOMAIN cell) \cup (DOMAIN init) |-> IF x \in DOMAIN init THEN init[x] ELSE cell[x]]

\* exactly the cells of the operand change, to the written values
Write(w, o, d) ==
  /\ w \in Live /\ ValidOp(alloc[w], o)
  /\ Len(d) = Len(OpCells(o))
  /\ cell' = Put(cell, w, OpCells(o), d)
  /\ UNCHANGED alloc

\* a wavefront ends: its registers cease to exist, nobody else's change
Release(w) ==
  /\ w \in Live
  /\ alloc' = [x \in Live \ {w} |-> alloc[x]]
  /\ cell' = [x \in {y \in DOMAIN cell : y[1] # w} |-> cell[x]]

\* ----------------------------------------------- what the property states
\* (checked on this module by MC_RegFile; they are what RegStore must preserve)

\* the single-register operand that names the j-th constituent of operand o
Single(o, j) ==
  CASE o.k = "s" -> [k |-> "s", i |-> o.i + j - 1, c |-> 1, lane |-> 0]
    [] o.k = "v" -> [k |-> "v", i |-> o.i + j - 1, c |-> 1, lane |-> o.lane]
    [] o.k = "vcclo" /\ j = 2 -> [k |-> "vcchi", i |-> 0, c |-> 1, lane |-> 0]
    [] o.k = "execlo" /\ j = 2 -> [k |-> "exechi", i |-> 0, c |-> 1, lane |-> 0]
    [] OTHER -> [k |-> o.k, i |-> 0, c |-> 1, lane |-> 0]

\* multi-register operands alias exactly their constituent registers
AliasOK(w, o) == Read(w, o) = [j \in 1..Len(OpCells(o)) |-> Read(w, Single(o, j))[1]]
=============================================================================
