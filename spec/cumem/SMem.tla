-------------------------------- MODULE SMem --------------------------------
(***************************************************************************)
(* The scalar memory path of the timing CU for one s_load_dword[xN]        *)
(* (amd/timing/cu/scalarunit.go executeSMEMLoad / sendRequest,             *)
(* computeunit.go handleScalarDataLoadReturn): Split (one read request per *)
(* cache line into readBuf, the last one flagged, counter ++), Send,       *)
(* MemDo (any order), Handle (write len/4 SGPRs at dst + (piece - start)/4,*)
(* the flagged response decrements the counter and ends the task).         *)
(***************************************************************************)
EXTENDS CUMemISA

CONSTANTS Deviations,   \* "NoX16": ScalarUnit.executeSMEMInst has no case for s_load_dwordx16
          LastIsLast,   \* environment: the flagged response is not overtaken
          MemSize, NSRegs, MCOps, MCAddrs, MCDsts
Dev(d) == d \in Deviations

VARIABLES I, sreg, phase, readBuf, inMem, ready, handled, outS, completed
vars == <<I, sreg, phase, readBuf, inMem, ready, handled, outS, completed>>

Mem0 == [b \in 0..(MemSize - 1) |-> (b * 29 + 7) % 256]
SReg0 == [k \in 1..(4 * NSRegs) |-> (k * 13 + 200) % 256]
N == SBytes(I.opc)

SortedBy(S) == LET RECURSIVE Srt(_)
                   Srt(T) == IF T = {} THEN <<>> ELSE LET m == CHOOSE x \in T : \A y \in T : x.a <= y.a IN <<m>> \o Srt(T \ {m})
               IN Srt(S)

Split ==
  /\ phase = "issued"
  /\ IF Dev("NoX16") /\ I.opc = 4
     THEN phase' = "crashed" /\ UNCHANGED <<readBuf, outS>>
     ELSE LET ps == SortedBy(SPieces(I.a, N)) IN
          /\ phase' = "split"
          /\ readBuf' = [i \in 1..Len(ps) |-> [a |-> ps[i].a, n |-> ps[i].n, last |-> (i = Len(ps)), data |-> <<>>]]
          /\ outS' = outS + 1
  /\ UNCHANGED <<I, sreg, inMem, ready, handled, completed>>

Send ==
  /\ readBuf # <<>> /\ inMem' = inMem \cup {Head(readBuf)} /\ readBuf' = Tail(readBuf)
  /\ UNCHANGED <<I, sreg, phase, ready, handled, outS, completed>>

MemDo(t) ==
  /\ t \in inMem /\ inMem' = inMem \ {t}
  /\ ready' = ready \cup {[t EXCEPT !.data = [k \in 1..t.n |-> Mem0[t.a + k - 1]]]}
  /\ UNCHANGED <<I, sreg, phase, readBuf, handled, outS, completed>>

Handle(t) ==
  /\ t \in ready /\ ready' = ready \ {t}
  /\ (LastIsLast /\ t.last) => (readBuf = <<>> /\ inMem = {} /\ ready = {t})
  /\ LET first == 4 * (I.dst + (t.a - I.a) \div 4)   \* DstSGPR = regIndex + (curr - start) / 4
     IN sreg' = [k \in 1..Len(sreg) |-> IF k > first /\ k <= first + t.n THEN t.data[k - first] ELSE sreg[k]]
  /\ handled' = handled \cup {t.a}
  /\ outS' = IF t.last THEN outS - 1 ELSE outS
  /\ completed' = IF t.last THEN completed + 1 ELSE completed
  /\ UNCHANGED <<I, phase, readBuf, inMem>>

Init ==
  /\ I \in {[opc |-> o, a |-> a, dst |-> d] : o \in MCOps, a \in MCAddrs, d \in MCDsts}
  /\ I.a + SBytes(I.opc) <= MemSize /\ I.dst + SDwords(I.opc) <= NSRegs
  /\ sreg = SReg0 /\ phase = "issued" /\ readBuf = <<>> /\ inMem = {} /\ ready = {} /\ handled = {} /\ outS = 0 /\ completed = 0

Next == Split \/ Send \/ (\E t \in inMem : MemDo(t)) \/ (\E t \in ready : Handle(t))
Spec == Init /\ [][Next]_vars
FairSpec == Spec /\ WF_vars(Split) /\ WF_vars(Send) /\ WF_vars(\E t \in inMem : MemDo(t)) /\ WF_vars(\E t \in ready : Handle(t))

AllDone == phase = "split" /\ readBuf = <<>> /\ inMem = {} /\ ready = {}
NoCrash == phase # "crashed"
AllReqs == {readBuf[i] : i \in 1..Len(readBuf)} \cup inMem \cup ready
\* the requests are exactly the cache-line pieces of [a, a+N), exactly one is flagged
PiecesSound == phase = "split" =>
  /\ {[a |-> t.a, n |-> t.n] : t \in AllReqs} \cup {p \in SPieces(I.a, N) : p.a \in handled} = SPieces(I.a, N)
  /\ \A t \in AllReqs : LineOf(t.a) = LineOf(t.a + t.n - 1)
  /\ Cardinality({t \in AllReqs : t.last}) <= 1
\* exactly the N bytes land in exactly the destination SGPRs, every other SGPR keeps its value
SRegsCorrect == AllDone => sreg = ExpSRegs(SReg0, I.dst, I.a, N, Mem0)
CountersZero == AllDone => outS = 0
CompletesOnce == completed <= 1 /\ (AllDone => completed = 1)
CompletesAfterLast == completed = 1 => AllDone
TypeOK == outS \in 0..1
Finishes == <>(AllDone)
=============================================================================
