SPECIFICATION FairSpec
CONSTANTS
  NLanes = 1
  LineSize = 16
  Deviations <- NoDev
  LastIsLast = TRUE
  MemSize = 96
  NSRegs = 20
  MCOps <- Ops
  MCAddrs <- Addrs
  MCDsts <- Dsts
PROPERTIES Finishes
CHECK_DEADLOCK FALSE
