------------------------------ MODULE CUMemISA ------------------------------
(***************************************************************************)
(* ISA-level meaning of the scalar loads (SMEM s_load_dword .. x16) and of *)
(* the LDS instructions the simulator implements (ds_write_b32,            *)
(* ds_write2_b32, ds_write_b8, ds_read_b32, ds_read2_b32, ds_write2_b64,   *)
(* ds_read_b64, ds_read2_b64), as functions of the instruction record.     *)
(* Shared by the models SMem.tla / LDS.tla (small instances) and by        *)
(* CUMemTrace.tla (64 lanes, 64-byte lines, the real LDS size).            *)
(* Byte addresses are 0-based, byte sequences 1-based.                     *)
(***************************************************************************)
EXTENDS Integers, Sequences, FiniteSets, TLC

CONSTANTS NLanes, LineSize
Lanes == 1..NLanes

\* ------------------------------------------------------------- scalar loads
\* opcode 0..4 loads 1, 2, 4, 8, 16 dwords into consecutive SGPRs
SDwords(opc) == CASE opc = 0 -> 1 [] opc = 1 -> 2 [] opc = 2 -> 4 [] opc = 3 -> 8 [] opc = 4 -> 16
SBytes(opc) == 4 * SDwords(opc)
LineOf(b) == b - (b % LineSize)
\* the requests of a scalar load: [a, a+N) cut at cache-line boundaries
SPieces(a, N) ==
  LET starts == {a} \cup {x \in (a + 1)..(a + N - 1) : x % LineSize = 0}
      nextOf(s) == IF \E x \in starts : x > s THEN CHOOSE x \in starts : x > s /\ \A y \in starts : y > s => x <= y ELSE a + N
  IN {[a |-> s, n |-> nextOf(s) - s] : s \in starts}
\* the SGPR file (as bytes, register r at bytes 4r+1..4r+4) after the load; B maps byte address -> byte
ExpSRegs(before, dst, a, N, B) ==
  [k \in 1..Len(before) |-> IF k > 4 * dst /\ k <= 4 * dst + N THEN B[a + (k - 4 * dst - 1)] ELSE before[k]]

\* --------------------------------------------------------------------- LDS
\* I = [opc, off0, off1, exec, a (lane -> LDS byte address), d0, d1 (lane -> bytes), before (lane -> bytes)]
DsWrite(opc) == opc \in {13, 14, 30, 78}
DsTwo(opc) == opc \in {14, 55, 78, 119}
DsSize(opc) == CASE opc \in {13, 14, 54, 55} -> 4 [] opc = 30 -> 1 [] opc \in {78, 118, 119} -> 8
DsScale(opc) == CASE opc \in {14, 55} -> 4 [] opc \in {78, 119} -> 8 [] OTHER -> 1
DsKnown == {13, 14, 30, 54, 55, 78, 118, 119}
DsActive(I) == {l \in Lanes : I.exec[l] = 1}
DsSlots(I) == IF DsTwo(I.opc) THEN {1, 2} ELSE {1}
\* one-address forms carry a 16-bit offset (logged in off0), two-address forms two 8-bit offsets scaled by the width
DsAddr(I, l, s) == I.a[l] + (IF s = 1 THEN I.off0 ELSE I.off1) * DsScale(I.opc)
DsData(I, l, s) == IF s = 1 THEN I.d0[l] ELSE I.d1[l]
SetMax(S) == CHOOSE x \in S : \A y \in S : y <= x
\* the LDS of the work-group after the instruction: lanes in order, address 0 then address 1
ApplyDS(I, L) ==
  IF ~DsWrite(I.opc) THEN L
  ELSE LET sz == DsSize(I.opc) IN
       [b \in 1..Len(L) |->
          LET W == {ls \in DsActive(I) \X DsSlots(I) : DsAddr(I, ls[1], ls[2]) <= b - 1 /\ b - 1 < DsAddr(I, ls[1], ls[2]) + sz}
          IN IF W = {} THEN L[b]
             ELSE LET l == SetMax({ls[1] : ls \in W})
                      s == SetMax({ls[2] : ls \in {x \in W : x[1] = l}})
                  IN DsData(I, l, s)[b - 1 - DsAddr(I, l, s) + 1]]
\* destination registers of a lane after a read
Slice(L, a, n) == [k \in 1..n |-> L[a + k]]
ExpDsDst(I, l, L) ==
  IF DsWrite(I.opc) \/ l \notin DsActive(I) THEN I.before[l]
  ELSE IF DsTwo(I.opc) THEN Slice(L, DsAddr(I, l, 1), DsSize(I.opc)) \o Slice(L, DsAddr(I, l, 2), DsSize(I.opc))
  ELSE Slice(L, DsAddr(I, l, 1), DsSize(I.opc))
\* every byte an active lane touches lies inside the group's LDS
DsInBounds(I, n) == \A l \in DsActive(I) : \A s \in DsSlots(I) : DsAddr(I, l, s) >= 0 /\ DsAddr(I, l, s) + DsSize(I.opc) <= n
=============================================================================
