SPECIFICATION TSpec
CONSTANTS
  NLanes = 64
  LineSize = 64
  Tolerant = FALSE
INVARIANTS ScalarInv LDSInv CompleteInv ValuesInv
CONSTRAINT Mark
POSTCONDITION Accepted
CHECK_DEADLOCK FALSE
