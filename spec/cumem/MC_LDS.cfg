SPECIFICATION Spec
CONSTANTS
  NLanes = 2
  LineSize = 16
  Deviations <- NoDev
  NGroups = 2
  LSize = 16
  WfGroup <- Groups2
  Menu <- Menus
  ExecCycles = 2
INVARIANTS WindowsCorrect ReadsCorrect CompletesOnce OneInUnit
CHECK_DEADLOCK FALSE
