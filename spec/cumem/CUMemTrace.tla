----------------------------- MODULE CUMemTrace -----------------------------
(***************************************************************************)
(* Trace specification for the scalar memory path and the LDS path of the  *)
(* real timing CU.  Events (one ndjson line each, single goroutine):       *)
(*   SExec  a scalar load was issued: opcode, address (base + offset as    *)
(*          read from the real SGPRs), destination, the SGPR window before *)
(*   SReq   request sent on ToScalarMem (address, size, last flag)         *)
(*   SRsp   response taken by the CU (data)                                *)
(*   SEnd   the instruction's task was ended (every call)                  *)
(*   SDone  all responses handled: the SGPR window now                     *)
(*   DExec  an LDS instruction was issued: opcode, offsets, EXEC, per-lane *)
(*          address, data registers, destination registers before, group   *)
(*   DEnd   its task was ended: destination registers and the LDS of every *)
(*          co-resident work-group as they are now                         *)
(*   WfEnd, Quiesce, Final (result buffer vs emulation), Panic             *)
(* The LDS unit is an in-order pipeline whose write stage (task end) runs  *)
(* before the next instruction's ALU step, so the LDS logged at DEnd shows *)
(* the effects of exactly the instructions ended so far; the specification *)
(* keeps every group's LDS by applying the ISA function at each DEnd.      *)
(***************************************************************************)
EXTENDS CUMemISA, TraceLib, Json

CONSTANT Tolerant

TraceLog == ndJsonDeserialize("trace.ndjson")
N == Len(TraceLog)

VARIABLES l, sfl, rq, dfl, lds, bad, rejects
tvars == <<l, sfl, rq, dfl, lds, bad, rejects>>

ASSUME HWInit
Ev == TraceLog[l]
Is(e) == l <= N /\ Ev.e = e /\ l' = l + 1
Flag(name) == bad' = bad \cup {name}
Ok == bad' = bad

TInit == l = 1 /\ sfl = <<>> /\ rq = <<>> /\ dfl = <<>> /\ lds = <<>> /\ bad = {} /\ rejects = <<>>

\* ---------------------------------------------------------------- scalar
TSExec ==
  /\ Is("SExec") /\ Ev.id \notin DOMAIN sfl
  /\ sfl' = sfl @@ (Ev.id :> [opc |-> Ev.opc, a |-> Ev.a, dst |-> Ev.dst, before |-> Ev.before, w |-> Ev.w,
                              pieces |-> IF Ev.opc \in 0..4 THEN SPieces(Ev.a, SBytes(Ev.opc)) ELSE {},
                              seen |-> {}, rsp |-> <<>>, nrsp |-> 0, last |-> FALSE, ended |-> 0, done |-> FALSE,
                              t0 |-> l, t1 |-> 0])
  /\ IF Ev.opc \in 0..4 THEN Ok ELSE Flag("ScalarOpcode")
  /\ UNCHANGED <<rq, dfl, lds, rejects>>

TSReq ==
  /\ Is("SReq") /\ Ev.id \in DOMAIN sfl /\ Ev.r \notin DOMAIN rq
  /\ LET f == sfl[Ev.id]
         p == [a |-> Ev.a, n |-> Ev.n]
     IN /\ IF p \notin f.pieces \/ p \in f.seen THEN Flag("ScalarRequests")
           ELSE IF f.last \/ (Ev.last = 1 /\ f.seen \cup {p} # f.pieces) THEN Flag("ScalarLastRequest")
           ELSE Ok
        /\ sfl' = [sfl EXCEPT ![Ev.id] = [f EXCEPT !.seen = @ \cup {p}, !.last = (@ \/ Ev.last = 1)]]
        /\ rq' = rq @@ (Ev.r :> [id |-> Ev.id, a |-> Ev.a, n |-> Ev.n])
  /\ UNCHANGED <<dfl, lds, rejects>>

TSRsp ==
  /\ Is("SRsp") /\ Ev.r \in DOMAIN rq /\ rq[Ev.r].id = Ev.id
  /\ LET f == sfl[Ev.id]
         a == rq[Ev.r].a
     IN /\ IF a \in DOMAIN f.rsp \/ Len(Ev.data) # rq[Ev.r].n THEN Flag("ScalarResponses") ELSE Ok
        /\ sfl' = [sfl EXCEPT ![Ev.id] = [f EXCEPT !.rsp = (a :> Ev.data) @@ @, !.nrsp = @ + 1]]
  /\ UNCHANGED <<rq, dfl, lds, rejects>>

TSEnd ==
  /\ Is("SEnd") /\ Ev.id \in DOMAIN sfl
  /\ LET f == sfl[Ev.id] IN
       /\ IF f.ended >= 1 THEN Flag("CompletesOnce")
          ELSE IF f.seen # f.pieces \/ f.nrsp < Cardinality(f.pieces) THEN Flag("CompletesAfterLastResponse")
          ELSE Ok
       /\ sfl' = [sfl EXCEPT ![Ev.id] = [f EXCEPT !.ended = @ + 1]]
  /\ UNCHANGED <<rq, dfl, lds, rejects>>

\* exactly the requested bytes in exactly the destination SGPRs; when the wavefront issued nothing else in the
\* meantime (quiet), every other SGPR of the window is untouched
TSDone ==
  /\ Is("SDone") /\ Ev.id \in DOMAIN sfl
  /\ LET f == sfl[Ev.id]
         n == SBytes(f.opc)
         complete == f.seen = f.pieces /\ DOMAIN f.rsp = {p.a : p \in f.pieces}
         pieceOf(b) == CHOOSE p \in f.pieces : p.a <= b /\ b < p.a + p.n
         B == [b \in f.a..(f.a + n - 1) |-> f.rsp[pieceOf(b).a][b - pieceOf(b).a + 1]]
         exp == ExpSRegs(f.before, f.dst, f.a, n, B)
         inDst(k) == k > 4 * f.dst /\ k <= 4 * f.dst + n
         \* destinations of other loads of the wavefront that were in flight at the same time
         others == {j \in DOMAIN sfl : j # Ev.id /\ sfl[j].w = f.w /\ (sfl[j].t1 = 0 \/ sfl[j].t1 > f.t0)}
         excused(k) == \E j \in others : k > 4 * sfl[j].dst /\ k <= 4 * sfl[j].dst + SBytes(sfl[j].opc)
     IN /\ IF f.done THEN Flag("CompletesOnce")
           ELSE IF ~complete THEN Flag("ScalarRequests")
           ELSE IF Len(Ev.after) # Len(exp) \/ (\E k \in 1..Len(exp) : Ev.after[k] # exp[k] /\ (inDst(k) \/ (Ev.quiet = 1 /\ ~excused(k))))
                THEN Flag("ScalarWriteBack")
           ELSE Ok
        /\ sfl' = [sfl EXCEPT ![Ev.id] = [f EXCEPT !.done = TRUE, !.t1 = l]]
  /\ UNCHANGED <<rq, dfl, lds, rejects>>

\* ------------------------------------------------------------------- LDS
DInstr(e) == [opc |-> e.opc, off0 |-> e.off0, off1 |-> e.off1, exec |-> e.exec, a |-> e.a, d0 |-> e.d0, d1 |-> e.d1,
              before |-> e.before, g |-> e.g, w |-> e.w]
TDExec ==
  /\ Is("DExec") /\ Ev.id \notin DOMAIN dfl /\ Ev.g \in DOMAIN lds
  /\ dfl' = dfl @@ (Ev.id :> [I |-> DInstr(Ev), ended |-> 0])
  /\ IF Ev.opc \notin DsKnown THEN Flag("LDSOpcode")
     ELSE IF ~DsInBounds(DInstr(Ev), Len(lds[Ev.g])) THEN Flag("LDSBounds")   \* the kernels stay inside the group's allocation
     ELSE Ok
  /\ UNCHANGED <<sfl, rq, lds, rejects>>

TDEnd ==
  /\ Is("DEnd") /\ Ev.id \in DOMAIN dfl
  /\ LET I == dfl[Ev.id].I
         g == I.g
         new == ApplyDS(I, lds[g])
     IN /\ IF dfl[Ev.id].ended >= 1 THEN Flag("CompletesOnce")
           ELSE IF Ev.lds[g] # new THEN Flag("LDSEffect")
           ELSE IF \E h \in DOMAIN lds : h # g /\ Ev.lds[h] # lds[h] THEN Flag("LDSIsolation")
           ELSE IF ~DsWrite(I.opc) /\ (\E ln \in Lanes : Ev.after[ln] # ExpDsDst(I, ln, lds[g])) THEN Flag("LDSReadBack")
           ELSE Ok
        /\ lds' = [lds EXCEPT ![g] = new]
        /\ dfl' = [dfl EXCEPT ![Ev.id].ended = @ + 1]
  /\ UNCHANGED <<sfl, rq, rejects>>

\* ----------------------------------------------------------------- common
Settled == (\A i \in DOMAIN sfl : sfl[i].done /\ sfl[i].ended = 1) /\ (\A i \in DOMAIN dfl : dfl[i].ended = 1)
TWfEnd ==
  /\ Is("WfEnd")
  /\ IF Ev.ov # 0 \/ Ev.os # 0 THEN Flag("CountersZero")
     ELSE IF (\E i \in DOMAIN sfl : sfl[i].w = Ev.w /\ ~(sfl[i].done /\ sfl[i].ended = 1))
             \/ (\E i \in DOMAIN dfl : dfl[i].I.w = Ev.w /\ dfl[i].ended # 1) THEN Flag("CompletesOnce")
     ELSE Ok
  /\ UNCHANGED <<sfl, rq, dfl, lds, rejects>>

TQuiesce ==
  /\ Is("Quiesce")
  /\ IF Ev.pending # 0 THEN Flag("NoHang") ELSE IF ~Settled THEN Flag("CompletesOnce") ELSE Ok
  /\ UNCHANGED <<sfl, rq, dfl, lds, rejects>>

TFinal ==
  /\ Is("Final")
  /\ IF Ev.ref = 0 \/ Ev.to = Ev.eo THEN Ok ELSE Flag("ValuesEqualReference")
  /\ UNCHANGED <<sfl, rq, dfl, lds, rejects>>

Fresh(groups, size) ==
  /\ sfl' = <<>> /\ rq' = <<>> /\ dfl' = <<>> /\ bad' = {}
  /\ lds' = [g \in 1..groups |-> [b \in 1..size |-> 0]]
TReset == Is("Reset") /\ Fresh(Ev.groups, IF Ev.kind = "lds" THEN Ev.lds ELSE 0) /\ UNCHANGED rejects

Events == TSExec \/ TSReq \/ TSRsp \/ TSEnd \/ TSDone \/ TDExec \/ TDEnd \/ TWfEnd \/ TQuiesce \/ TFinal \/ TReset

ResetLines == {j \in 1..N : TraceLog[j].e = "Reset"}
NextReset(j) == IF \E k \in ResetLines : k >= j THEN CHOOSE k \in ResetLines : k >= j /\ \A m \in ResetLines : m >= j => k <= m
                ELSE N + 1
TSkip ==
  /\ Tolerant /\ (l <= N \/ bad # {})
  /\ IF bad # {}
     THEN rejects' = Append(rejects, [l |-> l - 1, why |-> bad]) /\ l' = NextReset(l)
     ELSE rejects' = Append(rejects, [l |-> l, why |-> {"no_matching_action"}]) /\ l' = NextReset(l + 1)
  /\ sfl' = <<>> /\ rq' = <<>> /\ dfl' = <<>> /\ bad' = {} /\ lds' = <<>>

TNext == IF bad # {} THEN TSkip
         ELSE IF Tolerant /\ l <= N /\ ~ENABLED Events THEN TSkip
         ELSE Events
TSpec == TInit /\ [][TNext]_tvars

ScalarInv   == bad \cap {"ScalarOpcode", "ScalarRequests", "ScalarLastRequest", "ScalarResponses", "ScalarWriteBack"} = {}
LDSInv      == bad \cap {"LDSOpcode", "LDSBounds", "LDSEffect", "LDSIsolation", "LDSReadBack"} = {}
CompleteInv == bad \cap {"CompletesOnce", "CompletesAfterLastResponse", "CountersZero", "NoHang"} = {}
ValuesInv   == "ValuesEqualReference" \notin bad

Mark == HWNote(l)
Accepted == HWReport(N)
Report == (l = N + 1 /\ bad = {}) => PrintT(<<"REJECTS", rejects>>)
=============================================================================
