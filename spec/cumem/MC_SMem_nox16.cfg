SPECIFICATION Spec
CONSTANTS
  NLanes = 1
  LineSize = 16
  Deviations <- NoX16
  LastIsLast = TRUE
  MemSize = 96
  NSRegs = 20
  MCOps <- Ops
  MCAddrs <- Addrs
  MCDsts <- Dsts
INVARIANTS TypeOK NoCrash PiecesSound SRegsCorrect CountersZero CompletesOnce CompletesAfterLast
CHECK_DEADLOCK FALSE
