------------------------------- MODULE MC_LDS -------------------------------
EXTENDS LDS
NoDev == {}
NoBase == {"NoLDSBase"}
Groups2 == (1 :> 1) @@ (2 :> 2) @@ (3 :> 1)
D(l, n, k) == [i \in 1..n |-> (l * 40 + i * 9 + k) % 256]
Ins(opc, o0, o1, e, a, k) ==
  [opc |-> opc, off0 |-> o0, off1 |-> o1, exec |-> e, a |-> a,
   d0 |-> [l \in Lanes |-> D(l, 8, k)], d1 |-> [l \in Lanes |-> D(l, 8, k + 100)],
   before |-> [l \in Lanes |-> D(l, IF opc = 119 THEN 16 ELSE IF opc \in {55, 118} THEN 8 ELSE 4, k + 50)]]
\* wavefront 1 and 3 belong to group 1, wavefront 2 to group 2; the groups use the same addresses
Menus == (1 :> <<Ins(13, 2, 0, <<1, 1>>, <<0, 2>>, 1), Ins(55, 0, 2, <<1, 0>>, <<0, 4>>, 2)>>)
      @@ (2 :> <<Ins(14, 0, 2, <<1, 1>>, <<0, 4>>, 3), Ins(54, 4, 0, <<0, 1>>, <<0, 0>>, 4)>>)
      @@ (3 :> <<Ins(30, 1, 0, <<0, 1>>, <<9, 7>>, 5), Ins(78, 0, 1, <<1, 0>>, <<0, 0>>, 6), Ins(118, 8, 0, <<1, 1>>, <<0, 0>>, 7)>>)
=============================================================================
