SPECIFICATION FairSpec
CONSTANTS
  NLanes = 2
  LineSize = 16
  Deviations <- NoDev
  NGroups = 2
  LSize = 16
  WfGroup <- Groups2
  Menu <- Menus
  ExecCycles = 2
PROPERTIES Finishes
CHECK_DEADLOCK FALSE
