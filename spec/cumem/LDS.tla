--------------------------------- MODULE LDS ---------------------------------
(***************************************************************************)
(* The LDS path of the timing CU (amd/timing/cu/ldsunit.go) with           *)
(* co-resident work-groups.  The physical LDS is one array; work-group g   *)
(* owns the window [Base(g), Base(g) + LSize) (in the code: one slice per  *)
(* work-group, wavefront.WorkGroup.LDS, handed to the shared ALU by        *)
(* SetLDS before every instruction).  The unit is a three-stage in-order   *)
(* pipeline (toRead, toExec, toWrite): Accept, ReadStage, ExecStart (the   *)
(* ALU runs the instruction for all 64 lanes at once), ExecWait,           *)
(* WriteStage (the task ends, the wavefront is ready again).               *)
(* `shadow[g]` is the work-group's LDS according to the ISA alone; the     *)
(* invariants compare the physical array and the registers with it.        *)
(***************************************************************************)
EXTENDS CUMemISA

CONSTANTS Deviations,  \* "NoLDSBase": every work-group is given the same window
          NGroups, LSize, WfGroup,  \* WfGroup: wavefront -> work-group
          Menu,        \* wavefront -> Seq of instructions it executes
          ExecCycles
Dev(d) == d \in Deviations
Wfs == DOMAIN WfGroup
Base(g) == IF Dev("NoLDSBase") THEN 0 ELSE (g - 1) * LSize

VARIABLES lds,      \* physical LDS, Seq of NGroups * LSize bytes
          shadow,   \* work-group -> its LDS by the ISA
          regs,     \* wavefront -> lane -> destination register bytes
          want,     \* wavefront -> lane -> what the ISA says the destination registers hold
          pc,       \* wavefront -> instructions completed
          busy,     \* wavefronts with an instruction in the unit
          toRead, toExec, toWrite, cycleLeft,  \* the pipeline (0 = empty)
          ended     \* wavefront -> how many times a task of it was ended
vars == <<lds, shadow, regs, want, pc, busy, toRead, toExec, toWrite, cycleLeft, ended>>

Init0(g) == [b \in 1..LSize |-> 0]   \* wrapWG allocates a zeroed LDS for every work-group
Cur(w) == Menu[w][pc[w] + 1]
Window(L, g) == [b \in 1..LSize |-> L[Base(g) + b]]

Init ==
  /\ lds = [b \in 1..(NGroups * LSize) |-> Init0(((b - 1) \div LSize) + 1)[((b - 1) % LSize) + 1]]
  /\ shadow = [g \in 1..NGroups |-> Init0(g)]
  /\ regs = [w \in Wfs |-> [l \in Lanes |-> <<>>]] /\ want = regs
  /\ pc = [w \in Wfs |-> 0] /\ busy = {} /\ toRead = 0 /\ toExec = 0 /\ toWrite = 0 /\ cycleLeft = 0
  /\ ended = [w \in Wfs |-> 0]

Accept(w) ==   \* the scheduler issues the wavefront's next LDS instruction to the unit
  /\ w \notin busy /\ pc[w] < Len(Menu[w]) /\ toRead = 0
  /\ toRead' = w /\ busy' = busy \cup {w}
  /\ regs' = [regs EXCEPT ![w] = Cur(w).before] /\ want' = [want EXCEPT ![w] = Cur(w).before]
  /\ UNCHANGED <<lds, shadow, pc, toExec, toWrite, cycleLeft, ended>>

ReadStage ==
  /\ toRead # 0 /\ toExec = 0 /\ toExec' = toRead /\ toRead' = 0
  /\ UNCHANGED <<lds, shadow, regs, want, pc, busy, toWrite, cycleLeft, ended>>

ExecStart ==   \* alu.SetLDS(wg.LDS); alu.Run(wavefront)
  /\ toExec # 0 /\ toWrite = 0 /\ cycleLeft = 0
  /\ LET w == toExec
         g == WfGroup[w]
         I == Cur(w)
         win == Window(lds, g)
         new == ApplyDS(I, win)
     IN /\ lds' = [b \in 1..Len(lds) |-> IF b > Base(g) /\ b <= Base(g) + LSize THEN new[b - Base(g)] ELSE lds[b]]
        /\ regs' = [regs EXCEPT ![w] = [l \in Lanes |-> ExpDsDst(I, l, win)]]
        /\ want' = [want EXCEPT ![w] = [l \in Lanes |-> ExpDsDst(I, l, shadow[g])]]
        /\ shadow' = [shadow EXCEPT ![g] = ApplyDS(I, shadow[g])]
  /\ cycleLeft' = ExecCycles
  /\ UNCHANGED <<pc, busy, toRead, toExec, toWrite, ended>>

ExecWait ==
  /\ toExec # 0 /\ toWrite = 0 /\ cycleLeft > 0
  /\ cycleLeft' = cycleLeft - 1
  /\ IF cycleLeft = 1 THEN toWrite' = toExec /\ toExec' = 0 ELSE UNCHANGED <<toWrite, toExec>>
  /\ UNCHANGED <<lds, shadow, regs, want, pc, busy, toRead, ended>>

WriteStage ==
  /\ toWrite # 0
  /\ pc' = [pc EXCEPT ![toWrite] = @ + 1] /\ ended' = [ended EXCEPT ![toWrite] = @ + 1]
  /\ busy' = busy \ {toWrite} /\ toWrite' = 0
  /\ UNCHANGED <<lds, shadow, regs, want, toRead, toExec, cycleLeft>>

Next == (\E w \in Wfs : Accept(w)) \/ ReadStage \/ ExecStart \/ ExecWait \/ WriteStage
Spec == Init /\ [][Next]_vars
FairSpec == Spec /\ WF_vars(\E w \in Wfs : Accept(w)) /\ WF_vars(ReadStage) /\ WF_vars(ExecStart) /\ WF_vars(ExecWait) /\ WF_vars(WriteStage)

\* every work-group's window holds exactly what the ISA says: effects only on the addressed bytes of the
\* owning group, nothing from a co-resident group, nothing from inactive lanes
WindowsCorrect == \A g \in 1..NGroups : Window(lds, g) = shadow[g]
\* reads return the owning group's bytes; inactive lanes keep their registers
ReadsCorrect == regs = want
CompletesOnce == \A w \in Wfs : ended[w] = pc[w] /\ pc[w] <= Len(Menu[w])
OneInUnit == Cardinality({x \in {toRead, toExec, toWrite} : x # 0}) <= 3 /\ (toExec = 0 => cycleLeft = 0)
AllDone == \A w \in Wfs : pc[w] = Len(Menu[w])
Finishes == <>[]AllDone
=============================================================================
