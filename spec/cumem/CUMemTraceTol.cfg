SPECIFICATION TSpec
CONSTANTS
  NLanes = 64
  LineSize = 64
  Tolerant = TRUE
INVARIANTS Report
CONSTRAINT Mark
POSTCONDITION Accepted
CHECK_DEADLOCK FALSE
