------------------------------ MODULE ISATrace ------------------------------
(***************************************************************************)
(* Trace specification for single-instruction execution records of the    *)
(* real ALUs.  Every line is self-contained (instruction, pre, post); the  *)
(* step for line l is enabled iff the observed post-state is the one the   *)
(* ISA specification prescribes (Strict), or - in collecting mode - always, *)
(* recording <<l, Diff>> for every rejected line in TLC register 2 so that  *)
(* one TLC run classifies a whole log.                                      *)
(***************************************************************************)
EXTENDS ISACheck, TraceLib, Json

CONSTANTS Strict,      \* TRUE: stop at the first rejected record (HIGHWATER semantics)
          Mode         \* "c03": exact conformance    "c06": lane-wise structure

TraceLog == ndJsonDeserialize("trace.ndjson")
N == Len(TraceLog)

VARIABLE l
ASSUME HWInit
ASSUME TLCSet(2, <<>>)

Ev == TraceLog[l]
D == IF Mode = "c03" THEN Diff(Ev) ELSE LaneDiff(Ev, IF l > 1 THEN TraceLog[l - 1] ELSE Ev)

TInit == l = 1
TNext == /\ l <= N
         /\ LET d == D
            IN /\ (Strict => d = {})
               /\ (d # {} => TLCSet(2, Append(TLCGet(2), <<l, d>>)))
         /\ l' = l + 1
TSpec == TInit /\ [][TNext]_l

Mark == HWNote(l)
Accepted == /\ PrintT(<<"DIFFS", TLCGet(2)>>)
            /\ HWReport(N)
=============================================================================
