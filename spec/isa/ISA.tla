-------------------------------- MODULE ISA --------------------------------
(***************************************************************************)
(* Executable transcription of the GCN3 / CDNA3 instruction semantics for  *)
(* the subset the simulator's ALUs implement.  An execution record `rec`   *)
(* (one line of the driver's log) carries the instruction (arch, format f, *)
(* opcode op, immediate fields), the architectural pre-state projected to  *)
(* what the instruction can read (flags, operand contents, LDS / memory    *)
(* window) and the observed post-state.  Expect*(rec) computes what the    *)
(* manuals prescribe; Diff(rec) names the outputs that differ.             *)
(*                                                                         *)
(* Words are little-endian sequences of 16-bit limbs (Limbs.tla).          *)
(* Vector instructions are defined lane by lane:                           *)
(*   post.d[k] = IF EXEC[k] THEN f(s0[k], s1[k], s2[k], uniform) ELSE pre.d[k]*)
(* so lane independence and EXEC masking (C06) hold of the specification   *)
(* by construction.                                                        *)
(***************************************************************************)
EXTENDS ISAFloat, ISATable, TLC

Has(r, f) == f \in DOMAIN r
Lanes == 1..64
Z32 == <<0, 0>>
Z64 == <<0, 0, 0, 0>>
Lo32(w) == SubSeq(w, 1, 2)
Hi32(w) == SubSeq(w, 3, 4)
NZ(w) == IF IsZero(w) THEN 0 ELSE 1
B2N(b) == IF b THEN 1 ELSE 0
U32(x) == FromInt(x, 2)           \* small constant as a 32-bit word

\* ------------------------------------------------------------ operands
InlineInt(c) == IF c <= 192 THEN c - 128 ELSE -(c - 192)
F32Const(c) == CASE c = 240 -> <<0, 16128>>   [] c = 241 -> <<0, 48896>>     \* 0.5  -0.5
                 [] c = 242 -> <<0, 16256>>   [] c = 243 -> <<0, 49024>>     \* 1.0  -1.0
                 [] c = 244 -> <<0, 16384>>   [] c = 245 -> <<0, 49152>>     \* 2.0  -2.0
                 [] c = 246 -> <<0, 16512>>   [] c = 247 -> <<0, 49280>>     \* 4.0  -4.0
                 [] c = 248 -> <<63875, 15906>>                              \* 1/(2*pi) = 0x3e22f983
F64Const(c) == CASE c = 240 -> <<0, 0, 0, 16352>> [] c = 241 -> <<0, 0, 0, 49120>>
                 [] c = 242 -> <<0, 0, 0, 16368>> [] c = 243 -> <<0, 0, 0, 49136>>
                 [] c = 244 -> <<0, 0, 0, 16384>> [] c = 245 -> <<0, 0, 0, 49152>>
                 [] c = 246 -> <<0, 0, 0, 16400>> [] c = 247 -> <<0, 0, 0, 49168>>
                 [] c = 248 -> <<51330, 28105, 24368, 16324>>                \* 0x3fc45f306dc9c882

\* 32-bit value of a scalar-addressable source (SGPR, VCC, EXEC, M0, inline constant, literal)
S32(o, st) ==
  CASE o.c <= 101 -> SubSeq(o.r, 1, 2)
    [] o.c = 106 -> Lo32(st.vcc)
    [] o.c = 107 -> Hi32(st.vcc)
    [] o.c = 124 -> st.m0
    [] o.c = 126 -> Lo32(st.exec)
    [] o.c = 127 -> Hi32(st.exec)
    [] o.c \in 128..208 -> FromInt(InlineInt(o.c), 2)
    [] o.c \in 240..248 -> F32Const(o.c)
    [] o.c = 255 -> o.lit
\* 64-bit value (register pair; inline integers are sign-extended; inline floats are doubles)
S64(o, st) ==
  CASE o.c <= 101 -> SubSeq(o.r, 1, 4)
    [] o.c = 106 -> st.vcc
    [] o.c = 126 -> st.exec
    [] o.c \in 128..208 -> FromInt(InlineInt(o.c), 4)
    [] o.c \in 240..248 -> F64Const(o.c)
\* per-lane source
V32(o, st, k) == IF o.c >= 256 THEN SubSeq(o.r[k], 1, 2) ELSE S32(o, st)
V64(o, st, k) == IF o.c >= 256 THEN SubSeq(o.r[k], 1, 4) ELSE S64(o, st)

ExecBit(st, k) == Bit(st.exec, k - 1)
VccBit(st, k)  == Bit(st.vcc, k - 1)

\* 64-bit lane mask from a function Lanes -> {0,1}
RECURSIVE MaskLimb(_, _, _)
MaskLimb(f, i, j) == IF j = 16 THEN 0 ELSE f[16 * (i - 1) + j + 1] * Pow2(j) + MaskLimb(f, i, j + 1)
MaskOf(f) == [i \in 1..4 |-> MaskLimb(f, i, 0)]

\* ============================================================== scalar ALU
\* result: d = value written to SDST (<<>> = SDST not written), scc, exec, pc (absent = unchanged)
SR(d, scc)  == [d |-> d, scc |-> scc]
SRL(d)      == [d |-> d, scc |-> NZ(d)]          \* logical ops: SCC = (result # 0)

SOP2Sem(nm, rec) ==
  LET st == rec.pre
      a  == S32(rec.s0, st)
      b  == S32(rec.s1, st)
      A  == S64(rec.s0, st)
      BB == S64(rec.s1, st)
      sh5 == b[1] % 32
      sh6 == b[1] % 64
  IN CASE nm = "s_add_u32"  -> LET r == Add(a, b, 0) IN SR(r.v, r.c)
       [] nm = "s_sub_u32"  -> LET r == Sub(a, b, 0) IN SR(r.v, r.c)
       [] nm = "s_add_i32"  -> LET r == Add(a, b, 0) IN SR(r.v, B2N(AddOvf(a, b, r.v)))
       [] nm = "s_sub_i32"  -> LET r == Sub(a, b, 0) IN SR(r.v, B2N(SubOvf(a, b, r.v)))
       [] nm = "s_addc_u32" -> LET r == Add(a, b, st.scc) IN SR(r.v, r.c)
       [] nm = "s_subb_u32" -> LET r == Sub(a, b, st.scc) IN SR(r.v, r.c)
       [] nm = "s_min_i32"  -> SR(SMin(a, b), B2N(Slt(a, b)))
       [] nm = "s_min_u32"  -> SR(UMin(a, b), B2N(Ult(a, b)))
       [] nm = "s_max_i32"  -> SR(SMax(a, b), B2N(Slt(b, a)))
       [] nm = "s_max_u32"  -> SR(UMax(a, b), B2N(Ult(b, a)))
       [] nm = "s_cselect_b32" -> SR(IF st.scc = 1 THEN a ELSE b, st.scc)
       [] nm = "s_cselect_b64" -> SR(IF st.scc = 1 THEN A ELSE BB, st.scc)
       [] nm = "s_and_b32"   -> SRL(WAnd(a, b))
       [] nm = "s_and_b64"   -> SRL(WAnd(A, BB))
       [] nm = "s_or_b32"    -> SRL(WOr(a, b))
       [] nm = "s_or_b64"    -> SRL(WOr(A, BB))
       [] nm = "s_xor_b32"   -> SRL(WXor(a, b))
       [] nm = "s_xor_b64"   -> SRL(WXor(A, BB))
       [] nm = "s_andn2_b32" -> SRL(WAndN2(a, b))
       [] nm = "s_andn2_b64" -> SRL(WAndN2(A, BB))
       [] nm = "s_orn2_b32"  -> SRL(WOrN2(a, b))
       [] nm = "s_orn2_b64"  -> SRL(WOrN2(A, BB))
       [] nm = "s_lshl_b32"  -> SRL(Shl(a, sh5))
       [] nm = "s_lshl_b64"  -> SRL(Shl(A, sh6))
       [] nm = "s_lshr_b32"  -> SRL(Shr(a, sh5))
       [] nm = "s_lshr_b64"  -> SRL(Shr(A, sh6))
       [] nm = "s_ashr_i32"  -> SRL(Sar(a, sh5))
       [] nm = "s_ashr_i64"  -> SRL(Sar(A, sh6))
       [] nm = "s_bfm_b32"   -> SR(Shl(MaskLow(a[1] % 32, 2), sh5), st.scc)
       [] nm = "s_mul_i32"   -> SR(MulLo(a, b), st.scc)
       [] nm = "s_mul_hi_u32" -> SR(MulHiU(a, b), st.scc)
       [] nm = "s_bfe_u32"   -> SRL(BfeU(a, b[1] % 32, b[2] % 128))
       [] nm = "s_bfe_i32"   -> SRL(BfeS(a, b[1] % 32, b[2] % 128))

SaveExec(nm, s, e) ==
  CASE nm = "s_and_saveexec_b64"   -> WAnd(s, e)
    [] nm = "s_or_saveexec_b64"    -> WOr(s, e)
    [] nm = "s_xor_saveexec_b64"   -> WXor(s, e)
    [] nm = "s_andn2_saveexec_b64" -> WAndN2(s, e)
    [] nm = "s_orn2_saveexec_b64"  -> WOrN2(s, e)
    [] nm = "s_nand_saveexec_b64"  -> Inv(WAnd(s, e))
    [] nm = "s_nor_saveexec_b64"   -> Inv(WOr(s, e))
    [] nm = "s_xnor_saveexec_b64"  -> Inv(WXor(s, e))

\* address of the instruction that follows (what S_GETPC_B64 returns): the emulator calls the ALU
\* with PC already advanced (pcc = "next"), the timing model with PC still at the instruction.
NextPC(rec) == IF rec.pcc = "next" THEN rec.pre.pc ELSE Plus(rec.pre.pc, FromInt(4, 4))

SOP1Sem(nm, rec) ==
  LET st == rec.pre
      a  == S32(rec.s0, st)
      A  == S64(rec.s0, st)
  IN CASE nm = "s_mov_b32"  -> SR(a, st.scc)
       [] nm = "s_mov_b64"  -> SR(A, st.scc)
       [] nm = "s_not_b32"  -> SRL(Inv(a))
       [] nm = "s_brev_b32" -> SR(Brev(a), st.scc)
       [] nm = "s_abs_i32"  -> SRL(Abs(a))
       [] nm = "s_getpc_b64" -> SR(NextPC(rec), st.scc)
       [] OTHER -> LET e == SaveExec(nm, A, st.exec)
                   IN [d |-> st.exec, scc |-> NZ(e), exec |-> e]

SOPCSem(nm, rec) ==
  LET st == rec.pre
      a  == S32(rec.s0, st)
      b  == S32(rec.s1, st)
      c  == CASE nm = "s_cmp_eq_i32" -> a = b        [] nm = "s_cmp_lg_i32" -> a # b
              [] nm = "s_cmp_gt_i32" -> Slt(b, a)    [] nm = "s_cmp_ge_i32" -> Sle(b, a)
              [] nm = "s_cmp_lt_i32" -> Slt(a, b)    [] nm = "s_cmp_le_i32" -> Sle(a, b)
              [] nm = "s_cmp_eq_u32" -> a = b        [] nm = "s_cmp_lg_u32" -> a # b
              [] nm = "s_cmp_gt_u32" -> Ult(b, a)    [] nm = "s_cmp_ge_u32" -> Ule(b, a)
              [] nm = "s_cmp_lt_u32" -> Ult(a, b)    [] nm = "s_cmp_le_u32" -> Ule(a, b)
  IN SR(<<>>, B2N(c))

SImm32(rec) == SExt(<<rec.imm>>, 2)           \* sign-extended SIMM16

SOPKSem(nm, rec) ==
  LET st == rec.pre
      k  == SImm32(rec)
      d  == SubSeq(rec.d.pre, 1, 2)
  IN CASE nm = "s_movk_i32"  -> SR(k, st.scc)
       [] nm = "s_cmovk_i32" -> SR(IF st.scc = 1 THEN k ELSE <<>>, st.scc)
       [] nm = "s_cmpk_eq_i32" -> SR(<<>>, B2N(d = k))
       [] nm = "s_cmpk_lg_i32" -> SR(<<>>, B2N(d # k))
       [] nm = "s_mulk_i32"  -> SR(MulLo(d, k), st.scc)

\* branches: PC_out = PC_in + 4*SIMM16 when taken (PC_in as the caller maintains it, see NextPC)
SOPPSem(nm, rec) ==
  LET st == rec.pre
      taken == CASE nm = "s_branch" -> TRUE
                 [] nm = "s_cbranch_scc0"   -> st.scc = 0
                 [] nm = "s_cbranch_scc1"   -> st.scc = 1
                 [] nm = "s_cbranch_vccz"   -> IsZero(st.vcc)
                 [] nm = "s_cbranch_vccnz"  -> ~IsZero(st.vcc)
                 [] nm = "s_cbranch_execz"  -> IsZero(st.exec)
                 [] nm = "s_cbranch_execnz" -> ~IsZero(st.exec)
                 [] OTHER -> FALSE                     \* s_nop, s_waitcnt
      off == Shl(SExt(<<rec.imm>>, 4), 2)
  IN [d |-> <<>>, scc |-> st.scc, pc |-> IF taken THEN Plus(st.pc, off) ELSE st.pc]

\* ------------------------------------------------------------ memory window
\* rec.mem = [base (64-bit word), pre (bytes), post (bytes), acc]; an address is turned into an
\* index by subtracting the base (the generator keeps every prescribed access inside the window).
MemIdx(rec, addr) == LET dlt == Minus(addr, rec.mem.base) IN dlt[1] + 1          \* 1-based, window < 64 KiB
InWindow(rec, addr, n) == LET dlt == Minus(addr, rec.mem.base)
                          IN dlt[2] = 0 /\ dlt[3] = 0 /\ dlt[4] = 0 /\ dlt[1] + n <= Len(rec.mem.pre)
\* n bytes (n even or 1) starting at 1-based index i of byte sequence m, as limbs
BytesToLimbs(m, i, n) == [j \in 1..(n \div 2) |-> m[i + 2 * (j - 1)] + 256 * m[i + 2 * (j - 1) + 1]]
LimbsToBytes(w) == [j \in 1..(2 * Len(w)) |-> IF j % 2 = 1 THEN w[(j + 1) \div 2] % 256 ELSE w[j \div 2] \div 256]

SMEMSem(nm, rec) ==
  LET st == rec.pre
      n  == rec.d.n                                     \* dwords
      base == SubSeq(rec.base.r, 1, 4)
      off  == IF rec.useimm = 1 THEN FromNat(rec.imm, 4) ELSE ZExt(S32(rec.soff, st), 4)
      addr == Plus(base, off)
  IN [d |-> BytesToLimbs(rec.mem.pre, MemIdx(rec, addr), 4 * n), scc |-> st.scc, ok |-> InWindow(rec, addr, 4 * n)]

\* ============================================================== vector ALU
\* lane result: d (dst value), cc (carry / compare bit, 0 when unused), alt (second acceptable dst)
VR(d)      == [d |-> d, cc |-> 0]
VRC(d, cc) == [d |-> d, cc |-> cc]
I24(w) == LET hi == w[2] % 256 IN IF hi >= 128 THEN <<w[1], hi + 65280>> ELSE <<w[1], hi>>
U24(w) == <<w[1], w[2] % 256>>

ICmp(cond, a, b, signed) ==
  CASE cond = "f"  -> FALSE
    [] cond = "lt" -> IF signed THEN Slt(a, b) ELSE Ult(a, b)
    [] cond = "eq" -> a = b
    [] cond = "le" -> IF signed THEN Sle(a, b) ELSE Ule(a, b)
    [] cond = "gt" -> IF signed THEN Slt(b, a) ELSE Ult(b, a)
    [] cond = "ne" -> a # b
    [] cond = "ge" -> IF signed THEN Sle(b, a) ELSE Ule(b, a)
    [] cond = "t"  -> TRUE

Med3(a, b, c, lt(_, _)) ==      \* median of three under the strict order lt
  IF lt(a, b) THEN (IF lt(b, c) THEN b ELSE IF lt(a, c) THEN c ELSE a)
  ELSE (IF lt(a, c) THEN a ELSE IF lt(b, c) THEN c ELSE b)

\* source modifiers of VOP3 float operands
FMod32(w, i, rec) == LET x == IF Bit(<<rec.abs>>, i) = 1 THEN F32Abs(w) ELSE w
                     IN IF Bit(<<rec.neg>>, i) = 1 THEN F32Neg(x) ELSE x

\* nm: mnemonic; k: lane.  Integer, logic, shift, bit-field, select, move, compare instructions.
VIntSem(nm, rec, k) ==
  LET st == rec.pre
      a  == V32(rec.s0, st, k)
      b  == V32(rec.s1, st, k)
      c  == V32(rec.s2, st, k)
      A  == V64(rec.s0, st, k)
      BB == V64(rec.s1, st, k)
      CC == V64(rec.s2, st, k)
      vb == VccBit(st, k)
      \* carry-in of the VOP3b forms comes from the lane's bit of the SRC2 mask, of VOP2 from VCC
      cin == IF rec.f = "VOP3b" THEN Bit(S64(rec.s2, st), k - 1) ELSE vb
      sel == IF rec.f = "VOP2" THEN vb ELSE Bit(S64(rec.s2, st), k - 1)
  IN CASE nm = "v_mov_b32"     -> VR(a)
       [] nm = "v_mov_b64"     -> VR(A)
       [] nm = "v_not_b32"     -> VR(Inv(a))
       [] nm = "v_bfrev_b32"   -> VR(Brev(a))
       [] nm = "v_ffbh_u32"    -> VR(FromInt(FindHigh1(a), 2))
       [] nm = "v_cndmask_b32" -> VR(IF sel = 1 THEN b ELSE a)
       [] nm = "v_mul_i32_i24" -> VR(MulLo(I24(a), I24(b)))
       [] nm = "v_mul_u32_u24" -> VR(MulLo(U24(a), U24(b)))
       [] nm = "v_min_i32"     -> VR(SMin(a, b))
       [] nm = "v_max_i32"     -> VR(SMax(a, b))
       [] nm = "v_min_u32"     -> VR(UMin(a, b))
       [] nm = "v_max_u32"     -> VR(UMax(a, b))
       [] nm = "v_lshrrev_b32" -> VR(Shr(b, a[1] % 32))
       [] nm = "v_ashrrev_i32" -> VR(Sar(b, a[1] % 32))
       [] nm = "v_lshlrev_b32" -> VR(Shl(b, a[1] % 32))
       [] nm = "v_and_b32"     -> VR(WAnd(a, b))
       [] nm = "v_or_b32"      -> VR(WOr(a, b))
       [] nm = "v_xor_b32"     -> VR(WXor(a, b))
       [] nm = "v_add_co_u32"    -> LET r == Add(a, b, 0) IN VRC(r.v, r.c)
       [] nm = "v_sub_co_u32"    -> LET r == Sub(a, b, 0) IN VRC(r.v, r.c)
       [] nm = "v_subrev_co_u32" -> LET r == Sub(b, a, 0) IN VRC(r.v, r.c)
       [] nm = "v_addc_co_u32"    -> LET r == Add(a, b, cin) IN VRC(r.v, r.c)
       [] nm = "v_subb_co_u32"    -> LET r == Sub(a, b, cin) IN VRC(r.v, r.c)
       [] nm = "v_subbrev_co_u32" -> LET r == Sub(b, a, cin) IN VRC(r.v, r.c)
       [] nm = "v_add_u32"     -> VR(Plus(a, b))
       [] nm = "v_sub_u32"     -> VR(Minus(a, b))
       [] nm = "v_subrev_u32"  -> VR(Minus(b, a))
       [] nm = "v_add_u16"     -> VR(<<(a[1] + b[1]) % 65536, 0>>)
       [] nm = "v_lshlrev_b16" -> VR(<<(b[1] * Pow2(a[1] % 16)) % 65536, 0>>)
       [] nm = "v_mad_i32_i24" -> VR(Plus(MulLo(I24(a), I24(b)), c))
       [] nm = "v_mad_u32_u24" -> VR(Plus(MulLo(U24(a), U24(b)), c))
       [] nm = "v_bfe_u32"     -> VR(BfeU(a, b[1] % 32, c[1] % 32))
       [] nm = "v_bfe_i32"     -> VR(BfeS(a, b[1] % 32, c[1] % 32))
       [] nm = "v_min3_i32"    -> VR(SMin(SMin(a, b), c))
       [] nm = "v_max3_i32"    -> VR(SMax(SMax(a, b), c))
       [] nm = "v_med3_i32"    -> VR(Med3(a, b, c, Slt))
       [] nm = "v_min3_u32"    -> VR(UMin(UMin(a, b), c))
       [] nm = "v_max3_u32"    -> VR(UMax(UMax(a, b), c))
       [] nm = "v_med3_u32"    -> VR(Med3(a, b, c, Ult))
       [] nm = "v_mad_u64_u32" -> LET r == Add(Mul(a, b), CC, 0) IN VRC(r.v, r.c)
       [] nm = "v_lshl_add_u32" -> VR(Plus(Shl(a, b[1] % 32), c))
       [] nm = "v_add_lshl_u32" -> VR(Shl(Plus(a, b), c[1] % 32))
       [] nm = "v_add3_u32"    -> VR(Plus(Plus(a, b), c))
       [] nm = "v_lshl_or_b32" -> VR(WOr(Shl(a, b[1] % 32), c))
       [] nm = "v_lshl_add_u64" -> VR(Plus(Shl(A, b[1] % 8), CC))
       [] nm = "v_mul_lo_u32"  -> VR(MulLo(a, b))
       [] nm = "v_mul_hi_u32"  -> VR(MulHiU(a, b))
       [] nm = "v_lshlrev_b64" -> VR(Shl(BB, a[1] % 64))
       [] nm = "v_lshrrev_b64" -> VR(Shr(BB, a[1] % 64))
       [] nm = "v_ashrrev_i64" -> VR(Sar(BB, a[1] % 64))

\* ------------------------------------------------------------ sub-dword addressing (VOP_SDWA)
\* source select (zero-extended; SEXT/NEG/ABS are not generated), destination select and DST_UNUSED
SdwaSel(w, sel) ==
  CASE sel = 0 -> <<w[1] % 256, 0>>   [] sel = 1 -> <<w[1] \div 256, 0>>
    [] sel = 2 -> <<w[2] % 256, 0>>   [] sel = 3 -> <<w[2] \div 256, 0>>
    [] sel = 4 -> <<w[1], 0>>         [] sel = 5 -> <<w[2], 0>>
    [] OTHER -> w
SdwaPlace(r, sel, un, old) ==
  IF sel >= 6 THEN r
  ELSE LET width == IF sel <= 3 THEN 8 ELSE 16
           pos   == CASE sel = 0 -> 0 [] sel = 1 -> 8 [] sel = 2 -> 16 [] sel = 3 -> 24 [] sel = 4 -> 0 [] sel = 5 -> 16
           field == WAnd(r, MaskLow(width, 2))
           placed == Shl(field, pos)
           fmask == Shl(MaskLow(width, 2), pos)
           upper == Inv(MaskLow(pos + width, 2))          \* the bits above the field
       IN CASE un = 0 -> placed                                           \* SDWA_UNUSED_PAD
            [] un = 1 -> IF Bit(field, width - 1) = 1 THEN WOr(placed, upper) ELSE placed    \* SDWA_UNUSED_SEXT
            [] un = 2 -> WOr(WAnd(old, Inv(fmask)), placed)               \* SDWA_UNUSED_PRESERVE

VSdwaSem(nm, rec, k) ==
  LET st == rec.pre
      a == SdwaSel(V32(rec.s0, st, k), rec.s0sel)
      b == SdwaSel(V32(rec.s1, st, k), rec.s1sel)
      r == CASE nm = "v_and_b32" -> VR(WAnd(a, b))
             [] nm = "v_or_b32"  -> VR(WOr(a, b))
             [] nm = "v_xor_b32" -> VR(WXor(a, b))
             [] nm = "v_add_co_u32" -> LET x == Add(a, b, 0) IN VRC(x.v, x.c)
  IN [d |-> SdwaPlace(r.d, rec.dsel, rec.dun, SubSeq(rec.d.pre[k], 1, 2)), cc |-> r.cc]

\* mnemonic -> [cond, ty] for the V_CMP family
CmpParts(nm) ==
  CASE nm = "v_cmp_lt_f32" -> <<"lt", "f32">>  [] nm = "v_cmp_eq_f32" -> <<"eq", "f32">>
    [] nm = "v_cmp_le_f32" -> <<"le", "f32">>  [] nm = "v_cmp_gt_f32" -> <<"gt", "f32">>
    [] nm = "v_cmp_lg_f32" -> <<"lg", "f32">>  [] nm = "v_cmp_ge_f32" -> <<"ge", "f32">>
    [] nm = "v_cmp_o_f32"  -> <<"o", "f32">>   [] nm = "v_cmp_u_f32"  -> <<"u", "f32">>
    [] nm = "v_cmp_nge_f32" -> <<"nge", "f32">> [] nm = "v_cmp_nlg_f32" -> <<"nlg", "f32">>
    [] nm = "v_cmp_ngt_f32" -> <<"ngt", "f32">> [] nm = "v_cmp_nle_f32" -> <<"nle", "f32">>
    [] nm = "v_cmp_neq_f32" -> <<"neq", "f32">> [] nm = "v_cmp_nlt_f32" -> <<"nlt", "f32">>
    [] nm = "v_cmp_lt_i32" -> <<"lt", "i32">>  [] nm = "v_cmp_eq_i32" -> <<"eq", "i32">>
    [] nm = "v_cmp_le_i32" -> <<"le", "i32">>  [] nm = "v_cmp_gt_i32" -> <<"gt", "i32">>
    [] nm = "v_cmp_ne_i32" -> <<"ne", "i32">>  [] nm = "v_cmp_ge_i32" -> <<"ge", "i32">>
    [] nm = "v_cmp_lt_u32" -> <<"lt", "u32">>  [] nm = "v_cmp_eq_u32" -> <<"eq", "u32">>
    [] nm = "v_cmp_le_u32" -> <<"le", "u32">>  [] nm = "v_cmp_gt_u32" -> <<"gt", "u32">>
    [] nm = "v_cmp_ne_u32" -> <<"ne", "u32">>  [] nm = "v_cmp_ge_u32" -> <<"ge", "u32">>
    [] nm = "v_cmp_f_u64"  -> <<"f", "u64">>   [] nm = "v_cmp_lt_u64" -> <<"lt", "u64">>
    [] nm = "v_cmp_eq_u64" -> <<"eq", "u64">>  [] nm = "v_cmp_le_u64" -> <<"le", "u64">>
    [] nm = "v_cmp_gt_u64" -> <<"gt", "u64">>  [] nm = "v_cmp_ne_u64" -> <<"ne", "u64">>
    [] nm = "v_cmp_ge_u64" -> <<"ge", "u64">>  [] nm = "v_cmp_t_u64"  -> <<"t", "u64">>
    [] OTHER -> <<"", "">>

VCmpSem(nm, rec, k) ==
  LET st == rec.pre
      p  == CmpParts(nm)
      fa == IF rec.f = "VOP3a" THEN FMod32(V32(rec.s0, st, k), 0, rec) ELSE V32(rec.s0, st, k)
      fb == IF rec.f = "VOP3a" THEN FMod32(V32(rec.s1, st, k), 1, rec) ELSE V32(rec.s1, st, k)
  IN CASE p[2] = "f32" -> B2N(F32Cmp(p[1], fa, fb))
       [] p[2] = "i32" -> B2N(ICmp(p[1], V32(rec.s0, st, k), V32(rec.s1, st, k), TRUE))
       [] p[2] = "u32" -> B2N(ICmp(p[1], V32(rec.s0, st, k), V32(rec.s1, st, k), FALSE))
       [] p[2] = "u64" -> B2N(ICmp(p[1], V64(rec.s0, st, k), V64(rec.s1, st, k), FALSE))
       [] nm = "v_cmp_class_f32" -> Bit(V32(rec.s1, st, k), F32ClassBit(fa))
       [] nm = "v_cmp_gt_i16" -> B2N(Slt(<<V32(rec.s1, st, k)[1]>>, <<V32(rec.s0, st, k)[1]>>))

IsCmp(nm) == CmpParts(nm)[1] # "" \/ nm \in {"v_cmp_class_f32", "v_cmp_gt_i16"}

\* float min / max / med3 (quiet inputs)
VFSelSem(nm, rec, k) ==
  LET st == rec.pre
      m(i, w) == IF rec.f = "VOP3a" THEN FMod32(w, i, rec) ELSE w
      a  == m(0, V32(rec.s0, st, k))
      b  == m(1, V32(rec.s1, st, k))
      c  == m(2, V32(rec.s2, st, k))
      FLt(x, y) == F32Lt(x, y)
  IN CASE nm = "v_min_f32"  -> [d |-> F32Min(a, b), cc |-> 0, alt |-> F32MinAlt(a, b)]
       [] nm = "v_max_f32"  -> [d |-> F32Max(a, b), cc |-> 0, alt |-> F32MaxAlt(a, b)]
       [] nm = "v_min3_f32" -> [d |-> F32Min(F32Min(a, b), c), cc |-> 0, zero |-> TRUE]
       [] nm = "v_max3_f32" -> [d |-> F32Max(F32Max(a, b), c), cc |-> 0, zero |-> TRUE]
       [] nm = "v_med3_f32" ->
            \* manual: if any input is NaN the result is MIN3, else the median
            [d |-> IF F32IsNaN(a) \/ F32IsNaN(b) \/ F32IsNaN(c) THEN F32Min(F32Min(a, b), c)
                   ELSE Med3(a, b, c, FLt), cc |-> 0, zero |-> TRUE]

IsFSel(nm) == nm \in {"v_min_f32", "v_max_f32", "v_min3_f32", "v_max3_f32", "v_med3_f32"}

\* ------------------------------------------------------------ float arithmetic / conversions
FMod64(w, i, rec) == LET x == IF Bit(<<rec.abs>>, i) = 1 THEN FAbsW(Fmt64, w) ELSE w
                     IN IF Bit(<<rec.neg>>, i) = 1 THEN FNegW(Fmt64, x) ELSE x
\* binary32 denormals are flushed or kept depending on MODE.FP_DENORM, which the simulator does not
\* model: lanes whose inputs or exact result are binary32 denormals are not constrained (skip).
FR32(r, ins) == [d |-> r.w, cc |-> 0, nan |-> r.nan,
                 skip |-> (\E x \in ins : F32IsDen(x)) \/ (~r.nan /\ F32IsDen(r.w))]
FR64(r) == [d |-> r.w, cc |-> 0, nan64 |-> r.nan]
FRInt(w) == [d |-> w, cc |-> 0]

F32Names == {"v_add_f32", "v_sub_f32", "v_subrev_f32", "v_mul_f32", "v_mul_legacy_f32", "v_mac_f32", "v_madak_f32",
  "v_madmk_f32", "v_mad_f32", "v_fma_f32", "v_fmac_f32", "v_fmamk_f32", "v_fmaak_f32"}
F64Names == {"v_add_f64", "v_mul_f64", "v_fma_f64"}
CvtNames == {"v_cvt_f32_i32", "v_cvt_f32_u32", "v_cvt_f64_i32", "v_cvt_f64_u32", "v_cvt_f32_ubyte0", "v_cvt_u32_f32",
  "v_cvt_i32_f32", "v_cvt_f32_f64", "v_cvt_f64_f32", "v_cvt_f16_f32", "v_trunc_f32", "v_rndne_f32"}

VFloatSem(nm, rec, k) ==
  LET st == rec.pre
      v3 == rec.f = "VOP3a"
      m(i, w) == IF v3 THEN FMod32(w, i, rec) ELSE w
      M(i, w) == IF v3 THEN FMod64(w, i, rec) ELSE w
      a  == m(0, V32(rec.s0, st, k))
      b  == m(1, V32(rec.s1, st, k))
      c  == m(2, V32(rec.s2, st, k))
      dold == SubSeq(rec.d.pre[k], 1, 2)
      A  == M(0, V64(rec.s0, st, k))
      BB == M(1, V64(rec.s1, st, k))
      CC == M(2, V64(rec.s2, st, k))
      F  == Fmt32
  IN CASE nm = "v_add_f32"    -> FR32(FAdd(F, a, b), {a, b})
       [] nm = "v_sub_f32"    -> FR32(FSub(F, a, b), {a, b})
       [] nm = "v_subrev_f32" -> FR32(FSub(F, b, a), {a, b})
       [] nm = "v_mul_f32"    -> FR32(FMul(F, a, b), {a, b})
       [] nm = "v_mul_legacy_f32" ->
            IF (F32IsZero(a) \/ F32IsZero(b)) THEN [d |-> Z32, cc |-> 0, zero |-> TRUE, skip |-> F32IsDen(a) \/ F32IsDen(b)]
            ELSE FR32(FMul(F, a, b), {a, b})
       [] nm = "v_mac_f32"    -> LET p == FMul(F, a, b) IN FR32(FMad(F, a, b, dold), {a, b, dold} \cup (IF p.nan THEN {} ELSE {p.w}))
       [] nm = "v_madak_f32"  -> LET p == FMul(F, a, b) IN FR32(FMad(F, a, b, c), {a, b, c} \cup (IF p.nan THEN {} ELSE {p.w}))
       [] nm = "v_madmk_f32"  -> LET p == FMul(F, a, c) IN FR32(FMad(F, a, c, b), {a, b, c} \cup (IF p.nan THEN {} ELSE {p.w}))
       [] nm = "v_mad_f32"    -> LET p == FMul(F, a, b) IN FR32(FMad(F, a, b, c), {a, b, c} \cup (IF p.nan THEN {} ELSE {p.w}))
       [] nm = "v_fma_f32"    -> FR32(FFma(F, a, b, c), {a, b, c})
       [] nm = "v_fmac_f32"   -> FR32(FFma(F, a, b, dold), {a, b, dold})
       [] nm = "v_fmamk_f32"  -> FR32(FFma(F, a, c, b), {a, b, c})
       [] nm = "v_fmaak_f32"  -> FR32(FFma(F, a, b, c), {a, b, c})
       [] nm = "v_add_f64"    -> FR64(FAdd(Fmt64, A, BB))
       [] nm = "v_mul_f64"    -> FR64(FMul(Fmt64, A, BB))
       [] nm = "v_fma_f64"    -> FR64(FFma(Fmt64, A, BB, CC))
       [] nm = "v_cvt_f32_i32" -> FRInt(FFromS(F, a))
       [] nm = "v_cvt_f32_u32" -> FRInt(FFromU(F, a))
       [] nm = "v_cvt_f64_i32" -> FRInt(FFromS(Fmt64, a))
       [] nm = "v_cvt_f64_u32" -> FRInt(FFromU(Fmt64, a))
       [] nm = "v_cvt_f32_ubyte0" -> FRInt(FFromU(F, <<a[1] % 256, 0>>))
       [] nm = "v_cvt_u32_f32" -> FRInt(FToU32(F, a))
       [] nm = "v_cvt_i32_f32" ->
            \* negative saturation: the manual says "-max_int"; INT_MIN (hardware) and -INT_MAX are both accepted
            LET r == FToI32(F, a) IN [d |-> r, cc |-> 0, alt |-> IF r = <<0, 32768>> THEN <<1, 32768>> ELSE r]
       [] nm = "v_cvt_f32_f64" -> FR32(FConv(F, Fmt64, A), {})
       [] nm = "v_cvt_f64_f32" -> LET r == FConv(Fmt64, F, a) IN [d |-> r.w, cc |-> 0, nan64 |-> r.nan, skip |-> F32IsDen(a)]
       [] nm = "v_cvt_f16_f32" -> LET r == FConv(Fmt16, F, a)
                                  IN [d |-> IF r.nan THEN Z32 ELSE <<r.w[1], 0>>, cc |-> 0, nan16 |-> r.nan,
                                      \* subnormal half results depend on MODE.FP_DENORM (not modelled)
                                      skip |-> ~r.nan /\ FIsDen(Fmt16, r.w)]
       [] nm = "v_trunc_f32"   -> FR32(FTruncF(F, a), {a})
       [] nm = "v_rndne_f32"   -> FR32(FRndneF(F, a), {a})

IsFloatArith(nm) == nm \in F32Names \cup F64Names \cup CvtNames

\* ------------------------------------------------------------ packed binary32 (CDNA3 VOP3P: v_pk_fma/mul/add_f32)
\* Each 64-bit source holds two binary32 values (low dword, high dword).  OP_SEL[i] says which of them source i
\* contributes to the LOW result, OP_SEL_HI[i] which one to the HIGH result; NEG[i] negates source i of the low
\* result, NEG_HI[i] (bits 10:8, where VOP3a has ABS) source i of the high result.  Bit positions as assembled by
\* LLVM (op_sel_hi[0] = bit 59, [1] = bit 60, [2] = bit 14; the field table of the CDNA3 manual lists them in the
\* opposite order).  An inline constant is a 32-bit constant: its value in the low dword, high dword 0 (an inline
\* float is NOT a double here); negative inline integers are outside the domain generated.
PkNames == {"v_pk_fma_f32", "v_pk_mul_f32", "v_pk_add_f32"}
PkSrc(o, st, k) == IF o.c >= 256 THEN SubSeq(o.r[k], 1, 4)
                   ELSE IF o.c \in 240..248 THEN F32Const(o.c) \o Z32
                   ELSE IF o.c \in 128..192 THEN FromInt(InlineInt(o.c), 2) \o Z32
                   ELSE S64(o, st)
VPkSem(nm, rec, k) ==
  LET st == rec.pre
      F  == Fmt32
      in(i, key, hi) == LET w  == PkSrc(rec[key], st, k)
                            h  == IF Bit(<<IF hi THEN rec.opselhi ELSE rec.opsel>>, i) = 1 THEN Hi32(w) ELSE Lo32(w)
                        IN IF Bit(<<IF hi THEN rec.abs ELSE rec.neg>>, i) = 1 THEN F32Neg(h) ELSE h
      half(hi) == LET a == in(0, "s0", hi)
                      b == in(1, "s1", hi)
                  IN CASE nm = "v_pk_add_f32" -> FR32(FAdd(F, a, b), {a, b})
                       [] nm = "v_pk_mul_f32" -> FR32(FMul(F, a, b), {a, b})
                       [] nm = "v_pk_fma_f32" -> LET c == in(2, "s2", hi) IN FR32(FFma(F, a, b, c), {a, b, c})
      lo == half(FALSE)
      hh == half(TRUE)
  IN [d |-> lo.d \o hh.d, cc |-> 0, pk |-> <<lo, hh>>]

\* ------------------------------------------------------------ VOP3 output modifiers
\* CLAMP = 1 on an instruction with a float result saturates the result to [0.0, 1.0] (-0 and negative values
\* give +0; the sign of a zero result is not constrained).  A NaN result becomes +0 when MODE.DX10_CLAMP is set
\* and stays a NaN otherwise; the simulator does not model MODE, so both are accepted.
\* OMOD # 0 multiplies the result by 2, 4 or 0.5 unless MODE.IEEE / output denormals are on (then it is ignored):
\* the value of an active lane is not constrained, everything else (inactive lanes, frame, flags, no panic) is.
F32One == <<0, 16256>>
F64One == <<0, 0, 0, 16368>>
Clamp32(w) == IF F32Sign(w) = 1 THEN Z32 ELSE IF F32Mag(w) > F32Mag(F32One) THEN F32One ELSE w
Clamp64(w) == IF F64Sign(w) = 1 THEN Z64 ELSE IF Ult(F64One, w) THEN F64One ELSE w
ClampLane(r, is64) ==
  LET isnan == (Has(r, "nan") /\ r.nan) \/ (Has(r, "nan64") /\ r.nan64)
      skip  == Has(r, "skip") /\ r.skip
      cl(w) == IF is64 THEN Clamp64(w) ELSE Clamp32(w)
      zw    == IF is64 THEN Z64 ELSE Z32
  IN IF skip THEN r
     ELSE IF isnan THEN [d |-> zw, cc |-> r.cc, nan |-> ~is64, nan64 |-> is64, zero |-> ~is64, zero64 |-> is64]
     ELSE [d |-> cl(r.d), cc |-> r.cc, zero |-> ~is64, zero64 |-> is64,
           alt |-> IF Has(r, "alt") THEN cl(r.alt) ELSE cl(r.d)]
ModifiedLane(nm, rec, r) ==
  LET is64 == nm \in F64Names
      fl   == nm \in F32Names \cup F64Names \/ IsFSel(nm)
  IN IF ~fl \/ rec.f # "VOP3a" \/ ~Has(rec, "clamp") THEN r
     ELSE IF rec.omod # 0 THEN [d |-> r.d, cc |-> r.cc, skip |-> TRUE]
     ELSE IF rec.clamp = 1 THEN ClampLane(r, is64)
     ELSE r

\* which instructions the specification has an exact reference for (everything else is only
\* constrained lane-wise, see ISATrace)
IntNames == {"v_mov_b32", "v_mov_b64", "v_not_b32", "v_bfrev_b32", "v_ffbh_u32", "v_cndmask_b32", "v_mul_i32_i24",
  "v_mul_u32_u24", "v_min_i32", "v_max_i32", "v_min_u32", "v_max_u32", "v_lshrrev_b32", "v_ashrrev_i32",
  "v_lshlrev_b32", "v_and_b32", "v_or_b32", "v_xor_b32", "v_add_co_u32", "v_sub_co_u32", "v_subrev_co_u32",
  "v_addc_co_u32", "v_subb_co_u32", "v_subbrev_co_u32", "v_add_u32", "v_sub_u32", "v_subrev_u32", "v_add_u16",
  "v_lshlrev_b16", "v_mad_i32_i24", "v_mad_u32_u24", "v_bfe_u32", "v_bfe_i32", "v_min3_i32", "v_max3_i32",
  "v_med3_i32", "v_min3_u32", "v_max3_u32", "v_med3_u32", "v_mad_u64_u32", "v_lshl_add_u32", "v_add_lshl_u32",
  "v_add3_u32", "v_lshl_or_b32", "v_lshl_add_u64", "v_mul_lo_u32", "v_mul_hi_u32", "v_lshlrev_b64",
  "v_lshrrev_b64", "v_ashrrev_i64"}
CarryOutNames == {"v_add_co_u32", "v_sub_co_u32", "v_subrev_co_u32", "v_addc_co_u32", "v_subb_co_u32",
                  "v_subbrev_co_u32", "v_mad_u64_u32"}
=============================================================================
