SPECIFICATION TSpec
CONSTANTS
  LB = 16
  Strict = TRUE
  Mode = "c03"
CONSTRAINT Mark
POSTCONDITION Accepted
CHECK_DEADLOCK FALSE
