SPECIFICATION Spec
CONSTANTS
  LB = 16
  NC = 2
INVARIANTS AddSubInverse CarryChain ShiftMask MinMaxLaws LogicLaws BranchLaws VecLaws LaneWise FloatLaws WellFormed
CHECK_DEADLOCK FALSE
