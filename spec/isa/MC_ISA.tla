------------------------------- MODULE MC_ISA -------------------------------
(***************************************************************************)
(* Design-level check of the ISA specification itself (no simulator code   *)
(* involved): TLC enumerates operand pairs from a corner set x carry-in and *)
(* checks algebraic laws that tie independent parts of the transcription   *)
(* together (add/sub inverse, the 64-bit carry chain, shift-amount masking, *)
(* signed/unsigned agreement, min/max/med3 order laws, VOP2 = VOP3b, float  *)
(* commutativity / exactness laws, conversion round trips), that every      *)
(* table entry with a reference evaluates to well-formed words (no CASE     *)
(* falls through), and that the vector specification is lane-wise.          *)
(***************************************************************************)
EXTENDS ISACheck

CONSTANT NC                      \* size of the corner prefix to enumerate

C32 == << <<0, 0>>, <<1, 0>>, <<65535, 65535>>, <<0, 32768>>, <<65535, 32767>>, <<2, 0>>, <<65534, 65535>>,
          <<31, 0>>, <<32, 0>>, <<33, 0>>, <<63, 0>>, <<64, 0>>, <<65535, 0>>, <<0, 1>>, <<65535, 255>>, <<0, 128>>,
          <<0, 16256>>, <<0, 49024>>, <<0, 32640>>, <<0, 32704>>, <<1, 0>>, <<0, 16320>>, <<1, 20224>>, <<19498, 17506>>,
          <<22136, 4660>>, <<43690, 43690>> >>
VARIABLES a, b, ci
vars == <<a, b, ci>>
Init == a \in 1..NC /\ b = 1 /\ ci = 0
Next == b = 1 /\ ci = 0 /\ b' \in 1..NC /\ ci' \in 0..1 /\ UNCHANGED a
Spec == Init /\ [][Next]_vars

A == C32[a]
BW == C32[b]
A64 == A \o BW
B64 == BW \o A

Flags(scc) == [scc |-> scc, vcc |-> <<43690, 21845, 65535, 0>>, exec |-> <<65535, 255, 0, 32768>>,
               pc |-> <<256, 0, 1, 0>>, m0 |-> <<7, 0>>]
SOp(w) == [c |-> 8, n |-> Len(w) \div 2, r |-> IF Len(w) = 2 THEN w \o <<0, 0>> ELSE w]
\* synthetic scalar record
SRec(arch, f, op, x, y, scc) ==
  [e |-> "X", arch |-> arch, f |-> f, op |-> op, pcc |-> "next", imm |-> x[1], other |-> 0, useimm |-> 1,
   pre |-> Flags(scc), post |-> Flags(scc), s0 |-> SOp(x), s1 |-> [SOp(y) EXCEPT !.c = 10],
   d |-> [c |-> 20, n |-> 2, pre |-> y \o x, post |-> y \o x]]
S2(nm, x, y, scc) == SOP2Sem(nm, SRec("cdna3", "SOP2", 0, x, y, scc))

\* synthetic vector record: lane k carries (x, y, z) rotated by k over the corner set
Rot(i, k) == C32[((i + k - 2) % Len(C32)) + 1]
VOp(c, f(_)) == [c |-> c, n |-> 1, r |-> [k \in Lanes |-> f(k)]]
VRec(arch, f, op, ia, ib, exec, vcc) ==
  [e |-> "X", arch |-> arch, f |-> f, op |-> op, pcc |-> "next", other |-> 0, abs |-> 0, neg |-> 0,
   pre |-> [Flags(0) EXCEPT !.exec = exec, !.vcc = vcc], post |-> [Flags(0) EXCEPT !.exec = exec, !.vcc = vcc],
   s0 |-> VOp(258, LAMBDA k : Rot(ia, k)), s1 |-> VOp(260, LAMBDA k : Rot(ib, k)),
   s2 |-> VOp(262, LAMBDA k : Rot(ia + ib, k)),
   d |-> [c |-> 266, n |-> 1, pre |-> [k \in Lanes |-> <<k, k>>], post |-> [k \in Lanes |-> <<k, k>>]]]

\* ---------------------------------------------------------------- laws
AddSubInverse ==
  /\ S2("s_sub_u32", S2("s_add_u32", A, BW, 0).d, BW, 0).d = A
  /\ S2("s_add_u32", S2("s_sub_u32", A, BW, 0).d, BW, 0).d = A
  /\ S2("s_sub_i32", A, BW, 0).d = S2("s_sub_u32", A, BW, 0).d
  /\ S2("s_add_i32", A, BW, 0).d = S2("s_add_u32", A, BW, 0).d
\* 64-bit addition / subtraction from 32-bit halves with SCC as the carry
CarryChain ==
  LET lo == S2("s_add_u32", A, BW, ci)
      hi == S2("s_addc_u32", BW, A, lo.scc)
      sl == S2("s_sub_u32", A, BW, ci)
      sh == S2("s_subb_u32", BW, A, sl.scc)
  IN /\ lo.d \o hi.d = Plus(A64, B64) /\ hi.scc = Add(A64, B64, 0).c
     /\ sl.d \o sh.d = Minus(A64, B64) /\ sh.scc = Sub(A64, B64, 0).c
\* only the low 5 (6) bits of a shift amount count
ShiftMask ==
  LET b32 == Plus(BW, <<32, 0>>)
      b64 == Plus(BW, <<64, 0>>)
  IN /\ \A nm \in {"s_lshl_b32", "s_lshr_b32", "s_ashr_i32"} : S2(nm, A, BW, 0) = S2(nm, A, b32, 0)
     /\ \A nm \in {"s_lshl_b64", "s_lshr_b64", "s_ashr_i64"} : S2(nm, A64, BW, 0) = S2(nm, A64, b64, 0)
     /\ (Sign(A) = 0 => S2("s_ashr_i32", A, BW, 0) = S2("s_lshr_b32", A, BW, 0))
     /\ S2("s_lshr_b32", S2("s_lshl_b32", A, <<BW[1] % 16, 0>>, 0).d, <<BW[1] % 16, 0>>, 0).d
          = WAnd(A, MaskLow(32 - (BW[1] % 16), 2))
MinMaxLaws ==
  /\ \A p \in {<<"s_min_i32", "s_max_i32">>, <<"s_min_u32", "s_max_u32">>} :
       LET mn == S2(p[1], A, BW, 0)
           mx == S2(p[2], A, BW, 0)
       IN /\ {mn.d, mx.d} = {A, BW}
          /\ mn.scc = (IF mn.d = A /\ A # BW THEN 1 ELSE 0)
          /\ mx.scc = (IF mx.d = A /\ A # BW THEN 1 ELSE 0)
  /\ Med3(A, BW, A, Ult) = A /\ Med3(A, BW, BW, Slt) = BW
  /\ Med3(A, BW, Z32, Ult) \in {A, BW, Z32}
LogicLaws ==
  /\ S2("s_xor_b32", S2("s_xor_b32", A, BW, 0).d, BW, 0).d = A
  /\ S2("s_andn2_b32", A, BW, 0).d = S2("s_and_b32", A, Inv(BW), 0).d
  /\ S2("s_or_b64", A64, B64, 0).d = Inv(S2("s_and_b64", Inv(A64), Inv(B64), 0).d)
  /\ S2("s_and_b32", A, BW, 0).scc = (IF IsZero(WAnd(A, BW)) THEN 0 ELSE 1)
  /\ Brev(Brev(A)) = A
  /\ S2("s_bfe_u32", A, <<0, 32>>, 0).d = A /\ S2("s_bfe_i32", A, <<0, 32>>, 0).d = A
  /\ S2("s_bfe_u32", A, <<BW[1] % 32, 0>>, 0).d = Z32
  /\ S2("s_mul_i32", A, BW, 0).d = S2("s_mul_i32", BW, A, 0).d
  /\ S2("s_mul_hi_u32", A, BW, 0).d \o <<>> = MulHiU(BW, A)
\* branches move PC by 4 * simm16; non-branches leave it
BranchLaws ==
  LET r(op, scc) == SOPPSem(OpName("gcn3", "SOPP", op), SRec("gcn3", "SOPP", op, A, BW, scc))
  IN /\ r(2, 0).pc = Plus(Flags(0).pc, Shl(SExt(<<A[1]>>, 4), 2))
     /\ r(4, 0).pc = r(2, 0).pc /\ r(4, 1).pc = Flags(0).pc
     /\ r(5, 1).pc = r(2, 0).pc /\ r(5, 0).pc = Flags(0).pc
     /\ r(0, 0).pc = Flags(0).pc /\ r(12, 1).pc = Flags(0).pc
     /\ r(7, 0).pc = r(2, 0).pc /\ r(9, 0).pc = r(2, 0).pc
\* the VOP2 and VOP3b encodings of the carry instructions agree lane by lane
VecLaws ==
  LET ex == <<65535, 255, 0, 32768>>
      vc == <<43690, 21845, 65535, 0>>
      r2 == VRec("cdna3", "VOP2", 28, a, b, ex, vc)
      r3 == [VRec("cdna3", "VOP3b", 284, a, b, ex, vc) EXCEPT !.s2 = [c |-> 106, n |-> 2]]
  IN \A k \in {1, 2, 17, 40, 64} :
       /\ VIntSem("v_addc_co_u32", r2, k) = VIntSem("v_addc_co_u32", r3, k)
       /\ VIntSem("v_sub_co_u32", r2, k).d = VIntSem("v_subrev_co_u32", [r2 EXCEPT !.s0 = r2.s1, !.s1 = r2.s0], k).d
       /\ VIntSem("v_mad_u32_u24", r3, k).d = Plus(VIntSem("v_mul_u32_u24", r3, k).d, V32(r3.s2, r3.pre, k))
       /\ VIntSem("v_lshlrev_b32", r2, k).d = Shl(V32(r2.s1, r2.pre, k), V32(r2.s0, r2.pre, k)[1] % 32)
       /\ VCmpSem("v_cmp_lt_u32", r2, k) + VCmpSem("v_cmp_ge_u32", r2, k) = 1
       /\ VCmpSem("v_cmp_lt_i32", r2, k) + VCmpSem("v_cmp_eq_i32", r2, k) + VCmpSem("v_cmp_gt_i32", r2, k) = 1
       /\ VCmpSem("v_cmp_lt_f32", r2, k) + VCmpSem("v_cmp_nlt_f32", r2, k) = 1
       /\ VCmpSem("v_cmp_lg_f32", r2, k) + VCmpSem("v_cmp_nlg_f32", r2, k) = 1
\* lane-wise by construction: the expected destination of lane k depends on lane k's inputs only -
\* swapping the contents of two lanes (and their EXEC/VCC bits) swaps the results
LaneWise ==
  LET ex == <<65533, 255, 0, 32768>>      \* lane 1 active, lane 2 inactive
      vc == <<43689, 21845, 65535, 0>>
      sw(k) == IF k = 1 THEN 2 ELSE IF k = 2 THEN 1 ELSE k
      r  == VRec("gcn3", "VOP2", 28, a, b, ex, vc)
      rs == [r EXCEPT !.s0.r = [k \in Lanes |-> r.s0.r[sw(k)]], !.s1.r = [k \in Lanes |-> r.s1.r[sw(k)]],
                      !.pre.exec = <<65534, 255, 0, 32768>>, !.pre.vcc = <<43690, 21845, 65535, 0>>]
  IN /\ VIntSem("v_addc_co_u32", r, 1) = VIntSem("v_addc_co_u32", rs, 2)
     /\ VIntSem("v_addc_co_u32", r, 5) = VIntSem("v_addc_co_u32", rs, 5)
     /\ ExecBit(r.pre, 1) = ExecBit(rs.pre, 2) /\ VccBit(r.pre, 2) = VccBit(rs.pre, 1)
FloatLaws ==
  LET F == Fmt32
      nn == ~F32IsNaN(A) /\ ~F32IsNaN(BW)
      fin == nn /\ ~F32IsInf(A) /\ ~F32IsInf(BW)
      up == FConv(Fmt64, F, A)
  IN /\ FAdd(F, A, BW) = FAdd(F, BW, A)
     /\ FMul(F, A, BW) = FMul(F, BW, A)
     /\ (fin => FSub(F, A, A) = FVal(FZeroW(F, 0)))
     /\ (nn => FMul(F, A, <<0, 16256>>) = FVal(A))                       \* x * 1.0 = x
     /\ (nn /\ ~F32IsZero(A) => FAdd(F, A, FZeroW(F, 0)) = FVal(A))        \* x + 0 = x
     /\ (fin /\ ~F32IsZero(A) /\ ~F32IsZero(BW) => FFma(F, A, BW, FZeroW(F, 0)) = FMul(F, A, BW))
     /\ FFma(F, A, <<0, 16256>>, BW) = FAdd(F, A, BW)                      \* fma(a, 1, b) = a + b
     /\ (nn => FConv(F, Fmt64, up.w) = FVal(A))                            \* binary32 -> binary64 -> binary32
     /\ (nn => F32Cmp("lt", A, BW) = F32Cmp("gt", BW, A))
     /\ (nn => F32Min(A, BW) \in {A, BW} /\ F32Max(A, BW) \in {A, BW})
     /\ FToU32(F, FFromU(F, <<A[1], 0>>)) = <<A[1], 0>>                    \* 16-bit integers survive the round trip
     /\ FToI32(F, FFromS(F, SExt(<<A[1]>>, 2))) = SExt(<<A[1]>>, 2)
     /\ (nn => FTruncF(F, FTruncF(F, A).w) = FTruncF(F, A))
\* output modifiers and packed binary32
PkRec(opsel, opselhi, neg, neghi, s1) ==
  [VRec("cdna3", "VOP3a", 945, a, b, <<65535, 65535, 65535, 65535>>, Z64) EXCEPT
     !.s0 = [c |-> 258, n |-> 2, r |-> [k \in Lanes |-> A \o BW]], !.s1 = s1,
     !.abs = neghi, !.neg = neg] @@ [opsel |-> opsel, opselhi |-> opselhi]
ModifierLaws ==
  LET F  == Fmt32
      nn == ~F32IsNaN(A) /\ ~F32IsNaN(BW)
      v1 == [c |-> 260, n |-> 2, r |-> [k \in Lanes |-> BW \o A]]
      one == [c |-> 242, n |-> 2]
      pk(r) == VPkSem("v_pk_mul_f32", r, 3).pk
      m(x, y) == FR32(FMul(F, x, y), {x, y})
  IN /\ (~F32IsNaN(A) => /\ Clamp32(Clamp32(A)) = Clamp32(A)
                          /\ F32Sign(Clamp32(A)) = 0 /\ F32Mag(Clamp32(A)) <= F32Mag(F32One)
                          /\ (F32Sign(A) = 0 /\ F32Mag(A) <= F32Mag(F32One) => Clamp32(A) = A))
     \* the usual form: low halves give the low result, high halves the high result
     /\ pk(PkRec(0, 3, 0, 0, v1)) = <<m(A, BW), m(BW, A)>>
     \* OP_SEL and OP_SEL_HI exchanged: the halves of the result are exchanged
     /\ pk(PkRec(3, 0, 0, 0, v1)) = <<m(BW, A), m(A, BW)>>
     \* NEG acts on the low result only, NEG_HI on the high result only
     /\ pk(PkRec(0, 3, 1, 0, v1)) = <<m(F32Neg(A), BW), m(BW, A)>>
     /\ pk(PkRec(0, 3, 0, 2, v1)) = <<m(A, BW), m(BW, F32Neg(A))>>
     \* an inline 1.0 is 1.0 in the low dword and 0 in the high dword
     /\ pk(PkRec(0, 1, 0, 0, one)) = <<m(A, F32One), m(BW, F32One)>>
     /\ pk(PkRec(2, 3, 0, 0, one)) = <<m(A, Z32), m(BW, Z32)>>
\* every table entry with a reference evaluates (no CASE falls through) to well-formed words
WellFormed ==
  /\ \A arch \in {"gcn3", "cdna3"} :
       /\ \A op \in DOMAIN Tab[arch].SOP2 :
            LET nm == Tab[arch].SOP2[op]
            IN nm \in {"s_nand_b32", "s_nand_b64", "s_nor_b32", "s_nor_b64", "s_xnor_b32", "s_xnor_b64", "s_bfm_b64",
                       "s_bfe_u64", "s_bfe_i64", "s_mul_hi_i32"}
               \/ LET r == SOP2Sem(nm, SRec(arch, "SOP2", op, A64, B64, ci))
                  IN r.scc \in 0..1 /\ (IsWord(r.d, 2) \/ IsWord(r.d, 4))
       /\ \A op \in DOMAIN Tab[arch].SOP1 \ {5} :
            LET r == SOP1Sem(Tab[arch].SOP1[op], SRec(arch, "SOP1", op, A64, B64, ci))
            IN r.scc \in 0..1 /\ (IsWord(r.d, 2) \/ IsWord(r.d, 4))
       /\ \A op \in DOMAIN Tab[arch].SOPC : SOPCSem(Tab[arch].SOPC[op], SRec(arch, "SOPC", op, A, BW, ci)).scc \in 0..1
       /\ \A op \in DOMAIN Tab[arch].SOPK : SOPKSem(Tab[arch].SOPK[op], SRec(arch, "SOPK", op, A, BW, ci)).scc \in 0..1
       /\ \A op \in DOMAIN Tab[arch].VOP2 \cup DOMAIN Tab[arch].VOP3a :
            LET f == IF op < 256 /\ op \in DOMAIN Tab[arch].VOP2 THEN "VOP2" ELSE "VOP3a"
                nm == OpName(arch, f, op)
                r == [VRec(arch, f, op, a, b, <<65535, 255, 0, 32768>>, <<43690, 21845, 65535, 0>>)
                        EXCEPT !.s2 = IF nm \in {"v_cndmask_b32"} THEN [c |-> 106, n |-> 2] ELSE @]
            IN ~(nm \in IntNames \/ IsCmp(nm) \/ IsFSel(nm) \/ nm \in F32Names \cup CvtNames) \/ nm \in {"v_mov_b64", "v_lshl_add_u64",
                 "v_lshlrev_b64", "v_lshrrev_b64", "v_ashrrev_i64", "v_mad_u64_u32", "v_cvt_f32_f64"} \/ CmpParts(nm)[2] = "u64"
               \/ LET v == VecSem(nm, r, 3) IN v.cc \in 0..1 /\ (v.d = <<>> \/ IsWord(v.d, 2) \/ IsWord(v.d, 4))
=============================================================================
