------------------------------ MODULE ISAFloat ------------------------------
(***************************************************************************)
(* IEEE-754 binary32 / binary64 on limb words: classification, ordering,   *)
(* min/max/med3 as the manuals define them, exact conversions, and         *)
(* round-to-nearest-even add / mul / fma (section "arithmetic" below).     *)
(* A binary32 value is <<lo16, hi16>>, a binary64 value four limbs.        *)
(***************************************************************************)
EXTENDS Limbs

\* ------------------------------------------------------------- binary32
F32Sign(w) == w[2] \div 32768
F32Exp(w)  == (w[2] \div 128) % 256
F32Man(w)  == (w[2] % 128) * 65536 + w[1]            \* 23 bits: fits a TLC integer
F32IsNaN(w)  == F32Exp(w) = 255 /\ F32Man(w) # 0
F32IsSNaN(w) == F32IsNaN(w) /\ F32Man(w) < 4194304   \* quiet bit (bit 22) clear
F32IsInf(w)  == F32Exp(w) = 255 /\ F32Man(w) = 0
F32IsZero(w) == F32Exp(w) = 0 /\ F32Man(w) = 0
F32IsDen(w)  == F32Exp(w) = 0 /\ F32Man(w) # 0
F32Mag(w)  == F32Exp(w) * 8388608 + F32Man(w)        \* <= 2^31 - 1
F32Key(w)  == IF F32Sign(w) = 0 THEN F32Mag(w) ELSE -F32Mag(w)   \* order of non-NaN values, -0 = +0
F32Make(s, e, m) == <<m % 65536, s * 32768 + e * 128 + (m \div 65536)>>
F32Abs(w)  == <<w[1], w[2] % 32768>>
F32Neg(w)  == <<w[1], (w[2] + 32768) % 65536>>
F32Quiet(w) == <<w[1], w[2] - (w[2] % 128) + ((w[2] % 128) % 64) + 64>>  \* set bit 22

F32Lt(a, b) == ~F32IsNaN(a) /\ ~F32IsNaN(b) /\ F32Key(a) < F32Key(b)
F32Eq(a, b) == ~F32IsNaN(a) /\ ~F32IsNaN(b) /\ F32Key(a) = F32Key(b)
F32Le(a, b) == F32Lt(a, b) \/ F32Eq(a, b)
F32Gt(a, b) == F32Lt(b, a)
F32Ge(a, b) == F32Le(b, a)
F32Lg(a, b) == F32Lt(a, b) \/ F32Lt(b, a)
F32Ord(a, b) == ~F32IsNaN(a) /\ ~F32IsNaN(b)

\* the sixteen VOPC float conditions (table "Comparison operations" of both manuals)
F32Cmp(cond, a, b) ==
  CASE cond = "f"   -> FALSE
    [] cond = "lt"  -> F32Lt(a, b)
    [] cond = "eq"  -> F32Eq(a, b)
    [] cond = "le"  -> F32Le(a, b)
    [] cond = "gt"  -> F32Gt(a, b)
    [] cond = "lg"  -> F32Lg(a, b)
    [] cond = "ge"  -> F32Ge(a, b)
    [] cond = "o"   -> F32Ord(a, b)
    [] cond = "u"   -> ~F32Ord(a, b)
    [] cond = "nge" -> ~F32Ge(a, b)
    [] cond = "nlg" -> ~F32Lg(a, b)
    [] cond = "ngt" -> ~F32Gt(a, b)
    [] cond = "nle" -> ~F32Le(a, b)
    [] cond = "neq" -> ~F32Eq(a, b)
    [] cond = "nlt" -> ~F32Lt(a, b)
    [] cond = "tru" -> TRUE

\* V_CMP_CLASS_F32 mask bits: 0 sNaN 1 qNaN 2 -inf 3 -normal 4 -denormal 5 -0 6 +0 7 +denormal 8 +normal 9 +inf
F32ClassBit(w) ==
  IF F32IsNaN(w) THEN (IF F32IsSNaN(w) THEN 0 ELSE 1)
  ELSE IF F32IsInf(w) THEN (IF F32Sign(w) = 1 THEN 2 ELSE 9)
  ELSE IF F32IsZero(w) THEN (IF F32Sign(w) = 1 THEN 5 ELSE 6)
  ELSE IF F32IsDen(w) THEN (IF F32Sign(w) = 1 THEN 4 ELSE 7)
  ELSE (IF F32Sign(w) = 1 THEN 3 ELSE 8)

\* V_MIN_F32 / V_MAX_F32 for quiet inputs (the manuals' pseudo-code; signalling NaNs depend on
\* MODE.IEEE and are outside the checked domain).  For a pair of zeros of opposite sign the manual's
\* "<" leaves the choice open: both zeros are accepted (alt).
F32Min(a, b) == IF F32IsNaN(a) THEN b ELSE IF F32IsNaN(b) THEN a ELSE IF F32Lt(a, b) THEN a ELSE b
F32Max(a, b) == IF F32IsNaN(a) THEN b ELSE IF F32IsNaN(b) THEN a ELSE IF F32Gt(a, b) THEN a ELSE b
F32ZeroPair(a, b) == F32IsZero(a) /\ F32IsZero(b) /\ F32Sign(a) # F32Sign(b)
F32MinAlt(a, b) == IF F32ZeroPair(a, b) THEN a ELSE F32Min(a, b)
F32MaxAlt(a, b) == IF F32ZeroPair(a, b) THEN a ELSE F32Max(a, b)

\* ------------------------------------------------------------- binary64
F64Sign(w) == w[4] \div 32768
F64Exp(w)  == (w[4] \div 16) % 2048
F64ManW(w) == <<w[1], w[2], w[3], w[4] % 16>>        \* 52-bit fraction as a 4-limb word
F64IsNaN(w)  == F64Exp(w) = 2047 /\ ~IsZero(F64ManW(w))
F64IsInf(w)  == F64Exp(w) = 2047 /\ IsZero(F64ManW(w))
F64IsZero(w) == F64Exp(w) = 0 /\ IsZero(F64ManW(w))
F64Abs(w) == <<w[1], w[2], w[3], w[4] % 32768>>
F64Neg(w) == <<w[1], w[2], w[3], (w[4] + 32768) % 65536>>
=============================================================================
