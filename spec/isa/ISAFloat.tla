------------------------------ MODULE ISAFloat ------------------------------
(***************************************************************************)
(* IEEE-754 binary32 / binary64 on limb words: classification, ordering,   *)
(* min/max/med3 as the manuals define them, exact conversions, and         *)
(* round-to-nearest-even add / mul / fma (section "arithmetic" below).     *)
(* A binary32 value is <<lo16, hi16>>, a binary64 value four limbs.        *)
(***************************************************************************)
EXTENDS Limbs

\* ------------------------------------------------------------- binary32
F32Sign(w) == w[2] \div 32768
F32Exp(w)  == (w[2] \div 128) % 256
F32Man(w)  == (w[2] % 128) * 65536 + w[1]            \* 23 bits: fits a TLC integer
F32IsNaN(w)  == F32Exp(w) = 255 /\ F32Man(w) # 0
F32IsSNaN(w) == F32IsNaN(w) /\ F32Man(w) < 4194304   \* quiet bit (bit 22) clear
F32IsInf(w)  == F32Exp(w) = 255 /\ F32Man(w) = 0
F32IsZero(w) == F32Exp(w) = 0 /\ F32Man(w) = 0
F32IsDen(w)  == F32Exp(w) = 0 /\ F32Man(w) # 0
F32Mag(w)  == F32Exp(w) * 8388608 + F32Man(w)        \* <= 2^31 - 1
F32Key(w)  == IF F32Sign(w) = 0 THEN F32Mag(w) ELSE -F32Mag(w)   \* order of non-NaN values, -0 = +0
F32Make(s, e, m) == <<m % 65536, s * 32768 + e * 128 + (m \div 65536)>>
F32Abs(w)  == <<w[1], w[2] % 32768>>
F32Neg(w)  == <<w[1], (w[2] + 32768) % 65536>>
F32Quiet(w) == <<w[1], w[2] - (w[2] % 128) + ((w[2] % 128) % 64) + 64>>  \* set bit 22

F32Lt(a, b) == ~F32IsNaN(a) /\ ~F32IsNaN(b) /\ F32Key(a) < F32Key(b)
F32Eq(a, b) == ~F32IsNaN(a) /\ ~F32IsNaN(b) /\ F32Key(a) = F32Key(b)
F32Le(a, b) == F32Lt(a, b) \/ F32Eq(a, b)
F32Gt(a, b) == F32Lt(b, a)
F32Ge(a, b) == F32Le(b, a)
F32Lg(a, b) == F32Lt(a, b) \/ F32Lt(b, a)
F32Ord(a, b) == ~F32IsNaN(a) /\ ~F32IsNaN(b)

\* the sixteen VOPC float conditions (table "Comparison operations" of both manuals)
F32Cmp(cond, a, b) ==
  CASE cond = "f"   -> FALSE
    [] cond = "lt"  -> F32Lt(a, b)
    [] cond = "eq"  -> F32Eq(a, b)
    [] cond = "le"  -> F32Le(a, b)
    [] cond = "gt"  -> F32Gt(a, b)
    [] cond = "lg"  -> F32Lg(a, b)
    [] cond = "ge"  -> F32Ge(a, b)
    [] cond = "o"   -> F32Ord(a, b)
    [] cond = "u"   -> ~F32Ord(a, b)
    [] cond = "nge" -> ~F32Ge(a, b)
    [] cond = "nlg" -> ~F32Lg(a, b)
    [] cond = "ngt" -> ~F32Gt(a, b)
    [] cond = "nle" -> ~F32Le(a, b)
    [] cond = "neq" -> ~F32Eq(a, b)
    [] cond = "nlt" -> ~F32Lt(a, b)
    [] cond = "tru" -> TRUE

\* V_CMP_CLASS_F32 mask bits: 0 sNaN 1 qNaN 2 -inf 3 -normal 4 -denormal 5 -0 6 +0 7 +denormal 8 +normal 9 +inf
F32ClassBit(w) ==
  IF F32IsNaN(w) THEN (IF F32IsSNaN(w) THEN 0 ELSE 1)
  ELSE IF F32IsInf(w) THEN (IF F32Sign(w) = 1 THEN 2 ELSE 9)
  ELSE IF F32IsZero(w) THEN (IF F32Sign(w) = 1 THEN 5 ELSE 6)
  ELSE IF F32IsDen(w) THEN (IF F32Sign(w) = 1 THEN 4 ELSE 7)
  ELSE (IF F32Sign(w) = 1 THEN 3 ELSE 8)

\* V_MIN_F32 / V_MAX_F32 for quiet inputs (the manuals' pseudo-code; signalling NaNs depend on
\* MODE.IEEE and are outside the checked domain).  For a pair of zeros of opposite sign the manual's
\* "<" leaves the choice open: both zeros are accepted (alt).
F32Min(a, b) == IF F32IsNaN(a) THEN b ELSE IF F32IsNaN(b) THEN a ELSE IF F32Lt(a, b) THEN a ELSE b
F32Max(a, b) == IF F32IsNaN(a) THEN b ELSE IF F32IsNaN(b) THEN a ELSE IF F32Gt(a, b) THEN a ELSE b
F32ZeroPair(a, b) == F32IsZero(a) /\ F32IsZero(b) /\ F32Sign(a) # F32Sign(b)
F32MinAlt(a, b) == IF F32ZeroPair(a, b) THEN a ELSE F32Min(a, b)
F32MaxAlt(a, b) == IF F32ZeroPair(a, b) THEN a ELSE F32Max(a, b)

\* ------------------------------------------------------------- binary64
F64Sign(w) == w[4] \div 32768
F64Exp(w)  == (w[4] \div 16) % 2048
F64ManW(w) == <<w[1], w[2], w[3], w[4] % 16>>        \* 52-bit fraction as a 4-limb word
F64IsNaN(w)  == F64Exp(w) = 2047 /\ ~IsZero(F64ManW(w))
F64IsInf(w)  == F64Exp(w) = 2047 /\ IsZero(F64ManW(w))
F64IsZero(w) == F64Exp(w) = 0 /\ IsZero(F64ManW(w))
F64Abs(w) == <<w[1], w[2], w[3], w[4] % 32768>>
F64Neg(w) == <<w[1], w[2], w[3], (w[4] + 32768) % 65536>>

\* ============================================================== arithmetic
\* Formats: eb exponent bits, mb fraction bits, bias, n limbs of the encoding.
Fmt16 == [eb |-> 5,  mb |-> 10, bias |-> 15,   n |-> 1]
Fmt32 == [eb |-> 8,  mb |-> 23, bias |-> 127,  n |-> 2]
Fmt64 == [eb |-> 11, mb |-> 52, bias |-> 1023, n |-> 4]

FTopFrac(f) == Pow2(15 - f.eb)                       \* weight of the exponent field inside the top limb
FSign(f, w) == w[f.n] \div 32768
FExp(f, w)  == (w[f.n] \div FTopFrac(f)) % Pow2(f.eb)
FFrac(f, w) == [i \in 1..f.n |-> IF i = f.n THEN w[i] % FTopFrac(f) ELSE w[i]]
FEmax(f)    == Pow2(f.eb) - 1
FIsNaN(f, w)  == FExp(f, w) = FEmax(f) /\ ~IsZero(FFrac(f, w))
FIsInf(f, w)  == FExp(f, w) = FEmax(f) /\ IsZero(FFrac(f, w))
FIsZero(f, w) == FExp(f, w) = 0 /\ IsZero(FFrac(f, w))
FIsDen(f, w)  == FExp(f, w) = 0 /\ ~IsZero(FFrac(f, w))
FNegW(f, w)   == [w EXCEPT ![f.n] = (@ + 32768) % 65536]
FAbsW(f, w)   == [w EXCEPT ![f.n] = @ % 32768]
FInfW(f, s)   == [i \in 1..f.n |-> IF i = f.n THEN s * 32768 + FEmax(f) * FTopFrac(f) ELSE 0]
FZeroW(f, s)  == [i \in 1..f.n |-> IF i = f.n THEN s * 32768 ELSE 0]
\* word with value x in the exponent field
FExpW(f, x)   == [i \in 1..f.n |-> IF i = f.n THEN x * FTopFrac(f) ELSE 0]
FSignW(f, s)  == [i \in 1..f.n |-> IF i = f.n THEN s * 32768 ELSE 0]

\* result of an arithmetic operation: nan = TRUE means "any NaN", else the word w
FVal(w) == [nan |-> FALSE, w |-> w]
FNaN    == [nan |-> TRUE, w |-> <<>>]

BitLen(m) == IF IsZero(m) THEN 0 ELSE Width(m) - FindHigh1(m)

\* finite non-zero value (-1)^s * m * 2^e, m an integer word
Unpack(f, w) ==
  LET E == FExp(f, w)
  IN [s |-> FSign(f, w),
      m |-> IF E = 0 THEN FFrac(f, w) ELSE SetBit(FFrac(f, w), f.mb, 1),
      e |-> (IF E = 0 THEN 1 ELSE E) - f.bias - f.mb]

\* m >> k rounded to nearest, ties to even (k >= 1; m has a spare top limb)
RShiftRNE(m, k) ==
  LET L == BitLen(m)
      n == Len(m)
  IN IF k > L THEN Zero(n)
     ELSE LET res  == Shr(m, k)
              low  == WAnd(m, MaskLow(k, n))
              half == SetBit(Zero(n), k - 1, 1)
              up   == Ult(half, low) \/ (low = half /\ Bit(res, 0) = 1)
          IN IF up THEN Plus(res, One(n)) ELSE res

\* the IEEE round-to-nearest-even encoding of the exact value (-1)^s * M * 2^e  (M # 0)
RoundPack(f, s, M, e) ==
  LET n0 == IF Len(M) > f.n THEN Len(M) ELSE f.n
      MM == ZExt(M, n0 + 1)
      L  == BitLen(MM)
      qe == 1 - f.bias - f.mb                 \* quantum of the subnormals
      q0 == e + L - 1 - f.mb                  \* quantum that keeps mb+1 significant bits
      q  == IF q0 > qe THEN q0 ELSE qe
      k  == q - e
      r0 == IF k <= 0 THEN Shl(MM, -k) ELSE RShiftRNE(MM, k)
      top == SetBit(Zero(n0 + 1), f.mb + 1, 1)            \* 2^(mb+1)
      hid == SetBit(Zero(n0 + 1), f.mb, 1)                \* 2^mb
      carry == r0 = top
      r  == IF carry THEN hid ELSE r0
      q1 == IF carry THEN q + 1 ELSE q
      be == q1 + f.mb + f.bias
  IN IF Ult(r, hid) THEN WOr(Trunc(r, f.n), FSignW(f, s))            \* subnormal or zero
     ELSE IF be >= FEmax(f) THEN FInfW(f, s)
     ELSE WOr(Plus(Trunc(r, f.n), FExpW(f, be - 1)), FSignW(f, s))

\* exact sum of two finite non-zero unpacked values, rounded; nw = working limbs
SumRound(f, x, y, nw) ==
  LET X  == IF x.e >= y.e THEN x ELSE y            \* larger exponent
      Y  == IF x.e >= y.e THEN y ELSE x
      T  == BitLen(Y.m) + f.mb + 4
      Y2 == IF X.e - Y.e > T THEN [s |-> Y.s, m |-> One(1), e |-> X.e - T] ELSE Y   \* sticky stand-in
      sh == X.e - Y2.e
      MX == Shl(ZExt(X.m, nw), sh)
      MY == ZExt(Y2.m, nw)
  IN IF X.s = Y2.s THEN FVal(RoundPack(f, X.s, Plus(MX, MY), Y2.e))
     ELSE IF MX = MY THEN FVal(FZeroW(f, 0))
     ELSE IF Ult(MY, MX) THEN FVal(RoundPack(f, X.s, Minus(MX, MY), Y2.e))
     ELSE FVal(RoundPack(f, Y2.s, Minus(MY, MX), Y2.e))

AddWork(f) == ((3 * (f.mb + 1) + 8) \div 16) + 2
FmaWork(f) == ((5 * (f.mb + 1) + 8) \div 16) + 2

FAdd(f, a, b) ==
  IF FIsNaN(f, a) \/ FIsNaN(f, b) THEN FNaN
  ELSE IF FIsInf(f, a) THEN (IF FIsInf(f, b) /\ FSign(f, a) # FSign(f, b) THEN FNaN ELSE FVal(a))
  ELSE IF FIsInf(f, b) THEN FVal(b)
  ELSE IF FIsZero(f, a) THEN (IF FIsZero(f, b) THEN FVal(FZeroW(f, IF FSign(f, a) = FSign(f, b) THEN FSign(f, a) ELSE 0))
                              ELSE FVal(b))
  ELSE IF FIsZero(f, b) THEN FVal(a)
  ELSE SumRound(f, Unpack(f, a), Unpack(f, b), AddWork(f))
FSub(f, a, b) == FAdd(f, a, FNegW(f, b))

FMul(f, a, b) ==
  LET s == (FSign(f, a) + FSign(f, b)) % 2
  IN IF FIsNaN(f, a) \/ FIsNaN(f, b) THEN FNaN
     ELSE IF FIsInf(f, a) \/ FIsInf(f, b) THEN (IF FIsZero(f, a) \/ FIsZero(f, b) THEN FNaN ELSE FVal(FInfW(f, s)))
     ELSE IF FIsZero(f, a) \/ FIsZero(f, b) THEN FVal(FZeroW(f, s))
     ELSE LET x == Unpack(f, a)
              y == Unpack(f, b)
          IN FVal(RoundPack(f, s, Mul(x.m, y.m), x.e + y.e))

\* fused multiply-add: one rounding of a*b + c
FFma(f, a, b, c) ==
  LET ps == (FSign(f, a) + FSign(f, b)) % 2
      pinf == FIsInf(f, a) \/ FIsInf(f, b)
      pzero == FIsZero(f, a) \/ FIsZero(f, b)
  IN IF FIsNaN(f, a) \/ FIsNaN(f, b) \/ FIsNaN(f, c) THEN FNaN
     ELSE IF pinf /\ pzero THEN FNaN
     ELSE IF pinf THEN (IF FIsInf(f, c) /\ FSign(f, c) # ps THEN FNaN ELSE FVal(FInfW(f, ps)))
     ELSE IF FIsInf(f, c) THEN FVal(c)
     ELSE IF pzero THEN (IF FIsZero(f, c) THEN FVal(FZeroW(f, IF ps = FSign(f, c) THEN ps ELSE 0)) ELSE FVal(c))
     ELSE LET x == Unpack(f, a)
              y == Unpack(f, b)
              p == [s |-> ps, m |-> Mul(x.m, y.m), e |-> x.e + y.e]
          IN IF FIsZero(f, c) THEN FVal(RoundPack(f, ps, p.m, p.e))
             ELSE SumRound(f, p, Unpack(f, c), FmaWork(f))

\* unfused multiply-add (V_MAD_F32 / V_MAC_F32): product rounded, then sum rounded
FMad(f, a, b, c) == LET p == FMul(f, a, b) IN IF p.nan THEN FNaN ELSE FAdd(f, p.w, c)

\* ------------------------------------------------------------ conversions
\* integer word (unsigned magnitude) with sign s -> float
FFromInt(f, s, m) == IF IsZero(m) THEN FZeroW(f, 0) ELSE RoundPack(f, s, m, 0)
FFromS(f, w) == FFromInt(f, Sign(w), Abs(w))
FFromU(f, w) == FFromInt(f, 0, w)

\* float -> float (binary64 -> binary32 / binary16 round to nearest even, binary32 -> binary64 exact)
FConv(g, f, w) ==   \* from format f to format g
  IF FIsNaN(f, w) THEN FNaN
  ELSE IF FIsInf(f, w) THEN FVal(FInfW(g, FSign(f, w)))
  ELSE IF FIsZero(f, w) THEN FVal(FZeroW(g, FSign(f, w)))
  ELSE LET x == Unpack(f, w) IN FVal(RoundPack(g, x.s, x.m, x.e))

\* integer part toward zero of a finite float as an unsigned magnitude of nl limbs, saturating
\* (value >= 2^(16*nl) gives all ones)
FTruncMag(f, w, nl) ==
  LET x == Unpack(f, w)
      L == BitLen(x.m)
  IN IF FIsZero(f, w) THEN Zero(nl)
     ELSE IF x.e >= 0 THEN (IF L + x.e > 16 * nl THEN Ones(nl) ELSE Shl(ZExt(x.m, nl + f.n), x.e))
     ELSE IF -x.e >= L THEN Zero(nl)
     ELSE Shr(ZExt(x.m, nl + f.n), -x.e)

\* V_CVT_U32_F32 / V_CVT_I32_F32: truncate, saturate, NaN -> 0
FToU32(f, w) ==
  IF FIsNaN(f, w) THEN <<0, 0>>
  ELSE IF FSign(f, w) = 1 THEN <<0, 0>>
  ELSE IF FIsInf(f, w) THEN <<65535, 65535>>
  ELSE LET m == FTruncMag(f, w, 2 + f.n) IN IF ~IsZero(SubSeq(m, 3, Len(m))) THEN <<65535, 65535>> ELSE Trunc(m, 2)
FToI32(f, w) ==
  IF FIsNaN(f, w) THEN <<0, 0>>
  ELSE LET big == FIsInf(f, w)
           m == IF big THEN Ones(2 + f.n) ELSE FTruncMag(f, w, 2 + f.n)
           over == ~IsZero(SubSeq(m, 3, Len(m))) \/ m[2] >= 32768    \* magnitude >= 2^31
       IN IF FSign(f, w) = 0 THEN (IF over THEN <<65535, 32767>> ELSE Trunc(m, 2))
          ELSE (IF over THEN <<0, 32768>> ELSE Neg(Trunc(m, 2)))

\* V_TRUNC_F32 / V_RNDNE_F32 (results are floats)
FTruncF(f, w) ==
  IF FIsNaN(f, w) THEN FNaN
  ELSE IF FIsInf(f, w) \/ FIsZero(f, w) THEN FVal(w)
  ELSE LET x == Unpack(f, w)
       IN IF x.e >= 0 THEN FVal(w)
          ELSE LET m == IF -x.e >= BitLen(x.m) THEN Zero(f.n) ELSE Shr(x.m, -x.e)
               IN IF IsZero(m) THEN FVal(FZeroW(f, x.s)) ELSE FVal(RoundPack(f, x.s, m, 0))
FRndneF(f, w) ==
  IF FIsNaN(f, w) THEN FNaN
  ELSE IF FIsInf(f, w) \/ FIsZero(f, w) THEN FVal(w)
  ELSE LET x == Unpack(f, w)
       IN IF x.e >= 0 THEN FVal(w)
          ELSE LET m == RShiftRNE(ZExt(x.m, f.n + 1), -x.e)
               IN IF IsZero(m) THEN FVal(FZeroW(f, x.s)) ELSE FVal(RoundPack(f, x.s, m, 0))
=============================================================================
