------------------------------ MODULE ISACheck ------------------------------
(***************************************************************************)
(* Expected post-state of an execution record and the comparison with the  *)
(* observed one.  Diff(rec) (C03) is the set of output names that differ   *)
(* from what the manuals prescribe:                                         *)
(*   d sd scc vcc exec pc m0   destination registers / condition codes /   *)
(*                             program counter                              *)
(*   lds mem                   LDS / memory contents                        *)
(*   other                     a register outside the destination changed   *)
(*   panic                     the ALU panicked                              *)
(* LaneDiff(rec, prev) (C06) checks the lane-wise structure only, for every *)
(* vector handler, with or without a reference.                             *)
(***************************************************************************)
EXTENDS ISA

Nm(rec) == OpName(rec.arch, rec.f, rec.op)
IsVecFmt(f) == f \in {"VOP1", "VOP2", "VOP3a", "VOP3b", "VOPC", "DS", "FLAT"}

\* ---------------------------------------------------------------- scalar
WriteSpecial(fl, d, v) ==
  CASE d.c = 106 /\ d.n = 2 -> [fl EXCEPT !.vcc = v]
    [] d.c = 106 /\ d.n = 1 -> [fl EXCEPT !.vcc = <<v[1], v[2], fl.vcc[3], fl.vcc[4]>>]
    [] d.c = 126 /\ d.n = 2 -> [fl EXCEPT !.exec = v]
    [] d.c = 126 /\ d.n = 1 -> [fl EXCEPT !.exec = <<v[1], v[2], fl.exec[3], fl.exec[4]>>]
    [] d.c = 124 -> [fl EXCEPT !.m0 = v]
    [] OTHER -> fl

ScalarSem(rec) ==
  LET nm == Nm(rec)
  IN CASE rec.f = "SOP2" -> SOP2Sem(nm, rec)
       [] rec.f = "SOP1" -> SOP1Sem(nm, rec)
       [] rec.f = "SOPC" -> SOPCSem(nm, rec)
       [] rec.f = "SOPK" -> SOPKSem(nm, rec)
       [] rec.f = "SOPP" -> SOPPSem(nm, rec)
       [] rec.f = "SMEM" -> SMEMSem(nm, rec)

FlagDiff(exp, post) ==
  {x \in {"scc", "vcc", "exec", "pc", "m0"} :
     CASE x = "scc" -> exp.scc # post.scc [] x = "vcc" -> exp.vcc # post.vcc
       [] x = "exec" -> exp.exec # post.exec [] x = "pc" -> exp.pc # post.pc [] x = "m0" -> exp.m0 # post.m0}
\* a difference in the flag that *is* the instruction's destination is reported as "d" / "sd"
SpecialName(c) == CASE c = 106 -> "vcc" [] c = 126 -> "exec" [] c = 124 -> "m0" [] OTHER -> "-"
Rename(S, rec) ==
  LET dn == IF Has(rec, "d") THEN SpecialName(rec.d.c) ELSE "-"
      sn == IF Has(rec, "sd") THEN SpecialName(rec.sd.c) ELSE "-"
  IN {IF x = dn THEN "d" ELSE IF x = sn THEN "sd" ELSE x : x \in S}

Common(rec) == (IF rec.other # 0 THEN {"other"} ELSE {}) \cup (IF Has(rec, "panic") THEN {"panic"} ELSE {})

ScalarDiff(rec) ==
  LET r   == ScalarSem(rec)
      fl0 == [rec.pre EXCEPT !.scc = r.scc,
                             !.exec = IF Has(r, "exec") THEN r.exec ELSE @,
                             !.pc = IF Has(r, "pc") THEN r.pc ELSE @]
      wr  == r.d # <<>>
      fl  == IF wr /\ Has(rec, "d") THEN WriteSpecial(fl0, rec.d, r.d) ELSE fl0
      dd  == IF Has(rec, "d") /\ Has(rec.d, "pre")
             THEN (IF (IF wr THEN r.d ELSE rec.d.pre) # rec.d.post THEN {"d"} ELSE {})
             ELSE {}
  IN IF Has(rec, "panic") THEN {"panic"}
     ELSE IF Has(r, "ok") /\ ~r.ok THEN {"precondition"}
     ELSE Rename(FlagDiff(fl, rec.post), rec) \cup dd \cup Common(rec)

\* ---------------------------------------------------------------- vector ALU
HasRef(nm) == nm \in IntNames \/ IsCmp(nm) \/ IsFSel(nm) \/ IsFloatArith(nm) \/ nm = "v_readfirstlane_b32"
              \/ nm \in PkNames

VecSem0(nm, rec, k) ==
  IF Has(rec, "dsel") THEN VSdwaSem(nm, rec, k)
  ELSE IF nm \in IntNames THEN VIntSem(nm, rec, k)
  ELSE IF IsCmp(nm) THEN [d |-> <<>>, cc |-> VCmpSem(nm, rec, k)]
  ELSE IF IsFSel(nm) THEN VFSelSem(nm, rec, k)
  ELSE IF nm \in PkNames THEN VPkSem(nm, rec, k)
  ELSE VFloatSem(nm, rec, k)

VecSem(nm, rec, k) == ModifiedLane(nm, rec, VecSem0(nm, rec, k))

Idle == [d |-> <<>>, cc |-> 0]

\* does the observed lane value x satisfy the lane result r?
LaneOk1(r, x) == \/ Has(r, "skip") /\ r.skip
                 \/ Has(r, "nan") /\ r.nan /\ F32IsNaN(x)
                 \/ Has(r, "nan64") /\ r.nan64 /\ F64IsNaN(x)
                 \/ Has(r, "nan16") /\ r.nan16 /\ x[2] = 0 /\ (x[1] \div 1024) % 32 = 31 /\ x[1] % 1024 # 0
                 \/ ~(Has(r, "nan") /\ r.nan) /\ ~(Has(r, "nan64") /\ r.nan64) /\ ~(Has(r, "nan16") /\ r.nan16) /\ x = r.d
                 \/ Has(r, "alt") /\ x = r.alt
                 \/ Has(r, "zero") /\ r.zero /\ F32IsZero(r.d) /\ F32IsZero(x)
                 \/ Has(r, "zero64") /\ r.zero64 /\ F64IsZero(r.d) /\ F64IsZero(x)
\* a packed result: each half against its own lane result
LaneOk(r, x) == IF Has(r, "pk") THEN LaneOk1(r.pk[1], Lo32(x)) /\ LaneOk1(r.pk[2], Hi32(x)) ELSE LaneOk1(r, x)

FirstActive(st) == IF IsZero(st.exec) THEN 1 ELSE FindLow1(st.exec) + 1

\* A lane-mask result (compare result, carry out) has one bit per lane: the prescribed bit for an active lane
\* and 0 for an inactive lane (the whole SGPR pair / VCC is written, whatever EXEC is - also when EXEC = 0).
MaskCandidates(rec, R, old) ==
  LET st == rec.pre
  IN {MaskOf([k \in Lanes |-> IF ExecBit(st, k) = 1 THEN R[k].cc ELSE 0])}

VecDiff(rec) ==
  LET nm == Nm(rec)
      st == rec.pre
      R  == TLCEval([k \in Lanes |-> IF ExecBit(st, k) = 1 THEN VecSem(nm, rec, k) ELSE Idle])
      vdst == Has(rec, "d") /\ rec.d.c >= 256
      dd == IF vdst /\ \E k \in Lanes : IF ExecBit(st, k) = 1 THEN ~LaneOk(R[k], rec.d.post[k])
                                        ELSE rec.d.post[k] # rec.d.pre[k]
            THEN {"d"} ELSE {}
      \* where the lane mask (compare result / carry out) goes
      mkey == IF rec.f = "VOPC" THEN "vcc"
              ELSE IF rec.f = "VOP2" /\ nm \in CarryOutNames THEN "vcc"
              ELSE IF rec.f = "VOP3a" /\ IsCmp(nm) THEN "d"
              ELSE IF nm \in CarryOutNames THEN "sd"
              ELSE "-"
      mdst == CASE mkey = "vcc" -> [c |-> 106, n |-> 2] [] mkey = "d" -> rec.d
                [] mkey = "sd" -> (IF Has(rec, "sd") THEN rec.sd ELSE [c |-> -1, n |-> 0]) [] OTHER -> [c |-> -1, n |-> 0]
      old  == IF mdst.c = 106 THEN st.vcc ELSE IF mdst.c >= 0 /\ mdst.c <= 101 THEN mdst.pre ELSE Z64
      new  == IF mdst.c = 106 THEN rec.post.vcc ELSE IF mdst.c >= 0 /\ mdst.c <= 101 THEN mdst.post ELSE Z64
      md   == IF mdst.c >= 0 /\ new \notin MaskCandidates(rec, R, old)
              THEN {IF mkey = "vcc" THEN "vcc" ELSE mkey} ELSE {}
      \* all other flags (and VCC when it is not the mask destination) must be unchanged
      fl   == IF mdst.c = 106 THEN [st EXCEPT !.vcc = rec.post.vcc] ELSE st
  IN IF Has(rec, "panic") THEN {"panic"}
     ELSE dd \cup md \cup FlagDiff(fl, rec.post) \cup Common(rec)

ReadFirstLaneDiff(rec) ==
  LET st == rec.pre
      v  == V32(rec.s0, st, FirstActive(st))
  IN IF Has(rec, "panic") THEN {"panic"}
     ELSE (IF rec.d.post # v THEN {"d"} ELSE {}) \cup FlagDiff(st, rec.post) \cup Common(rec)

\* ---------------------------------------------------------------- LDS
Off16(rec) == rec.off0 + 256 * rec.off1
LdsIdx(rec, k, byteOff) == LET a == Plus(V32(rec.addr, rec.pre, k), FromNat(byteOff, 2)) IN a[1] + 65536 * a[2] + 1
\* write the limbs of w at 1-based byte index i of m
PutBytes(m, i, bs) == [j \in 1..Len(m) |-> IF j >= i /\ j < i + Len(bs) THEN bs[j - i + 1] ELSE m[j]]

\* per-lane list of <<byte offset, source limbs>> writes and of byte offsets read
DSWrites(nm, rec, k) ==
  LET d0(n) == SubSeq(rec.data.r[k], 1, n)
      d1(n) == SubSeq(rec.data1.r[k], 1, n)
  IN CASE nm = "ds_write_b32"  -> << <<Off16(rec), LimbsToBytes(d0(2))>> >>
       [] nm = "ds_write_b64"  -> << <<Off16(rec), LimbsToBytes(d0(4))>> >>
       [] nm = "ds_write_b128" -> << <<Off16(rec), LimbsToBytes(d0(8))>> >>
       [] nm = "ds_write_b8"   -> << <<Off16(rec), <<d0(1)[1] % 256>> >> >>
       [] nm = "ds_write2_b32" -> << <<rec.off0 * 4, LimbsToBytes(d0(2))>>, <<rec.off1 * 4, LimbsToBytes(d1(2))>> >>
       [] nm = "ds_write2_b64" -> << <<rec.off0 * 8, LimbsToBytes(d0(4))>>, <<rec.off1 * 8, LimbsToBytes(d1(4))>> >>
       [] OTHER -> <<>>
DSReads(nm, rec) ==     \* <<byte offset, bytes>> pieces concatenated into the destination
  CASE nm = "ds_read_b32"  -> << <<Off16(rec), 4>> >>
    [] nm = "ds_read_b64"  -> << <<Off16(rec), 8>> >>
    [] nm = "ds_read_b128" -> << <<Off16(rec), 16>> >>
    [] nm = "ds_read2_b32" -> << <<rec.off0 * 4, 4>>, <<rec.off1 * 4, 4>> >>
    [] nm = "ds_read2_b64" -> << <<rec.off0 * 8, 8>>, <<rec.off1 * 8, 8>> >>
    [] OTHER -> <<>>

RECURSIVE ApplyWrites(_, _, _, _)
ApplyWrites(m, ws, rec, k) ==    \* ws: sequence of <<byteOff, bytes>> of lane k
  IF ws = <<>> THEN m ELSE ApplyWrites(PutBytes(m, LdsIdx(rec, k, ws[1][1]), ws[1][2]), Tail(ws), rec, k)
RECURSIVE LdsFold(_, _, _, _)
LdsFold(m, nm, rec, k) ==
  IF k > 64 THEN m
  ELSE LdsFold(IF ExecBit(rec.pre, k) = 1 THEN ApplyWrites(m, DSWrites(nm, rec, k), rec, k) ELSE m, nm, rec, k + 1)

RECURSIVE CatReads(_, _, _, _)
CatReads(rs, m, rec, k) ==
  IF rs = <<>> THEN <<>>
  ELSE BytesToLimbs(m, LdsIdx(rec, k, rs[1][1]), rs[1][2]) \o CatReads(Tail(rs), m, rec, k)

DSDiff(rec) ==
  LET nm == Nm(rec)
      st == rec.pre
      expL == LdsFold(rec.lds.pre, nm, rec, 1)
      rs == DSReads(nm, rec)
      dd == IF Has(rec, "d") /\ \E k \in Lanes :
                  IF ExecBit(st, k) = 1 THEN rec.d.post[k] # CatReads(rs, rec.lds.pre, rec, k)
                  ELSE rec.d.post[k] # rec.d.pre[k]
            THEN {"d"} ELSE {}
  IN IF Has(rec, "panic") THEN {"panic"}
     ELSE dd \cup (IF expL # rec.lds.post THEN {"lds"} ELSE {}) \cup FlagDiff(st, rec.post) \cup Common(rec)

\* ---------------------------------------------------------------- FLAT / GLOBAL
SExt13(x) == IF x >= 4096 THEN Minus(FromNat(x, 4), FromNat(8192, 4)) ELSE FromNat(x, 4)
FlatAddr(rec, k) ==
  LET off == SExt13(rec.off)
  IN IF rec.uses = 1 THEN Plus(Plus(SubSeq(rec.base.r, 1, 4), ZExt(V32(rec.addr, rec.pre, k), 4)), off)
     ELSE Plus(V64(rec.addr, rec.pre, k), off)

FlatStoreBytes(nm) == CASE nm = "flat_store_dword" -> 4 [] nm = "flat_store_dwordx2" -> 8
                        [] nm = "flat_store_dwordx3" -> 12 [] nm = "flat_store_dwordx4" -> 16 [] OTHER -> 0
FlatLoad(nm, m, i) ==
  CASE nm = "flat_load_ubyte"   -> <<m[i], 0>>
    [] nm = "flat_load_sbyte"   -> IF m[i] >= 128 THEN <<m[i] + 65280, 65535>> ELSE <<m[i], 0>>
    [] nm = "flat_load_ushort"  -> <<m[i] + 256 * m[i + 1], 0>>
    [] nm = "flat_load_sshort"  -> LET h == m[i] + 256 * m[i + 1] IN <<h, IF h >= 32768 THEN 65535 ELSE 0>>
    [] nm = "flat_load_dword"   -> BytesToLimbs(m, i, 4)
    [] nm = "flat_load_dwordx2" -> BytesToLimbs(m, i, 8)
    [] nm = "flat_load_dwordx3" -> BytesToLimbs(m, i, 12)
    [] nm = "flat_load_dwordx4" -> BytesToLimbs(m, i, 16)

RECURSIVE MemFold(_, _, _, _)
MemFold(m, n, rec, k) ==
  IF k > 64 THEN m
  ELSE MemFold(IF ExecBit(rec.pre, k) = 1
               THEN PutBytes(m, MemIdx(rec, FlatAddr(rec, k)), LimbsToBytes(SubSeq(rec.data.r[k], 1, n \div 2)))
               ELSE m, n, rec, k + 1)

FlatDiff(rec) ==
  LET nm == Nm(rec)
      st == rec.pre
      n  == FlatStoreBytes(nm)
      expM == IF n > 0 THEN MemFold(rec.mem.pre, n, rec, 1) ELSE rec.mem.pre
      dd == IF Has(rec, "d") /\ \E k \in Lanes :
                  IF ExecBit(st, k) = 1 THEN rec.d.post[k] # FlatLoad(nm, rec.mem.pre, MemIdx(rec, FlatAddr(rec, k)))
                  ELSE rec.d.post[k] # rec.d.pre[k]
            THEN {"d"} ELSE {}
  IN IF Has(rec, "panic") THEN {"panic"}
     ELSE dd \cup (IF expM # rec.mem.post THEN {"mem"} ELSE {}) \cup FlagDiff(st, rec.post) \cup Common(rec)

\* ---------------------------------------------------------------- C03
Diff(rec) ==
  LET nm == Nm(rec)
  IN IF rec.e # "X" THEN {}
     ELSE IF nm = "?" THEN {"nospec"}
     ELSE IF rec.f = "DS" THEN DSDiff(rec)
     ELSE IF rec.f = "FLAT" THEN FlatDiff(rec)
     ELSE IF nm = "v_readfirstlane_b32" THEN ReadFirstLaneDiff(rec)
     ELSE IF IsVecFmt(rec.f) THEN (IF HasRef(nm) THEN VecDiff(rec) ELSE {"noref"})
     ELSE ScalarDiff(rec)

\* ---------------------------------------------------------------- C06
\* Lane-wise structure of a vector instruction, with or without a reference:
\*  inactive   an inactive lane's destination VGPRs changed
\*  other      a register outside the destination changed
\*  flags      SCC / EXEC / PC / M0 changed, or VCC changed although the manual lists no VCC result
\*  lanefn     two active lanes with identical inputs produced different results
\*  perm       the lane-permuted twin did not produce the permuted results
\*  panic      the ALU panicked (inactive lanes carry unmapped addresses: any access by them panics)
WritesVcc(rec) == LET nm == Nm(rec)
                  IN \/ rec.f = "VOPC"
                     \/ rec.f = "VOP2" /\ rec.op \in 25..30 /\ (rec.arch = "gcn3" \/ nm \in CarryOutNames)
                     \/ Has(rec, "d") /\ rec.d.c = 106
                     \/ Has(rec, "sd") /\ rec.sd.c = 106
                     \/ rec.arch = "gcn3" /\ rec.f = "VOP2" /\ rec.op \in 52..54

SrcLane(rec, key, k) == IF Has(rec, key) /\ rec[key].c >= 256 THEN rec[key].r[k] ELSE <<>>
MaskLane(rec, key, k) == IF Has(rec, key) /\ rec[key].c <= 127 /\ rec[key].n = 2 /\ Has(rec, "mask_" \o key)
                         THEN Bit(S64(rec[key], rec.pre), k - 1) ELSE 0
LaneIn(rec, k) == <<SrcLane(rec, "s0", k), SrcLane(rec, "s1", k), SrcLane(rec, "s2", k), VccBit(rec.pre, k),
                    MaskLane(rec, "s2", k), IF Has(rec, "d") /\ rec.d.c >= 256 THEN rec.d.pre[k] ELSE <<>> >>
ScalarOut(rec, key) == IF Has(rec, key) /\ rec[key].c <= 101 THEN rec[key].post
                       ELSE IF Has(rec, key) /\ rec[key].c = 106 THEN rec.post.vcc ELSE <<>>
\* per-lane outputs: destination VGPRs and the lane's bit of every mask result
LaneOut(rec, k) == <<IF Has(rec, "d") /\ rec.d.c >= 256 THEN rec.d.post[k] ELSE <<>>,
                     Bit(rec.post.vcc, k - 1),
                     IF Has(rec, "d") /\ rec.d.c <= 101 /\ rec.d.n = 2 THEN Bit(rec.d.post, k - 1) ELSE 0,
                     IF Has(rec, "sd") /\ rec.sd.c <= 101 /\ rec.sd.n = 2 THEN Bit(rec.sd.post, k - 1) ELSE 0>>

LaneDiff(rec, prev) ==
  LET st == rec.pre
      act(k) == ExecBit(st, k) = 1
      vdst == Has(rec, "d") /\ rec.d.c >= 256
      crossLane == Nm(rec) = "v_readfirstlane_b32" \/ (rec.f = "VOP1" /\ rec.op = 2)
      memop == rec.f \in {"DS", "FLAT"}
      inact == IF vdst /\ \E k \in Lanes : ~act(k) /\ rec.d.post[k] # rec.d.pre[k] THEN {"inactive"} ELSE {}
      fl == (IF rec.post.scc # st.scc \/ rec.post.exec # st.exec \/ rec.post.pc # st.pc \/ rec.post.m0 # st.m0
             THEN {"flags"} ELSE {})
            \cup (IF ~WritesVcc(rec) /\ rec.post.vcc # st.vcc THEN {"flags"} ELSE {})
      ins == TLCEval([k \in Lanes |-> LaneIn(rec, k)])
      outs == TLCEval([k \in Lanes |-> LaneOut(rec, k)])
      \* records built to have many lanes with identical inputs ("dup", "nbr"): every pair of active lanes
      allpairs == Has(rec, "tag") /\ rec.tag \in {"dup", "nbr"}
      lanefn == IF ~crossLane /\ ~memop /\
                   (\/ \E j \in 1..32 : act(2 * j - 1) /\ act(2 * j)
                                        /\ ins[2 * j - 1] = ins[2 * j] /\ outs[2 * j - 1] # outs[2 * j]
                    \/ allpairs /\ \E j \in Lanes, k \in Lanes : j < k /\ act(j) /\ act(k)
                                                               /\ ins[j] = ins[k] /\ outs[j] # outs[k])
                THEN {"lanefn"} ELSE {}
      pm(k) == rec.perm[k] + 1
      twin == Has(rec, "perm") /\ prev.id = rec.pair /\ ~Has(prev, "panic")
      perm == IF twin /\ ~crossLane /\
                 (\/ \E k \in Lanes : LaneOut(rec, k) # LaneOut(prev, pm(k))
                  \/ Has(rec, "lds") /\ rec.lds.post # prev.lds.post
                  \/ Has(rec, "mem") /\ rec.mem.post # prev.mem.post)
              THEN {"perm"} ELSE {}
  IN IF rec.e # "X" \/ ~IsVecFmt(rec.f) THEN {}
     \* a panic is reported together with what the state it left behind shows (a panic after the lane loop must
     \* not hide a modified inactive lane)
     \* OMOD # 0: the ALUs refuse every such instruction whatever the lanes hold ("Output modifiers are not
     \* supported", reported by C03 as {feat: omod}); that refusal is no lane matter, the state it leaves behind is
     ELSE IF Has(rec, "panic") THEN (IF Has(rec, "omod") /\ rec.omod # 0 THEN {} ELSE {"panic"})
                                    \cup inact \cup fl \cup (IF rec.other # 0 THEN {"other"} ELSE {})
     ELSE inact \cup fl \cup lanefn \cup perm \cup (IF rec.other # 0 THEN {"other"} ELSE {})
=============================================================================
