SPECIFICATION Spec
CONSTANTS
  LB = 2
  Stride = 1
  N = 4
INVARIANTS OkConv OkAdd OkSub OkNeg OkOvf OkCmp OkMul OkShift OkBits OkBfe
CHECK_DEADLOCK FALSE
