------------------------------ MODULE ISATable ------------------------------
(***************************************************************************)
(* (architecture, microcode format, opcode) -> mnemonic, transcribed from  *)
(* the opcode tables of the manuals                                         *)
(*   docs/gcn3-instruction-set-architecture.pdf  (chapter 12/13)           *)
(*   docs/cdna3_insts.pdf                        (tables 65 .. 101)        *)
(* for the opcodes the ALUs implement.  The mnemonic is the key of the     *)
(* semantics in ISA.tla; an instruction that both manuals define under the *)
(* same mnemonic has one semantics for both ALUs.  Where the two ISAs give *)
(* one opcode number different meanings (VOP2 25 = V_ADD_U32 with carry on *)
(* GCN3, V_ADD_CO_U32 on CDNA3; VOP1 56 = V_MOVRELSD_B32 / V_MOV_B64 ...)  *)
(* the table says so.  VOP3 opcodes 488 (V_MAD_U64_U32) is a VOP3B-encoded *)
(* instruction (it has an SDST); the driver files it under "VOP3a" because *)
(* that is where the simulator's dispatch puts it.                         *)
(***************************************************************************)
EXTENDS Integers, TLC

SOP2Common ==
  (0 :> "s_add_u32") @@ (1 :> "s_sub_u32") @@ (2 :> "s_add_i32") @@ (3 :> "s_sub_i32") @@
  (4 :> "s_addc_u32") @@ (5 :> "s_subb_u32") @@ (6 :> "s_min_i32") @@ (7 :> "s_min_u32") @@
  (8 :> "s_max_i32") @@ (9 :> "s_max_u32") @@ (10 :> "s_cselect_b32") @@ (11 :> "s_cselect_b64") @@
  (12 :> "s_and_b32") @@ (13 :> "s_and_b64") @@ (14 :> "s_or_b32") @@ (15 :> "s_or_b64") @@
  (16 :> "s_xor_b32") @@ (17 :> "s_xor_b64") @@ (18 :> "s_andn2_b32") @@ (19 :> "s_andn2_b64") @@
  (20 :> "s_orn2_b32") @@ (21 :> "s_orn2_b64") @@ (22 :> "s_nand_b32") @@ (23 :> "s_nand_b64") @@
  (24 :> "s_nor_b32") @@ (25 :> "s_nor_b64") @@ (26 :> "s_xnor_b32") @@ (27 :> "s_xnor_b64") @@
  (28 :> "s_lshl_b32") @@ (29 :> "s_lshl_b64") @@ (30 :> "s_lshr_b32") @@ (31 :> "s_lshr_b64") @@
  (32 :> "s_ashr_i32") @@ (33 :> "s_ashr_i64") @@ (34 :> "s_bfm_b32") @@ (35 :> "s_bfm_b64") @@
  (36 :> "s_mul_i32") @@ (37 :> "s_bfe_u32") @@ (38 :> "s_bfe_i32") @@ (39 :> "s_bfe_u64") @@ (40 :> "s_bfe_i64")
SOP2CDNA3 == SOP2Common @@ (44 :> "s_mul_hi_u32") @@ (45 :> "s_mul_hi_i32")

SOP1Common ==
  (0 :> "s_mov_b32") @@ (1 :> "s_mov_b64") @@ (4 :> "s_not_b32") @@ (5 :> "s_not_b64") @@
  (8 :> "s_brev_b32") @@ (28 :> "s_getpc_b64") @@
  (32 :> "s_and_saveexec_b64") @@ (33 :> "s_or_saveexec_b64") @@ (34 :> "s_xor_saveexec_b64") @@
  (35 :> "s_andn2_saveexec_b64") @@ (36 :> "s_orn2_saveexec_b64") @@ (37 :> "s_nand_saveexec_b64") @@
  (38 :> "s_nor_saveexec_b64") @@ (39 :> "s_xnor_saveexec_b64") @@ (48 :> "s_abs_i32")

SOPCCommon ==
  (0 :> "s_cmp_eq_i32") @@ (1 :> "s_cmp_lg_i32") @@ (2 :> "s_cmp_gt_i32") @@ (3 :> "s_cmp_ge_i32") @@
  (4 :> "s_cmp_lt_i32") @@ (5 :> "s_cmp_le_i32") @@ (6 :> "s_cmp_eq_u32") @@ (7 :> "s_cmp_lg_u32") @@
  (8 :> "s_cmp_gt_u32") @@ (9 :> "s_cmp_ge_u32") @@ (10 :> "s_cmp_lt_u32") @@ (11 :> "s_cmp_le_u32")

SOPKCommon ==
  (0 :> "s_movk_i32") @@ (1 :> "s_cmovk_i32") @@ (2 :> "s_cmpk_eq_i32") @@ (3 :> "s_cmpk_lg_i32") @@
  (15 :> "s_mulk_i32")

SOPPCommon ==
  (0 :> "s_nop") @@ (2 :> "s_branch") @@ (4 :> "s_cbranch_scc0") @@ (5 :> "s_cbranch_scc1") @@
  (6 :> "s_cbranch_vccz") @@ (7 :> "s_cbranch_vccnz") @@ (8 :> "s_cbranch_execz") @@
  (9 :> "s_cbranch_execnz") @@ (12 :> "s_waitcnt")

SMEMCommon ==
  (0 :> "s_load_dword") @@ (1 :> "s_load_dwordx2") @@ (2 :> "s_load_dwordx4") @@
  (3 :> "s_load_dwordx8") @@ (4 :> "s_load_dwordx16")

VOP1Common ==
  (1 :> "v_mov_b32") @@ (2 :> "v_readfirstlane_b32") @@ (4 :> "v_cvt_f64_i32") @@ (5 :> "v_cvt_f32_i32") @@
  (6 :> "v_cvt_f32_u32") @@ (7 :> "v_cvt_u32_f32") @@ (8 :> "v_cvt_i32_f32") @@ (10 :> "v_cvt_f16_f32") @@
  (15 :> "v_cvt_f32_f64") @@ (16 :> "v_cvt_f64_f32") @@ (17 :> "v_cvt_f32_ubyte0") @@ (22 :> "v_cvt_f64_u32") @@
  (28 :> "v_trunc_f32") @@ (30 :> "v_rndne_f32") @@ (32 :> "v_exp_f32") @@ (33 :> "v_log_f32") @@
  (34 :> "v_rcp_f32") @@ (35 :> "v_rcp_iflag_f32") @@ (36 :> "v_rsq_f32") @@ (37 :> "v_rcp_f64") @@
  (39 :> "v_sqrt_f32") @@ (43 :> "v_not_b32") @@ (44 :> "v_bfrev_b32") @@ (45 :> "v_ffbh_u32")
VOP1GCN3  == VOP1Common @@ (56 :> "v_movrelsd_b32") @@ (76 :> "v_log_legacy_f32")
VOP1CDNA3 == VOP1Common @@ (56 :> "v_mov_b64")

VOP2Common ==
  (0 :> "v_cndmask_b32") @@ (1 :> "v_add_f32") @@ (2 :> "v_sub_f32") @@ (3 :> "v_subrev_f32") @@
  (5 :> "v_mul_f32") @@ (6 :> "v_mul_i32_i24") @@ (8 :> "v_mul_u32_u24") @@ (10 :> "v_min_f32") @@
  (11 :> "v_max_f32") @@ (12 :> "v_min_i32") @@ (13 :> "v_max_i32") @@ (14 :> "v_min_u32") @@
  (15 :> "v_max_u32") @@ (16 :> "v_lshrrev_b32") @@ (17 :> "v_ashrrev_i32") @@ (18 :> "v_lshlrev_b32") @@
  (19 :> "v_and_b32") @@ (20 :> "v_or_b32") @@ (21 :> "v_xor_b32") @@ (42 :> "v_lshlrev_b16")
\* GCN3: 25..30 write (and 28..30 read) VCC; they are called V_ADD_U32 ... in the GCN3 manual.
VOP2GCN3 == VOP2Common @@ (4 :> "v_mul_legacy_f32") @@ (22 :> "v_mac_f32") @@ (23 :> "v_madmk_f32") @@
  (24 :> "v_madak_f32") @@ (25 :> "v_add_co_u32") @@ (26 :> "v_sub_co_u32") @@ (27 :> "v_subrev_co_u32") @@
  (28 :> "v_addc_co_u32") @@ (29 :> "v_subb_co_u32") @@ (30 :> "v_subbrev_co_u32")
VOP2CDNA3 == VOP2Common @@ (23 :> "v_fmamk_f32") @@ (24 :> "v_fmaak_f32") @@
  (25 :> "v_add_co_u32") @@ (26 :> "v_sub_co_u32") @@ (27 :> "v_subrev_co_u32") @@
  (28 :> "v_addc_co_u32") @@ (29 :> "v_subb_co_u32") @@ (30 :> "v_subbrev_co_u32") @@
  (38 :> "v_add_u16") @@ (52 :> "v_add_u32") @@ (53 :> "v_sub_u32") @@ (54 :> "v_subrev_u32") @@ (59 :> "v_fmac_f32")

VOPCCommon ==
  (65 :> "v_cmp_lt_f32") @@ (66 :> "v_cmp_eq_f32") @@ (67 :> "v_cmp_le_f32") @@ (68 :> "v_cmp_gt_f32") @@
  (69 :> "v_cmp_lg_f32") @@ (70 :> "v_cmp_ge_f32") @@ (71 :> "v_cmp_o_f32") @@ (72 :> "v_cmp_u_f32") @@
  (73 :> "v_cmp_nge_f32") @@ (74 :> "v_cmp_nlg_f32") @@ (75 :> "v_cmp_ngt_f32") @@ (76 :> "v_cmp_nle_f32") @@
  (77 :> "v_cmp_neq_f32") @@ (78 :> "v_cmp_nlt_f32") @@
  (193 :> "v_cmp_lt_i32") @@ (194 :> "v_cmp_eq_i32") @@ (195 :> "v_cmp_le_i32") @@ (196 :> "v_cmp_gt_i32") @@
  (197 :> "v_cmp_ne_i32") @@ (198 :> "v_cmp_ge_i32") @@
  (201 :> "v_cmp_lt_u32") @@ (202 :> "v_cmp_eq_u32") @@ (203 :> "v_cmp_le_u32") @@ (204 :> "v_cmp_gt_u32") @@
  (205 :> "v_cmp_ne_u32") @@ (206 :> "v_cmp_ge_u32") @@
  (232 :> "v_cmp_f_u64") @@ (233 :> "v_cmp_lt_u64") @@ (234 :> "v_cmp_eq_u64") @@ (235 :> "v_cmp_le_u64") @@
  (236 :> "v_cmp_gt_u64") @@ (237 :> "v_cmp_ne_u64") @@ (238 :> "v_cmp_ge_u64") @@ (239 :> "v_cmp_t_u64")
VOPCCDNA3 == VOPCCommon @@ (16 :> "v_cmp_class_f32") @@ (164 :> "v_cmp_gt_i16")

\* VOP3 encodings of VOPC opcodes keep the number; VOP2 opcodes are at 256 + n.
VOP3Common == VOPCCommon @@
  (256 :> "v_cndmask_b32") @@ (258 :> "v_sub_f32") @@ (261 :> "v_mul_f32") @@
  (450 :> "v_mad_i32_i24") @@ (451 :> "v_mad_u32_u24") @@ (456 :> "v_bfe_u32") @@ (457 :> "v_bfe_i32") @@
  (459 :> "v_fma_f32") @@ (460 :> "v_fma_f64") @@
  (464 :> "v_min3_f32") @@ (465 :> "v_min3_i32") @@ (466 :> "v_min3_u32") @@ (467 :> "v_max3_f32") @@
  (468 :> "v_max3_i32") @@ (469 :> "v_max3_u32") @@ (470 :> "v_med3_f32") @@ (471 :> "v_med3_i32") @@
  (472 :> "v_med3_u32") @@ (478 :> "v_div_fixup_f32") @@ (479 :> "v_div_fixup_f64") @@
  (482 :> "v_div_fmas_f32") @@ (483 :> "v_div_fmas_f64") @@ (488 :> "v_mad_u64_u32") @@
  (640 :> "v_add_f64") @@ (641 :> "v_mul_f64") @@ (645 :> "v_mul_lo_u32") @@ (646 :> "v_mul_hi_u32") @@
  (655 :> "v_lshlrev_b64") @@ (656 :> "v_lshrrev_b64") @@ (657 :> "v_ashrrev_i64")
VOP3GCN3  == VOP3Common @@ (449 :> "v_mad_f32")
VOP3CDNA3 == VOP3Common @@ (16 :> "v_cmp_class_f32") @@
  (509 :> "v_lshl_add_u32") @@ (510 :> "v_add_lshl_u32") @@ (511 :> "v_add3_u32") @@ (512 :> "v_lshl_or_b32") @@
  (520 :> "v_lshl_add_u64") @@ (944 :> "v_pk_fma_f32") @@ (945 :> "v_pk_mul_f32") @@ (946 :> "v_pk_add_f32")

VOP3bCommon ==
  (281 :> "v_add_co_u32") @@ (282 :> "v_sub_co_u32") @@ (283 :> "v_subrev_co_u32") @@
  (284 :> "v_addc_co_u32") @@ (285 :> "v_subb_co_u32") @@ (286 :> "v_subbrev_co_u32") @@
  (480 :> "v_div_scale_f32") @@ (481 :> "v_div_scale_f64")

DSCommon ==
  (13 :> "ds_write_b32") @@ (14 :> "ds_write2_b32") @@ (30 :> "ds_write_b8") @@ (54 :> "ds_read_b32") @@
  (55 :> "ds_read2_b32") @@ (77 :> "ds_write_b64") @@ (78 :> "ds_write2_b64") @@ (118 :> "ds_read_b64") @@
  (119 :> "ds_read2_b64")
DSCDNA3 == DSCommon @@ (223 :> "ds_write_b128") @@ (255 :> "ds_read_b128")

FLATCommon ==
  (16 :> "flat_load_ubyte") @@ (17 :> "flat_load_sbyte") @@ (18 :> "flat_load_ushort") @@
  (19 :> "flat_load_sshort") @@ (20 :> "flat_load_dword") @@ (21 :> "flat_load_dwordx2") @@
  (22 :> "flat_load_dwordx3") @@ (23 :> "flat_load_dwordx4") @@ (28 :> "flat_store_dword") @@
  (29 :> "flat_store_dwordx2") @@ (30 :> "flat_store_dwordx3") @@ (31 :> "flat_store_dwordx4")

Tab == [gcn3 |-> [SOP2 |-> SOP2Common, SOP1 |-> SOP1Common, SOPC |-> SOPCCommon, SOPK |-> SOPKCommon,
                  SOPP |-> SOPPCommon, SMEM |-> SMEMCommon, VOP1 |-> VOP1GCN3, VOP2 |-> VOP2GCN3,
                  VOPC |-> VOPCCommon, VOP3a |-> VOP3GCN3, VOP3b |-> VOP3bCommon, DS |-> DSCommon,
                  FLAT |-> FLATCommon],
        cdna3 |-> [SOP2 |-> SOP2CDNA3, SOP1 |-> SOP1Common, SOPC |-> SOPCCommon, SOPK |-> SOPKCommon,
                  SOPP |-> SOPPCommon, SMEM |-> SMEMCommon, VOP1 |-> VOP1CDNA3, VOP2 |-> VOP2CDNA3,
                  VOPC |-> VOPCCDNA3, VOP3a |-> VOP3CDNA3, VOP3b |-> VOP3bCommon, DS |-> DSCDNA3,
                  FLAT |-> FLATCommon]]

\* "?" = the manual of this architecture does not define the opcode
OpName(arch, f, op) == LET t == Tab[arch][f] IN IF op \in DOMAIN t THEN t[op] ELSE "?"
=============================================================================
