SPECIFICATION Spec
CONSTANTS
  LB = 4
  Stride = 5
  N = 2
INVARIANTS OkConv OkAdd OkSub OkNeg OkOvf OkCmp OkMul OkShift OkBits OkBfe
CHECK_DEADLOCK FALSE
