------------------------------ MODULE MC_Limbs ------------------------------
(* Exhaustive check of Limbs against TLC's native integers on 8-bit words:  *)
(* LB = 4 with 2 limbs and LB = 2 with 4 limbs (same operator text as the   *)
(* 16-bit-limb instance used by the ISA specification).                     *)
EXTENDS Limbs, TLC
CONSTANTS N,                     \* limbs per word; N * LB = 8
          Stride                 \* 1 = every 8-bit value; k > 1 = multiples of k plus the boundary values (quick tier)
VARIABLES x, y
W == N * LB
M == 2^W                         \* 256
Wd(v) == FromNat(v, N)
SVal(v) == IF v >= M \div 2 THEN v - M ELSE v      \* signed value of an 8-bit pattern
UPat(s) == (s + 2 * M) % M

\* 256 initial states, each with 256 successors (so that the workers share the load);
\* operators that do not depend on y are checked on the states with y = 0 only.
Sel == {v \in 0..(M - 1) : v % Stride = 0 \/ v \in {1, 2, M \div 2 - 1, M \div 2, M \div 2 + 1, M - 2, M - 1, 15, 16, 17}}
Init == x \in Sel /\ y = 0
Next == y = 0 /\ y' \in Sel \ {0} /\ UNCHANGED x
Spec == Init /\ [][Next]_<<x, y>>
KS == 0..(W - 1)

a == Wd(x)
b == Wd(y)
RECURSIVE NatAnd(_, _, _)
NatAnd(p, q, i) == IF i = W THEN 0 ELSE (((p \div 2^i) % 2) * ((q \div 2^i) % 2)) * 2^i + NatAnd(p, q, i + 1)
RECURSIVE NatRev(_, _)
NatRev(p, i) == IF i = W THEN 0 ELSE ((p \div 2^i) % 2) * 2^(W - 1 - i) + NatRev(p, i + 1)
RECURSIVE NatPop(_, _)
NatPop(p, i) == IF i = W THEN 0 ELSE ((p \div 2^i) % 2) + NatPop(p, i + 1)
Lowest1(p) == IF p = 0 THEN -1 ELSE CHOOSE i \in 0..(W - 1) : (p \div 2^i) % 2 = 1 /\ \A j \in 0..(i - 1) : (p \div 2^j) % 2 = 0
Highest1(p) == IF p = 0 THEN -1 ELSE CHOOSE i \in 0..(W - 1) : (p \div 2^i) % 2 = 1 /\ \A j \in (i + 1)..(W - 1) : (p \div 2^j) % 2 = 0
FloorDiv(p, d) == IF p >= 0 THEN p \div d ELSE -(((-p) + d - 1) \div d)

OkConv  == /\ ToNat(a) = x /\ IsWord(a, N)
           /\ ToNat(SExt(Wd(x), 2 * N)) = (IF x >= M \div 2 THEN x + (M * M - M) ELSE x)
           /\ ToNat(ZExt(a, 2 * N)) = x
           /\ \A k \in 0..(B - 1) : ToNat(FromInt(k, N)) = k /\ ToNat(FromInt(-k, N)) = UPat(-k)
OkAdd   == \A c \in 0..1 : LET r == Add(a, b, c) IN ToNat(r.v) = (x + y + c) % M /\ r.c = (x + y + c) \div M
OkSub   == \A c \in 0..1 : LET r == Sub(a, b, c) IN ToNat(r.v) = (x - y - c + 2 * M) % M /\ r.c = (IF x < y + c THEN 1 ELSE 0)
OkNeg   == ToNat(Neg(a)) = (M - x) % M /\ ToNat(Inv(a)) = M - 1 - x
OkOvf   == /\ AddOvf(a, b, Add(a, b, 0).v) = (SVal(x) + SVal(y) \notin (-(M \div 2))..(M \div 2 - 1))
           /\ SubOvf(a, b, Sub(a, b, 0).v) = (SVal(x) - SVal(y) \notin (-(M \div 2))..(M \div 2 - 1))
OkCmp   == /\ Ult(a, b) = (x < y) /\ Ule(a, b) = (x <= y)
           /\ Slt(a, b) = (SVal(x) < SVal(y)) /\ Sle(a, b) = (SVal(x) <= SVal(y))
           /\ ToNat(UMin(a, b)) = (IF x < y THEN x ELSE y) /\ ToNat(UMax(a, b)) = (IF x < y THEN y ELSE x)
           /\ ToNat(SMin(a, b)) = (IF SVal(x) < SVal(y) THEN x ELSE y)
           /\ ToNat(SMax(a, b)) = (IF SVal(x) < SVal(y) THEN y ELSE x)
           /\ ToNat(Abs(a)) = UPat(IF SVal(x) < 0 THEN -SVal(x) ELSE SVal(x))
OkMul   == /\ ToNat(Mul(a, b)) = x * y
           /\ ToNat(MulLo(a, b)) = (x * y) % M /\ ToNat(MulHiU(a, b)) = (x * y) \div M
           /\ ToNat(MulS(a, b)) = (SVal(x) * SVal(y) + M * M) % (M * M)
           /\ ToNat(MulHiS(a, b)) = UPat(FloorDiv(SVal(x) * SVal(y), M))
OkShift == y = 0 => \A k \in KS :
           /\ ToNat(Shl(a, k)) = (x * 2^k) % M
           /\ ToNat(Shr(a, k)) = x \div 2^k
           /\ ToNat(Sar(a, k)) = UPat(FloorDiv(SVal(x), 2^k))
OkBits  == /\ ToNat(WAnd(a, b)) = NatAnd(x, y, 0)
           /\ ToNat(WOr(a, b)) = x + y - NatAnd(x, y, 0)
           /\ ToNat(WXor(a, b)) = x + y - 2 * NatAnd(x, y, 0)
           /\ ToNat(WAndN2(a, b)) = x - NatAnd(x, y, 0)
           /\ (y = 0 => \A k \in KS, c \in 0..1 :
                 /\ Bit(a, k) = (x \div 2^k) % 2
                 /\ ToNat(MaskLow(k, N)) = 2^k - 1 /\ ToNat(MaskLow(W, N)) = M - 1
                 /\ ToNat(SetBit(a, k, c)) = x - ((x \div 2^k) % 2) * 2^k + c * 2^k)
           /\ Popcount(a) = NatPop(x, 0)
           /\ FindLow1(a) = Lowest1(x)
           /\ FindHigh1(a) = (IF x = 0 THEN -1 ELSE W - 1 - Highest1(x))
           /\ ToNat(Brev(a)) = NatRev(x, 0)
\* bit-field extract: offset k, width y % (W+1)
OkBfe   == y <= W => \A k \in KS :
           LET w == y
               avail == IF k + w > W THEN W - k ELSE w
               fld == (x \div 2^k) % 2^avail
           IN /\ ToNat(BfeU(a, k, w)) = (x \div 2^k) % 2^w
              /\ ToNat(BfeS(a, k, w)) = (IF avail = 0 THEN 0
                                         ELSE IF fld >= 2^(avail - 1) THEN fld + M - 2^avail ELSE fld)
=============================================================================
