------------------------------ MODULE ISAScen ------------------------------
(***************************************************************************)
(* Specification -> code.  Every state of a `tlc -simulate` behaviour is a *)
(* test the specification chose and solved: (architecture, format, opcode, *)
(* operand values from the corner set, SCC / carry-in, EXEC) together with *)
(* the result the ISA prescribes (`exp`).  The check turns the states into *)
(* driver cases, executes them on the real ALUs and compares the observed  *)
(* destination / SCC / lane mask with `exp`; the driver's records are also *)
(* validated by ISATrace.                                                  *)
(***************************************************************************)
EXTENDS MC_ISA
VARIABLE act

Archs == {"gcn3", "cdna3"}
\* opcodes both ALUs implement (harness/cmd/c03/table.go) for the formats enumerated here
ScalarOps ==
  {<<"SOP2", op, 32>> : op \in {0, 1, 2, 3, 4, 5, 6, 7, 8, 9, 10, 12, 16, 28, 30, 32, 34, 36, 38}}
  \cup {<<"SOP2", op, 64>> : op \in {13, 15, 17, 19}}
  \cup {<<"SOP2", op, 96>> : op \in {29, 31}}          \* 64-bit value, 32-bit shift amount
  \cup {<<"SOP1", op, 32>> : op \in {0, 4, 8, 48}} \cup {<<"SOP1", 1, 64>>}
  \cup {<<"SOPC", op, 32>> : op \in {0, 1, 2, 3, 4, 5, 6, 7, 8, 10}}
VectorOps ==
  {<<"VOP2", op>> : op \in {6, 8, 12, 13, 14, 15, 16, 17, 18, 19, 20, 21, 25, 26, 27, 28, 29, 30}}
  \cup {<<"VOP3a", op>> : op \in {450, 451, 456, 457, 465, 466, 468, 469, 471, 472, 645, 646}}
Execs == {<<65535, 65535, 65535, 65535>>, <<1, 0, 0, 0>>, <<43690, 43690, 21845, 21845>>, <<0, 0, 0, 32768>>,
          <<65534, 65535, 65535, 32767>>}

ScalarCase(arch, o, x, y, scc) ==
  LET w == o[3]
      xx == IF w >= 64 THEN x \o y ELSE x
      yy == IF w = 64 THEN y \o x ELSE y
      rec == [SRec(arch, o[1], o[2], xx, yy, scc) EXCEPT !.d = [c |-> 20, n |-> (IF w >= 64 THEN 2 ELSE 1),
                                                               pre |-> IF w >= 64 THEN Z64 ELSE Z32,
                                                               post |-> IF w >= 64 THEN Z64 ELSE Z32]]
      r == ScalarSem(rec)
  IN [a |-> "Case", k |-> "s", arch |-> arch, f |-> o[1], op |-> o[2], s0 |-> xx, s1 |-> yy, scc |-> scc,
      exp |-> [d |-> r.d, scc |-> r.scc]]

VectorCase(arch, o, i, j, ex, vcc) ==
  LET rec == VRec(arch, o[1], o[2], i, j, ex, vcc)
      nm == OpName(arch, o[1], o[2])
      R == [k \in Lanes |-> IF ExecBit(rec.pre, k) = 1 THEN VecSem(nm, rec, k) ELSE [d |-> rec.d.pre[k], cc |-> 0]]
  IN [a |-> "Case", k |-> "v", arch |-> arch, f |-> o[1], op |-> o[2],
      s0 |-> rec.s0.r, s1 |-> rec.s1.r, s2 |-> rec.s2.r, dpre |-> rec.d.pre, exec |-> ex, vcc |-> vcc,
      exp |-> [d |-> [k \in Lanes |-> R[k].d], mask |-> MaskOf([k \in Lanes |-> R[k].cc]),
               carry |-> nm \in CarryOutNames]]

Pick(S) == RandomElement(S)
NextCase ==
  IF RandomElement({0, 1, 2}) # 0
  THEN ScalarCase(Pick(Archs), Pick(ScalarOps), C32[Pick(1..Len(C32))], C32[Pick(1..Len(C32))], Pick({0, 1}))
  ELSE VectorCase(Pick(Archs), Pick(VectorOps), Pick(1..Len(C32)), Pick(1..Len(C32)), Pick(Execs), Pick(Execs))

NextCaseV == VectorCase(Pick(Archs), Pick(VectorOps), Pick(1..Len(C32)), Pick(1..Len(C32)), Pick(Execs), Pick(Execs))

SInit == act = [a |-> "Init"] /\ a = 1 /\ b = 1 /\ ci = 0
SNext == act' = NextCase /\ UNCHANGED vars
SSpec == SInit /\ [][SNext]_<<act, vars>>
\* vector cases only (C06: partial EXEC masks)
SNextV == act' = NextCaseV /\ UNCHANGED vars
SSpecV == SInit /\ [][SNextV]_<<act, vars>>
=============================================================================
