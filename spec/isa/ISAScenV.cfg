SPECIFICATION SSpecV
CONSTANTS
  LB = 16
  NC = 12
CHECK_DEADLOCK FALSE
