SPECIFICATION Spec
CONSTANTS
  LB = 16
  NC = 26
INVARIANTS AddSubInverse CarryChain ShiftMask MinMaxLaws LogicLaws BranchLaws VecLaws LaneWise FloatLaws ModifierLaws WellFormed
CHECK_DEADLOCK FALSE
