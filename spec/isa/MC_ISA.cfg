SPECIFICATION Spec
CONSTANTS
  LB = 16
  NC = 12
INVARIANTS AddSubInverse CarryChain ShiftMask MinMaxLaws LogicLaws BranchLaws VecLaws LaneWise FloatLaws ModifierLaws WellFormed
CHECK_DEADLOCK FALSE
