------------------------------- MODULE Limbs -------------------------------
(***************************************************************************)
(* Machine words as little-endian sequences of LB-bit limbs (w[1] is the   *)
(* least significant limb).  TLC integers are 32-bit, so a 32-bit word is  *)
(* <<lo16, hi16>> and a 64-bit word is four 16-bit limbs (LB = 16).  Every *)
(* operator is parametric in LB and in the number of limbs, so the same    *)
(* text is model-checked exhaustively against TLC's native integers with   *)
(* LB = 4 (2 limbs = 8-bit words) and LB = 2 (4 limbs) in MC_Limbs.        *)
(* No intermediate value exceeds 2^31 - 1 for LB <= 16.                    *)
(***************************************************************************)
EXTENDS Integers, Sequences, Bitwise

CONSTANT LB                      \* bits per limb (even, <= 16)

B  == 2^LB                       \* limb base
HB == 2^(LB \div 2)              \* half-limb base (for products)
TOP == B \div 2                  \* sign bit of a limb

Pow2(k) == 2^k                   \* k <= 30

NL(w) == Len(w)                  \* number of limbs
Width(w) == Len(w) * LB

Zero(n) == [i \in 1..n |-> 0]
Ones(n) == [i \in 1..n |-> B - 1]
One(n)  == [i \in 1..n |-> IF i = 1 THEN 1 ELSE 0]

IsWord(w, n) == /\ Len(w) = n /\ \A i \in 1..n : w[i] \in 0..(B - 1)

\* ------------------------------------------------------------ conversions
\* value of a word as a TLC integer (only for words narrower than 31 bits)
RECURSIVE ToNatR(_, _)
ToNatR(w, i) == IF i > Len(w) THEN 0 ELSE w[i] + B * ToNatR(w, i + 1)
ToNat(w) == ToNatR(w, 1)

\* n-limb word of a non-negative TLC integer (truncating)
RECURSIVE FromNat(_, _)
FromNat(x, n) == IF n = 0 THEN <<>> ELSE <<x % B>> \o FromNat(x \div B, n - 1)
\* n-limb two's complement word of a small TLC integer (|x| < B)
FromInt(x, n) == IF x >= 0 THEN [i \in 1..n |-> IF i = 1 THEN x % B ELSE 0]
                 ELSE [i \in 1..n |-> IF i = 1 THEN (B + x) % B ELSE B - 1]

Trunc(w, n) == SubSeq(w, 1, n)
ZExt(w, n)  == [i \in 1..n |-> IF i <= Len(w) THEN w[i] ELSE 0]
Sign(w)     == w[Len(w)] \div TOP
SExt(w, n)  == [i \in 1..n |-> IF i <= Len(w) THEN w[i] ELSE IF Sign(w) = 1 THEN B - 1 ELSE 0]
Cat(lo, hi) == lo \o hi          \* hi:lo

IsZero(w) == \A i \in 1..Len(w) : w[i] = 0

\* ------------------------------------------------------------- arithmetic
RECURSIVE AddR(_, _, _, _)
AddR(a, b, c, i) ==              \* limbs i..n of a+b+c followed by the carry out
  IF i > Len(a) THEN <<c>>
  ELSE LET s == a[i] + b[i] + c IN <<s % B>> \o AddR(a, b, s \div B, i + 1)
Add(a, b, cin) == LET r == AddR(a, b, cin, 1)
                  IN [v |-> SubSeq(r, 1, Len(a)), c |-> r[Len(a) + 1]]
Inv(a) == [i \in 1..Len(a) |-> B - 1 - a[i]]
\* a - b - bin; c = 1 iff a borrow out occurred (unsigned a < b + bin)
Sub(a, b, bin) == LET r == Add(a, Inv(b), 1 - bin) IN [v |-> r.v, c |-> 1 - r.c]
Neg(a) == Sub(Zero(Len(a)), a, 0).v
Plus(a, b)  == Add(a, b, 0).v
Minus(a, b) == Sub(a, b, 0).v

\* signed overflow of a + b (+cin) and a - b
AddOvf(a, b, r) == Sign(a) = Sign(b) /\ Sign(r) # Sign(a)
SubOvf(a, b, r) == Sign(a) # Sign(b) /\ Sign(r) # Sign(a)

Ult(a, b) == Sub(a, b, 0).c = 1
Ule(a, b) == ~Ult(b, a)
Slt(a, b) == IF Sign(a) # Sign(b) THEN Sign(a) = 1 ELSE Ult(a, b)
Sle(a, b) == ~Slt(b, a)
UMin(a, b) == IF Ult(a, b) THEN a ELSE b
UMax(a, b) == IF Ult(a, b) THEN b ELSE a
SMin(a, b) == IF Slt(a, b) THEN a ELSE b
SMax(a, b) == IF Slt(a, b) THEN b ELSE a
Abs(a) == IF Sign(a) = 1 THEN Neg(a) ELSE a

\* product of two limbs as <<lo, hi>> without leaving 31 bits
MulLimb(x, y) ==
  LET yl == y % HB
      yh == y \div HB
      p0 == x * yl               \* < B*HB
      p1 == x * yh               \* < B*HB
      t  == p0 + (p1 % HB) * HB  \* < 2*B*HB
  IN <<t % B, (p1 \div HB) + (t \div B)>>

\* full product, Len(a)+Len(b) limbs (unsigned)
RECURSIVE MulCol(_, _, _, _, _)
MulCol(a, b, P, k, c) ==         \* columns k..na+nb, c = carry into column k
  LET na == Len(a)
      nb == Len(b)
      lo == {<<i, j>> \in (1..na) \X (1..nb) : i + j = k + 1}
      hi == {<<i, j>> \in (1..na) \X (1..nb) : i + j = k}
  IN IF k > na + nb THEN <<>>
     ELSE LET RECURSIVE SumS(_, _)
              SumS(S, h) == IF S = {} THEN 0
                            ELSE LET e == CHOOSE e \in S : TRUE
                                 IN P[e[1]][e[2]][h] + SumS(S \ {e}, h)
              s == SumS(lo, 1) + SumS(hi, 2) + c
          IN <<s % B>> \o MulCol(a, b, P, k + 1, s \div B)
Mul(a, b) == LET P == [i \in 1..Len(a) |-> [j \in 1..Len(b) |-> MulLimb(a[i], b[j])]]
             IN MulCol(a, b, P, 1, 0)
MulLo(a, b) == Trunc(Mul(a, b), Len(a))
MulHiU(a, b) == SubSeq(Mul(a, b), Len(a) + 1, 2 * Len(a))
\* signed full product (2n limbs) via sign-extension to 2n limbs, truncated
MulS(a, b) == LET n == Len(a) IN Trunc(Mul(SExt(a, 2 * n), SExt(b, 2 * n)), 2 * n)
MulHiS(a, b) == SubSeq(MulS(a, b), Len(a) + 1, 2 * Len(a))

\* ------------------------------------------------------------------ shifts
Get(a, j, fill) == IF j >= 1 /\ j <= Len(a) THEN a[j] ELSE fill
\* k in 0..Width(a)-1 (callers mask the amount as the ISA prescribes)
Shl(a, k) == LET q == k \div LB
                 r == k % LB
                 P == Pow2(r)
             IN [i \in 1..Len(a) |-> IF i - q < 1 THEN 0
                                      ELSE ((a[i - q] * P) % B) + ((Get(a, i - q - 1, 0) * P) \div B)]
ShrF(a, k, fill) == LET q == k \div LB
                        r == k % LB
                        P == Pow2(r)
                    IN [i \in 1..Len(a) |-> (Get(a, i + q, fill) \div P)
                                            + (Get(a, i + q + 1, fill) % P) * (B \div P)]
Shr(a, k) == ShrF(a, k, 0)
Sar(a, k) == ShrF(a, k, IF Sign(a) = 1 THEN B - 1 ELSE 0)

\* --------------------------------------------------------------- bitwise
WAnd(a, b) == [i \in 1..Len(a) |-> a[i] & b[i]]
WOr(a, b)  == [i \in 1..Len(a) |-> a[i] | b[i]]
WXor(a, b) == [i \in 1..Len(a) |-> a[i] ^^ b[i]]
WAndN2(a, b) == WAnd(a, Inv(b))
WOrN2(a, b)  == WOr(a, Inv(b))

Bit(a, k) == (a[(k \div LB) + 1] \div Pow2(k % LB)) % 2          \* k in 0..Width-1
\* word with the low m bits set, m in 0..Width
MaskLow(m, n) == [i \in 1..n |-> IF m >= i * LB THEN B - 1
                                  ELSE IF m <= (i - 1) * LB THEN 0
                                  ELSE Pow2(m - (i - 1) * LB) - 1]
SetBit(a, k, v) == [i \in 1..Len(a) |->
                      IF i # (k \div LB) + 1 THEN a[i]
                      ELSE LET p == Pow2(k % LB)
                               cur == (a[i] \div p) % 2
                           IN a[i] - cur * p + v * p]

RECURSIVE PopLimb(_, _)
PopLimb(x, j) == IF j = LB THEN 0 ELSE ((x \div Pow2(j)) % 2) + PopLimb(x, j + 1)
RECURSIVE PopR(_, _)
PopR(a, i) == IF i > Len(a) THEN 0 ELSE PopLimb(a[i], 0) + PopR(a, i + 1)
Popcount(a) == PopR(a, 1)

\* index (from the LSB) of the lowest set bit, or -1
RECURSIVE CtzR(_, _)
CtzR(a, k) == IF k = Width(a) THEN -1 ELSE IF Bit(a, k) = 1 THEN k ELSE CtzR(a, k + 1)
FindLow1(a) == CtzR(a, 0)
\* number of leading zero bits (count from the MSB to the first 1), or -1 if a = 0
RECURSIVE ClzR(_, _)
ClzR(a, k) == IF k < 0 THEN -1 ELSE IF Bit(a, k) = 1 THEN Width(a) - 1 - k ELSE ClzR(a, k - 1)
FindHigh1(a) == ClzR(a, Width(a) - 1)

RECURSIVE BrevLimb(_, _)
BrevLimb(x, j) == IF j = LB THEN 0 ELSE ((x \div Pow2(j)) % 2) * Pow2(LB - 1 - j) + BrevLimb(x, j + 1)
Brev(a) == [i \in 1..Len(a) |-> BrevLimb(a[Len(a) + 1 - i], 0)]

\* unsigned / signed bit-field extract: width w (0..Width), offset o (0..Width-1)
BfeU(a, o, w) == WAnd(Shr(a, o), MaskLow(w, Len(a)))
BfeS(a, o, w) ==
  LET W == Width(a)
      ww == IF o + w > W THEN W - o ELSE w     \* bits actually available
      u == BfeU(a, o, ww)
  IN IF ww = 0 THEN Zero(Len(a))
     ELSE IF Bit(u, ww - 1) = 1 THEN WOr(u, Inv(MaskLow(ww, Len(a)))) ELSE u
=============================================================================
