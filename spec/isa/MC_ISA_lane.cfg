SPECIFICATION Spec
CONSTANTS
  LB = 16
  NC = 10
INVARIANTS VecLaws LaneWise
CHECK_DEADLOCK FALSE
