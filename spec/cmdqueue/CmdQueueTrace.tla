--------------------------- MODULE CmdQueueTrace ---------------------------
(***************************************************************************)
(* Trace specification for the controlled executions of the real driver    *)
(* (harness/cmd/c12): one line per granted step, carrying which thread     *)
(* moved, from which yield point, and the projection of the resulting      *)
(* state (every thread's position, queue lengths, engineRunning, whether   *)
(* an event is pending).  A line is explained iff some CmdQueue action of  *)
(* that thread from that pc yields exactly the logged projection.          *)
(* "Hang" / "Livelock" lines (no thread can be granted a step although an  *)
(* application thread has not returned) have no matching action.           *)
(***************************************************************************)
EXTENDS CmdQueue, TraceLib, Json

TraceLog == ndJsonDeserialize("trace.ndjson")
N == Len(TraceLog)
VARIABLE l
tvars == <<vars, l>>
ASSUME HWInit

Ev == TraceLog[l]
Is(e) == l <= N /\ Ev.e = e /\ l' = l + 1

EpcOf(r) == IF r.epc = <<>> THEN "none" ELSE r.epc[1]
InTick(p) == p \in {"scan", "deq", "deqNotify"}

\* the logged projection r describes the (next) state
MatchNext(r) ==
  /\ Len(r.epc) <= 1
  /\ apc' = [a \in Apps |-> r.apc[a]]
  /\ rpc' = r.rpc
  /\ epc' = EpcOf(r)
  /\ (InTick(epc') => /\ eq' \in 1..Len(qorder')
                        /\ qorder'[eq'] = r.eqa
                        /\ r.eql = (\A j \in (eq'+1)..Len(qorder') : qorder'[j] # qorder'[eq']))
  /\ Len(qorder') = r.nq
  /\ tp'.running = [a \in Apps |-> r.isrun[a]]
  /\ Cardinality({a \in Apps : tp'.stage[a] = "sent"}) = r.gout
  /\ {a \in Apps : tp'.stage[a] = "atgpu"} = {r.gat[i] : i \in 1..Len(r.gat)}
  /\ Len(tp'.gpuIn) = r.gin
  /\ \A a \in Apps : Len(cmds'[a]) = r.len[a]
  /\ engineRunning' = r.run
  /\ tickScheduled' = (r.ev > 0)

MatchNow(r) ==
  /\ Len(r.epc) <= 1
  /\ apc = [a \in Apps |-> r.apc[a]]
  /\ rpc = r.rpc /\ epc = EpcOf(r)
  /\ \A a \in Apps : Len(cmds[a]) = r.len[a]
  /\ Len(qorder) = r.nq
  /\ tp.running = [a \in Apps |-> r.isrun[a]]
  /\ engineRunning = r.run /\ tickScheduled = (r.ev > 0)

TStart == Is("Start") /\ MatchNow(Ev) /\ UNCHANGED vars

TStep ==
  /\ Is("Step")
  /\ \/ Ev.t = "app" /\ Ev.a \in Apps /\ apc[Ev.a] = Ev.from /\ AppNext(Ev.a)
     \/ Ev.t = "ra" /\ rpc = Ev.from /\ RANext
     \/ Ev.t = "eng" /\ epc = Ev.from /\ ENext
     \/ Ev.t = "gpu" /\ Ev.from = "take" /\ GPUTake /\ Head(tp.outq) = Ev.a
     \/ Ev.t = "gpu" /\ Ev.from = "answer" /\ Ev.a \in Apps /\ GPUAnswer(Ev.a)
  /\ MatchNext(Ev)

\* every application thread returned from its last DrainCommandQueue: all its commands completed, in order
TDone == Is("Done") /\ AllReturned /\ (\A a \in Apps : done[a] = issued[a]) /\ MatchNow(Ev) /\ UNCHANGED vars

TReset ==
  /\ Is("Reset") /\ Ev.na = NA /\ Ev.rounds = Rounds /\ Ev.per_round = PerRound
  /\ {Ev.temp[i] : i \in 1..Len(Ev.temp)} = TempApps
  /\ {Ev.two[i] : i \in 1..Len(Ev.two)} = TwoPhaseApps
  /\ {Ev.drainers[i] : i \in 1..Len(Ev.drainers)} = DrainOnlyApps
  /\ cmds' = [a \in Apps |-> <<>>] /\ issued' = [a \in Apps |-> <<>>] /\ done' = [a \in Apps |-> <<>>]
  /\ apc' = [a \in Apps |-> IF a \in TempApps THEN "create" ELSE IF a \in DrainOnlyApps THEN "subscribe" ELSE "enq"] /\ round' = [a \in Apps |-> 1] /\ left' = [a \in Apps |-> PerRound]
  /\ sub' = [a \in Apps |-> FALSE] /\ token' = [a \in Apps |-> FALSE]
  /\ rpc' = "select" /\ engineRunning' = FALSE /\ rerun' = FALSE
  /\ epc' = "none" /\ eq' = 1 /\ eprog' = FALSE /\ pauseLock' = "free" /\ tickScheduled' = FALSE
  /\ qorder' = SetToSortedSeq(OwnApps)
  /\ tp' = TPInit

TNext == TStart \/ TStep \/ TDone \/ TReset
TSpec == Init /\ l = 1 /\ [][TNext]_tvars

Mark == HWNote(l)
Accepted == HWReport(N)
=============================================================================
