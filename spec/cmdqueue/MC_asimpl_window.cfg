SPECIFICATION Spec
CONSTANTS
  NA = 1
  Rounds = 2
  PerRound = 1
  NotifyMode = "token"
  TempApps = {}
  TwoPhaseApps = {}
  DrainOnlyApps = {}
  ExitMode = "window"
INVARIANTS FIFO DrainSound NoHang LockOK
PROPERTIES FIFOStep 
CHECK_DEADLOCK FALSE
