SPECIFICATION FairSpec
CONSTANTS
  NA = 1
  Rounds = 2
  PerRound = 2
  NotifyMode = "token"
  TempApps = {}
  TwoPhaseApps = {1}
  DrainOnlyApps = {}
  ExitMode = "recheck"
INVARIANTS FIFO DrainSound NoHang LockOK OneAtATime StageOK
PROPERTIES FIFOStep DrainReturns
CHECK_DEADLOCK FALSE
