SPECIFICATION Spec
CONSTANTS
  NQ = 2
  MaxLaunch = 3
  MaxOther = 3
  Mode = "asimpl"
INVARIANT LaunchRunsResidentCode
CHECK_DEADLOCK FALSE
