SPECIFICATION TSpec
CONSTANTS
  NA = 2
  Rounds = 2
  PerRound = 2
  NotifyMode = "token"
  TempApps = {}
  TwoPhaseApps = {}
  DrainOnlyApps = {}
  ExitMode = "recheck"
INVARIANTS FIFO LockOK
CONSTRAINT Mark
POSTCONDITION Accepted
CHECK_DEADLOCK FALSE
