--------------------------- MODULE QueueMemTrace ---------------------------
(***************************************************************************)
(* Trace specification for runs of the real timing platform (driver,       *)
(* command processor, DMA engine, caches, DRAM) under harness/cmd/c12mem:  *)
(* one line per driver task boundary of a program operation                *)
(*   Reset    new platform: programs of every queue                        *)
(*   OpStart  first command of the operation starts      -> OpStart        *)
(*   Flush    a FlushReq of the operation is sent to g    -> FlushSend /    *)
(*                                                           KFlushSend     *)
(*   FlushAck it is acknowledged                          -> FlushAck       *)
(*   Data     the copy request is answered                -> CopyData       *)
(*   CodeCopied the upload of a code object has completed (trace level)    *)
(*   KLaunch  the LaunchKernelReq is sent                 -> KLaunch        *)
(*   KDone    it is answered                              -> KDone          *)
(*   OpDone   last command of the operation ends; a D2H carries the value  *)
(*            the host array holds (obs; -2 = not one value) -> OpDone      *)
(* KWrite and Evict are silent: TLC chooses where they happen; the run is  *)
(* explained iff some placement makes every delivered value the model's    *)
(* DRAM content at the copy.  Observes / D2HFresh are checked as           *)
(* invariants on the way.                                                   *)
(***************************************************************************)
EXTENDS QueueMem, TraceLib, Json

TraceLog == ndJsonDeserialize("trace.ndjson")
N == Len(TraceLog)
VARIABLES l, orig, cx,     \* cx: queue -> context of the run (from the Reset line)
          resident        \* operations <<q, i>> whose code-object upload has completed
tvars == <<vars, l, orig, cx, resident>>
ASSUME HWInit

Ev == TraceLog[l]
Is(e) == l <= N /\ Ev.e = e /\ l' = l + 1

SeqOf(x) == [i \in 1..Len(x) |-> x[i]]

TInit ==
  /\ l = 1
  /\ orig = [q \in Queues |-> <<>>]
  /\ cx = [q \in Queues |-> 1]
  /\ resident = {}
  /\ dram = [b \in Bufs |-> 100 + b] /\ expect = [b \in Bufs |-> 100 + b]
  /\ l2 = [b \in Bufs |-> Nil] /\ mark = [b \in Bufs |-> FALSE]
  /\ prog = [q \in Queues |-> <<>>]
  /\ stage = [q \in Queues |-> "idle"] /\ nf = [q \in Queues |-> FALSE]
  /\ fl = [q \in Queues |-> {}] /\ sent = [q \in Queues |-> {}]
  /\ copied = [q \in Queues |-> FALSE] /\ kr = [q \in Queues |-> "no"]
  /\ wrote = [q \in Queues |-> FALSE] /\ cap = [q \in Queues |-> Nil] /\ ok = TRUE

\* a fresh platform: every buffer holds its initial value, nothing is dirty or marked
TReset ==
  /\ Is("Reset")
  /\ Len(Ev.progs) = NQ
  /\ prog' = [q \in Queues |-> SeqOf(Ev.progs[q])]
  /\ orig' = prog'
  /\ cx' = [q \in Queues |-> IF q <= Len(Ev.ctx) THEN Ev.ctx[q] ELSE 1]
  /\ resident' = {}
  /\ \A q \in Queues : \A i \in 1..Len(prog'[q]) :
        LET o == prog'[q][i] IN
          IF o.k = "d2d" THEN {o.dst, o.src} \subseteq BufsOf[q] ELSE o.b \in BufsOf[q]
  /\ dram' = [b \in Bufs |-> 100 + b] /\ expect' = [b \in Bufs |-> 100 + b]
  /\ l2' = [b \in Bufs |-> Nil] /\ mark' = [b \in Bufs |-> FALSE]
  /\ stage' = [q \in Queues |-> "idle"] /\ nf' = [q \in Queues |-> FALSE]
  /\ fl' = [q \in Queues |-> {}] /\ sent' = [q \in Queues |-> {}]
  /\ copied' = [q \in Queues |-> FALSE] /\ kr' = [q \in Queues |-> "no"]
  /\ wrote' = [q \in Queues |-> FALSE] /\ cap' = [q \in Queues |-> Nil] /\ ok' = TRUE

Idx(q) == Len(orig[q]) - Len(prog[q]) + 1     \* 1-based index of the current / next operation of q

TOpStart == Is("OpStart") /\ Ev.q \in Queues /\ Idx(Ev.q) = Ev.i /\ OpStart(Ev.q) /\ UNCHANGED <<orig, cx, resident>>
TFlush ==
  /\ Is("Flush") /\ Ev.q \in Queues /\ Ev.g \in GPUs /\ Idx(Ev.q) = Ev.i
  /\ (FlushSend(Ev.q, Ev.g) \/ KFlushSend(Ev.q, Ev.g))
  /\ UNCHANGED <<orig, cx, resident>>
TFlushAck == Is("FlushAck") /\ Ev.q \in Queues /\ Ev.g \in GPUs /\ FlushAck(Ev.q, Ev.g) /\ UNCHANGED <<orig, cx, resident>>
TData == Is("Data") /\ Ev.q \in Queues /\ Idx(Ev.q) = Ev.i /\ CopyData(Ev.q) /\ UNCHANGED <<orig, cx, resident>>
\* the first staging command of a launch uploads the code object when the driver has no device copy for the process
\* yet; a launch (of any queue) runs the code uploaded by operation <<cq, ci>> and must not be sent before that upload
\* has completed
TCodeCopied ==
  /\ Is("CodeCopied") /\ Ev.q \in Queues /\ Idx(Ev.q) = Ev.i /\ stage[Ev.q] = "run" /\ Op(Ev.q).k = "d2d"
  /\ resident' = resident \cup {<<Ev.q, Ev.i>>}
  /\ UNCHANGED <<vars, orig, cx>>
TKLaunch ==
  /\ Is("KLaunch") /\ Ev.q \in Queues /\ Idx(Ev.q) = Ev.i
  /\ <<Ev.cq, Ev.ci>> \in resident
  /\ KLaunchC(Ev.q, UNION {BufsOf[p] : p \in {p \in Queues : cx[p] = cx[Ev.q]}})
  /\ UNCHANGED <<orig, cx, resident>>
TKDone == Is("KDone") /\ Ev.q \in Queues /\ Idx(Ev.q) = Ev.i /\ KDone(Ev.q) /\ UNCHANGED <<orig, cx, resident>>
TOpDone ==
  /\ Is("OpDone") /\ Ev.q \in Queues /\ Idx(Ev.q) = Ev.i
  /\ stage[Ev.q] = "run" /\ (Op(Ev.q).k = "d2h" => cap[Ev.q] = Ev.obs)
  /\ OpDone(Ev.q)
  /\ UNCHANGED <<orig, cx, resident>>
\* end of a run: everything completed
TEnd == Is("End") /\ (\A q \in Queues : prog[q] = <<>> /\ stage[q] = "idle") /\ UNCHANGED <<vars, orig, cx, resident>>

TSilent ==
  /\ l <= N
  /\ \/ \E q \in Queues : KWrite(q)
     \/ \E b \in Bufs : Evict(b)
  /\ UNCHANGED <<l, orig, cx, resident>>

TNext == TReset \/ TCodeCopied \/ TOpStart \/ TFlush \/ TFlushAck \/ TData \/ TKLaunch \/ TKDone \/ TOpDone \/ TEnd \/ TSilent
TSpec == TInit /\ [][TNext]_tvars

\* layouts used by harness/cmd/c12mem: queue q owns buffers 2q-1 and 2q
TBufsOf == [q \in Queues |-> {2 * q - 1, 2 * q}]
TGpuOf1 == [q \in Queues |-> 1]
THome1 == [b \in 1..(2 * NQ) |-> 1]
\* 2 GPUs: kernels run on GPU 1, the second buffer of every queue lives on GPU 2
THome2 == [b \in 1..(2 * NQ) |-> IF b % 2 = 0 THEN 2 ELSE 1]
TProgs == [q \in Queues |-> {<<>>}]
TCtx == [q \in Queues |-> 1]          \* unused by the trace actions (cx comes from the trace)

Mark == HWNote(l)
Accepted == HWReport(N)
=============================================================================
