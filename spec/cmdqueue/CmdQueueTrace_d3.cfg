SPECIFICATION TSpec
CONSTANTS
  NA = 3
  Rounds = 1
  PerRound = 1
  NotifyMode = "token"
  TempApps = {}
  TwoPhaseApps = {}
  DrainOnlyApps = {2, 3}
  ExitMode = "recheck"
INVARIANTS FIFO LockOK OneAtATime StageOK
CONSTRAINT Mark
POSTCONDITION Accepted
CHECK_DEADLOCK FALSE
