SPECIFICATION SSpec
CONSTANTS
  NA = 3
  Rounds = 1
  PerRound = 1
  NotifyMode = "token"
  TempApps = {}
  TwoPhaseApps = {}
  DrainOnlyApps = {2, 3}
  ExitMode = "recheck"
INVARIANTS FIFO DrainSound NoHang LockOK OneAtATime
CHECK_DEADLOCK FALSE
