SPECIFICATION FairSpec
CONSTANTS
  NA = 2
  Rounds = 2
  PerRound = 1
  NotifyMode = "token"
  TempApps = {2}
  TwoPhaseApps = {}
  DrainOnlyApps = {}
  ExitMode = "recheck"
INVARIANTS FIFO DrainSound NoHang LockOK
PROPERTIES FIFOStep DrainReturns
CHECK_DEADLOCK FALSE
