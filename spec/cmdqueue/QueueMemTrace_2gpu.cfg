SPECIFICATION TSpec
CONSTANTS
  NQ = 3
  NG = 2
  GpuOf <- TGpuOf1
  BufsOf <- TBufsOf
  Home <- THome2
  Progs <- TProgs
  CtxOf <- TCtx
  Deviations = {}
CONSTRAINT Mark
POSTCONDITION Accepted
CHECK_DEADLOCK FALSE
