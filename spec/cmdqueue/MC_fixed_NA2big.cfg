SPECIFICATION FairSpec
CONSTANTS
  NA = 2
  Rounds = 2
  PerRound = 2
  NotifyMode = "token"
  TempApps = {}
  TwoPhaseApps = {}
  DrainOnlyApps = {}
  ExitMode = "recheck"
INVARIANTS FIFO DrainSound NoHang LockOK
PROPERTIES FIFOStep DrainReturns
CHECK_DEADLOCK FALSE
