SPECIFICATION Spec
CONSTANTS
  NCmd = 3
  Dur = 3
  Residual = 2
  Eager = TRUE
INVARIANTS SingleValued Ordered
CHECK_DEADLOCK FALSE
