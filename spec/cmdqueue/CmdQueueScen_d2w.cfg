SPECIFICATION SSpec
CONSTANTS
  NA = 2
  Rounds = 2
  PerRound = 1
  NotifyMode = "token"
  TempApps = {}
  TwoPhaseApps = {1}
  DrainOnlyApps = {2}
  ExitMode = "recheck"
INVARIANTS FIFO DrainSound NoHang LockOK OneAtATime
CHECK_DEADLOCK FALSE
