SPECIFICATION TSpec
CONSTANTS
  NA = 1
  Rounds = 2
  PerRound = 2
  NotifyMode = "token"
  TempApps = {}
  TwoPhaseApps = {1}
  DrainOnlyApps = {}
  ExitMode = "recheck"
INVARIANTS FIFO LockOK OneAtATime StageOK
CONSTRAINT Mark
POSTCONDITION Accepted
CHECK_DEADLOCK FALSE
