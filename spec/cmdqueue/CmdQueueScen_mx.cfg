SPECIFICATION SSpec
CONSTANTS
  NA = 2
  Rounds = 2
  PerRound = 1
  NotifyMode = "token"
  TempApps = {2}
  TwoPhaseApps = {}
  DrainOnlyApps = {}
  ExitMode = "recheck"
INVARIANTS FIFO DrainSound NoHang LockOK
CHECK_DEADLOCK FALSE
