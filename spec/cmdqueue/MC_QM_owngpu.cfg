SPECIFICATION Spec
CONSTANTS
  NQ = 2
  NG = 2
  GpuOf <- MCGpuOf1
  BufsOf <- MCBufsOf
  Home <- MCHome2
  Progs <- MCProgs
  MaxOps1 = 2
  MaxOps2 = 2
  Deviations = {"OwnGPUOnly"}
INVARIANTS TypeOK Observes D2HFresh Isolation
CHECK_DEADLOCK FALSE
