SPECIFICATION Spec
CONSTANTS
  NCmd = 3
  Dur = 3
  Residual = 2
  Eager = FALSE
INVARIANTS SingleValued Ordered
CHECK_DEADLOCK FALSE
