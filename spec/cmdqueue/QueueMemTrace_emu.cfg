SPECIFICATION TSpec
CONSTANTS
  NQ = 3
  NG = 1
  GpuOf <- TGpuOf1
  BufsOf <- TBufsOf
  Home <- THome1
  Progs <- TProgs
  CtxOf <- TCtx
  Deviations = {"NoFlush"}
CONSTRAINT Mark
POSTCONDITION Accepted
CHECK_DEADLOCK FALSE
