SPECIFICATION SSpec
CONSTANTS
  NA = 1
  Rounds = 2
  PerRound = 2
  NotifyMode = "token"
  TempApps = {}
  TwoPhaseApps = {1}
  DrainOnlyApps = {}
  ExitMode = "recheck"
INVARIANTS FIFO DrainSound NoHang LockOK OneAtATime
CHECK_DEADLOCK FALSE
