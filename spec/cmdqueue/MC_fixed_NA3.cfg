SPECIFICATION Spec
CONSTANTS
  NA = 3
  Rounds = 1
  PerRound = 1
  NotifyMode = "token"
  TempApps = {}
  TwoPhaseApps = {}
  DrainOnlyApps = {}
  ExitMode = "recheck"
INVARIANTS FIFO DrainSound NoHang LockOK
PROPERTIES FIFOStep 
CHECK_DEADLOCK FALSE
