SPECIFICATION SSpec
CONSTANTS
  NA = 2
  Rounds = 2
  PerRound = 1
  NotifyMode = "token"
  TempApps = {}
  TwoPhaseApps = {2}
  DrainOnlyApps = {}
  ExitMode = "recheck"
INVARIANTS FIFO DrainSound NoHang LockOK OneAtATime
CHECK_DEADLOCK FALSE
