SPECIFICATION SSpec
CONSTANTS
  NA = 3
  Rounds = 1
  PerRound = 1
  NotifyMode = "token"
  TempApps = {2, 3}
  TwoPhaseApps = {}
  DrainOnlyApps = {}
  ExitMode = "recheck"
INVARIANTS FIFO DrainSound NoHang LockOK
CHECK_DEADLOCK FALSE
