SPECIFICATION Spec
CONSTANTS
  NQ = 2
  MaxLaunch = 3
  MaxOther = 3
  Mode = "ordered"
INVARIANT LaunchRunsResidentCode
PROPERTY Drains
CHECK_DEADLOCK FALSE
