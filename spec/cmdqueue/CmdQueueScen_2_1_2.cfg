SPECIFICATION SSpec
CONSTANTS
  NA = 2
  Rounds = 1
  PerRound = 2
  NotifyMode = "token"
  TempApps = {}
  TwoPhaseApps = {}
  DrainOnlyApps = {}
  ExitMode = "recheck"
INVARIANTS FIFO DrainSound NoHang LockOK
CHECK_DEADLOCK FALSE
