SPECIFICATION TSpec
CONSTANTS
  NA = 2
  Rounds = 2
  PerRound = 1
  NotifyMode = "token"
  TempApps = {}
  TwoPhaseApps = {}
  DrainOnlyApps = {2}
  ExitMode = "recheck"
INVARIANTS FIFO LockOK OneAtATime StageOK
CONSTRAINT Mark
POSTCONDITION Accepted
CHECK_DEADLOCK FALSE
