--------------------------- MODULE CmdQueueScen ---------------------------
(* CmdQueue with a history variable naming the thread that moved:          *)
(* `tlc -simulate` behaviours of this module are schedules that the        *)
(* controlled scheduler executes on the real driver.                       *)
EXTENDS CmdQueue
VARIABLE act
SInit == Init /\ act = "init"
SNext == \/ \E a \in Apps : AppNext(a) /\ act' = "app" \o ToString(a)
         \/ RANext /\ act' = "ra"
         \/ ENext /\ act' = "eng"
         \/ GPUNext /\ act' = "gpu"
SSpec == SInit /\ [][SNext]_<<vars, act>>
=============================================================================
