SPECIFICATION TSpec
CONSTANTS
  NA = 2
  Rounds = 2
  PerRound = 1
  NotifyMode = "token"
  TempApps = {1, 2}
  TwoPhaseApps = {}
  DrainOnlyApps = {}
  ExitMode = "recheck"
INVARIANTS FIFO LockOK
CONSTRAINT Mark
POSTCONDITION Accepted
CHECK_DEADLOCK FALSE
