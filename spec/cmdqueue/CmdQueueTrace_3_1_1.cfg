SPECIFICATION TSpec
CONSTANTS
  NA = 3
  Rounds = 1
  PerRound = 1
  NotifyMode = "token"
  TempApps = {}
  TwoPhaseApps = {}
  DrainOnlyApps = {}
  ExitMode = "recheck"
INVARIANTS FIFO LockOK
CONSTRAINT Mark
POSTCONDITION Accepted
CHECK_DEADLOCK FALSE
