SPECIFICATION Spec
CONSTANTS
  NA = 1
  Rounds = 2
  PerRound = 1
  NotifyMode = "drop"
  TempApps = {}
  TwoPhaseApps = {}
  DrainOnlyApps = {}
  ExitMode = "recheck"
INVARIANTS FIFO DrainSound NoHang LockOK
PROPERTIES FIFOStep 
CHECK_DEADLOCK FALSE
