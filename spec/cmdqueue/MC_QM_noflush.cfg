SPECIFICATION Spec
CONSTANTS
  NQ = 2
  NG = 1
  GpuOf <- MCGpuOf1
  BufsOf <- MCBufsOf
  Home <- MCHome1
  Progs <- MCProgs
  CtxOf <- MCCtx1
  MaxOps1 = 2
  MaxOps2 = 2
  Deviations = {"NoFlush"}
INVARIANTS TypeOK Observes D2HFresh Isolation
CHECK_DEADLOCK FALSE
