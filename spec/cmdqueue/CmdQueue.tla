---------------------------- MODULE CmdQueue ----------------------------
(***************************************************************************)
(* Host-thread protocol of the driver: amd/driver/commandqueue.go          *)
(* (Enqueue/Dequeue/Subscribe/Notify/Wait), api.go (DrainCommandQueue),    *)
(* driver.go (runAsync, runEngine, Tick -> processNewCommand), and the     *)
(* event loop of the serial engine (Run/Pause/Continue/Schedule).          *)
(*                                                                         *)
(* Threads: application threads App (each owns one command queue and runs  *)
(* Rounds x (PerRound x Enqueue ; DrainCommandQueue)), the driver's        *)
(* runAsync goroutine, and the engine goroutine it spawns.  Every action   *)
(* is exactly the code between two consecutive yield points (build tag     *)
(* `verif` hooks, named like the pc values below), so a thread's pc is the *)
(* yield point where it is parked and a behaviour is a schedule that the   *)
(* controlled scheduler (harness/sched) can execute literally.             *)
(*                                                                         *)
(* Design switches (both "as implemented before the fix" values make TLC   *)
(* produce the corresponding hang):                                        *)
(*   NotifyMode = "token"  Notify leaves one token when nobody is waiting  *)
(*              = "drop"   non-blocking send on an unbuffered channel      *)
(*   ExitMode   = "recheck" runEngine re-runs the engine if a signal came  *)
(*                          while it was exiting                           *)
(*              = "window"  flag cleared unconditionally after Run()       *)
(***************************************************************************)
EXTENDS Integers, Sequences, FiniteSets, TLC

RECURSIVE SetToSortedSeq(_)
SetToSortedSeq(S) == IF S = {} THEN <<>>
                     ELSE LET m == CHOOSE x \in S : \A y \in S : x <= y IN <<m>> \o SetToSortedSeq(S \ {m})
RECURSIVE Perms(_)
Perms(S) == IF S = {} THEN {<<>>} ELSE UNION {{<<x>> \o p : p \in Perms(S \ {x})} : x \in S}

CONSTANTS NA, Rounds, PerRound, NotifyMode, ExitMode,
          TempApps,  \* application threads that use the blocking API style: a fresh queue per round
                     \* (CreateCommandQueue; Enqueue...; DrainCommandQueue), all in one shared context
          DrainOnlyApps, \* application threads that own no queue and only call DrainCommandQueue on the queue of
                     \* thread 1 (several threads may wait for the same queue)
          TwoPhaseApps \* application threads whose commands are two-phase (a memory copy through the DMA-path
                     \* middleware): started in one driver tick (IsRunning), requests sent to the GPU in later
                     \* ticks, completed (Dequeue) in the tick that reads the GPU's response

Apps == 1..NA
OwnApps == Apps \ (TempApps \cup DrainOnlyApps)
QOf(a) == IF a \in DrainOnlyApps THEN 1 ELSE a      \* the queue (named by its owner) a thread drains
TPInit == [running |-> [a \in Apps |-> FALSE], stage |-> [a \in Apps |-> "none"],
           awaitq |-> <<>>, sendq |-> <<>>, outq |-> <<>>, gpuIn |-> <<>>,
           \* the DMA-path middleware starts with cyclesLeft = 0 (Go zero value): its first tick reports progress
           cyclesLeft |-> IF TwoPhaseApps = {} THEN -1 ELSE 0, rspDeq |-> FALSE]

VARIABLES
  cmds,          \* [Apps -> Seq(Nat)]   pending commands of each queue
  issued,        \* [Apps -> Seq(Nat)]   history: commands in submission order
  done,          \* [Apps -> Seq(Nat)]   history: commands in completion order
  apc,           \* [Apps -> pc]
  round, left,   \* [Apps -> Nat]
  sub,           \* [Apps -> BOOLEAN]    listener subscribed
  token,         \* [Apps -> BOOLEAN]    listener's signal channel holds a token
  rpc,           \* runAsync pc
  engineRunning, rerun,
  epc,           \* engine goroutine pc ("none" = no engine goroutine alive)
  eq,            \* queue index the driver tick is working on
  eprog,         \* the current tick made progress
  pauseLock,     \* "free" | "ra" | "eng"
  tickScheduled, \* a driver tick event is in the event queue
  qorder,        \* Seq(Apps): the queues in the order the driver scans them (creation order); the last
                 \* entry of an application thread is its live queue, earlier ones are drained for good
  tp             \* two-phase machinery: [running |-> [Apps -> BOOLEAN]   (CommandQueue.IsRunning),
                 \*   stage |-> [Apps -> "none"|"awaiting"|"tosend"|"sent"|"atgpu"|"answered"],
                 \*   awaitq, sendq, outq, gpuIn |-> Seq(Apps), cyclesLeft |-> -1|0, rspDeq |-> BOOLEAN]

vars == <<cmds,issued,done,apc,round,left,sub,token,rpc,engineRunning,rerun,epc,eq,eprog,pauseLock,tickScheduled,qorder,tp>>

Init ==
  /\ cmds = [a \in Apps |-> <<>>] /\ issued = [a \in Apps |-> <<>>] /\ done = [a \in Apps |-> <<>>]
  /\ apc = [a \in Apps |-> IF a \in TempApps THEN "create" ELSE IF a \in DrainOnlyApps THEN "subscribe" ELSE "enq"] /\ round = [a \in Apps |-> 1] /\ left = [a \in Apps |-> PerRound]
  /\ sub = [a \in Apps |-> FALSE] /\ token = [a \in Apps |-> FALSE]
  /\ rpc = "select" /\ engineRunning = FALSE /\ rerun = FALSE
  /\ epc = "none" /\ eq = 1 /\ eprog = FALSE /\ pauseLock = "free" /\ tickScheduled = FALSE
  /\ qorder = SetToSortedSeq(OwnApps)
  /\ tp = TPInit

\* ------------------------------------------------------------------------
\* NotifyAllSubscribers of queue q, executed by any thread.  Effect on the
\* owner of q: a parked waiter is handed the signal and runs to its next
\* yield point ("check"); otherwise a token is left (or dropped).
NotifyEffect(q, apc0, token0) ==
  LET listening(a) == QOf(a) = q /\ sub[a] IN
  << [a \in Apps |-> IF listening(a) /\ apc0[a] = "parked" THEN "check" ELSE apc0[a]],
     [a \in Apps |-> IF listening(a) /\ apc0[a] # "parked" /\ NotifyMode = "token" THEN TRUE ELSE token0[a]] >>

\* ----------------------------------------------------------- application
AppEnq(a) ==            \* Enqueue: append under commandsMutex
  /\ apc[a] = "enq"
  /\ LET id == Len(issued[a]) + 1 IN
     /\ cmds' = [cmds EXCEPT ![a] = Append(@, id)]
     /\ issued' = [issued EXCEPT ![a] = Append(@, id)]
  /\ apc' = [apc EXCEPT ![a] = "enqNotify"]
  /\ UNCHANGED <<done,round,left,sub,token,rpc,engineRunning,rerun,epc,eq,eprog,pauseLock,tickScheduled,qorder,tp>>

AppEnqNotify(a) ==      \* NotifyAllSubscribers after Enqueue, then next Enqueue or DrainCommandQueue
  /\ apc[a] = "enqNotify"
  /\ LET r == NotifyEffect(a, apc, token) IN
     /\ token' = r[2]
     /\ apc' = [r[1] EXCEPT ![a] = IF left[a] > 1 THEN "enq" ELSE "subscribe"]
  /\ left' = [left EXCEPT ![a] = @ - 1]
  /\ UNCHANGED <<cmds,issued,done,round,sub,rpc,engineRunning,rerun,epc,eq,eprog,pauseLock,tickScheduled,qorder,tp>>

AppSubscribe(a) ==      \* q.Subscribe(): a fresh listener
  /\ apc[a] = "subscribe"
  /\ sub' = [sub EXCEPT ![a] = TRUE] /\ token' = [token EXCEPT ![a] = FALSE]
  /\ apc' = [apc EXCEPT ![a] = "signal"]
  /\ UNCHANGED <<cmds,issued,done,round,left,rpc,engineRunning,rerun,epc,eq,eprog,pauseLock,tickScheduled,qorder,tp>>

AppSignal(a) ==         \* d.enqueueSignal <- true  (unbuffered: rendezvous with runAsync's select)
  /\ apc[a] = "signal"
  /\ IF rpc = "inselect"
     THEN /\ apc' = [apc EXCEPT ![a] = "check"] /\ rpc' = "pause"
     ELSE /\ apc' = [apc EXCEPT ![a] = "sending"] /\ rpc' = rpc
  /\ UNCHANGED <<cmds,issued,done,round,left,sub,token,engineRunning,rerun,epc,eq,eprog,pauseLock,tickScheduled,qorder,tp>>

AppCheck(a) ==          \* if q.NumCommand() == 0 { return }
  /\ apc[a] = "check"
  /\ apc' = [apc EXCEPT ![a] = IF cmds[QOf(a)] = <<>> THEN "unsub" ELSE "wait"]
  /\ UNCHANGED <<cmds,issued,done,round,left,sub,token,rpc,engineRunning,rerun,epc,eq,eprog,pauseLock,tickScheduled,qorder,tp>>

AppWait(a) ==           \* listener.Wait(): take a token or park
  /\ apc[a] = "wait"
  /\ IF token[a]
     THEN /\ token' = [token EXCEPT ![a] = FALSE] /\ apc' = [apc EXCEPT ![a] = "check"]
     ELSE /\ token' = token /\ apc' = [apc EXCEPT ![a] = "parked"]
  /\ UNCHANGED <<cmds,issued,done,round,left,sub,rpc,engineRunning,rerun,epc,eq,eprog,pauseLock,tickScheduled,qorder,tp>>

AppUnsub(a) ==          \* return from DrainCommandQueue (deferred Unsubscribe), next round or finished
  /\ apc[a] = "unsub"
  /\ sub' = [sub EXCEPT ![a] = FALSE] /\ token' = [token EXCEPT ![a] = FALSE]
  /\ IF round[a] < Rounds
     THEN /\ round' = [round EXCEPT ![a] = @ + 1] /\ left' = [left EXCEPT ![a] = PerRound]
          /\ apc' = [apc EXCEPT ![a] = IF a \in TempApps THEN "create" ELSE IF a \in DrainOnlyApps THEN "subscribe" ELSE "enq"]
     ELSE /\ round' = round /\ left' = left /\ apc' = [apc EXCEPT ![a] = "returned"]
  /\ UNCHANGED <<cmds,issued,done,rpc,engineRunning,rerun,epc,eq,eprog,pauseLock,tickScheduled,qorder,tp>>

\* CreateCommandQueue in the shared context: needs the context's queue mutex, which the engine goroutine
\* holds for the whole scan of the context inside a driver tick.
InTickPc(p) == p \in {"scan", "deq", "deqNotify"}
AppCreate(a) ==
  /\ apc[a] = "create"
  /\ IF InTickPc(epc)
     THEN /\ apc' = [apc EXCEPT ![a] = "creating"] /\ UNCHANGED qorder      \* blocked on the mutex
     ELSE /\ apc' = [apc EXCEPT ![a] = "enq"] /\ qorder' = Append(qorder, a)
  /\ UNCHANGED <<cmds,issued,done,round,left,sub,token,rpc,engineRunning,rerun,epc,eq,eprog,pauseLock,tickScheduled,tp>>

\* --------------------------------------------------------------- runAsync
Sending == {a \in Apps : apc[a] = "sending"}

RASelect ==             \* enter select; completes the rendezvous if a sender is already blocked
  /\ rpc = "select"
  /\ IF Sending = {}
     THEN rpc' = "inselect" /\ apc' = apc
     ELSE \E a \in Sending : apc' = [apc EXCEPT ![a] = "check"] /\ rpc' = "pause"
  /\ UNCHANGED <<cmds,issued,done,round,left,sub,token,engineRunning,rerun,epc,eq,eprog,pauseLock,tickScheduled,qorder,tp>>

RAPause ==              \* Engine.Pause()
  /\ rpc = "pause" /\ pauseLock = "free"
  /\ pauseLock' = "ra" /\ rpc' = "ticklater"
  /\ UNCHANGED <<cmds,issued,done,apc,round,left,sub,token,engineRunning,rerun,epc,eq,eprog,tickScheduled,qorder,tp>>

RATickLater ==          \* d.TickLater(): schedules a tick unless one is already scheduled
  /\ rpc = "ticklater"
  /\ tickScheduled' = TRUE /\ rpc' = "continue"
  /\ UNCHANGED <<cmds,issued,done,apc,round,left,sub,token,engineRunning,rerun,epc,eq,eprog,pauseLock,qorder,tp>>

RAContinue ==           \* Engine.Continue()
  /\ rpc = "continue"
  /\ pauseLock' = "free" /\ rpc' = "flag"
  /\ UNCHANGED <<cmds,issued,done,apc,round,left,sub,token,engineRunning,rerun,epc,eq,eprog,tickScheduled,qorder,tp>>

RAFlag ==               \* under engineRunningMutex: start an engine goroutine unless one is running
  /\ rpc = "flag"
  /\ IF engineRunning
     THEN /\ rerun' = (IF ExitMode = "recheck" THEN TRUE ELSE rerun)
          /\ UNCHANGED <<engineRunning, epc>>
     ELSE /\ epc = "none"        \* the previous engine goroutine has ended (clear and exit are one step)
          /\ engineRunning' = TRUE /\ epc' = "acquire" /\ rerun' = rerun
  /\ rpc' = "select"
  /\ UNCHANGED <<cmds,issued,done,apc,round,left,sub,token,eq,eprog,pauseLock,tickScheduled,qorder,tp>>

\* ----------------------------------------------------------------- engine
EAcquire ==             \* engineMutex.Lock(); Engine.Run() up to the top of its loop
  /\ epc = "acquire" /\ epc' = "loop"
  /\ UNCHANGED <<cmds,issued,done,apc,round,left,sub,token,rpc,engineRunning,rerun,eq,eprog,pauseLock,tickScheduled,qorder,tp>>

GpuBusy == \E a \in Apps : tp.stage[a] \in {"sent", "atgpu"}

ELoop ==                \* noMoreEvent() ?  Run() returns : go on to take pauseLock.  While the GPU still owes an
                        \* answer the event queue is not empty in reality (the GPU's own events): the engine goes on.
  /\ epc = "loop"
  /\ (tickScheduled \/ ~GpuBusy)
  /\ epc' = IF tickScheduled THEN "lockpause" ELSE "clear"
  /\ UNCHANGED <<cmds,issued,done,apc,round,left,sub,token,rpc,engineRunning,rerun,eq,eprog,pauseLock,tickScheduled,qorder,tp>>

\* End of a driver tick: reschedule if progress was made, release pauseLock, back to the loop top.
Creating == {a \in Apps : apc[a] = "creating"}
Live(i) == \A j \in (i+1)..Len(qorder) : qorder[j] # qorder[i]     \* entry i is its owner's newest queue
\* the part of TickEnd that does not touch apc / qorder
TickEndCore(prog) == /\ tickScheduled' = prog /\ pauseLock' = "free" /\ epc' = "loop" /\ eq' = 1 /\ eprog' = FALSE
\* queue creations that were blocked on the context's queue mutex complete when the scan ends, in any order
ReleaseCreators(apc0) ==
  \E p \in Perms(Creating) :
     /\ qorder' = qorder \o p
     /\ apc' = [a \in Apps |-> IF a \in Creating THEN "enq" ELSE apc0[a]]

\* The part of Driver.Tick that runs before the queues are scanned (no yield point inside):
\* sendToGPUs (one request per tick), the copy middleware's delay stage (awaiting -> to send), and at most one
\* response of the GPU: the command it answers is no longer running and is dequeued next.
PreTick ==
  LET sent  == tp.sendq # <<>>
      st1   == IF sent THEN [tp.stage EXCEPT ![Head(tp.sendq)] = "sent"] ELSE tp.stage
      sq1   == IF sent THEN Tail(tp.sendq) ELSE tp.sendq
      oq1   == IF sent THEN Append(tp.outq, Head(tp.sendq)) ELSE tp.outq
      moved == tp.cyclesLeft = 0
      st2   == IF moved THEN [a \in Apps |-> IF st1[a] = "awaiting" THEN "tosend" ELSE st1[a]] ELSE st1
      sq2   == IF moved THEN sq1 \o tp.awaitq ELSE sq1
      aw2   == IF moved THEN <<>> ELSE tp.awaitq
      rsp   == tp.gpuIn # <<>>
      ra    == Head(tp.gpuIn)
  IN [prog |-> sent \/ moved, rsp |-> rsp, ra |-> IF rsp THEN ra ELSE 0,
      tp |-> [tp EXCEPT !.stage = IF rsp THEN [st2 EXCEPT ![ra] = "none"] ELSE st2,
                        !.sendq = sq2, !.outq = oq1, !.awaitq = aw2,
                        !.cyclesLeft = IF moved THEN -1 ELSE @,
                        !.running = IF rsp THEN [@ EXCEPT ![ra] = FALSE] ELSE @,
                        !.gpuIn = IF rsp THEN Tail(@) ELSE @,
                        !.rspDeq = rsp]]
LiveIndex(a) == CHOOSE i \in 1..Len(qorder) : qorder[i] = a /\ Live(i)

ELockPause ==           \* pauseLock.Lock(); pop the tick event; Driver.Tick up to its first yield point
  /\ epc = "lockpause" /\ pauseLock = "free"
  /\ LET p == PreTick IN
     /\ tp' = p.tp
     /\ IF p.rsp
        THEN /\ pauseLock' = "eng" /\ tickScheduled' = FALSE /\ eq' = LiveIndex(p.ra) /\ eprog' = TRUE /\ epc' = "deq"
        ELSE IF Len(qorder) >= 1
        THEN /\ pauseLock' = "eng" /\ tickScheduled' = FALSE /\ eq' = 1 /\ eprog' = p.prog /\ epc' = "scan"
        ELSE TickEndCore(p.prog)         \* no queue yet: nothing is locked, nobody can be blocked on creation
  /\ UNCHANGED <<cmds,issued,done,apc,round,left,sub,token,rpc,engineRunning,rerun,qorder>>

\* processNewCommandFromCmdQueue(q): empty, drained for good, or its head command still running -> next queue;
\* a Noop-like command -> Dequeue; a two-phase command -> started (IsRunning) and the scan goes on.
EScan ==
  /\ epc = "scan"
  /\ LET a == qorder[eq]
         startable == Live(eq) /\ cmds[a] # <<>> /\ ~tp.running[a]
     IN
     IF startable /\ a \notin TwoPhaseApps
     THEN /\ epc' = "deq" /\ UNCHANGED <<eq, eprog, pauseLock, tickScheduled, apc, qorder, tp>>
     ELSE /\ tp' = IF startable
                   THEN [tp EXCEPT !.running[a] = TRUE, !.stage[a] = "awaiting", !.awaitq = Append(@, a), !.cyclesLeft = 0]
                   ELSE tp
          /\ IF eq < Len(qorder)
             THEN /\ eq' = eq + 1 /\ eprog' = (eprog \/ startable) /\ UNCHANGED <<epc, pauseLock, tickScheduled, apc, qorder>>
             ELSE TickEndCore(eprog \/ startable) /\ ReleaseCreators(apc)
  /\ UNCHANGED <<cmds,issued,done,round,left,sub,token,rpc,engineRunning,rerun>>

EDeq ==                 \* Dequeue: pop under commandsMutex
  /\ epc = "deq"
  /\ LET a == qorder[eq] IN
     /\ done' = [done EXCEPT ![a] = Append(@, Head(cmds[a]))]
     /\ cmds' = [cmds EXCEPT ![a] = Tail(@)]
  /\ epc' = "deqNotify"
  /\ UNCHANGED <<issued,apc,round,left,sub,token,rpc,engineRunning,rerun,eq,eprog,pauseLock,tickScheduled,qorder,tp>>

EDeqNotify ==           \* NotifyAllSubscribers after Dequeue; then the scan starts (after a response) or goes on
  /\ epc = "deqNotify"
  /\ LET r == NotifyEffect(qorder[eq], apc, token) IN
     /\ token' = r[2]
     /\ IF tp.rspDeq
        THEN /\ apc' = r[1] /\ eq' = 1 /\ eprog' = TRUE /\ epc' = "scan" /\ tp' = [tp EXCEPT !.rspDeq = FALSE]
             /\ UNCHANGED <<pauseLock, tickScheduled, qorder>>
        ELSE IF eq < Len(qorder)
        THEN /\ apc' = r[1] /\ eq' = eq + 1 /\ eprog' = TRUE /\ epc' = "scan"
             /\ UNCHANGED <<pauseLock, tickScheduled, qorder, tp>>
        ELSE TickEndCore(TRUE) /\ ReleaseCreators(r[1]) /\ UNCHANGED tp
  /\ UNCHANGED <<cmds,issued,done,round,left,sub,rpc,engineRunning,rerun>>

EClear ==               \* Run() returned: clear the flag and end, or run again if a signal came meanwhile
  /\ epc = "clear"
  /\ IF ExitMode = "recheck" /\ rerun
     THEN /\ rerun' = FALSE /\ epc' = "loop" /\ UNCHANGED engineRunning
     ELSE /\ engineRunning' = FALSE /\ epc' = "none" /\ rerun' = rerun
  /\ UNCHANGED <<cmds,issued,done,apc,round,left,sub,token,rpc,eq,eprog,pauseLock,tickScheduled,qorder,tp>>

\* ------------------------------------------------------------------- GPU
\* The (stub) GPU is part of the simulated world: its steps are events of the same engine, so they happen
\* between two events of the driver (pauseLock free), never while an event is being handled.
GPUTake ==              \* the oldest request leaves the driver's GPU port
  /\ tp.outq # <<>> /\ pauseLock = "free"
  /\ tp' = [tp EXCEPT !.stage[Head(tp.outq)] = "atgpu", !.outq = Tail(@)]
  /\ UNCHANGED <<cmds,issued,done,apc,round,left,sub,token,rpc,engineRunning,rerun,epc,eq,eprog,pauseLock,tickScheduled,qorder>>

GPUAnswer(a) ==         \* the response arrives in the driver's GPU port: NotifyRecv -> TickLater
  /\ tp.stage[a] = "atgpu" /\ pauseLock = "free"
  /\ tp' = [tp EXCEPT !.stage[a] = "answered", !.gpuIn = Append(@, a)]
  /\ tickScheduled' = TRUE
  /\ UNCHANGED <<cmds,issued,done,apc,round,left,sub,token,rpc,engineRunning,rerun,epc,eq,eprog,pauseLock,qorder>>

GPUNext == GPUTake \/ \E a \in Apps : GPUAnswer(a)

AppNext(a) == AppCreate(a) \/ AppEnq(a) \/ AppEnqNotify(a) \/ AppSubscribe(a) \/ AppSignal(a) \/ AppCheck(a) \/ AppWait(a) \/ AppUnsub(a)
RANext == RASelect \/ RAPause \/ RATickLater \/ RAContinue \/ RAFlag
ENext == EAcquire \/ ELoop \/ ELockPause \/ EScan \/ EDeq \/ EDeqNotify \/ EClear
Next == (\E a \in Apps : AppNext(a)) \/ RANext \/ ENext \/ GPUNext

AllReturned == \A a \in Apps : apc[a] = "returned"
Spec == Init /\ [][Next]_vars
FairSpec == Spec /\ (\A a \in Apps : WF_vars(AppNext(a))) /\ WF_vars(RANext) /\ WF_vars(ENext) /\ WF_vars(GPUNext)

\* ------------------------------------------------------------- properties
IsPrefix(s, t) == Len(s) <= Len(t) /\ \A i \in 1..Len(s) : s[i] = t[i]
\* commands of a queue complete one at a time in submission order
FIFO == \A a \in Apps : IsPrefix(done[a], issued[a])
FIFOStep == [][\A a \in Apps : IsPrefix(done[a], done'[a])]_vars
\* DrainCommandQueue returns only when every earlier command of the queue has completed
DrainSound == \A a \in Apps \ DrainOnlyApps : (apc[a] \in {"returned", "create", "creating"} \/ (apc[a] = "enq" /\ left[a] = PerRound)) => done[a] = issued[a]
\* one command of a queue at a time: a command is started only when no command of its queue is running, and the
\* running one is the head of the queue until its response has been read
OneAtATime == \A a \in Apps : tp.running[a] => (cmds[a] # <<>> /\ tp.stage[a] \in {"awaiting", "tosend", "sent", "atgpu", "answered"})
StageOK == \A a \in Apps : (tp.stage[a] # "none") => (tp.running[a] /\ a \in TwoPhaseApps)
\* no structural deadlock: some thread can move unless every application thread has finished
NoHang == (ENABLED Next) \/ AllReturned
\* one pauseLock holder, engine only touches queues while holding it
LockOK == /\ (epc \in {"scan", "deq", "deqNotify"} => pauseLock = "eng")
          /\ (rpc \in {"ticklater", "continue"} => pauseLock = "ra")
\* liveness: every drain returns
DrainReturns == <>[]AllReturned
=============================================================================
