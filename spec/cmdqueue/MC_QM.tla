------------------------------- MODULE MC_QM -------------------------------
(* Bounded instances of QueueMem: two (or three) queues with two buffers   *)
(* each, every program of up to MaxOps operations over the queue's own     *)
(* buffers.                                                                 *)
EXTENDS QueueMem

CONSTANTS MaxOps1, MaxOps2

B1(q) == 2 * q - 1
B2(q) == 2 * q
MCBufsOf == [q \in Queues |-> {B1(q), B2(q)}]
MCHome1 == [b \in 1..(2 * NQ) |-> 1]
\* second buffer of every queue lives on GPU 2 (Distribute / Remap), kernels run on GPU 1
MCHome2 == [b \in 1..(2 * NQ) |-> IF b % 2 = 0 THEN 2 ELSE 1]
MCGpuOf1 == [q \in Queues |-> 1]
MCCtx1 == [q \in Queues |-> 1]        \* one process
MCCtxQ == [q \in Queues |-> q]        \* one process per queue

\* the i-th operation of a program of queue q may be one of
Alphabet(q, i) ==
  {[k |-> "h2d", b |-> B1(q), v |-> 10 * q + i], [k |-> "h2d", b |-> B2(q), v |-> 10 * q + i],
   [k |-> "d2h", b |-> B1(q)], [k |-> "d2h", b |-> B2(q)],
   [k |-> "d2d", dst |-> B2(q), src |-> B1(q)], [k |-> "d2d", dst |-> B1(q), src |-> B2(q)]}

RECURSIVE ProgsOfLen(_, _, _)
ProgsOfLen(q, n, i) ==
  IF n = 0 THEN {<<>>}
  ELSE {<<o>> \o p : o \in Alphabet(q, i), p \in ProgsOfLen(q, n - 1, i + 1)}
\* only programs that end by reading something back are interesting
Interesting(p) == p # <<>> /\ p[Len(p)].k = "d2h"
MCProgs == [q \in Queues |->
             {p \in UNION {ProgsOfLen(q, n, 1) : n \in 1..(IF q = 1 THEN MaxOps1 ELSE MaxOps2)} : Interesting(p)}]
=============================================================================
