----------------------------- MODULE CodeUpload -----------------------------
(***************************************************************************)
(* The driver's device copy of a kernel code object                        *)
(* (amd/driver/kernel.go EnqueueLaunchKernel, codeObjGPUAddrs).            *)
(*                                                                         *)
(*   Enqueue(q)  a launch of THE code object is enqueued on queue q: when  *)
(*               the process has no cache entry yet, an Upload command is  *)
(*               put in front of the launch ON THAT QUEUE and the entry is *)
(*               made at once; otherwise only the launch is queued         *)
(*   Exec(q)     the head command of queue q executes (queues are FIFO and *)
(*               independent of each other)                                *)
(*                                                                         *)
(* LaunchRunsResidentCode: a launch only executes when the upload has      *)
(* executed.  Mode "asimpl" is the code as it is: the invariant fails with *)
(* two queues (the upload waits behind other commands of queue 1, queue 2  *)
(* launches) - the open finding C12-launch-before-code-upload-on-other-    *)
(* queue; harness/cmd/c12mem reproduces exactly that behaviour (scenario   *)
(* `codeorder`).  Mode "ordered" is the intended design (a launch is not   *)
(* started before the code it names is resident) and holds.                *)
(***************************************************************************)
EXTENDS Integers, Sequences, FiniteSets

CONSTANTS NQ, MaxLaunch, MaxOther, Mode
Queues == 1..NQ
VARIABLES qs,        \* queue -> sequence of "other" | "upload" | "launch"
          cached,    \* the process has a cache entry for the code object
          resident,  \* the upload has executed
          nl, no,    \* launches / other commands enqueued so far
          bad        \* a launch executed before the code was resident
vars == <<qs, cached, resident, nl, no, bad>>

Init == qs = [q \in Queues |-> <<>>] /\ cached = FALSE /\ resident = FALSE /\ nl = 0 /\ no = 0 /\ bad = FALSE

EnqueueOther(q) ==
  /\ no < MaxOther /\ no' = no + 1
  /\ qs' = [qs EXCEPT ![q] = Append(@, "other")]
  /\ UNCHANGED <<cached, resident, nl, bad>>

EnqueueLaunch(q) ==
  /\ nl < MaxLaunch /\ nl' = nl + 1
  /\ qs' = [qs EXCEPT ![q] = IF cached THEN Append(@, "launch") ELSE @ \o <<"upload", "launch">>]
  /\ cached' = TRUE
  /\ UNCHANGED <<resident, no, bad>>

Exec(q) ==
  /\ qs[q] # <<>>
  /\ LET c == Head(qs[q]) IN
     /\ (Mode = "ordered" /\ c = "launch") => resident
     /\ resident' = (resident \/ c = "upload")
     /\ bad' = (bad \/ (c = "launch" /\ ~resident))
  /\ qs' = [qs EXCEPT ![q] = Tail(@)]
  /\ UNCHANGED <<cached, nl, no>>

Next == \E q \in Queues : EnqueueOther(q) \/ EnqueueLaunch(q) \/ Exec(q)
Spec == Init /\ [][Next]_vars /\ WF_vars(\E q \in Queues : Exec(q))

LaunchRunsResidentCode == ~bad
\* the intended design does not trade safety for a deadlock: every queue drains
Drains == <>[](\A q \in Queues : qs[q] = <<>>)
=============================================================================
