------------------------------ MODULE QueueMem ------------------------------
(***************************************************************************)
(* Memory effects of command queues (the first sentence of C12):           *)
(*   "Commands placed in one queue take effect one at a time in submission *)
(*    order, each observing all memory effects of its predecessors, and    *)
(*    commands of other queues never disturb their data."                  *)
(*                                                                         *)
(* The abstract meaning is the history variable `expect` (sequential       *)
(* semantics per queue; every buffer belongs to one queue).  The mechanism *)
(* is what amd/driver does on the timing platform:                         *)
(*   - copies (H2D / D2H) are DMA transfers that read and write DRAM       *)
(*     directly, kernels read and write through the write-back L2 of the   *)
(*     GPU that is home to the buffer;                                      *)
(*   - LaunchKernel marks every buffer of the process dirty                *)
(*     (Driver.markAllBuffersOfProcessDirty) when the launch request is    *)
(*     SENT, nothing ever clears the marks;                                 *)
(*   - a copy whose buffer is marked sends a FlushReq to every GPU first   *)
(*     (defaultMemoryCopyMiddleware.needFlushing / sendFlushRequest) and   *)
(*     the command processor performs the copy after the flush;            *)
(*   - queues are scanned independently: a kernel of queue A runs while    *)
(*     copies of queue B start, flush and complete.                        *)
(* One action per traced driver task boundary (command start, FlushReq     *)
(* sent / acknowledged, copy request answered, LaunchKernelReq sent /      *)
(* answered, command end) plus two silent steps the trace cannot show:     *)
(* KWrite (the running kernel's stores reach the L2) and Evict (the L2     *)
(* writes a dirty line back on its own).                                    *)
(*                                                                         *)
(* Deviations (must violate Observes; checked by MC_QM_*.cfg):             *)
(*   "ClearOnAck"  the flush acknowledgement clears the dirty marks while  *)
(*                 a kernel of another queue is in flight (seeded change   *)
(*                 C12f)                                                    *)
(*   "NoFlush"     copies never flush                                       *)
(*   "OwnGPUOnly"  a copy flushes only the GPU of its queue (cf. C18f)      *)
(***************************************************************************)
EXTENDS Integers, Sequences, FiniteSets, TLC

CONSTANTS NQ,          \* number of queues
          NG,          \* number of GPUs
          GpuOf,       \* queue -> GPU its kernels run on
          BufsOf,      \* queue -> set of buffers only this queue touches
          Home,        \* buffer -> GPU whose DRAM / L2 holds it
          Progs,       \* queue -> set of programs (sequences of ops) to choose from
          CtxOf,       \* queue -> context (process / address space) it belongs to
          Deviations

Queues == 1..NQ
GPUs == 1..NG
Bufs == UNION {BufsOf[q] : q \in Queues}
Nil == -1
Dev(d) == d \in Deviations

\* ops:  [k |-> "h2d", b, v]   [k |-> "d2h", b]   [k |-> "d2d", dst, src]
VARIABLES dram,     \* buffer -> value in DRAM
          l2,       \* buffer -> dirty value in its home GPU's L2, or Nil
          mark,     \* buffer -> driver's dirty mark
          prog,     \* queue -> ops not yet completed (head = current when running)
          stage,    \* queue -> "idle" | "run"
          nf,       \* queue -> the current copy needs a flush (decided at its start)
          sent,     \* queue -> GPUs the current copy has sent a FlushReq to
          fl,       \* queue -> GPUs whose FlushReq of the current op is outstanding
          copied,   \* queue -> the current copy's data request has been answered
          kr,       \* queue -> "no" | "run" | "done": kernel of the current op
          wrote,    \* queue -> the running kernel's stores have reached the L2
          cap,      \* queue -> value the current D2H delivered to the host
          expect,   \* buffer -> value under sequential per-queue semantics (history)
          ok        \* every completed D2H delivered expect (history)
vars == <<dram, l2, mark, prog, stage, nf, sent, fl, copied, kr, wrote, cap, expect, ok>>

Init ==
  /\ dram = [b \in Bufs |-> 100 + b] /\ expect = [b \in Bufs |-> 100 + b]
  /\ l2 = [b \in Bufs |-> Nil] /\ mark = [b \in Bufs |-> FALSE]
  /\ prog \in [Queues -> UNION {Progs[q] : q \in Queues}]
  /\ \A q \in Queues : prog[q] \in Progs[q]
  /\ stage = [q \in Queues |-> "idle"] /\ nf = [q \in Queues |-> FALSE]
  /\ fl = [q \in Queues |-> {}] /\ sent = [q \in Queues |-> {}]
  /\ copied = [q \in Queues |-> FALSE] /\ kr = [q \in Queues |-> "no"]
  /\ wrote = [q \in Queues |-> FALSE] /\ cap = [q \in Queues |-> Nil] /\ ok = TRUE

Op(q) == Head(prog[q])
IsCopy(o) == o.k \in {"h2d", "d2h"}
Visible(b) == IF l2[b] # Nil THEN l2[b] ELSE dram[b]

\* the command (for a kernel: its first staging sub-command) starts
OpStart(q) ==
  /\ stage[q] = "idle" /\ prog[q] # <<>>
  /\ stage' = [stage EXCEPT ![q] = "run"]
  /\ nf' = [nf EXCEPT ![q] = IsCopy(Op(q)) /\ mark[Op(q).b] /\ ~Dev("NoFlush")]
  /\ fl' = [fl EXCEPT ![q] = {}] /\ sent' = [sent EXCEPT ![q] = {}]
  /\ copied' = [copied EXCEPT ![q] = FALSE] /\ kr' = [kr EXCEPT ![q] = "no"]
  /\ wrote' = [wrote EXCEPT ![q] = FALSE] /\ cap' = [cap EXCEPT ![q] = Nil]
  /\ UNCHANGED <<dram, l2, mark, prog, expect, ok>>

BufsOfProcess(q) == UNION {BufsOf[p] : p \in {p \in Queues : CtxOf[p] = CtxOf[q]}}
FlushTargets(q) == IF Dev("OwnGPUOnly") THEN {GpuOf[q]} ELSE GPUs

\* a copy whose buffer is marked sends one FlushReq to every GPU when it starts
FlushSend(q, g) ==
  /\ stage[q] = "run" /\ IsCopy(Op(q)) /\ nf[q] /\ ~copied[q]
  /\ g \in FlushTargets(q) \ sent[q]
  /\ sent' = [sent EXCEPT ![q] = @ \cup {g}]
  /\ fl' = [fl EXCEPT ![q] = @ \cup {g}]
  /\ UNCHANGED <<dram, l2, mark, prog, stage, nf, copied, kr, wrote, cap, expect, ok>>

\* staging copies of a kernel launch (arguments, packet) may flush too; their flushes are not tied to a buffer
\* of the program
KFlushSend(q, g) ==
  /\ stage[q] = "run" /\ Op(q).k = "d2d" /\ kr[q] = "no" /\ g \notin fl[q]
  /\ fl' = [fl EXCEPT ![q] = @ \cup {g}]
  /\ UNCHANGED <<dram, l2, mark, prog, stage, nf, sent, copied, kr, wrote, cap, expect, ok>>

\* GPU g has written its L2 back and acknowledges
FlushAck(q, g) ==
  /\ stage[q] = "run" /\ g \in fl[q]
  /\ dram' = [b \in Bufs |-> IF Home[b] = g /\ l2[b] # Nil THEN l2[b] ELSE dram[b]]
  /\ l2' = [b \in Bufs |-> IF Home[b] = g THEN Nil ELSE l2[b]]
  /\ fl' = [fl EXCEPT ![q] = @ \ {g}]
  /\ mark' = IF Dev("ClearOnAck") /\ IsCopy(Op(q)) /\ fl[q] = {g} /\ sent[q] = FlushTargets(q)
             THEN [b \in Bufs |-> mark[b] /\ b \notin BufsOfProcess(q)] ELSE mark
  /\ UNCHANGED <<prog, stage, nf, sent, copied, kr, wrote, cap, expect, ok>>

\* the DMA engine of the buffer's home GPU has moved the data of a copy.  That GPU's command processor handles its
\* FlushReq first, so the home L2 has been written back; the acknowledgements of the other GPUs (whose L2s never hold
\* lines of this buffer) may arrive later - the command only completes when all have arrived (OpDone).
CopyData(q) ==
  /\ stage[q] = "run" /\ IsCopy(Op(q)) /\ ~copied[q]
  /\ nf[q] => (sent[q] = FlushTargets(q) /\ Home[Op(q).b] \notin fl[q])
  /\ copied' = [copied EXCEPT ![q] = TRUE]
  /\ IF Op(q).k = "h2d"
       THEN /\ dram' = [dram EXCEPT ![Op(q).b] = Op(q).v] /\ UNCHANGED cap
       ELSE /\ cap' = [cap EXCEPT ![q] = dram[Op(q).b]] /\ UNCHANGED dram
  /\ UNCHANGED <<l2, mark, prog, stage, nf, sent, fl, kr, wrote, expect, ok>>

\* the launch request leaves the driver: every buffer of the PROCESS (S) is marked dirty - the L2 is physically
\* addressed, a kernel of another process cannot dirty this process's buffers
KLaunchC(q, S) ==
  /\ stage[q] = "run" /\ Op(q).k = "d2d" /\ kr[q] = "no" /\ fl[q] = {}
  /\ kr' = [kr EXCEPT ![q] = "run"]
  /\ mark' = [b \in Bufs |-> mark[b] \/ b \in S]
  /\ UNCHANGED <<dram, l2, prog, stage, nf, sent, fl, copied, wrote, cap, expect, ok>>
KLaunch(q) == KLaunchC(q, BufsOfProcess(q))

\* silent: the kernel's stores reach the L2 of the destination's home GPU
KWrite(q) ==
  /\ kr[q] = "run" /\ ~wrote[q]
  /\ l2' = [l2 EXCEPT ![Op(q).dst] = Visible(Op(q).src)]
  /\ wrote' = [wrote EXCEPT ![q] = TRUE]
  /\ UNCHANGED <<dram, mark, prog, stage, nf, sent, fl, copied, kr, cap, expect, ok>>

KDone(q) ==
  /\ kr[q] = "run" /\ wrote[q]
  /\ kr' = [kr EXCEPT ![q] = "done"]
  /\ UNCHANGED <<dram, l2, mark, prog, stage, nf, sent, fl, copied, wrote, cap, expect, ok>>

\* silent: the L2 writes a dirty line back on its own (capacity, write-through configurations)
Evict(b) ==
  /\ l2[b] # Nil
  /\ dram' = [dram EXCEPT ![b] = l2[b]] /\ l2' = [l2 EXCEPT ![b] = Nil]
  /\ UNCHANGED <<mark, prog, stage, nf, sent, fl, copied, kr, wrote, cap, expect, ok>>

\* the command completes and leaves the queue
OpDone(q) ==
  /\ stage[q] = "run" /\ fl[q] = {}
  /\ (IsCopy(Op(q)) /\ nf[q]) => sent[q] = FlushTargets(q)
  /\ LET o == Op(q) IN
     /\ IF IsCopy(o) THEN copied[q] ELSE kr[q] = "done"
     /\ expect' = CASE o.k = "h2d" -> [expect EXCEPT ![o.b] = o.v]
                    [] o.k = "d2d" -> [expect EXCEPT ![o.dst] = expect[o.src]]
                    [] OTHER -> expect
     /\ ok' = (ok /\ (o.k = "d2h" => cap[q] = expect[o.b]))
  /\ prog' = [prog EXCEPT ![q] = Tail(@)]
  /\ stage' = [stage EXCEPT ![q] = "idle"]
  /\ UNCHANGED <<dram, l2, mark, nf, sent, fl, copied, kr, wrote, cap>>

Next ==
  \/ \E q \in Queues : OpStart(q) \/ CopyData(q) \/ KLaunch(q) \/ KWrite(q) \/ KDone(q) \/ OpDone(q)
  \/ \E q \in Queues, g \in GPUs : FlushSend(q, g) \/ FlushAck(q, g) \/ KFlushSend(q, g)
  \/ \E b \in Bufs : Evict(b)

Spec == Init /\ [][Next]_vars

\* ------------------------------------------------------------------ properties
\* every D2H delivered what sequential execution of its own queue would deliver
Observes == ok
\* ... and already when its data request is answered
D2HFresh == \A q \in Queues :
              (stage[q] = "run" /\ Op(q).k = "d2h" /\ copied[q]) => cap[q] = expect[Op(q).b]
\* no buffer of one queue is ever written by a command of another queue (structural: ops name own buffers)
Isolation == \A q \in Queues : \A i \in 1..Len(prog[q]) :
               LET o == prog[q][i] IN
                 IF o.k = "d2d" THEN {o.dst, o.src} \subseteq BufsOf[q] ELSE o.b \in BufsOf[q]
TypeOK ==
  /\ \A b \in Bufs : l2[b] \in Int /\ dram[b] \in Int /\ mark[b] \in BOOLEAN
  /\ \A q \in Queues : stage[q] \in {"idle", "run"} /\ kr[q] \in {"no", "run", "done"} /\ fl[q] \subseteq GPUs
=============================================================================
