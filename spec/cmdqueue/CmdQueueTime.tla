--------------------------- MODULE CmdQueueTime ---------------------------
(***************************************************************************)
(* Simulated time as seen through the driver's host-thread protocol (C05). *)
(* One application thread issues NCmd commands, each followed by           *)
(* DrainCommandQueue.  A command that starts in the driver tick at time t  *)
(* completes in the driver tick at t + Dur; that tick made progress, so    *)
(* the ticking component schedules one more tick at t + Dur + 1, and the   *)
(* rest of the platform winds down with Residual further events at         *)
(* t+Dur+1 .. t+Dur+Residual.  The application thread is woken in the      *)
(* completion tick; its next enqueue signal is handled by runAsync         *)
(* (Pause; TickLater; Continue) at whatever time the engine has reached.   *)
(*                                                                         *)
(* Observable: start[k], the simulated time at which command k starts.     *)
(* TLC enumerates every placement of the signal relative to the residual   *)
(* events.  SingleValued says all complete runs agree on start; it holds   *)
(* iff the signal can never land before the engine has gone idle           *)
(* (Eager = FALSE) -- which is the class of host schedules the harness     *)
(* forces on the real simulator ("eager" vs "lazy" modes of cmd/c05).      *)
(***************************************************************************)
EXTENDS Integers, Sequences, FiniteSets, TLC

CONSTANTS NCmd, Dur, Residual,
          Eager      \* TRUE: the signal may be handled while residual events are still pending

VARIABLES now,        \* engine time
          events,     \* set of times at which an event (driver tick or residual) is pending
          tickAt,     \* set of times at which a driver tick is scheduled (subset of events)
          k,          \* commands issued so far
          running,    \* 0, or completion time of the running command
          queued,     \* a command waits in the queue
          waiting,    \* application thread is inside DrainCommandQueue
          start       \* history: start times

vars == <<now, events, tickAt, k, running, queued, waiting, start>>

Init == /\ now = 0 /\ events = {} /\ tickAt = {} /\ k = 0 /\ running = 0
        /\ queued = FALSE /\ waiting = FALSE /\ start = <<>>

\* Application: enqueue the next command and signal; runAsync: TickLater at the current time.
\* (TickScheduler: schedule at NextTick(now) unless a tick is already scheduled at or after it.)
Signal ==
  /\ ~waiting /\ k < NCmd
  /\ (Eager \/ events = {})                       \* lazy hosts only get here once the engine is idle
  /\ k' = k + 1 /\ queued' = TRUE /\ waiting' = TRUE
  /\ IF \E t \in tickAt : t >= now + 1
     THEN UNCHANGED <<events, tickAt>>
     ELSE /\ tickAt' = tickAt \cup {now + 1} /\ events' = events \cup {now + 1}
  /\ UNCHANGED <<now, running, start>>

\* Engine: run the earliest pending event.
Min(S) == CHOOSE x \in S : \A y \in S : x <= y
Step ==
  /\ events # {}
  /\ LET t == Min(events) IN
     /\ now' = t
     /\ IF t \in tickAt
        THEN \* driver tick
             IF running # 0 /\ t >= running
             THEN \* completion: dequeue, notify the waiter, progress => tick again, platform winds down
                  /\ running' = 0 /\ waiting' = FALSE
                  /\ tickAt' = (tickAt \ {t}) \cup {t + 1}
                  /\ events' = (events \ {t}) \cup {t + i : i \in 1..(IF Residual > 1 THEN Residual ELSE 1)}
                  /\ UNCHANGED <<queued, start>>
             ELSE IF queued /\ running = 0
             THEN \* start the queued command; its completion arrives as an event at t + Dur
                  /\ queued' = FALSE /\ running' = t + Dur
                  /\ start' = Append(start, t)
                  /\ tickAt' = (tickAt \ {t}) \cup {t + Dur}
                  /\ events' = (events \ {t}) \cup {t + Dur}
                  /\ UNCHANGED waiting
             ELSE \* idle tick: no progress, not rescheduled
                  /\ tickAt' = tickAt \ {t} /\ events' = events \ {t}
                  /\ UNCHANGED <<running, queued, waiting, start>>
        ELSE \* residual event of another component
             /\ events' = events \ {t}
             /\ UNCHANGED <<tickAt, running, queued, waiting, start>>
  /\ UNCHANGED k

Next == Signal \/ Step
Spec == Init /\ [][Next]_vars

Finished == k = NCmd /\ ~waiting /\ events = {}

\* The first complete run stores its observables in TLC register 2; every later one must agree.
ASSUME TLCSet(2, <<>>)
SingleValued ==
  Finished =>
    IF TLCGet(2) = <<>> THEN TLCSet(2, <<start>>) ELSE TLCGet(2) = <<start>>
\* commands run one at a time in order
Ordered == \A i \in 1..(Len(start) - 1) : start[i] + Dur < start[i + 1]
=============================================================================
