SPECIFICATION SSpec
CONSTANTS
  PortCap = 4
  Dev = {}
  FifoOnly = TRUE
  MaxK = 3
  MinB = 0
  MaxB = 2
  MinW = 0
  MaxW = 2
  MinN = 0
  MaxN = 2
  Shapes <- Shapes_scen
INVARIANTS AtMostOnce NoError Bounded
CHECK_DEADLOCK FALSE
