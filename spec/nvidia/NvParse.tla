------------------------------ MODULE NvParse ------------------------------
(***************************************************************************)
(* The accel-sim kernel trace file format as read by nvidia/tracereader    *)
(* (ReadTrace / extractInst), over abstract lines:                         *)
(*   [k |-> "hdr", key, v]      -key = value                               *)
(*   [k |-> "blank"], [k |-> "cmt"]                                        *)
(*   [k |-> "tb", id |-> <<x,y,z>>]   thread block = x,y,z                 *)
(*   [k |-> "warp", id |-> n]         warp = n                             *)
(*   [k |-> "insts", n |-> n]         insts = n                            *)
(*   [k |-> "inst", toks |-> <<...>>] one instruction line                 *)
(* A token is [ty, n, s, pfx]: ty "x" = hexadecimal number (n = four       *)
(* 16-bit limbs, pfx = written with a 0x prefix), "d" = decimal number     *)
(* (n = <<v>>), "r" = register (n = <<id>>), "o" = opcode (s).             *)
(*                                                                         *)
(* Instruction line layout (positions depend on dest_num D and src_num S): *)
(*   PC mask D dest*D opcode S src*S mem_width [compress addr suffix...] imm*)
(* compress 0 = all addresses listed (the structure keeps the first),      *)
(* 1 = base + stride, 2 = base + deltas.                                   *)
(***************************************************************************)
EXTENDS Integers, Sequences, FiniteSets, TLC

Zero4 == <<0, 0, 0, 0>>
X(v) == [ty |-> "x", n |-> v, s |-> "", pfx |-> FALSE]
D(v) == [ty |-> "d", n |-> <<v>>, s |-> "", pfx |-> FALSE]
R(id) == [ty |-> "r", n |-> <<id>>, s |-> "R" \o ToString(id), pfx |-> FALSE]
O(s) == [ty |-> "o", n |-> <<>>, s |-> s, pfx |-> FALSE]
Num(t) == t.n[1]

\* ------------------------------------------------------------ instructions
ParseInst(toks) ==
  LET nd == Num(toks[3])
      ns == Num(toks[5 + nd])
      mem == SubSeq(toks, 6 + nd + ns, Len(toks))
      width == Num(mem[1])
      comp == IF width = 0 THEN 0 ELSE Num(mem[2])
  IN [pc |-> toks[1].n, mask |-> toks[2].n,
      dn |-> nd, dregs |-> [i \in 1..nd |-> Num(toks[3 + i])],
      op |-> toks[4 + nd].s,
      sn |-> ns, sregs |-> [i \in 1..ns |-> Num(toks[5 + nd + i])],
      width |-> width, comp |-> comp,
      addr |-> IF width = 0 THEN Zero4 ELSE mem[3].n,
      addrPfx |-> IF width = 0 THEN FALSE ELSE mem[3].pfx,
      s1 |-> IF width # 0 /\ comp = 1 THEN Num(mem[4]) ELSE 0,
      s2 |-> IF width # 0 /\ comp = 2 THEN [i \in 1..(Len(mem) - 4) |-> Num(mem[3 + i])] ELSE <<>>,
      imm |-> Num(mem[Len(mem)])]

\* inverse: the tokens of an instruction record (extra = further addresses of the list-all form)
InstToks(I, extra) ==
  <<X(I.pc), X(I.mask), D(I.dn)>> \o [i \in 1..I.dn |-> R(I.dregs[i])]
  \o <<O(I.op), D(I.sn)>> \o [i \in 1..I.sn |-> R(I.sregs[i])]
  \o (IF I.width = 0 THEN <<D(0)>>
      ELSE <<D(I.width), D(I.comp), [X(I.addr) EXCEPT !.pfx = I.addrPfx]>>
           \o (CASE I.comp = 0 -> [i \in 1..extra |-> [X(<<0, 0, 0, i>>) EXCEPT !.pfx = I.addrPfx]]
                 [] I.comp = 1 -> <<D(I.s1)>>
                 [] I.comp = 2 -> [i \in 1..Len(I.s2) |-> D(I.s2[i])]))
  \o <<D(I.imm)>>

WellFormedInst(I) ==
  /\ I.dn = Len(I.dregs) /\ I.sn = Len(I.sregs)
  /\ (I.width = 0 => I.comp = 0 /\ I.addr = Zero4 /\ ~I.addrPfx)
  /\ (I.width = 0 \/ I.comp # 1 => I.s1 = 0)
  /\ (I.width = 0 \/ I.comp # 2 => I.s2 = <<>>)

\* ------------------------------------------------------------------- files
EmptyFile == [hdr |-> <<>>, blocks |-> <<>>]

StepLine(st, ln) ==
  LET nb == Len(st.blocks) IN
  CASE ln.k = "hdr" -> [st EXCEPT !.hdr = (ln.key :> ln.v) @@ @]
    [] ln.k = "tb" -> [st EXCEPT !.blocks = Append(@, [id |-> ln.id, warps |-> <<>>])]
    [] ln.k = "warp" -> [st EXCEPT !.blocks[nb].warps = Append(@, [id |-> ln.id, n |-> 0, insts |-> <<>>])]
    [] ln.k = "insts" -> LET nw == Len(st.blocks[nb].warps) IN [st EXCEPT !.blocks[nb].warps[nw].n = ln.n]
    [] ln.k = "inst" -> LET nw == Len(st.blocks[nb].warps) IN
                         [st EXCEPT !.blocks[nb].warps[nw].insts =
                            Append(@, ParseInst(ln.toks) @@ [tb |-> st.blocks[nb].id, w |-> st.blocks[nb].warps[nw].id])]
    [] OTHER -> st

RECURSIVE ParseFrom(_, _, _)
ParseFrom(lines, i, st) == IF i > Len(lines) THEN st ELSE ParseFrom(lines, i + 1, StepLine(st, lines[i]))
ParseFile(lines) == ParseFrom(lines, 1, EmptyFile)

\* serialisation of a file structure; lay = layout choices that must not matter
RECURSIVE Flatten(_)
Flatten(ss) == IF ss = <<>> THEN <<>> ELSE Head(ss) \o Flatten(Tail(ss))
Opt(b, x) == IF b THEN <<x>> ELSE <<>>
Blank == [k |-> "blank"]
Cmt == [k |-> "cmt"]

SerWarp(w, lay) ==
  <<[k |-> "warp", id |-> w.id], [k |-> "insts", n |-> Len(w.insts)]>>
  \o [i \in 1..Len(w.insts) |-> [k |-> "inst", toks |-> InstToks(w.insts[i], lay.extra)]]
  \o Opt(lay.b3, Blank)
SerBlock(b, lay) ==
  Opt(lay.mark, Cmt) \o Opt(lay.b2, Blank) \o <<[k |-> "tb", id |-> b.id]>> \o Opt(lay.b2, Blank)
  \o Flatten([i \in 1..Len(b.warps) |-> SerWarp(b.warps[i], lay)]) \o Opt(lay.mark, Cmt)
Serialize(t, keys, lay) ==
  [i \in 1..Len(keys) |-> [k |-> "hdr", key |-> keys[i], v |-> t.hdr[keys[i]]]]
  \o Opt(lay.b1, Blank) \o Opt(lay.fmt, Cmt) \o Opt(lay.b1, Blank)
  \o Flatten([i \in 1..Len(t.blocks) |-> SerBlock(t.blocks[i], lay)])

\* what ParseFile returns for a well-formed structure: the structure itself
\* (instructions are tagged with the ids of their block and warp, warps carry their count)
Canon(t) ==
  [hdr |-> t.hdr,
   blocks |-> [b \in 1..Len(t.blocks) |->
     [id |-> t.blocks[b].id,
      warps |-> [w \in 1..Len(t.blocks[b].warps) |->
        LET ww == t.blocks[b].warps[w] IN
        [id |-> ww.id, n |-> Len(ww.insts),
         insts |-> [i \in 1..Len(ww.insts) |-> ww.insts[i] @@ [tb |-> t.blocks[b].id, w |-> ww.id]]]]]]]
=============================================================================
