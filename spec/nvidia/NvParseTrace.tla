---------------------------- MODULE NvParseTrace ----------------------------
(***************************************************************************)
(* Parser round trip on the real code.  Each "Parsed" record carries the   *)
(* abstract lines of a generated kernel trace file (whose rendering was    *)
(* given to tracereader.ReadTrace) and the structure ReadTrace returned;   *)
(* the reference parser of NvParse computes the expected structure.        *)
(* "List" records do the same for kernelslist.g.                           *)
(*                                                                         *)
(* As-implemented deviations, reported with a DEVIATION line:              *)
(*   OpcodeDropped  extractInst never fills Instruction.OpCode             *)
(*   HexPrefixAddr  a memory address written with the 0x prefix (as in the *)
(*                  shipped traces) is read as 0 (Sscanf %x)               *)
(***************************************************************************)
EXTENDS NvParse, TraceLib, Json

TraceLog == ndJsonDeserialize("trace.ndjson")
N == Len(TraceLog)
VARIABLE l
ASSUME HWInit
Ev == TraceLog[l]
Is(e) == l <= N /\ Ev.e = e /\ l' = l + 1

SameFields == {"pc", "mask", "dn", "dregs", "sn", "sregs", "width", "comp", "s1", "s2", "imm"}
InstOK(g, e) ==
  /\ \A f \in SameFields : g[f] = e[f]
  /\ g.dnames = [i \in 1..e.dn |-> "R" \o ToString(e.dregs[i])]
  /\ g.snames = [i \in 1..e.sn |-> "R" \o ToString(e.sregs[i])]
  /\ g.op = e.op \/ g.op = ""                                     \* OpcodeDropped
  /\ g.addr = e.addr \/ (e.addrPfx /\ g.addr = Zero4)             \* HexPrefixAddr
  /\ g.ids => g.tb = e.tb /\ g.w = e.w
InstDevs(g, e) == (IF g.op # e.op THEN {"OpcodeDropped"} ELSE {}) \cup (IF g.addr # e.addr THEN {"HexPrefixAddr"} ELSE {})

WarpOK(g, e) ==
  /\ g.n = e.n /\ g.cnt = Len(e.insts) /\ Len(g.insts) = Len(e.insts) /\ e.n = Len(e.insts)
  /\ g.ids => g.id = e.id
  /\ \A i \in 1..Len(e.insts) : InstOK(g.insts[i], e.insts[i])
BlockOK(g, e) ==
  /\ g.cnt = Len(e.warps) /\ Len(g.warps) = Len(e.warps)
  /\ g.ids => g.id = e.id
  /\ \A w \in 1..Len(e.warps) : WarpOK(g.warps[w], e.warps[w])
FileOK(g, e) ==
  /\ \A key \in DOMAIN e.hdr : g.hdr[key] = e.hdr[key]
  /\ g.cnt = Len(e.blocks) /\ Len(g.blocks) = Len(e.blocks)
  /\ \A b \in 1..Len(e.blocks) : BlockOK(g.blocks[b], e.blocks[b])
FileDevs(g, e) ==
  UNION {UNION {UNION {InstDevs(g.blocks[b].warps[w].insts[i], e.blocks[b].warps[w].insts[i])
                       : i \in 1..Len(e.blocks[b].warps[w].insts)}
                : w \in 1..Len(e.blocks[b].warps)}
         : b \in 1..Len(e.blocks)}

TInit == l = 1
TReset == Is("Reset")
TList == Is("List") /\ Ev.got = Ev.want
TParsed ==
  /\ Is("Parsed")
  /\ LET e == ParseFile(Ev.lines) IN
       /\ FileOK(Ev.got, e)
       /\ LET ds == FileDevs(Ev.got, e) IN ds # {} => PrintT(<<"DEVIATION", ds, l>>)
TNext == TReset \/ TList \/ TParsed
TSpec == TInit /\ [][TNext]_l

Mark == HWNote(l)
Accepted == HWReport(N)
=============================================================================
