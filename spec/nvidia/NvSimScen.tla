----------------------------- MODULE NvSimScen -----------------------------
(* NvSim with a history variable naming the kind of step taken: `tlc         *)
(* -simulate` on this module yields behaviours whose initial state (platform *)
(* shape + trace) and Submit positions become scenarios for the real         *)
(* simulator.                                                                *)
EXTENDS MC_NvSim
VARIABLE act
SInit == MCInit /\ act = [a |-> "Init"]
SNext ==
  \/ /\ Len(tr) < MaxK /\ (nextK = 0 \/ RandomElement(1..3) = 1)
     /\ SubmitNew(RandomElement(IF RandomElement(1..4) = 1 THEN KernelSet ELSE NDKernelSet))
     /\ act' = [a |-> IF Quiet /\ nextK > 0 THEN "SubmitIdle" ELSE "Submit"]
  \/ ObsNext /\ act' = [a |-> "Obs"]
  \/ RunNext /\ act' = [a |-> "Run"]
SSpec == SInit /\ [][SNext]_<<vars, act>>
=============================================================================
