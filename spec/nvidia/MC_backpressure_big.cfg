\* bounded ports under pressure: PortCap = 1 and three units per level, so that dispatch and report
\* steps meet a full buffer (a failed Send leaves the unit where it was: nothing is lost, nothing is
\* sent twice); intended design, kernels incl. empty units, up to 3 blocks / 3 warps
SPECIFICATION MCSpec
CONSTANTS
  PortCap = 1
  Dev = {}
  FifoOnly = TRUE
  MaxK = 1
  MinB = 0
  MaxB = 3
  MinW = 0
  MaxW = 3
  MinN = 1
  MaxN = 1
  Shapes <- Shapes_wide
INVARIANTS TerminatedDone AtMostOnce NoError Accounting Bounded
CHECK_DEADLOCK FALSE
