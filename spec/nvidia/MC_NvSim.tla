----------------------------- MODULE MC_NvSim -----------------------------
(* Model-checking instances of NvSim: every trace within the bounds, every  *)
(* listed platform shape, kernels submitted at any moment.                  *)
EXTENDS NvSim

CONSTANTS MaxK, MinB, MaxB, MinW, MaxW, MinN, MaxN,  \* trace bounds (ragged shapes included)
          Shapes                                     \* set of platform shapes

SeqsUpTo(S, lo, hi) == UNION {[1..n -> S] : n \in lo..hi}
BlockSet == SeqsUpTo(MinN..MaxN, MinW, MaxW)
KernelSet == SeqsUpTo(BlockSet, MinB, MaxB)
TraceSet == SeqsUpTo(KernelSet, 1, MaxK)

Sh(sm_, sub_) == [sm |-> sm_, sub |-> sub_]
Shapes_1 == {<<Sh(1, 1)>>}
Shapes_small == {<<Sh(1, 1)>>, <<Sh(1, 2)>>, <<Sh(2, 1)>>, <<Sh(1, 1), Sh(1, 1)>>}
Shapes_par == {<<Sh(2, 2)>>, <<Sh(1, 2), Sh(2, 1)>>}
Shapes_2dev == {<<Sh(1, 1), Sh(1, 1)>>}
Shapes_222 == {<<Sh(2, 2), Sh(2, 2)>>}

\* hand-picked ragged traces for the larger platform shapes
RaggedTraces == { <<  << <<2, 1>>, <<1>> >>, << <<1, 1, 2>> >>  >>,
                  <<  << <<1>>, <<2>>, <<1, 1>> >>  >>,
                  <<  << <<1>> >>, << <<1>> >>, << <<2, 1>> >>  >> }
DegenerateTraces == { <<  << <<2, 0>>, <<1>> >>  >>,
                      <<  << <<>>, <<1>> >>, << <<1>> >>  >>,
                      <<  <<>>, << <<1>> >>  >>,
                      <<  << <<0>> >>, <<>>, << <<>> >>  >> }

MCInit == \E sh \in Shapes, t \in TraceSet : InitWith(sh, t)
MCSpec == MCInit /\ [][Next]_vars
MCFair == MCSpec /\ WF_vars(Next)

RInit == \E sh \in Shapes, t \in RaggedTraces : InitWith(sh, t)
RSpec == RInit /\ [][Next]_vars
DInit == \E sh \in Shapes, t \in RaggedTraces \cup DegenerateTraces : InitWith(sh, t)
DSpec == DInit /\ [][Next]_vars
DFair == DSpec /\ WF_vars(Next)
=============================================================================
