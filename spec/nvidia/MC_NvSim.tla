----------------------------- MODULE MC_NvSim -----------------------------
(* Model-checking instances of NvSim: every trace within the bounds, every  *)
(* listed platform shape, kernels submitted at any moment.                  *)
EXTENDS NvSim

CONSTANTS MaxK, MinB, MaxB, MinW, MaxW, MinN, MaxN,  \* trace bounds (ragged shapes included)
          Shapes                                     \* set of platform shapes

SeqsUpTo(S, lo, hi) == UNION {[1..n -> S] : n \in lo..hi}
BlockSet == SeqsUpTo(MinN..MaxN, MinW, MaxW)
KernelSet == SeqsUpTo(BlockSet, MinB, MaxB)
TraceSet == SeqsUpTo(KernelSet, 1, MaxK)
NDKernelSet == SeqsUpTo(SeqsUpTo((IF MinN > 1 THEN MinN ELSE 1)..MaxN, 1, MaxW), 1, MaxB)   \* no empty unit

Sh(sm_, sub_) == [sm |-> sm_, sub |-> sub_]
Shapes_1 == {<<Sh(1, 1)>>}
Shapes_small == {<<Sh(1, 1)>>, <<Sh(1, 2)>>, <<Sh(2, 1)>>, <<Sh(1, 1), Sh(1, 1)>>}
Shapes_par == {<<Sh(2, 2)>>, <<Sh(1, 2), Sh(2, 1)>>}
Shapes_2dev == {<<Sh(1, 1), Sh(1, 1)>>}
Shapes_wide == {<<Sh(1, 3)>>, <<Sh(3, 1)>>, <<Sh(1, 1), Sh(1, 1), Sh(1, 1)>>}
Shapes_bp == {<<Sh(1, 3)>>, <<Sh(3, 1)>>}
Shapes_live == {<<Sh(1, 2)>>, <<Sh(1, 1), Sh(1, 1)>>}
Shapes_222 == {<<Sh(2, 2), Sh(2, 2)>>}
Shapes_scen == Shapes_small \cup Shapes_par \cup Shapes_222 \cup {<<Sh(3, 1)>>, <<Sh(1, 3)>>, <<Sh(2, 1), Sh(1, 1), Sh(1, 2)>>}

\* hand-picked ragged traces for the larger platform shapes
RaggedTraces == { <<  << <<2, 1>>, <<1>> >>, << <<1, 1, 2>> >>  >>,
                  <<  << <<1>>, <<2>>, <<1, 1>> >>  >>,
                  <<  << <<1>> >>, << <<1>> >>, << <<2, 1>> >>  >> }
DegenerateTraces == { <<  << <<2, 0>>, <<1>> >>  >>,
                      <<  << <<>>, <<1>> >>, << <<1>> >>  >>,
                      <<  <<>>, << <<1>> >>  >>,
                      <<  << <<0>> >>, <<>>, << <<>> >>  >> }

\* the trace is built while it is submitted: any kernel of KernelSet, at any moment, MaxK times
MCInit == \E sh \in Shapes : InitWith(sh, <<>>)
MCNext == (\E kern \in KernelSet : Len(tr) < MaxK /\ SubmitNew(kern)) \/ SimNext
MCSpec == MCInit /\ [][MCNext]_vars
MCFair == MCSpec /\ WF_vars(SimNext)
MCTermination == <>[](Quiet /\ AllDone)

\* hand-picked traces, loaded up front
RInit == \E sh \in Shapes, t \in RaggedTraces : InitWith(sh, t)
RSpec == RInit /\ [][Next]_vars
DInit == \E sh \in Shapes, t \in RaggedTraces \cup DegenerateTraces : InitWith(sh, t)
DSpec == DInit /\ [][Next]_vars
=============================================================================
