\* the tree as implemented on traces with empty units: TLC is EXPECTED to find a run that
\* stops with work left (TerminatedDone violated); the counterexample is replayed on the real code
SPECIFICATION DSpec
CONSTANTS
  PortCap = 4
  Dev = {"EmptyWarp", "EmptyBlock", "EmptyKernel"}
  FifoOnly = TRUE
  MaxK = 1
  MinB = 0
  MaxB = 1
  MinW = 0
  MaxW = 1
  MinN = 0
  MaxN = 1
  Shapes <- Shapes_2dev
INVARIANTS TerminatedDone
CHECK_DEADLOCK FALSE
