\* intended design (Dev = {}: empty units complete on receipt): every trace within the bounds,
\* degenerate ones included, kernels submitted at any moment
SPECIFICATION MCSpec
CONSTANTS
  PortCap = 4
  Dev = {}
  FifoOnly = TRUE
  MaxK = 2
  MinB = 0
  MaxB = 2
  MinW = 0
  MaxW = 2
  MinN = 0
  MaxN = 1
  Shapes <- Shapes_1
INVARIANTS TerminatedDone AtMostOnce NoError Accounting Bounded
CHECK_DEADLOCK FALSE
