\* bounded ports under pressure: PortCap = 1 and three units per level, so that dispatch and report
\* steps meet a full buffer (a failed Send leaves the unit where it was: nothing is lost, nothing is
\* sent twice); intended design, kernels of up to 2 blocks x 3 warps on 1x3 and 3x1 (big: 3 x 3 incl. empty units, 3 devices)
SPECIFICATION MCSpec
CONSTANTS
  PortCap = 1
  Dev = {}
  FifoOnly = TRUE
  MaxK = 1
  MinB = 1
  MaxB = 2
  MinW = 1
  MaxW = 3
  MinN = 1
  MaxN = 1
  Shapes <- Shapes_bp
INVARIANTS TerminatedDone AtMostOnce NoError Accounting Bounded
CHECK_DEADLOCK FALSE
