SPECIFICATION TSpec
CONSTRAINT Mark
POSTCONDITION Accepted
CHECK_DEADLOCK FALSE
