---------------------------- MODULE NvTickTrace ----------------------------
(***************************************************************************)
(* Tick-level trace specification: one log line per ENGINE EVENT of a real *)
(* run ("Tick": which component or connection ticked and the port events   *)
(* of that tick, in order).  NvTick predicts each tick completely: the     *)
(* sub-steps run in the order of the code on the specification's state and *)
(* must produce exactly the logged events; the wake/sleep flags are bound  *)
(* at every idle point: the real engine ran out of events  =>  nobody is   *)
(* awake in the model (a component the model believes awake but that has   *)
(* no pending tick in the code would be a lost wake-up).                   *)
(*                                                                         *)
(* Ticks the model did not predict (component not awake) are accepted when *)
(* they behave as the model's Tick does: akita may schedule a second tick  *)
(* event for a component that still has one pending at the current time.   *)
(*                                                                         *)
(* Empty units (as-implemented deviations): the model never completes them *)
(* on receipt (Dev = all); a unit received empty is kept in pend and, at   *)
(* the next tick of its holder, both continuations are tried: completed    *)
(* (repaired tree: a report is sent) or still pending.                     *)
(***************************************************************************)
EXTENDS NvTick, TraceLib, Json

TraceLog == ndJsonDeserialize("trace.ndjson")
N == Len(TraceLog)

VARIABLES l, pend, unpredicted
tvars == <<S, l, pend, unpredicted>>

ASSUME HWInit
Ev == TraceLog[l]
Is(e) == l <= N /\ Ev.e = e /\ l' = l + 1

TInit == S = InitState(<<>>, <<>>) /\ l = 1 /\ pend = {} /\ unpredicted = 0

TReset == /\ Is("Reset")
          /\ S' = [InitState(Ev.shape, <<>>) EXCEPT !.tr = Ev.tr]
          /\ pend' = {} /\ unpredicted' = 0

\* Driver.RunKernel + TickLater; the trace was loaded by Reset
TSubmit ==
  /\ Is("Submit") /\ Ev.k = S.nextK + 1 /\ Ev.k <= Len(S.tr) /\ Ev.pl = S.tr[Ev.k]
  /\ S' = [S EXCEPT !.nextK = Ev.k, !.drv.undisp = Append(@, Ev.k), !.drv.unfinished = @ + 1, !.awake[CDrv] = TRUE]
  /\ UNCHANGED <<pend, unpredicted>>

Match(L, G) ==
  /\ Len(L) = Len(G)
  /\ \A i \in 1..Len(L) : L[i].e = G[i].e /\ L[i].p = G[i].p /\ L[i].q = G[i].q /\ L[i].pl = G[i].pl

\* the holder of a pending empty unit completes it (what the repaired tree did when it received it)
Resolve(st, x) ==
  CASE x.k = "GPU" -> [st EXCEPT !.gpu[x.d].finished = @ + 1]
    [] x.k = "SM" -> [st EXCEPT !.sm[<<x.d, x.s>>].finished = @ + 1]
    [] x.k = "Subcore" -> [st EXCEPT !.sub[<<x.d, x.s, x.c>>].finished = @ + 1]

\* units received empty during this tick: the tick logged a Recv of an empty payload
NewPend(x, L) == IF \E i \in 1..Len(L) : L[i].e \in {"RecvK", "RecvB"} /\ L[i].pl = <<>> THEN {x}
                 ELSE IF \E i \in 1..Len(L) : L[i].e = "RecvW" /\ L[i].pl = 0 THEN {x} ELSE {}

TTick ==
  /\ Is("Tick") /\ Ev.x \in DOMAIN S.awake
  /\ \E resolve \in (IF Ev.x \in pend THEN BOOLEAN ELSE {FALSE}) :
       LET st0 == IF resolve THEN Resolve(S, Ev.x) ELSE S
           st1 == TickOf(st0, Ev.x) IN
       /\ Match(st1.log, Ev.evs)
       /\ S' = st1
       /\ pend' = (IF resolve THEN pend \ {Ev.x} ELSE pend) \cup NewPend(Ev.x, st1.log)
  /\ unpredicted' = unpredicted + (IF S.awake[Ev.x] THEN 0 ELSE 1)

CountersMatch ==
  /\ \A x \in DOMAIN S.sm : Ev.warps[x[1]][x[2]] = S.sm[x].warps
  /\ \A x \in DOMAIN S.sub : Ev.insts[x[1]][x[2]][x[3]] = S.sub[x].insts
  /\ Ev.hasSt =>
       /\ Ev.st.drv = <<Len(S.drv.undisp), Len(S.drv.free), S.drv.unfinished>>
       /\ \A d \in DOMAIN S.gpu : Ev.st.gpu[d] = <<Len(S.gpu[d].undisp), Len(S.gpu[d].free), S.gpu[d].unfinished, S.gpu[d].finished>>
       /\ \A x \in DOMAIN S.sm : Ev.st.sm[x[1]][x[2]] = <<Len(S.sm[x].undisp), Len(S.sm[x].free), S.sm[x].unfinished, S.sm[x].finished>>
       /\ \A x \in DOMAIN S.sub : Ev.st.sub[x[1]][x[2]][x[3]] = <<S.sub[x].left, S.sub[x].finished>>

PendKinds == {CASE x.k = "GPU" -> "EmptyKernel" [] x.k = "SM" -> "EmptyBlock" [] OTHER -> "EmptyWarp" : x \in pend}

\* the engine ran out of events: nobody may be awake in the model, and everything is done ...
TQuiesce ==
  /\ Is("Quiesce") /\ Idle /\ AllDone /\ CountersMatch
  /\ (unpredicted > 0 => PrintT(<<"UNPREDICTED", unpredicted, l>>))
  /\ UNCHANGED <<S, pend, unpredicted>>
\* ... or the run is stuck on empty units never reported finished (known deviation)
TQuiesceStuck ==
  /\ Is("Quiesce") /\ Idle /\ ~AllDone /\ pend # {} /\ CountersMatch
  /\ PrintT(<<"DEVIATION", PendKinds, l>>)
  /\ UNCHANGED <<S, pend, unpredicted>>

TNext == TReset \/ TSubmit \/ TTick \/ TQuiesce \/ TQuiesceStuck
TSpec == TInit /\ [][TNext]_tvars

Mark == HWNote(l)
Accepted == HWReport(N)
=============================================================================
