\* the tree as implemented (empty units never complete): every trace without empty units
SPECIFICATION MCSpec
CONSTANTS
  PortCap = 4
  Dev = {"EmptyWarp", "EmptyBlock", "EmptyKernel"}
  FifoOnly = TRUE
  MaxK = 2
  MinB = 1
  MaxB = 2
  MinW = 1
  MaxW = 2
  MinN = 1
  MaxN = 1
  Shapes <- Shapes_small
INVARIANTS TerminatedDone AtMostOnce NoError Accounting Bounded
CHECK_DEADLOCK FALSE
