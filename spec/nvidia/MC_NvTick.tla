----------------------------- MODULE MC_NvTick -----------------------------
(* Model-checking instances of NvTick: kernels of KernelSet submitted at any *)
(* moment (at most MaxK), any pending tick runs next.                        *)
EXTENDS NvTick

CONSTANTS MaxK, MinB, MaxB, MinW, MaxW, MinN, MaxN, Shapes

SeqsUpTo(X, lo, hi) == UNION {[1..n -> X] : n \in lo..hi}
KernelSet == SeqsUpTo(SeqsUpTo(MinN..MaxN, MinW, MaxW), MinB, MaxB)
Sh(sm_, sub_) == [sm |-> sm_, sub |-> sub_]
Shapes_small == {<<Sh(1, 1)>>, <<Sh(1, 2)>>, <<Sh(2, 1)>>, <<Sh(1, 1), Sh(1, 1)>>}
Shapes_par == {<<Sh(2, 2)>>, <<Sh(1, 2), Sh(2, 1)>>}
Shapes_q == {<<Sh(1, 2)>>, <<Sh(2, 1)>>}
Shapes_wide == {<<Sh(3, 1)>>, <<Sh(1, 3)>>}

MCInit == \E sh \in Shapes : S = InitState(sh, <<>>)
MCNext == \/ \E kern \in KernelSet : Len(S.tr) < MaxK /\ Submit(kern)
          \/ \E x \in DOMAIN S.awake : Tick(x)
MCSpec == MCInit /\ [][MCNext]_vars
MCFair == MCSpec /\ WF_vars(\E x \in DOMAIN S.awake : Tick(x))
=============================================================================
