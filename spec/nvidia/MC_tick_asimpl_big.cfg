\* wake/sleep protocol of the tree as implemented (dispatch reports no progress, empty units
\* never complete), every trace without empty units: the engine never goes idle with work left
SPECIFICATION MCSpec
CONSTANTS
  PortCap = 4
  Dev = {"EmptyWarp", "EmptyBlock", "EmptyKernel"}
  DispatchReportsProgress = FALSE
  Logging = FALSE
  MaxK = 1
  MinB = 1
  MaxB = 2
  MinW = 1
  MaxW = 2
  MinN = 1
  MaxN = 2
  Shapes <- Shapes_q
INVARIANTS IdleDone NoError AtMostOnce Bounded
CHECK_DEADLOCK FALSE
