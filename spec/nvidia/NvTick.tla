------------------------------- MODULE NvTick -------------------------------
(***************************************************************************)
(* The NVIDIA trace-driven simulator at the grain of akita's wake / sleep  *)
(* protocol: one action = one engine event = one Tick of a component or of *)
(* a direct connection, executing the sub-steps in the order of the code.  *)
(* A component has a tick pending (awake) iff                              *)
(*   - its last Tick reported progress (TickingComponent.Handle),          *)
(*   - a message was delivered into an EMPTY incoming buffer of one of its *)
(*     ports (Port.Deliver -> NotifyRecv),                                 *)
(*   - the connection took a message out of a FULL outgoing buffer of one  *)
(*     of its ports (Port.RetrieveOutgoing -> NotifyPortFree), or a peer   *)
(*     on the same connection retrieved from a FULL incoming buffer        *)
(*     (Port.RetrieveIncoming -> Connection.NotifyAvailable).              *)
(* A connection is awake iff a component sent into an EMPTY outgoing       *)
(* buffer (NotifySend), its last Tick delivered something, or             *)
(* NotifyAvailable was called.                                             *)
(* The engine runs any pending tick (akita fixes no order among events of  *)
(* equal time; components may also have different frequencies).            *)
(*                                                                         *)
(* The question this model answers, for every schedule: can the engine go  *)
(* idle (nobody awake) while work is left?  As implemented the dispatch    *)
(* sub-steps of GPU and SM report "no progress" even when they dispatched  *)
(* (DispatchReportsProgress = FALSE) and empty units never complete (Dev). *)
(***************************************************************************)
EXTENDS Integers, Sequences, FiniteSets, TLC

CONSTANTS PortCap,                  \* capacity of each port buffer
          Dev,                      \* subset of {"EmptyWarp", "EmptyBlock", "EmptyKernel"}
          DispatchReportsProgress,  \* FALSE on the pinned tree
          Logging                   \* TRUE: S.log holds the port events of the last tick (trace validation)

VARIABLE S   \* the whole simulator state (a record), see InitState
vars == <<S>>

\* ----------------------------------------------------------------- naming
Id(k, d, s, c) == [k |-> k, d |-> d, s |-> s, c |-> c]
\* ports
DRV == Id("drv", 0, 0, 0)
GU(d) == Id("gU", d, 0, 0)
GD(d) == Id("gD", d, 0, 0)
SU(d, s) == Id("sU", d, s, 0)
SD(d, s) == Id("sD", d, s, 0)
CP(d, s, c) == Id("c", d, s, c)
\* components and connections
CDrv == Id("Driver", 0, 0, 0)
CGpu(d) == Id("GPU", d, 0, 0)
CSm(d, s) == Id("SM", d, s, 0)
CSub(d, s, c) == Id("Subcore", d, s, c)
XD == Id("ConnDriver", 0, 0, 0)
XG(d) == Id("ConnGPU", d, 0, 0)
XS(d, s) == Id("ConnSM", d, s, 0)

Owner(p) == CASE p.k = "drv" -> CDrv
              [] p.k \in {"gU", "gD"} -> CGpu(p.d)
              [] p.k \in {"sU", "sD"} -> CSm(p.d, p.s)
              [] p.k = "c" -> CSub(p.d, p.s, p.c)
ConnOf(p) == CASE p.k \in {"drv", "gU"} -> XD
               [] p.k \in {"gD", "sU"} -> XG(p.d)
               [] p.k \in {"sD", "c"} -> XS(p.d, p.s)
\* ports of a connection in PlugIn order
PortsOfConn(sh, x) ==
  CASE x.k = "ConnDriver" -> <<DRV>> \o [d \in 1..Len(sh) |-> GU(d)]
    [] x.k = "ConnGPU" -> <<GD(x.d)>> \o [s \in 1..sh[x.d].sm |-> SU(x.d, s)]
    [] x.k = "ConnSM" -> <<SD(x.d, x.s)>> \o [c \in 1..sh[x.d].sub |-> CP(x.d, x.s, c)]

DevsOf(sh) == 1..Len(sh)
SMIdsOf(sh) == UNION {{<<d, s>> : s \in 1..sh[d].sm} : d \in DevsOf(sh)}
SubIdsOf(sh) == UNION {{<<d, s, c>> : s \in 1..sh[d].sm, c \in 1..sh[d].sub} : d \in DevsOf(sh)}
AllPorts(sh) == {DRV} \cup {GU(d) : d \in DevsOf(sh)} \cup {GD(d) : d \in DevsOf(sh)}
                \cup {SU(x[1], x[2]) : x \in SMIdsOf(sh)} \cup {SD(x[1], x[2]) : x \in SMIdsOf(sh)}
                \cup {CP(x[1], x[2], x[3]) : x \in SubIdsOf(sh)}
Comps(sh) == {CDrv} \cup {CGpu(d) : d \in DevsOf(sh)} \cup {CSm(x[1], x[2]) : x \in SMIdsOf(sh)}
             \cup {CSub(x[1], x[2], x[3]) : x \in SubIdsOf(sh)}
Conns(sh) == {XD} \cup {XG(d) : d \in DevsOf(sh)} \cup {XS(x[1], x[2]) : x \in SMIdsOf(sh)}

Msg(t, dst, a, b, c) == [t |-> t, dst |-> dst, a |-> a, b |-> b, c |-> c]
B2N(b) == IF b THEN 1 ELSE 0
SeqTo(n) == [i \in 1..n |-> i]

InitState(sh, t) ==
  [shape |-> sh, tr |-> t, nextK |-> 0,
   drv |-> [undisp |-> <<>>, free |-> SeqTo(Len(sh)), unfinished |-> 0],
   gpu |-> [d \in DevsOf(sh) |-> [undisp |-> <<>>, free |-> SeqTo(sh[d].sm), unfinished |-> 0, finished |-> 0]],
   sm |-> [x \in SMIdsOf(sh) |-> [undisp |-> <<>>, free |-> SeqTo(sh[x[1]].sub), unfinished |-> 0, finished |-> 0, warps |-> 0]],
   sub |-> [x \in SubIdsOf(sh) |-> [left |-> 0, finished |-> 0, insts |-> 0]],
   out |-> [p \in AllPorts(sh) |-> <<>>], inb |-> [p \in AllPorts(sh) |-> <<>>],
   awake |-> [x \in Comps(sh) \cup Conns(sh) |-> FALSE],
   rr |-> [x \in Conns(sh) |-> 0],
   gotK |-> 0, gotB |-> 0, gotW |-> 0,      \* units received by a device / SM / sub-core so far
   executed |-> 0, reportedK |-> 0, err |-> {},
   log |-> <<>>]                            \* port events of the last tick, in order (only if Logging)

\* ------------------------------------------------------------- port layer
\* what a message carries, as the port hooks see it
Payload(st, m) ==
  CASE m.t = "K" -> st.tr[m.a]
    [] m.t = "B" -> st.tr[m.a][m.b]
    [] m.t = "W" -> st.tr[m.a][m.b][m.c]
    [] m.t = "KF" -> <<m.a, 0, 0>>
    [] m.t = "BF" -> <<m.dst.d, m.a, 0>>
    [] m.t = "WF" -> <<m.dst.d, m.dst.s, m.a>>
LogEv(st, e, p, q, pl) == IF Logging THEN [st EXCEPT !.log = Append(@, [e |-> e, p |-> p, q |-> q, pl |-> pl])] ELSE st

CanSend(st, p) == Len(st.out[p]) < PortCap
\* Port.Send: NotifySend when the outgoing buffer was empty
SendF(st, p, m) ==
  LogEv([st EXCEPT !.out[p] = Append(@, m), !.awake[ConnOf(p)] = @ \/ st.out[p] = <<>>],
        "Send" \o m.t, p, m.dst, Payload(st, m))
\* Port.Deliver: NotifyRecv when the incoming buffer was empty (p = the sending port)
DeliverF(st, p, q, m) ==
  LogEv([st EXCEPT !.inb[q] = Append(@, m), !.awake[Owner(q)] = @ \/ st.inb[q] = <<>>], "Xfer", p, q, m.t)
\* Port.RetrieveIncoming: NotifyAvailable when the buffer was full
RetrieveInF(st, q) ==
  LET m == Head(st.inb[q])
      s1 == IF Len(st.inb[q]) = PortCap
            THEN LET x == ConnOf(q)
                     ps == PortsOfConn(st.shape, x)
                     woken == {Owner(ps[i]) : i \in {j \in DOMAIN ps : ps[j] # q}} IN
                 [st EXCEPT !.inb[q] = Tail(@),
                            !.awake = [y \in DOMAIN @ |-> IF y \in woken \/ y = x THEN TRUE ELSE @[y]]]
            ELSE [st EXCEPT !.inb[q] = Tail(@)] IN
  LogEv(s1, "Recv" \o m.t, q, q, Payload(st, m))
\* Port.RetrieveOutgoing: NotifyPortFree when the buffer was full
RetrieveOutF(st, p) ==
  [st EXCEPT !.out[p] = Tail(@), !.awake[Owner(p)] = @ \/ Len(st.out[p]) = PortCap]

R(st, prog) == [st |-> st, prog |-> prog]

\* ------------------------------------------------------------------ driver
DrvDispatchF(st) ==
  IF st.drv.undisp = <<>> \/ st.drv.free = <<>> \/ ~CanSend(st, DRV) THEN R(st, FALSE)
  ELSE LET k == Head(st.drv.undisp)
           d == Head(st.drv.free)
           s1 == SendF(st, DRV, Msg("K", GU(d), k, 0, 0)) IN
       R([s1 EXCEPT !.drv.undisp = Tail(@), !.drv.free = Tail(@)], TRUE)

DrvProcessF(st) ==
  IF st.inb[DRV] = <<>> THEN R(st, FALSE)
  ELSE LET d == Head(st.inb[DRV]).a
           s1 == [st EXCEPT !.drv.free = Append(@, d), !.drv.unfinished = @ - 1, !.reportedK = @ + 1,
                            !.err = @ \cup (IF \E i \in DOMAIN st.drv.free : st.drv.free[i] = d THEN {"device freed twice"} ELSE {})] IN
       R(RetrieveInF(s1, DRV), TRUE)

TickDriverF(st) ==
  LET r1 == DrvDispatchF(st)
      r2 == DrvProcessF(r1.st) IN
  [r2.st EXCEPT !.awake[CDrv] = @ \/ r1.prog \/ r2.prog]

\* --------------------------------------------------------------------- GPU
GpuReportF(st, d) ==
  IF st.gpu[d].finished = 0 \/ ~CanSend(st, GU(d)) THEN R(st, FALSE)
  ELSE R([SendF(st, GU(d), Msg("KF", DRV, d, 0, 0)) EXCEPT !.gpu[d].finished = @ - 1], TRUE)

GpuDispatchF(st, d) ==
  IF st.gpu[d].free = <<>> \/ st.gpu[d].undisp = <<>> \/ ~CanSend(st, GD(d)) THEN R(st, FALSE)
  ELSE LET s == Head(st.gpu[d].free)
           u == Head(st.gpu[d].undisp)
           s1 == SendF(st, GD(d), Msg("B", SU(d, s), u[1], u[2], 0)) IN
       R([s1 EXCEPT !.gpu[d].free = Tail(@), !.gpu[d].undisp = Tail(@)], DispatchReportsProgress)

GpuProcDriverF(st, d) ==
  IF st.inb[GU(d)] = <<>> THEN R(st, FALSE)
  ELSE LET k == Head(st.inb[GU(d)]).a
           n == Len(st.tr[k])
           s1 == [st EXCEPT !.gpu[d].undisp = @ \o [b \in 1..n |-> <<k, b>>],
                            !.gpu[d].unfinished = @ + n,
                            !.gpu[d].finished = @ + B2N(n = 0 /\ "EmptyKernel" \notin Dev),
                            !.gotK = @ + 1,
                            !.err = @ \cup (IF st.gpu[d].unfinished # 0 \/ st.gpu[d].finished # 0 \/ st.gpu[d].undisp # <<>>
                                            THEN {"kernel given to a busy device"} ELSE {})] IN
       R(RetrieveInF(s1, GU(d)), TRUE)

GpuProcSMsF(st, d) ==
  IF st.inb[GD(d)] = <<>> THEN R(st, FALSE)
  ELSE LET s == Head(st.inb[GD(d)]).a
           s1 == [st EXCEPT !.gpu[d].free = Append(@, s), !.gpu[d].unfinished = @ - 1,
                            !.gpu[d].finished = @ + B2N(st.gpu[d].unfinished - 1 = 0),
                            !.err = @ \cup (IF \E i \in DOMAIN st.gpu[d].free : st.gpu[d].free[i] = s THEN {"SM freed twice"} ELSE {})] IN
       R(RetrieveInF(s1, GD(d)), TRUE)

TickGpuF(st, d) ==
  LET r1 == GpuReportF(st, d)
      r2 == GpuDispatchF(r1.st, d)
      r3 == GpuProcDriverF(r2.st, d)
      r4 == GpuProcSMsF(r3.st, d) IN
  [r4.st EXCEPT !.awake[CGpu(d)] = @ \/ r1.prog \/ r2.prog \/ r3.prog \/ r4.prog]

\* ---------------------------------------------------------------------- SM
SmReportF(st, x) ==
  IF st.sm[x].finished = 0 \/ ~CanSend(st, SU(x[1], x[2])) THEN R(st, FALSE)
  ELSE R([SendF(st, SU(x[1], x[2]), Msg("BF", GD(x[1]), x[2], 0, 0)) EXCEPT !.sm[x].finished = @ - 1], TRUE)

SmDispatchF(st, x) ==
  IF st.sm[x].free = <<>> \/ st.sm[x].undisp = <<>> \/ ~CanSend(st, SD(x[1], x[2])) THEN R(st, FALSE)
  ELSE LET c == Head(st.sm[x].free)
           u == Head(st.sm[x].undisp)
           s1 == SendF(st, SD(x[1], x[2]), Msg("W", CP(x[1], x[2], c), u[1], u[2], u[3])) IN
       R([s1 EXCEPT !.sm[x].free = Tail(@), !.sm[x].undisp = Tail(@)], DispatchReportsProgress)

SmProcGpuF(st, x) ==
  LET p == SU(x[1], x[2]) IN
  IF st.inb[p] = <<>> THEN R(st, FALSE)
  ELSE LET m == Head(st.inb[p])
           n == Len(st.tr[m.a][m.b])
           s1 == [st EXCEPT !.sm[x].undisp = @ \o [w \in 1..n |-> <<m.a, m.b, w>>],
                            !.sm[x].unfinished = @ + n, !.sm[x].warps = @ + n,
                            !.sm[x].finished = @ + B2N(n = 0 /\ "EmptyBlock" \notin Dev),
                            !.gotB = @ + 1,
                            !.err = @ \cup (IF st.sm[x].unfinished # 0 \/ st.sm[x].finished # 0 \/ st.sm[x].undisp # <<>>
                                            THEN {"block given to a busy SM"} ELSE {})] IN
       R(RetrieveInF(s1, p), TRUE)

SmProcSubsF(st, x) ==
  LET p == SD(x[1], x[2]) IN
  IF st.inb[p] = <<>> THEN R(st, FALSE)
  ELSE LET c == Head(st.inb[p]).a
           s1 == [st EXCEPT !.sm[x].free = Append(@, c), !.sm[x].unfinished = @ - 1,
                            !.sm[x].finished = @ + B2N(st.sm[x].unfinished - 1 = 0),
                            !.err = @ \cup (IF \E i \in DOMAIN st.sm[x].free : st.sm[x].free[i] = c THEN {"sub-core freed twice"} ELSE {})] IN
       R(RetrieveInF(s1, p), TRUE)

TickSmF(st, x) ==
  LET r1 == SmReportF(st, x)
      r2 == SmDispatchF(r1.st, x)
      r3 == SmProcGpuF(r2.st, x)
      r4 == SmProcSubsF(r3.st, x) IN
  [r4.st EXCEPT !.awake[CSm(x[1], x[2])] = @ \/ r1.prog \/ r2.prog \/ r3.prog \/ r4.prog]

\* ---------------------------------------------------------------- sub-core
SubReportF(st, x) ==
  LET p == CP(x[1], x[2], x[3]) IN
  IF st.sub[x].finished = 0 \/ ~CanSend(st, p) THEN R(st, FALSE)
  ELSE R([SendF(st, p, Msg("WF", SD(x[1], x[2]), x[3], 0, 0)) EXCEPT !.sub[x].finished = @ - 1], TRUE)

SubRunF(st, x) ==
  IF st.sub[x].left = 0 THEN R(st, FALSE)
  ELSE R([st EXCEPT !.sub[x].left = @ - 1, !.sub[x].finished = @ + B2N(st.sub[x].left - 1 = 0), !.executed = @ + 1], TRUE)

SubProcF(st, x) ==
  LET p == CP(x[1], x[2], x[3]) IN
  IF st.inb[p] = <<>> THEN R(st, FALSE)
  ELSE LET m == Head(st.inb[p])
           n == st.tr[m.a][m.b][m.c]
           s1 == [st EXCEPT !.sub[x].left = n, !.sub[x].insts = @ + n,
                            !.sub[x].finished = @ + B2N(n = 0 /\ "EmptyWarp" \notin Dev),
                            !.gotW = @ + 1,
                            !.err = @ \cup (IF st.sub[x].left # 0 \/ st.sub[x].finished # 0
                                            THEN {"warp given to a busy sub-core"} ELSE {})] IN
       R(RetrieveInF(s1, p), TRUE)

TickSubF(st, x) ==
  LET r1 == SubReportF(st, x)
      r2 == SubRunF(r1.st, x)
      r3 == SubProcF(r2.st, x) IN
  [r3.st EXCEPT !.awake[CSub(x[1], x[2], x[3])] = @ \/ r1.prog \/ r2.prog \/ r3.prog]

\* -------------------------------------------------------------- connection
\* directconnection forwardMany(port): deliver head messages until the destination is full
RECURSIVE ForwardMany(_, _, _)
ForwardMany(st, p, prog) ==
  IF st.out[p] = <<>> THEN R(st, prog)
  ELSE LET m == Head(st.out[p]) IN
       IF Len(st.inb[m.dst]) >= PortCap THEN R(st, prog)
       ELSE ForwardMany(RetrieveOutF(DeliverF(st, p, m.dst, m), p), p, TRUE)

\* middleware.Tick: every port once, starting at nextPortID (round robin)
RECURSIVE ForwardPorts(_, _, _, _, _)
ForwardPorts(st, ps, i, start, prog) ==
  IF i >= Len(ps) THEN R(st, prog)
  ELSE LET r == ForwardMany(st, ps[((i + start) % Len(ps)) + 1], FALSE) IN
       ForwardPorts(r.st, ps, i + 1, start, prog \/ r.prog)

TickConnF(st, x) ==
  LET ps == PortsOfConn(st.shape, x)
      r == ForwardPorts(st, ps, 0, st.rr[x], FALSE) IN
  [r.st EXCEPT !.awake[x] = @ \/ r.prog, !.rr[x] = (@ + 1) % Len(ps)]

\* ------------------------------------------------------------------- steps
Asleep(st, x) == [st EXCEPT !.awake[x] = FALSE, !.log = <<>>]
TickOf(st, x) ==
  CASE x.k = "Driver" -> TickDriverF(Asleep(st, x))
    [] x.k = "GPU" -> TickGpuF(Asleep(st, x), x.d)
    [] x.k = "SM" -> TickSmF(Asleep(st, x), <<x.d, x.s>>)
    [] x.k = "Subcore" -> TickSubF(Asleep(st, x), <<x.d, x.s, x.c>>)
    [] OTHER -> TickConnF(Asleep(st, x), x)

\* one engine event
Tick(x) == S.awake[x] /\ S' = TickOf(S, x)

\* Driver.RunKernel(kern) followed by Driver.TickLater (runner.Run / the harness)
SubmitF(st, kern) ==
  [st EXCEPT !.tr = Append(@, kern), !.nextK = @ + 1,
             !.drv.undisp = Append(@, st.nextK + 1), !.drv.unfinished = @ + 1,
             !.awake[CDrv] = TRUE]
Submit(kern) == S' = SubmitF(S, kern)

\* -------------------------------------------------------------- properties
Idle == \A x \in DOMAIN S.awake : ~S.awake[x]
RECURSIVE SumFrom(_, _)
SumFrom(s, i) == IF i > Len(s) THEN 0 ELSE s[i] + SumFrom(s, i + 1)
SumSeq(s) == SumFrom(s, 1)
\* totals of the kernels submitted so far
NBlocks == SumSeq([k \in 1..S.nextK |-> Len(S.tr[k])])
NWarps == SumSeq([k \in 1..S.nextK |-> SumSeq([b \in 1..Len(S.tr[k]) |-> Len(S.tr[k][b])])])
NInsts == SumSeq([k \in 1..S.nextK |-> SumSeq([b \in 1..Len(S.tr[k]) |-> SumSeq(S.tr[k][b])])])
AllDone ==
  /\ S.drv.undisp = <<>> /\ S.drv.unfinished = 0 /\ Len(S.drv.free) = Len(S.shape)
  /\ \A d \in DOMAIN S.gpu : S.gpu[d].undisp = <<>> /\ S.gpu[d].unfinished = 0 /\ S.gpu[d].finished = 0
                             /\ Len(S.gpu[d].free) = S.shape[d].sm
  /\ \A x \in DOMAIN S.sm : S.sm[x].undisp = <<>> /\ S.sm[x].unfinished = 0 /\ S.sm[x].finished = 0
                            /\ Len(S.sm[x].free) = S.shape[x[1]].sub
  /\ \A x \in DOMAIN S.sub : S.sub[x].left = 0 /\ S.sub[x].finished = 0
  /\ \A p \in DOMAIN S.out : S.out[p] = <<>> /\ S.inb[p] = <<>>
  /\ S.gotK = S.nextK /\ S.gotB = NBlocks /\ S.gotW = NWarps
  /\ S.executed = NInsts /\ S.reportedK = S.nextK
\* the engine can only run out of events when everything is done: no lost wake-up
IdleDone == Idle => AllDone
NoError == S.err = {}
AtMostOnce == S.gotK <= S.nextK /\ S.gotB <= NBlocks /\ S.gotW <= NWarps /\ S.executed <= NInsts
Bounded == \A p \in DOMAIN S.out : Len(S.out[p]) <= PortCap /\ Len(S.inb[p]) <= PortCap
Termination == <>[](Idle /\ AllDone)
=============================================================================
