------------------------------- MODULE NvSim -------------------------------
(***************************************************************************)
(* NVIDIA trace-driven simulation (nvidia/driver, gpu, sm, subcore).       *)
(*                                                                         *)
(* A trace is a sequence of kernels, a kernel a sequence of thread blocks, *)
(* a block a sequence of warps, a warp a number of instructions (>= 0).    *)
(* A platform shape is a sequence (one entry per device) of                *)
(* [sm |-> #SMs, sub |-> #sub-cores per SM].                               *)
(*                                                                         *)
(* State = the work counters and free lists of the code at every level     *)
(* plus the two bounded buffers of every akita port.  One action per Tick  *)
(* sub-step of a component (dispatch / receive / report / run) and one for *)
(* the direct connection moving the head message of an outgoing buffer to  *)
(* the incoming buffer of its destination.  The order of sub-steps and of  *)
(* components is free: any engine schedule is an interleaving of these.    *)
(*                                                                         *)
(* Dev (DESIGN.md 2.2) names the places where the pinned tree departs from *)
(* the property: a unit with no sub-units is never reported finished.      *)
(*   "EmptyWarp"   Subcore.processSMMsg: 0 instructions -> run() never     *)
(*                 reaches the "last instruction" edge                     *)
(*   "EmptyBlock"  SM.processSMMsg: 0 warps -> no sub-core ever reports    *)
(*   "EmptyKernel" GPU.processDriverMsg: 0 blocks -> no SM ever reports    *)
(* Dev = {} is the intended design (empty units complete on receipt).      *)
(***************************************************************************)
EXTENDS Integers, Sequences, FiniteSets, TLC

CONSTANTS PortCap,    \* capacity of each port buffer (4 in the code)
          Dev,        \* subset of {"EmptyWarp", "EmptyBlock", "EmptyKernel"}
          FifoOnly    \* TRUE: dispatch the oldest undispatched unit (as the code); FALSE: any

VARIABLES
  shape,      \* platform shape
  tr,         \* the trace
  nextK,      \* number of kernels handed to Driver.RunKernel so far
  drv,        \* [undisp : Seq(k), free : SUBSET device, unfinished : Int]
  gpu,        \* d -> [undisp : Seq(<<k,b>>), free : SUBSET sm, unfinished, finished]
  sm,         \* <<d,s>> -> [undisp : Seq(<<k,b,w>>), free : SUBSET subcore, unfinished, finished, warps]
  sub,        \* <<d,s,c>> -> [left, finished, insts]
  out, inb,   \* port -> Seq(msg)
  \* history (observation only)
  gotK, gotB, gotW,   \* unit id -> number of times it was received by a device / SM / sub-core
  executed,           \* instructions executed (run sub-steps)
  reportedK,          \* kernel-finished reports taken by the driver
  err                 \* protocol errors seen (double free, work given to a busy unit, negative counter)

vars == <<shape, tr, nextK, drv, gpu, sm, sub, out, inb, gotK, gotB, gotW, executed, reportedK, err>>

\* ------------------------------------------------------------------ shapes
Devs == 1..Len(shape)
SMsOf(d) == 1..shape[d].sm
SubsOf(d) == 1..shape[d].sub
SMIds == UNION {{<<d, s>> : s \in SMsOf(d)} : d \in Devs}
SubIds == UNION {{<<d, s, c>> : s \in SMsOf(d), c \in SubsOf(d)} : d \in Devs}

P(k, d, s, c) == [k |-> k, d |-> d, s |-> s, c |-> c]
DRV == P("drv", 0, 0, 0)
GU(d) == P("gU", d, 0, 0)          \* GPU(d).ToDriver
GD(d) == P("gD", d, 0, 0)          \* GPU(d).ToSMs
SU(d, s) == P("sU", d, s, 0)       \* SM(d,s).ToGPU
SD(d, s) == P("sD", d, s, 0)       \* SM(d,s).ToSubcores
CP(d, s, c) == P("c", d, s, c)     \* Subcore(d,s,c).ToSM
PortsOf(sh) ==
  LET ds == 1..Len(sh)
      sms == UNION {{<<d, s>> : s \in 1..sh[d].sm} : d \in ds}
      sbs == UNION {{<<d, s, c>> : s \in 1..sh[d].sm, c \in 1..sh[d].sub} : d \in ds}
  IN {DRV} \cup {GU(d) : d \in ds} \cup {GD(d) : d \in ds}
     \cup {SU(x[1], x[2]) : x \in sms} \cup {SD(x[1], x[2]) : x \in sms}
     \cup {CP(x[1], x[2], x[3]) : x \in sbs}
Ports == PortsOf(shape)

\* messages: t in K (kernel) B (block) W (warp) KF BF WF (finished reports)
Msg(t, dst, a, b, c) == [t |-> t, dst |-> dst, a |-> a, b |-> b, c |-> c]

\* ------------------------------------------------------------------- trace
KIds == 1..Len(tr)
BIds == UNION {{<<k, b>> : b \in 1..Len(tr[k])} : k \in KIds}
WIds == UNION {{<<x[1], x[2], w>> : w \in 1..Len(tr[x[1]][x[2]])} : x \in BIds}
NB(k) == Len(tr[k])
NW(k, b) == Len(tr[k][b])
NI(k, b, w) == tr[k][b][w]

RECURSIVE SumFrom(_, _)
SumFrom(s, i) == IF i > Len(s) THEN 0 ELSE s[i] + SumFrom(s, i + 1)
SumSeq(s) == SumFrom(s, 1)                       \* sum of a sequence of integers (linear)
\* sums over the platform / the trace, written as nested sequence sums
SumSubs(F(_)) == SumSeq([d \in Devs |-> SumSeq([s \in SMsOf(d) |-> SumSeq([c \in SubsOf(d) |-> F(<<d, s, c>>)])])])
SumSMs(F(_)) == SumSeq([d \in Devs |-> SumSeq([s \in SMsOf(d) |-> F(<<d, s>>)])])
SumWarps(kmax, F(_)) == SumSeq([k \in 1..kmax |-> SumSeq([b \in 1..NB(k) |-> SumSeq([w \in 1..NW(k, b) |-> F(<<k, b, w>>)])])])

Remove(s, i) == [j \in 1..(Len(s) - 1) |-> IF j < i THEN s[j] ELSE s[j + 1]]
Idx(s) == IF FifoOnly THEN {1} \cap DOMAIN s ELSE DOMAIN s
B2N(b) == IF b THEN 1 ELSE 0

\* -------------------------------------------------------------------- init
InitVal(sh, t) ==
  [shape |-> sh, tr |-> t, nextK |-> 0,
   drv |-> [undisp |-> <<>>, free |-> 1..Len(sh), unfinished |-> 0],
   gpu |-> [d \in 1..Len(sh) |-> [undisp |-> <<>>, free |-> 1..sh[d].sm, unfinished |-> 0, finished |-> 0]],
   sm |-> [x \in UNION {{<<d, s>> : s \in 1..sh[d].sm} : d \in 1..Len(sh)} |->
             [undisp |-> <<>>, free |-> 1..sh[x[1]].sub, unfinished |-> 0, finished |-> 0, warps |-> 0]],
   sub |-> [x \in UNION {{<<d, s, c>> : s \in 1..sh[d].sm, c \in 1..sh[d].sub} : d \in 1..Len(sh)} |->
             [left |-> 0, finished |-> 0, insts |-> 0]],
   out |-> [p \in PortsOf(sh) |-> <<>>], inb |-> [p \in PortsOf(sh) |-> <<>>],
   gotK |-> [k \in 1..Len(t) |-> 0],
   gotB |-> [x \in UNION {{<<k, b>> : b \in 1..Len(t[k])} : k \in 1..Len(t)} |-> 0],
   gotW |-> [x \in UNION {UNION {{<<k, b, w>> : w \in 1..Len(t[k][b])} : b \in 1..Len(t[k])} : k \in 1..Len(t)} |-> 0]]

InitWith(sh, t) ==
  LET v == InitVal(sh, t) IN
  /\ shape = v.shape /\ tr = v.tr /\ nextK = v.nextK /\ drv = v.drv /\ gpu = v.gpu /\ sm = v.sm /\ sub = v.sub
  /\ out = v.out /\ inb = v.inb /\ gotK = v.gotK /\ gotB = v.gotB /\ gotW = v.gotW
  /\ executed = 0 /\ reportedK = 0 /\ err = {}

\* start over with another platform and trace (concatenated traces)
ResetTo(v) ==
  /\ shape' = v.shape /\ tr' = v.tr /\ nextK' = v.nextK /\ drv' = v.drv /\ gpu' = v.gpu /\ sm' = v.sm /\ sub' = v.sub
  /\ out' = v.out /\ inb' = v.inb /\ gotK' = v.gotK /\ gotB' = v.gotB /\ gotW' = v.gotW
  /\ executed' = 0 /\ reportedK' = 0 /\ err' = {}

Put(f, p, m) == [f EXCEPT ![p] = Append(@, m)]
Pop(f, p) == [f EXCEPT ![p] = Tail(@)]
CanSend(p) == Len(out[p]) < PortCap
HasIn(p, t) == inb[p] # <<>> /\ Head(inb[p]).t = t

\* ------------------------------------------------------------- environment
\* Driver.RunKernel(kernel k of the trace)
Submit(k) ==
  /\ k = nextK + 1 /\ k <= Len(tr)
  /\ nextK' = k
  /\ drv' = [drv EXCEPT !.undisp = Append(@, k), !.unfinished = @ + 1]
  /\ UNCHANGED <<shape, tr, gpu, sm, sub, out, inb, gotK, gotB, gotW, executed, reportedK, err>>

\* Driver.RunKernel with a kernel that extends the trace (the trace is built as it is submitted)
SubmitNew(kern) ==
  /\ nextK = Len(tr)
  /\ LET k == nextK + 1
         nb == {<<k, b>> : b \in 1..Len(kern)}
         nw == UNION {{<<k, b, w>> : w \in 1..Len(kern[b])} : b \in 1..Len(kern)} IN
       /\ tr' = Append(tr, kern) /\ nextK' = k
       /\ drv' = [drv EXCEPT !.undisp = Append(@, k), !.unfinished = @ + 1]
       /\ gotK' = [i \in 1..k |-> IF i < k THEN gotK[i] ELSE 0]
       /\ gotB' = [x \in DOMAIN gotB \cup nb |-> IF x \in DOMAIN gotB THEN gotB[x] ELSE 0]
       /\ gotW' = [x \in DOMAIN gotW \cup nw |-> IF x \in DOMAIN gotW THEN gotW[x] ELSE 0]
  /\ UNCHANGED <<shape, gpu, sm, sub, out, inb, executed, reportedK, err>>

\* -------------------------------------------------------------- connection
\* directconnection.forwardMany: head of an outgoing buffer -> incoming buffer of its destination
Xfer(p) ==
  /\ p \in Ports /\ out[p] # <<>>
  /\ LET m == Head(out[p]) IN
       /\ Len(inb[m.dst]) < PortCap
       /\ inb' = Put(inb, m.dst, m)
  /\ out' = Pop(out, p)
  /\ UNCHANGED <<shape, tr, nextK, drv, gpu, sm, sub, gotK, gotB, gotW, executed, reportedK, err>>

\* ------------------------------------------------------------------ driver
\* Driver.dispatchKernelsToDevices
DrvDispatch(i, d) ==
  /\ i \in DOMAIN drv.undisp /\ d \in drv.free /\ CanSend(DRV)
  /\ out' = Put(out, DRV, Msg("K", GU(d), drv.undisp[i], 0, 0))
  /\ drv' = [drv EXCEPT !.undisp = Remove(@, i), !.free = @ \ {d}]
  /\ UNCHANGED <<shape, tr, nextK, gpu, sm, sub, inb, gotK, gotB, gotW, executed, reportedK, err>>

\* Driver.processDeviceMsg
DrvRecvKF ==
  /\ HasIn(DRV, "KF")
  /\ LET d == Head(inb[DRV]).a IN
       /\ drv' = [drv EXCEPT !.free = @ \cup {d}, !.unfinished = @ - 1]
       /\ err' = err \cup (IF d \in drv.free THEN {"device freed twice"} ELSE {})
                     \cup (IF drv.unfinished <= 0 THEN {"driver unfinished-kernel count negative"} ELSE {})
  /\ inb' = Pop(inb, DRV)
  /\ reportedK' = reportedK + 1
  /\ UNCHANGED <<shape, tr, nextK, gpu, sm, sub, out, gotK, gotB, gotW, executed>>

\* --------------------------------------------------------------------- GPU
\* GPU.processDriverMsg; stuck = the deviation "EmptyKernel" is taken
GpuRecvKernelP(d, stuck) ==
  /\ HasIn(GU(d), "K")
  /\ LET k == Head(inb[GU(d)]).a
         n == NB(k) IN
       /\ gpu' = [gpu EXCEPT ![d].undisp = @ \o [b \in 1..n |-> <<k, b>>],
                             ![d].unfinished = @ + n,
                             ![d].finished = @ + B2N(n = 0 /\ ~stuck)]
       /\ gotK' = [gotK EXCEPT ![k] = @ + 1]
       /\ err' = err \cup (IF gpu[d].unfinished # 0 \/ gpu[d].finished # 0 \/ gpu[d].undisp # <<>>
                           THEN {"kernel given to a busy device"} ELSE {})
  /\ inb' = Pop(inb, GU(d))
  /\ UNCHANGED <<shape, tr, nextK, drv, sm, sub, out, gotB, gotW, executed, reportedK>>
GpuRecvKernel(d) == GpuRecvKernelP(d, "EmptyKernel" \in Dev)

\* GPU.dispatchThreadblocksToSMs
GpuDispatch(d, i, s) ==
  /\ i \in DOMAIN gpu[d].undisp /\ s \in gpu[d].free /\ CanSend(GD(d))
  /\ LET u == gpu[d].undisp[i] IN out' = Put(out, GD(d), Msg("B", SU(d, s), u[1], u[2], 0))
  /\ gpu' = [gpu EXCEPT ![d].undisp = Remove(@, i), ![d].free = @ \ {s}]
  /\ UNCHANGED <<shape, tr, nextK, drv, sm, sub, inb, gotK, gotB, gotW, executed, reportedK, err>>

\* GPU.processSMsMsg
GpuRecvBF(d) ==
  /\ HasIn(GD(d), "BF")
  /\ LET s == Head(inb[GD(d)]).a IN
       /\ gpu' = [gpu EXCEPT ![d].free = @ \cup {s}, ![d].unfinished = @ - 1,
                             ![d].finished = @ + B2N(gpu[d].unfinished - 1 = 0)]
       /\ err' = err \cup (IF s \in gpu[d].free THEN {"SM freed twice"} ELSE {})
                     \cup (IF gpu[d].unfinished <= 0 THEN {"device unfinished-block count negative"} ELSE {})
  /\ inb' = Pop(inb, GD(d))
  /\ UNCHANGED <<shape, tr, nextK, drv, sm, sub, out, gotK, gotB, gotW, executed, reportedK>>

\* GPU.reportFinishedKernels
GpuReport(d) ==
  /\ gpu[d].finished > 0 /\ CanSend(GU(d))
  /\ out' = Put(out, GU(d), Msg("KF", DRV, d, 0, 0))
  /\ gpu' = [gpu EXCEPT ![d].finished = @ - 1]
  /\ UNCHANGED <<shape, tr, nextK, drv, sm, sub, inb, gotK, gotB, gotW, executed, reportedK, err>>

\* ---------------------------------------------------------------------- SM
\* SM.processSMMsg
SmRecvBlockP(d, s, stuck) ==
  /\ HasIn(SU(d, s), "B")
  /\ LET m == Head(inb[SU(d, s)])
         k == m.a
         b == m.b
         n == NW(k, b) IN
       /\ sm' = [sm EXCEPT ![<<d, s>>].undisp = @ \o [w \in 1..n |-> <<k, b, w>>],
                           ![<<d, s>>].unfinished = @ + n,
                           ![<<d, s>>].warps = @ + n,
                           ![<<d, s>>].finished = @ + B2N(n = 0 /\ ~stuck)]
       /\ gotB' = [gotB EXCEPT ![<<k, b>>] = @ + 1]
       /\ err' = err \cup (IF sm[<<d, s>>].unfinished # 0 \/ sm[<<d, s>>].finished # 0 \/ sm[<<d, s>>].undisp # <<>>
                           THEN {"block given to a busy SM"} ELSE {})
  /\ inb' = Pop(inb, SU(d, s))
  /\ UNCHANGED <<shape, tr, nextK, drv, gpu, sub, out, gotK, gotW, executed, reportedK>>
SmRecvBlock(d, s) == SmRecvBlockP(d, s, "EmptyBlock" \in Dev)

\* SM.dispatchThreadblocksToSubcores
SmDispatch(d, s, i, c) ==
  /\ i \in DOMAIN sm[<<d, s>>].undisp /\ c \in sm[<<d, s>>].free /\ CanSend(SD(d, s))
  /\ LET u == sm[<<d, s>>].undisp[i] IN out' = Put(out, SD(d, s), Msg("W", CP(d, s, c), u[1], u[2], u[3]))
  /\ sm' = [sm EXCEPT ![<<d, s>>].undisp = Remove(@, i), ![<<d, s>>].free = @ \ {c}]
  /\ UNCHANGED <<shape, tr, nextK, drv, gpu, sub, inb, gotK, gotB, gotW, executed, reportedK, err>>

\* SM.processSubcoreSubcoresg
SmRecvWF(d, s) ==
  /\ HasIn(SD(d, s), "WF")
  /\ LET c == Head(inb[SD(d, s)]).a IN
       /\ sm' = [sm EXCEPT ![<<d, s>>].free = @ \cup {c}, ![<<d, s>>].unfinished = @ - 1,
                           ![<<d, s>>].finished = @ + B2N(sm[<<d, s>>].unfinished - 1 = 0)]
       /\ err' = err \cup (IF c \in sm[<<d, s>>].free THEN {"sub-core freed twice"} ELSE {})
                     \cup (IF sm[<<d, s>>].unfinished <= 0 THEN {"SM unfinished-warp count negative"} ELSE {})
  /\ inb' = Pop(inb, SD(d, s))
  /\ UNCHANGED <<shape, tr, nextK, drv, gpu, sub, out, gotK, gotB, gotW, executed, reportedK>>

\* SM.reportFinishedKernels (reports a finished thread block)
SmReport(d, s) ==
  /\ sm[<<d, s>>].finished > 0 /\ CanSend(SU(d, s))
  /\ out' = Put(out, SU(d, s), Msg("BF", GD(d), s, 0, 0))
  /\ sm' = [sm EXCEPT ![<<d, s>>].finished = @ - 1]
  /\ UNCHANGED <<shape, tr, nextK, drv, gpu, sub, inb, gotK, gotB, gotW, executed, reportedK, err>>

\* ---------------------------------------------------------------- sub-core
\* Subcore.processSMMsg: the remaining-instruction counter is *assigned*
SubRecvWarpP(d, s, c, stuck) ==
  /\ HasIn(CP(d, s, c), "W")
  /\ LET m == Head(inb[CP(d, s, c)])
         n == NI(m.a, m.b, m.c) IN
       /\ sub' = [sub EXCEPT ![<<d, s, c>>].left = n,
                             ![<<d, s, c>>].insts = @ + n,
                             ![<<d, s, c>>].finished = @ + B2N(n = 0 /\ ~stuck)]
       /\ gotW' = [gotW EXCEPT ![<<m.a, m.b, m.c>>] = @ + 1]
       /\ err' = err \cup (IF sub[<<d, s, c>>].left # 0 \/ sub[<<d, s, c>>].finished # 0
                           THEN {"warp given to a busy sub-core"} ELSE {})
  /\ inb' = Pop(inb, CP(d, s, c))
  /\ UNCHANGED <<shape, tr, nextK, drv, gpu, sm, out, gotK, gotB, executed, reportedK>>
SubRecvWarp(d, s, c) == SubRecvWarpP(d, s, c, "EmptyWarp" \in Dev)

\* Subcore.run: one instruction per tick
SubRun(d, s, c) ==
  /\ sub[<<d, s, c>>].left > 0
  /\ sub' = [sub EXCEPT ![<<d, s, c>>].left = @ - 1,
                        ![<<d, s, c>>].finished = @ + B2N(sub[<<d, s, c>>].left - 1 = 0)]
  /\ executed' = executed + 1
  /\ UNCHANGED <<shape, tr, nextK, drv, gpu, sm, out, inb, gotK, gotB, gotW, reportedK, err>>

\* Subcore.reportFinishedWarps
SubReport(d, s, c) ==
  /\ sub[<<d, s, c>>].finished > 0 /\ CanSend(CP(d, s, c))
  /\ out' = Put(out, CP(d, s, c), Msg("WF", SD(d, s), c, 0, 0))
  /\ sub' = [sub EXCEPT ![<<d, s, c>>].finished = @ - 1]
  /\ UNCHANGED <<shape, tr, nextK, drv, gpu, sm, inb, gotK, gotB, gotW, executed, reportedK, err>>

\* -------------------------------------------------------------------- next
\* steps that exchange a message (visible at the ports) ...
ObsNext ==
  \/ \E p \in Ports : Xfer(p)
  \/ \E i \in Idx(drv.undisp), d \in Devs : DrvDispatch(i, d)
  \/ DrvRecvKF
  \/ \E d \in Devs :
       \/ GpuRecvKernel(d) \/ GpuRecvBF(d) \/ GpuReport(d)
       \/ \E i \in Idx(gpu[d].undisp), s \in SMsOf(d) : GpuDispatch(d, i, s)
  \/ \E x \in SMIds :
       \/ SmRecvBlock(x[1], x[2]) \/ SmRecvWF(x[1], x[2]) \/ SmReport(x[1], x[2])
       \/ \E i \in Idx(sm[x].undisp), c \in SubsOf(x[1]) : SmDispatch(x[1], x[2], i, c)
  \/ \E x \in SubIds : SubRecvWarp(x[1], x[2], x[3]) \/ SubReport(x[1], x[2], x[3])
\* ... and instruction execution inside a sub-core
RunNext == \E x \in SubIds : SubRun(x[1], x[2], x[3])
SimNext == ObsNext \/ RunNext

Next == Submit(nextK + 1) \/ SimNext

\* -------------------------------------------------------------- properties
\* nothing left that any component or connection could do
Quiet ==
  /\ \A p \in Ports : out[p] = <<>>
  /\ \A p \in Ports : inb[p] = <<>>
  /\ (drv.undisp = <<>> \/ drv.free = {})
  /\ \A d \in Devs : gpu[d].finished = 0 /\ (gpu[d].undisp = <<>> \/ gpu[d].free = {})
  /\ \A x \in SMIds : sm[x].finished = 0 /\ (sm[x].undisp = <<>> \/ sm[x].free = {})
  /\ \A x \in SubIds : sub[x].left = 0 /\ sub[x].finished = 0

DevIdle(d) == gpu[d].undisp = <<>> /\ gpu[d].unfinished = 0 /\ gpu[d].finished = 0 /\ gpu[d].free = SMsOf(d)
SMIdle(x) == sm[x].undisp = <<>> /\ sm[x].unfinished = 0 /\ sm[x].finished = 0 /\ sm[x].free = SubsOf(x[1])
SubIdle(x) == sub[x].left = 0 /\ sub[x].finished = 0

SubmittedB == {x \in BIds : x[1] <= nextK}
SubmittedW == {x \in WIds : x[1] <= nextK}
InstsSubmitted == SumWarps(nextK, LAMBDA x : NI(x[1], x[2], x[3]))
WarpsSubmitted == SumWarps(nextK, LAMBDA x : 1)
InstsHeld == SumSubs(LAMBDA x : sub[x].insts)      \* what Subcore.GetTotalInstsCount adds up to
WarpsHeld == SumSMs(LAMBDA x : sm[x].warps)        \* what SM.GetTotalWarpsCount adds up to

\* every submitted kernel, block and warp executed exactly once, instruction count conserved,
\* every unit idle, every kernel reported finished
AllDone ==
  /\ drv.undisp = <<>> /\ drv.unfinished = 0 /\ drv.free = Devs
  /\ \A d \in Devs : DevIdle(d)
  /\ \A x \in SMIds : SMIdle(x)
  /\ \A x \in SubIds : SubIdle(x)
  /\ \A k \in 1..nextK : gotK[k] = 1
  /\ \A x \in SubmittedB : gotB[x] = 1
  /\ \A x \in SubmittedW : gotW[x] = 1
  /\ executed = InstsSubmitted
  /\ InstsHeld = InstsSubmitted
  /\ WarpsHeld = WarpsSubmitted
  /\ reportedK = nextK

\* the run can only stop when everything is done
TerminatedDone == Quiet => AllDone
\* a unit is never executed twice
AtMostOnce == /\ \A k \in KIds : gotK[k] <= 1
              /\ \A x \in BIds : gotB[x] <= 1
              /\ \A x \in WIds : gotW[x] <= 1
NoError == err = {}
\* counters stay consistent while running
Accounting ==
  /\ drv.unfinished >= 0 /\ drv.unfinished = nextK - reportedK
  /\ \A d \in Devs : gpu[d].unfinished >= 0 /\ gpu[d].finished >= 0
  /\ \A x \in SMIds : sm[x].unfinished >= 0 /\ sm[x].finished >= 0
  /\ \A x \in SubIds : sub[x].left >= 0 /\ sub[x].finished >= 0
  /\ InstsHeld = executed + SumSubs(LAMBDA x : sub[x].left)
  /\ InstsHeld = SumWarps(Len(tr), LAMBDA x : IF gotW[x] = 1 THEN NI(x[1], x[2], x[3]) ELSE 0)
  /\ WarpsHeld = SumWarps(Len(tr), LAMBDA x : IF gotB[<<x[1], x[2]>>] = 1 THEN 1 ELSE 0)
  /\ executed <= InstsSubmitted
Bounded == /\ \A p \in Ports : Len(out[p]) <= PortCap
           /\ \A p \in Ports : Len(inb[p]) <= PortCap
\* Quiet is exactly "no simulation step is enabled" (cross-check of the hand-written predicate)
QuietIsDeadlock == Quiet <=> ~ENABLED SimNext

\* liveness: every run terminates with everything done
Termination == <>[](nextK = Len(tr) /\ Quiet /\ AllDone)
=============================================================================
