SPECIFICATION TSpec
CONSTANTS
  PortCap = 4
  Dev = {"EmptyWarp", "EmptyBlock", "EmptyKernel"}
  DispatchReportsProgress = FALSE
  Logging = TRUE
INVARIANTS NoError
CONSTRAINT Mark
POSTCONDITION Accepted
CHECK_DEADLOCK FALSE
