\* intended design: every fair run ends with everything done; Quiet = no step enabled
SPECIFICATION MCFair
CONSTANTS
  PortCap = 4
  Dev = {}
  FifoOnly = TRUE
  MaxK = 1
  MinB = 0
  MaxB = 2
  MinW = 0
  MaxW = 2
  MinN = 0
  MaxN = 1
  Shapes <- Shapes_live
INVARIANTS QuietIsDeadlock
PROPERTIES MCTermination
CHECK_DEADLOCK FALSE
