\* hand-picked ragged traces (and, with the intended design, degenerate ones) on parallel platforms
SPECIFICATION DSpec
CONSTANTS
  PortCap = 4
  Dev = {}
  FifoOnly = TRUE
  MaxK = 1
  MinB = 0
  MaxB = 1
  MinW = 0
  MaxW = 1
  MinN = 0
  MaxN = 1
  Shapes <- Shapes_par
INVARIANTS TerminatedDone AtMostOnce NoError Accounting Bounded
CHECK_DEADLOCK FALSE
