---------------------------- MODULE MC_NvParse ----------------------------
(* Round trip on the model: ParseInst(InstToks(I)) = I for every well-formed *)
(* instruction of a combinatorial set, and ParseFile(Serialize(t)) = t for   *)
(* every file structure within the bounds under every layout.                *)
EXTENDS NvParse

CONSTANTS MaxBlocks, MaxWarps, MaxInsts

VARIABLES what, val, lay
mvars == <<what, val, lay>>

Regs == {0, 7, 255}
RegSeqs == {<<>>} \cup {<<a>> : a \in Regs} \cup {<<a, b>> : a \in Regs, b \in {0, 255}}
MemForms == { [width |-> 0, comp |-> 0, addr |-> Zero4, addrPfx |-> FALSE, s1 |-> 0, s2 |-> <<>>],
              [width |-> 4, comp |-> 0, addr |-> <<0, 32688, 64579, 3584>>, addrPfx |-> TRUE, s1 |-> 0, s2 |-> <<>>],
              [width |-> 8, comp |-> 1, addr |-> <<0, 32688, 64579, 3584>>, addrPfx |-> FALSE, s1 |-> 4, s2 |-> <<>>],
              [width |-> 4, comp |-> 1, addr |-> <<0, 0, 0, 16>>, addrPfx |-> TRUE, s1 |-> -4, s2 |-> <<>>],
              [width |-> 16, comp |-> 2, addr |-> <<0, 1, 2, 3>>, addrPfx |-> TRUE, s1 |-> 0, s2 |-> <<>>],
              [width |-> 2, comp |-> 2, addr |-> <<0, 1, 2, 3>>, addrPfx |-> FALSE, s1 |-> 0, s2 |-> <<5, -7, 0>>] }
InstSet == { [pc |-> <<0, 0, 0, 160>>, mask |-> <<0, 0, 65535, 65535>>, dn |-> Len(dr), dregs |-> dr, op |-> "LDG.E",
              sn |-> Len(sr), sregs |-> sr, imm |-> im] @@ m : dr \in RegSeqs, sr \in RegSeqs, m \in MemForms, im \in {0, -12} }

I1 == CHOOSE I \in InstSet : I.dn = 1 /\ I.sn = 2 /\ I.comp = 2 /\ I.s2 # <<>> /\ I.imm = 0
I2 == CHOOSE I \in InstSet : I.dn = 0 /\ I.sn = 0 /\ I.width = 0 /\ I.imm # 0
SeqsUpTo(S, hi) == UNION {[1..n -> S] : n \in 0..hi}
WarpSet == {[id |-> 3, insts |-> s] : s \in SeqsUpTo({I1, I2}, MaxInsts)}
BlockSet == {[id |-> <<1, 0, 2>>, warps |-> s] : s \in SeqsUpTo(WarpSet, MaxWarps)}
Keys == <<"kernel name", "kernel id", "grid dim">>
Hdr == [x \in {"kernel name", "kernel id", "grid dim"} |->
          CASE x = "kernel name" -> [s |-> "_Z3foo", n |-> <<>>]
            [] x = "kernel id" -> [s |-> "", n |-> <<7>>]
            [] x = "grid dim" -> [s |-> "", n |-> <<196, 1, 1>>]]
FileSet == {[hdr |-> Hdr, blocks |-> s] : s \in SeqsUpTo(BlockSet, MaxBlocks)}
Layouts == [b1 : BOOLEAN, b2 : BOOLEAN, b3 : BOOLEAN, mark : BOOLEAN, fmt : BOOLEAN, extra : {0, 2}]

Init == \/ what = "inst" /\ val \in InstSet /\ lay \in [b1 : {FALSE}, b2 : {FALSE}, b3 : {FALSE}, mark : {FALSE}, fmt : {FALSE}, extra : {0, 1, 3}]
        \/ what = "file" /\ val \in FileSet /\ lay \in Layouts
Next == UNCHANGED mvars
Spec == Init /\ [][Next]_mvars

Proj(I) == [f \in DOMAIN I \ {"tb", "w"} |-> I[f]]
InstRoundTrip == what = "inst" => WellFormedInst(val) /\ ParseInst(InstToks(val, lay.extra)) = val
FileRoundTrip == what = "file" => ParseFile(Serialize(val, Keys, lay)) = Canon(val)
=============================================================================
