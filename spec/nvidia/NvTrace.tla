------------------------------ MODULE NvTrace ------------------------------
(***************************************************************************)
(* Trace specification: is the message-event log of a real run of the      *)
(* NVIDIA trace-driven simulator (driver + GPUs + SMs + sub-cores built    *)
(* from the public builders, any engine schedule) a behaviour of NvSim?    *)
(*                                                                         *)
(* One log line = one port-hook event:                                     *)
(*   Send<t>   Port.Send by a component      = its dispatch / report step  *)
(*   Xfer      Port.Deliver by the connection = Xfer                       *)
(*   Recv<t>   Port.RetrieveIncoming         = its receive step            *)
(* plus Reset (new platform + trace), Submit (Driver.RunKernel), Quiesce   *)
(* (the engine returned: no event pending) and AllFinished (the driver's   *)
(* "All kernels finished" log entry).  Instruction execution (Subcore.run) *)
(* exchanges no message: the run steps of a warp are taken together with   *)
(* the report that ends it.                                                *)
(*                                                                         *)
(* As-implemented deviations (DESIGN.md 2.2): a unit received with no      *)
(* sub-units is kept in pend*: if the code later reports it finished the   *)
(* intended design was followed; if the engine goes idle while it is still *)
(* pending the run is stuck and the deviation is printed (DEVIATION line). *)
(***************************************************************************)
EXTENDS NvSim, TraceLib, Json

TraceLog == ndJsonDeserialize("trace.ndjson")
N == Len(TraceLog)

VARIABLES l,                    \* position in TraceLog
          pendK, pendB, pendW   \* empty units received and not (yet) reported finished
tvars == <<vars, l, pendK, pendB, pendW>>

ASSUME HWInit

Ev == TraceLog[l]
Is(e) == l <= N /\ Ev.e = e /\ l' = l + 1
SamePend == UNCHANGED <<pendK, pendB, pendW>>
MinIdx(S) == CHOOSE i \in S : \A j \in S : i <= j
Unit(k, d, s, c) == [k |-> k, d |-> d, s |-> s, c |-> c]

TInit == InitWith(<<>>, <<>>) /\ l = 1 /\ pendK = {} /\ pendB = {} /\ pendW = {}

TReset == /\ Is("Reset")
          /\ ResetTo(InitVal(Ev.shape, Ev.tr))
          /\ pendK' = {} /\ pendB' = {} /\ pendW' = {}

\* Driver.RunKernel with what BenchmarkBuilder made of the k-th kernel file
TSubmit ==
  /\ Is("Submit")
  /\ Ev.k = nextK + 1 /\ Ev.k <= Len(tr)
  /\ Ev.pl = tr[Ev.k]                                   \* parsed kernel = serialised kernel
  /\ Ev.tbc = Len(Ev.pl) /\ Ev.wcs = [b \in 1..Len(Ev.pl) |-> Len(Ev.pl[b])]
  /\ Submit(Ev.k) /\ SamePend

TXfer ==
  /\ Is("Xfer") /\ Ev.from \in DOMAIN out /\ out[Ev.from] # <<>>
  /\ Head(out[Ev.from]).dst = Ev.to /\ Head(out[Ev.from]).t = Ev.t
  /\ Xfer(Ev.from) /\ SamePend

\* ------------------------------------------------------------------ driver
TSendK ==
  /\ Is("SendK") /\ Ev.p = DRV /\ Ev.dst = GU(Ev.dst.d)
  /\ LET S == {i \in DOMAIN drv.undisp : tr[drv.undisp[i]] = Ev.pl} IN
       S # {} /\ DrvDispatch(MinIdx(S), Ev.dst.d)
  /\ SamePend

TRecvKF ==
  /\ Is("RecvKF") /\ Ev.p = DRV /\ HasIn(DRV, "KF") /\ Ev.fin
  /\ Ev.id = Unit("dev", Head(inb[DRV]).a, 0, 0)
  /\ DrvRecvKF /\ SamePend

\* logged inside processDeviceMsg, just before the last report is retrieved
TAllFinished ==
  /\ Is("AllFinished") /\ HasIn(DRV, "KF") /\ drv.unfinished = 1
  /\ UNCHANGED vars /\ SamePend

\* --------------------------------------------------------------------- GPU
TRecvK ==
  /\ Is("RecvK") /\ Ev.p \in DOMAIN out /\ Ev.p = GU(Ev.p.d) /\ HasIn(Ev.p, "K")
  /\ tr[Head(inb[Ev.p]).a] = Ev.pl
  /\ GpuRecvKernelP(Ev.p.d, TRUE)
  /\ pendK' = IF Ev.pl = <<>> THEN pendK \cup {Ev.p.d} ELSE pendK
  /\ UNCHANGED <<pendB, pendW>>

TSendB ==
  /\ Is("SendB") /\ Ev.p \in DOMAIN out /\ Ev.p = GD(Ev.p.d) /\ Ev.dst = SU(Ev.p.d, Ev.dst.s)
  /\ LET d == Ev.p.d
         S == {i \in DOMAIN gpu[d].undisp : tr[gpu[d].undisp[i][1]][gpu[d].undisp[i][2]] = Ev.pl} IN
       S # {} /\ GpuDispatch(d, MinIdx(S), Ev.dst.s)
  /\ SamePend

TRecvBF ==
  /\ Is("RecvBF") /\ Ev.p \in DOMAIN out /\ Ev.p = GD(Ev.p.d) /\ HasIn(Ev.p, "BF") /\ Ev.fin
  /\ Ev.id = Unit("sm", Ev.p.d, Head(inb[Ev.p]).a, 0)
  /\ GpuRecvBF(Ev.p.d) /\ SamePend

\* reportFinishedKernels; an empty kernel still pending is resolved as the intended design
TSendKF ==
  /\ Is("SendKF") /\ Ev.p \in DOMAIN out /\ Ev.p = GU(Ev.p.d) /\ Ev.dst = DRV /\ Ev.fin
  /\ Ev.id = Unit("dev", Ev.p.d, 0, 0)
  /\ LET d == Ev.p.d
         isPend == d \in pendK /\ gpu[d].finished = 0
         fin == gpu[d].finished + B2N(isPend) IN
       /\ fin > 0 /\ CanSend(GU(d))
       /\ out' = Put(out, GU(d), Msg("KF", DRV, d, 0, 0))
       /\ gpu' = [gpu EXCEPT ![d].finished = fin - 1]
       /\ pendK' = IF isPend THEN pendK \ {d} ELSE pendK
  /\ UNCHANGED <<shape, tr, nextK, drv, sm, sub, inb, gotK, gotB, gotW, executed, reportedK, err, pendB, pendW>>

\* ---------------------------------------------------------------------- SM
TRecvB ==
  /\ Is("RecvB") /\ Ev.p \in DOMAIN out /\ Ev.p = SU(Ev.p.d, Ev.p.s) /\ HasIn(Ev.p, "B")
  /\ LET m == Head(inb[Ev.p]) IN tr[m.a][m.b] = Ev.pl
  /\ SmRecvBlockP(Ev.p.d, Ev.p.s, TRUE)
  /\ pendB' = IF Ev.pl = <<>> THEN pendB \cup {<<Ev.p.d, Ev.p.s>>} ELSE pendB
  /\ UNCHANGED <<pendK, pendW>>

TSendW ==
  /\ Is("SendW") /\ Ev.p \in DOMAIN out /\ Ev.p = SD(Ev.p.d, Ev.p.s) /\ Ev.dst = CP(Ev.p.d, Ev.p.s, Ev.dst.c)
  /\ LET x == <<Ev.p.d, Ev.p.s>>
         S == {i \in DOMAIN sm[x].undisp : NI(sm[x].undisp[i][1], sm[x].undisp[i][2], sm[x].undisp[i][3]) = Ev.pl} IN
       S # {} /\ SmDispatch(Ev.p.d, Ev.p.s, MinIdx(S), Ev.dst.c)
  /\ SamePend

TRecvWF ==
  /\ Is("RecvWF") /\ Ev.p \in DOMAIN out /\ Ev.p = SD(Ev.p.d, Ev.p.s) /\ HasIn(Ev.p, "WF") /\ Ev.fin
  /\ Ev.id = Unit("sub", Ev.p.d, Ev.p.s, Head(inb[Ev.p]).a)
  /\ SmRecvWF(Ev.p.d, Ev.p.s) /\ SamePend

TSendBF ==
  /\ Is("SendBF") /\ Ev.p \in DOMAIN out /\ Ev.p = SU(Ev.p.d, Ev.p.s) /\ Ev.dst = GD(Ev.p.d) /\ Ev.fin
  /\ Ev.id = Unit("sm", Ev.p.d, Ev.p.s, 0)
  /\ LET x == <<Ev.p.d, Ev.p.s>>
         isPend == x \in pendB /\ sm[x].finished = 0
         fin == sm[x].finished + B2N(isPend) IN
       /\ fin > 0 /\ CanSend(Ev.p)
       /\ out' = Put(out, Ev.p, Msg("BF", GD(x[1]), x[2], 0, 0))
       /\ sm' = [sm EXCEPT ![x].finished = fin - 1]
       /\ pendB' = IF isPend THEN pendB \ {x} ELSE pendB
  /\ UNCHANGED <<shape, tr, nextK, drv, gpu, sub, inb, gotK, gotB, gotW, executed, reportedK, err, pendK, pendW>>

\* ---------------------------------------------------------------- sub-core
TRecvW ==
  /\ Is("RecvW") /\ Ev.p \in DOMAIN out /\ Ev.p = CP(Ev.p.d, Ev.p.s, Ev.p.c) /\ HasIn(Ev.p, "W")
  /\ LET m == Head(inb[Ev.p]) IN NI(m.a, m.b, m.c) = Ev.pl
  /\ SubRecvWarpP(Ev.p.d, Ev.p.s, Ev.p.c, TRUE)
  /\ pendW' = IF Ev.pl = 0 THEN pendW \cup {<<Ev.p.d, Ev.p.s, Ev.p.c>>} ELSE pendW
  /\ UNCHANGED <<pendK, pendB>>

\* the remaining run steps of the warp (SubRun^left) followed by SubReport
TSendWF ==
  /\ Is("SendWF") /\ Ev.p \in DOMAIN out /\ Ev.p = CP(Ev.p.d, Ev.p.s, Ev.p.c) /\ Ev.dst = SD(Ev.p.d, Ev.p.s) /\ Ev.fin
  /\ Ev.id = Unit("sub", Ev.p.d, Ev.p.s, Ev.p.c)
  /\ LET x == <<Ev.p.d, Ev.p.s, Ev.p.c>>
         n == sub[x].left
         isPend == x \in pendW /\ n = 0 /\ sub[x].finished = 0
         fin == sub[x].finished + B2N(n > 0) + B2N(isPend) IN
       /\ fin > 0 /\ CanSend(Ev.p)
       /\ out' = Put(out, Ev.p, Msg("WF", SD(x[1], x[2]), x[3], 0, 0))
       /\ sub' = [sub EXCEPT ![x].left = 0, ![x].finished = fin - 1]
       /\ executed' = executed + n
       /\ pendW' = IF isPend THEN pendW \ {x} ELSE pendW
  /\ UNCHANGED <<shape, tr, nextK, drv, gpu, sm, inb, gotK, gotB, gotW, reportedK, err, pendK, pendB>>

\* ----------------------------------------------------------------- quiesce
\* the public totals and (when readable) the work counters of the code equal the specification's
CountersMatch ==
  /\ \A x \in SMIds : Ev.warps[x[1]][x[2]] = sm[x].warps
  /\ \A x \in SubIds : Ev.insts[x[1]][x[2]][x[3]] = sub[x].insts
  /\ Ev.hasSt =>
       /\ Ev.st.drv = <<Len(drv.undisp), Cardinality(drv.free), drv.unfinished>>
       /\ \A d \in Devs : Ev.st.gpu[d] = <<Len(gpu[d].undisp), Cardinality(gpu[d].free), gpu[d].unfinished, gpu[d].finished>>
       /\ \A x \in SMIds : Ev.st.sm[x[1]][x[2]] = <<Len(sm[x].undisp), Cardinality(sm[x].free), sm[x].unfinished, sm[x].finished>>
       /\ \A x \in SubIds : Ev.st.sub[x[1]][x[2]][x[3]] = <<sub[x].left, sub[x].finished>>

PendKinds == (IF pendK # {} THEN {"EmptyKernel"} ELSE {}) \cup (IF pendB # {} THEN {"EmptyBlock"} ELSE {})
             \cup (IF pendW # {} THEN {"EmptyWarp"} ELSE {})

\* the engine returned with no pending event: nothing may be left to do and everything is done
TQuiesce ==
  /\ Is("Quiesce") /\ Quiet /\ AllDone /\ CountersMatch
  /\ UNCHANGED vars /\ SamePend

\* ... or the run is stuck on empty units that were never reported finished (known deviation).
\* Units above a stuck one may sleep with dispatchable work (the dispatch sub-steps of GPU and SM
\* report "no progress" and rely on the next report to be woken), so only the message-level
\* part of Quiet is required here; the counters must still agree with the code's.
NothingInFlight ==
  /\ \A p \in Ports : out[p] = <<>> /\ inb[p] = <<>>
  /\ \A d \in Devs : gpu[d].finished = 0
  /\ \A x \in SMIds : sm[x].finished = 0
  /\ \A x \in SubIds : sub[x].left = 0 /\ sub[x].finished = 0

TQuiesceStuck ==
  /\ Is("Quiesce") /\ NothingInFlight /\ ~AllDone /\ PendKinds # {} /\ CountersMatch
  /\ PrintT(<<"DEVIATION", PendKinds, l>>)
  /\ UNCHANGED vars /\ SamePend

TNext == TReset \/ TSubmit \/ TXfer \/ TSendK \/ TRecvKF \/ TAllFinished \/ TRecvK \/ TSendB \/ TRecvBF \/ TSendKF
         \/ TRecvB \/ TSendW \/ TRecvWF \/ TSendBF \/ TRecvW \/ TSendWF \/ TQuiesce \/ TQuiesceStuck

TSpec == TInit /\ [][TNext]_tvars

Mark == HWNote(l)
Accepted == HWReport(N)
=============================================================================
