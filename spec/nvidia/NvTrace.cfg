SPECIFICATION TSpec
CONSTANTS
  PortCap = 4
  Dev = {}
  FifoOnly = FALSE
INVARIANTS AtMostOnce NoError Accounting Bounded
CONSTRAINT Mark
POSTCONDITION Accepted
CHECK_DEADLOCK FALSE
