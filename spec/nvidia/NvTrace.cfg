SPECIFICATION TSpec
CONSTANTS
  PortCap = 4
  Dev = {}
  FifoOnly = FALSE
INVARIANTS NoError
CONSTRAINT Mark
POSTCONDITION Accepted
CHECK_DEADLOCK FALSE
