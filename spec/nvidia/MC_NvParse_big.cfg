SPECIFICATION Spec
CONSTANTS
  MaxBlocks = 2
  MaxWarps = 2
  MaxInsts = 2
INVARIANTS InstRoundTrip FileRoundTrip
CHECK_DEADLOCK FALSE
