\* the proposed repair (empty units complete on receipt) under the unchanged wake/sleep protocol,
\* every trace incl. empty warps / blocks / kernels: the engine never goes idle with work left
SPECIFICATION MCSpec
CONSTANTS
  PortCap = 4
  Dev = {}
  DispatchReportsProgress = FALSE
  Logging = FALSE
  MaxK = 1
  MinB = 0
  MaxB = 2
  MinW = 0
  MaxW = 2
  MinN = 0
  MaxN = 1
  Shapes <- Shapes_q
INVARIANTS IdleDone NoError AtMostOnce Bounded
CHECK_DEADLOCK FALSE
