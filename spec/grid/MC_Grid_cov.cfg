SPECIFICATION MCSpec
CONSTANTS
  W = 4
  Deviations = {}
  Geos <- MCGeosF
  CUVecs <- MCCUVecs
  MaxSkip = 2
  MaxG = 1
  MaxProd = 10
INVARIANTS TypeOK ProducedValid AnnouncedEqualsProduced LanesOK GlobalExact SplitOK SkipConsistent RegRuleOK
CHECK_DEADLOCK FALSE
