------------------------------ MODULE GridScen ------------------------------
(* Grid with a history variable naming the call made: `tlc -simulate` on    *)
(* this module (W = 64, geometries from boundary classes around multiples   *)
(* of the wavefront size) yields call sequences that harness/cmd/c08        *)
(* replays on the real kernels.GridBuilder; the design invariants are       *)
(* evaluated on every sampled state as well.                                *)
EXTENDS Grid
VARIABLE act

ScenSizes == {<<64, 1, 1>>, <<100, 2, 1>>, <<3, 5, 7>>, <<16, 16, 1>>, <<33, 3, 2>>, <<7, 7, 7>>,
              <<1, 64, 3>>, <<65, 3, 1>>, <<10, 10, 10>>, <<128, 2, 4>>, <<5, 1, 1>>, <<63, 2, 2>>,
              <<256, 1, 1>>, <<1, 1, 200>>, <<48, 4, 1>>}
\* grid extents per dimension: smaller than the group, exact, one more, two and a half groups
GOpts(s) == {IF s > 1 THEN s - 1 ELSE 1, s, s + 1, 2 * s + (s \div 2)}
ScenGeos == UNION {{[g |-> <<a, b, c>>, s |-> s] : a \in GOpts(s[1]), b \in GOpts(s[2]), c \in GOpts(s[3])} : s \in ScenSizes}
ScenCUVecs == {<<1>>, <<2, 1>>, <<1, 2, 1>>, <<3, 1, 2, 1>>, <<4, 4>>, <<64, 64, 64, 64>>}

SInit == Init /\ act = [a |-> "Init"]
SNext == \/ SetKernel /\ act' = [a |-> "SetKernel"]
         \/ NextWG /\ act' = [a |-> "NextWG"]
         \/ \E n \in 0..MaxSkip : Skip(n) /\ act' = [a |-> "Skip", n |-> n]
SSpec == SInit /\ [][SNext]_<<vars, act>>
=============================================================================
