SPECIFICATION SSpec
CONSTANTS
  W = 64
  Deviations = {}
  Geos <- ScenGeos
  CUVecs <- ScenCUVecs
  MaxSkip = 5
INVARIANTS ProducedValid AnnouncedEqualsProduced LanesOK GlobalExact SkipConsistent
CHECK_DEADLOCK FALSE
