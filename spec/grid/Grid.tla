------------------------------- MODULE Grid -------------------------------
(***************************************************************************)
(* The grid builder as a state machine (Init + SetKernel, Skip, NextWG)    *)
(* over the operators of GridOps, and the invariants that state property   *)
(* C08 on it.  Model-checked exhaustively by MC_Grid*.cfg; GridScen.tla    *)
(* turns its behaviours into scenarios for the real kernels.GridBuilder.   *)
(***************************************************************************)
EXTENDS GridOps

\* ===================================================== the builder as a machine
\* (used by the exhaustive model and by the scenario generator)
CONSTANTS Geos,      \* set of geometries explored
          CUVecs,    \* set of CU-count sequences (one entry per GPU of a unified device)
          MaxSkip    \* Skip(n) with n in 0..MaxSkip is tried before the first NextWG

VARIABLES geo, cus, gpu,   \* chosen at SetKernel; gpu = 0: no filter
          filt, numWG,     \* filter, announced count
          cur,             \* grid cursor (xid, yid, zid)
          skipped,         \* argument of the Skip call, -1 before it
          out,             \* work-groups produced so far: Seq of [id, cs, wfs]
          done             \* NextWG has returned nil
vars == <<geo, cus, gpu, filt, numWG, cur, skipped, out, done>>

FilterOf(g, c, u) == IF u = 0 THEN [k |-> "none"] ELSE SplitFilter(TotalWG(g), c, u)

\* SetKernel in two steps so that the model checker explores the filters of different
\* geometries in parallel: Init fixes the geometry, SetKernel the split and the GPU
Init ==
  /\ geo \in Geos
  /\ cus = <<1>> /\ gpu = 0 /\ filt = [k |-> "none"] /\ numWG = -1
  /\ cur = <<0, 0, 0>> /\ skipped = -1 /\ out = <<>> /\ done = FALSE

SetKernel ==
  /\ numWG = -1
  /\ cus' \in CUVecs /\ gpu' \in 0..Len(cus')
  /\ gpu' = 0 => cus' = <<1>>                \* without filter the CU vector is irrelevant
  /\ filt' = FilterOf(geo, cus', gpu')
  /\ numWG' = CountWG(geo, filt')             \* countWG()
  /\ UNCHANGED <<geo, cur, skipped, out, done>>

Skip(n) ==
  /\ numWG >= 0 /\ skipped = -1 /\ out = <<>> /\ ~done
  /\ skipped' = n
  /\ cur' = SkipFrom(geo, filt, cur, n)
  /\ UNCHANGED <<geo, cus, gpu, filt, numWG, out, done>>

NextWG ==
  /\ numWG >= 0 /\ ~done
  /\ LET r == NextFrom(geo, filt, cur)
     IN IF r.nil
        THEN done' = TRUE /\ UNCHANGED <<cur, out>>
        ELSE /\ cur' = r.cur
             /\ out' = Append(out, [id |-> r.id, cs |-> r.cs, wfs |-> FormWavefronts(geo, r.cs)])
             /\ done' = FALSE
  /\ skipped' = IF skipped = -1 THEN 0 ELSE skipped
  /\ UNCHANGED <<geo, cus, gpu, filt, numWG>>

Next == SetKernel \/ NextWG \/ \E n \in 0..MaxSkip : Skip(n)
Spec == Init /\ [][Next]_vars

\* ------------------------------------------------------------------ invariants
TypeOK ==
  /\ gpu \in 0..Len(cus) /\ numWG \in Nat \cup {-1} /\ Len(out) <= TotalWG(geo)
  /\ skipped \in -1..MaxSkip /\ done \in BOOLEAN

Sk == IF skipped = -1 THEN 0 ELSE skipped
OutIds == {out[i].id : i \in 1..Len(out)}

\* each produced work-group is a work-group of the grid accepted by the filter, produced once,
\* with the right partial size
\* (stated for the newest work-group: the older ones were checked in the predecessor states)
ProducedValid ==
  Len(out) > 0 =>
    LET n == Len(out) IN
    /\ out[n].id \in AllWG(geo) /\ Pass(geo, filt, out[n].id)
    /\ out[n].cs = CurrSize(geo, out[n].id)
    /\ \A i \in 1..n - 1 : out[i].id # out[n].id
    /\ n + Sk <= numWG

\* when the builder reports exhaustion, announced = skipped + produced (or everything was skipped)
AnnouncedEqualsProduced ==
  done => /\ (Sk <= numWG => Len(out) + Sk = numWG)
          /\ (Sk > numWG => Len(out) = 0)
          /\ (Sk = 0 => OutIds = PassingWG(geo, filt))

\* lanes: the core of the property
LanesOK == Len(out) > 0 => /\ LanesExact(geo, out[Len(out)].cs, out[Len(out)].wfs)
                           /\ MembersConsistent(geo, out[Len(out)].wfs)

\* every work-item of the part of the grid given to this builder is executed exactly once, with
\* its own global id: the global ids over all enabled lanes are pairwise distinct (LanesExact per
\* work-group + distinct work-groups) and cover the items of the accepted work-groups
GlobalExact ==
  (done /\ Sk = 0) =>
     LET ids == UNION {{Global(geo, out[i].id, LaneId(geo, out[i].wfs, p)) : p \in Lanes(out[i].wfs)} : i \in 1..Len(out)}
         want == UNION {{Global(geo, id, loc) : loc \in WGItems(CurrSize(geo, id))} : id \in PassingWG(geo, filt)}
     IN /\ ids = want
        /\ (filt.k = "none" => ids = GridItems(geo))

\* the driver's split hands every work-group to exactly one GPU
AtStart == numWG >= 0 /\ out = <<>> /\ skipped = -1 /\ ~done
SplitOK == AtStart => SplitExact(TotalWG(geo), [i \in 1..Len(cus) |-> SplitFilter(TotalWG(geo), cus, i).acc])

\* partition.go: CU i of P takes the k = ceil(numWG/P) work-groups after Skip(i*k): together
\* every announced work-group exactly once
RECURSIVE TakeFrom(_, _, _, _)
TakeFrom(g, f, c, k) ==
  IF k = 0 THEN <<>>
  ELSE LET r == NextFrom(g, f, c) IN IF r.nil THEN <<>> ELSE <<r.id>> \o TakeFrom(g, f, r.cur, k - 1)
\* Skip(n) drops exactly the first n work-groups of the unskipped enumeration
SkipConsistent ==
  done => LET full == TakeFrom(geo, filt, <<0, 0, 0>>, numWG + 1)
          IN /\ Len(full) = numWG
             /\ [i \in 1..Len(out) |-> out[i].id] = SubSeq(full, Sk + 1, numWG)
PartitionTake(g, f, P) ==
  LET n == CountWG(g, f)
      k == (n - 1) \div P + 1
  IN [i \in 0..P - 1 |-> TakeFrom(g, f, SkipFrom(g, f, <<0, 0, 0>>, i * k), k)]
PartitionOK(P) ==
  numWG > 0 =>
    LET t == PartitionTake(geo, filt, P)
        all == UNION {{t[i][j] : j \in 1..Len(t[i])} : i \in 0..P - 1}
        cnt == SumSeq([i \in 1..P |-> Len(t[i - 1])])
    IN all = PassingWG(geo, filt) /\ cnt = numWG
PartitionsOK == AtStart => \A P \in 1..3 : PartitionOK(P)

\* register rule: what a kernel reads back from the registers initialised for lane (first + l)
\* is the lane's local id, in both layouts
RegRuleOK ==
  Len(out) > 0 =>
   \A p \in Lanes(out[Len(out)].wfs) : \A packed \in BOOLEAN :
     LET loc == LaneId(geo, out[Len(out)].wfs, p)
     IN IdsFrom(RegsFor(loc, packed, 2), packed, 2) = loc
=============================================================================
