SPECIFICATION MCSpec
CONSTANTS
  W = 4
  Deviations = {}
  Geos <- MCGeosF
  CUVecs <- MCCUVecsBig
  MaxSkip = 3
  MaxG = 4
  MaxProd = 12
INVARIANTS TypeOK ProducedValid AnnouncedEqualsProduced LanesOK GlobalExact SplitOK SkipConsistent PartitionsOK RegRuleOK
CHECK_DEADLOCK FALSE
