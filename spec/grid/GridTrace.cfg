SPECIFICATION TSpec
CONSTANTS
  W = 64
  Deviations = {}
CONSTRAINT Mark
POSTCONDITION Accepted
CHECK_DEADLOCK FALSE
