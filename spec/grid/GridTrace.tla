----------------------------- MODULE GridTrace -----------------------------
(***************************************************************************)
(* Trace specification for C08: records of what the real code produced     *)
(* (harness/cmd/c08) are checked against the property as stated by         *)
(* GridOps.  One ndjson line = one observation at a public API return:     *)
(*                                                                         *)
(*  Reset                         start of a case                          *)
(*  Split   total cus accs        the real driver's WGFilter closures of   *)
(*                                one unified launch, evaluated on every   *)
(*                                work-group id (accs[i] = ids GPU i takes)*)
(*  Kernel  g s f                 geometry + filter given to SetKernel     *)
(*  Builder numWG                 a fresh GridBuilder: SetKernel; NumWG()  *)
(*  Skip    n                     Skip(n) on the current builder           *)
(*  WG      id cs sz wfs          NextWG() returned a work-group           *)
(*  Nil                           NextWG() returned nil                    *)
(*  GroupEnd                      the driver drove the builders of this    *)
(*                                Kernel so that together they must have   *)
(*                                produced every accepted work-group       *)
(*  Regs    mode ver en flags id cs wfs                                    *)
(*                                registers found after the real           *)
(*                                emu.ComputeUnit / timing cu dispatched   *)
(*                                the work-group                           *)
(*  E2EBegin/WfRun/E2EEnd         a kernel run on a whole platform (driver, *)
(*                                CP, dispatcher, CUs): registers of each  *)
(*                                wavefront when its first instruction runs*)
(*  Panic   msg                   the real code panicked: never accepted   *)
(*  Runaway msg / Unterminated    an enumeration of the real code that     *)
(*                                would not end (more filter candidates    *)
(*                                than the grid has work-groups / no nil   *)
(*                                after NumWG()+2 work-groups): decided by *)
(*                                counting, never accepted                 *)
(*                                                                         *)
(* The order in which a builder enumerates work-groups and the way it      *)
(* packs work-items into wavefronts are NOT fixed here: any enumeration    *)
(* without repetition and any packing for which the enabled lanes receive  *)
(* exactly the work-items of the group is accepted (a refactoring of the   *)
(* cursor or of formWavefronts stays inside the specification).            *)
(*                                                                         *)
(* "As implemented" deviations (DESIGN.md 2.2) are separate disjuncts that *)
(* accept the record, print <<"DEVIATION", line, name>> and go on, so that *)
(* the rest of the trace is still examined; checks/c08.py turns each       *)
(* printed deviation into a known finding or a violation.                  *)
(***************************************************************************)
EXTENDS GridOps, TraceLib, Json

TraceLog == ndJsonDeserialize("trace.ndjson")
N == Len(TraceLog)

VARIABLES l,         \* position in TraceLog
          tgeo,      \* geometry of the current Kernel
          tfilt,     \* its filter
          tnum,      \* count announced by the current builder (-1: no builder yet)
          consumed,  \* work-groups the current builder has skipped or produced
          seen,      \* work-group ids produced by the builders of the current Kernel
          split,     \* accept sets of the last Split (sequence of sets), <<>> if none
          e2e        \* whole-platform run: [on, ver, en, flags, ids (global ids executed so far), dev]
tvars == <<l, tgeo, tfilt, tnum, consumed, seen, split, e2e>>

ASSUME HWInit

Ev == TraceLog[l]
Is(e) == l <= N /\ Ev.e = e /\ l' = l + 1

NoGeo == [g |-> <<1, 1, 1>>, s |-> <<1, 1, 1>>]
SeqSet(s) == {s[i] : i \in 1..Len(s)}
T3(s) == <<s[1], s[2], s[3]>>

\* 64-bit masks are logged as four 16-bit limbs, most significant first
Bit(limbs, b) == (limbs[4 - (b \div 16)] \div (2 ^ (b % 16))) % 2 = 1
MaskSet(limbs) == {b \in 0..63 : Bit(limbs, b)}

Dev(name) == PrintT(<<"DEVIATION", l, name>>)

NoE2E == [on |-> FALSE, ver |-> 0, en |-> 0, flags |-> <<>>, ids |-> {}, dev |-> FALSE]

TInit == /\ l = 1 /\ tgeo = NoGeo /\ tfilt = [k |-> "none"] /\ tnum = -1 /\ consumed = 0
         /\ seen = {} /\ split = <<>> /\ e2e = NoE2E

TReset == /\ Is("Reset")
          /\ tgeo' = NoGeo /\ tfilt' = [k |-> "none"] /\ tnum' = -1 /\ consumed' = 0
          /\ seen' = {} /\ split' = <<>> /\ e2e' = NoE2E

\* --------------------------------------------------------------- the split
TSplit ==
  /\ Is("Split")
  /\ LET accs == [i \in 1..Len(Ev.accs) |-> SeqSet(Ev.accs[i])]
     IN /\ Len(accs) = Len(Ev.cus)
        /\ SplitExact(Ev.total, accs)          \* every work-group goes to exactly one GPU
        /\ split' = accs
  /\ UNCHANGED <<tgeo, tfilt, tnum, consumed, seen, e2e>>

TKernel ==
  /\ Is("Kernel")
  /\ LET g == [g |-> T3(Ev.g), s |-> T3(Ev.s)]
         f == IF Ev.f.k = "none" THEN [k |-> "none"] ELSE [k |-> "set", acc |-> SeqSet(Ev.f.acc)]
     IN /\ tgeo' = g /\ tfilt' = f
        \* a filter that comes from a Split is one of its accept sets, for this grid
        /\ IF Ev.f.k = "set"
           THEN /\ Ev.f.gpu \in 1..Len(split) /\ f.acc = split[Ev.f.gpu]
                /\ UNION SeqSet(split) = 0..TotalWG(g) - 1
           ELSE TRUE
  /\ tnum' = -1 /\ consumed' = 0 /\ seen' = {} /\ UNCHANGED <<split, e2e>>

\* ------------------------------------------------------------- the builder
TBuilder ==
  /\ Is("Builder")
  /\ Ev.numWG = CountWG(tgeo, tfilt)            \* announced = number of accepted work-groups
  /\ tnum' = Ev.numWG /\ consumed' = 0
  /\ UNCHANGED <<tgeo, tfilt, seen, split, e2e>>

TSkip ==
  /\ Is("Skip") /\ tnum >= 0
  /\ consumed' = consumed + Ev.n
  /\ UNCHANGED <<tgeo, tfilt, tnum, seen, split, e2e>>

WfsOf(ws) == [i \in 1..Len(ws) |-> [first |-> ws[i].first, mask |-> MaskSet(ws[i].mask), items |-> ws[i].items]]
Desc(wfs) == [i \in 1..Len(wfs) |-> [first |-> wfs[i].first, mask |-> wfs[i].mask]]

TWG ==
  /\ Is("WG") /\ tnum >= 0
  /\ LET id == T3(Ev.id)
         cs == T3(Ev.cs)
         wfs == WfsOf(Ev.wfs)
     IN /\ InGrid(tgeo, id) /\ Pass(tgeo, tfilt, id)
        /\ id \notin seen                       \* never twice
        /\ consumed < tnum                      \* never more than announced
        /\ cs = CurrSize(tgeo, id) /\ T3(Ev.sz) = tgeo.s
        /\ \/ LanesExact(tgeo, cs, wfs) /\ MembersConsistent(tgeo, wfs)
           \/ /\ ~LanesExact(tgeo, cs, wfs)
              /\ wfs = FormAsImpl(tgeo, cs)
              /\ Dev("WfStartNeedsPresentMultiple")
        /\ seen' = seen \cup {id}
  /\ consumed' = consumed + 1
  /\ UNCHANGED <<tgeo, tfilt, tnum, split, e2e>>

TNil ==
  /\ Is("Nil") /\ tnum >= 0
  /\ consumed >= tnum                           \* never fewer than announced
  /\ UNCHANGED <<tgeo, tfilt, tnum, consumed, seen, split, e2e>>

TGroupEnd ==
  /\ Is("GroupEnd")
  /\ seen = PassingWG(tgeo, tfilt)              \* every accepted work-group was produced
  /\ UNCHANGED <<tgeo, tfilt, tnum, consumed, seen, split, e2e>>

\* ------------------------------------------------------------- registers
\* SGPR layout up to the work-group ids (flags: psb dptr kptr cx cy cz ix iy iz as 0/1)
SgprBase(fl) == 4 * fl.psb + 2 * fl.dptr + 2 * fl.kptr + fl.cx + fl.cy + fl.cz

TRegs ==
  /\ Is("Regs")
  /\ LET id == T3(Ev.id)
         cs == T3(Ev.cs)
         ws == Ev.wfs
         en == Ev.en
         fl == Ev.flags
         pe == Ev.ver = 5                       \* layout a kernel of this code object expects
         Exec(i) == MaskSet(ws[i].exec)
         Ids(i, ln, pk) == IdsFrom(<<ws[i].v0[ln + 1], ws[i].v1[ln + 1], ws[i].v2[ln + 1]>>, pk, en)
         L == UNION {{<<i, ln>> : ln \in Exec(i)} : i \in 1..Len(ws)}
         \* the property on the registers: the enabled lanes hold exactly the work-items of the group
         Exact(pk) == /\ {Ids(p[1], p[2], pk) : p \in L} = WGItems(cs)
                      /\ Cardinality(L) = Prod(cs)
         \* ... and the work-group id registers hold the group's id (global id = id * size + local id)
         SgOK == \A i \in 1..Len(ws) :
                    LET b == SgprBase(fl) IN
                    /\ fl.ix = 1 => ws[i].sregs[b + 1] = id[1]
                    /\ fl.iy = 1 => ws[i].sregs[b + fl.ix + 1] = id[2]
                    /\ fl.iz = 1 => ws[i].sregs[b + fl.ix + fl.iy + 1] = id[3]
         \* deviation bookkeeping: the registers are what the init rule gives for the descriptor the
         \* as-implemented formWavefronts produces
         Explained(pk) ==
            /\ [i \in 1..Len(ws) |-> [first |-> ws[i].first, mask |-> MaskSet(ws[i].mask)]] = Desc(FormAsImpl(tgeo, cs))
            /\ \A i \in 1..Len(ws) : Exec(i) = MaskSet(ws[i].mask)
            /\ \A p \in L : Ids(p[1], p[2], pk) = Unflatten(tgeo, ws[p[1]].first + p[2])
     IN /\ InGrid(tgeo, id) /\ cs = CurrSize(tgeo, id)
        /\ \A d \in 1..3 : cs[d] > 1 => en >= d - 1      \* the case enables the ids it needs
        /\ SgOK
        /\ \/ Exact(pe)
           \/ ~Exact(pe) /\ Explained(pe) /\ Dev("WfStartNeedsPresentMultiple")
           \/ /\ Ev.mode = "timing" /\ pe /\ ~Exact(TRUE) /\ Exact(FALSE)
              /\ Dev("TimingIgnoresPackedIds")
           \/ /\ Ev.mode = "timing" /\ pe /\ ~Exact(TRUE) /\ ~Exact(FALSE) /\ ~Explained(TRUE) /\ Explained(FALSE)
              /\ Dev("WfStartNeedsPresentMultiple") /\ Dev("TimingIgnoresPackedIds")
  /\ UNCHANGED <<tgeo, tfilt, tnum, consumed, seen, split, e2e>>


\* ----------------------------------------------------------- whole platform
\* A kernel launched through the real driver, command processor(s) and dispatcher(s); one WfRun per
\* wavefront at the moment its first instruction executes.  The global ids held by the enabled
\* lanes (work-group id registers * work-group size + lane id registers) must be ids of the grid,
\* never seen before, and at the end all of the grid.
TE2EBegin ==
  /\ Is("E2EBegin") /\ ~e2e.on
  /\ tgeo' = [g |-> T3(Ev.g), s |-> T3(Ev.s)]
  /\ e2e' = [on |-> TRUE, ver |-> Ev.ver, en |-> Ev.en, flags |-> Ev.flags, ids |-> {}, dev |-> FALSE]
  /\ tfilt' = [k |-> "none"] /\ tnum' = -1 /\ consumed' = 0 /\ seen' = {} /\ UNCHANGED split

InGridItem(geo, p) == \A d \in 1..3 : p[d] \in 0..geo.g[d] - 1

TWfRun ==
  /\ Is("WfRun") /\ e2e.on
  /\ LET fl == e2e.flags
         en == e2e.en
         pe == e2e.ver = 5
         b == SgprBase(fl)
         R == <<Ev.sregs[b + 1], Ev.sregs[b + fl.ix + 1], Ev.sregs[b + fl.ix + fl.iy + 1]>>   \* work-group id registers
         lanes == MaskSet(Ev.exec)
         Loc(ln, pk) == IdsFrom(<<Ev.v0[ln + 1], Ev.v1[ln + 1], Ev.v2[ln + 1]>>, pk, en)
         Glob(ln, pk) == Global(tgeo, R, Loc(ln, pk))
         GSet(pk) == {Glob(ln, pk) : ln \in lanes}
         Good(pk) == /\ \A p \in GSet(pk) : InGridItem(tgeo, p) /\ p \notin e2e.ids
                     /\ Cardinality(GSet(pk)) = Cardinality(lanes)
         id == T3(Ev.id)
         cs == T3(Ev.cs)
         \* the wavefront is one that the as-implemented formWavefronts makes for this (partial) group, and
         \* the registers are what the init rule gives for it
         Explained(pk) ==
            /\ InGrid(tgeo, id) /\ cs = CurrSize(tgeo, id) /\ R = id
            /\ LET f == FormAsImpl(tgeo, cs)
               IN /\ ~LanesExact(tgeo, cs, f)
                  /\ \E i \in 1..Len(f) : f[i].first = Ev.first /\ f[i].mask = MaskSet(Ev.mask)
            /\ lanes = MaskSet(Ev.mask)
            /\ \A ln \in lanes : Loc(ln, pk) = Unflatten(tgeo, Ev.first + ln)
         Add(pk) == e2e.ids \cup {p \in GSet(pk) : InGridItem(tgeo, p)}
         \* the registers are exactly the separate (v0,v1,v2) layout of the lane's work-item although the
         \* code object's kernels read the packed layout, and reading them packed gives something else:
         \* the known timing deviation; bookkeeping then uses the separate layout so that the wavefront
         \* that really owns the mis-read ids is not blamed later
         TimingSep == /\ Ev.plat = "timing" /\ pe
                      /\ \A ln \in lanes : Loc(ln, FALSE) = Unflatten(tgeo, Ev.first + ln)
                      /\ \E ln \in lanes : Loc(ln, TRUE) # Unflatten(tgeo, Ev.first + ln)
         use == IF TimingSep THEN FALSE ELSE pe
     IN /\ fl.ix = 1 /\ fl.iy = 1 /\ fl.iz = 1
        /\ IF TimingSep THEN Dev("TimingIgnoresPackedIds") ELSE TRUE
        /\ \/ Good(use) /\ e2e' = [e2e EXCEPT !.ids = Add(use)]
           \/ /\ ~Good(use) /\ Explained(use) /\ Dev("WfStartNeedsPresentMultiple")
              /\ e2e' = [e2e EXCEPT !.ids = Add(use), !.dev = TRUE]
  /\ UNCHANGED <<tgeo, tfilt, tnum, consumed, seen, split>>

\* what would be executed (inside the grid) if every work-group were formed as implemented
AsImplExecuted(geo) ==
  UNION {LET cs == CurrSize(geo, id)
             f == FormAsImpl(geo, cs)
         IN {Global(geo, id, LaneId(geo, f, p)) : p \in Lanes(f)} : id \in AllWG(geo)} \cap GridItems(geo)

TE2EEnd ==
  /\ Is("E2EEnd") /\ e2e.on
  /\ IF e2e.ids = GridItems(tgeo)               \* every work-item of the grid was executed
     THEN TRUE
     ELSE \* work-items are missing: exactly those the as-implemented wavefront formation loses
          e2e.ids = AsImplExecuted(tgeo) /\ Dev("WfStartNeedsPresentMultiple")
  /\ e2e' = NoE2E
  /\ UNCHANGED <<tgeo, tfilt, tnum, consumed, seen, split>>

\* Panic, Runaway and Unterminated lines have no action: the trace is rejected there

TNext == TReset \/ TSplit \/ TKernel \/ TBuilder \/ TSkip \/ TWG \/ TNil \/ TGroupEnd \/ TRegs
         \/ TE2EBegin \/ TWfRun \/ TE2EEnd
TSpec == TInit /\ [][TNext]_tvars

Mark == HWNote(l)                 \* CONSTRAINT: records progress
Accepted == HWReport(N)           \* POSTCONDITION
=============================================================================
