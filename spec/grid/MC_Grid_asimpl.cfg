SPECIFICATION MCSpec
CONSTANTS
  W = 4
  Deviations = {"WfStartNeedsPresentMultiple"}
  Geos <- MCGeosF
  CUVecs <- MCCUVecs
  MaxSkip = 2
  MaxG = 2
  MaxProd = 10
INVARIANTS TypeOK ProducedValid AnnouncedEqualsProduced LanesOK GlobalExact SplitOK SkipConsistent RegRuleOK
CHECK_DEADLOCK FALSE
