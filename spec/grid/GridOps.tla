------------------------------ MODULE GridOps ------------------------------
(***************************************************************************)
(* Partition of a dispatch grid into work-groups, wavefronts and lanes:    *)
(* the operators (pure functions) shared by Grid.tla (builder machine,     *)
(* exhaustive model) and GridTrace.tla (validation of real records).       *)
(*                                                                         *)
(* Shaped like the code it describes:                                      *)
(*   amd/kernels/gridbuilder.go  countWG / NextWG / Skip / spawnWorkItems /*)
(*                               formWavefronts        (cursor xid,yid,zid)*)
(*   amd/emu/computeunit.go      initWfRegs            (lane id registers) *)
(*   amd/timing/cu/wfdispatcher.go initRegisters                           *)
(*   amd/driver/driver.go        distributeWGToGPUs + the WGFilter closure *)
(*   amd/timing/cp/internal/dispatching/partition.go (Skip(i*k) per CU)    *)
(*                                                                         *)
(* All coordinates are 0-based triples <<x,y,z>>.  A geometry is           *)
(* [g |-> grid size triple, s |-> work-group size triple].  A filter is    *)
(* [k |-> "none"] or [k |-> "set", acc |-> set of flattened work-group     *)
(* ids] (the driver's closure accepts a contiguous range of them).         *)
(*                                                                         *)
(* The property (C08) is stated by LanesExact / ProducedExact / SplitExact *)
(* in terms of the grid alone; the cursor machine, the wavefront fold and  *)
(* the register rule are the implementation-shaped part that is proved to  *)
(* meet it by model checking (MC_Grid) and that real traces are compared   *)
(* with (GridTrace).                                                       *)
(***************************************************************************)
EXTENDS Integers, Sequences, FiniteSets, TLC

CONSTANTS W,          \* wavefront size: 64 in mgpusim, 4 in the exhaustive model
          Deviations  \* "as implemented" switches, see DESIGN.md 2.2:
                      \*   "WfStartNeedsPresentMultiple": formWavefronts opens a wavefront only at a
                      \*                  *present* work-item whose flattened id is a multiple of W

Min(a, b) == IF a < b THEN a ELSE b
Prod(t) == t[1] * t[2] * t[3]

\* ------------------------------------------------------------------ geometry
NumWGDim(geo, d) == (geo.g[d] - 1) \div geo.s[d] + 1            \* countWG: int(Grid-1)/int(WG)+1
TotalWG(geo) == NumWGDim(geo, 1) * NumWGDim(geo, 2) * NumWGDim(geo, 3)
AllWG(geo) == {<<x, y, z>> : x \in 0..NumWGDim(geo, 1) - 1, y \in 0..NumWGDim(geo, 2) - 1,
                             z \in 0..NumWGDim(geo, 3) - 1}
\* the driver's closure: IDZ*numWGX*numWGY + IDY*numWGX + IDX
WGFlat(geo, id) == id[3] * NumWGDim(geo, 1) * NumWGDim(geo, 2) + id[2] * NumWGDim(geo, 1) + id[1]
Pass(geo, f, id) == IF f.k = "none" THEN TRUE ELSE WGFlat(geo, id) \in f.acc
PassingWG(geo, f) == {id \in AllWG(geo) : Pass(geo, f, id)}

CurrSize(geo, id) == [d \in 1..3 |-> Min(geo.s[d], geo.g[d] - id[d] * geo.s[d])]

\* what the property talks about: the work-items of the grid and of one work-group
GridItems(geo) == {<<x, y, z>> : x \in 0..geo.g[1] - 1, y \in 0..geo.g[2] - 1, z \in 0..geo.g[3] - 1}
WGItems(cs) == {<<x, y, z>> : x \in 0..cs[1] - 1, y \in 0..cs[2] - 1, z \in 0..cs[3] - 1}
Global(geo, id, loc) == <<id[1] * geo.s[1] + loc[1], id[2] * geo.s[2] + loc[2], id[3] * geo.s[3] + loc[3]>>

\* ---------------------------------------------------------------- countWG()
CountWG(geo, f) == IF f.k = "none" THEN TotalWG(geo) ELSE Cardinality(f.acc \cap (0..TotalWG(geo) - 1))

\* --------------------------------------------------- NextWG(): cursor machine
\* one pass of the for-loop body: the work-group at the cursor and the advanced cursor
Advance(geo, cur) ==
  LET left == [d \in 1..3 |-> geo.g[d] - cur[d] * geo.s[d]]
  IN IF left[1] <= 0 \/ left[2] <= 0 \/ left[3] <= 0
     THEN [nil |-> TRUE, cur |-> cur]
     ELSE LET al == [d \in 1..3 |-> Min(left[d], geo.s[d])]
              x1 == cur[1] + 1
              wrapX == left[1] - al[1] <= 0
              wrapY == wrapX /\ left[2] - al[2] <= 0
              nc == IF ~wrapX THEN <<x1, cur[2], cur[3]>>
                    ELSE IF ~wrapY THEN <<0, cur[2] + 1, cur[3]>>
                    ELSE <<0, 0, cur[3] + 1>>
          IN [nil |-> FALSE, id |-> cur, cs |-> <<al[1], al[2], al[3]>>, cur |-> nc]

\* the loop "until the filter accepts or the grid is exhausted"
RECURSIVE NextFrom(_, _, _)
NextFrom(geo, f, cur) ==
  LET a == Advance(geo, cur)
  IN IF a.nil THEN a
     ELSE IF Pass(geo, f, a.id) THEN a
     ELSE NextFrom(geo, f, a.cur)

\* Skip(n): n calls of NextWG whose results are dropped
RECURSIVE SkipFrom(_, _, _, _)
SkipFrom(geo, f, cur, n) ==
  IF n = 0 THEN cur ELSE SkipFrom(geo, f, NextFrom(geo, f, cur).cur, n - 1)

\* ------------------------------------------- spawnWorkItems / formWavefronts
\* local coordinates in spawn order (x fastest, then y, then z)
SpawnItems(cs) ==
  [i \in 1..Prod(cs) |-> <<(i - 1) % cs[1], ((i - 1) \div cs[1]) % cs[2], (i - 1) \div (cs[1] * cs[2])>>]

\* WorkItem.FlattenedID(): flattened with the *full* work-group size
FlatIn(geo, loc) == loc[1] + loc[2] * geo.s[1] + loc[3] * geo.s[1] * geo.s[2]

\* the loop of formWavefronts over the spawned items; a wavefront is
\* [first |-> FirstWiFlatID, mask |-> set of lanes with a 1 in InitExecMask, items |-> member flat ids]
RECURSIVE FormFrom(_, _, _, _, _)
FormFrom(geo, items, i, acc, asImpl) ==
  IF i > Len(items) THEN acc
  ELSE LET fid == FlatIn(geo, items[i])
           start == IF asImpl THEN fid % W = 0
                    ELSE acc = <<>> \/ acc[Len(acc)].first # fid - (fid % W)
           first == IF asImpl THEN fid ELSE fid - (fid % W)
           acc1 == IF start THEN Append(acc, [first |-> first, mask |-> {}, items |-> <<>>]) ELSE acc
           n == Len(acc1)
       IN FormFrom(geo, items, i + 1,
                   [acc1 EXCEPT ![n] = [first |-> acc1[n].first, mask |-> acc1[n].mask \cup {fid % W},
                                        items |-> Append(acc1[n].items, fid)]], asImpl)

FormAsImpl(geo, cs) == FormFrom(geo, SpawnItems(cs), 1, <<>>, TRUE)
FormFixed(geo, cs) == FormFrom(geo, SpawnItems(cs), 1, <<>>, FALSE)
FormWavefronts(geo, cs) ==
  IF "WfStartNeedsPresentMultiple" \in Deviations THEN FormAsImpl(geo, cs) ELSE FormFixed(geo, cs)

\* ------------------------------------------ initWfRegs / initRegisters (lane ids)
\* lane l of a wavefront is given the ids of flattened id FirstWiFlatID + l
Unflatten(geo, i) ==
  LET sxy == geo.s[1] * geo.s[2]
  IN <<(i % sxy) % geo.s[1], (i % sxy) \div geo.s[1], i \div sxy>>
\* register contents <<v0, v1, v2>> written for local id loc; en = EnableVgprWorkItemID (0..2)
\* (a register that is not written keeps 0 in a fresh register file)
RegsFor(loc, packed, en) ==
  IF packed THEN <<loc[1] + loc[2] * 1024 + loc[3] * 1048576, 0, 0>>
  ELSE <<loc[1], IF en > 0 THEN loc[2] ELSE 0, IF en > 1 THEN loc[3] ELSE 0>>
\* what a kernel reads back as its work-item id
IdsFrom(v, packed, en) ==
  IF packed THEN <<v[1] % 1024, (v[1] \div 1024) % 1024, (v[1] \div 1048576) % 1024>>
  ELSE <<v[1], IF en > 0 THEN v[2] ELSE 0, IF en > 1 THEN v[3] ELSE 0>>

\* ------------------------------------------------------------- the property
\* enabled lanes of a work-group's wavefronts, and the local id each one is given
Lanes(wfs) == UNION {{<<i, l>> : l \in wfs[i].mask} : i \in 1..Len(wfs)}
LaneId(geo, wfs, p) == Unflatten(geo, wfs[p[1]].first + p[2])

\* every work-item of the work-group is held by exactly one enabled lane, and no enabled
\* lane holds anything else (in particular nothing outside the grid)
LanesExact(geo, cs, wfs) ==
  LET L == Lanes(wfs)
      img == {LaneId(geo, wfs, p) : p \in L}
  IN /\ img = WGItems(cs)
     /\ Cardinality(L) = Prod(cs)
     /\ \A i \in 1..Len(wfs) : wfs[i].mask \subseteq 0..W - 1

\* the descriptor's member list agrees with its mask
MembersConsistent(geo, wfs) ==
  \A i \in 1..Len(wfs) :
     /\ Len(wfs[i].items) = Cardinality(wfs[i].mask)
     /\ {wfs[i].items[j] : j \in 1..Len(wfs[i].items)} = {wfs[i].first + l : l \in wfs[i].mask}

\* -------------------------------------------------- multi-GPU split (driver)
\* distributeWGToGPUs: wgDist as a sequence of length n+1 (1-based: dist[i] .. dist[i+1]-1 for GPU i)
SumSeq(s) == LET RECURSIVE S(_) S(i) == IF i = 0 THEN 0 ELSE s[i] + S(i - 1) IN S(Len(s))
WGDist(total, cus) ==
  LET perCU == (total - 1) \div SumSeq(cus) + 1
      RECURSIVE D(_)
      D(i) == IF i = 0 THEN 0 ELSE D(i - 1) + cus[i] * perCU
  IN [i \in 1..Len(cus) + 1 |-> D(i - 1)]
SplitFilter(total, cus, i) ==
  LET d == WGDist(total, cus) IN [k |-> "set", acc |-> {n \in 0..total - 1 : d[i] <= n /\ n < d[i + 1]}]
\* the accept sets of the GPUs partition the flattened work-group ids
SplitExact(total, accs) ==
  /\ UNION {accs[i] : i \in 1..Len(accs)} = 0..total - 1
  /\ \A i, j \in 1..Len(accs) : i # j => accs[i] \cap accs[j] = {}

InGrid(geo, id) == \A d \in 1..3 : id[d] \in 0..NumWGDim(geo, d) - 1
=============================================================================
