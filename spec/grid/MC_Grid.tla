------------------------------ MODULE MC_Grid ------------------------------
(* Exhaustive model: every grid up to MaxG^3, every work-group size with    *)
(* product <= MaxProd (so with W = 4: rows that are not multiples of W,     *)
(* partial edge groups, 1-3 dimensions), every filter induced by the CU     *)
(* vectors below, Skip(0..MaxSkip), iteration to exhaustion.                *)
EXTENDS Grid
CONSTANTS MaxG, MaxProd
MCGeosF == {[g |-> <<gx, gy, gz>>, s |-> <<sx, sy, sz>>] :
             <<gx, gy, gz, sx, sy, sz>> \in
               {t \in (1..MaxG) \X (1..MaxG) \X (1..MaxG) \X (1..MaxProd) \X (1..MaxProd) \X (1..MaxProd) :
                  t[4] * t[5] * t[6] <= MaxProd}}
MCCUVecs == {<<1>>, <<2, 1>>, <<1, 2, 1>>, <<3, 1, 2, 1>>}
MCCUVecsBig == {<<1>>, <<1, 1>>, <<2, 1>>, <<1, 1, 1>>, <<1, 2, 1>>, <<1, 1, 1, 1>>, <<3, 1, 2, 1>>}
MCSpec == Spec
=============================================================================
