SPECIFICATION Spec
CONSTANTS
  NLanes = 2
  LineSize = 8
  Deviations <- PerBatch
  Window = 2
  LastIsLast = TRUE
  MemSize = 24
  MCOps <- OpsDw
  MCAddrs <- Addrs7
INVARIANTS TypeOK WindowRespected OneLast NoCrash TxnSound RegsCorrect MemCorrect CountersZero CompletesOnce CompletesAfterLast
CHECK_DEADLOCK FALSE
