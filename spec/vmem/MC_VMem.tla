------------------------------ MODULE MC_VMem ------------------------------
EXTENDS VMem
NoDev == {}
Width == {"WidthAsImplemented"}
NoSplit == {"NoLineSplit"}
PerBatch == {"LastPerBatch"}
OpsAll == {16, 17, 18, 19, 20, 21, 24, 26, 28, 29}
OpsDw == {20, 21, 28, 29}
OpsSub == {16, 17, 18, 19, 24, 26}
Addrs7 == {0, 3, 6, 7, 10, 13, 16}
Addrs5 == {0, 4, 6, 7, 13}
AddrsAligned == {0, 4, 8, 12, 16}
=============================================================================
