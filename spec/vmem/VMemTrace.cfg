SPECIFICATION TSpec
CONSTANTS
  NLanes = 64
  LineSize = 64
  Tolerant = FALSE
INVARIANTS TransactionsInv StoreBytesInv WriteBackInv CompletesOnceInv CompletesAfterInv CountersZeroInv NoHangInv ValuesInv
CONSTRAINT Mark
POSTCONDITION Accepted
CHECK_DEADLOCK FALSE
