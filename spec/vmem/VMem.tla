-------------------------------- MODULE VMem --------------------------------
(***************************************************************************)
(* The vector memory path of the timing compute unit for ONE FLAT/global   *)
(* load or store (amd/timing/cu/vectormemoryunit.go executeFlatLoad /      *)
(* executeFlatStore, defaultcoalescer.go, computeunit.go                   *)
(* handleVectorDataLoadReturn / handleVectorDataStoreRsp).                 *)
(*                                                                         *)
(* The ISA-level meaning of the instruction is in VMemISA.tla (shared with  *)
(* VMemTrace.tla).  This module is the CU as a state machine:              *)
(* Coalesce (generateMemTransactions), Send (sendRequest), MemDo (the      *)
(* memory performs a transaction, any order), Handle (the CU takes a       *)
(* response: write-back, counter, completion).                             *)
(***************************************************************************)
EXTENDS VMemISA

CONSTANTS Deviations,  \* departures: "WidthAsImplemented", "NoLineSplit" (fixed in the tree), "LastPerBatch" (seeded)
          Window,      \* ComputeUnit.InFlightVectorMemAccessLimit: transactions admitted and not yet answered
          LastIsLast,  \* environment: the response to an instruction's last request is not overtaken (reorder buffer)
          MemSize, MCOps, MCAddrs   \* model checking only

Dev(d) == d \in Deviations

\* ------------------------------------------------------------------- the CU
VARIABLES I,        \* the instruction (chosen at Init, then constant)
          mem,      \* byte address -> byte
          reg,      \* lane -> bytes of the destination registers
          phase,    \* "issued" | "coalesced" | "crashed"
          toAdmit,  \* Seq of transactions coalesced but not yet admitted (the in-flight window is full)
          waiting,  \* Seq of transactions not yet sent (VectorMemoryUnit.transactionsWaiting + pipeline)
          inMem,    \* transactions at the memory, not yet performed
          ready,    \* performed, response not yet taken by the CU (reads carry the line's bytes)
          handled,  \* lines whose response the CU has handled
          outV,     \* OutstandingVectorMemAccess
          completed \* how many times the instruction's task was ended
vars == <<I, mem, reg, phase, toAdmit, waiting, inMem, ready, handled, outV, completed>>

\* what the code transfers per lane (the ISA's width unless the deviation is on)
CUBytes(opc) == IF Dev("WidthAsImplemented")
                THEN (CASE opc \in {16, 18} -> 1            \* flat_load_ushort handled like flat_load_ubyte
                        [] opc \in {17, 19, 24, 26} -> 4    \* sbyte / sshort loads and byte / short stores move a dword
                        [] OTHER -> OpBytes(opc))
                ELSE OpBytes(opc)
CUSigned(opc) == IF Dev("WidthAsImplemented") THEN FALSE ELSE OpSigned(opc)
CUByteAddrs(l) == {I.a[l] + k : k \in 0..(CUBytes(I.opc) - 1)}
CUTouched == UNION {CUByteAddrs(l) : l \in Active(I)}
\* a dword-sized piece that leaves its line: the coalescer only asks for the line of its first byte
Pieces(l) == LET n == CUBytes(I.opc) IN
             IF n <= 4 THEN {[lo |-> I.a[l], n |-> n]} ELSE {[lo |-> I.a[l] + 4 * j, n |-> 4] : j \in 0..((n \div 4) - 1)}
Crosses(p) == LineOf(p.lo) # LineOf(p.lo + p.n - 1)
AnyCross == \E l \in Active(I) : \E p \in Pieces(l) : Crosses(p)

CUWriters(b) == {l \in Active(I) : b \in CUByteAddrs(l)}
CUStoreByte(b) == LET l == SetMax(CUWriters(b)) IN I.src[l][b - I.a[l] + 1]
Txn(line, last) ==
  [line |-> line, last |-> last,
   mask |-> IF IsLoad(I.opc) THEN <<>> ELSE [o \in 1..LineSize |-> IF CUWriters(line + o - 1) # {} THEN 1 ELSE 0],
   data |-> IF IsLoad(I.opc) THEN <<>> ELSE [o \in 1..LineSize |-> IF CUWriters(line + o - 1) # {} THEN CUStoreByte(line + o - 1) ELSE 0]]

\* the order of the transactions: by first appearance over lanes and bytes = ascending here (order is not a property)
SortedLines(S) == LET RECURSIVE Srt(_)
                      Srt(T) == IF T = {} THEN <<>> ELSE LET m == CHOOSE x \in T : \A y \in T : x <= y IN <<m>> \o Srt(T \ {m})
                  IN Srt(S)

Coalesce ==
  /\ phase = "issued"
  /\ IF Dev("NoLineSplit") /\ AnyCross
     THEN \* defaultCoalescer: "req cannot hold data" for stores; the truncated write-back slice for loads
          /\ phase' = "crashed" /\ UNCHANGED <<toAdmit, outV, completed>>
     ELSE LET ls == SortedLines({LineOf(b) : b \in CUTouched}) IN
          /\ phase' = "coalesced"
          /\ toAdmit' = [i \in 1..Len(ls) |-> Txn(ls[i], FALSE)]
          /\ outV' = IF Len(ls) = 0 THEN outV ELSE outV + 1
          /\ completed' = IF Len(ls) = 0 THEN completed + 1 ELSE completed
  /\ UNCHANGED <<I, mem, reg, waiting, inMem, ready, handled>>

\* executeFlatLoad / executeFlatStore: the transactions enter InFlightVectorMemAccess when they fit under the limit
\* - all at once (the shipped code waits until they all fit) or in batches as room frees up.  The transaction that
\* tells the CU that the instruction has finished (not CanWaitForCoalesce) is the instruction's final one.
InFlight == Len(waiting) + Cardinality(inMem) + Cardinality(ready)
Admit(k) ==
  /\ phase = "coalesced" /\ k \in 1..Len(toAdmit) /\ InFlight + k <= Window
  /\ LET batch == [i \in 1..k |-> [toAdmit[i] EXCEPT !.last =
                     IF Dev("LastPerBatch") THEN i = k ELSE (i = k /\ k = Len(toAdmit))]]
     IN waiting' = waiting \o batch
  /\ toAdmit' = SubSeq(toAdmit, k + 1, Len(toAdmit))
  /\ UNCHANGED <<I, mem, reg, phase, inMem, ready, handled, outV, completed>>

Send ==
  /\ waiting # <<>>
  /\ inMem' = inMem \cup {Head(waiting)} /\ waiting' = Tail(waiting)
  /\ UNCHANGED <<I, mem, reg, phase, toAdmit, ready, handled, outV, completed>>

\* the memory performs a transaction (any order)
MemDo(t) ==
  /\ t \in inMem /\ inMem' = inMem \ {t}
  /\ IF IsLoad(I.opc)
     THEN /\ ready' = ready \cup {[t EXCEPT !.data = [o \in 1..LineSize |-> mem[t.line + o - 1]]]}
          /\ mem' = mem
     ELSE /\ mem' = [b \in DOMAIN mem |-> IF b \in t.line..(t.line + LineSize - 1) /\ t.mask[b - t.line + 1] = 1
                                           THEN t.data[b - t.line + 1] ELSE mem[b]]
          /\ ready' = ready \cup {t}
  /\ UNCHANGED <<I, reg, phase, toAdmit, waiting, handled, outV, completed>>

\* write-back of one response: every byte of an active lane that lives in this line goes to its place in the
\* lane's registers; the piece that holds the most significant loaded byte also sets the extension bytes
WriteBack(t) ==
  [l \in Lanes |->
     IF l \notin Active(I) THEN reg[l]
     ELSE LET n == CUBytes(I.opc)
              mine == {k \in 1..n : LineOf(I.a[l] + k - 1) = t.line}
              top == n \in mine /\ n < 4
              fill == IF CUSigned(I.opc) /\ t.data[I.a[l] + n - 1 - t.line + 1] >= 128 THEN 255 ELSE 0
          IN [k \in 1..Len(reg[l]) |->
                IF k \in mine THEN t.data[I.a[l] + k - 1 - t.line + 1]
                ELSE IF top /\ k > n /\ k <= 4 THEN fill
                ELSE reg[l][k]]]

Handle(t) ==
  /\ t \in ready /\ ready' = ready \ {t}
  /\ (LastIsLast /\ t.last) => (waiting = <<>> /\ inMem = {} /\ ready = {t})
  /\ handled' = handled \cup {t.line}
  /\ reg' = IF IsLoad(I.opc) THEN WriteBack(t) ELSE reg
  /\ outV' = IF t.last THEN outV - 1 ELSE outV
  /\ completed' = IF t.last THEN completed + 1 ELSE completed
  /\ UNCHANGED <<I, mem, phase, toAdmit, waiting, inMem>>

\* ---------------------------------------------------------------- MC set-up
Mem0 == [b \in 0..(MemSize - 1) |-> (b * 37 + 131) % 256]
SrcOf(l, n) == [k \in 1..n |-> (l * 53 + k * 17 + 128) % 256]
BeforeOf(l, n) == [k \in 1..n |-> (l * 11 + k * 3 + 1) % 256]
MCInstrs ==
  {[opc |-> opc, exec |-> e, a |-> a,
    src |-> [l \in Lanes |-> SrcOf(l, 4 * OpRegs(opc))],
    before |-> [l \in Lanes |-> BeforeOf(l, 4 * OpRegs(opc))]] :
   opc \in MCOps, e \in [Lanes -> {0, 1}], a \in [Lanes -> MCAddrs]}

Init ==
  /\ I \in {i \in MCInstrs : \A l \in Lanes : i.a[l] + OpBytes(i.opc) <= MemSize /\ i.a[l] + 4 <= MemSize}
  /\ mem = Mem0 /\ reg = I.before
  /\ phase = "issued" /\ toAdmit = <<>> /\ waiting = <<>> /\ inMem = {} /\ ready = {} /\ handled = {} /\ outV = 0 /\ completed = 0

Next == Coalesce \/ (\E k \in 1..Len(toAdmit) : Admit(k)) \/ Send \/ (\E t \in inMem : MemDo(t)) \/ (\E t \in ready : Handle(t))
Spec == Init /\ [][Next]_vars
FairSpec == Spec /\ WF_vars(Coalesce) /\ WF_vars(\E k \in 1..Len(toAdmit) : Admit(k)) /\ WF_vars(Send) /\ WF_vars(\E t \in inMem : MemDo(t)) /\ WF_vars(\E t \in ready : Handle(t))

\* --------------------------------------------------------------- properties
AllDone == phase = "coalesced" /\ toAdmit = <<>> /\ waiting = <<>> /\ inMem = {} /\ ready = {}
NoCrash == phase # "crashed"
\* transactions: only lines an active lane touches, and (once coalesced) all of them; stores carry exactly the active bytes
AllTxns == {toAdmit[i] : i \in 1..Len(toAdmit)} \cup {waiting[i] : i \in 1..Len(waiting)} \cup inMem \cup ready
\* the in-flight window is respected, and exactly one transaction of the instruction is flagged as its last
WindowRespected == InFlight <= Window
OneLast == Cardinality({t \in AllTxns : t.last}) <= 1
TxnSound ==
  /\ \A t \in AllTxns : t.line \in ExpLines(I)
  /\ phase = "coalesced" => {t.line : t \in AllTxns} \cup handled = ExpLines(I)
  /\ ~IsLoad(I.opc) => \A t \in AllTxns : /\ t.mask = ExpMask(I, t.line)
                                          /\ \A o \in 1..LineSize : t.mask[o] = 1 => t.data[o] = ExpData(I, t.line)[o]
\* loads: every active lane got exactly its bytes with the ISA's extension, inactive lanes kept their registers
RegsCorrect == (AllDone /\ IsLoad(I.opc)) => \A l \in Lanes : reg[l] = ExpDst(I, l, Mem0)
\* stores: exactly the active lanes' bytes changed
MemCorrect == AllDone => \A b \in DOMAIN mem :
                 mem[b] = IF ~IsLoad(I.opc) /\ Writers(I, b) # {} THEN StoreByte(I, b) ELSE Mem0[b]
CountersZero == AllDone => outV = 0
CompletesOnce == completed <= 1 /\ (AllDone => completed = 1)
CompletesAfterLast == completed = 1 => AllDone
TypeOK == outV \in 0..1 /\ phase \in {"issued", "coalesced", "crashed"}

Finishes == <>(AllDone)
=============================================================================
