SPECIFICATION Spec
CONSTANTS
  NLanes = 3
  LineSize = 8
  Deviations <- NoDev
  LastIsLast = TRUE
  MemSize = 24
  MCOps <- OpsAll
  MCAddrs <- Addrs5
INVARIANTS TypeOK NoCrash TxnSound RegsCorrect MemCorrect CountersZero CompletesOnce CompletesAfterLast
CHECK_DEADLOCK FALSE
