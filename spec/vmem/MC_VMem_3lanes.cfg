SPECIFICATION Spec
CONSTANTS
  NLanes = 3
  LineSize = 8
  Deviations <- NoDev
  Window = 2
  LastIsLast = TRUE
  MemSize = 24
  MCOps <- OpsAll
  MCAddrs <- Addrs5
INVARIANTS TypeOK WindowRespected OneLast NoCrash TxnSound RegsCorrect MemCorrect CountersZero CompletesOnce CompletesAfterLast
CHECK_DEADLOCK FALSE
