SPECIFICATION Spec
CONSTANTS
  NLanes = 2
  LineSize = 8
  Deviations <- NoDev
  LastIsLast = FALSE
  MemSize = 24
  MCOps <- OpsDw
  MCAddrs <- Addrs7
INVARIANTS TypeOK NoCrash TxnSound RegsCorrect MemCorrect CountersZero CompletesOnce CompletesAfterLast
CHECK_DEADLOCK FALSE
