SPECIFICATION Spec
CONSTANTS
  NLanes = 2
  LineSize = 8
  Deviations <- Width
  Window = 2
  LastIsLast = TRUE
  MemSize = 24
  MCOps <- OpsSub
  MCAddrs <- AddrsAligned
INVARIANTS TypeOK WindowRespected OneLast NoCrash TxnSound RegsCorrect MemCorrect CountersZero CompletesOnce CompletesAfterLast
CHECK_DEADLOCK FALSE
