SPECIFICATION Spec
CONSTANTS
  NLanes = 2
  LineSize = 8
  Deviations <- Width
  LastIsLast = TRUE
  MemSize = 24
  MCOps <- OpsSub
  MCAddrs <- AddrsAligned
INVARIANTS TypeOK NoCrash TxnSound RegsCorrect MemCorrect CountersZero CompletesOnce CompletesAfterLast
CHECK_DEADLOCK FALSE
