SPECIFICATION FairSpec
CONSTANTS
  NLanes = 2
  LineSize = 8
  Deviations <- NoDev
  Window = 2
  LastIsLast = TRUE
  MemSize = 24
  MCOps <- OpsAll
  MCAddrs <- Addrs5
PROPERTIES Finishes
CHECK_DEADLOCK FALSE
