------------------------------ MODULE VMemISA ------------------------------
(***************************************************************************)
(* ISA-level meaning of one FLAT/global load or store, as functions of the *)
(* instruction record                                                      *)
(*   I = [opc, exec (lane -> 0/1), a (lane -> byte address),               *)
(*        src (lane -> bytes of the data registers),                       *)
(*        before (lane -> bytes of the destination registers)]             *)
(* Used by the model VMem.tla (few lanes, 8-byte lines) and by the trace   *)
(* specification VMemTrace.tla (64 lanes, 64-byte lines).                  *)
(***************************************************************************)
EXTENDS Integers, Sequences, FiniteSets, TLC

CONSTANTS NLanes,      \* lanes of a wavefront
          LineSize     \* bytes per cache line (transactions are whole lines)

Lanes == 1..NLanes

\* ------------------------------------------------------------------ the ISA
IsLoad(opc) == opc \in 16..23
OpBytes(opc) == CASE opc \in {16, 17, 24} -> 1
                  [] opc \in {18, 19, 26} -> 2
                  [] opc \in {20, 28} -> 4
                  [] opc \in {21, 29} -> 8
                  [] opc \in {22, 30} -> 12
                  [] opc \in {23, 31} -> 16
OpRegs(opc) == CASE opc \in {21, 29} -> 2 [] opc \in {22, 30} -> 3 [] opc \in {23, 31} -> 4 [] OTHER -> 1
OpSigned(opc) == opc \in {17, 19}

LineOf(b) == b - (b % LineSize)
Active(I) == {l \in Lanes : I.exec[l] = 1}
ByteAddrs(I, l) == {I.a[l] + k : k \in 0..(OpBytes(I.opc) - 1)}
Touched(I) == UNION {ByteAddrs(I, l) : l \in Active(I)}
\* the cache lines the instruction needs: exactly those holding a byte of an active lane
LinesOfLane(I, l) == LET lo == LineOf(I.a[l])
                         hi == LineOf(I.a[l] + OpBytes(I.opc) - 1)
                     IN {lo + k * LineSize : k \in 0..((hi - lo) \div LineSize)}
ExpLines(I) == UNION {LinesOfLane(I, l) : l \in Active(I)}

SetMax(S) == CHOOSE x \in S : \A y \in S : y <= x
Writers(I, b) == {l \in Active(I) : I.a[l] <= b /\ b < I.a[l] + OpBytes(I.opc)}
\* a byte written by several lanes keeps the value of the highest one (lanes are served in order)
StoreByte(I, b) == LET l == SetMax(Writers(I, b)) IN I.src[l][b - I.a[l] + 1]
ExpMask(I, line) == [o \in 1..LineSize |-> IF Writers(I, line + o - 1) # {} THEN 1 ELSE 0]
ExpData(I, line) == [o \in 1..LineSize |-> IF Writers(I, line + o - 1) # {} THEN StoreByte(I, line + o - 1) ELSE 0]

\* destination registers of a lane after a load; B maps byte address -> byte
Fill(n, v) == [i \in 1..n |-> v]
Extend(opc, bytes) ==
  LET n == OpBytes(opc) IN
  IF n >= 4 THEN bytes
  ELSE bytes \o Fill(4 - n, IF OpSigned(opc) /\ bytes[n] >= 128 THEN 255 ELSE 0)
Loaded(I, l, B) == [k \in 1..OpBytes(I.opc) |-> B[I.a[l] + k - 1]]
ExpDst(I, l, B) == IF l \in Active(I) THEN Extend(I.opc, Loaded(I, l, B)) ELSE I.before[l]

=============================================================================
