SPECIFICATION Spec
CONSTANTS
  NLanes = 2
  LineSize = 8
  Deviations <- NoDev
  Window = 4
  LastIsLast = TRUE
  MemSize = 24
  MCOps <- OpsAll
  MCAddrs <- Addrs7
INVARIANTS TypeOK WindowRespected OneLast NoCrash TxnSound RegsCorrect MemCorrect CountersZero CompletesOnce CompletesAfterLast
CHECK_DEADLOCK FALSE
