----------------------------- MODULE VMemTrace -----------------------------
(***************************************************************************)
(* Trace specification for the vector memory path of the real timing CU.   *)
(* One ndjson line per event (single goroutine, total order):              *)
(*   Exec    a FLAT instruction was issued: opcode, EXEC, the per-lane     *)
(*           address, the source registers (stores) / the destination      *)
(*           registers before (loads), all read from the real register     *)
(*           file when the tracing task of the instruction started         *)
(*   Req     the CU sent a memory transaction (Send hook on ToVectorMem):  *)
(*           line address, read or write, dirty mask and data, last flag   *)
(*   Rsp     the CU took a response from the port (reads: the line's data) *)
(*   InstEnd the instruction's tracing task was ended (every call)         *)
(*   Done    all responses of the instruction were handled: the            *)
(*           destination registers as they are now                         *)
(*   WfEnd   the wavefront ended: its outstanding-access counters          *)
(*   Quiesce the engine is idle and the environment owes nothing           *)
(*   Final   digests of the data / result buffers, timing vs emulation     *)
(*   Panic   the real code panicked (no action accepts it)                 *)
(* The expected transactions and the expected write-back are computed with *)
(* the ISA functions of VMemISA.tla from the Exec line and from the data   *)
(* the responses carried.  Broken rules are flagged in `bad` and reported  *)
(* by named invariants (strict configuration) or collected per sub-trace   *)
(* (tolerant configuration: the sub-trace is given up, validation resumes  *)
(* at the next Reset).                                                     *)
(***************************************************************************)
EXTENDS VMemISA, TraceLib, Json

CONSTANT Tolerant

TraceLog == ndJsonDeserialize("trace.ndjson")
N == Len(TraceLog)

VARIABLES l,       \* position in TraceLog
          fl,      \* instruction id -> its record (see TExec)
          rq,      \* request number -> [id, line]
          bad,     \* rules broken in the current sub-trace
          rejects  \* tolerant mode: [l, why] per sub-trace given up
tvars == <<l, fl, rq, bad, rejects>>

ASSUME HWInit

Ev == TraceLog[l]
Is(e) == l <= N /\ Ev.e = e /\ l' = l + 1
Flag(name) == bad' = bad \cup {name}
Ok == bad' = bad

TInit == l = 1 /\ fl = <<>> /\ rq = <<>> /\ bad = {} /\ rejects = <<>>

Instr(e) == [opc |-> e.opc, exec |-> e.exec, a |-> e.a, src |-> e.src, before |-> e.before]

TExec ==
  /\ Is("Exec") /\ Ev.id \notin DOMAIN fl
  /\ fl' = fl @@ (Ev.id :> [I |-> Instr(Ev), lines |-> ExpLines(Instr(Ev)), w |-> Ev.w, seen |-> {}, rsp |-> <<>>,
                            nrsp |-> 0, last |-> FALSE, ended |-> 0, done |-> FALSE])
  /\ Ok /\ UNCHANGED <<rq, rejects>>

\* a transaction: only for a line an active lane touches, once per line, whole lines; stores carry exactly the
\* bytes of the active lanes; the request flagged last is sent after all the others
TReq ==
  /\ Is("Req") /\ Ev.id \in DOMAIN fl /\ Ev.r \notin DOMAIN rq
  /\ LET f == fl[Ev.id]
         I == f.I
         okLine == Ev.line \in f.lines /\ Ev.line \notin f.seen /\ Ev.line % LineSize = 0
         okKind == (Ev.k = "r") = IsLoad(I.opc) /\ Ev.n = LineSize
         em == ExpMask(I, Ev.line)
         ed == ExpData(I, Ev.line)
         okBytes == IsLoad(I.opc) \/
                    (/\ Len(Ev.mask) = LineSize /\ Len(Ev.data) = LineSize
                     /\ Ev.mask = em
                     /\ \A o \in 1..LineSize : em[o] = 1 => Ev.data[o] = ed[o])
         okLast == Ev.last = 1 => f.seen \cup {Ev.line} = f.lines
     IN /\ IF ~okLine \/ ~okKind THEN Flag("Transactions")
           ELSE IF ~okBytes THEN Flag("StoreBytes")
           ELSE IF ~okLast \/ f.last THEN Flag("LastRequest")
           ELSE Ok
        /\ fl' = [fl EXCEPT ![Ev.id] = [f EXCEPT !.seen = @ \cup {Ev.line}, !.last = (@ \/ Ev.last = 1)]]
        /\ rq' = rq @@ (Ev.r :> [id |-> Ev.id, line |-> Ev.line])
  /\ UNCHANGED rejects

TRsp ==
  /\ Is("Rsp") /\ Ev.r \in DOMAIN rq /\ rq[Ev.r].id = Ev.id
  /\ LET f == fl[Ev.id]
         line == rq[Ev.r].line
     IN /\ IF line \in DOMAIN f.rsp \/ (IsLoad(f.I.opc) /\ Len(Ev.data) # LineSize) THEN Flag("Responses") ELSE Ok
        /\ fl' = [fl EXCEPT ![Ev.id] = [f EXCEPT !.rsp = (line :> Ev.data) @@ @, !.nrsp = @ + 1]]
  /\ UNCHANGED <<rq, rejects>>

\* the task of the instruction is ended once, and not before the last response was taken
TInstEnd ==
  /\ Is("InstEnd") /\ Ev.id \in DOMAIN fl
  /\ LET f == fl[Ev.id] IN
       /\ IF f.ended >= 1 THEN Flag("CompletesOnce")
          ELSE IF f.seen # f.lines \/ f.nrsp < Cardinality(f.lines) THEN Flag("CompletesAfterLastResponse")
          ELSE Ok
       /\ fl' = [fl EXCEPT ![Ev.id] = [f EXCEPT !.ended = @ + 1]]
  /\ UNCHANGED <<rq, rejects>>

\* every line was asked for and answered; each active lane's registers hold exactly its bytes, extended as the
\* ISA says, the other lanes' registers are untouched
TDone ==
  /\ Is("Done") /\ Ev.id \in DOMAIN fl
  /\ LET f == fl[Ev.id]
         I == f.I
         complete == f.seen = f.lines /\ DOMAIN f.rsp = f.lines
         B == [b \in Touched(I) |-> f.rsp[LineOf(b)][b - LineOf(b) + 1]]
     IN /\ IF f.done THEN Flag("CompletesOnce")
           ELSE IF ~complete THEN Flag("Transactions")
           ELSE IF IsLoad(I.opc) /\ (\E ln \in Lanes : Ev.after[ln] # ExpDst(I, ln, B)) THEN Flag("WriteBack")
           ELSE Ok
        /\ fl' = [fl EXCEPT ![Ev.id] = [f EXCEPT !.done = TRUE]]
  /\ UNCHANGED <<rq, rejects>>

Settled(f) == f.done /\ f.ended = 1
TWfEnd ==
  /\ Is("WfEnd")
  /\ IF Ev.ov # 0 \/ Ev.os # 0 THEN Flag("CountersZero")
     ELSE IF \E i \in DOMAIN fl : fl[i].w = Ev.w /\ ~Settled(fl[i]) THEN Flag("CompletesOnce")
     ELSE Ok
  /\ UNCHANGED <<fl, rq, rejects>>

TQuiesce ==
  /\ Is("Quiesce")
  /\ IF Ev.pending # 0 THEN Flag("NoHang")
     ELSE IF \E i \in DOMAIN fl : ~Settled(fl[i]) THEN Flag("CompletesOnce")
     ELSE Ok
  /\ UNCHANGED <<fl, rq, rejects>>

TFinal ==
  /\ Is("Final")
  /\ IF Ev.ref = 0 \/ (Ev.td = Ev.ed /\ Ev.to = Ev.eo) THEN Ok ELSE Flag("ValuesEqualReference")
  /\ UNCHANGED <<fl, rq, rejects>>

Fresh == fl' = <<>> /\ rq' = <<>> /\ bad' = {}
TReset == Is("Reset") /\ Fresh /\ UNCHANGED rejects

Events == TExec \/ TReq \/ TRsp \/ TInstEnd \/ TDone \/ TWfEnd \/ TQuiesce \/ TFinal \/ TReset

ResetLines == {j \in 1..N : TraceLog[j].e = "Reset"}
NextReset(j) == IF \E k \in ResetLines : k >= j THEN CHOOSE k \in ResetLines : k >= j /\ \A m \in ResetLines : m >= j => k <= m
                ELSE N + 1
TSkip ==
  /\ Tolerant /\ (l <= N \/ bad # {})
  /\ IF bad # {}
     THEN rejects' = Append(rejects, [l |-> l - 1, why |-> bad]) /\ l' = NextReset(l)
     ELSE rejects' = Append(rejects, [l |-> l, why |-> {"no_matching_action"}]) /\ l' = NextReset(l + 1)
  /\ Fresh

TNext == IF bad # {} THEN TSkip
         ELSE IF Tolerant /\ l <= N /\ ~ENABLED Events THEN TSkip
         ELSE Events

TSpec == TInit /\ [][TNext]_tvars

TransactionsInv   == "Transactions" \notin bad /\ "LastRequest" \notin bad /\ "Responses" \notin bad
StoreBytesInv     == "StoreBytes" \notin bad
WriteBackInv      == "WriteBack" \notin bad
CompletesOnceInv  == "CompletesOnce" \notin bad
CompletesAfterInv == "CompletesAfterLastResponse" \notin bad
CountersZeroInv   == "CountersZero" \notin bad
NoHangInv         == "NoHang" \notin bad
ValuesInv         == "ValuesEqualReference" \notin bad

Mark == HWNote(l)
Accepted == HWReport(N)
Report == (l = N + 1 /\ bad = {}) => PrintT(<<"REJECTS", rejects>>)
=============================================================================
