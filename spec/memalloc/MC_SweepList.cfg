SPECIFICATION Spec
CONSTANTS
  MaxLen = 5
  AsImplemented = FALSE
INVARIANTS NeverPanics SweepsExactlyTheFreed
CHECK_DEADLOCK FALSE
