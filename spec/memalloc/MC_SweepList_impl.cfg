SPECIFICATION Spec
CONSTANTS
  MaxLen = 3
  AsImplemented = TRUE
INVARIANTS NeverPanics
CHECK_DEADLOCK FALSE
