--------------------------- MODULE MemAllocTrace ---------------------------
(***************************************************************************)
(* Trace specification: is a log of public driver API calls (what each     *)
(* call returned + the complete content of the vm.PageTable handed to the  *)
(* driver builder, read back through Find after the call) a behaviour of   *)
(* MemAlloc?  One log line = one API call (harness/c10lib).                *)
(*                                                                         *)
(* The physical pages a call obtained are read from the logged table and   *)
(* passed to the specification action, whose guards decide whether the     *)
(* call was allowed to obtain them (free, on the right device, never       *)
(* handed out twice); the table computed by the action must then equal the *)
(* logged one entry for entry.  Deviations listed in CONSTANT Deviations   *)
(* are accepted but printed (DEVIATION lines): the check driver reports    *)
(* every use as a finding.                                                 *)
(***************************************************************************)
EXTENDS MemAlloc, TraceLib, Json

TraceLog == ndJsonDeserialize("trace.ndjson")
N == Len(TraceLog)

VARIABLES l,        \* position in TraceLog
          psz,      \* bytes per page of the run being validated
          aligned,  \* every pointer / page seen so far was page-aligned and well-formed
          bctx      \* context that owns each buffer (aligned with bufs): Context.buffers bookkeeping
tvars == <<vars, l, psz, aligned, bctx>>

ASSUME HWInit

Ev == TraceLog[l]
Is(e) == l <= N /\ Ev.e = e /\ l' = l + 1

TInit ==
  /\ devs = <<>> /\ out = {} /\ limbo = {} /\ nextV = <<>> /\ vown = <<>> /\ pt = <<>>
  /\ bufs = <<>> /\ held = {} /\ devUsed = {} /\ crashed = FALSE
  /\ l = 1 /\ psz = 1 /\ aligned = TRUE /\ bctx = <<>>

\* ------------------------------------------------------------ logged table
LPT(s) == [k \in {<<s[i].pid, s[i].v>> : i \in 1..Len(s)} |->
             LET i == CHOOSE j \in 1..Len(s) : <<s[j].pid, s[j].v>> = k IN
             [ppn |-> s[i].ppn, dev |-> s[i].dev, mig |-> s[i].mig = 1]]
NoDupKeys(s) == \A i, j \in 1..Len(s) : i # j => <<s[i].pid, s[i].v>> # <<s[j].pid, s[j].v>>
WellFormed(s) == \A i \in 1..Len(s) : s[i].voff = 0 /\ s[i].poff = 0 /\ s[i].ok = 1
Pages(bytes) == ((bytes - 1) \div psz) + 1
Note(dv) == IF dv = {} THEN TRUE ELSE PrintT(<<"DEVIATION", l, dv>>)
Seen(s) == aligned' = (aligned /\ WellFormed(s)) /\ UNCHANGED <<psz, bctx>>

\* -------------------------------------------------------------------- calls
TAlloc ==
  /\ Is("Alloc") /\ Ev.bytes >= 1 /\ NoDupKeys(Ev.pt)
  /\ LET n == Pages(Ev.bytes)
         t == LPT(Ev.pt)
         keys == {<<Ev.pid, Ev.v + i>> : i \in 0..(n - 1)} IN
     /\ Ev.v = NextV(Ev.pid)                      \* fresh virtual range right at the cursor
     /\ keys \subseteq DOMAIN t
     /\ Alloc(Ev.pid, Ev.dev, [i \in 1..n |-> t[<<Ev.pid, Ev.v + i - 1>>].ppn])
     /\ pt' = t
  /\ aligned' = (aligned /\ WellFormed(Ev.pt) /\ Ev.voff = 0) /\ UNCHANGED psz
  /\ bctx' = Append(bctx, Ev.ctx)

TFree ==
  /\ Is("Free") /\ NoDupKeys(Ev.pt)
  /\ Ev.b \in 1..Len(bufs) /\ bufs[Ev.b].v = Ev.v
  /\ \E dv \in SUBSET Deviations :
       /\ Free(Ev.pid, Ev.b, dv) /\ pt' = LPT(Ev.pt) /\ Note(dv)
  /\ Seen(Ev.pt)

TRemap ==
  /\ Is("Remap") /\ Ev.bytes >= 1 /\ NoDupKeys(Ev.pt)
  /\ LET n == Pages(Ev.bytes)
         t == LPT(Ev.pt)
         keys == {<<Ev.pid, Ev.v + i>> : i \in 0..(n - 1)} IN
     /\ keys \subseteq DOMAIN t
     /\ \E dv \in SUBSET Deviations :
          /\ Remap(Ev.pid, Ev.v, [i \in 1..n |-> Ev.dev], [i \in 1..n |-> t[<<Ev.pid, Ev.v + i - 1>>].ppn], dv)
          /\ pt' = t /\ Note(dv)
  /\ aligned' = (aligned /\ WellFormed(Ev.pt) /\ Ev.voff = 0) /\ UNCHANGED <<psz, bctx>>

\* Distribute: every page of the range ends up on one of the listed GPUs and the byte counts returned per GPU
\* agree with where the pages went.  With a single GPU the implementation leaves the buffer where it is.
TDist ==
  /\ Is("Dist") /\ Ev.bytes >= 1 /\ NoDupKeys(Ev.pt)
  /\ LET n == Pages(Ev.bytes)
         t == LPT(Ev.pt)
         gs == Ev.gpus
         keys == {<<Ev.pid, Ev.v + i>> : i \in 0..(n - 1)} IN
     /\ keys \subseteq DOMAIN t
     /\ \A i \in 1..Len(gs) : gs[i] \in DevIds /\ Dev(gs[i]).type = "gpu"
     /\ Len(Ev.ret) = Len(gs)
     /\ IF Len(gs) = 1
        THEN /\ ~crashed /\ keys \subseteq LiveKeys \cap DOMAIN pt /\ t = pt /\ Ev.ret[1] * psz + Ev.retrem[1] = Ev.bytes
             /\ UNCHANGED vars
        ELSE LET ds == [i \in 1..n |-> t[<<Ev.pid, Ev.v + i - 1>>].dev] IN
             /\ \A i \in 1..n : \E j \in 1..Len(gs) : gs[j] = ds[i]
             /\ \A j \in 1..Len(gs) : Ev.retrem[j] = 0 /\ Ev.ret[j] = Cardinality({i \in 1..n : ds[i] = gs[j]})
             /\ \E dv \in SUBSET Deviations :
                  /\ Remap(Ev.pid, Ev.v, ds, [i \in 1..n |-> t[<<Ev.pid, Ev.v + i - 1>>].ppn], dv)
                  /\ pt' = t /\ Note(dv)
  /\ aligned' = (aligned /\ WellFormed(Ev.pt) /\ Ev.voff = 0) /\ UNCHANGED <<psz, bctx>>

TMig ==
  /\ Is("Mig") /\ NoDupKeys(Ev.pt)
  /\ LET t == LPT(Ev.pt) IN
     /\ <<Ev.pid, Ev.v>> \in DOMAIN t
     /\ PrepareMigration(Ev.pid, Ev.v, Ev.gpu, t[<<Ev.pid, Ev.v>>].ppn)
     /\ pt' = t
  /\ aligned' = (aligned /\ WellFormed(Ev.pt) /\ Ev.voff = 0) /\ UNCHANGED <<psz, bctx>>

\* One huge buffer allocated and freed at once (moves the virtual cursor across a power-of-two boundary).
\* Between the two calls the harness found: all n pages mapped, pairwise distinct physical pages, none of them
\* mapped before, all inside and recorded for the target device, page-aligned and valid; after the Free none left.
TBurn ==
  /\ Is("Burn") /\ NoDupKeys(Ev.pt)
  /\ Ev.v = NextV(Ev.pid)
  /\ Ev.mapped = Ev.n /\ Ev.distinct = 1 /\ Ev.fresh = 1 /\ Ev.indev = 1 /\ Ev.left = 0
  /\ Burn(Ev.pid, Ev.dev, Ev.n)
  /\ LPT(Ev.pt) = pt
  /\ aligned' = (aligned /\ WellFormed(Ev.pt) /\ Ev.voff = 0 /\ Ev.wf = 1) /\ UNCHANGED psz
  /\ bctx' = Append(bctx, Ev.ctx)

\* Buddy allocator only (deviation BuddyCorruptsFreeLists): the call handed out a live page.  Terminal.
TAliased ==
  /\ l <= N /\ Ev.e \in {"Alloc", "Remap", "Dist", "Mig"} /\ l' = l + 1
  /\ NoDupKeys(Ev.pt)
  /\ AliasedEnd(LPT(Ev.pt)) /\ Note({"BuddyCorruptsFreeLists"})
  /\ Seen(Ev.pt)

\* The real code panicked inside a call.  Accepted only where the specification says the call cannot succeed:
\* the device is exhausted (legitimately, or because of pages a listed deviation leaked), or the as-implemented
\* Free trips over an entry of another process.
TPanic ==
  /\ Is("Panic")
  /\ LET dvBefore == devUsed IN
     \/ /\ Ev.op \in {"Alloc", "Launch"} /\ Ev.dev \in DevIds
        /\ \/ OutOfMemory(Targets(Ev.dev), Pages(Ev.bytes), TRUE)
           \/ OutOfMemoryBuddy(Targets(Ev.dev), Pages(Ev.bytes), TRUE)
        /\ Note(devUsed' \ dvBefore)
     \/ /\ Ev.op = "Burn" /\ Ev.dev \in DevIds
        /\ OutOfMemory(Targets(Ev.dev), Ev.n, TRUE)
        /\ Note(devUsed' \ dvBefore)
     \/ /\ Ev.op = "Remap" /\ Ev.dev \in DevIds
        /\ \/ OutOfMemory(Targets(Ev.dev), Pages(Ev.bytes), FALSE)
           \/ OutOfMemoryBuddy(Targets(Ev.dev), Pages(Ev.bytes), FALSE)
        /\ Note(devUsed' \ dvBefore)
     \/ /\ Ev.op = "Dist" /\ Len(Ev.gpus) > 1
        /\ LET T == {Ev.gpus[j] : j \in 1..Len(Ev.gpus)}  m == DistMax(Pages(Ev.bytes), Len(Ev.gpus)) IN
           OutOfMemory(T, m, FALSE) \/ OutOfMemoryBuddy(T, m, FALSE)
        /\ Note(devUsed' \ dvBefore)
     \/ /\ Ev.op = "Mig" /\ (OutOfMemory({Ev.gpu}, 1, FALSE) \/ OutOfMemoryBuddy({Ev.gpu}, 1, FALSE))
        /\ Note(devUsed' \ dvBefore)
     \/ /\ Ev.op = "Free" /\ Ev.b \in 1..Len(bufs) /\ FreeCrash(Ev.pid, Ev.b)
        /\ Note(devUsed' \ dvBefore)
     \/ /\ Ev.op = "CopyOut" /\ Cardinality({b \in 1..Len(bufs) : ~bufs[b].live /\ bctx[b] = Ev.ctx}) >= 2
        /\ SweepCrash
        /\ Note(devUsed' \ dvBefore)
  /\ UNCHANGED <<psz, aligned, bctx>>

\* A kernel launch (the driver's own allocations were logged as an Alloc before) and a device-to-host copy
\* leave memory management alone: the table must be exactly what it was.
TLaunch == Is("Launch") /\ ~crashed /\ NoDupKeys(Ev.pt) /\ LPT(Ev.pt) = pt /\ UNCHANGED vars /\ Seen(Ev.pt)
TCopyOut == /\ Is("CopyOut") /\ ~crashed /\ NoDupKeys(Ev.pt) /\ LPT(Ev.pt) = pt
            /\ Ev.b \in LiveBufs /\ bufs[Ev.b].pid = Ev.pid
            /\ UNCHANGED vars /\ Seen(Ev.pt)

\* end of a history: nothing to check beyond the invariants
TEnd == Is("End") /\ UNCHANGED <<vars, psz, aligned, bctx>>

\* concatenated traces: a fresh driver on a freshly described platform
TReset ==
  /\ Is("Reset")
  /\ devs' = [i \in 1..Len(Ev.devs) |->
                [type |-> Ev.devs[i].type, base |-> Ev.devs[i].base, n |-> Ev.devs[i].n,
                 mem |-> {Ev.devs[i].mem[j] : j \in 1..Len(Ev.devs[i].mem)}]]
  /\ out' = {} /\ limbo' = {} /\ nextV' = <<>> /\ vown' = <<>> /\ pt' = <<>>
  /\ bufs' = <<>> /\ held' = {} /\ devUsed' = {} /\ crashed' = FALSE
  /\ psz' = Ev.psz /\ aligned' = TRUE /\ bctx' = <<>>

TNext == TAlloc \/ TBurn \/ TAliased \/ TFree \/ TRemap \/ TDist \/ TMig \/ TLaunch \/ TCopyOut \/ TPanic \/ TEnd \/ TReset

TSpec == TInit /\ [][TNext]_tvars

\* returned buffers and mapped pages are page-aligned, entries are valid and of the configured page size
Aligned == aligned

Mark == HWNote(l)                 \* CONSTRAINT: records progress
Accepted == HWReport(N)           \* POSTCONDITION
=============================================================================
