--------------------------- MODULE MemAllocTrace ---------------------------
(***************************************************************************)
(* Trace specification: is a log of public driver API calls (what each     *)
(* call returned + the complete content of the vm.PageTable handed to the  *)
(* driver builder, read back through Find after the call) a behaviour of   *)
(* MemAlloc?  One log line = one API call (harness/c10lib).                *)
(*                                                                         *)
(* The physical pages a call obtained are read from the logged table and   *)
(* passed to the specification action, whose guards decide whether the     *)
(* call was allowed to obtain them (free, on the right device, never       *)
(* handed out twice); the table computed by the action must then equal the *)
(* logged one entry for entry.  Deviations listed in CONSTANT Deviations   *)
(* are accepted but printed (DEVIATION lines): the check driver reports    *)
(* every use as a finding.                                                 *)
(***************************************************************************)
EXTENDS MemAlloc, TraceLib, Json

TraceLog == ndJsonDeserialize("trace.ndjson")
N == Len(TraceLog)

VARIABLES l,        \* position in TraceLog
          psz,      \* bytes per page of the run being validated
          aligned,  \* every pointer / page seen so far was page-aligned and well-formed
          bctx,     \* context that owns each buffer (aligned with bufs): Context.buffers bookkeeping
          bud,      \* the run being validated uses the buddy allocator
          blk       \* buddy runs: multi-page blocks handed out as a unit: first page -> [size, live]
tvars == <<vars, l, psz, aligned, bctx, bud, blk>>

ASSUME HWInit

Ev == TraceLog[l]
Is(e) == l <= N /\ Ev.e = e /\ l' = l + 1

TInit ==
  /\ devs = <<>> /\ out = {} /\ limbo = {} /\ nextV = <<>> /\ vown = <<>> /\ pt = <<>>
  /\ bufs = <<>> /\ held = {} /\ devUsed = {} /\ crashed = FALSE
  /\ l = 1 /\ psz = 1 /\ aligned = TRUE /\ bctx = <<>> /\ bud = FALSE /\ blk = <<>>

\* ------------------------------------------------------------ logged table
LPT(s) == [k \in {<<s[i].pid, s[i].v>> : i \in 1..Len(s)} |->
             LET i == CHOOSE j \in 1..Len(s) : <<s[j].pid, s[j].v>> = k IN
             [ppn |-> s[i].ppn, dev |-> s[i].dev, mig |-> s[i].mig = 1]]
\* the logged table is complete ("ovf" > 0: the harness cut an absurdly large table short - never a behaviour of the
\* specification, and not worth evaluating) and names every virtual page once
NoDupKeys(s) == /\ (Has(Ev, "ovf") => Ev.ovf = 0)
                /\ \A i, j \in 1..Len(s) : i # j => <<s[i].pid, s[i].v>> # <<s[j].pid, s[j].v>>
WellFormed(s) == \A i \in 1..Len(s) : s[i].voff = 0 /\ s[i].poff = 0 /\ s[i].ok = 1
Pages(bytes) == ((bytes - 1) \div psz) + 1
Note(dv) == IF dv = {} THEN TRUE ELSE PrintT(<<"DEVIATION", l, dv>>)
Seen(s) == aligned' = (aligned /\ WellFormed(s)) /\ UNCHANGED <<psz, bud, bctx>>

\* ------------------------------------------------------------ buddy blocks
(* The buddy allocator (devicebuddymemstate.go) serves Remap and every chunk of Distribute with ONE block of
   2^k >= n pages, aligned to its size, whose first n pages are used; the block returns to the free lists only
   when all n pages have been released.  So, besides the pages handed out (out), the rest of every live
   multi-page block is unavailable: its unused tail and the pages already released.  blk tracks these blocks in
   buddy runs; every page any call obtains must be available, every block aligned, inside its device and
   disjoint from everything live - the page-level form of Buddy.tla's NoDoubleHandOut / WellFormed. *)
Pow2Ceil(n) == CHOOSE s \in {1, 2, 4, 8, 16, 32, 64, 128} : s >= n /\ (s = 1 \/ s \div 2 < n)
ResvOf(B) == UNION {(b..(b + B[b].size - 1)) \ B[b].live : b \in DOMAIN B}
Resv == ResvOf(blk)
Avail(p) == p \notin out /\ p \notin Resv
BlkAfter(B, released) ==
  LET nb == [b \in DOMAIN B |-> [size |-> B[b].size, live |-> B[b].live \ released]] IN
  [b \in {x \in DOMAIN nb : nb[x].live # {}} |-> nb[b]]
\* maximal runs of consecutive pages of the call that go to the same device: the chunks, each one block
Runs(ds) == {r \in (1..Len(ds)) \X (1..Len(ds)) :
               /\ r[1] <= r[2] /\ \A k \in r[1]..r[2] : ds[k] = ds[r[1]]
               /\ (r[1] = 1 \/ ds[r[1] - 1] # ds[r[1]]) /\ (r[2] = Len(ds) \/ ds[r[2] + 1] # ds[r[2]])}
BlockOK(ps, r, old) ==
  LET base == ps[r[1]]  size == Pow2Ceil(r[2] - r[1] + 1) IN
  /\ HasDev(base)
  /\ \A k \in r[1]..r[2] : ps[k] = base + (k - r[1])                       \* the first pages of the block, in order
  /\ (base - Dev(DevOfPage(base)).base) % size = 0                           \* aligned to its size
  /\ base + size <= Dev(DevOfPage(base)).base + Dev(DevOfPage(base)).n       \* inside the device
  /\ \A p \in base..(base + size - 1) :                                      \* disjoint from everything live
       p \notin ResvOf(BlkAfter(blk, old)) /\ (p \notin out \/ p \in old)
     \* (old = the pages this very call releases: Distribute is a sequence of Remaps, a later chunk may obtain
     \*  what an earlier chunk released, including a block that became free with that release)
NewBlks(ps, ds) ==
  LET big == {r \in Runs(ds) : r[2] > r[1]} IN
  [b \in {ps[r[1]] : r \in big} |->
     LET r == CHOOSE x \in big : ps[x[1]] = b IN
     [size |-> Pow2Ceil(r[2] - r[1] + 1), live |-> {ps[k] : k \in r[1]..r[2]}]]
\* conjuncts added to the calls (they read out' set by the MemAlloc action)
BudMove(ps, ds, old) == IF bud THEN /\ \A r \in Runs(ds) : BlockOK(ps, r, old)
                                    /\ blk' = NewBlks(ps, ds) @@ BlkAfter(blk, old)
                        ELSE blk' = blk
BudSingles(ps) == IF bud THEN (\A i \in 1..Len(ps) : Avail(ps[i])) /\ blk' = blk
                  ELSE blk' = blk
BudRelease == blk' = IF bud THEN BlkAfter(blk, out \ out') ELSE blk
\* is a block of 2^k >= n pages available on device t
HasBlock(t, n) ==
  LET size == Pow2Ceil(n) IN
  \E k \in 0..((Dev(t).n \div size) - 1) : \A p \in (Dev(t).base + k * size)..(Dev(t).base + k * size + size - 1) : Avail(p)
AvailPool(T) == CapOf(T) - Cardinality({p \in out \cup Resv : OnAny(p, T)})

\* -------------------------------------------------------------------- calls
TAlloc ==
  /\ Is("Alloc") /\ Ev.bytes >= 1 /\ NoDupKeys(Ev.pt)
  /\ LET n == Pages(Ev.bytes)
         t == LPT(Ev.pt)
         keys == {<<Ev.pid, Ev.v + i>> : i \in 0..(n - 1)} IN
     /\ Ev.v = NextV(Ev.pid)                      \* fresh virtual range right at the cursor
     /\ keys \subseteq DOMAIN t
     /\ Alloc(Ev.pid, Ev.dev, [i \in 1..n |-> t[<<Ev.pid, Ev.v + i - 1>>].ppn])
     /\ pt' = t
     /\ BudSingles([i \in 1..n |-> t[<<Ev.pid, Ev.v + i - 1>>].ppn])
  /\ aligned' = (aligned /\ WellFormed(Ev.pt) /\ Ev.voff = 0) /\ UNCHANGED <<psz, bud>>
  /\ bctx' = Append(bctx, Ev.ctx)

TFree ==
  /\ Is("Free") /\ NoDupKeys(Ev.pt)
  /\ Ev.b \in 1..Len(bufs) /\ bufs[Ev.b].v = Ev.v
  /\ \E dv \in SUBSET Deviations :
       /\ Free(Ev.pid, Ev.b, dv) /\ pt' = LPT(Ev.pt) /\ Note(dv)
  /\ BudRelease
  /\ Seen(Ev.pt)

TRemap ==
  /\ Is("Remap") /\ Ev.bytes >= 1 /\ NoDupKeys(Ev.pt)
  /\ LET n == Pages(Ev.bytes)
         t == LPT(Ev.pt)
         keys == {<<Ev.pid, Ev.v + i>> : i \in 0..(n - 1)} IN
     /\ keys \subseteq DOMAIN t
     /\ \E dv \in SUBSET Deviations :
          /\ Remap(Ev.pid, Ev.v, [i \in 1..n |-> Ev.dev], [i \in 1..n |-> t[<<Ev.pid, Ev.v + i - 1>>].ppn], dv)
          /\ pt' = t /\ Note(dv)
     /\ BudMove([i \in 1..n |-> t[<<Ev.pid, Ev.v + i - 1>>].ppn], [i \in 1..n |-> Ev.dev], {pt[k].ppn : k \in keys})
  /\ aligned' = (aligned /\ WellFormed(Ev.pt) /\ Ev.voff = 0) /\ UNCHANGED <<psz, bud, bctx>>

\* Distribute: every page of the range ends up on one of the listed GPUs and the byte counts returned per GPU
\* agree with where the pages went.  With a single GPU the implementation leaves the buffer where it is.
TDist ==
  /\ Is("Dist") /\ Ev.bytes >= 1 /\ NoDupKeys(Ev.pt)
  /\ LET n == Pages(Ev.bytes)
         t == LPT(Ev.pt)
         gs == Ev.gpus
         keys == {<<Ev.pid, Ev.v + i>> : i \in 0..(n - 1)} IN
     /\ keys \subseteq DOMAIN t
     /\ \A i \in 1..Len(gs) : gs[i] \in DevIds /\ Dev(gs[i]).type = "gpu"
     /\ Len(Ev.ret) = Len(gs)
     /\ IF Len(gs) = 1
        THEN /\ ~crashed /\ keys \subseteq LiveKeys \cap DOMAIN pt /\ t = pt /\ Ev.ret[1] * psz + Ev.retrem[1] = Ev.bytes
             /\ UNCHANGED <<vars, blk>>
        ELSE LET ds == [i \in 1..n |-> t[<<Ev.pid, Ev.v + i - 1>>].dev] IN
             /\ \A i \in 1..n : \E j \in 1..Len(gs) : gs[j] = ds[i]
             /\ \A j \in 1..Len(gs) : Ev.retrem[j] = 0 /\ Ev.ret[j] = Cardinality({i \in 1..n : ds[i] = gs[j]})
             /\ \E dv \in SUBSET Deviations :
                  /\ Remap(Ev.pid, Ev.v, ds, [i \in 1..n |-> t[<<Ev.pid, Ev.v + i - 1>>].ppn], dv)
                  /\ pt' = t /\ Note(dv)
             /\ BudMove([i \in 1..n |-> t[<<Ev.pid, Ev.v + i - 1>>].ppn], ds, {pt[k].ppn : k \in keys})
  /\ aligned' = (aligned /\ WellFormed(Ev.pt) /\ Ev.voff = 0) /\ UNCHANGED <<psz, bud, bctx>>

TMig ==
  /\ Is("Mig") /\ NoDupKeys(Ev.pt)
  /\ LET t == LPT(Ev.pt) IN
     /\ <<Ev.pid, Ev.v>> \in DOMAIN t
     /\ PrepareMigration(Ev.pid, Ev.v, Ev.gpu, t[<<Ev.pid, Ev.v>>].ppn)
     /\ pt' = t
     /\ BudSingles(<<t[<<Ev.pid, Ev.v>>].ppn>>)
  /\ aligned' = (aligned /\ WellFormed(Ev.pt) /\ Ev.voff = 0) /\ UNCHANGED <<psz, bud, bctx>>

\* One huge buffer allocated and freed at once (moves the virtual cursor across a power-of-two boundary).
\* Between the two calls the harness found: all n pages mapped, pairwise distinct physical pages, none of them
\* mapped before, all inside and recorded for the target device, page-aligned and valid; after the Free none left.
TBurn ==
  /\ Is("Burn") /\ NoDupKeys(Ev.pt)
  /\ Ev.v = NextV(Ev.pid)
  /\ Ev.mapped = Ev.n /\ Ev.distinct = 1 /\ Ev.fresh = 1 /\ Ev.indev = 1 /\ Ev.left = 0
  /\ Burn(Ev.pid, Ev.dev, Ev.n)
  /\ LPT(Ev.pt) = pt /\ UNCHANGED blk
  /\ aligned' = (aligned /\ WellFormed(Ev.pt) /\ Ev.voff = 0 /\ Ev.wf = 1) /\ UNCHANGED <<psz, bud>>
  /\ bctx' = Append(bctx, Ev.ctx)

\* Buddy allocator only (deviation BuddyCorruptsFreeLists): the call handed out a live page.  Terminal.
TAliased ==
  /\ l <= N /\ Ev.e \in {"Alloc", "Remap", "Dist", "Mig"} /\ l' = l + 1
  /\ NoDupKeys(Ev.pt)
  /\ AliasedEnd(LPT(Ev.pt)) /\ Note({"BuddyCorruptsFreeLists"})
  /\ Seen(Ev.pt) /\ UNCHANGED blk

\* The real code panicked inside a call.  Accepted only where the specification says the call cannot succeed:
\* the device is exhausted (legitimately, or because of pages a listed deviation leaked), or the as-implemented
\* Free trips over an entry of another process.
\* Buddy runs: a call fails when no block is available for it - a pool of single pages is exhausted (Allocate),
\* or no aligned block of 2^k >= n pages is free on a target device (Remap, a chunk of Distribute, migration),
\* which fragmentation can cause within capacity.  The panic is legitimate exactly then; otherwise the driver
\* crashed in a call it should have served.
BudShouldSucceed ==
  CASE Ev.op \in {"Alloc", "Launch"} -> AvailPool(Targets(Ev.dev)) >= Pages(Ev.bytes)
    [] Ev.op = "Burn" -> AvailPool(Targets(Ev.dev)) >= Ev.n
    [] Ev.op = "Remap" -> \A t \in Targets(Ev.dev) : HasBlock(t, Pages(Ev.bytes))
    [] Ev.op = "Dist" -> LET n == Pages(Ev.bytes)  G == Len(Ev.gpus)
                             m == IF n % G = 0 THEN n \div G ELSE 1 IN
                         \A j \in 1..G : HasBlock(Ev.gpus[j], m)
    [] Ev.op = "Mig" -> HasBlock(Ev.gpu, 1)
    [] OTHER -> TRUE
BudPanic ==
  /\ ~crashed /\ Ev.op \in {"Alloc", "Launch", "Burn", "Remap", "Dist", "Mig"}
  /\ crashed' = BudShouldSucceed
  /\ UNCHANGED <<devs, out, limbo, nextV, vown, pt, bufs, held, devUsed>>

TPanic ==
  /\ Is("Panic")
  /\ IF bud /\ Ev.op \notin {"Free", "CopyOut"}
     THEN BudPanic
     ELSE
     LET dvBefore == devUsed IN
     \/ /\ Ev.op \in {"Alloc", "Launch"} /\ Ev.dev \in DevIds
        /\ \/ OutOfMemory(Targets(Ev.dev), Pages(Ev.bytes), TRUE)
           \/ OutOfMemoryBuddy(Targets(Ev.dev), Pages(Ev.bytes), TRUE)
        /\ Note(devUsed' \ dvBefore)
     \/ /\ Ev.op = "Burn" /\ Ev.dev \in DevIds
        /\ OutOfMemory(Targets(Ev.dev), Ev.n, TRUE)
        /\ Note(devUsed' \ dvBefore)
     \/ /\ Ev.op = "Remap" /\ Ev.dev \in DevIds
        /\ \/ OutOfMemory(Targets(Ev.dev), Pages(Ev.bytes), FALSE)
           \/ OutOfMemoryBuddy(Targets(Ev.dev), Pages(Ev.bytes), FALSE)
        /\ Note(devUsed' \ dvBefore)
     \/ /\ Ev.op = "Dist" /\ Len(Ev.gpus) > 1
        /\ LET T == {Ev.gpus[j] : j \in 1..Len(Ev.gpus)}  m == DistMax(Pages(Ev.bytes), Len(Ev.gpus)) IN
           OutOfMemory(T, m, FALSE) \/ OutOfMemoryBuddy(T, m, FALSE)
        /\ Note(devUsed' \ dvBefore)
     \/ /\ Ev.op = "Mig" /\ (OutOfMemory({Ev.gpu}, 1, FALSE) \/ OutOfMemoryBuddy({Ev.gpu}, 1, FALSE))
        /\ Note(devUsed' \ dvBefore)
     \/ /\ Ev.op = "Free" /\ Ev.b \in 1..Len(bufs) /\ FreeCrash(Ev.pid, Ev.b)
        /\ Note(devUsed' \ dvBefore)
     \/ /\ Ev.op = "CopyOut" /\ Cardinality({b \in 1..Len(bufs) : ~bufs[b].live /\ bctx[b] = Ev.ctx}) >= 2
        /\ SweepCrash
        /\ Note(devUsed' \ dvBefore)
  /\ UNCHANGED <<psz, bud, aligned, bctx, blk>>

\* A kernel launch (the driver's own allocations were logged as an Alloc before) and a device-to-host copy
\* leave memory management alone: the table must be exactly what it was.
TLaunch == Is("Launch") /\ ~crashed /\ NoDupKeys(Ev.pt) /\ LPT(Ev.pt) = pt /\ UNCHANGED <<vars, blk>> /\ Seen(Ev.pt)
TCopyOut == /\ Is("CopyOut") /\ ~crashed /\ NoDupKeys(Ev.pt) /\ LPT(Ev.pt) = pt
            /\ Ev.b \in LiveBufs /\ bufs[Ev.b].pid = Ev.pid
            /\ UNCHANGED <<vars, blk>> /\ Seen(Ev.pt)

\* end of a history: nothing to check beyond the invariants
TEnd == Is("End") /\ UNCHANGED <<vars, psz, bud, aligned, bctx, blk>>

\* concatenated traces: a fresh driver on a freshly described platform
TReset ==
  /\ Is("Reset")
  /\ devs' = [i \in 1..Len(Ev.devs) |->
                [type |-> Ev.devs[i].type, base |-> Ev.devs[i].base, n |-> Ev.devs[i].n,
                 mem |-> {Ev.devs[i].mem[j] : j \in 1..Len(Ev.devs[i].mem)}]]
  /\ out' = {} /\ limbo' = {} /\ nextV' = <<>> /\ vown' = <<>> /\ pt' = <<>>
  /\ bufs' = <<>> /\ held' = {} /\ devUsed' = {} /\ crashed' = FALSE
  /\ psz' = Ev.psz /\ aligned' = TRUE /\ bctx' = <<>> /\ bud' = (Ev.buddy = 1) /\ blk' = <<>>

TNext == TAlloc \/ TBurn \/ TAliased \/ TFree \/ TRemap \/ TDist \/ TMig \/ TLaunch \/ TCopyOut \/ TPanic \/ TEnd \/ TReset

TSpec == TInit /\ [][TNext]_tvars

\* returned buffers and mapped pages are page-aligned, entries are valid and of the configured page size
Aligned == aligned

Mark == HWNote(l)                 \* CONSTRAINT: records progress
Accepted == HWReport(N)           \* POSTCONDITION
=============================================================================
