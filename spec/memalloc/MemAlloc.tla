------------------------------ MODULE MemAlloc ------------------------------
(***************************************************************************)
(* Device memory management of the driver                                  *)
(*   amd/driver/internal/memoryallocator.go   (Allocate, Free, Remap, ...)  *)
(*   amd/driver/internal/device.go            (per-device page hand-out)    *)
(*   amd/driver/distributor.go, api.go, driver.go (preparePageForMigration) *)
(*                                                                         *)
(* All addresses are in units of pages (byte offsets inside a page only    *)
(* appear in the trace specification, where they must be 0).  One action   *)
(* per public API call (the allocator takes one mutex per call, so a call  *)
(* is one atomic step).  Which free physical page a call obtains is left   *)
(* free (any page of the right device that is not handed out): the order   *)
(* of the free list is not part of the property.                           *)
(*                                                                         *)
(* "As implemented" departures from the property are named deviations      *)
(* (DESIGN.md 2.2).  Deviations = {} is the intended design, under which   *)
(* every invariant below must hold.                                        *)
(***************************************************************************)
EXTENDS Integers, Sequences, FiniteSets, TLC

CONSTANTS Deviations   \* subset of AllDeviations the implementation is allowed to exhibit

AllDeviations == {"FreeUnmapsFirstPageOnly",     \* Free(ptr) handles only the page at ptr
                  "MirrorKeyedByVAddrOnly",      \* allocator mirror ignores the pid: Free resolves ptr to the last writer
                  "RemapLeaksOldPages",          \* Remap/Distribute never return the old physical pages
                  "RemapRecordsGivenDeviceID",   \* Remap records the requested (unified) device id, not the page's device
                  "FreedBufferSweepPanics",      \* Context.removeFreedBuffers deletes from the slice it ranges over
                  "BuddyCorruptsFreeLists"}      \* buddy allocator only: a block that is taken to be split does not toggle
                                                 \* its parent's merge bit, so live blocks are merged into free ones

VARIABLES
  devs,     \* Seq of [type, base, n, mem]; device id d is devs[d+1]; d = 0 is the CPU
  out,      \* physical pages handed out and not returned
  limbo,    \* pages the intended design has returned but whose real status is unobserved (old pages of a Remap)
  nextV,    \* pid -> next virtual page never handed out
  vown,     \* virtual page -> pid that last wrote the allocator's mirror entry of that virtual page
  pt,       \* <<pid, vpage>> -> [ppn, dev, mig]          the page table the hardware translates with
  bufs,     \* Seq of [pid, v, n, live]                    buffers returned by the API, in allocation order
  held,     \* source pages of migrations in preparation (must stay reserved)
  devUsed,  \* deviations exhibited so far
  crashed   \* the history ended with a failure: the driver panicked in a valid call (or handed out a live page)

vars == <<devs, out, limbo, nextV, vown, pt, bufs, held, devUsed, crashed>>

\* ------------------------------------------------------------------ devices
DevIds == 0..(Len(devs) - 1)
Dev(d) == devs[d + 1]
Actual(d) == Dev(d).type # "uni"
Targets(d) == IF Actual(d) THEN {d} ELSE Dev(d).mem
OnDev(p, d) == Actual(d) /\ p >= Dev(d).base /\ p < Dev(d).base + Dev(d).n
HasDev(p) == \E d \in DevIds : OnDev(p, d)
DevOfPage(p) == CHOOSE d \in DevIds : OnDev(p, d)
OnAny(p, T) == \E t \in T : OnDev(p, t)

\* ------------------------------------------------------------------ buffers
BufKeys(b) == {<<b.pid, b.v + i>> : i \in 0..(b.n - 1)}
LiveBufs == {i \in 1..Len(bufs) : bufs[i].live}
LiveKeys == UNION {BufKeys(bufs[i]) : i \in LiveBufs}
Mapped == {pt[k].ppn : k \in DOMAIN pt}
NextV(pid) == IF pid \in DOMAIN nextV THEN nextV[pid] ELSE 1
VOwn(v) == IF v \in DOMAIN vown THEN vown[v] ELSE 0
Range(s) == {s[i] : i \in 1..Len(s)}
Injective(s) == \A i, j \in 1..Len(s) : i # j => s[i] # s[j]

\* pages of live buffers (and reserved migration sources) that reside on device t
LiveOn(t) == Cardinality({k \in LiveKeys \cap DOMAIN pt : OnDev(pt[k].ppn, t)})
             + Cardinality({p \in held : OnDev(p, t)})
\* "the sequence stays within device capacity": the call still fits on every device it may draw from
WithinCap(T, n) == \A t \in T : LiveOn(t) + n <= Dev(t).n
\* Allocate on a unified device takes each page from any member that still has one: the members form a pool
RECURSIVE CapOf(_)
CapOf(T) == IF T = {} THEN 0 ELSE LET t == CHOOSE x \in T : TRUE IN Dev(t).n + CapOf(T \ {t})
LiveOnAny(T) == Cardinality({k \in LiveKeys \cap DOMAIN pt : OnAny(pt[k].ppn, T)})
                + Cardinality({p \in held : OnAny(p, T)})
FitsPool(T, n) == LiveOnAny(T) + n <= CapOf(T)
\* Distribute of n pages over G GPUs: no GPU receives more than this many (the last one also takes the remainder)
DistMax(n, G) == (n \div G) + (n % G)
\* pages of t that are certainly in the free list
SureFree(t) == Dev(t).n - Cardinality({p \in out \cup limbo : OnDev(p, t)})
SureFreePool(T) == CapOf(T) - Cardinality({p \in out \cup limbo : OnAny(p, T)})
LimboOn(T) == {p \in limbo : OnAny(p, T)}

\* ------------------------------------------------------------------ actions
(* Allocate / AllocateUnified: memoryAllocatorImpl.allocatePages.  ps is the sequence of physical pages obtained. *)
Alloc(pid, d, ps) ==
  LET n == Len(ps)  v == NextV(pid)
      newKeys == {<<pid, v + i - 1>> : i \in 1..n} IN
  /\ ~crashed /\ n >= 1 /\ d \in DevIds
  /\ FitsPool(Targets(d), n)
  /\ Injective(ps)
  /\ \A i \in 1..n : OnAny(ps[i], Targets(d)) /\ ps[i] \notin out         \* never hand out a page twice
  /\ newKeys \cap DOMAIN pt = {}
  /\ pt' = [k \in DOMAIN pt \cup newKeys |->
              IF k \in newKeys THEN [ppn |-> ps[k[2] - v + 1], dev |-> DevOfPage(ps[k[2] - v + 1]), mig |-> FALSE]
              ELSE pt[k]]
  /\ out' = out \cup Range(ps) /\ limbo' = limbo \ Range(ps)
  /\ nextV' = [p \in DOMAIN nextV \cup {pid} |-> IF p = pid THEN v + n ELSE nextV[p]]
  /\ vown' = [w \in DOMAIN vown \cup {k[2] : k \in newKeys} |-> IF <<pid, w>> \in newKeys THEN pid ELSE vown[w]]
  /\ bufs' = Append(bufs, [pid |-> pid, v |-> v, n |-> n, live |-> TRUE])
  /\ UNCHANGED <<devs, held, devUsed, crashed>>

(* Allocate immediately followed by Free of one huge buffer (n pages): the two calls as one step, because the
   intermediate page table is too large to log.  Virtual addresses are never reused, so this only moves the
   cursor (across 2^31 / 2^32 / 2^33 bytes in the histories that use it); nothing else changes.  The harness
   inspects the n pages between the two calls; the trace specification requires its findings (MemAllocTrace!TBurn).
   (vown is not updated: it only matters for the deviation MirrorKeyedByVAddrOnly, fixed in the tree.) *)
Burn(pid, d, n) ==
  LET v == NextV(pid) IN
  /\ ~crashed /\ n >= 1 /\ d \in DevIds /\ Actual(d)
  /\ FitsPool({d}, n)
  /\ \A i \in 0..1 : <<pid, v + i * (n - 1)>> \notin DOMAIN pt
  /\ nextV' = [p \in DOMAIN nextV \cup {pid} |-> IF p = pid THEN v + n ELSE nextV[p]]
  /\ bufs' = Append(bufs, [pid |-> pid, v |-> v, n |-> n, live |-> FALSE])
  /\ UNCHANGED <<devs, out, limbo, vown, pt, held, devUsed, crashed>>

(* Buddy allocator, as implemented: its free lists can contain a block that overlaps pages still handed out
   (Buddy.tla, MC_Buddy_impl.cfg), so a call (Allocate, Remap, Distribute, migration) obtains a page that is
   live, or the same page twice.  t is the resulting page table.  The history ends here: the set abstraction of
   the free structure no longer describes the implementation. *)
AliasedEnd(t) ==
  /\ ~crashed /\ "BuddyCorruptsFreeLists" \in Deviations
  /\ \/ \E k1, k2 \in DOMAIN t : k1 # k2 /\ t[k1].ppn = t[k2].ppn
     \/ \E k \in DOMAIN t : t[k].ppn \in held
  /\ pt' = t /\ crashed' = TRUE /\ devUsed' = devUsed \cup {"BuddyCorruptsFreeLists"}
  /\ UNCHANGED <<devs, out, limbo, nextV, vown, bufs, held>>

(* FreeMemory: Driver.FreeMemory -> memoryAllocatorImpl.Free -> removePage.  b indexes bufs. *)
FreeOwner(pid, b, dv) == IF "MirrorKeyedByVAddrOnly" \in dv THEN VOwn(bufs[b].v) ELSE pid
FreeKeys(pid, b, dv) ==
  LET cnt == IF "FreeUnmapsFirstPageOnly" \in dv THEN 1 ELSE bufs[b].n IN
  {<<FreeOwner(pid, b, dv), bufs[b].v + i>> : i \in 0..(cnt - 1)}
FreeDvOK(pid, b, dv) ==
  /\ dv \subseteq Deviations \cap {"FreeUnmapsFirstPageOnly", "MirrorKeyedByVAddrOnly"}
  /\ ("FreeUnmapsFirstPageOnly" \in dv => bufs[b].n > 1)
  /\ ("MirrorKeyedByVAddrOnly" \in dv => VOwn(bufs[b].v) # pid)

Free(pid, b, dv) ==
  LET keys == FreeKeys(pid, b, dv) IN
  /\ ~crashed /\ b \in LiveBufs /\ bufs[b].pid = pid
  /\ FreeDvOK(pid, b, dv)
  /\ keys \subseteq DOMAIN pt
  /\ pt' = [k \in DOMAIN pt \ keys |-> pt[k]]
  /\ out' = out \ {pt[k].ppn : k \in keys}
  /\ bufs' = [bufs EXCEPT ![b].live = FALSE]
  /\ devUsed' = devUsed \cup dv
  /\ UNCHANGED <<devs, limbo, nextV, vown, held, crashed>>

(* The as-implemented Free looks the pointer up without the pid.  When the entry it finds names a page that
   is no longer mapped (it belongs to another process that already freed it, or it is the caller's own page
   that another process's Free unmapped), vm.PageTable.Remove panics. *)
FreeCrash(pid, b) ==
  LET dv == {"MirrorKeyedByVAddrOnly"} IN
  /\ ~crashed /\ b \in LiveBufs /\ bufs[b].pid = pid
  /\ dv \subseteq Deviations
  /\ <<VOwn(bufs[b].v), bufs[b].v>> \notin DOMAIN pt
  /\ crashed' = TRUE /\ devUsed' = devUsed \cup dv
  /\ UNCHANGED <<devs, out, limbo, nextV, vown, pt, bufs, held>>

(* Remap / Distribute: allocateMultiplePagesWithGivenVAddrs.  Page i of the range [v, v+n) goes to a page of
   device ds[i] (Remap: all the same; Distribute: one of the listed GPUs each).  ps are the new pages. *)
RemapOK(pid, v, ds, ps) ==
  LET n == Len(ps) IN
  /\ n >= 1 /\ Len(ds) = n
  /\ \A i \in 0..(n - 1) : <<pid, v + i>> \in LiveKeys \cap DOMAIN pt
  /\ \A i \in 1..n : ds[i] \in DevIds

Remap(pid, v, ds, ps, dv) ==
  LET n == Len(ps)
      keys == {<<pid, v + i>> : i \in 0..(n - 1)}
      old == {pt[k].ppn : k \in keys} IN
  /\ ~crashed /\ RemapOK(pid, v, ds, ps)
  /\ \A t \in UNION {Targets(ds[i]) : i \in 1..n} :          \* every device has room for the pages it may receive
       LiveOn(t) + Cardinality({i \in 1..n : t \in Targets(ds[i])}) <= Dev(t).n
  /\ dv \subseteq Deviations \cap {"RemapRecordsGivenDeviceID"}
  /\ ("RemapRecordsGivenDeviceID" \in dv => \E i \in 1..n : ~Actual(ds[i]))
  /\ Injective(ps)
  /\ \A i \in 1..n : OnAny(ps[i], Targets(ds[i])) /\ ps[i] \notin (out \ old)
  \* One Remap call (all pages to one device - in particular the device that already holds them): the frames
  \* handed to the chunk are frames that were free before the call, none of them a frame this call releases.
  \* (Distribute is a sequence of Remap calls: a later chunk may obtain what an earlier chunk released.)
  /\ (\A i \in 1..n : ds[i] = ds[1]) => (Range(ps) \cap out = {} /\ Range(ps) \cap old = {})
  /\ pt' = [k \in DOMAIN pt |->
              IF k \in keys
              THEN LET i == k[2] - v + 1 IN
                   [ppn |-> ps[i],
                    dev |-> IF "RemapRecordsGivenDeviceID" \in dv THEN ds[i] ELSE DevOfPage(ps[i]),
                    mig |-> FALSE]
              ELSE pt[k]]
  /\ out' = (out \ old) \cup Range(ps)
  /\ limbo' = IF "RemapLeaksOldPages" \in Deviations THEN (limbo \cup old) \ Range(ps) ELSE limbo \ Range(ps)
  /\ vown' = [w \in DOMAIN vown \cup {k[2] : k \in keys} |-> IF <<pid, w>> \in keys THEN pid ELSE vown[w]]
  /\ devUsed' = devUsed \cup dv
  /\ UNCHANGED <<devs, nextV, bufs, held, crashed>>

(* preparePageForMigration: the page moves to a fresh page of GPU g and is marked migrating; the source page
   stays reserved (its contents are still to be copied). *)
PrepareMigration(pid, v, g, p) ==
  /\ ~crashed /\ <<pid, v>> \in LiveKeys \cap DOMAIN pt
  /\ g \in DevIds /\ Dev(g).type = "gpu"
  /\ WithinCap({g}, 1)
  /\ OnDev(p, g) /\ p \notin out
  /\ pt' = [pt EXCEPT ![<<pid, v>>] = [ppn |-> p, dev |-> g, mig |-> TRUE]]
  /\ out' = out \cup {p} /\ limbo' = limbo \ {p}
  /\ held' = held \cup {pt[<<pid, v>>].ppn}
  /\ vown' = [w \in DOMAIN vown \cup {v} |-> IF w = v THEN pid ELSE vown[w]]
  /\ UNCHANGED <<devs, nextV, bufs, devUsed, crashed>>

(* A call that needs n pages ran out of memory.  pooled = TRUE: the pages may come from any device of T
   (Allocate); FALSE: all n from one device of T (Remap, Distribute, migration).  Legitimate iff the memory is
   really exhausted; pages in limbo that would have been needed are thereby known to be leaked.  The driver
   "crashed" iff the history had stayed within capacity. *)
OutOfMemory(T, n, pooled) ==
  /\ ~crashed
  /\ IF pooled
     THEN /\ SureFreePool(T) < n
          /\ LET lk == LimboOn(T) IN
             /\ out' = out \cup lk /\ limbo' = limbo \ lk
             /\ devUsed' = devUsed \cup (IF lk # {} THEN {"RemapLeaksOldPages"} ELSE {})
          /\ crashed' = FitsPool(T, n)
     ELSE /\ \E t \in T :
               /\ SureFree(t) < n
               /\ LET lk == LimboOn({t}) IN
                  /\ out' = out \cup lk /\ limbo' = limbo \ lk
                  /\ devUsed' = devUsed \cup (IF lk # {} THEN {"RemapLeaksOldPages"} ELSE {})
          /\ crashed' = WithinCap(T, n)
  /\ UNCHANGED <<devs, nextV, vown, pt, bufs, held>>

(* Buddy allocator, as implemented: the same corruption can also lose blocks, so that a call within capacity
   finds no block although the pages are free. *)
OutOfMemoryBuddy(T, n, pooled) ==
  /\ ~crashed /\ "BuddyCorruptsFreeLists" \in Deviations
  /\ IF pooled THEN FitsPool(T, n) /\ SureFreePool(T) >= n ELSE WithinCap(T, n) /\ \A t \in T : SureFree(t) >= n
  /\ crashed' = TRUE /\ devUsed' = devUsed \cup {"BuddyCorruptsFreeLists"}
  /\ UNCHANGED <<devs, out, limbo, nextV, vown, pt, bufs, held>>

(* A device-to-host copy of an L2-dirty buffer sweeps the freed buffers out of the context's buffer list
   (Context.removeFreedBuffers, SweepList.tla).  Memory management state is untouched; as implemented the sweep
   panics when the list ends in a freed buffer and contains another one. *)
SweepCrash ==
  /\ ~crashed /\ "FreedBufferSweepPanics" \in Deviations
  /\ crashed' = TRUE /\ devUsed' = devUsed \cup {"FreedBufferSweepPanics"}
  /\ UNCHANGED <<devs, out, limbo, nextV, vown, pt, bufs, held>>

\* ---------------------------------------------------------------- invariants
\* live virtual pages map to pairwise-disjoint physical pages (reserved migration sources included)
LivePagesDisjoint ==
  /\ \A k1, k2 \in DOMAIN pt : k1 # k2 => pt[k1].ppn # pt[k2].ppn
  /\ held \cap Mapped = {}
\* ... that lie inside the memory of the device recorded for them
InsideRecordedDevice == \A k \in DOMAIN pt : pt[k].dev \in DevIds /\ OnDev(pt[k].ppn, pt[k].dev)
\* returned buffers never overlap in virtual space; the cursor is beyond all of them
VirtualBuffersDisjoint ==
  /\ \A i, j \in 1..Len(bufs) : (i < j /\ bufs[i].pid = bufs[j].pid) => bufs[i].v + bufs[i].n <= bufs[j].v
  /\ \A i \in 1..Len(bufs) : bufs[i].v >= 1 /\ bufs[i].v + bufs[i].n <= NextV(bufs[i].pid)
\* the hardware page table agrees with the allocator: exactly the pages of live buffers are mapped
\* (=> Free unmaps all pages of the buffer, and nothing else)
TableAgreesWithAllocator == DOMAIN pt = LiveKeys
\* exactly the mapped (or reserved) physical pages are unavailable: freed pages are reusable, live ones are not
ReusableExactly == /\ out = Mapped \cup held /\ (limbo # {} => "RemapLeaksOldPages" \in Deviations)
                   /\ limbo \cap out = {}
\* a valid history within capacity never crashes the driver
NoCrashWithinCapacity == ~crashed
\* capacity accounting is exact: what is not live is obtainable
CapacityExact == \A d \in DevIds : Actual(d) => SureFree(d) + Cardinality(LimboOn({d})) = Dev(d).n - LiveOn(d)

TypeOK == /\ out \subseteq Int /\ limbo \subseteq Int /\ held \subseteq out
          /\ devUsed \subseteq Deviations /\ crashed \in BOOLEAN

\* The property, judged on a state reached without any listed deviation (DESIGN.md 2.2):
Clean == devUsed = {}
P_LivePagesDisjoint == Clean => LivePagesDisjoint
P_InsideRecordedDevice == Clean => InsideRecordedDevice
P_VirtualBuffersDisjoint == Clean => VirtualBuffersDisjoint
P_TableAgreesWithAllocator == Clean => TableAgreesWithAllocator
P_ReusableExactly == Clean => ReusableExactly
P_NoCrashWithinCapacity == Clean => NoCrashWithinCapacity
=============================================================================
