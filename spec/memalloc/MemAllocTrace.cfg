SPECIFICATION TSpec
CONSTANTS
  Deviations = {"FreeUnmapsFirstPageOnly", "MirrorKeyedByVAddrOnly", "RemapLeaksOldPages", "RemapRecordsGivenDeviceID", "FreedBufferSweepPanics"}
INVARIANTS P_LivePagesDisjoint P_InsideRecordedDevice P_VirtualBuffersDisjoint P_TableAgreesWithAllocator P_ReusableExactly P_NoCrashWithinCapacity Aligned
CONSTRAINT Mark
POSTCONDITION Accepted
CHECK_DEADLOCK FALSE
