SPECIFICATION Spec
CONSTANTS
  L = 3
  MaxReq = 4
  FreeAtReleasedPage = FALSE
  ParentBitOnlyOnExactFit = FALSE
INVARIANTS NoDoubleHandOut NoLeak WellFormed Merged NeverFailsWithFreeBlock
CHECK_DEADLOCK FALSE
