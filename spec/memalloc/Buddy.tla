-------------------------------- MODULE Buddy --------------------------------
(***************************************************************************)
(* The buddy implementation of one device's free-page structure            *)
(* (amd/driver/internal/devicebuddymemstate.go, buddystructures.go),       *)
(* transcribed statement by statement: free lists per level (level 0 = the *)
(* whole memory, level L = single pages), the "split" and "merge" bit      *)
(* fields indexed like a binary heap, and the block trackers.  Page        *)
(* numbers are offsets from the device base; the memory has 2^L pages of   *)
(* 4 KiB.                                                                  *)
(*                                                                         *)
(* It refines the free structure of MemAlloc (a set of free pages): the    *)
(* abstraction is FreePages.  The refinement obligations are the           *)
(* invariants below: a page is never both handed out and free (nor handed  *)
(* out twice), and returning every page of a block makes exactly its pages *)
(* available again.                                                        *)
(***************************************************************************)
EXTENDS Integers, Sequences, FiniteSets, TLC

CONSTANTS L,        \* levels below the root: the memory has 2^L pages
          MaxReq,   \* largest request, in pages (allocateMultiplePages; Allocate always asks for 1)
          FreeAtReleasedPage,
                    \* TRUE = seeded change C10e: when the last page of a block is released, freeBlock is called with
                    \* that page's address instead of the block's first page (blockTracker.initialAddr dropped)
          ParentBitOnlyOnExactFit
                    \* TRUE = as implemented: taking a block off a free list toggles the parent's "merge" bit only
                    \* when the block has exactly the requested size (i == level), not when it is taken to be split

VARIABLES free,     \* [0..L -> Seq(page)]   freeList[level], blocks by first page
          split,    \* set of heap indices whose bfBlockSplit bit is 1
          merge,    \* set of heap indices whose bfMergeList bit is 1
          trk,      \* page -> first page of its block (blockTracking -> tracker.initialAddr)
          cnt,      \* first page -> pages of the block not yet returned (tracker.numOfPages)
          blocks,   \* history: first page -> [level, n] of every block currently handed out
          failed    \* "not enough memory available" although enough pages were free in an aligned block

vars == <<free, split, merge, trk, cnt, blocks, failed>>

RECURSIVE Pow2(_)
Pow2(k) == IF k = 0 THEN 1 ELSE 2 * Pow2(k - 1)
NPages == Pow2(L)
Size(lvl) == Pow2(L - lvl)                         \* sizeOfLevel, in pages
IdxIn(p, lvl) == p \div Size(lvl)                  \* indexInLevelOf
Idx(p, lvl) == Pow2(lvl) + IdxIn(p, lvl) - 1       \* indexOfBlock
BuddyOf(p, lvl) == IF IdxIn(p, lvl) % 2 = 0 THEN p + Size(lvl) ELSE p - Size(lvl)
Toggle(S, i) == IF i \in S THEN S \ {i} ELSE S \cup {i}
OrderOf(n) == CHOOSE k \in 0..L : Pow2(k) >= n /\ (k = 0 \/ Pow2(k - 1) < n)

Init ==
  /\ free = [lvl \in 0..L |-> IF lvl = 0 THEN <<0>> ELSE <<>>]
  /\ split = {} /\ merge = {} /\ trk = <<>> /\ cnt = <<>> /\ blocks = <<>> /\ failed = FALSE

\* ---- abstraction ----------------------------------------------------------------------------------
Cover(b, lvl) == b..(b + Size(lvl) - 1)
FreeBlocks == {f \in (0..L) \X (1..(2 * NPages)) : f[2] <= Len(free[f[1]])}
FreePages == UNION {Cover(free[f[1]][f[2]], f[1]) : f \in FreeBlocks}     \* what MemAlloc calls the free pages
HeldPages == UNION {Cover(b, blocks[b].level) : b \in DOMAIN blocks}


\* ---- allocateMultiplePages(n) -------------------------------------------------------------------
\* the split loop: from level i down to `level`, marking bits and queueing the buddies
RECURSIVE SplitDown(_, _, _, _, _, _)
SplitDown(block, i, level, fr, sp, mg) ==
  IF i >= level THEN [free |-> fr, split |-> sp, merge |-> mg]
  ELSE SplitDown(block, i + 1, level,
                 [fr EXCEPT ![i + 1] = Append(@, BuddyOf(block, i + 1))],
                 Toggle(sp, Idx(block, i)), Toggle(mg, Idx(block, i)))

FirstNonEmpty(level) ==     \* largest i <= level with a non-empty list, or -1
  IF \E i \in 0..level : free[i] # <<>> THEN CHOOSE i \in 0..level : free[i] # <<>> /\ \A j \in (i + 1)..level : free[j] = <<>>
  ELSE -1

Alloc(n) ==
  LET level == L - OrderOf(n)
      i == FirstNonEmpty(level) IN
  /\ ~failed /\ n \in 1..MaxReq
  /\ IF i < 0
     THEN /\ failed' = \E b \in 0..(NPages - 1) : b % Size(level) = 0 /\ Cover(b, level) \subseteq FreePages
          /\ UNCHANGED <<free, split, merge, trk, cnt, blocks>>
     ELSE LET block == Head(free[i])
              fr0 == [free EXCEPT ![i] = Tail(@)]
              mg0 == IF (i = level \/ ~ParentBitOnlyOnExactFit) /\ i > 0 THEN Toggle(merge, Idx(block, i - 1)) ELSE merge
              r == SplitDown(block, i, level, fr0, split, mg0) IN
          /\ free' = r.free /\ split' = r.split /\ merge' = r.merge
          /\ trk' = [p \in DOMAIN trk \cup (block..(block + n - 1)) |-> IF p \in block..(block + n - 1) THEN block ELSE trk[p]]
          /\ cnt' = [b \in DOMAIN cnt \cup {block} |-> IF b = block THEN n ELSE cnt[b]]
          /\ blocks' = [b \in DOMAIN blocks \cup {block} |-> IF b = block THEN [level |-> level, n |-> n] ELSE blocks[b]]
          /\ UNCHANGED failed

\* ---- addSinglePAddr(p) -> freeBlock ---------------------------------------------------------------
LevelOfBlock(a) ==
  IF \E n \in 1..L : Idx(a, n - 1) \in split
  THEN CHOOSE n \in 1..L : Idx(a, n - 1) \in split /\ \A m \in (n + 1)..L : Idx(a, m - 1) \notin split
  ELSE 0

Remove(s, x) == SelectSeq(s, LAMBDA y : y # x)      \* removeByValue (blocks are unique in a list when all is well)
RemoveFirst(s, x) ==
  IF \E k \in 1..Len(s) : s[k] = x
  THEN LET k == CHOOSE j \in 1..Len(s) : s[j] = x /\ \A m \in 1..(j - 1) : s[m] # x IN
       SubSeq(s, 1, k - 1) \o SubSeq(s, k + 1, Len(s))
  ELSE s

RECURSIVE MergeUp(_, _, _, _, _)
MergeUp(a, level, fr, sp, mg) ==
  IF level = 0 THEN [free |-> [fr EXCEPT ![0] = Append(@, a)], split |-> sp, merge |-> mg]
  ELSE LET mg1 == Toggle(mg, Idx(a, level - 1)) IN
       IF Idx(a, level - 1) \notin mg1                     \* !blockOrBuddyIsAllocated
       THEN LET buddy == BuddyOf(a, level) IN
            MergeUp(IF buddy < a THEN buddy ELSE a, level - 1,
                    [fr EXCEPT ![level] = RemoveFirst(@, buddy)],
                    Toggle(sp, Idx(a, level - 1)), mg1)
       ELSE [free |-> [fr EXCEPT ![level] = Append(@, a)], split |-> sp, merge |-> mg1]

ReturnPage(p) ==
  /\ ~failed /\ p \in DOMAIN trk
  /\ LET b == trk[p] IN
     /\ trk' = [q \in DOMAIN trk \ {p} |-> trk[q]]
     /\ IF cnt[b] = 1
        THEN LET a == IF FreeAtReleasedPage THEN p ELSE b
                 r == MergeUp(a, LevelOfBlock(a), free, split, merge) IN
             /\ free' = r.free /\ split' = r.split /\ merge' = r.merge
             /\ cnt' = [c \in DOMAIN cnt \ {b} |-> cnt[c]]
             /\ blocks' = [c \in DOMAIN blocks \ {b} |-> blocks[c]]
        ELSE /\ cnt' = [cnt EXCEPT ![b] = @ - 1]
             /\ UNCHANGED <<free, split, merge, blocks>>
  /\ UNCHANGED failed

Next == (\E n \in 1..MaxReq : Alloc(n)) \/ (\E p \in DOMAIN trk : ReturnPage(p))
Spec == Init /\ [][Next]_vars

\* ---- invariants -----------------------------------------------------------------------------------
\* a page is never free while handed out, and never in two free blocks: no page can be handed out twice
NoDoubleHandOut ==
  /\ FreePages \cap HeldPages = {}
  /\ \A f, g \in FreeBlocks : f # g => Cover(free[f[1]][f[2]], f[1]) \cap Cover(free[g[1]][g[2]], g[1]) = {}
  /\ \A b, c \in DOMAIN blocks : b # c => Cover(b, blocks[b].level) \cap Cover(c, blocks[c].level) = {}
\* returning pages makes exactly them reusable: nothing leaks
NoLeak == FreePages \cup HeldPages = 0..(NPages - 1)
\* blocks are aligned and inside the memory
WellFormed == \A f \in FreeBlocks : LET b == free[f[1]][f[2]] IN b \in 0..(NPages - 1) /\ b % Size(f[1]) = 0
\* free buddies are always merged (otherwise a large request fails although its block is free)
Merged == \A f, g \in FreeBlocks : (f[1] = g[1] /\ f[1] > 0 /\ f # g) => free[g[1]][g[2]] # BuddyOf(free[f[1]][f[2]], f[1])
NeverFailsWithFreeBlock == ~failed
=============================================================================
