SPECIFICATION MCSpec
CONSTANTS
  Deviations = {}
  Pids = {1, 2}
  MaxN = 2
  MaxOps = 3
  PickAny = TRUE
  CpuPages = 2
  GpuPages = 3
  NGpus = 2
INVARIANTS TypeOK LivePagesDisjoint InsideRecordedDevice VirtualBuffersDisjoint TableAgreesWithAllocator ReusableExactly NoCrashWithinCapacity CapacityExact
CHECK_DEADLOCK FALSE
