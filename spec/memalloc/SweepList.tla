------------------------------ MODULE SweepList ------------------------------
(***************************************************************************)
(* Context.removeFreedBuffers (amd/driver/context.go): the buffer list of  *)
(* a context is swept of freed buffers when a device-to-host copy of an    *)
(* L2-dirty buffer flushes.  The pinned code deletes from the slice while  *)
(* ranging over it:                                                        *)
(*                                                                         *)
(*     for i, b := range c.buffers {        // length and array fixed here *)
(*         if b.freed {                                                    *)
(*             c.buffers = append(c.buffers[:i], c.buffers[i+1:]...)       *)
(*         }                                                               *)
(*     }                                                                   *)
(*                                                                         *)
(* Go semantics transcribed: the range expression is evaluated once (the   *)
(* loop visits indices 0..L-1 of the original backing array), append       *)
(* shifts the tail left inside the same array and shortens the slice.      *)
(* One sweep is one behaviour: i advances through the original length.     *)
(* AsImplemented = FALSE is the repair (collect the live buffers).         *)
(***************************************************************************)
EXTENDS Integers, Sequences, FiniteSets, TLC

CONSTANTS MaxLen,          \* lists of 0..MaxLen buffers, every freed/live pattern
          AsImplemented

VARIABLES orig,    \* the list before the sweep: Seq of [id, freed]
          arr,     \* backing array (length fixed)
          len,     \* current length of c.buffers
          i,       \* loop index (1-based)
          panicked, done

vars == <<orig, arr, len, i, panicked, done>>

Lists == UNION {[1..n -> BOOLEAN] : n \in 0..MaxLen}
Init == /\ \E f \in Lists : orig = [k \in 1..Len(f) |-> [id |-> k, freed |-> f[k]]]
        /\ arr = orig /\ len = Len(orig) /\ i = 1 /\ panicked = FALSE /\ done = FALSE

Live(s) == SelectSeq(s, LAMBDA b : ~b.freed)

StepImpl ==
  /\ AsImplemented /\ ~done /\ ~panicked
  /\ IF i > Len(orig) THEN done' = TRUE /\ UNCHANGED <<orig, arr, len, i, panicked>>
     ELSE IF ~arr[i].freed THEN i' = i + 1 /\ UNCHANGED <<orig, arr, len, panicked, done>>
     ELSE IF i > len                              \* c.buffers[i+1:] with i+1 > len(c.buffers): slice bounds out of range
          THEN panicked' = TRUE /\ UNCHANGED <<orig, arr, len, i, done>>
          ELSE /\ arr' = [k \in 1..Len(arr) |-> IF k >= i /\ k < len THEN arr[k + 1] ELSE arr[k]]
               /\ len' = len - 1 /\ i' = i + 1 /\ UNCHANGED <<orig, panicked, done>>

StepFixed ==
  /\ ~AsImplemented /\ ~done
  /\ arr' = Live(orig) /\ len' = Len(Live(orig)) /\ done' = TRUE /\ UNCHANGED <<orig, i, panicked>>

Next == StepImpl \/ StepFixed
Spec == Init /\ [][Next]_vars

Result == SubSeq(arr, 1, len)
NeverPanics == ~panicked
SweepsExactlyTheFreed == done => Result = Live(orig)
=============================================================================
