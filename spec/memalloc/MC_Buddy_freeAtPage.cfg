SPECIFICATION Spec
CONSTANTS
  L = 3
  MaxReq = 4
  FreeAtReleasedPage = TRUE
  ParentBitOnlyOnExactFit = FALSE
INVARIANTS NoDoubleHandOut NoLeak WellFormed
CHECK_DEADLOCK FALSE
