SPECIFICATION SSpec
CONSTANTS
  Deviations = {}
  Pids = {1, 2}
  MaxN = 3
  MaxOps = 14
  PickAny = FALSE
  CpuPages = 3
  GpuPages = 4
  NGpus = 2
INVARIANTS LivePagesDisjoint InsideRecordedDevice VirtualBuffersDisjoint TableAgreesWithAllocator ReusableExactly NoCrashWithinCapacity CapacityExact
CHECK_DEADLOCK FALSE
