SPECIFICATION Spec
CONSTANTS
  L = 2
  MaxReq = 1
  FreeAtReleasedPage = FALSE
  ParentBitOnlyOnExactFit = TRUE
INVARIANTS NoDoubleHandOut
CHECK_DEADLOCK FALSE
