SPECIFICATION Spec
CONSTANTS
  L = 3
  MaxReq = 8
  ParentBitOnlyOnExactFit = FALSE
INVARIANTS NoDoubleHandOut NoLeak WellFormed Merged NeverFailsWithFreeBlock
CHECK_DEADLOCK FALSE
