SPECIFICATION Spec
CONSTANTS
  L = 3
  MaxReq = 8
  FreeAtReleasedPage = FALSE
  ParentBitOnlyOnExactFit = FALSE
INVARIANTS NoDoubleHandOut NoLeak WellFormed Merged NeverFailsWithFreeBlock
CHECK_DEADLOCK FALSE
