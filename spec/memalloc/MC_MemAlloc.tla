---------------------------- MODULE MC_MemAlloc ----------------------------
(* Bounded model of MemAlloc for TLC: a fixed small platform, the environment *)
(* issues any valid call that stays within capacity.                           *)
EXTENDS MemAlloc

VARIABLE nops    \* number of calls so far (bounds the history)

CONSTANTS Pids,      \* processes
          MaxN,      \* largest buffer (pages)
          MaxOps,    \* history length
          PickAny,   \* TRUE: any free page may be obtained; FALSE: the lowest ones (smaller state space)
          CpuPages, GpuPages, NGpus   \* platform: CPU, NGpus GPUs, one unified device over all GPUs

MCDevs ==
  LET gpu(i) == [type |-> "gpu", base |-> 1 + CpuPages + (i - 1) * GpuPages, n |-> GpuPages, mem |-> {}] IN
  <<[type |-> "cpu", base |-> 1, n |-> CpuPages, mem |-> {}]>>
  \o [i \in 1..NGpus |-> gpu(i)]
  \o <<[type |-> "uni", base |-> 0, n |-> 0, mem |-> 1..NGpus]>>

Init ==
  /\ devs = MCDevs /\ out = {} /\ limbo = {} /\ nextV = <<>> /\ vown = <<>> /\ pt = <<>>
  /\ bufs = <<>> /\ held = {} /\ devUsed = {} /\ crashed = FALSE /\ nops = 0

AllPages == 1..(CpuPages + NGpus * GpuPages)
\* pages the implementation can obtain: a page in limbo is treated as leaked when that deviation is switched on
FreeOn(T) == {p \in AllPages : OnAny(p, T) /\ p \notin out /\ p \notin limbo}
Picks(S, n) ==
  IF PickAny THEN {s \in [1..n -> S] : Injective(s)}
  ELSE LET low == {p \in S : Cardinality({q \in S : q < p}) < n} IN
       {s \in [1..n -> low] : \A i, j \in 1..n : i < j => s[i] < s[j]}
KthFree(S, k) == CHOOSE p \in S : Cardinality({q \in S : q < p}) = k - 1
Gpus == {d \in DevIds : Dev(d).type = "gpu"}
GpuSeqs == {s \in UNION {[1..k -> Gpus] : k \in 1..2} : Injective(s)}

\* distributorImpl.Distribute: which GPU page i (0-based) of n goes to
DistPlacement(n, gs) ==
  LET G == Len(gs)
      per == n \div G
      use0 == IF per > 0 THEN n \div per ELSE 0
      use == IF use0 > G THEN G ELSE use0
      last == IF use > 0 THEN use - 1 ELSE 0 IN
  [i \in 1..n |-> IF (i - 1) < per * use THEN gs[((i - 1) \div per) + 1] ELSE gs[last + 1]]

DoAlloc(pid, d, n) ==
  /\ FitsPool(Targets(d), n)
  /\ IF Cardinality(FreeOn(Targets(d))) >= n
     THEN \E ps \in Picks(FreeOn(Targets(d)), n) : Alloc(pid, d, ps)
     ELSE OutOfMemory(Targets(d), n, TRUE)

DoFree(b) ==
  LET pid == bufs[b].pid
      dv == {x \in Deviations \cap {"FreeUnmapsFirstPageOnly", "MirrorKeyedByVAddrOnly"} :
               \/ (x = "FreeUnmapsFirstPageOnly" /\ bufs[b].n > 1)
               \/ (x = "MirrorKeyedByVAddrOnly" /\ VOwn(bufs[b].v) # pid)} IN
  IF "MirrorKeyedByVAddrOnly" \in Deviations /\ <<VOwn(bufs[b].v), bufs[b].v>> \notin DOMAIN pt
  THEN FreeCrash(pid, b)
  ELSE Free(pid, b, dv)

DoRemap(pid, v, ds) ==
  LET n == Len(ds)
      T == UNION {Targets(ds[i]) : i \in 1..n}
      dv == IF "RemapRecordsGivenDeviceID" \in Deviations /\ \E i \in 1..n : ~Actual(ds[i])
            THEN {"RemapRecordsGivenDeviceID"} ELSE {} IN
  /\ \A t \in T : LiveOn(t) + Cardinality({i \in 1..n : t \in Targets(ds[i])}) <= Dev(t).n
  /\ IF \A i \in 1..n : Cardinality(FreeOn(Targets(ds[i]))) >= Cardinality({j \in 1..n : ds[j] = ds[i]})
     THEN IF PickAny /\ \A i \in 1..n : ds[i] = ds[1]
          THEN \E ps \in Picks(FreeOn(Targets(ds[1])), n) : Remap(pid, v, ds, ps, dv)
          ELSE Remap(pid, v, ds, [i \in 1..n |-> KthFree(FreeOn(Targets(ds[i])), Cardinality({j \in 1..i : ds[j] = ds[i]}))], dv)
     ELSE \E t \in T : OutOfMemory({t}, n, FALSE)

\* the calls the environment may issue in the current state (arguments valid; capacity is checked by Do)
OpsNow ==
  {[a |-> "Alloc", pid |-> p, dev |-> d, n |-> n] : p \in Pids, d \in DevIds, n \in 1..MaxN}
  \cup {[a |-> "Free", b |-> b] : b \in LiveBufs}
  \cup UNION {{[a |-> "Remap", b |-> b, dev |-> d, off |-> off, n |-> n] :
                 d \in DevIds, off \in 0..(bufs[b].n - 1), n \in 1..bufs[b].n} : b \in LiveBufs}
  \cup {[a |-> "Dist", b |-> b, gpus |-> gs] : b \in LiveBufs, gs \in {g \in GpuSeqs : Len(g) > 1}}
  \cup UNION {{[a |-> "Mig", b |-> b, dev |-> g, off |-> off] : g \in Gpus, off \in 0..(bufs[b].n - 1)} : b \in LiveBufs}

BufMapped(b, off, n) ==
  /\ off + n <= bufs[b].n
  /\ \A i \in 0..(n - 1) : <<bufs[b].pid, bufs[b].v + off + i>> \in DOMAIN pt

Do(o) ==
  CASE o.a = "Alloc" -> DoAlloc(o.pid, o.dev, o.n)
    [] o.a = "Free" -> DoFree(o.b)
    [] o.a = "Remap" -> /\ BufMapped(o.b, o.off, o.n)
                        /\ DoRemap(bufs[o.b].pid, bufs[o.b].v + o.off, [i \in 1..o.n |-> o.dev])
    [] o.a = "Dist" -> /\ BufMapped(o.b, 0, bufs[o.b].n)
                       /\ DoRemap(bufs[o.b].pid, bufs[o.b].v, DistPlacement(bufs[o.b].n, o.gpus))
    [] o.a = "Mig" -> /\ BufMapped(o.b, o.off, 1)
                      /\ pt[<<bufs[o.b].pid, bufs[o.b].v + o.off>>].ppn \notin {p \in AllPages : OnDev(p, o.dev)}
                      /\ WithinCap({o.dev}, 1)
                      /\ IF FreeOn({o.dev}) # {}
                         THEN \E p \in FreeOn({o.dev}) :
                                /\ (PickAny \/ \A q \in FreeOn({o.dev}) : q >= p)
                                /\ PrepareMigration(bufs[o.b].pid, bufs[o.b].v + o.off, o.dev, p)
                         ELSE OutOfMemory({o.dev}, 1, FALSE)

Tick == ~crashed /\ nops < MaxOps /\ nops' = nops + 1
AllocStep == Tick /\ \E o \in OpsNow : o.a = "Alloc" /\ Do(o)
FreeStep == Tick /\ \E o \in OpsNow : o.a = "Free" /\ Do(o)
\* Remap onto the device that already holds the pages is a step of its own (old and new frames share a free list)
SameDev(o) == /\ BufMapped(o.b, o.off, o.n) /\ Actual(o.dev)
              /\ \A i \in 0..(o.n - 1) : pt[<<bufs[o.b].pid, bufs[o.b].v + o.off + i>>].dev = o.dev
RemapStep == Tick /\ \E o \in OpsNow : o.a = "Remap" /\ ~SameDev(o) /\ Do(o)
SameDevRemapStep == Tick /\ \E o \in OpsNow : o.a = "Remap" /\ SameDev(o) /\ Do(o)
DistStep == Tick /\ \E o \in OpsNow : o.a = "Dist" /\ Do(o)
MigStep == Tick /\ \E o \in OpsNow : o.a = "Mig" /\ Do(o)
MCNext == AllocStep \/ FreeStep \/ RemapStep \/ SameDevRemapStep \/ DistStep \/ MigStep

MCSpec == Init /\ [][MCNext]_<<vars, nops>>
=============================================================================
