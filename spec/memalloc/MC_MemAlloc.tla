---------------------------- MODULE MC_MemAlloc ----------------------------
(* Bounded model of MemAlloc for TLC: a fixed small platform, the environment *)
(* issues any valid call that stays within capacity.                           *)
EXTENDS MemAlloc

VARIABLE nops    \* number of calls so far (bounds the history)

CONSTANTS Pids,      \* processes
          MaxN,      \* largest buffer (pages)
          MaxOps,    \* history length
          PickAny,   \* TRUE: any free page may be obtained; FALSE: the lowest ones (smaller state space)
          CpuPages, GpuPages, NGpus   \* platform: CPU, NGpus GPUs, one unified device over all GPUs

MCDevs ==
  LET gpu(i) == [type |-> "gpu", base |-> 1 + CpuPages + (i - 1) * GpuPages, n |-> GpuPages, mem |-> {}] IN
  <<[type |-> "cpu", base |-> 1, n |-> CpuPages, mem |-> {}]>>
  \o [i \in 1..NGpus |-> gpu(i)]
  \o <<[type |-> "uni", base |-> 0, n |-> 0, mem |-> 1..NGpus]>>

Init ==
  /\ devs = MCDevs /\ out = {} /\ limbo = {} /\ nextV = <<>> /\ vown = <<>> /\ pt = <<>>
  /\ bufs = <<>> /\ held = {} /\ devUsed = {} /\ crashed = FALSE /\ nops = 0

AllPages == 1..(CpuPages + NGpus * GpuPages)
\* pages the implementation can obtain: a page in limbo is treated as leaked when that deviation is switched on
FreeOn(T) == {p \in AllPages : OnAny(p, T) /\ p \notin out /\ p \notin limbo}
Picks(S, n) ==
  IF PickAny THEN {s \in [1..n -> S] : Injective(s)}
  ELSE LET low == {p \in S : Cardinality({q \in S : q < p}) < n} IN
       {s \in [1..n -> low] : \A i, j \in 1..n : i < j => s[i] < s[j]}
KthFree(S, k) == CHOOSE p \in S : Cardinality({q \in S : q < p}) = k - 1
Gpus == {d \in DevIds : Dev(d).type = "gpu"}
GpuSeqs == {s \in UNION {[1..k -> Gpus] : k \in 1..2} : Injective(s)}

\* distributorImpl.Distribute: which GPU page i (0-based) of n goes to
DistPlacement(n, gs) ==
  LET G == Len(gs)
      per == n \div G
      use0 == IF per > 0 THEN n \div per ELSE 0
      use == IF use0 > G THEN G ELSE use0
      last == IF use > 0 THEN use - 1 ELSE 0 IN
  [i \in 1..n |-> IF (i - 1) < per * use THEN gs[((i - 1) \div per) + 1] ELSE gs[last + 1]]

DoAlloc(pid, d, n) ==
  /\ WithinCap(Targets(d), n)
  /\ IF Cardinality(FreeOn(Targets(d))) >= n
     THEN \E ps \in Picks(FreeOn(Targets(d)), n) : Alloc(pid, d, ps)
     ELSE OutOfMemory(Targets(d), n)

DoFree(b) ==
  LET pid == bufs[b].pid
      dv == {x \in Deviations \cap {"FreeUnmapsFirstPageOnly", "MirrorKeyedByVAddrOnly"} :
               \/ (x = "FreeUnmapsFirstPageOnly" /\ bufs[b].n > 1)
               \/ (x = "MirrorKeyedByVAddrOnly" /\ VOwn(bufs[b].v) # pid)} IN
  IF "MirrorKeyedByVAddrOnly" \in Deviations /\ <<VOwn(bufs[b].v), bufs[b].v>> \notin DOMAIN pt
  THEN FreeCrash(pid, b)
  ELSE Free(pid, b, dv)

DoRemap(pid, v, ds) ==
  LET n == Len(ds)
      T == UNION {Targets(ds[i]) : i \in 1..n}
      dv == IF "RemapRecordsGivenDeviceID" \in Deviations /\ \E i \in 1..n : ~Actual(ds[i])
            THEN {"RemapRecordsGivenDeviceID"} ELSE {} IN
  /\ \A t \in T : LiveOn(t) + n <= Dev(t).n
  /\ IF \A i \in 1..n : Cardinality(FreeOn(Targets(ds[i]))) >= Cardinality({j \in 1..n : ds[j] = ds[i]})
     THEN IF PickAny /\ \A i \in 1..n : ds[i] = ds[1]
          THEN \E ps \in Picks(FreeOn(Targets(ds[1])), n) : Remap(pid, v, ds, ps, dv)
          ELSE Remap(pid, v, ds, [i \in 1..n |-> KthFree(FreeOn(Targets(ds[i])), Cardinality({j \in 1..i : ds[j] = ds[i]}))], dv)
     ELSE \E t \in T : OutOfMemory({t}, n)

MCNext ==
  /\ ~crashed /\ nops < MaxOps /\ nops' = nops + 1
  /\ \/ \E pid \in Pids, d \in DevIds, n \in 1..MaxN : DoAlloc(pid, d, n)
     \/ \E b \in LiveBufs : DoFree(b)
     \/ \E b \in LiveBufs, d \in DevIds : \E off \in 0..(bufs[b].n - 1) : \E n \in 1..(bufs[b].n - off) :
          /\ \A i \in 0..(n - 1) : <<bufs[b].pid, bufs[b].v + off + i>> \in DOMAIN pt
          /\ DoRemap(bufs[b].pid, bufs[b].v + off, [i \in 1..n |-> d])
     \/ \E b \in LiveBufs, gs \in GpuSeqs :
          /\ Len(gs) > 1
          /\ \A i \in 0..(bufs[b].n - 1) : <<bufs[b].pid, bufs[b].v + i>> \in DOMAIN pt
          /\ DoRemap(bufs[b].pid, bufs[b].v, DistPlacement(bufs[b].n, gs))
     \/ \E b \in LiveBufs, g \in Gpus : \E off \in 0..(bufs[b].n - 1) :
          /\ <<bufs[b].pid, bufs[b].v + off>> \in DOMAIN pt
          /\ WithinCap({g}, 1)
          /\ IF FreeOn({g}) # {}
             THEN \E p \in FreeOn({g}) : (PickAny \/ \A q \in FreeOn({g}) : q >= p)
                                          /\ PrepareMigration(bufs[b].pid, bufs[b].v + off, g, p)
             ELSE OutOfMemory({g}, 1)

MCSpec == Init /\ [][MCNext]_<<vars, nops>>
=============================================================================
