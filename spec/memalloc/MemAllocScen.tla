---------------------------- MODULE MemAllocScen ----------------------------
(* MC_MemAlloc with a history variable naming the call taken: `tlc -simulate` *)
(* on this module yields histories of valid API calls within capacity, which  *)
(* harness/c10lib replays on the real driver (buffers are named by their      *)
(* allocation index, devices by id, so the history does not depend on the     *)
(* addresses the implementation hands out).                                   *)
EXTENDS MC_MemAlloc
VARIABLE act

SInit == Init /\ act = [a |-> "Init"]
\* -simulate picks uniformly among successor states; the salt w multiplies the successors of the rarer kinds
\* of call so that histories are not dominated by the many (offset, length, device) variants of Remap.
Weight(k) == CASE k = "Alloc" -> 3 [] k = "Free" -> 6 [] k = "Remap" -> 1 [] k = "Dist" -> 4 [] k = "Mig" -> 4
SNext ==
  /\ ~crashed /\ nops < MaxOps /\ nops' = nops + 1
  /\ \E o \in OpsNow : /\ (o.a = "Remap" => (o.n = 1 \/ o.off + o.n = bufs[o.b].n))
                        /\ Do(o)
                        /\ \E w \in 1..Weight(o.a) : act' = [o |-> o, w |-> w]
SSpec == SInit /\ [][SNext]_<<vars, nops, act>>
=============================================================================
