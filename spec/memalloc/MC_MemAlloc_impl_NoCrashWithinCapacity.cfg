SPECIFICATION MCSpec
CONSTANTS
  Deviations = {"FreeUnmapsFirstPageOnly", "MirrorKeyedByVAddrOnly", "RemapLeaksOldPages", "RemapRecordsGivenDeviceID"}
  Pids = {1, 2}
  MaxN = 2
  MaxOps = 4
  PickAny = FALSE
  CpuPages = 2
  GpuPages = 3
  NGpus = 2
INVARIANTS NoCrashWithinCapacity
CHECK_DEADLOCK FALSE
