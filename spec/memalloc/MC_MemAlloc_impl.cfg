SPECIFICATION MCSpec
CONSTANTS
  Deviations = {"FreeUnmapsFirstPageOnly", "MirrorKeyedByVAddrOnly", "RemapLeaksOldPages", "RemapRecordsGivenDeviceID"}
  Pids = {1, 2}
  MaxN = 2
  MaxOps = 4
  PickAny = FALSE
  CpuPages = 2
  GpuPages = 3
  NGpus = 2
INVARIANTS TypeOK LivePagesDisjoint VirtualBuffersDisjoint P_LivePagesDisjoint P_InsideRecordedDevice P_VirtualBuffersDisjoint P_TableAgreesWithAllocator P_ReusableExactly P_NoCrashWithinCapacity
CHECK_DEADLOCK FALSE
