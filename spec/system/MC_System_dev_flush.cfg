SPECIFICATION Spec
CONSTANTS
  NGpu = 2
  Prog <- MCProgHang
  NWG = 3
  Deviations = {"flush_ack_does_not_complete"}
INVARIANTS ExactlyOnce AtMostOnce NoEarlyRsp
PROPERTY Terminates
