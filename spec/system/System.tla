------------------------------- MODULE System -------------------------------
(***************************************************************************)
(* Design-level model of the path  driver command queue -> command         *)
(* processor -> compute units  for several GPUs, at the grain of the       *)
(* messages the system trace records (SysTrace.tla):                       *)
(*                                                                         *)
(*   a queue executes its commands one at a time, in order;                *)
(*   a launch command sends one LaunchKernelReq per GPU of its device      *)
(*   (plain: the queue's GPU owns the whole grid; unified: the grid is     *)
(*   split into per-GPU shares), each command processor maps every         *)
(*   work-group of its share to a CU once, collects the completions and    *)
(*   answers; the command ends when every GPU answered;                    *)
(*   a copy command that touches a buffer dirtied by a kernel first asks   *)
(*   every GPU to flush; the command processor of the target GPU serves    *)
(*   the copy only after its own flush; the command ends when every        *)
(*   request (flushes and copy) has been answered.                         *)
(*                                                                         *)
(* Deviations (DESIGN.md 2.2) name departures read in / found in the code: *)
(*   "flush_ack_does_not_complete"  processFlushReturn removes the request *)
(*        but never completes the command (defect found by C01/C18, fixed) *)
(*   "share_gap"     the last work-group of a GPU's share belongs to nobody*)
(*   "share_overlap" the first work-group of the next share is owned twice *)
(*   "early_rsp"     a command processor answers with work-groups in flight*)
(*   "no_flush"      a copy from a dirty buffer does not flush             *)
(* With Deviations = {} the invariants and termination hold (MC_System);   *)
(* each deviation makes TLC produce the corresponding counterexample.      *)
(* `act` is a history variable in the vocabulary of the system trace, so   *)
(* that behaviours of this model can be fed to SysTrace.tla.               *)
(***************************************************************************)
EXTENDS Integers, Sequences, FiniteSets, TLC

CONSTANTS NGpu,        \* GPUs 1..NGpu
          Prog,        \* sequence (one entry per queue) of sequences of commands
                       \*   [k |-> "launch", dev |-> g]   plain launch on GPU g
                       \*   [k |-> "ulaunch"]             launch on the unified device of all GPUs
                       \*   [k |-> "d2h", dev |-> g] / [k |-> "h2d", dev |-> g]
          NWG,         \* work-groups per grid
          Deviations

Gpus == 1..NGpu
Queues == 1..Len(Prog)
WGs == 0..(NWG - 1)

VARIABLES pc,       \* pc[q]: index of the command queue q executes next / is executing
          st,       \* st[q]: "idle" | "run"
          share,    \* share[q][g]: work-groups GPU g must run for q's current launch (<<>>-like {} when none)
          tomap, inflight, done,   \* [q][g] sets of work-groups
          asked,    \* asked[q]: GPUs that received the launch request and have not answered
          flushp,   \* flushp[q]: GPUs whose flush acknowledgement is outstanding for q's copy
          copyp,    \* copyp[q]: the copy request is outstanding
          dirty,    \* a kernel ran since the last complete flush (driver's view, one context)
          cache,    \* cache[g]: GPU g may hold lines newer than its DRAM
          runs,     \* runs[w]: how often work-group w of the *current* launch of each queue ran: [q][w]
          act
vars == <<pc, st, share, tomap, inflight, done, asked, flushp, copyp, dirty, cache, runs, act>>

Cmd(q) == Prog[q][pc[q]]
Busy(q) == st[q] = "run"
Finished(q) == pc[q] > Len(Prog[q])
Empty == [g \in Gpus |-> {}]
CmdId(q) == q * 100 + pc[q]
LaunchId(q, g) == CmdId(q) * 10 + g

\* contiguous split of the grid over the GPUs, with the two partition deviations
Lo(g) == ((g - 1) * NWG) \div NGpu
Hi(g) == (g * NWG) \div NGpu
UShare(g) ==
  LET base == Lo(g)..(Hi(g) - 1)
      gap == IF "share_gap" \in Deviations /\ g < NGpu /\ Hi(g) > Lo(g) THEN base \ {Hi(g) - 1} ELSE base
  IN IF "share_overlap" \in Deviations /\ g < NGpu /\ Hi(g) < NWG THEN gap \cup {Hi(g)} ELSE gap

Init ==
  /\ pc = [q \in Queues |-> 1] /\ st = [q \in Queues |-> "idle"]
  /\ share = [q \in Queues |-> Empty] /\ tomap = [q \in Queues |-> Empty]
  /\ inflight = [q \in Queues |-> Empty] /\ done = [q \in Queues |-> Empty]
  /\ asked = [q \in Queues |-> {}] /\ flushp = [q \in Queues |-> {}] /\ copyp = [q \in Queues |-> FALSE]
  /\ dirty = FALSE /\ cache = [g \in Gpus |-> FALSE]
  /\ runs = [q \in Queues |-> [w \in WGs |-> 0]]
  /\ act = [e |-> "Init"]

\* ---------------------------------------------------------------- launches
StartLaunch(q) ==
  /\ ~Finished(q) /\ ~Busy(q) /\ Cmd(q).k \in {"launch", "ulaunch"}
  /\ LET sh == IF Cmd(q).k = "launch" THEN [g \in Gpus |-> IF g = Cmd(q).dev THEN WGs ELSE {}]
               ELSE [g \in Gpus |-> UShare(g)]
         to == IF Cmd(q).k = "launch" THEN {Cmd(q).dev} ELSE Gpus
     IN /\ share' = [share EXCEPT ![q] = sh] /\ tomap' = [tomap EXCEPT ![q] = sh]
        /\ asked' = [asked EXCEPT ![q] = to]
        /\ act' = [e |-> "StartLaunch", q |-> q, c |-> CmdId(q), kind |-> Cmd(q).k, to |-> to, own |-> sh]
  /\ st' = [st EXCEPT ![q] = "run"]
  /\ inflight' = [inflight EXCEPT ![q] = Empty] /\ done' = [done EXCEPT ![q] = Empty]
  /\ runs' = [runs EXCEPT ![q] = [w \in WGs |-> 0]]
  /\ dirty' = TRUE /\ cache' = [g \in Gpus |-> TRUE]
  /\ UNCHANGED <<pc, flushp, copyp>>

MapWG(q, g, w) ==
  /\ Busy(q) /\ g \in asked[q] /\ w \in tomap[q][g]
  /\ tomap' = [tomap EXCEPT ![q][g] = @ \ {w}]
  /\ inflight' = [inflight EXCEPT ![q][g] = @ \cup {w}]
  /\ act' = [e |-> "MapWG", g |-> g, id |-> LaunchId(q, g), wg |-> w]
  /\ UNCHANGED <<pc, st, share, done, asked, flushp, copyp, dirty, cache, runs>>

DoneWG(q, g, w) ==
  /\ Busy(q) /\ w \in inflight[q][g]
  /\ inflight' = [inflight EXCEPT ![q][g] = @ \ {w}]
  /\ done' = [done EXCEPT ![q][g] = @ \cup {w}]
  /\ runs' = [runs EXCEPT ![q][w] = @ + 1]
  /\ act' = [e |-> "WGDone", g |-> g, id |-> LaunchId(q, g), wg |-> w]
  /\ UNCHANGED <<pc, st, share, tomap, asked, flushp, copyp, dirty, cache>>

Rsp(q, g) ==
  /\ Busy(q) /\ g \in asked[q] /\ tomap[q][g] = {}
  /\ (inflight[q][g] = {} \/ "early_rsp" \in Deviations)
  /\ asked' = [asked EXCEPT ![q] = @ \ {g}]
  /\ act' = [e |-> "LaunchRsp", g |-> g, id |-> LaunchId(q, g)]
  /\ UNCHANGED <<pc, st, share, tomap, inflight, done, flushp, copyp, dirty, cache, runs>>

EndLaunch(q) ==
  /\ Busy(q) /\ Cmd(q).k \in {"launch", "ulaunch"} /\ asked[q] = {}
  /\ st' = [st EXCEPT ![q] = "idle"] /\ pc' = [pc EXCEPT ![q] = @ + 1]
  /\ act' = [e |-> "CmdEnd", c |-> CmdId(q)]
  /\ UNCHANGED <<share, tomap, inflight, done, asked, flushp, copyp, dirty, cache, runs>>

\* ------------------------------------------------------------------ copies
StartCopy(q) ==
  /\ ~Finished(q) /\ ~Busy(q) /\ Cmd(q).k \in {"d2h", "h2d"}
  /\ st' = [st EXCEPT ![q] = "run"]
  /\ flushp' = [flushp EXCEPT ![q] = IF dirty /\ "no_flush" \notin Deviations THEN Gpus ELSE {}]
  /\ copyp' = [copyp EXCEPT ![q] = TRUE]
  /\ act' = [e |-> "StartCopy", q |-> q, c |-> CmdId(q), kind |-> Cmd(q).k, g |-> Cmd(q).dev,
              flush |-> (dirty /\ "no_flush" \notin Deviations)]
  /\ UNCHANGED <<pc, share, tomap, inflight, done, asked, dirty, cache, runs>>

Complete(q) ==
  /\ st' = [st EXCEPT ![q] = "idle"] /\ pc' = [pc EXCEPT ![q] = @ + 1]

\* a command processor acknowledges a flush: its caches are written back - clean unless a kernel is still running somewhere
FlushAck(q, g) ==
  /\ Busy(q) /\ g \in flushp[q]
  /\ flushp' = [flushp EXCEPT ![q] = @ \ {g}]
  /\ cache' = [cache EXCEPT ![g] = \E p \in Queues : Busy(p) /\ Cmd(p).k \in {"launch", "ulaunch"}]
  /\ LET last == flushp[q] = {g} /\ ~copyp[q] IN
       IF last /\ "flush_ack_does_not_complete" \notin Deviations
       THEN Complete(q) /\ dirty' = FALSE
       ELSE UNCHANGED <<pc, st>> /\ dirty' = dirty
  /\ act' = [e |-> "FlushRsp", g |-> g, c |-> CmdId(q)]
  /\ UNCHANGED <<share, tomap, inflight, done, asked, copyp, runs>>

\* the target GPU's command processor serves the copy only when its own flush is over
CopyDone(q) ==
  /\ Busy(q) /\ Cmd(q).k \in {"d2h", "h2d"} /\ copyp[q] /\ Cmd(q).dev \notin flushp[q]
  /\ copyp' = [copyp EXCEPT ![q] = FALSE]
  /\ IF flushp[q] = {} THEN Complete(q) ELSE UNCHANGED <<pc, st>>
  /\ act' = [e |-> "CopyRsp", g |-> Cmd(q).dev, c |-> CmdId(q), kind |-> Cmd(q).k, stale |-> cache[Cmd(q).dev]]
  /\ UNCHANGED <<share, tomap, inflight, done, asked, flushp, dirty, cache, runs>>

AllDone == \A q \in Queues : Finished(q)
Idle == AllDone /\ act' = [e |-> "Quiesce"] /\ UNCHANGED <<pc, st, share, tomap, inflight, done, asked, flushp, copyp, dirty, cache, runs>>

Next ==
  \/ \E q \in Queues : StartLaunch(q) \/ EndLaunch(q) \/ StartCopy(q) \/ CopyDone(q)
  \/ \E q \in Queues, g \in Gpus : Rsp(q, g) \/ FlushAck(q, g)
  \/ \E q \in Queues, g \in Gpus, w \in WGs : MapWG(q, g, w) \/ DoneWG(q, g, w)
  \/ Idle
Spec == Init /\ [][Next]_vars /\ WF_vars(Next)

\* ------------------------------------------------------------- properties
\* when a launch command ends every work-group of the grid ran exactly once
ExactlyOnce == act.e = "CmdEnd" => \A q \in Queues : (CmdId(q) - 1 = act.c) => \A w \in WGs : runs[q][w] = 1
\* no work-group ever runs twice
AtMostOnce == \A q \in Queues, w \in WGs : runs[q][w] <= 1
\* a kernel is reported finished only when nothing of it is in flight
NoEarlyRsp == act.e = "LaunchRsp" => \A q \in Queues : (LaunchId(q, act.g) = act.id => inflight[q][act.g] = {})
\* a device-to-host copy never reads DRAM behind dirty caches when no other queue is running a kernel
NoStaleRead == (act.e = "CopyRsp" /\ act.kind = "d2h" /\ ~\E p \in Queues : Busy(p) /\ Cmd(p).k \in {"launch", "ulaunch"}) => ~act.stale
\* every queue drains (no command is left executing for ever); deadlock checking decides it: the only state without a
\* successor other than stuttering is AllDone
Terminates == <>AllDone
=============================================================================
