SPECIFICATION Spec
CONSTANTS
  NGpu = 2
  Prog <- MCProgSeq
  NWG = 3
  Deviations = {"share_overlap"}
INVARIANTS ExactlyOnce AtMostOnce NoEarlyRsp NoStaleRead
PROPERTY Terminates
