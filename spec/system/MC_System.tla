----------------------------- MODULE MC_System -----------------------------
EXTENDS System
\* two queues as in a plain multi-GPU workload next to a unified launch: queue 1 launches on the unified device and reads
\* the result back, queue 2 launches on GPU 2 and then copies to GPU 1 (the copy finds the buffers dirty and flushes all GPUs)
MCProg == << << [k |-> "ulaunch"], [k |-> "d2h", dev |-> 1] >>,
             << [k |-> "launch", dev |-> 2], [k |-> "h2d", dev |-> 1], [k |-> "launch", dev |-> 1] >> >>
\* one queue: kernel, read back, kernel on the unified device, read back
MCProgSeq == << << [k |-> "launch", dev |-> 1], [k |-> "d2h", dev |-> 2], [k |-> "ulaunch"], [k |-> "d2h", dev |-> 1] >> >>
\* the shape of the hang found in fir on four GPUs: queue 1 copies to GPU 1 while the kernel of queue 2 still runs on GPU 2
MCProgHang == << << [k |-> "launch", dev |-> 1], [k |-> "h2d", dev |-> 1] >>, << [k |-> "launch", dev |-> 2] >> >>
=============================================================================
