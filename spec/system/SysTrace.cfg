SPECIFICATION TSpec
INVARIANT Rules
CONSTRAINT Mark
POSTCONDITION Accepted
CHECK_DEADLOCK FALSE
