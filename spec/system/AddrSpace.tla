------------------------------ MODULE AddrSpace ------------------------------
(***************************************************************************)
(* Address spaces are per process: every driver context has its own PID    *)
(* and its own page-table entries, and every context bump-allocates from   *)
(* the same first virtual page, so two contexts with the same allocation   *)
(* history use the same virtual pages for different physical pages.        *)
(*                                                                         *)
(*   Alloc(c)        context c maps its next virtual page to a fresh       *)
(*                   physical page (page table keyed by <<pid, vpage>>)    *)
(*   Dispatch(c, u)  compute unit u starts a work-group of a kernel of c;  *)
(*                   a kernel is identified by the virtual address of its  *)
(*                   dispatch packet (the same in both contexts)           *)
(*   Access(u, v)    the work-group on u touches virtual page v of its     *)
(*                   context: the access resolves to a physical page       *)
(*                                                                         *)
(* Invariant Isolation: every access of a work-group of context c resolves *)
(* to a physical page that c allocated (so the result of one instance does *)
(* not depend on another - also the isolation clause of C12).              *)
(* Deviation "cache_without_pid": each compute unit keeps translations     *)
(* tagged by virtual page only and drops them when a dispatch with another *)
(* packet address starts (seed C01g-emu-translation-cache-without-pid):    *)
(* TLC finds B's access resolving to A's page.  The sysrun program `twins` *)
(* drives the real simulator through this scenario.                        *)
(***************************************************************************)
EXTENDS Integers, FiniteSets, TLC

CONSTANTS NCtx, NCU, NPages, Deviations

Ctxs == 1..NCtx
CUs == 1..NCU
VARIABLES pt,        \* page table: <<pid, vpage>> -> physical page
          nextv,     \* nextv[c]: next virtual page of context c
          nextp,     \* next free physical page
          owner,     \* physical page -> context that allocated it
          running,   \* running[u]: context whose work-group is on CU u (0: none)
          cache,     \* cache[u]: vpage -> physical page (only with the deviation)
          tag,       \* cache[u] is valid for the dispatch with this packet page
          last       \* last access: [c, v, p]
vars == <<pt, nextv, nextp, owner, running, cache, tag, last>>

Empty == [x \in {} |-> 0]
Init == /\ pt = Empty /\ nextv = [c \in Ctxs |-> 1] /\ nextp = 1 /\ owner = Empty
        /\ running = [u \in CUs |-> 0] /\ cache = [u \in CUs |-> Empty] /\ tag = [u \in CUs |-> 0]
        /\ last = [c |-> 0, v |-> 0, p |-> 0]

Alloc(c) ==
  /\ nextv[c] <= NPages
  /\ pt' = (<<c, nextv[c]>> :> nextp) @@ pt
  /\ owner' = (nextp :> c) @@ owner
  /\ nextv' = [nextv EXCEPT ![c] = @ + 1] /\ nextp' = nextp + 1
  /\ UNCHANGED <<running, cache, tag, last>>

\* the dispatch packet of a context's kernel is its last allocated page: same virtual page in contexts with equal histories
Packet(c) == nextv[c] - 1
Dispatch(c, u) ==
  /\ nextv[c] > 1
  /\ running' = [running EXCEPT ![u] = c]
  /\ IF tag[u] # Packet(c)
     THEN cache' = [cache EXCEPT ![u] = Empty] /\ tag' = [tag EXCEPT ![u] = Packet(c)]
     ELSE UNCHANGED <<cache, tag>>
  /\ UNCHANGED <<pt, nextv, nextp, owner, last>>

Access(u, v) ==
  /\ running[u] # 0 /\ <<running[u], v>> \in DOMAIN pt
  /\ LET c == running[u]
         hit == "cache_without_pid" \in Deviations /\ v \in DOMAIN cache[u]
         p == IF hit THEN cache[u][v] ELSE pt[<<c, v>>]
     IN /\ last' = [c |-> c, v |-> v, p |-> p]
        /\ cache' = IF "cache_without_pid" \in Deviations THEN [cache EXCEPT ![u] = (v :> p) @@ @] ELSE cache
  /\ UNCHANGED <<pt, nextv, nextp, owner, running, tag>>

Next == \/ \E c \in Ctxs : Alloc(c)
        \/ \E c \in Ctxs, u \in CUs : Dispatch(c, u)
        \/ \E u \in CUs, v \in 1..NPages : Access(u, v)
Spec == Init /\ [][Next]_vars

Isolation == last.c # 0 => owner[last.p] = last.c
=============================================================================
