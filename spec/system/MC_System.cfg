SPECIFICATION Spec
CONSTANTS
  NGpu = 2
  Prog <- MCProg
  NWG = 3
  Deviations = {}
INVARIANTS ExactlyOnce AtMostOnce NoEarlyRsp
PROPERTY Terminates
