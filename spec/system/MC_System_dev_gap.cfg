SPECIFICATION Spec
CONSTANTS
  NGpu = 2
  Prog <- MCProgSeq
  NWG = 3
  Deviations = {"share_gap"}
INVARIANTS ExactlyOnce AtMostOnce NoEarlyRsp NoStaleRead
PROPERTY Terminates
